(* Lifting the boolean checks over the generated exception-flow table to statements about its rows. *)
From Coq Require Import NArith List Bool String.
From I18n Require Import Model.Handlers.
Import ListNotations.

Lemma site_ok_handled : forall s, site_ok s = true -> handled s.
Proof.
  intros s H. unfold site_ok in H. unfold handled.
  destruct (s_disp s) as [l a | n | | w | i w | w] eqn:E.
  - left. exists l, a. reflexivity.
  - right. left. exists n. reflexivity.
  - right. right. left. reflexivity.
  - right. right. right. left. exists w. reflexivity.
  - right. right. right. right. exists i, w. reflexivity.
  - discriminate H.
Qed.

Lemma all_sites_handled : forall l, forallb site_ok l = true -> forall s, In s l -> handled s.
Proof.
  intros l H s Hin. apply site_ok_handled. exact (proj1 (forallb_forall site_ok l) H s Hin).
Qed.

Lemma handled_not_uncaught : forall s, handled s -> forall w, s_disp s <> Uncaught w.
Proof.
  intros s H w E. unfold handled in H. rewrite E in H.
  destruct H as [[l [a H]] | [[n H] | [H | [[w' H] | [i [w' H]]]]]]; discriminate H.
Qed.

Lemma all_raises_classified : forall l, forallb raise_ok l = true -> forall r, In r l -> r_status r <> Unclassified.
Proof.
  intros l H r Hin E. pose proof (proj1 (forallb_forall raise_ok l) H r Hin) as Hr.
  unfold raise_ok in Hr. rewrite E in Hr. discriminate Hr.
Qed.

(* C11, part (b): Conversion.__init__ (model) accepts a well-formed directive iff it is a valid_directive and its
   argument references can be added; it never crashes (with the int() digit limit lifted). *)
From Coq Require Import List NArith ZArith Bool Lia ZifyBool String.
From I18n Require Import Lib.Outcome Lib.CFmtSyntax Generated.CInfo Model.FmtC Spec.Printf Proofs.FmtCScan.
Import ListNotations.
Local Open Scope Z_scope.

Lemma nl_eq : c_NL_ARGMAX = NL_ARGMAX. Proof. reflexivity. Qed.
Lemma intmax_eq : c_INT_MAX = INT_MAX. Proof. reflexivity. Qed.

(* ------------------------------------------------------------------ *)
(* the argument map without warnings and error payloads                 *)

Definition core := (list (Z * arg) * option Z)%type.
Definition core_of (st : pstate) : core := (st_entries st, st_next st).

Definition add_core (c : core) (n : option Z) (v : arg) : option core :=
  let '(e, nx) := c in
  match n, nx with
  | None, None => None
  | None, Some k => if k >? NL_ARGMAX then None else Some (e ++ [(k, v)], Some (k + 1))
  | Some k, None => if k >? NL_ARGMAX then None else Some (e ++ [(k, v)], None)
  | Some k, Some j => if j =? 1 then (if k >? NL_ARGMAX then None else Some (e ++ [(k, v)], None)) else None
  end.

Fixpoint add_all (c : core) (rs : list (option Z * arg)) : option core :=
  match rs with
  | [] => Some c
  | (n, v) :: r => match add_core c n v with Some c' => add_all c' r | None => None end
  end.

Lemma add_all_app : forall a b c, add_all c (a ++ b) = match add_all c a with Some c' => add_all c' b | None => None end.
Proof.
  induction a as [|[n v] a IH]; intros b c; cbn [app add_all]; [reflexivity|].
  destruct (add_core c n v); [apply IH | reflexivity].
Qed.

(* unnumbered counter is >= 1, and 1 only while nothing has been added *)
Definition inv (c : core) : Prop :=
  match snd c with Some j => 1 <= j /\ (j = 1 -> fst c = []) | None => True end.

Lemma inv_init : inv (core_of st_init).
Proof. cbn. split; [lia | reflexivity]. Qed.

Lemma add_core_inv : forall c n v c', inv c -> add_core c n v = Some c' -> inv c'.
Proof.
  intros [e nx] n v c' Hi H. unfold add_core in H. unfold inv in *. cbn [fst snd] in *.
  destruct n as [k|]; destruct nx as [j|]; try discriminate.
  - destruct (j =? 1); [|discriminate]. destruct (k >? NL_ARGMAX); [discriminate|]. inversion H; subst. exact I.
  - destruct (k >? NL_ARGMAX); [discriminate|]. inversion H; subst. exact I.
  - destruct (j >? NL_ARGMAX); [discriminate|]. inversion H; subst. cbn [fst snd]. split; [lia|]. intros; lia.
Qed.

Lemma add_all_inv : forall rs c c', inv c -> add_all c rs = Some c' -> inv c'.
Proof.
  induction rs as [|[n v] rs IH]; intros c c' Hi H; cbn [add_all] in H.
  - inversion H; subst. exact Hi.
  - destruct (add_core c n v) as [c1|] eqn:E; [|discriminate]. apply (IH c1); [eapply add_core_inv; eassumption | exact H].
Qed.

Lemma add_argument_spec : forall txt st n v, inv (core_of st) ->
  match add_argument txt st n v with
  | Ok st' => add_core (core_of st) n v = Some (core_of st') /\ st_warn st' = st_warn st
  | Err _ => add_core (core_of st) n v = None
  | Crash _ => False
  end.
Proof.
  intros txt [e nx w] n v Hi. unfold inv, core_of in Hi. cbn [st_entries st_next fst snd] in Hi.
  unfold add_argument, add_core, core_of. cbn [st_entries st_next st_warn]. rewrite nl_eq.
  destruct n as [k|]; destruct nx as [j|].
  - destruct (j =? 1) eqn:Ej; [|reflexivity]. apply Z.eqb_eq in Ej. destruct Hi as [_ Hi]. rewrite (Hi Ej).
    destruct (k >? NL_ARGMAX); [reflexivity|]. split; reflexivity.
  - destruct (k >? NL_ARGMAX); [reflexivity|]. split; reflexivity.
  - destruct (j >? NL_ARGMAX); [reflexivity|]. split; reflexivity.
  - reflexivity.
Qed.

(* ------------------------------------------------------------------ *)
(* int() with the limit lifted                                          *)

Lemma py_int_0 : forall ds, py_int 0 ds = Ok (dec_value ds).
Proof. reflexivity. Qed.

Lemma range_eq : forall k, ((0 <? k) && (k <=? c_NL_ARGMAX)) = ((1 <=? k) && (k <=? NL_ARGMAX)).
Proof. intros k. rewrite nl_eq. lia. Qed.

(* ------------------------------------------------------------------ *)
(* model-level references                                               *)

Definition mstar (k : akind) (cid : nat) (integer : bool) (w : numspec) : list (option Z * arg) :=
  match w with NStar i => [(opt_value i, mkarg k cid (ctype_name int_t) integer)] | _ => [] end.

Lemma star_types : c_varwidth_type = ctype_name int_t /\ c_varprec_type = ctype_name int_t.
Proof. split; reflexivity. Qed.

Lemma star_arg_spec : forall txt st idx v, inv (core_of st) ->
  match star_arg 0 txt st idx v with
  | Ok st' => index_value_ok idx = true /\ add_core (core_of st) (opt_value idx) v = Some (core_of st') /\ st_warn st' = st_warn st
  | Err _ => index_value_ok idx = false \/ add_core (core_of st) (opt_value idx) v = None
  | Crash _ => False
  end.
Proof.
  intros txt st idx v Hi. unfold star_arg. destruct idx as [ds|]; cbn [index_value_ok opt_value].
  - rewrite py_int_0. cbn [obind]. rewrite range_eq.
    destruct ((1 <=? dec_value ds) && (dec_value ds <=? NL_ARGMAX)) eqn:E; cbn [obind].
    + pose proof (add_argument_spec txt st (Some (dec_value ds)) v Hi) as H.
      destruct (add_argument txt st (Some (dec_value ds)) v); [tauto | right; exact H | exact H].
    + left. reflexivity.
  - cbn [obind]. pose proof (add_argument_spec txt st None v Hi) as H.
    destruct (add_argument txt st None v); [tauto | right; exact H | exact H].
Qed.

Ltac mem_same :=
  let c := fresh "c" in
  intros c;
  match goal with |- mem c ?l1 = mem c ?l2 =>
    destruct (mem c l1) eqn:E1; destruct (mem c l2) eqn:E2; try reflexivity; exfalso;
    [ apply mem_In in E1; apply mem_false_In in E2; apply E2; vm_compute in E1 |- *; tauto
    | apply mem_In in E2; apply mem_false_In in E1; apply E1; vm_compute in E2 |- *; tauto ]
  end.

Lemma mem_pn : forall c, mem c [37; 110]%N = mem c (chars "n%"). Proof. mem_same. Qed.
Lemma mem_prec : c_int_cvt ++ c_float_cvt ++ c_str_cvt = chars "diouxXaAeEfFgGsS". Proof. reflexivity. Qed.

Lemma gtb_leb : forall a b, (a >? b) = negb (a <=? b).
Proof. intros. lia. Qed.

Lemma do_width_spec : forall txt cid integer cv st w, inv (core_of st) ->
  match do_width 0 txt cid integer cv st w with
  | Ok st' => width_ok cv w = true /\ add_all (core_of st) (mstar KWidth cid integer w) = Some (core_of st') /\ st_warn st' = st_warn st
  | Err _ => width_ok cv w = false \/ add_all (core_of st) (mstar KWidth cid integer w) = None
  | Crash _ => False
  end.
Proof.
  intros txt cid integer cv st w Hi. unfold do_width. destruct w as [|ds|i]; cbn [width_ok mstar add_all obind].
  - repeat split; reflexivity.
  - rewrite py_int_0. cbn [obind]. rewrite intmax_eq, gtb_leb. rewrite mem_pn.
    destruct (dec_value ds <=? INT_MAX); cbn [negb obind andb].
    + destruct (mem cv (chars "n%")); cbn [negb]; [left; reflexivity | repeat split; reflexivity].
    + left. reflexivity.
  - destruct star_types as [-> _].
    pose proof (star_arg_spec txt st i (mkarg KWidth cid (ctype_name int_t) integer) Hi) as H.
    destruct (star_arg 0 txt st i (mkarg KWidth cid (ctype_name int_t) integer)) as [st1|e|c]; cbn [obind].
    + destruct H as [H1 [H2 H3]]. rewrite H1, H2, mem_pn. cbn [andb].
      destruct (mem cv (chars "n%")); cbn [negb]; [left; reflexivity | repeat split; try reflexivity; exact H3].
    + destruct H as [H|H]; [left; rewrite H; reflexivity | right; rewrite H; reflexivity].
    + exact H.
Qed.

Lemma do_prec_spec : forall txt cid integer cv fl st p, inv (core_of st) ->
  match do_prec 0 txt cid integer cv fl st p with
  | Ok st' => prec_ok cv p = true /\ add_all (core_of st) (mstar KPrec cid integer p) = Some (core_of st')
  | Err _ => prec_ok cv p = false \/ add_all (core_of st) (mstar KPrec cid integer p) = None
  | Crash _ => False
  end.
Proof.
  intros txt cid integer cv fl st p Hi. unfold do_prec. rewrite mem_prec.
  destruct p as [|ds|i]; cbn [prec_ok mstar add_all obind].
  - split; reflexivity.
  - rewrite py_int_0. cbn [obind]. rewrite intmax_eq, gtb_leb.
    assert (dec_value match ds with [] => [48%N] | _ :: _ => ds end = dec_value ds) as -> by (destruct ds; reflexivity).
    destruct (dec_value ds <=? INT_MAX); cbn [negb obind andb].
    + destruct (mem cv (chars "diouxXaAeEfFgGsS")); [|left; reflexivity].
      destruct (mem cv c_int_cvt && mem 48%N fl); split; reflexivity.
    + left. reflexivity.
  - destruct star_types as [_ ->].
    pose proof (star_arg_spec txt st i (mkarg KPrec cid (ctype_name int_t) integer) Hi) as H.
    destruct (star_arg 0 txt st i (mkarg KPrec cid (ctype_name int_t) integer)) as [st1|e|c]; cbn [obind].
    + destruct H as [H1 [H2 H3]]. rewrite H1, H2. cbn [andb].
      destruct (mem cv (chars "diouxXaAeEfFgGsS")); [|left; reflexivity].
      destruct (mem cv c_int_cvt && mem 48%N fl); split; reflexivity.
    + destruct H as [H|H]; [left; rewrite H; reflexivity | right; rewrite H; reflexivity].
    + exact H.
Qed.

Lemma do_index_spec : forall txt cid tp integer cv st idx, inv (core_of st) ->
  match do_index 0 txt cid tp integer cv st idx with
  | Ok st' =>
    index_value_ok idx = true /\
    (if list_eqb tp t_void then (match idx with Some _ => (cv =? 37)%N = false | None => True end) /\ st' = st
     else add_core (core_of st) (opt_value idx) (mkarg KConv cid tp integer) = Some (core_of st'))
  | Err _ =>
    index_value_ok idx = false \/
    (if list_eqb tp t_void then (match idx with Some _ => (cv =? 37)%N = true | None => False end)
     else add_core (core_of st) (opt_value idx) (mkarg KConv cid tp integer) = None)
  | Crash _ => False
  end.
Proof.
  intros txt cid tp integer cv st idx Hi. unfold do_index.
  destruct idx as [ds|]; cbn [index_value_ok opt_value].
  - rewrite py_int_0. cbn [obind]. rewrite range_eq.
    destruct ((1 <=? dec_value ds) && (dec_value ds <=? NL_ARGMAX)) eqn:E; cbn [obind]; [|left; reflexivity].
    destruct (list_eqb tp t_void).
    + destruct (cv =? 37)%N; [right; reflexivity | repeat split; reflexivity].
    + pose proof (add_argument_spec txt st (Some (dec_value ds)) (mkarg KConv cid tp integer) Hi) as H.
      destruct (add_argument txt st (Some (dec_value ds)) (mkarg KConv cid tp integer)); [tauto | right; exact H | exact H].
  - cbn [obind]. destruct (list_eqb tp t_void).
    + repeat split; reflexivity.
    + pose proof (add_argument_spec txt st None (mkarg KConv cid tp integer) Hi) as H.
      destruct (add_argument txt st None (mkarg KConv cid tp integer)); [tauto | right; exact H | exact H].
Qed.

(* ------------------------------------------------------------------ *)
(* flags                                                                *)

Definition okind {A E} (x : outcome A E) : nat := match x with Ok _ => 0 | Err _ => 1 | Crash _ => 2 end.

Lemma flag_step_kind : forall txt cv all f, okind (flag_step txt cv all f) = okind (flag_step [] cv [] f).
Proof.
  intros. unfold flag_step.
  destruct (cv =? 110)%N; [reflexivity|].
  destruct (f =? 35)%N; [destruct (mem cv (c_oct_cvt ++ c_hex_cvt ++ c_float_cvt)); reflexivity|].
  destruct (f =? 48)%N; [destruct (mem cv (c_int_cvt ++ c_float_cvt)); reflexivity|].
  destruct (f =? 39)%N; [destruct (mem cv c_dec_cvt); reflexivity|].
  destruct (cv =? 37)%N; [reflexivity|].
  destruct (mem f [45; 32; 43; 73]%N); reflexivity.
Qed.

(* D15: the code does not know the alternate form of %m (glibc >= 2.35): it raises FlagError for "%#m".
   What the code accepts is flag_allowed minus that one combination. *)
Definition alt_m (cv f : N) : bool := (cv =? 109)%N && (f =? 35)%N.
Definition flag_allowed_impl (cv f : N) : bool := flag_allowed cv f && negb (alt_m cv f).
Definition no_alt_m (d : directive) : bool := negb ((body_conv (d_body d) =? 109)%N && mem 35%N (d_flags d)).
Definition valid_impl (d : directive) : bool := valid_directive d && no_alt_m d.

Lemma forallb_impl : forall cv fl,
  forallb (flag_allowed_impl cv) fl = forallb (flag_allowed cv) fl && negb ((cv =? 109)%N && mem 35%N fl).
Proof.
  intros cv. induction fl as [|a fl IH]; cbn [forallb].
  - unfold mem. cbn [existsb]. destruct (cv =? 109)%N; reflexivity.
  - rewrite IH. unfold flag_allowed_impl, alt_m. unfold mem. cbn [existsb]. fold (mem 35%N fl). rewrite (N.eqb_sym 35%N a).
    destruct (flag_allowed cv a), (forallb (flag_allowed cv) fl), (cv =? 109)%N, (a =? 35)%N, (mem 35%N fl); reflexivity.
Qed.

Definition flag_check (cv f : N) : bool :=
  match flag_step [] cv [] f with
  | Ok _ => flag_allowed_impl cv f
  | Err _ => negb (flag_allowed_impl cv f)
  | Crash _ => false
  end.

Lemma flag_table_check :
  forallb (fun cv => forallb (flag_check cv) flag_characters) conversion_specifiers = true.
Proof. vm_compute. reflexivity. Qed.

Lemma flag_step_spec : forall txt cv all f, In cv conversion_specifiers -> mem f flag_characters = true ->
  match flag_step txt cv all f with
  | Ok _ => flag_allowed_impl cv f = true
  | Err _ => flag_allowed_impl cv f = false
  | Crash _ => False
  end.
Proof.
  intros txt cv all f Hcv Hf.
  pose proof flag_table_check as T. rewrite forallb_forall in T. specialize (T cv Hcv).
  rewrite forallb_forall in T. apply mem_In in Hf. specialize (T f Hf). unfold flag_check in T.
  pose proof (flag_step_kind txt cv all f) as K.
  destruct (flag_step txt cv all f); destruct (flag_step [] cv [] f); cbn in K; try discriminate.
  - exact T.
  - apply negb_true_iff in T. exact T.
Qed.

Lemma flag_loop_spec : forall txt cv all fs, In cv conversion_specifiers ->
  forallb (fun f => mem f flag_characters) fs = true ->
  match flag_loop txt cv all fs with
  | Ok _ => forallb (flag_allowed_impl cv) fs = true
  | Err _ => forallb (flag_allowed_impl cv) fs = false
  | Crash _ => False
  end.
Proof.
  intros txt cv all fs Hcv. induction fs as [|f fs IH]; intros Hf; cbn [flag_loop forallb]; [reflexivity|].
  cbn [forallb] in Hf. apply andb_true_iff in Hf. destruct Hf as [Hf1 Hf2].
  pose proof (flag_step_spec txt cv all f Hcv Hf1) as H1. specialize (IH Hf2).
  destruct (flag_step txt cv all f); cbn [obind].
  - rewrite H1. cbn [andb]. destruct (flag_loop txt cv all fs); cbn [obind]; exact IH.
  - rewrite H1. reflexivity.
  - exact H1.
Qed.

Lemma dedup_In : forall l x, In x (dedup l) <-> In x l.
Proof.
  induction l as [|c l IH]; intros x; cbn [dedup]; [tauto|]. cbn [In]. rewrite filter_In. rewrite IH.
  destruct (N.eq_dec c x) as [->|Hne].
  - tauto.
  - split.
    + intros [H|[H _]]; [left | right]; assumption.
    + intros [H|H]; [left; exact H|]. right. split; [exact H|]. apply negb_true_iff. apply N.eqb_neq. congruence.
Qed.

Lemma forallb_dedup : forall P l, forallb P (dedup l) = forallb P l.
Proof.
  intros P l. apply eq_true_iff_eq. rewrite !forallb_forall. split; intros H x Hx; apply H; apply dedup_In; exact Hx.
Qed.

(* ------------------------------------------------------------------ *)
(* length x conversion -> type, by enumeration of the finite syntax     *)

Definition body_check (b : cbody) : bool :=
  match step_type b with
  | Ok (otp, _, cv, _) =>
    (cv =? body_conv b)%N &&
    match otp, body_takes b with
    | None, Undefined => nonempty (body_length b)
    | Some tp, Nothing => list_eqb tp t_void
    | Some tp, Takes t => list_eqb tp (ctype_name t) && negb (list_eqb tp t_void)
    | _, _ => false
    end
  | _ => false
  end.

Definition all_bodies : list cbody :=
  map (fun lc => BStd (fst lc) (snd lc)) (list_prod ([] :: length_modifiers) conversion_specifiers) ++
  map (fun cl => BMacro (fst cl) (snd cl)) (list_prod macro_conversions macro_suffixes).

Lemma all_bodies_check : forallb body_check all_bodies = true.
Proof. vm_compute. reflexivity. Qed.

Lemma body_syntax_in : forall b, body_syntax b = true -> In b all_bodies.
Proof.
  intros b H. apply body_syntax_cases in H. unfold all_bodies. apply in_or_app.
  destruct b as [len c|c len]; destruct H as [H1 H2].
  - left. apply in_map_iff. exists (len, c). split; [reflexivity|]. apply in_prod; [|exact H2].
    destruct H1 as [->|H1]; [left; reflexivity | right; exact H1].
  - right. apply in_map_iff. exists (c, len). split; [reflexivity|]. apply in_prod; assumption.
Qed.

Lemma body_check_ok : forall b, body_syntax b = true -> body_check b = true.
Proof.
  intros b H. pose proof all_bodies_check as T. rewrite forallb_forall in T. apply T. apply body_syntax_in. exact H.
Qed.

Lemma body_conv_in : forall b, body_syntax b = true -> In (body_conv b) conversion_specifiers.
Proof.
  intros b H. apply body_syntax_cases in H. destruct b as [len c|c len]; destruct H as [H1 H2]; cbn [body_conv].
  - exact H2.
  - vm_compute in H1. split_in H1; vm_compute; tauto.
Qed.

Definition minteger (d : directive) : bool :=
  match step_type (d_body d) with Ok (_, i, _, _) => i | _ => false end.

Definition mval (cid : nat) (d : directive) : list (option Z * arg) :=
  match body_takes (d_body d) with
  | Takes t => [(opt_value (d_index d), mkarg KConv cid (ctype_name t) (minteger d))]
  | _ => []
  end.

Definition mrefs (cid : nat) (d : directive) : list (option Z * arg) :=
  mstar KWidth cid (minteger d) (d_width d) ++ mstar KPrec cid (minteger d) (d_prec d) ++ mval cid d.

(* the types of the model-level references are the names of the specification's references *)
Lemma mrefs_drefs : forall cid d,
  map (fun r => (fst r, a_type (snd r))) (mrefs cid d) = map (fun r => (fst r, ctype_name (snd r))) (drefs d).
Proof.
  intros cid d. unfold mrefs, drefs, mval. rewrite !map_app.
  destruct (d_width d); destruct (d_prec d); destruct (body_takes (d_body d)); reflexivity.
Qed.

(* ------------------------------------------------------------------ *)
(* Conversion.__init__                                                  *)

Lemma add_warns_core : forall st w, core_of (add_warns st w) = core_of st.
Proof. reflexivity. Qed.

Lemma conversion_init_spec : forall cid st d txt, syntax_ok d = true -> inv (core_of st) ->
  match conversion_init 0 cid st d txt with
  | Ok (st', _) => valid_impl d = true /\ add_all (core_of st) (mrefs cid d) = Some (core_of st')
  | Err _ => valid_impl d = false \/ add_all (core_of st) (mrefs cid d) = None
  | Crash _ => False
  end.
Proof.
  intros cid st [idx fl w p b] txt Hsyn Hi. unfold syntax_ok in Hsyn. cbn [d_index d_flags d_width d_prec d_body] in Hsyn.
  apply andb_true_iff in Hsyn. destruct Hsyn as [Hsyn S5]. apply andb_true_iff in Hsyn. destruct Hsyn as [Hsyn _].
  apply andb_true_iff in Hsyn. destruct Hsyn as [Hsyn _]. apply andb_true_iff in Hsyn. destruct Hsyn as [_ S2].
  pose proof (body_check_ok b S5) as HB. pose proof (body_conv_in b S5) as HC.
  unfold conversion_init, valid_impl, no_alt_m, valid_directive, mrefs, mval, minteger. cbn [d_index d_flags d_width d_prec d_body].
  unfold body_check in HB.
  destruct (step_type b) as [[[[otp integer] cv] np]|e|c]; [|discriminate|discriminate]. cbn [obind].
  apply andb_true_iff in HB. destruct HB as [Hcv HB]. apply N.eqb_eq in Hcv. subst cv.
  set (st0 := add_warns st _).
  destruct otp as [tp|].
  2:{ destruct (body_takes b); try discriminate. destruct (body_length b); [discriminate|]. left. reflexivity. }
  (* flags *)
  pose proof (flag_loop_spec txt (body_conv b) fl (dedup fl) HC) as HF. rewrite forallb_dedup in HF.
  rewrite (forallb_dedup (flag_allowed_impl (body_conv b)) fl) in HF. specialize (HF S2). rewrite forallb_impl in HF.
  destruct (flag_loop txt (body_conv b) fl (dedup fl)) as [fw|e|c]; cbn [obind]; [|left|exact HF].
  2:{ apply andb_false_iff in HF. destruct HF as [HF|HF]; rewrite HF; rewrite ?andb_false_r; reflexivity. }
  apply andb_true_iff in HF. destruct HF as [HF HNA]. rewrite HF, HNA. rewrite !andb_true_r.
  set (st1 := add_warns st0 _).
  assert (core_of st1 = core_of st) as C1 by reflexivity.
  (* width *)
  pose proof (do_width_spec txt cid integer (body_conv b) st1 w) as HW. rewrite C1 in HW. specialize (HW Hi).
  destruct (do_width 0 txt cid integer (body_conv b) st1 w) as [st2|e|c]; cbn [obind]; [| |exact HW].
  2:{ destruct HW as [HW|HW]; [left; rewrite HW; rewrite !andb_false_r; reflexivity | right; rewrite add_all_app, HW; reflexivity]. }
  destruct HW as [HW1 [HW2 _]]. rewrite HW1. rewrite andb_true_r. rewrite add_all_app, HW2.
  assert (inv (core_of st2)) as Hi2 by (eapply add_all_inv; eassumption).
  (* precision *)
  pose proof (do_prec_spec txt cid integer (body_conv b) fl st2 p Hi2) as HP.
  destruct (do_prec 0 txt cid integer (body_conv b) fl st2 p) as [st3|e|c]; cbn [obind]; [| |exact HP].
  2:{ destruct HP as [HP|HP]; [left; rewrite HP; rewrite !andb_false_r; reflexivity | right; rewrite add_all_app, HP; reflexivity]. }
  destruct HP as [HP1 HP2]. rewrite HP1. rewrite andb_true_r. rewrite add_all_app, HP2.
  assert (inv (core_of st3)) as Hi3 by (eapply add_all_inv; eassumption).
  (* index *)
  pose proof (do_index_spec txt cid tp integer (body_conv b) st3 idx Hi3) as HI.
  destruct (do_index 0 txt cid tp integer (body_conv b) st3 idx) as [st4|e|c]; cbn [obind]; [| |exact HI].
  - destruct HI as [HI1 HI2]. rewrite HI1. cbn [andb].
    destruct (body_takes b) as [| |t] eqn:HT; [discriminate| |].
    + rewrite HB in HI2. destruct HI2 as [HI2 ->]. cbn [add_all]. split; [|reflexivity].
      cbn [andb]. destruct idx; [|reflexivity]. change (ch "%") with 37%N. rewrite HI2. reflexivity.
    + apply andb_true_iff in HB. destruct HB as [HB1 HB2]. apply negb_true_iff in HB2. rewrite HB2 in HI2.
      apply list_eqb_eq in HB1. subst tp. cbn [add_all]. rewrite HI2. split; [|reflexivity].
      cbn [andb]. destruct idx; [|reflexivity].
      (* a conversion that takes an argument is not '%' *)
      destruct (N.eqb_spec (body_conv b) (ch "%")) as [E|E]; [|reflexivity].
      exfalso. destruct b as [len c|c len]; cbn [body_conv] in E; subst c.
      * cbn in HT. destruct (len_is len ""); discriminate.
      * cbn in HT. discriminate.
  - destruct HI as [HI|HI]; [left; rewrite HI; rewrite !andb_false_r; reflexivity|].
    destruct (body_takes b) as [| |t] eqn:HT; [discriminate| |].
    + rewrite HB in HI. left. destruct idx; [|contradiction]. change (ch "%") with 37%N. rewrite HI.
      cbn [negb]. rewrite !andb_false_r. reflexivity.
    + apply andb_true_iff in HB. destruct HB as [HB1 HB2]. apply negb_true_iff in HB2. rewrite HB2 in HI.
      apply list_eqb_eq in HB1. subst tp. right. cbn [add_all]. rewrite HI. reflexivity.
Qed.

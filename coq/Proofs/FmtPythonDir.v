(* python %-format: one conversion specification.  The scanner of lib/strformat/python.py (model) and the reading
   of unicode_format_arg_parse (spec) see the same key, stars and conversion character, and the scanner fails
   exactly where CPython's parsing code raises. *)
From Coq Require Import List NArith ZArith Bool Lia.
From I18n Require Import Lib.Outcome Model.FmtPython Spec.CPyPercent.
Import ListNotations.
Local Open Scope N_scope.

Definition suffix (r s : list N) : Prop := exists pre, s = pre ++ r.

Lemma suffix_refl s : suffix s s.
Proof. exists []. reflexivity. Qed.
Lemma suffix_trans a b c : suffix a b -> suffix b c -> suffix a c.
Proof. intros [p ->] [q ->]. exists (q ++ p). rewrite app_assoc. reflexivity. Qed.
Lemma suffix_cons c r s : suffix (c :: r) s -> suffix r s.
Proof. intros [p ->]. exists (p ++ [c]). rewrite <- app_assoc. reflexivity. Qed.
Lemma suffix_tl c r : suffix r (c :: r).
Proof. exists [c]. reflexivity. Qed.
Lemma suffix_length r s : suffix r s -> (length r <= length s)%nat.
Proof. intros [p ->]. rewrite app_length. lia. Qed.

Definition bad (ev : list event) : Prop := existsb is_error_event ev = true.

Lemma bad_app_r a b : bad b -> bad (a ++ b).
Proof. unfold bad. rewrite existsb_app. intros ->. apply orb_true_r. Qed.
Lemma bad_app_l a b : bad a -> bad (a ++ b).
Proof. unfold bad. rewrite existsb_app. intros ->. reflexivity. Qed.

Ltac solve_bad :=
  unfold bad; repeat rewrite existsb_app; cbn [existsb is_error_event]; repeat rewrite orb_true_r; try reflexivity.

(* ---------------------------------------------------------------- keys *)
Lemma key_agree s : forall p acc, key_scan s p acc = cpy_key s p acc.
Proof.
  induction s as [|c r IH]; intros p acc; cbn [key_scan cpy_key]; [reflexivity|].
  destruct (N.eqb_spec c 40) as [->|H40].
  - cbn. apply IH.
  - destruct (c =? 41); [destruct p as [|[|p]]; auto|auto].
Qed.

Lemma cpy_key_suffix s : forall p acc k r, cpy_key s p acc = Some (k, r) -> suffix r s /\ (length r < length s)%nat.
Proof.
  induction s as [|c t IH]; intros p acc k r; cbn [cpy_key]; [discriminate|].
  assert (Hrec : forall p' acc', cpy_key t p' acc' = Some (k, r) -> suffix r (c :: t) /\ (length r < length (c :: t))%nat).
  { intros p' acc' H. apply IH in H. destruct H as [H1 H2]. split; [eapply suffix_trans; [exact H1|apply suffix_tl]|cbn [length]; lia]. }
  destruct (c =? 41).
  - destruct p as [|[|p]]; try (intros H; inversion H; subst; split; [apply suffix_tl|cbn [length]; lia]).
    apply Hrec.
  - destruct (c =? 40); apply Hrec.
Qed.

(* ---------------------------------------------------------------- flags *)
Lemma flags_mem c : mem c (i_flags std_info) = is_flag c.
Proof.
  unfold mem, is_flag. cbn [i_flags std_info existsb].
  destruct (c =? 35), (c =? 48), (c =? 45), (c =? 32), (c =? 43); reflexivity.
Qed.

Lemma count_flag_keys c fl : is_flag c = true -> Forall (fun x => is_flag (fst x) = true) fl ->
  Forall (fun x => is_flag (fst x) = true) (count_flag c fl).
Proof.
  intros Hc. induction 1 as [|[f n] r Hf Hr IH]; cbn [count_flag].
  - constructor; [exact Hc|constructor].
  - destruct (f =? c); constructor; auto.
Qed.

Lemma flags_scan_spec s : forall fl, Forall (fun x => is_flag (fst x) = true) fl ->
  match flags_scan (i_flags std_info) s fl with
  | None => skip_flags s = []
  | Some (fl', s') => s' = skip_flags s /\ s' <> [] /\ Forall (fun x => is_flag (fst x) = true) fl'
  end.
Proof.
  induction s as [|c r IH]; intros fl Hfl; cbn [flags_scan skip_flags]; [reflexivity|].
  rewrite flags_mem. destruct (is_flag c) eqn:E.
  - apply IH. apply count_flag_keys; assumption.
  - split; [reflexivity|split; [discriminate|assumption]].
Qed.

Lemma skip_flags_suffix s : suffix (skip_flags s) s.
Proof.
  induction s as [|c r IH]; cbn [skip_flags]; [apply suffix_refl|].
  destruct (is_flag c); [eapply suffix_trans; [exact IH|apply suffix_tl]|apply suffix_refl].
Qed.

(* ---------------------------------------------------------------- digits *)
Lemma digits_agree s : forall acc,
  digits_scan s acc = match cpy_digits s acc with (_, []) => None | (v, r) => Some (v, r) end.
Proof.
  induction s as [|c r IH]; intros acc; cbn [digits_scan cpy_digits]; [reflexivity|].
  change (is_ascii_digit c) with (is_digit c). destruct (is_digit c); [apply IH|reflexivity].
Qed.

Lemma cpy_digits_suffix s : forall acc, suffix (snd (cpy_digits s acc)) s.
Proof.
  induction s as [|c r IH]; intros acc; cbn [cpy_digits]; [apply suffix_refl|].
  destruct (is_digit c); [eapply suffix_trans; [apply IH|apply suffix_tl]|apply suffix_refl].
Qed.

(* a digit run keeps a non-digit head *)
Lemma cpy_digits_nondigit c r acc : is_digit c = false -> cpy_digits (c :: r) acc = (acc, c :: r).
Proof. intros H. cbn [cpy_digits]. rewrite H. reflexivity. Qed.

(* ---------------------------------------------------------------- the stages *)
Definition key_events (k : option (list N)) : list event :=
  match k with Some key => [EvNeedMapping; EvLookup key] | None => [] end.

(* a stage result from which the rest of the specification can only end in an error *)
Definition dead_end (x : list event * option (list N)) : Prop :=
  exists ev, (x = (ev, None) /\ bad ev) \/ x = (ev, Some []).

Lemma p_key_agree s : s <> [] ->
  match p_key s with
  | None => dead_end (c_key s)
  | Some (key, s1) => suffix s1 s /\ s1 <> [] /\ c_key s = (key_events key, Some s1) /\
                      (key = None -> s1 = s) /\ (key <> None -> (length s1 + 2 <= length s)%nat)
  end.
Proof.
  destruct s as [|c0 r0]; [congruence|]. intros _. unfold p_key, c_key.
  destruct (c0 =? 40).
  - rewrite key_agree. destruct (cpy_key r0 1 []) as [[key r]|] eqn:Ek; cbn [obind_opt].
    + apply cpy_key_suffix in Ek. destruct Ek as [Hs Hl].
      destruct r as [|c r].
      * exists [EvNeedMapping; EvLookup key]. right. reflexivity.
      * split; [eapply suffix_trans; [exact Hs|apply suffix_tl]|]. split; [discriminate|]. split; [reflexivity|].
        split; [discriminate|]. intros _. cbn [length] in *. lia.
    + exists [EvNeedMapping; EvStatic SIncompleteKey]. left. split; reflexivity.
  - split; [apply suffix_refl|]. split; [discriminate|]. split; [reflexivity|]. split; [reflexivity|congruence].
Qed.

Definition width_events (var : bool) : list event := if var then [EvStarWidth] else [].
Definition prec_events (var : bool) : list event := if var then [EvStarPrec] else [].

Lemma p_width_agree s : s <> [] ->
  match p_width s with
  | None => dead_end (c_width s)
  | Some (w, var, s') =>
    suffix s' s /\ s' <> [] /\ (var = true -> (length s' < length s)%nat) /\
    c_width s = if negb var && (w >? PY_SSIZE_T_MAX)%Z then ([EvStatic SWidthTooBig], None)
                else (width_events var, Some s')
  end.
Proof.
  destruct s as [|c r]; [congruence|]. intros _. unfold p_width, c_width.
  destruct (c =? 42).
  - destruct r as [|c1 r1]; cbn [next_si obind_opt].
    + exists [EvStarWidth]. right. reflexivity.
    + split; [apply suffix_tl|]. split; [discriminate|]. split; [cbn [length]; lia|]. reflexivity.
  - rewrite digits_agree. pose proof (cpy_digits_suffix (c :: r) 0%Z) as Hs.
    destruct (cpy_digits (c :: r) 0) as [w r'] eqn:Ed. cbn [snd] in Hs.
    destruct r' as [|c' r'']; cbn [obind_opt].
    + destruct (w >? PY_SSIZE_T_MAX)%Z.
      * exists [EvStatic SWidthTooBig]. left. split; reflexivity.
      * exists []. right. reflexivity.
    + split; [exact Hs|]. split; [discriminate|]. split; [discriminate|]. cbn [negb andb width_events]. reflexivity.
Qed.

Lemma p_prec_agree s : s <> [] ->
  match p_prec s with
  | None => dead_end (c_prec s)
  | Some (p, var, s') =>
    suffix s' s /\ s' <> [] /\ (var = true -> p = None) /\
    ((var = true \/ p <> None) -> (length s' < length s)%nat) /\
    ((var = false /\ p = None) -> s' = s) /\
    c_prec s = match p with
               | Some v => if (v >? C_INT_MAX)%Z then ([EvStatic SPrecTooBig], None) else ([], Some s')
               | None => (prec_events var, Some s')
               end
  end.
Proof.
  destruct s as [|c r]; [congruence|]. intros _. unfold p_prec, c_prec.
  destruct (c =? 46).
  - destruct r as [|c1 r1]; cbn [next_si obind_opt].
    + exists []. right. reflexivity.
    + destruct (c1 =? 42).
      * destruct r1 as [|c2 r2]; cbn [next_si obind_opt].
        -- exists [EvStarPrec]. right. reflexivity.
        -- split; [eapply suffix_trans; [apply suffix_tl|apply suffix_tl]|]. split; [discriminate|].
           split; [reflexivity|]. split; [intros _; cbn [length]; lia|]. split; [intros [? _]; discriminate|]. reflexivity.
      * rewrite digits_agree. pose proof (cpy_digits_suffix (c1 :: r1) 0%Z) as Hs.
        destruct (cpy_digits (c1 :: r1) 0) as [p r'] eqn:Ed. cbn [snd] in Hs.
        destruct r' as [|c' r'']; cbn [obind_opt].
        -- destruct (p >? C_INT_MAX)%Z.
           ++ exists [EvStatic SPrecTooBig]. left. split; reflexivity.
           ++ exists []. right. reflexivity.
        -- split; [eapply suffix_trans; [exact Hs|apply suffix_tl]|]. split; [discriminate|].
           split; [discriminate|]. split; [intros _; apply suffix_length in Hs; cbn [length] in *; lia|].
           split; [intros [_ ?]; discriminate|]. reflexivity.
  - split; [apply suffix_refl|]. split; [discriminate|]. split; [discriminate|].
    split; [intros [?|?]; congruence|]. split; reflexivity.
Qed.

Lemma lengths_mem c : mem c (i_lengths std_info) = is_length c.
Proof. unfold mem, is_length. cbn [i_lengths std_info existsb]. rewrite orb_false_r, orb_assoc. reflexivity. Qed.

Lemma p_length_agree s : s <> [] ->
  match p_length std_info s with
  | None => c_length s = []
  | Some (l, s') => suffix s' s /\ s' <> [] /\ c_length s = s' /\ (l = None -> s' = s) /\ (l <> None -> (length s' < length s)%nat)
  end.
Proof.
  destruct s as [|c r]; [congruence|]. intros _. unfold p_length, c_length. rewrite lengths_mem.
  destruct (is_length c).
  - destruct r as [|c1 r1]; cbn [next_si obind_opt]; [reflexivity|].
    split; [apply suffix_tl|]. split; [discriminate|]. split; [reflexivity|]. split; [discriminate|]. intros _. cbn [length]. lia.
  - split; [apply suffix_refl|]. split; [discriminate|]. split; [reflexivity|]. split; [reflexivity|congruence].
Qed.

(* conversion characters: _info.all_cvt = the case labels of unicode_format_arg_format, plus "%" *)
Lemma all_mem c : mem c (i_all std_info) = (c =? 37) || is_supported c.
Proof.
  unfold mem, is_supported, supported. cbn [i_all std_info existsb].
  repeat match goal with |- context [c =? ?k] => destruct (N.eqb_spec c k); [subst; reflexivity|] end.
  reflexivity.
Qed.

(* ---------------------------------------------------------------- one specification *)
Definition d_plain (d : directive) : bool :=
  match d_text d with [_; _] => true | _ => false end.

Definition conv_event (d : directive) : event :=
  if d_conv d =? 37 then EvPercent (d_plain d) else EvConv (d_conv d).

Definition events_of (d : directive) : list event :=
  key_events (d_key d) ++ width_events (d_var_width d) ++ prec_events (d_var_prec d) ++ [conv_event d].

Definition too_big (d : directive) : bool :=
  (negb (d_var_width d) && (d_width d >? PY_SSIZE_T_MAX)%Z) ||
  match d_prec d with Some p => (p >? C_INT_MAX)%Z | None => false end.

Definition undecorated (d : directive) : Prop :=
  d_key d = None /\ d_var_width d = false /\ d_var_prec d = false /\ d_prec d = None /\ d_length d = None.

Record dir_wf (d : directive) : Prop := {
  wf_last : last (d_text d) 0 = d_conv d;
  wf_flags : Forall (fun x => is_flag (fst x) = true) (d_flags d);
  wf_conv : mem (d_conv d) (i_all std_info) = true;
  wf_var_prec : d_var_prec d = true -> d_prec d = None;
  wf_plain : d_plain d = true -> undecorated d }.

Lemma firstn_consumed (pre : list N) c rest :
  firstn (length (pre ++ c :: rest) - length rest) (pre ++ c :: rest) = pre ++ [c].
Proof.
  rewrite app_length. cbn [length].
  replace (length pre + S (length rest) - length rest)%nat with (length pre + 1)%nat by lia.
  rewrite firstn_app. rewrite firstn_all2 by lia.
  replace (length pre + 1 - length pre)%nat with 1%nat by lia. reflexivity.
Qed.

Lemma dead_end_finish x :
  dead_end x ->
  exists ev, then_stage (then_stage (then_stage x c_prec) (fun s4 => ([], Some (c_length s4)))) c_conv = (ev, None) /\ bad ev.
Proof.
  intros [ev [[-> Hb]| ->]]; cbn.
  - exists ev. split; [reflexivity|exact Hb].
  - eexists. split; [reflexivity|]. solve_bad.
Qed.

Theorem dir_agree s :
  match parse_directive std_info s with
  | None => exists ev, cpy_directive s = (ev, None) /\ bad ev
  | Some (d, rest) =>
    dir_wf d /\ (length rest < length s)%nat /\
    if too_big d then exists ev, cpy_directive s = (ev, None) /\ bad ev
    else cpy_directive s = (events_of d, Some rest)
  end.
Proof.
  destruct s as [|c0 r0].
  { cbn. exists [EvStatic SIncompleteFormat]. split; reflexivity. }
  destruct (N.eqb_spec c0 37) as [->|H37].
  { (* "%%" *)
    cbn -[Nat.sub firstn length].
    replace (length (37%N :: r0) - length r0)%nat with 1%nat by (cbn [length]; lia). cbn [firstn].
    split; [|split; [cbn [length]; lia|]].
    - constructor; cbn; try reflexivity; try (intros _; repeat split); try constructor.
    - reflexivity. }
  unfold parse_directive, cpy_directive.
  replace (c0 =? 37) with false by (symmetry; apply N.eqb_neq; exact H37).
  set (s := c0 :: r0).
  (* key *)
  pose proof (p_key_agree s ltac:(discriminate)) as Hk.
  destruct (p_key s) as [[key s1]|]; cbn [obind_opt].
  2:{ destruct Hk as [ev [[-> Hb]| ->]]; cbn [then_stage].
      - exists ev. split; [reflexivity|exact Hb].
      - cbn. eexists. split; [reflexivity|]. solve_bad. }
  destruct Hk as [Hs1 [Hn1 [Ek [Hkn Hkl]]]]. rewrite Ek. cbn [then_stage].
  (* flags *)
  pose proof (flags_scan_spec s1 [] ltac:(constructor)) as Hf.
  destruct (flags_scan (i_flags std_info) s1 []) as [[flags s2]|]; cbn [obind_opt].
  2:{ rewrite Hf. cbn. eexists. split; [reflexivity|]. solve_bad. }
  destruct Hf as [-> [Hn2 Hfl]].
  pose proof (skip_flags_suffix s1) as Hs2. set (s2 := skip_flags s1) in *.
  (* width *)
  pose proof (p_width_agree s2 Hn2) as Hw.
  destruct (p_width s2) as [[[width var_width] s3]|]; cbn [obind_opt].
  2:{ destruct (c_width s2) as [ev2 o2] eqn:E2.
      destruct (dead_end_finish (key_events key ++ ev2, o2)) as [ev [He Hb]].
      { destruct Hw as [ev' [[H Hb]|H]]; inversion H; subst.
        - exists (key_events key ++ ev'). left. split; [reflexivity|apply bad_app_r; exact Hb].
        - exists (key_events key ++ ev'). right. reflexivity. }
      exists ev. split; [exact He|exact Hb]. }
  destruct Hw as [Hs3 [Hn3 [Hwl Ew]]].
  (* precision *)
  pose proof (p_prec_agree s3 Hn3) as Hp.
  destruct (p_prec s3) as [[[prec var_prec] s4]|] eqn:Epp; cbn [obind_opt].
  2:{ rewrite Ew. destruct (negb var_width && (width >? PY_SSIZE_T_MAX)%Z).
      - cbn. eexists. split; [reflexivity|]. solve_bad.
      - cbn [then_stage]. destruct (c_prec s3) as [ev3 o3] eqn:E3.
        destruct Hp as [ev' [[H Hb]|H]]; inversion H; subst; cbn.
        + eexists. split; [reflexivity|]. apply bad_app_r. exact Hb.
        + eexists. split; [reflexivity|]. solve_bad. }
  destruct Hp as [Hs4 [Hn4 [Hvp [Hpl [Hpe Ep]]]]].
  (* length *)
  pose proof (p_length_agree s4 Hn4) as Hl.
  destruct (p_length std_info s4) as [[len s5]|] eqn:Elen; cbn [obind_opt].
  2:{ rewrite Ew. destruct (negb var_width && (width >? PY_SSIZE_T_MAX)%Z).
      - cbn. eexists. split; [reflexivity|]. solve_bad.
      - cbn [then_stage]. rewrite Ep. destruct prec as [v|].
        + destruct (v >? C_INT_MAX)%Z; cbn.
          * eexists. split; [reflexivity|]. solve_bad.
          * rewrite Hl. cbn. eexists. split; [reflexivity|]. solve_bad.
        + cbn. rewrite Hl. cbn. eexists. split; [reflexivity|]. solve_bad. }
  destruct Hl as [Hs5 [Hn5 [El [Hln Hll]]]].
  (* conversion character *)
  destruct s5 as [|conv rest]; [congruence|].
  rewrite all_mem.
  assert (Hsuf : suffix (conv :: rest) s).
  { eapply suffix_trans; [exact Hs5|]. eapply suffix_trans; [exact Hs4|]. eapply suffix_trans; [exact Hs3|].
    eapply suffix_trans; [exact Hs2|exact Hs1]. }
  destruct ((conv =? 37) || is_supported conv) eqn:Econv.
  2:{ (* not a conversion character *)
      apply orb_false_elim in Econv. destruct Econv as [E37 Esup].
      rewrite Ew. destruct (negb var_width && (width >? PY_SSIZE_T_MAX)%Z).
      - cbn. eexists. split; [reflexivity|]. solve_bad.
      - cbn [then_stage]. rewrite Ep. destruct prec as [v|].
        + destruct (v >? C_INT_MAX)%Z; cbn [then_stage].
          * eexists. split; [reflexivity|]. solve_bad.
          * rewrite El. cbn [c_conv]. rewrite E37, Esup. eexists. split; [reflexivity|]. solve_bad.
        + cbn [then_stage]. rewrite El. cbn [c_conv]. rewrite E37, Esup. eexists. split; [reflexivity|].
          solve_bad. }
  (* accepted by the scanner *)
  destruct Hsuf as [pre Hpre].
  assert (Htext0 : firstn (length s - length rest) s = pre ++ [conv]).
  { rewrite Hpre. apply firstn_consumed. }
  assert (Htext : 37 :: firstn (length s - length rest) s = 37 :: pre ++ [conv]) by (rewrite Htext0; reflexivity).
  assert (Hlen : (length rest < length s)%nat).
  { rewrite Hpre, app_length. cbn [length]. lia. }
  assert (Hpre_ne : pre <> [] \/ (key = None /\ var_width = false /\ var_prec = false /\ prec = None /\ len = None)).
  { destruct pre as [|x pre']; [right|left; discriminate].
    cbn [app] in Hpre.
    pose proof (suffix_length _ _ Hs5) as L5. pose proof (suffix_length _ _ Hs4) as L4.
    pose proof (suffix_length _ _ Hs3) as L3. pose proof (suffix_length _ _ Hs2) as L2.
    pose proof (suffix_length _ _ Hs1) as L1.
    assert (L0 : length s = S (length rest)) by (rewrite Hpre; reflexivity).
    cbn [length] in L5.
    assert (key = None).
    { destruct key; [exfalso|reflexivity]. assert (Hq : (length s1 + 2 <= length s)%nat) by (apply Hkl; intros Hx; discriminate Hx). clear - Hq L0 L1 L2 L3 L4 L5. lia. }
    assert (var_width = false).
    { destruct var_width; [exfalso|reflexivity]. assert (Hq := Hwl eq_refl). clear - Hq L0 L1 L2 L3 L4 L5. lia. }
    assert (var_prec = false).
    { destruct var_prec; [exfalso|reflexivity]. assert (Hq := Hpl (or_introl eq_refl)). clear - Hq L0 L1 L2 L3 L4 L5. lia. }
    assert (prec = None).
    { destruct prec; [exfalso|reflexivity]. assert (Hq : (length s4 < length s3)%nat) by (apply Hpl; right; intros Hx; discriminate Hx). clear - Hq L0 L1 L2 L3 L4 L5. lia. }
    assert (len = None).
    { destruct len; [exfalso|reflexivity]. assert (Hq : (length (conv :: rest) < length s4)%nat) by (apply Hll; intros Hx; discriminate Hx). cbn [length] in Hq. clear - Hq L0 L1 L2 L3 L4 L5. lia. }
    auto. }
  split; [|split; [exact Hlen|]].
  - constructor; cbn [d_text d_conv d_flags d_var_prec d_prec].
    + rewrite Htext. change (37 :: pre ++ [conv]) with ((37 :: pre) ++ [conv]). apply last_last.
    + exact Hfl.
    + rewrite all_mem. exact Econv.
    + exact Hvp.
    + unfold d_plain, undecorated. cbn [d_text d_key d_var_width d_var_prec d_prec d_length]. rewrite Htext0.
      destruct Hpre_ne as [Hne|H]; [|intros _; exact H].
      destruct pre as [|x pre']; [congruence|]. cbn [app].
      destruct (pre' ++ [conv]) eqn:E; [destruct pre'; discriminate|discriminate].
  - assert (Hce : forall d', d_text d' = 37 :: pre ++ [conv] -> d_conv d' = conv ->
                  c_conv (conv :: rest) = ([conv_event d'], Some rest)).
    { intros d' Ht Hc. unfold c_conv, conv_event. rewrite Hc. destruct (conv =? 37) eqn:E37.
      - unfold d_plain. rewrite Ht. destruct pre as [|x pre'].
        + exfalso. cbn [app] in Hpre. unfold s in Hpre. inversion Hpre; subst.
          apply N.eqb_eq in E37. congruence.
        + cbn [app]. destruct (pre' ++ [conv]) eqn:E; [destruct pre'; discriminate|reflexivity].
      - cbn [orb] in Econv. rewrite Econv. reflexivity. }
    unfold too_big. cbn [d_var_width d_width d_prec].
    rewrite Ew. destruct (negb var_width && (width >? PY_SSIZE_T_MAX)%Z) eqn:Etw; cbn [orb then_stage].
    { eexists. split; [reflexivity|]. solve_bad. }
    rewrite Ep. destruct prec as [v|].
    + destruct (v >? C_INT_MAX)%Z; cbn [then_stage].
      { eexists. split; [reflexivity|]. solve_bad. }
      rewrite El. match goal with |- context [events_of ?d] => rewrite (Hce d Htext eq_refl) end.
      assert (var_prec = false) by (destruct var_prec; [discriminate (Hvp eq_refl)|reflexivity]). subst var_prec.
      unfold events_of. cbn [d_key d_var_width d_var_prec prec_events]. f_equal.
      repeat rewrite <- app_assoc. cbn [app]. reflexivity.
    + cbn [then_stage]. rewrite El. match goal with |- context [events_of ?d] => rewrite (Hce d Htext eq_refl) end.
      unfold events_of. cbn [d_key d_var_width d_var_prec]. f_equal.
      repeat rewrite <- app_assoc. cbn [app]. reflexivity.
Qed.

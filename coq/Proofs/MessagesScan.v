(* The three scanners that replace regular expressions, against the declarative predicates of Spec/Messages.v:
   find_unusual_characters, search_for_conflict_marker, the XML trigger of _check_message_formats. *)
From Coq Require Import List NArith ZArith Bool Lia ZifyBool ZifyN.
From I18n Require Import Lib.Outcome Model.PluralForms Model.Messages Spec.Messages Proofs.MessagesLib.
Import ListNotations.
Local Open Scope N_scope.

(* ------------------------------------------------------------------ *)
(* find_unusual_characters                                              *)

Lemma uc_plain_spec c : uc_plain c = true <-> unusual_class c.
Proof. unfold uc_plain, unusual_class, btw. lia. Qed.

Definition prev_at (prev : option N) (s : list N) (k : nat) : option N :=
  match k with O => prev | S k' => nth_error s k' end.
Definition unusual_at' (isword : N -> bool) (prev : option N) (s : list N) (k : nat) (c : N) : Prop :=
  nth_error s k = Some c /\
  (unusual_class c
   \/ (c = 27 /\ nth_error s (S k) <> Some 91)
   \/ (c = 191 /\ exists p, prev_at prev s k = Some p /\ isword p = true)).

Lemma hit_spec isword prev x r :
  (uc_plain x || (N.eqb x 27 && negb (match r with d :: _ => N.eqb d 91 | [] => false end))
   || (N.eqb x 191 && match prev with Some p => isword p | None => false end)) = true
  <-> unusual_at' isword prev (x :: r) 0 x.
Proof.
  unfold unusual_at'. cbn [nth_error prev_at]. rewrite !orb_true_iff, !andb_true_iff, uc_plain_spec, !N.eqb_eq, negb_true_iff.
  split.
  - intros [[H|[H1 H2]]|[H1 H2]]; (split; [reflexivity|]).
    + left; auto.
    + right; left. split; auto. destruct r as [|d r]; cbn; [discriminate|]. apply N.eqb_neq in H2. congruence.
    + right; right. split; auto. destruct prev as [p|]; [eauto|discriminate].
  - intros [_ [H|[[H1 H2]|[H1 [p [H2 H3]]]]]].
    + left; left; auto.
    + left; right. split; auto. destruct r as [|d r]; cbn in *; auto. apply N.eqb_neq. congruence.
    + right. split; auto. rewrite H2. exact H3.
Qed.

Lemma uc_scan_spec isword : forall s prev c, In c (uc_scan isword prev s) <-> exists k, unusual_at' isword prev s k c.
Proof.
  induction s as [|x r IH]; intros prev c.
  - cbn. split; [tauto|]. intros [k [H _]]. destruct k; discriminate.
  - cbn [uc_scan]. rewrite in_app_iff, IH. split.
    + intros [H|[k H]].
      * destruct (_ || _ || _) eqn:E in H; [|contradiction]. destruct H as [<-|[]]. exists 0%nat. apply hit_spec. exact E.
      * exists (S k). unfold unusual_at' in *. cbn [nth_error]. destruct H as [H1 H2]. split; auto.
        destruct H2 as [H2|[H2|[H2 [p [H3 H4]]]]]; auto. right; right. split; auto. exists p. split; auto.
        destruct k; cbn in *; auto.
    + intros [[|k] H].
      * left. assert (c = x) by (destruct H as [H _]; cbn in H; congruence). subst.
        apply hit_spec in H. rewrite H. left. reflexivity.
      * right. exists k. unfold unusual_at' in *. cbn [nth_error] in H. destruct H as [H1 H2]. split; auto.
        destruct H2 as [H2|[H2|[H2 [p [H3 H4]]]]]; auto. right; right. split; auto. exists p. split; auto.
        destruct k; cbn in *; auto.
Qed.

Theorem find_unusual_spec isword s c : In c (find_unusual isword s) <-> exists k, unusual_at isword s k c.
Proof.
  unfold find_unusual. rewrite uc_scan_spec. split; intros [k [H1 H2]]; exists k; (split; [exact H1|]).
  - destruct H2 as [H2|[H2|[H2 [p [H3 H4]]]]]; auto. right; right. split; auto.
    destruct k as [|k']; cbn in H3; [discriminate|]. eauto.
  - destruct H2 as [H2|[H2|[H2 [k' [p [-> [H3 H4]]]]]]]; auto. right; right. split; auto. exists p. auto.
Qed.

(* ------------------------------------------------------------------ *)
(* search_for_conflict_marker                                           *)

Theorem is_marker_line_spec l : is_marker_line l = true <-> marker_line l.
Proof.
  unfold is_marker_line, marker_line. rewrite !andb_true_iff, starts_with_spec, ends_with_spec, Nat.leb_le. split.
  - intros [[[r Hr] [r' Hr']] Hl].
    assert (E : s_cm_pre ++ r = r' ++ s_cm_suf) by congruence.
    apply app_eq_app in E. destruct E as [l' [[E1 E2]|[E1 E2]]].
    + exfalso. apply (f_equal (@length N)) in E1. rewrite app_length in E1. cbn in E1.
      rewrite Hr', app_length in Hl. cbn in Hl. lia.
    + exists l'. split.
      * intros ->. rewrite app_nil_r in E1. subst r'. rewrite Hr', app_length in Hl. cbn in Hl. lia.
      * rewrite Hr, E2. reflexivity.
  - intros [mid [Hm ->]]. split; [split|].
    + eauto.
    + exists (s_cm_pre ++ mid). rewrite app_assoc. reflexivity.
    + rewrite !app_length. cbn. destruct mid; [congruence|cbn; lia].
Qed.

Lemma lines_nonempty s : lines s <> [].
Proof. destruct s as [|c r]; cbn; [discriminate|]. destruct (N.eqb c 10); [discriminate|]. destruct (lines r); discriminate. Qed.

Lemma lines_spec : forall s, lines_of s (lines s).
Proof.
  unfold lines_of. induction s as [|c r [IH1 [IH2 IH3]]].
  - cbn. repeat split; [discriminate|repeat constructor; auto].
  - split; [apply lines_nonempty|]. cbn [lines]. destruct (N.eqb c 10) eqn:E.
    + apply N.eqb_eq in E. subst. split; [constructor; auto|].
      cbn [join_lines]. destruct (lines r) eqn:L; [congruence|]. cbn [app]. rewrite IH3. reflexivity.
    + apply N.eqb_neq in E. destruct (lines r) as [|l ls] eqn:L; [congruence|].
      apply Forall_cons_iff in IH2. destruct IH2 as [Hl Hls]. split.
      * constructor; auto. intros [H|H]; [congruence|auto].
      * cbn [join_lines] in *. destruct ls; cbn [app]; rewrite <- IH3; reflexivity.
Qed.

Lemma lines_unique : forall ls s, lines_of s ls -> ls = lines s.
Proof.
  induction ls as [|l ls IH]; intros s [H1 [H2 H3]]; [congruence|].
  inversion H2 as [|? ? Hl Hls]; subst.
  destruct ls as [|l2 ls].
  - cbn [join_lines]. clear IH H1 H2 Hls. induction l as [|c l IHl]; cbn; auto.
    assert (H : c <> 10) by (intros ->; apply Hl; left; auto). apply N.eqb_neq in H. rewrite H.
    rewrite <- IHl by (intros HH; apply Hl; right; auto). reflexivity.
  - assert (E : l2 :: ls = lines (join_lines (l2 :: ls))).
    { apply IH. repeat split; auto. discriminate. }
    change (join_lines (l :: l2 :: ls)) with (l ++ 10 :: join_lines (l2 :: ls)).
    set (rest := join_lines (l2 :: ls)) in *. clearbody rest. clear IH H1 H2 Hls.
    induction l as [|c l IHl]; cbn [app lines].
    + change (N.eqb 10 10) with true. cbv iota. rewrite <- E. reflexivity.
    + assert (H : c <> 10) by (intros ->; apply Hl; left; auto). apply N.eqb_neq in H. rewrite H.
      rewrite <- IHl by (intros HH; apply Hl; right; auto). reflexivity.
Qed.

Lemma find_spec {A} (f : A -> bool) : forall l x, find f l = Some x <->
  exists pre post, l = pre ++ x :: post /\ f x = true /\ Forall (fun y => f y = false) pre.
Proof.
  induction l as [|a l IH]; intros x; cbn.
  - split; [discriminate|]. intros [pre [post [H _]]]. destruct pre; discriminate.
  - destruct (f a) eqn:E.
    + split.
      * intros H. inversion H; subst. exists [], l. repeat split; auto.
      * intros [pre [post [H1 [H2 H3]]]]. destruct pre as [|b pre]; cbn in H1; inversion H1; subst; auto.
        inversion H3; subst. congruence.
    + rewrite IH. split.
      * intros [pre [post [H1 [H2 H3]]]]. exists (a :: pre), post. subst. repeat split; auto.
      * intros [pre [post [H1 [H2 H3]]]]. destruct pre as [|b pre]; cbn in H1; inversion H1; subst; [congruence|].
        inversion H3; subst. exists pre, post. auto.
Qed.

Theorem search_marker_spec s m : search_marker s = Some m <-> first_marker_line s m.
Proof.
  unfold search_marker, first_marker_line. rewrite find_spec. split.
  - intros [pre [post [H1 [H2 H3]]]]. exists (lines s), pre, post. split; [apply lines_spec|]. split; auto.
    split; [apply is_marker_line_spec; auto|]. rewrite Forall_forall in *. intros l Hl HH.
    apply is_marker_line_spec in HH. rewrite (H3 l Hl) in HH. discriminate.
  - intros [ls [pre [post [H0 [H1 [H2 H3]]]]]]. apply lines_unique in H0. subst ls. exists pre, post. split; auto.
    split; [apply is_marker_line_spec; auto|]. rewrite Forall_forall in *. intros l Hl.
    destruct (is_marker_line l) eqn:E; auto. apply is_marker_line_spec in E. exfalso. apply (H3 l Hl E).
Qed.

(* ------------------------------------------------------------------ *)
(* the XML trigger                                                      *)

Lemma xml_start_spec c : xml_start_char c = true <-> xml_name_start c.
Proof. unfold xml_start_char, xml_name_start, btw. rewrite !orb_true_iff, !andb_true_iff, !N.eqb_eq, !N.leb_le. tauto. Qed.
Lemma xml_next_spec c : xml_next_char c = true <-> xml_name_char c.
Proof. unfold xml_next_char, xml_name_char. rewrite !orb_true_iff, xml_start_spec. unfold btw. rewrite !andb_true_iff, !N.eqb_eq, !N.leb_le. tauto. Qed.
Lemma xml_next_not_gt c : xml_next_char c = true -> c <> 62.
Proof. unfold xml_next_char, xml_start_char, btw. lia. Qed.

Lemma xml_elems_name r rest : Forall (fun c => xml_next_char c = true) r ->
  xml_elems XName (r ++ 62 :: rest) = xml_elems XClosed rest.
Proof.
  induction 1 as [|c r Hc Hr IH]; cbn [app xml_elems].
  - rewrite N.eqb_refl. reflexivity.
  - apply xml_next_not_gt in Hc as Hn. apply N.eqb_neq in Hn. rewrite Hn, Hc. exact IH.
Qed.

Lemma xml_elems_path names : Forall xml_name names -> xml_elems XClosed (element_path names) = true.
Proof.
  induction 1 as [|n names [c [r [-> [Hc Hr]]]] Hn IH]; cbn; auto.
  apply xml_start_spec in Hc. rewrite Hc. cbn [andb]. rewrite <- app_assoc. cbn [app].
  rewrite xml_elems_name; auto. rewrite Forall_forall in *. intros x Hx. apply xml_next_spec. auto.
Qed.

Lemma xml_elems_inv : forall s,
  (xml_elems XClosed s = true -> exists names, Forall xml_name names /\ s = element_path names)
  /\ (xml_elems XName s = true -> exists r names, Forall xml_name_char r /\ Forall xml_name names /\ s = r ++ 62 :: element_path names)
  /\ (xml_elems XStart s = true -> exists c r names, xml_name_start c /\ Forall xml_name_char r /\ Forall xml_name names
                                     /\ s = c :: r ++ 62 :: element_path names).
Proof.
  induction s as [|c s [IH1 [IH2 IH3]]].
  - cbn. repeat split; try discriminate. intros _. exists []. split; [constructor|reflexivity].
  - repeat split; cbn [xml_elems].
    + intros H. apply andb_true_iff in H. destruct H as [H1 H2]. apply N.eqb_eq in H1. subst.
      destruct (IH3 H2) as [c [r [names [A [B [C D]]]]]]. exists ((c :: r) :: names). split.
      * constructor; auto. exists c, r. auto.
      * subst. cbn. rewrite <- app_assoc. reflexivity.
    + destruct (N.eqb c 62) eqn:E.
      * intros H. apply N.eqb_eq in E. subst. destruct (IH1 H) as [names [A B]]. exists [], names. subst. auto.
      * intros H. apply andb_true_iff in H. destruct H as [H1 H2]. destruct (IH2 H2) as [r [names [A [B C]]]].
        exists (c :: r), names. subst. repeat split; auto. constructor; auto. apply xml_next_spec; auto.
    + intros H. apply andb_true_iff in H. destruct H as [H1 H2]. destruct (IH2 H2) as [r [names [A [B C]]]].
      exists c, r, names. subst. repeat split; auto. apply xml_start_spec; auto.
Qed.

Theorem xml_trigger_spec s : xml_trigger s = true <-> xml_trigger_comment s.
Proof.
  unfold xml_trigger, xml_trigger_comment. split.
  - destruct (strip_prefix s_xml_trigger s) as [r|] eqn:E; [|discriminate]. intros H.
    assert (Hs : s = s_xml_trigger ++ r).
    { clear H. revert s r E. generalize s_xml_trigger. induction l as [|a l IH]; intros s r E; cbn in *; [congruence|].
      destruct s as [|d s]; [discriminate|]. destruct (N.eqb a d) eqn:E1; [|discriminate]. apply N.eqb_eq in E1. subst.
      rewrite (IH _ _ E). reflexivity. }
    destruct r as [|c r]; [discriminate|]. cbn [xml_elems] in H. apply andb_true_iff in H. destruct H as [H1 H2].
    apply N.eqb_eq in H1. subst c. destruct (proj2 (proj2 (xml_elems_inv r)) H2) as [c [r' [names [A [B [C D]]]]]].
    exists ((c :: r') :: names). split; [discriminate|]. split.
    + constructor; auto. exists c, r'. auto.
    + rewrite Hs, D. cbn. rewrite <- app_assoc. reflexivity.
  - intros [names [Hn [Hf ->]]].
    assert (E : strip_prefix s_xml_trigger (s_xml_trigger ++ element_path names) = Some (element_path names)).
    { generalize s_xml_trigger. induction l as [|a l IH]; cbn; auto. rewrite N.eqb_refl. exact IH. }
    rewrite E. destruct names as [|n names]; [congruence|]. inversion Hf as [|? ? H1 H2]; subst.
    pose proof (xml_elems_path (n :: names) Hf) as H. cbn in H |- *. exact H.
Qed.

(* polib_unescape on ARBITRARY input: it never fails in any other way than UnicodeDecodeError (no Crash:
   the bytes literal handed to ast.literal_eval is always well formed), and CPython warns exactly when the
   string contains \8, \9 or an octal escape above \377 (D14). *)
From Coq Require Import List NArith Bool Lia ZifyBool Arith.
From I18n Require Import Lib.Outcome Model.PoUnescape Proofs.PoUnescape.
Import ListNotations.
Local Open Scope N_scope.

(* the structural predicate of D14, on the source string: a backslash followed by 8 or 9, or by three octal
   digits the first of which is 4..7; a backslash and the character after it are skipped together *)
Definition bad_at (e : N) (r : list N) : bool :=
  between 56 57 e || (between 52 55 e && nth_is is_oct r 0 && nth_is is_oct r 1).
Fixpoint bad_go (s : list N) (skip : bool) : bool :=
  match s with
  | [] => false
  | c :: r =>
    if skip then bad_go r false
    else if N.eqb c 92 then match r with [] => false | e :: r2 => bad_at e r2 || bad_go r true end
    else bad_go r false
  end.
Definition bad_escape (s : list N) : bool := bad_go s false.

(* ---------------------------------------------------------------- the alternatives of _escapes_re *)
Inductive rtok := TNamed (e : N) | TDig (d : list N) | THex (d : list N).
Definition tok_text (t : rtok) : list N :=
  match t with TNamed e => [92; e] | TDig d => 92 :: d | THex d => 92 :: 120 :: d end.
Definition tok_ok (t : rtok) : Prop :=
  match t with
  | TNamed e => simple_escape e <> None
  | TDig d => (1 <= length d <= 3)%nat /\ Forall (fun c => is_dec c = true) d
  | THex d => (1 <= length d)%nat /\ Forall hexb d
  end.
(* after the long-x fix-up every hex escape has one or two digits *)
Definition tok_short (t : rtok) : Prop :=
  match t with THex d => (length d <= 2)%nat | _ => True end.
Definition tok_bad (t : rtok) : bool :=
  match t with
  | TDig (d1 :: r) => bad_at d1 r
  | _ => false
  end.
Definition tpad (t : rtok) : rtok := match t with THex [a] => THex [48; a] | _ => t end.
Definition tlong (t : rtok) : rtok := match t with THex (a :: b :: d) => THex (last2 (a :: b :: d)) | _ => t end.
Definition toks_text (l : list rtok) : list N := flat_map tok_text l.

Definition max_dig (t : rtok) (rest : list N) : Prop :=
  match t with TDig d => (length d < 3)%nat -> nth_is is_dec rest 0 = false | _ => True end.

Lemma escape_len_tok s L : escape_len s = Some L ->
  exists t rest, tok_ok t /\ s = tok_text t ++ rest /\ L = length (tok_text t) /\ max_dig t rest.
Proof.
  unfold escape_len, nth_is. destruct s as [|c0 s']; cbn [nth_error]; [discriminate|].
  destruct s' as [|e r]; cbn [nth_error]; [destruct (N.eqb BSL c0); discriminate|].
  destruct (N.eqb_spec BSL c0) as [<-|]; [|discriminate]. unfold BSL.
  destruct (simple_escape e) eqn:Es.
  - intros H. inversion H; subst. exists (TNamed e), r. cbn. repeat split; try congruence.
  - destruct (is_dec e) eqn:Ed.
    + destruct r as [|a r1]; cbn [nth_error].
      * intros H; inversion H; subst. exists (TDig [e]), []. cbn. repeat split; auto; lia.
      * destruct (is_dec a) eqn:Ea.
        -- destruct r1 as [|b r2]; cbn [nth_error].
           ++ intros H; inversion H; subst. exists (TDig [e; a]), []. cbn. repeat split; auto; lia.
           ++ destruct (is_dec b) eqn:Eb; intros H; inversion H; subst.
              ** exists (TDig [e; a; b]), r2. cbn. repeat split; auto; lia.
              ** exists (TDig [e; a]), (b :: r2). cbn. repeat split; auto; try lia; try (intros _; unfold nth_is; cbn; assumption).
        -- intros H; inversion H; subst. exists (TDig [e]), (a :: r1). cbn. repeat split; auto; try lia; try (intros _; unfold nth_is; cbn; assumption).
    + destruct (N.eqb_spec e LX) as [->|]; [|discriminate]. unfold LX. cbn [skipn].
      destruct (hex_span_firstn r) as [Hh Hl].
      destruct (hex_span r) as [|n] eqn:Eh; [discriminate|].
      intros H; inversion H; subst. exists (THex (firstn (S n) r)), (skipn (S n) r).
      cbn [tok_ok tok_text max_dig]. rewrite Hl. repeat split; auto; try lia.
      * cbn [app]. now rewrite firstn_skipn.
      * cbn [length]. now rewrite Hl.
Qed.

(* ---------------------------------------------------------------- the fix-up on a run *)
Lemma dec_nonbs d : Forall (fun c => is_dec c = true) d -> Forall (fun c => c <> 92) d.
Proof. apply Forall_impl. unfold is_dec, between. intros; lia. Qed.
Lemma hexb_nonbs d : Forall hexb d -> Forall (fun c => c <> 92) d.
Proof. exact (hexb_nonbs_ d). Qed.

Lemma tok_text_cons t : exists tl, tok_text t = 92 :: tl.
Proof. destruct t; cbn; eauto. Qed.

Lemma toks_run_tail l : run_tail (toks_text l).
Proof. destruct l as [|t l]; [now left|]. right. unfold toks_text. cbn [flat_map]. destruct (tok_text_cons t) as [tl ->]. eexists. reflexivity. Qed.

(* the long-x fix-up on one token *)
Lemma fixup_long_tok t s : tok_ok t -> run_tail s -> fixup_long (tok_text t ++ s) 0 = tok_text (tlong t) ++ fixup_long s 0.
Proof.
  intros Hok Hs. destruct t as [e | d | d]; cbn [tok_text tok_ok tlong] in *.
  - cbn [app]. apply fixup_long_pair; [|assumption]. intros ->. apply Hok. reflexivity.
  - destruct Hok as (_ & Hd). cbn [app]. apply fixup_long_digits; [|assumption].
    eapply Forall_impl; [|exact Hd]. cbn. unfold is_dec, between. intros; lia.
  - destruct Hok as (Hlen & Hd). destruct d as [|a [|b' d']]; [cbn in Hlen; lia| |].
    + inversion Hd; subst. cbn [app]. now apply fixup_long_hex1.
    + change (fixup_long (92 :: 120 :: (a :: b' :: d') ++ s) 0 = 92 :: 120 :: last2 (a :: b' :: d') ++ fixup_long s 0).
      apply fixup_long_hex; [assumption|cbn [length]; lia|assumption].
Qed.

Lemma fixup_long_toks : forall l, Forall tok_ok l -> fixup_long (toks_text l) 0 = toks_text (map tlong l).
Proof. induction l as [|t l IH]; intros Hok; [reflexivity|]. inversion Hok; subst. unfold toks_text in *. cbn [flat_map map].
  rewrite fixup_long_tok; [|assumption|apply toks_run_tail]. f_equal. now apply IH. Qed.

Lemma tlong_ok t : tok_ok t -> tok_ok (tlong t) /\ tok_short (tlong t) /\ tok_bad (tlong t) = tok_bad t.
Proof.
  destruct t as [e | d | d]; cbn [tlong tok_ok tok_short tok_bad]; try tauto.
  intros (Hlen & Hd). destruct d as [|a [|b' d']].
  - cbn [length] in Hlen. lia.
  - cbn [tlong tok_ok tok_short tok_bad length]. repeat split; auto; lia.
  - cbn [tlong tok_ok tok_short tok_bad]. rewrite last2_length by (cbn [length]; lia).
    repeat split; try lia. now apply Forall_skipn_.
Qed.

Lemma tlong_all l : Forall tok_ok l ->
  Forall tok_ok (map tlong l) /\ Forall tok_short (map tlong l) /\ existsb tok_bad (map tlong l) = existsb tok_bad l.
Proof.
  induction 1 as [|t l Ht _ (IH1 & IH2 & IH3)]; [repeat split; constructor|].
  destruct (tlong_ok t Ht) as (H1 & H2 & H3). cbn [map existsb]. repeat split; try (constructor; assumption).
  now rewrite H3, IH3.
Qed.

Lemma fixup_tok t s : tok_ok t -> tok_short t -> run_tail s -> fixup (tok_text t ++ s) 0 = tok_text (tpad t) ++ fixup s 0.
Proof.
  intros Hok Hsh Hs. destruct t as [e | d | d]; cbn [tok_text tok_ok tpad] in *.
  - cbn [app]. cbn [fixup].
    assert (HSX : short_x_at (92 :: e :: s) = false).
    { unfold short_x_at, nth_is. cbn [nth_error]. destruct (N.eqb_spec LX e) as [<-|]; [|now rewrite andb_false_r].
      exfalso. apply Hok. reflexivity. }
    rewrite HSX. f_equal.
    assert (HSY : short_x_at (e :: s) = false).
    { unfold short_x_at, nth_is. cbn [nth_error]. destruct (N.eqb_spec BSL e) as [<-|]; [|reflexivity].
      destruct Hs as [-> | [r ->]]; reflexivity. }
    rewrite HSY. reflexivity.
  - destruct Hok as (_ & Hd). cbn [app fixup].
    assert (HSX : short_x_at (92 :: d ++ s) = false).
    { unfold short_x_at, nth_is. cbn [nth_error]. destruct d as [|a d]; cbn [app nth_error].
      - destruct Hs as [-> | [r ->]]; reflexivity.
      - inversion Hd; subst. destruct (N.eqb_spec LX a) as [<-|]; [discriminate|]. now rewrite andb_false_r. }
    rewrite HSX. f_equal. apply fixup_copy. now apply dec_nonbs.
  - destruct Hok as (Hlen & Hd). cbn [tok_short] in Hsh. unfold hexb in Hd.
    destruct d as [|a [|b' [|? ?]]]; cbn [length] in Hlen, Hsh; try lia;
      repeat match goal with H : Forall _ (_ :: _) |- _ => inversion H; subst; clear H end.
    + cbn [app fixup].
      assert (HSX : short_x_at (92 :: 120 :: a :: s) = true).
      { unfold short_x_at, nth_is. cbn [nth_error]. match goal with H : is_hex a = true |- _ => rewrite H end.
        destruct Hs as [-> | [r ->]]; reflexivity. }
      rewrite HSX. cbn [nth tpad tok_text app]. reflexivity.
    + cbn [app fixup tpad tok_text].
      assert (Hb : b' <> 92) by (match goal with H : is_hex b' = true |- _ => unfold is_hex, between in H; lia end).
      assert (Ha : a <> 92) by (match goal with H : is_hex a = true |- _ => unfold is_hex, between in H; lia end).
      assert (HSX : short_x_at (92 :: 120 :: a :: b' :: s) = false).
      { unfold short_x_at, nth_is. cbn [nth_error]. destruct (N.eqb_spec b' BSL); [unfold BSL in *; congruence|]. now rewrite andb_false_r. }
      rewrite HSX. f_equal. rewrite !short_x_nonbs by (assumption || discriminate). reflexivity.
Qed.

Lemma fixup_toks : forall l, Forall tok_ok l -> Forall tok_short l -> fixup (toks_text l) 0 = toks_text (map tpad l).
Proof. induction l as [|t l IH]; intros Hok Hsh; [reflexivity|]. inversion Hok; subst. inversion Hsh; subst. unfold toks_text in *. cbn [flat_map map].
  rewrite fixup_tok; [|assumption|assumption|apply toks_run_tail]. f_equal. now apply IH. Qed.

(* ---------------------------------------------------------------- evaluation of the literal *)
Definition plain (c : N) : Prop := c <> 92 /\ c <> 39 /\ c <> 10 /\ c <> 13 /\ c < 128.

Lemma bytes_eval_plain : forall d s, Forall plain d ->
  bytes_eval (d ++ s) 0 = (do x <- bytes_eval s 0; Ok (d ++ fst x, snd x)).
Proof.
  induction d as [|c d IH]; intros s H; cbn [app].
  - destruct (bytes_eval s 0) as [[b w]| |]; reflexivity.
  - inversion H as [|? ? (H1 & H2 & H3 & H4 & H5) Hd]; subst. cbn [bytes_eval].
    destruct (N.eqb_spec c BSL); [unfold BSL in *; congruence|].
    replace (N.eqb c 39 || N.eqb c 10 || N.eqb c 13 || (128 <=? c)) with false by lia.
    rewrite IH by assumption. destruct (bytes_eval s 0) as [[b w]| |]; reflexivity.
Qed.

Lemma dec_plain d : Forall (fun c => is_dec c = true) d -> Forall plain d.
Proof. apply Forall_impl. unfold is_dec, between, plain. intros; lia. Qed.

Lemma bytes_eval_cons0 c r : bytes_eval (c :: r) 0 =
  (if N.eqb c BSL then
     match r with
     | [] => Crash CValueError
     | e :: _ =>
       if N.eqb e 39 then (do x <- bytes_eval r 1; Ok (39 :: fst x, snd x))
       else if N.eqb e 10 then bytes_eval r 1
       else match simple_escape e with
       | Some b => do x <- bytes_eval r 1; Ok (b :: fst x, snd x)
       | None =>
         if is_oct e then
           let k := oct_len r in let v := oct_value r k in
           do x <- bytes_eval r k; Ok (v mod 256 :: fst x, (255 <? v) || snd x)
         else if N.eqb e LX then
           if nth_is is_hex r 1 && nth_is is_hex r 2
           then do x <- bytes_eval r 3; Ok (hexval (nth 1 r 0) * 16 + hexval (nth 2 r 0) :: fst x, snd x)
           else Crash CValueError
         else do x <- bytes_eval r 0; Ok (BSL :: fst x, true)
       end
     end
   else if N.eqb c 39 || N.eqb c 10 || N.eqb c 13 || (128 <=? c) then Crash CValueError
   else do x <- bytes_eval r 0; Ok (c :: fst x, snd x)).
Proof. reflexivity. Qed.

Lemma simple_not_special e b : simple_escape e = Some b -> N.eqb e 39 = false /\ N.eqb e 10 = false.
Proof. unfold simple_escape. intros H.
  repeat match type of H with (if N.eqb e ?k then _ else _) = _ => destruct (N.eqb_spec e k); [subst; split; reflexivity|] end. discriminate. Qed.

Lemma dec_not_simple a : is_dec a = true -> simple_escape a = None /\ N.eqb a 39 = false /\ N.eqb a 10 = false /\ N.eqb a LX = false.
Proof. unfold is_dec, between, simple_escape, LX. intros H.
  repeat match goal with |- context [N.eqb a ?k] => destruct (N.eqb_spec a k); [lia|] end. auto. Qed.

(* the value is irrelevant here: some bytes, and the warning flag *)
Lemma eval_tok t s b w : tok_ok t -> tok_short t -> run_tail s -> bytes_eval s 0 = Ok (b, w) ->
  exists bs, bytes_eval (tok_text (tpad t) ++ s) 0 = Ok (bs ++ b, tok_bad t || w).
Proof.
  intros Hok Hsh Hs Hrest. destruct t as [e | d | d]; cbn [tok_text tok_ok tpad tok_bad] in *.
  - destruct (simple_escape e) as [v|] eqn:Es; [|congruence]. destruct (simple_not_special e v Es) as [H39 H10].
    cbn [app]. rewrite bytes_eval_cons0. change (N.eqb 92 BSL) with true. cbv iota. rewrite H39, H10, Es.
    change (bytes_eval (e :: s) 1) with (bytes_eval s 0). rewrite Hrest. exists [v]. reflexivity.
  - destruct Hok as (Hlen & Hd). destruct d as [|d1 rest]; [cbn in Hlen; lia|].
    inversion Hd as [|? ? Hd1 Hrest']; subst. destruct (dec_not_simple d1 Hd1) as (Hs1 & H39 & H10 & Hx).
    assert (Hnext : nth_is is_oct s 0 = false) by (destruct Hs as [-> | [r ->]]; reflexivity).
    cbn [app]. rewrite bytes_eval_cons0. change (N.eqb 92 BSL) with true. cbv iota. rewrite H39, H10, Hs1.
    destruct (is_oct d1) eqn:Eo.
    + (* an octal escape: 1..3 octal digits, the other digits are literal *)
      assert (Hb89 : between 56 57 d1 = false) by (unfold is_oct, between in *; lia).
      unfold bad_at. rewrite Hb89. cbn [orb].
      assert (Hplain : forall l, Forall (fun c => is_dec c = true) l -> bytes_eval (l ++ s) 0 = Ok (l ++ b, w)).
      { intros l Hl. rewrite bytes_eval_plain by now apply dec_plain. rewrite Hrest. reflexivity. }
      cbv zeta.
      destruct rest as [|d2 [|d3 [|? ?]]]; cbn [length] in Hlen; try lia.
      * assert (Ek : oct_len ([d1] ++ s) = 1%nat).
        { unfold oct_len, nth_is in *. cbn [app nth_error]. destruct s; cbn [nth_error] in *; [reflexivity|]. now rewrite Hnext. }
        cbn [app] in *. rewrite Ek. change (bytes_eval (d1 :: s) 1) with (bytes_eval s 0). rewrite Hrest. cbn [obind fst snd].
        exists [oct_value (d1 :: s) 1 mod 256]. cbn [app]. f_equal. f_equal.
        unfold nth_is. cbn [nth_error]. rewrite andb_false_r. cbn [orb].
        unfold oct_value. cbn [firstn fold_left]. unfold is_oct, between in Eo. replace (255 <? 0 * 8 + (d1 - 48)) with false by lia. reflexivity.
      * inversion Hrest' as [|? ? Hd2 _]; subst. destruct (is_oct d2) eqn:Eo2.
        -- assert (Ek : oct_len ([d1; d2] ++ s) = 2%nat).
           { unfold oct_len, nth_is in *. cbn [app nth_error]. rewrite Eo2. destruct s; cbn [nth_error] in *; [reflexivity|]. now rewrite Hnext. }
           cbn [app] in *. rewrite Ek. change (bytes_eval (d1 :: d2 :: s) 2) with (bytes_eval s 0). rewrite Hrest. cbn [obind fst snd].
           eexists [_]. cbn [app]. f_equal. f_equal.
           unfold nth_is. cbn [nth_error]. rewrite Eo2, andb_false_r. cbn [orb].
           unfold oct_value. cbn [firstn fold_left]. unfold is_oct, between in *. replace (255 <? (0 * 8 + (d1 - 48)) * 8 + (d2 - 48)) with false by lia. reflexivity.
        -- assert (Ek : oct_len ([d1; d2] ++ s) = 1%nat).
           { unfold oct_len, nth_is. cbn [app nth_error]. now rewrite Eo2. }
           cbn [app] in *. rewrite Ek. change (bytes_eval (d1 :: d2 :: s) 1) with (bytes_eval ([d2] ++ s) 0).
           rewrite Hplain by (constructor; [assumption|constructor]). cbn [obind fst snd].
           eexists (_ :: [d2]). cbn [app]. f_equal. f_equal.
           unfold nth_is. cbn [nth_error]. rewrite Eo2. rewrite andb_false_r. cbn [orb].
           unfold oct_value. cbn [firstn fold_left]. unfold is_oct, between in *. replace (255 <? 0 * 8 + (d1 - 48)) with false by lia. reflexivity.
      * inversion Hrest' as [|? ? Hd2 Hr3]; subst. inversion Hr3 as [|? ? Hd3 _]; subst.
        destruct (is_oct d2) eqn:Eo2; [destruct (is_oct d3) eqn:Eo3|].
        -- assert (Ek : oct_len ([d1; d2; d3] ++ s) = 3%nat) by (unfold oct_len, nth_is; cbn [app nth_error]; now rewrite Eo2, Eo3).
           cbn [app] in *. rewrite Ek. change (bytes_eval (d1 :: d2 :: d3 :: s) 3) with (bytes_eval s 0). rewrite Hrest. cbn [obind fst snd].
           eexists [_]. cbn [app]. f_equal. f_equal.
           unfold nth_is. cbn [nth_error]. rewrite Eo2, Eo3, !andb_true_r.
           unfold oct_value. cbn [firstn fold_left]. unfold is_oct, between in *. f_equal. lia.
        -- assert (Ek : oct_len ([d1; d2; d3] ++ s) = 2%nat) by (unfold oct_len, nth_is; cbn [app nth_error]; now rewrite Eo2, Eo3).
           cbn [app] in *. rewrite Ek. change (bytes_eval (d1 :: d2 :: d3 :: s) 2) with (bytes_eval ([d3] ++ s) 0).
           rewrite Hplain by (constructor; [assumption|constructor]). cbn [obind fst snd].
           eexists (_ :: [d3]). cbn [app]. f_equal. f_equal.
           unfold nth_is. cbn [nth_error]. rewrite Eo2, Eo3, andb_false_r. cbn [orb].
           unfold oct_value. cbn [firstn fold_left]. unfold is_oct, between in *. replace (255 <? (0 * 8 + (d1 - 48)) * 8 + (d2 - 48)) with false by lia. reflexivity.
        -- assert (Ek : oct_len ([d1; d2; d3] ++ s) = 1%nat) by (unfold oct_len, nth_is; cbn [app nth_error]; now rewrite Eo2).
           cbn [app] in *. rewrite Ek. change (bytes_eval (d1 :: d2 :: d3 :: s) 1) with (bytes_eval ([d2; d3] ++ s) 0).
           rewrite Hplain by (constructor; [assumption|constructor; [assumption|constructor]]). cbn [obind fst snd].
           eexists (_ :: [d2; d3]). cbn [app]. f_equal. f_equal.
           unfold nth_is. cbn [nth_error]. rewrite Eo2. rewrite andb_false_r. cbn [andb orb].
           unfold oct_value. cbn [firstn fold_left]. unfold is_oct, between in *. replace (255 <? 0 * 8 + (d1 - 48)) with false by lia. reflexivity.
    + (* \8 or \9: the backslash stays, CPython warns *)
      rewrite Hx. change (d1 :: rest ++ s) with ((d1 :: rest) ++ s).
      rewrite bytes_eval_plain by (apply dec_plain; constructor; assumption). rewrite Hrest. cbn [obind fst snd].
      exists (BSL :: d1 :: rest). cbn [app]. f_equal. f_equal.
      unfold bad_at. unfold is_dec, is_oct, between in *. replace ((56 <=? d1) && (d1 <=? 57)) with true by lia. reflexivity.
  - destruct Hok as (Hlen & Hd).
    assert (Hpy : forall a b', is_hex a = true -> is_hex b' = true ->
       exists bs, bytes_eval (92 :: 120 :: a :: b' :: s) 0 = Ok (bs ++ b, w)).
    { intros a b' Ha Hb. rewrite bytes_eval_cons0. change (N.eqb 92 BSL) with true. cbv iota.
      change (N.eqb 120 39) with false. change (N.eqb 120 10) with false.
      change (simple_escape 120) with (@None N). change (is_oct 120) with false.
      change (N.eqb 120 LX) with true. cbv iota. unfold nth_is. cbn [nth_error nth]. rewrite Ha, Hb. cbn [andb].
      change (bytes_eval (120 :: a :: b' :: s) 3) with (bytes_eval s 0). rewrite Hrest. cbn [obind fst snd].
      eexists [_]. reflexivity. }
    cbn [tok_short] in Hsh. unfold hexb in Hd.
    destruct d as [|a [|b' [|? ?]]]; cbn [length] in Hlen, Hsh; try lia;
      repeat match goal with H : Forall _ (_ :: _) |- _ => inversion H; subst; clear H end; cbn [tpad tok_text app orb].
    + apply Hpy; [reflexivity|assumption].
    + apply Hpy; assumption.
Qed.

Lemma eval_toks : forall l, Forall tok_ok l -> Forall tok_short l ->
  exists bs, bytes_eval (toks_text (map tpad l)) 0 = Ok (bs, existsb tok_bad l).
Proof.
  induction l as [|t l IH]; intros Hok Hsh; [exists []; reflexivity|]. inversion Hok as [|? ? Ht Hl]; subst.
  inversion Hsh as [|? ? Hst Hsl]; subst.
  destruct (IH Hl Hsl) as [bs Hbs]. unfold toks_text in *. cbn [flat_map map existsb].
  destruct (eval_tok t _ bs (existsb tok_bad l) Ht Hst (toks_run_tail (map tpad l)) Hbs) as [bs' E].
  exists (bs' ++ bs). exact E.
Qed.

(* the callback on a run: a value with the warning flag, or UnicodeDecodeError; never anything else *)
Lemma unescape_run_total dec l : Forall tok_ok l ->
  (exists t, unescape_run dec (toks_text l) = Ok (t, existsb tok_bad l)) \/ unescape_run dec (toks_text l) = Err EDecode.
Proof.
  intros Hok. unfold unescape_run. destruct (tlong_all l Hok) as (H1 & H2 & H3).
  rewrite fixup_long_toks, fixup_toks by assumption. destruct (eval_toks _ H1 H2) as [bs ->]. rewrite H3.
  cbn [lift_crash obind fst snd]. unfold decode_run. destruct (forallb (fun c => c <? 128) bs); [left; eexists; reflexivity|].
  destruct (dec bs); [left; eexists; reflexivity|right; reflexivity].
Qed.

(* ---------------------------------------------------------------- the whole string *)
Lemma flush_total dec l : Forall tok_ok l ->
  (exists t, flush_run dec (toks_text l) = Ok (t, existsb tok_bad l)) \/ flush_run dec (toks_text l) = Err EDecode.
Proof.
  intros Hok. destruct l as [|t l].
  - left. exists []. reflexivity.
  - unfold flush_run. assert (E : exists x y, toks_text (t :: l) = x :: y).
    { unfold toks_text. cbn [flat_map]. destruct (tok_text_cons t) as [tl ->]. cbn [app]. eexists _, _. reflexivity. }
    destruct E as (x & y & E). rewrite E. rewrite <- E. now apply unescape_run_total.
Qed.

Lemma bad_go_nonbs d : forall s, Forall (fun c => c <> 92) d -> bad_go (d ++ s) false = bad_go s false.
Proof. induction d as [|c d IH]; intros s H; [reflexivity|]. inversion H; subst. cbn [app bad_go].
  destruct (N.eqb_spec c 92); [congruence|]. now apply IH. Qed.

Lemma simple_not_digit e : simple_escape e <> None -> between 56 57 e = false /\ between 52 55 e = false.
Proof. unfold simple_escape. intros H.
  repeat match type of H with (if N.eqb e ?k then _ else _) <> _ => destruct (N.eqb_spec e k); [subst; split; reflexivity|] end.
  congruence. Qed.

Lemma bad_go_tok t rest : tok_ok t -> max_dig t rest -> bad_go (tok_text t ++ rest) false = tok_bad t || bad_go rest false.
Proof.
  intros Hok Hmax. destruct t as [e | d | d]; cbn [tok_text tok_ok tok_bad max_dig app] in *.
  - cbn [bad_go]. change (N.eqb 92 92) with true. cbv iota.
    assert (Hb : bad_at e rest = false).
    { unfold bad_at. destruct (simple_not_digit e Hok) as [-> ->]. reflexivity. }
    rewrite Hb. reflexivity.
  - destruct Hok as (Hlen & Hd). destruct d as [|d1 r]; [cbn in Hlen; lia|]. inversion Hd as [|? ? Hd1 Hr]; subst.
    cbn [app bad_go]. change (N.eqb 92 92) with true. cbv iota.
    rewrite (bad_go_nonbs r rest (dec_nonbs r Hr)). f_equal.
    assert (H01 : nth_is is_oct (r ++ rest) 0 && nth_is is_oct (r ++ rest) 1 = nth_is is_oct r 0 && nth_is is_oct r 1).
    { destruct r as [|d2 [|d3 [|? ?]]]; cbn [length] in Hlen; try lia; unfold nth_is in *; cbn [app nth_error length] in *.
      - specialize (Hmax ltac:(lia)). destruct rest as [|x rest']; cbn [nth_error] in *; [reflexivity|].
        assert (Hx : is_oct x = false) by (unfold is_dec, is_oct, between in *; lia). rewrite Hx. reflexivity.
      - specialize (Hmax ltac:(lia)). destruct rest as [|x rest']; cbn [nth_error] in *; [reflexivity|].
        assert (Hx : is_oct x = false) by (unfold is_dec, is_oct, between in *; lia). rewrite Hx. reflexivity.
      - reflexivity. }
    unfold bad_at. rewrite <- !andb_assoc. rewrite H01. reflexivity.
  - destruct Hok as (_ & Hd). cbn [bad_go]. change (N.eqb 92 92) with true. cbv iota.
    change (bad_at 120 (d ++ rest)) with false. cbn [orb]. apply (bad_go_nonbs d rest (hexb_nonbs d Hd)).
Qed.

Lemma bad_go_none c r : escape_len (c :: r) = None -> bad_go (c :: r) false = bad_go r false.
Proof.
  intros H. cbn [bad_go]. destruct (N.eqb_spec c 92) as [->|]; [|reflexivity].
  destruct r as [|e r2]; [reflexivity|].
  unfold escape_len, nth_is in H. cbn [nth_error] in H. change (N.eqb BSL 92) with true in H. cbv iota in H.
  destruct (simple_escape e) eqn:Es; [discriminate|].
  destruct (is_dec e) eqn:Ed.
  { exfalso. repeat match type of H with (if ?b then _ else _) = None => destruct b end; discriminate. }
  assert (Hb : bad_at e r2 = false) by (unfold bad_at; unfold is_dec, between in *; replace ((56 <=? e) && (e <=? 57)) with false by lia; replace ((52 <=? e) && (e <=? 55)) with false by lia; reflexivity).
  rewrite Hb. cbn [orb bad_go].
  destruct (N.eqb_spec e 92) as [->|]; [discriminate Es|]. reflexivity.
Qed.

Lemma go_total dec : forall n s l, (length s <= n)%nat -> Forall tok_ok l ->
  (exists t, unescape_go dec s 0 (toks_text l) = Ok (t, existsb tok_bad l || bad_go s false)) \/
  unescape_go dec s 0 (toks_text l) = Err EDecode.
Proof.
  induction n as [|n IH]; intros s l Hlen Hok.
  - destruct s; [|cbn in Hlen; lia]. cbn [unescape_go bad_go]. rewrite orb_false_r. now apply flush_total.
  - destruct s as [|c r]; [cbn [unescape_go bad_go]; rewrite orb_false_r; now apply flush_total|].
    destruct (escape_len (c :: r)) as [L|] eqn:EL.
    + destruct (escape_len_tok _ _ EL) as (t & rest & Ht & Es & HL & Hmax).
      destruct (tok_text_cons t) as [tl Etl].
      assert (Estep : unescape_go dec (c :: r) 0 (toks_text l) = unescape_go dec rest 0 (toks_text (l ++ [t]))).
      { rewrite Es, Etl in *. cbn [app] in *. inversion Es; subst c r. cbn [unescape_go]. rewrite EL. rewrite HL. cbn [length pred].
        replace (firstn (S (length tl)) (92 :: tl ++ rest)) with (92 :: tl).
        - rewrite go_skip. unfold toks_text. rewrite flat_map_app. cbn [flat_map]. now rewrite Etl, app_nil_r.
        - cbn [firstn]. f_equal. rewrite firstn_app, Nat.sub_diag, firstn_all. cbn. now rewrite app_nil_r. }
      rewrite Estep.
      assert (Hlen' : (length rest <= n)%nat).
      { apply (f_equal (@length N)) in Es. rewrite app_length, Etl in Es. cbn [length] in *. lia. }
      destruct (IH rest (l ++ [t]) Hlen' ltac:(apply Forall_app; split; [assumption|constructor; [assumption|constructor]])) as [[x Hx]|He]; [left|right; exact He].
      exists x. rewrite Hx. f_equal. f_equal. rewrite existsb_app. cbn [existsb]. rewrite orb_false_r.
      rewrite Es, (bad_go_tok t rest Ht Hmax). now rewrite orb_assoc.
    + cbn [unescape_go]. rewrite EL.
      destruct (flush_total dec l Hok) as [[ta Ha]|Ha]; rewrite Ha; cbn [obind]; [|right; reflexivity].
      destruct (IH r [] ltac:(cbn [length] in Hlen; lia) (Forall_nil _)) as [[tb Hb]|Hb]; cbn [toks_text flat_map] in Hb; rewrite Hb; cbn [obind fst snd]; [left|right; reflexivity].
      eexists. f_equal. f_equal. cbn [existsb orb]. now rewrite (bad_go_none c r EL).
Qed.

(* no input makes polib_unescape fail in any other way than UnicodeDecodeError ... *)
Theorem unescape_total dec s : forall c, unescape dec s <> Crash c.
Proof. intros c. unfold unescape. destruct (go_total dec (length s) s [] (le_n _) (Forall_nil _)) as [[t H]|H];
  cbn [toks_text flat_map] in H; rewrite H; discriminate. Qed.

(* ... and CPython warns exactly when the D14 pattern is present *)
Theorem unescape_warned dec s t w : unescape dec s = Ok (t, w) -> w = bad_escape s.
Proof. unfold unescape, bad_escape. destruct (go_total dec (length s) s [] (le_n _) (Forall_nil _)) as [[x H]|H];
  cbn [toks_text flat_map] in H; rewrite H; intros E; inversion E; reflexivity. Qed.

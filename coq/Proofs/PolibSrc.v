(* Source tie for C10 (notes/SRC13.md): every definition of Generated/PolibSrc.v (translated from lib/polib4us.py on every run by
   tools/gen/gen_polib_src.py) equals the corresponding piece of the hand-written model (Model/PoUnescape.v, Model/PoLexer.v),
   for all arguments. *)
From Coq Require Import List NArith Bool Lia.
From I18n Require Import Lib.Outcome Model.PoUnescape Model.PoParser Model.PoLexer Model.PoPy Generated.PolibSrc.
Import ListNotations.
Local Open Scope N_scope.

(* ------------------------------------------------------------------ the pattern texts *)
Lemma src_escapes_re_eq : src__escapes_re = re_escapes_text.
Proof. reflexivity. Qed.
Lemma src_long_x_escape_re_eq : src__long_x_escape_re = re_long_x_text.
Proof. reflexivity. Qed.
Lemma src_short_x_escape_re_eq : src__short_x_escape_re = re_short_x_text.
Proof. reflexivity. Qed.
Lemma src_iterlines_eq : src__iterlines = re_iterlines_text.
Proof. reflexivity. Qed.
Lemma src_atypical_comment_eq : src__atypical_comment = re_atypical_text.
Proof. reflexivity. Qed.
Lemma src_regex_texts :
  src__escapes_re = re_escapes_text /\ src__long_x_escape_re = re_long_x_text /\ src__short_x_escape_re = re_short_x_text
  /\ src__iterlines = re_iterlines_text /\ src__atypical_comment = re_atypical_text.
Proof. repeat split; reflexivity. Qed.

Lemma src_default_encoding_eq : src_default_encoding = s_ascii.
Proof. reflexivity. Qed.

(* the engine on the model's texts = the model's scanners *)
Lemma re_sub_tpl_long : forall s, re_sub_tpl re_long_x_text re_long_x_repl s = fixup_long s 0.
Proof. reflexivity. Qed.
Lemma re_sub_tpl_short : forall s, re_sub_tpl re_short_x_text re_short_x_repl s = fixup s 0.
Proof. reflexivity. Qed.
Lemma re_findall_iterlines : forall s, re_findall re_iterlines_text s = iterlines s.
Proof. reflexivity. Qed.
Lemma re_match_b_atypical : forall s, re_match_b re_atypical_text s = atypical_comment s.
Proof. reflexivity. Qed.
Lemma re_sub_cb_escapes : forall cb s, re_sub_cb re_escapes_text cb s = re_sub_runs escape_len cb s 0 [].
Proof. reflexivity. Qed.

(* ------------------------------------------------------------------ polib_unescape *)
(* the callback: normalisations, literal_eval, ASCII first, then the encoding of the file *)
Lemma src_unescape_eq : forall dec run, src_unescape dec run = unescape_run dec run.
Proof.
  intros dec run. unfold src_unescape, unescape_run.
  rewrite src_long_x_escape_re_eq, src_short_x_escape_re_eq.
  change [92; 92; 120; 92; 49] with re_long_x_repl. change [92; 92; 120; 48; 92; 49] with re_short_x_repl.
  rewrite re_sub_tpl_long, re_sub_tpl_short.
  unfold py_literal_eval_bytes, wbind.
  destruct (lift_crash (bytes_eval (fixup (fixup_long run 0) 0) 0)) as [[b w] | e | c]; cbn [obind fst snd]; try reflexivity.
  unfold py_decode_ascii, decode_run, py_decode_w, wret.
  destruct (forallb (fun c => c <? 128) b); cbn [obind fst snd].
  - now rewrite orb_false_r.
  - destruct (dec b); cbn [obind fst snd]; try reflexivity. now rewrite orb_false_r.
Qed.

Lemma re_flush_ext : forall cb1 cb2, (forall r, cb1 r = cb2 r) -> forall run, re_flush cb1 run = re_flush cb2 run.
Proof. intros cb1 cb2 H [| c r]; cbn; auto. Qed.

Lemma re_sub_runs_ext : forall e cb1 cb2, (forall r, cb1 r = cb2 r) ->
  forall s skip run, re_sub_runs e cb1 s skip run = re_sub_runs e cb2 s skip run.
Proof.
  intros e cb1 cb2 H. induction s as [| c r IH]; intros skip run; cbn [re_sub_runs].
  - now apply re_flush_ext.
  - destruct skip as [| k]; [| apply IH].
    destruct (e (c :: r)) as [L |]; [apply IH |].
    rewrite (re_flush_ext cb1 cb2 H run), (IH O []). reflexivity.
Qed.

Lemma re_flush_model : forall dec run, re_flush (unescape_run dec) run = flush_run dec run.
Proof. intros dec [| c r]; reflexivity. Qed.

(* re.sub over the runs of escapes with the model's callback is the model's collector *)
Lemma re_sub_runs_model : forall dec s skip run,
  re_sub_runs escape_len (unescape_run dec) s skip run = unescape_go dec s skip run.
Proof.
  intros dec. induction s as [| c r IH]; intros skip run; cbn [re_sub_runs unescape_go].
  - apply re_flush_model.
  - destruct skip as [| k]; [| apply IH].
    destruct (escape_len (c :: r)) as [L |]; [apply IH |].
    rewrite re_flush_model, (IH O []). reflexivity.
Qed.

Lemma src_polib_unescape_eq : forall dec s, src_polib_unescape dec s = unescape dec s.
Proof.
  intros dec s. unfold src_polib_unescape, unescape.
  rewrite src_escapes_re_eq, re_sub_cb_escapes.
  rewrite (re_sub_runs_ext escape_len (src_unescape dec) (unescape_run dec) (src_unescape_eq dec)).
  apply re_sub_runs_model.
Qed.

(* ------------------------------------------------------------------ Codecs.open *)
Lemma normalise_src : forall l,
  (if atypical_comment l then [35; 32] ++ skipn 1 l else l) = normalise l.
Proof. intros [| h t]; unfold normalise; destruct (atypical_comment _); reflexivity. Qed.

(* the loop of the generator = the model's open_lines, for every list of lines and every state *)
Lemma src_codecs_open_loop_eq : forall C ls pending empty,
  src_codecs_open_loop1 C ls pending empty = open_lines ls pending empty.
Proof.
  intros C. induction ls as [| l r IH]; intros pending empty; cbn [src_codecs_open_loop1 open_lines].
  - destruct empty; reflexivity.
  - rewrite src_atypical_comment_eq, re_match_b_atypical.
    cbv zeta. rewrite normalise_src. generalize (normalise l). intro n.
    (* robust against reordering the tests: decide the three atoms *)
    unfold is_pending, str_in. cbn [existsb].
    destruct (list_eqb (firstn 2 n) []), (list_eqb (firstn 2 n) [35; 32]), (py_str_isspace n); cbn [orb]; rewrite ?IH; reflexivity.
Qed.

Definition s_rt : str := [114; 116].      (* the mode polib 1.2.0 passes: io.open(pofile, 'rt', encoding=enc) *)
Definition s_rU : str := [114; 85].

(* Codecs.open(path, 'rt', enc) on a file whose bytes are [raw]: exactly the first half of the model's pofile_with *)
Lemma src_codecs_open_eq : forall C enc raw,
  src_codecs_open C s_rt enc raw =
  match c_decode C (if c_ascii_compatible C enc then enc else s_ascii) raw with
  | None => Err LDecode
  | Some text => Ok (codecs_open_text text)
  end.
Proof.
  intros C enc raw. unfold src_codecs_open.
  replace (str_in s_rt _) with true.
  2:{ unfold str_in, s_rt. cbn. rewrite ?orb_true_r. reflexivity. }
  cbn [negb]. cbv zeta.
  replace (if negb (c_ascii_compatible C enc) then _ else enc) with (if c_ascii_compatible C enc then enc else s_ascii)
    by (destruct (c_ascii_compatible C enc); reflexivity).
  unfold py_decode. destruct (c_decode C _ raw) as [text |]; cbn [obind]; [| reflexivity].
  rewrite src_iterlines_eq, re_findall_iterlines, src_codecs_open_loop_eq. reflexivity.
Qed.

Lemma src_codecs_open_rU : forall C enc raw, src_codecs_open C s_rU enc raw = src_codecs_open C s_rt enc raw.
Proof.
  intros. unfold src_codecs_open.
  replace (str_in s_rU _) with true by (unfold str_in, s_rU; cbn; rewrite ?orb_true_r; reflexivity).
  replace (str_in s_rt _) with true by (unfold str_in, s_rt; cbn; rewrite ?orb_true_r; reflexivity).
  reflexivity.
Qed.

(* any other mode: NotImplementedError *)
Lemma src_codecs_open_mode : forall C mode enc raw,
  list_eqb mode s_rt = false -> list_eqb mode s_rU = false -> src_codecs_open C mode enc raw = Crash CNotImplemented.
Proof.
  intros C mode enc raw H1 H2. unfold src_codecs_open.
  replace (str_in mode _) with false; [reflexivity |].
  unfold str_in. cbn [existsb]. fold s_rt s_rU.
  destruct (list_eqb mode s_rU), (list_eqb mode s_rt); try discriminate; reflexivity.
Qed.

(* polib.pofile(path, encoding=enc) = the translated Codecs.open, then polib's parser (the model's state machine) *)
Lemma pofile_with_src : forall C enc raw,
  pofile_with C enc raw =
  match src_codecs_open C s_rt enc raw with
  | Ok lines =>
    match parse_lines (mkOracles (c_decode C enc) (c_udigit C) (c_uisdigit C)) lines with
    | Ok f => Ok (mkLoaded enc f)
    | Err e => Err (LSyntax e)
    | Crash c => Crash c
    end
  | Err e => Err e
  | Crash c => Crash c
  end.
Proof.
  intros C enc raw. rewrite src_codecs_open_eq. unfold pofile_with.
  destruct (c_decode C _ raw); reflexivity.
Qed.

(* ------------------------------------------------------------------ the small patches *)
(* detect_encoding_patch: PO files (binary_mode false) get polib's own detect_encoding, MO files get None *)
Lemma src_detect_encoding_po : forall lookup raw,
  src_detect_encoding (detect_encoding lookup) raw false = Some (detect_encoding lookup raw).
Proof. reflexivity. Qed.
Lemma src_detect_encoding_mo : forall (A B : Type) (original : A -> B) path, src_detect_encoding original path true = None.
Proof. reflexivity. Qed.

(* pofile_find_patch: POFile.find returns None whatever it is asked (the header entry stays an ordinary entry) *)
Lemma src_pofile_find_none : forall (T A B K : Type) (self : A) (args : B) (kwargs : K),
  @src_pofile_find T A B K self args kwargs = None.
Proof. reflexivity. Qed.

(* The source tie (common part; the lemmas are in IntExprSrcEv.v, IntExprSrcCd.v, IntExprSrcPe.v, one file per class so
   that an edit of one class stops only the check of that class): every function of Generated/IntExprSrc.v (the statement-by-statement translation of the
   evaluator classes of lib/intexpr.py, regenerated from /repo on every run) equals the corresponding piece
   of the hand-written model Model/IntExpr.v, for all arguments.  A behavioural edit of a method changes the
   generated function and the lemma about it stops compiling. *)
From Coq Require Import List ZArith Bool Lia ZifyBool.
From I18n Require Import Lib.Outcome Lib.PySrc Model.IntExpr.
Import ListNotations.
Local Open Scope Z_scope.

(* ---------- embedding of the model's results ---------- *)
Definition of_eres (r : eres) : sres Z :=
  match r with
  | Ok v => SRet v
  | Err EOverflow => SRaise XOverflow
  | Err EDivZero => SRaise XZeroDiv
  | Crash c => SRaise (XCrash c)
  end.
Definition of_cres (r : cres) : sres (Z * Z) :=
  match r with CNone => SNone | CSome l r => SRet (l, r) | CAssert => SAssert end.
Definition of_opt (r : option (Z * Z)) : sres (Z * Z) :=
  match r with None => SNone | Some p => SRet p end.

(* ---------- the ast nodes the productions build, as one type (what `node`, `node.op`, ... range over) ---------- *)
Inductive pynode := NE (e : expr) | NBin (o : binop) | NCmp (o : cmpop) | NNot | NAnd | NOr.

(* isinstance(node, ast.<C>) *)
Definition node_isinst (nd : pynode) (k : pycls) : bool :=
  match nd, k with
  | NE Var, KName | NE (Num _), KNum
  | NBin Add, KAdd | NBin Sub, KSub | NBin Mult, KMult | NBin Div, KDiv | NBin Mod, KMod
  | NCmp CLt, KLt | NCmp CLe, KLtE | NCmp CGt, KGt | NCmp CGe, KGtE | NCmp CEq, KEq | NCmp CNe, KNotEq
  | NNot, KNot | NAnd, KAnd | NOr, KOr => true
  | _, _ => false
  end.
(* node.n : only ast.Num has it *)
Definition node_attr_n (nd : pynode) : option Z := match nd with NE (Num z) => Some z | _ => None end.

(* case analysis on every integer comparison, then reflexivity / lia: insensitive to harmless rewrites of the source
   such as min(a, b) -> min(b, a) *)
Ltac zb := repeat match goal with
  | |- context [Z.eqb ?a ?b] => let E := fresh "E" in destruct (Z.eqb a b) eqn:E
  | |- context [Z.ltb ?a ?b] => let E := fresh "E" in destruct (Z.ltb a b) eqn:E
  | |- context [Z.leb ?a ?b] => let E := fresh "E" in destruct (Z.leb a b) eqn:E
  | |- context [Z.gtb ?a ?b] => let E := fresh "E" in destruct (Z.gtb a b) eqn:E
  | |- context [Z.geb ?a ?b] => let E := fresh "E" in destruct (Z.geb a b) eqn:E
  end; cbn [negb andb orb of_eres of_cres of_opt pb2z b2z]; try reflexivity; try lia;
  try (repeat match goal with |- SRet _ = SRet _ => apply f_equal | |- (_, _) = (_, _) => apply f_equal2 end; lia).

(* Consequences of totality, soundness and completeness of the MO parser model: the oracle-level loader,
   catalogs without contexts, the refutation of the unguarded C08 statement (defect D15), presence of every
   returned string in the declared region, in-bounds layout, rejection of the named malformations. *)
From Coq Require Import List NArith Bool Lia Arith.
From I18n Require Import Lib.Outcome Model.MoParser Spec.MoFormat Proofs.MoBytes Proofs.MoStrings Proofs.MoParser.
Import ListNotations.
Local Open Scope N_scope.

(* ------------------------------------------------------------------ *)
(* the loader with the codec oracle, and the Checker.check glue: no foreign exception either *)

Theorem mo_load_total : forall asc dec enc0 f c, mo_load asc dec enc0 f <> Crash c.
Proof.
  intros asc dec enc0 f c H. unfold mo_load in H.
  assert (T := mo_parse_total asc enc0 f c). unfold mo_parse in T.
  destruct (mo_run asc enc0 f) as [[es enc] r].
  destruct (find _ _); [discriminate|].
  destruct r as [h|[m]|c']; try discriminate. inversion H; subst. now apply T.
Qed.

Theorem checker_load_total : forall asc dec f c, checker_load asc dec f <> Crash c.
Proof.
  intros asc dec f c H. unfold checker_load in H.
  destruct (mo_load asc dec None f) as [o|[m|s]|c'] eqn:L1; try discriminate.
  - destruct (mo_load asc dec (Some latin1_name) f) as [o|[m|s']|c'] eqn:L2; try discriminate.
    inversion H; subst. now apply (mo_load_total _ _ _ _ _ L2).
  - inversion H; subst. now apply (mo_load_total _ _ _ _ _ L1).
Qed.

(* a syntax error of the loader is exactly a syntax error of the byte-level parser met before any undecodable string;
   the tags of a rejected file are invalid-mo-file, preceded by nothing, and followed at most by broken-encoding *)
Theorem checker_load_tags : forall asc dec f tags o, checker_load asc dec f = Ok (tags, o) ->
  (tags = [] /\ o <> None) \/
  (exists m, tags = [TInvalidMoFile m] /\ o = None) \/
  (exists s, tags = [TBrokenEncoding s] /\ o <> None) \/
  (exists m s, tags = [TInvalidMoFile m; TBrokenEncoding s] /\ o = None).
Proof.
  intros asc dec f tags o H. unfold checker_load in H.
  destruct (mo_load asc dec None f) as [o1|[m|s]|c'] eqn:L1; try discriminate.
  - inversion H; subst. left. split; [reflexivity|discriminate].
  - inversion H; subst. right. left. eauto.
  - destruct (mo_load asc dec (Some latin1_name) f) as [o2|[m|s']|c'] eqn:L2; try discriminate; inversion H; subst.
    + right. right. left. exists s. split; [reflexivity|discriminate].
    + right. right. right. eauto.
Qed.

(* ------------------------------------------------------------------ *)
(* catalogs without contexts *)

Definition no_contexts (c : list mo_entry) : Prop := Forall (fun e => e_ctxt e = None) c.

Lemma map_as_returned_no_ctxt : forall c, no_contexts c -> map as_returned c = c.
Proof.
  induction c as [|e c IH]; intros H; [reflexivity|]. inversion H; subst. cbn [map].
  rewrite as_returned_no_ctxt by assumption. now rewrite IH.
Qed.

Theorem complete_no_contexts : forall asc enc0 f c h, wf_catalog c -> no_contexts c -> Encodes f c h ->
  mo_parse asc enc0 f = Ok {| o_entries := c; o_charset := catalog_charset asc enc0 c; o_hidden := h |}.
Proof.
  intros asc enc0 f c h Hwf Hnc [L HE]. rewrite (mo_parse_complete asc enc0 f L c h Hwf HE).
  now rewrite map_as_returned_no_ctxt.
Qed.

Theorem complete_returned : forall asc enc0 f c h, wf_catalog c -> Encodes f c h ->
  mo_parse asc enc0 f = Ok {| o_entries := map as_returned c; o_charset := catalog_charset asc enc0 c; o_hidden := h |}.
Proof. intros asc enc0 f c h Hwf [L HE]. now apply (mo_parse_complete asc enc0 f L c h). Qed.

(* hidden strings: a file that encodes the empty catalog with the flag set is returned as such, with the flag *)
Theorem hidden_flag_kept : forall asc enc0 f, Encodes f [] true ->
  mo_parse asc enc0 f = Ok {| o_entries := []; o_charset := enc0; o_hidden := true |}.
Proof.
  intros asc enc0 f H. rewrite (complete_returned asc enc0 f [] true); [reflexivity| |exact H].
  split; constructor.
Qed.

Lemma as_returned_spec : forall e,
  e_plural (as_returned e) = e_plural e /\ e_strs (as_returned e) = e_strs e /\
  match e_ctxt e with
  | None => as_returned e = e
  | Some c => as_returned e = e
  end.
Proof. intros [[c|] i p s]; repeat split. Qed.

Lemma catalog_charset_spec : forall asc enc0 c,
  catalog_charset asc enc0 c =
  match c with
  | [] => enc0
  | e :: _ => Some (choose_encoding asc enc0 (sort_key e) (val_of e))
  end.
Proof. intros asc enc0 [|e c]; reflexivity. Qed.

(* the property as stated *)
Definition C08_statement : Prop :=
  forall asc f c h, wf_catalog c -> Encodes f c h ->
    exists cs, mo_parse asc None f = Ok {| o_entries := c; o_charset := cs; o_hidden := h |}.

Lemma bytes_ok_dec : forall f, forallb (fun b => b <? 256) f = true -> bytes_ok f.
Proof.
  intros f H. apply Forall_forall. intros x Hx. rewrite forallb_forall in H. apply N.ltb_lt. now apply H.
Qed.

(* big-endian, minor revision 1, hash table of one word; order of regions: strings, value table, hash table, key table;
   the value "s" of the third mo_entry lies inside the key "b NUL bs" of the second one *)
Definition ex_file : bytes :=
  [149; 4; 18; 222; 0; 0; 0; 1; 0; 0; 0; 3; 0; 0; 0; 104; 0; 0; 0; 76; 0; 0; 0; 1; 0; 0; 0; 100; 0; 0; 0; 0; 0; 0; 0; 0;
   0; 0; 0; 0; 0; 0; 0; 0; 0; 0; 0; 0; 0; 99; 104; 97; 114; 115; 101; 116; 61; 85; 84; 70; 45; 56; 10; 0; 98; 0; 98; 115; 0;
   121; 0; 0; 99; 4; 97; 0; 0; 0; 0; 14; 0; 0; 0; 49; 0; 0; 0; 2; 0; 0; 0; 69; 0; 0; 0; 1; 0; 0; 0; 67; 127; 26; 80; 57;
   0; 0; 0; 0; 0; 0; 0; 48; 0; 0; 0; 4; 0; 0; 0; 64; 0; 0; 0; 3; 0; 0; 0; 72].

Definition ex_header_value : bytes := [99; 104; 97; 114; 115; 101; 116; 61; 85; 84; 70; 45; 56; 10].   (* "charset=UTF-8\n" *)
(* the catalog the file encodes: "" -> header; "b"/"bs" -> "y", ""; msgctxt "c" msgid "a" -> "s" *)
Definition ex_catalog : list mo_entry :=
  [ {| e_ctxt := None; e_id := []; e_plural := None; e_strs := [ex_header_value] |};
    {| e_ctxt := None; e_id := [98]; e_plural := Some [98; 115]; e_strs := [[121]; []] |};
    {| e_ctxt := Some [99]; e_id := [97]; e_plural := None; e_strs := [[115]] |} ].

Definition utf8_name : bytes := [85; 84; 70; 45; 56].

Lemma ex_parse : mo_parse (fun _ => true) None ex_file =
  Ok {| o_entries := map as_returned ex_catalog; o_charset := Some utf8_name; o_hidden := false |}.
Proof. vm_compute. reflexivity. Qed.

Lemma ex_encodes : Encodes ex_file ex_catalog false /\ wf_catalog ex_catalog.
Proof.
  assert (Hok : bytes_ok ex_file) by (apply bytes_ok_dec; vm_compute; reflexivity).
  destruct (mo_parse_sound _ _ _ _ Hok ex_parse) as (L & HE & Hwf & _).
  cbn [o_entries o_hidden] in HE, Hwf. rewrite map_map in HE, Hwf.
  assert (E : map (fun x => as_returned (as_returned x)) ex_catalog = ex_catalog) by reflexivity.
  rewrite E in HE, Hwf. split; [exists L; exact HE|exact Hwf].
Qed.

Theorem C08_statement_holds : C08_statement.
Proof.
  intros asc f c h Hwf HE. exists (catalog_charset asc None c).
  rewrite (complete_returned asc None f c h Hwf HE). now rewrite map_as_returned.
Qed.

(* ------------------------------------------------------------------ *)
(* in-bounds layout: every table word and every declared string, with its terminator, lies inside the file *)

Lemma entries_at_nth : forall f be otab ttab i es ds, entries_at f be otab ttab i es ds ->
  forall j e, nth_error es j = Some e ->
  exists d, nth_error ds j = Some d /\ entry_at f be (otab + 8 * (i + N.of_nat j)) (ttab + 8 * (i + N.of_nat j)) e d.
Proof.
  intros f be otab ttab i es ds H. induction H as [i|i e0 d0 es ds Hent Hat IH]; intros j e Hj.
  - destruct j; discriminate.
  - destruct j as [|j]; cbn [nth_error] in *.
    + inversion Hj; subst. exists d0. cbn [N.of_nat]. rewrite N.add_0_r. auto.
    + destruct (IH j e Hj) as (d & Hd & He). exists d. split; [exact Hd|].
      rewrite Nat2N.inj_succ. replace (i + N.succ (N.of_nat j)) with (i + 1 + N.of_nat j) by lia. exact He.
Qed.

Definition desc_in_bounds (f : bytes) (d : desc) : Prop :=
  d_koff d + d_klen d < blen f /\ d_voff d + d_vlen d < blen f.

Lemma entry_at_in_bounds : forall f be ko vo e d, entry_at f be ko vo e d ->
  ko + 8 <= blen f /\ vo + 8 <= blen f /\ desc_in_bounds f d.
Proof.
  intros f be ko vo e d (K1 & K2 & V1 & V2 & K3 & K4 & V3 & V4).
  destruct K2 as [_ K2]. destruct V2 as [_ V2].
  apply at_off_inside in K2, V2, K4, V4. rewrite blen_word_bytes in K2, V2. rewrite blen_app in K4, V4.
  change (blen [0]) with 1 in *. unfold desc_in_bounds. lia.
Qed.

Theorem accepted_layout_in_bounds : forall asc enc0 f o, bytes_ok f -> mo_parse asc enc0 f = Ok o ->
  exists L, Encodes_at f L (map as_returned (o_entries o)) (o_hidden o) /\
    20 <= blen f /\
    (o_entries o <> [] -> l_otab L + 8 * N.of_nat (length (o_entries o)) <= blen f /\
                          l_ttab L + 8 * N.of_nat (length (o_entries o)) <= blen f) /\
    Forall (desc_in_bounds f) (l_desc L).
Proof.
  intros asc enc0 f o Hf H. destruct (mo_parse_sound _ _ _ _ Hf H) as (L & HE & _ & _).
  exists L. split; [exact HE|].
  destruct HE as (_ & _ & _ & _ & _ & _ & [_ Ht] & _ & Hat).
  apply at_off_inside in Ht. rewrite blen_word_bytes in Ht. split; [lia|].
  remember (map as_returned (o_entries o)) as c eqn:Ec.
  assert (Hlen : length (o_entries o) = length c) by (subst c; now rewrite map_length).
  split.
  - intros Hne. rewrite Hlen.
    assert (Hc : c <> []) by (intros ->; destruct (o_entries o); [congruence|discriminate]).
    destruct (exists_last Hc) as (c' & elast & Ec').
    assert (Hn : nth_error c (length c') = Some elast) by (rewrite Ec', nth_error_app2, Nat.sub_diag by lia; reflexivity).
    destruct (entries_at_nth _ _ _ _ _ _ _ Hat _ _ Hn) as (d & _ & He).
    apply entry_at_in_bounds in He. rewrite Ec', app_length. cbn [length]. rewrite Nat.add_1_r, Nat2N.inj_succ. lia.
  - clear Hlen Ec. generalize dependent 0. generalize dependent (l_desc L). intros ds i Hat'.
    induction Hat' as [i|i e d es ds' Hent Hat' IH]; constructor; [|exact IH].
    apply entry_at_in_bounds in Hent. tauto.
Qed.

(* ------------------------------------------------------------------ *)
(* every returned string is present byte-for-byte inside a declared region, followed by NUL (or by the EOT that separates
   context and id) *)

(* the region of declared length [n] at [off] (with its terminator) is  a ++ s ++ [t] ++ b *)
Definition in_region (f : bytes) (off n : N) (s : bytes) : Prop :=
  exists a t b, (t = 0 \/ t = 4) /\ at_off f off (a ++ s ++ t :: b) /\ blen (a ++ s ++ t :: b) = n + 1.

Lemma join0_member : forall l s, In s l -> exists a b, join0 l ++ [0] = a ++ s ++ 0 :: b.
Proof.
  induction l as [|x l IH]; intros s H; [destruct H|].
  destruct l as [|y l].
  - destruct H as [->|[]]. exists [], []. reflexivity.
  - rewrite join0_cons by discriminate. destruct H as [->|H].
    + exists [], (join0 (y :: l) ++ [0]). cbn [app]. now rewrite <- app_assoc.
    + destruct (IH s H) as (a & b & E). exists (x ++ 0 :: a), b.
      rewrite <- !app_assoc. cbn [app]. f_equal. f_equal. exact E.
Qed.

Lemma region_blen : forall (k : bytes), blen (k ++ [0]) = blen k + 1.
Proof. intros. rewrite blen_app. reflexivity. Qed.

Lemma in_region_intro : forall f off K a s t b, at_off f off (K ++ [0]) -> (t = 0 \/ t = 4) ->
  K ++ [0] = a ++ s ++ t :: b -> in_region f off (blen K) s.
Proof.
  intros f off K a s t b Hat Ht E. exists a, t, b. rewrite <- E. split; [exact Ht|]. split; [exact Hat|apply region_blen].
Qed.

Ltac norm_app := repeat (rewrite <- ?app_assoc; cbn [app]); rewrite ?app_nil_r; reflexivity.

Theorem returned_strings_present : forall asc enc0 f o, bytes_ok f -> mo_parse asc enc0 f = Ok o ->
  exists L, Encodes_at f L (map as_returned (o_entries o)) (o_hidden o) /\
  forall j e', nth_error (o_entries o) j = Some e' ->
  exists d, nth_error (l_desc L) j = Some d /\
    has_word (l_be L) f (l_otab L + 8 * N.of_nat j) (d_klen d) /\ has_word (l_be L) f (l_otab L + 8 * N.of_nat j + 4) (d_koff d) /\
    has_word (l_be L) f (l_ttab L + 8 * N.of_nat j) (d_vlen d) /\ has_word (l_be L) f (l_ttab L + 8 * N.of_nat j + 4) (d_voff d) /\
    in_region f (d_koff d) (d_klen d) (e_id e') /\
    (forall c, e_ctxt e' = Some c -> in_region f (d_koff d) (d_klen d) c) /\
    (forall p, e_plural e' = Some p -> in_region f (d_koff d) (d_klen d) p) /\
    (forall s, In s (e_strs e') -> in_region f (d_voff d) (d_vlen d) s).
Proof.
  intros asc enc0 f o Hf H. destruct (mo_parse_sound _ _ _ _ Hf H) as (L & HE & _ & _).
  exists L. split; [exact HE|]. intros j e' Hj.
  destruct HE as (_ & _ & _ & _ & _ & _ & _ & _ & Hat).
  assert (Hj' : nth_error (map as_returned (o_entries o)) j = Some (as_returned e')) by (now apply map_nth_error).
  destruct (entries_at_nth _ _ _ _ _ _ _ Hat _ _ Hj') as (d & Hd & K1 & K2 & V1 & V2 & K3 & K4 & V3 & V4).
  rewrite N.add_0_l in *. exists d. split; [exact Hd|]. do 4 (split; [assumption|]).
  rewrite K3, V3. clear K1 K2 V1 V2 K3 V3 Hd Hj Hj' Hat.
  assert (Hval : forall s, In s (e_strs e') -> in_region f (d_voff d) (blen (val_of (as_returned e'))) s).
  { intros s Hs. assert (Hs' : In s (e_strs (as_returned e'))) by (unfold as_returned; destruct (e_ctxt e'); exact Hs).
    destruct (join0_member _ _ Hs') as (a & b & E). now apply (in_region_intro _ _ _ a s 0 b V4); [left|]. }
  split; [|split; [|split; [|exact Hval]]]; clear Hval V4;
    destruct e' as [[x|] i [p|] strs]; unfold as_returned, key_of, sort_key in *; cbn [e_ctxt e_id e_plural e_strs] in *.
  - apply (in_region_intro _ _ _ (x ++ [4]) i 0 (p ++ [0]) K4); [now left|norm_app].
  - apply (in_region_intro _ _ _ (x ++ [4]) i 0 [] K4); [now left|norm_app].
  - apply (in_region_intro _ _ _ [] i 0 (p ++ [0]) K4); [now left|norm_app].
  - apply (in_region_intro _ _ _ [] i 0 [] K4); [now left|norm_app].
  - intros c Hc. inversion Hc; subst c. apply (in_region_intro _ _ _ [] x 4 (i ++ 0 :: p ++ [0]) K4); [now right|norm_app].
  - intros c Hc. inversion Hc; subst c. apply (in_region_intro _ _ _ [] x 4 (i ++ [0]) K4); [now right|norm_app].
  - intros c Hc. discriminate.
  - intros c Hc. discriminate.
  - intros p0 Hp. inversion Hp; subst p0. apply (in_region_intro _ _ _ (x ++ 4 :: i ++ [0]) p 0 [] K4); [now left|norm_app].
  - intros p0 Hp. discriminate.
  - intros p0 Hp. inversion Hp; subst p0. apply (in_region_intro _ _ _ (i ++ [0]) p 0 [] K4); [now left|norm_app].
  - intros p0 Hp. discriminate.
Qed.

(* ------------------------------------------------------------------ *)
(* rejection *)

Theorem rejected_unless_encodes : forall asc enc0 f, bytes_ok f ->
  (forall L c h, ~ (Encodes_at f L c h /\ wf_catalog c)) ->
  exists m, mo_parse asc enc0 f = Err (MoSyntax m).
Proof.
  intros asc enc0 f Hf Hno. destruct (mo_parse asc enc0 f) as [o|[m]|c] eqn:E.
  - exfalso. destruct (mo_parse_sound _ _ _ _ Hf E) as (L & HE & Hwf & _). now apply (Hno L _ _ (conj HE Hwf)).
  - eauto.
  - exfalso. now apply (mo_parse_total _ _ _ _ E).
Qed.

(* break / split / comparison lemmas, and the key and value of an mo_entry (Model/MoParser.v vs Spec/MoFormat.v) *)
From Coq Require Import List NArith Bool Lia.
From I18n Require Import Lib.Outcome Model.MoParser Spec.MoFormat Proofs.MoBytes.
Import ListNotations.
Local Open Scope N_scope.

Lemma break_none : forall sep s, break sep s = None <-> ~ In sep s.
Proof.
  intros sep s. induction s as [|c r IH]; cbn [break In].
  - tauto.
  - destruct (N.eqb_spec c sep) as [E|E].
    + split; [discriminate|]. intros H. exfalso. apply H. now left.
    + destruct (break sep r) as [[a b]|].
      * split; [discriminate|]. intros H. exfalso. destruct IH as [_ IH]. assert (Some (a, b) = None) by (apply IH; tauto). discriminate.
      * split; [|reflexivity]. intros _ [H|H]; [congruence|]. now apply IH.
Qed.

Lemma break_some : forall sep s a b, break sep s = Some (a, b) <-> s = a ++ sep :: b /\ ~ In sep a.
Proof.
  intros sep s. induction s as [|c r IH]; intros a b; cbn [break].
  - split; [discriminate|]. intros [H _]. destruct a; discriminate.
  - destruct (N.eqb_spec c sep) as [E|E].
    + subst c. split.
      * intros H. inversion H; subst. split; [reflexivity|]. intros [].
      * intros [H Hn]. destruct a as [|x a].
        -- cbn [app] in H. inversion H; subst. reflexivity.
        -- cbn [app] in H. inversion H; subst. exfalso. apply Hn. now left.
    + destruct (break sep r) as [[a' b']|] eqn:B.
      * split.
        -- intros H. inversion H; subst. destruct (proj1 (IH a' b) eq_refl) as [-> Hn].
           split; [reflexivity|]. intros [H1|H1]; [congruence|]. now apply Hn.
        -- intros [H Hn]. destruct a as [|x a]; cbn [app] in H; inversion H; subst.
           ++ congruence.
           ++ assert (E2 : Some (a', b') = Some (a, b)).
              { apply IH. split; [reflexivity|]. intros H1. apply Hn. now right. }
              inversion E2; subst. reflexivity.
      * split; [discriminate|]. intros [H Hn]. destruct a as [|x a]; cbn [app] in H; inversion H; subst.
        -- congruence.
        -- assert (E2 : None = Some (a, b)).
           { apply IH. split; [reflexivity|]. intros H1. apply Hn. now right. }
           discriminate.
Qed.

Lemma break_app : forall sep a b, ~ In sep a -> break sep (a ++ sep :: b) = Some (a, b).
Proof. intros. apply break_some. auto. Qed.

Lemma break_not_in : forall sep s, ~ In sep s -> break sep s = None.
Proof. intros. now apply break_none. Qed.

(* msgid.split(b'\0', 2) *)
Lemma splitn2_cases : forall s,
  (~ In 0 s /\ splitn 2 0 s = [s]) \/
  (exists a b, s = a ++ 0 :: b /\ ~ In 0 a /\ ~ In 0 b /\ splitn 2 0 s = [a; b]) \/
  (exists a b c, s = a ++ 0 :: b ++ 0 :: c /\ splitn 2 0 s = [a; b; c]).
Proof.
  intros s. cbn [splitn]. destruct (break 0 s) as [[a b]|] eqn:B.
  - apply break_some in B. destruct B as [-> Ha]. right.
    destruct (break 0 b) as [[b1 c]|] eqn:B2.
    + apply break_some in B2. destruct B2 as [-> Hb]. right. exists a, b1, c. auto.
    + apply break_none in B2. left. exists a, b. auto.
  - apply break_none in B. left. auto.
Qed.

Lemma splitn2_one : forall s, ~ In 0 s -> splitn 2 0 s = [s].
Proof. intros s H. cbn [splitn]. now rewrite break_not_in. Qed.

Lemma splitn2_two : forall a b, ~ In 0 a -> ~ In 0 b -> splitn 2 0 (a ++ 0 :: b) = [a; b].
Proof. intros a b Ha Hb. cbn [splitn]. rewrite break_app by exact Ha. now rewrite break_not_in. Qed.

(* msgstr.split(b'\0') *)
Lemma split_all_nonempty : forall sep s, split_all sep s <> [].
Proof.
  intros sep s. destruct s as [|c r]; cbn [split_all]; [discriminate|].
  destruct (N.eqb c sep); [discriminate|]. destruct (split_all sep r); discriminate.
Qed.

Lemma join0_cons : forall s r, r <> [] -> join0 (s :: r) = s ++ 0 :: join0 r.
Proof. intros s [|x r] H; [congruence|reflexivity]. Qed.

Lemma split_all_spec : forall s, Forall (no_byte 0) (split_all 0 s) /\ join0 (split_all 0 s) = s.
Proof.
  induction s as [|c r [IH1 IH2]]; cbn [split_all].
  - split; [repeat constructor; intros []|reflexivity].
  - destruct (N.eqb_spec c 0) as [E|E].
    + subst c. split.
      * constructor; [intros []|exact IH1].
      * rewrite join0_cons by apply split_all_nonempty. now rewrite IH2.
    + destruct (split_all 0 r) as [|h t] eqn:S; [exfalso; now apply (split_all_nonempty 0 r)|].
      inversion IH1 as [|? ? Hh Ht]; subst. split.
      * constructor; [|exact Ht]. intros [H|H]; [congruence|]. now apply Hh.
      * destruct t as [|t1 t]; reflexivity.
Qed.

Lemma split_all_no_sep : forall s, ~ In 0 s -> split_all 0 s = [s].
Proof.
  induction s as [|c r IH]; intros H; cbn [split_all]; [reflexivity|].
  destruct (N.eqb_spec c 0) as [E|E]; [exfalso; apply H; now left|].
  rewrite IH; [reflexivity|]. intros H1. apply H. now right.
Qed.

Lemma split_all_app : forall s t, ~ In 0 s -> split_all 0 (s ++ 0 :: t) = s :: split_all 0 t.
Proof.
  induction s as [|c r IH]; intros t H; cbn [app split_all].
  - reflexivity.
  - destruct (N.eqb_spec c 0) as [E|E]; [exfalso; apply H; now left|].
    rewrite IH; [reflexivity|]. intros H1. apply H. now right.
Qed.

Lemma split_all_join : forall l, l <> [] -> Forall (no_byte 0) l -> split_all 0 (join0 l) = l.
Proof.
  induction l as [|s r IH]; intros Hne Hall; [congruence|].
  inversion Hall as [|? ? Hs Hr]; subst.
  destruct r as [|s2 r].
  - cbn [join0]. now apply split_all_no_sep.
  - rewrite join0_cons by discriminate. rewrite split_all_app by exact Hs. f_equal. apply IH; [discriminate|exact Hr].
Qed.

Lemma split_all_single : forall s x, split_all 0 s = [x] -> x = s.
Proof.
  intros s x H. destruct (split_all_spec s) as [_ J]. rewrite H in J. exact J.
Qed.

(* comparisons *)
Lemma bytes_eqb_refl : forall s, bytes_eqb s s = true.
Proof. induction s as [|x s IH]; cbn [bytes_eqb]; [reflexivity|]. now rewrite N.eqb_refl, IH. Qed.

Lemma bytes_eqb_eq : forall a b, bytes_eqb a b = true -> a = b.
Proof.
  induction a as [|x a IH]; intros [|y b] H; cbn [bytes_eqb] in H; try discriminate; [reflexivity|].
  apply andb_true_iff in H. destruct H as [H1 H2]. apply N.eqb_eq in H1. subst. f_equal. now apply IH.
Qed.

Lemma bytes_ltb_false : forall a b, bytes_ltb a b = false <-> lex_le b a.
Proof.
  induction a as [|x a IH]; intros [|y b]; cbn [bytes_ltb].
  - split; [constructor|reflexivity].
  - split; [discriminate|]. intros H. inversion H.
  - split; [constructor|reflexivity].
  - destruct (N.ltb_spec x y) as [L|L].
    + split; [discriminate|]. intros H. inversion H; subst; lia.
    + destruct (N.ltb_spec y x) as [L2|L2].
      * split; [|reflexivity]. intros _. now apply lex_lt.
      * assert (x = y) by lia. subst y. rewrite IH. split.
        -- intros H. now apply lex_eq.
        -- intros H. inversion H; subst; [lia|assumption].
Qed.

(* ------------------------------------------------------------------ *)
(* The mo_entry the code builds from a key: the part before the first EOT is stored as msgid, the part after it as
   msgctxt.  gmo.h/gettext: key = msgctxt EOT msgid.  [as_returned] is the relation between the mo_entry a file encodes and
   the mo_entry the parser returns (defect D15); it is the identity on entries without context. *)
Definition as_returned (e : mo_entry) : mo_entry := e.    (* D15 fixed: the parser returns the mo_entry the file encodes *)

Lemma as_returned_invol : forall e, as_returned (as_returned e) = e.
Proof. intros [[c|] i p s]; reflexivity. Qed.

Lemma as_returned_no_ctxt : forall e, e_ctxt e = None -> as_returned e = e.
Proof. reflexivity. Qed.

Lemma map_as_returned : forall c, map as_returned c = c.
Proof. induction c as [|e c IH]; [reflexivity|]. cbn [map]. now rewrite IH. Qed.

Lemma in_app_single : forall (x : N) a b, In x (a ++ [b]) -> In x a \/ x = b.
Proof. intros x a b H. apply in_app_or in H. destruct H as [H|[H|[]]]; auto. Qed.

Lemma wf_sort_key_no0 : forall e, wf_entry e -> ~ In 0 (sort_key e).
Proof.
  intros e (Hc & Hi & _). unfold sort_key. intros H. apply in_app_or in H. destruct H as [H|H]; [|now apply Hi].
  destruct (e_ctxt e) as [c|]; [|destruct H].
  destruct Hc as [Hc0 _]. apply in_app_single in H. destruct H as [H|H]; [now apply Hc0|discriminate].
Qed.

Lemma split_ctxt_wf : forall e, wf_entry e ->
  split_ctxt (sort_key e) = (e_id (as_returned e), e_ctxt (as_returned e)).
Proof.
  intros [[c|] i p s] (Hc & _); unfold split_ctxt, sort_key, as_returned;
    cbn [e_ctxt e_id e_plural e_strs] in *.
  - destruct Hc as [_ Hc4]. rewrite <- app_assoc. cbn [app]. rewrite break_app by exact Hc4. reflexivity.
  - cbn [app]. rewrite break_not_in by exact Hc. reflexivity.
Qed.

(* the converse: what a key was, given how it was split *)
Lemma split_ctxt_sound : forall k a oc p strs, split_ctxt k = (a, oc) ->
  let e := as_returned {| e_ctxt := oc; e_id := a; e_plural := p; e_strs := strs |} in
  sort_key e = k /\ match e_ctxt e with Some c => no_byte 4 c | None => no_byte 4 (e_id e) end.
Proof.
  intros k a oc p strs H. unfold split_ctxt in H.
  destruct (break 4 k) as [[a' b']|] eqn:B.
  - inversion H; subst. apply break_some in B. destruct B as [-> Hn].
    unfold as_returned, sort_key. cbn. split; [now rewrite <- app_assoc|exact Hn].
  - inversion H; subst. apply break_none in B. unfold as_returned, sort_key. cbn. auto.
Qed.

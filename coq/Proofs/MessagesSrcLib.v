(* Facts about the target vocabulary of the C16 source translator (Model/MessagesPy.v): loops, sets, dicts, and how
   they relate to the list functions Model/Messages.v is written with.  Nothing here mentions the generated file. *)
From Coq Require Import List NArith ZArith Bool Lia Permutation Sorted.
From I18n Require Import Lib.Outcome Model.IntExpr Model.PluralForms Model.Messages Model.MessagesPy Proofs.MessagesLib.
Import ListNotations.

(* ------------------------------------------------------------------ *)
(* small list / bool facts *)
Lemma str_eqb_nil s : str_eqb s [] = is_nil s.
Proof. destruct s; reflexivity. Qed.
Lemma str_eqb_sym a b : str_eqb a b = str_eqb b a.
Proof.
  destruct (str_eqb a b) eqn:E; symmetry.
  - apply str_eqb_eq in E. subst. apply str_eqb_refl.
  - apply str_eqb_neq in E. apply str_eqb_neq. congruence.
Qed.
Lemma if_app {A} (c : bool) (l a : list A) : (if c then l ++ a else l) = l ++ (if c then a else []).
Proof. destruct c; [reflexivity|now rewrite app_nil_r]. Qed.
Lemma py_truthy_nil {A} (l : list A) : py_truthy l = negb (is_nil l).
Proof. reflexivity. Qed.
Lemma existsb_perm {A} (f : A -> bool) l l' : Permutation l l' -> existsb f l = existsb f l'.
Proof.
  induction 1; cbn; auto.
  - now rewrite IHPermutation.
  - destruct (f x), (f y); reflexivity.
  - congruence.
Qed.
Lemma forallb_existsb {A} (f : A -> bool) l : negb (forallb f l) = existsb (fun x => negb (f x)) l.
Proof. induction l as [|x l IH]; cbn; [reflexivity|]. rewrite negb_andb, IH. reflexivity. Qed.
Lemma existsb_ext' {A} (f g : A -> bool) l : (forall x, f x = g x) -> existsb f l = existsb g l.
Proof. intros H. induction l; cbn; [reflexivity|]. now rewrite H, IHl. Qed.

Lemma starts_nl_src s : starts_with [10%N] s = starts_nl s.
Proof. destruct s as [|c s]; cbn; [reflexivity|]. rewrite N.eqb_sym. now rewrite andb_true_r. Qed.
Lemma ends_nl_src s : ends_with [10%N] s = ends_nl s.
Proof. unfold ends_with, ends_nl. cbn [rev app]. apply starts_nl_src. Qed.

(* ------------------------------------------------------------------ *)
(* loops *)
Lemma py_forb_find {S X} (l : list X) (s : S) (c : X -> bool) (f : S -> X -> S) body :
  (forall st x, body st x = if c x then (true, f st x) else (false, st)) ->
  py_forb l s body = match find c l with Some x => f s x | None => s end.
Proof.
  intros H. induction l as [|x l IH]; cbn; [reflexivity|].
  rewrite H. destruct (c x); cbn; [reflexivity|apply IH].
Qed.
Lemma find_existsb {A} (c : A -> bool) l : (match find c l with Some _ => true | None => false end) = existsb c l.
Proof. induction l as [|x l IH]; cbn; [reflexivity|]. destruct (c x); auto. Qed.

Lemma py_fold_flat_map {S X} (l : list X) (s : list S) (g : X -> list S) body :
  (forall st x, body st x = st ++ g x) -> py_fold l s body = s ++ flat_map g l.
Proof.
  intros H. unfold py_fold. revert s. induction l as [|x l IH]; intros s; cbn; [now rewrite app_nil_r|].
  rewrite IH, H, <- app_assoc. reflexivity.
Qed.
Lemma py_for_flat_map {S X} (l : list X) (s : list S) (g : X -> list S) body :
  (forall st x, In x l -> body st x = Ok (false, st ++ g x)) -> py_for l s body = Ok (s ++ flat_map g l).
Proof.
  revert s. induction l as [|x l IH]; intros s H; cbn; [now rewrite app_nil_r|].
  rewrite H by (left; reflexivity). cbn. rewrite IH by (intros; apply H; right; assumption).
  now rewrite <- app_assoc.
Qed.

(* ------------------------------------------------------------------ *)
(* strictly sorted lists are determined by their elements *)
Section Uniq.
  Context {A : Type} (cmp : A -> A -> comparison).
  Hypothesis cmp_eq : forall a b, cmp a b = Eq <-> a = b.
  Hypothesis cmp_gt_lt : forall a b, cmp a b = Gt -> cmp b a = Lt.
  Hypothesis cmp_trans : forall a b c, cmp a b = Lt -> cmp b c = Lt -> cmp a c = Lt.

  Lemma slt_asym a b : cmp a b = Lt -> cmp b a = Lt -> False.
  Proof. intros H1 H2. apply (slt_irrefl cmp cmp_eq a). unfold slt. eapply cmp_trans; eauto. Qed.

  Lemma sorted_unique : forall l l', StronglySorted (slt cmp) l -> StronglySorted (slt cmp) l' ->
    (forall x, In x l <-> In x l') -> l = l'.
  Proof.
    induction l as [|a l IH]; intros l' Hs Hs' Hin.
    - destruct l' as [|b l']; [reflexivity|]. exfalso. apply (Hin b). left; reflexivity.
    - destruct l' as [|b l']; [exfalso; apply (Hin a); left; reflexivity|].
      inversion Hs as [|? ? Hsl Hfa]; subst. inversion Hs' as [|? ? Hsl' Hfb]; subst.
      rewrite Forall_forall in Hfa, Hfb.
      assert (a = b) as ->.
      { destruct (proj1 (Hin a) (or_introl eq_refl)) as [E|Ha]; [now symmetry|].
        destruct (proj2 (Hin b) (or_introl eq_refl)) as [E|Hb]; [assumption|].
        exfalso. apply (slt_asym a b); [apply Hfa; assumption|apply Hfb; assumption]. }
      f_equal. apply IH; auto.
      intros x. split; intros Hx.
      + destruct (proj1 (Hin x) (or_intror Hx)) as [E|H']; [|assumption].
        subst. exfalso. apply (slt_irrefl cmp cmp_eq x). apply Hfa. assumption.
      + destruct (proj2 (Hin x) (or_intror Hx)) as [E|H']; [|assumption].
        subst. exfalso. apply (slt_irrefl cmp cmp_eq x). apply Hfb. assumption.
  Qed.

  Lemma sort_dedup_ext l l' : (forall x, In x l <-> In x l') -> sort_dedup cmp l = sort_dedup cmp l'.
  Proof.
    intros H. apply sorted_unique; try (apply sort_dedup_sorted; assumption).
    intros x. rewrite !(sort_dedup_In cmp cmp_eq). apply H.
  Qed.
  Lemma sort_dedup_idem l : sort_dedup cmp (sort_dedup cmp l) = sort_dedup cmp l.
  Proof. apply sort_dedup_ext. intros x. apply (sort_dedup_In cmp cmp_eq). Qed.
  Lemma sort_dedup_sorted_id l : StronglySorted (slt cmp) l -> sort_dedup cmp l = l.
  Proof.
    intros H. apply sorted_unique; [apply sort_dedup_sorted; assumption|assumption|].
    intros x. apply (sort_dedup_In cmp cmp_eq).
  Qed.
  Lemma sorted_filter (f : A -> bool) l : StronglySorted (slt cmp) l -> StronglySorted (slt cmp) (filter f l).
  Proof.
    induction 1 as [|a l Hs IH Hf]; cbn; [constructor|].
    destruct (f a); [|assumption]. constructor; [assumption|].
    rewrite Forall_forall in *. intros x Hx. apply filter_In in Hx. apply Hf, Hx.
  Qed.
  Lemma sort_dedup_filter (f : A -> bool) l : sort_dedup cmp (filter f l) = filter f (sort_dedup cmp l).
  Proof.
    apply sorted_unique; [apply sort_dedup_sorted; assumption|apply sorted_filter, sort_dedup_sorted; assumption|].
    intros x. rewrite (sort_dedup_In cmp cmp_eq), !filter_In, (sort_dedup_In cmp cmp_eq). tauto.
  Qed.
  Lemma sort_dedup_nil l : is_nil (sort_dedup cmp l) = is_nil l.
  Proof.
    destruct l as [|a l]; [reflexivity|]. cbn [is_nil].
    destruct (sort_dedup cmp (a :: l)) eqn:E; [|reflexivity].
    exfalso. assert (In a []) as []. rewrite <- E. apply (sort_dedup_In cmp cmp_eq). left; reflexivity.
  Qed.
End Uniq.

Definition str_sort_ext := sort_dedup_ext str_compare str_compare_eq str_compare_gt_lt str_compare_trans.
Definition str_sort_filter := sort_dedup_filter str_compare str_compare_eq str_compare_gt_lt str_compare_trans.
Definition zz_sort_ext := sort_dedup_ext zz_compare zz_compare_eq zz_compare_gt_lt zz_compare_trans.
Definition N_sort_ext := sort_dedup_ext N.compare N_compare_eq' N_compare_gt_lt N_compare_trans.

(* ------------------------------------------------------------------ *)
(* sets *)
Lemma ps_mem_memN c l : ps_mem N.eqb c l = memN c l.
Proof. reflexivity. Qed.
Lemma memN_app c a b : memN c (a ++ b) = memN c a || memN c b.
Proof. unfold memN. apply existsb_app. Qed.
Lemma memN_ext c a b : (forall x, In x a <-> In x b) -> memN c a = memN c b.
Proof.
  intros H. destruct (memN c a) eqn:E1, (memN c b) eqn:E2; try reflexivity.
  - apply memN_In, H, memN_In in E1. congruence.
  - apply memN_In, H, memN_In in E2. congruence.
Qed.
Lemma ps_diff2_filter (a b c : list N) :
  ps_diff N.eqb (ps_diff N.eqb a b) c = filter (fun x => negb (memN x b) && negb (memN x c)) a.
Proof.
  unfold ps_diff, ps_mem, memN. induction a as [|x a IH]; cbn; [reflexivity|].
  destruct (existsb (N.eqb x) b); cbn; [exact IH|].
  destruct (existsb (N.eqb x) c); cbn; [exact IH|]. now rewrite IH.
Qed.

(* len() does not need an order: the model counts the sorted distinct elements *)
Section Len.
  Context {A : Type} (cmp : A -> A -> comparison) (eqb : A -> A -> bool).
  Hypothesis cmp_eq : forall a b, cmp a b = Eq <-> a = b.
  Hypothesis cmp_gt_lt : forall a b, cmp a b = Gt -> cmp b a = Lt.
  Hypothesis cmp_trans : forall a b c, cmp a b = Lt -> cmp b c = Lt -> cmp a c = Lt.
  Hypothesis eqb_eq : forall a b, eqb a b = true <-> a = b.

  Lemma ps_mem_In x l : ps_mem eqb x l = true <-> In x l.
  Proof.
    unfold ps_mem. rewrite existsb_exists. split.
    - intros [y [Hy E]]. apply eqb_eq in E. now subst.
    - intros H. exists x. split; [assumption|now apply eqb_eq].
  Qed.
  Lemma ps_dedup_In l : forall x, In x (ps_dedup eqb l) <-> In x l.
  Proof.
    induction l as [|a l IH]; intros x; [cbn; tauto|].
    change (ps_dedup eqb (a :: l)) with (if ps_mem eqb a (ps_dedup eqb l) then ps_dedup eqb l else a :: ps_dedup eqb l).
    destruct (ps_mem eqb a (ps_dedup eqb l)) eqn:E; cbn [In]; rewrite IH; [|tauto].
    apply ps_mem_In, IH in E. split; [tauto|]. intros [<-|H]; assumption.
  Qed.
  Lemma ps_dedup_NoDup l : NoDup (ps_dedup eqb l).
  Proof.
    induction l as [|a l IH]; [constructor|].
    change (ps_dedup eqb (a :: l)) with (if ps_mem eqb a (ps_dedup eqb l) then ps_dedup eqb l else a :: ps_dedup eqb l).
    destruct (ps_mem eqb a (ps_dedup eqb l)) eqn:E; [assumption|].
    constructor; [|assumption]. intros H. apply ps_mem_In in H. congruence.
  Qed.
  Lemma ps_len_sort l : ps_len eqb l = length (sort_dedup cmp l).
  Proof.
    unfold ps_len. apply Permutation_length, NoDup_Permutation.
    - apply ps_dedup_NoDup.
    - apply (sort_dedup_NoDup cmp cmp_eq cmp_gt_lt cmp_trans).
    - intros x. rewrite ps_dedup_In, (sort_dedup_In cmp cmp_eq). tauto.
  Qed.
End Len.
Lemma ps_len_zero {A} (eqb : A -> A -> bool) l : Nat.eqb (ps_len eqb l) 0 = is_nil l.
Proof.
  destruct l as [|a l]; [reflexivity|]. unfold ps_len.
  change (ps_dedup eqb (a :: l)) with (if ps_mem eqb a (ps_dedup eqb l) then ps_dedup eqb l else a :: ps_dedup eqb l).
  destruct (ps_mem eqb a (ps_dedup eqb l)) eqn:E; [|reflexivity].
  destruct (ps_dedup eqb l); [discriminate|reflexivity].
Qed.

(* ------------------------------------------------------------------ *)
(* the outcome monad; moving a head `let` into the context *)
Lemma obind_Ok {A B E} (a : A) (f : A -> outcome B E) : obind (Ok a) f = f a.
Proof. reflexivity. Qed.
Lemma obind_Crash {A B E} c (f : A -> outcome B E) : obind (Crash c) f = Crash c.
Proof. reflexivity. Qed.
(* head `let x := v in B`: move the binding into the context without zeta-expanding it *)
Ltac pose_let :=
  lazymatch goal with
  | |- (let x := ?v in @?B x) = ?R => let y := fresh "y" in pose (y := v); change (B y = R); cbv beta
  end.

(* generic shapes of the pure loops *)
Lemma py_forb_exists {S X} (l : list X) (s : list S) (c : X -> bool) (d : list S) :
  py_forb l s (fun st x => if c x then (true, st ++ d) else (false, st)) = s ++ (if existsb c l then d else []).
Proof.
  rewrite (py_forb_find l s c (fun st _ => st ++ d)) by reflexivity.
  rewrite <- find_existsb. destruct (find c l); [reflexivity|now rewrite app_nil_r].
Qed.
Lemma py_forb_first {S X Y} (l : list X) (s : list S) (f : X -> option Y) (d : Y -> list S) :
  py_forb l s (fun st x => match f x with Some m => (true, st ++ d m) | None => (false, st) end) =
  s ++ (fix go l := match l with [] => [] | x :: r => match f x with Some m => d m | None => go r end end) l.
Proof.
  revert s. induction l as [|x l IH]; intros s; cbn; [now rewrite app_nil_r|].
  destruct (f x); cbn; [reflexivity|apply IH].
Qed.


(* ------------------------------------------------------------------ *)
(* dicts *)
Lemma pd_getd_set {K V} (eqb : K -> K -> bool) k k0 (v dflt : V) d :
  pd_getd eqb k dflt (pd_set k0 v d) = if eqb k0 k then v else pd_getd eqb k dflt d.
Proof. unfold pd_getd, pd_get, pd_set. cbn [find fst]. destruct (eqb k0 k); reflexivity. Qed.
Lemma pd_get_In {K V} (eqb : K -> K -> bool) (eqb_refl : forall a, eqb a a = true) k (d : list (K * V)) :
  In k (map fst d) -> exists v, pd_get eqb k d = Some v.
Proof.
  unfold pd_get. induction d as [|[k0 v0] d IH]; cbn [map fst In find]; [tauto|].
  intros [E|H].
  - subst. rewrite eqb_refl. eauto.
  - destruct (eqb k0 k); eauto.
Qed.

Lemma flat_map_single {A B} (g : A -> list B) (h : A -> B) l : (forall k, In k l -> g k = [h k]) -> flat_map g l = map h l.
Proof.
  induction l as [|x l IH]; intros H; cbn; [reflexivity|].
  rewrite H by (left; reflexivity). cbn. f_equal. apply IH. intros; apply H; right; assumption.
Qed.
(* generic dict facts *)
Section Dict.
  Context {K V : Type} (cmp : K -> K -> comparison) (eqb : K -> K -> bool).
  Hypothesis cmp_eq : forall a b, cmp a b = Eq <-> a = b.
  Hypothesis cmp_gt_lt : forall a b, cmp a b = Gt -> cmp b a = Lt.
  Hypothesis cmp_trans : forall a b c, cmp a b = Lt -> cmp b c = Lt -> cmp a c = Lt.
  Hypothesis eqb_eq : forall a b, eqb a b = true <-> a = b.

  Lemma eqb_refl' a : eqb a a = true.
  Proof. now apply eqb_eq. Qed.
  Lemma pd_get_Some k (d : list (K * V)) v : pd_get eqb k d = Some v -> In (k, v) d.
  Proof.
    unfold pd_get. destruct (find (fun p => eqb (fst p) k) d) as [[k' v']|] eqn:E; [|discriminate].
    intros H. inversion H; subst. apply find_some in E. destruct E as [Hin Hk]. cbn in Hk. apply eqb_eq in Hk. now subst.
  Qed.
  Lemma pd_get_notin k (d : list (K * V)) : ~ In k (map fst d) -> pd_get eqb k d = None.
  Proof.
    intros H. destruct (pd_get eqb k d) eqn:E; [|reflexivity].
    apply pd_get_Some in E. exfalso. apply H. apply in_map_iff. exists (k, v). auto.
  Qed.
  Lemma pd_get_NoDup k v (d : list (K * V)) : NoDup (map fst d) -> In (k, v) d -> pd_get eqb k d = Some v.
  Proof.
    unfold pd_get. induction d as [|[k0 v0] d IH]; cbn [map fst In find]; [tauto|].
    intros Hnd [E|Hin]; inversion Hnd as [|? ? Hn Hnd']; subst.
    - inversion E; subst. now rewrite eqb_refl'.
    - destruct (eqb k0 k) eqn:Ek; [|auto].
      apply eqb_eq in Ek. subst. exfalso. apply Hn. apply in_map_iff. exists (k, v). auto.
  Qed.
  Lemma pd_items_In k v (d : list (K * V)) : In (k, v) (pd_items cmp eqb d) <-> pd_get eqb k d = Some v.
  Proof.
    unfold pd_items. rewrite in_flat_map. split.
    - intros [k' [Hk Hin]]. destruct (pd_get eqb k' d) eqn:E; [|destruct Hin].
      destruct Hin as [Hin|[]]. inversion Hin; subst. exact E.
    - intros H. exists k. split.
      + apply (sort_dedup_In cmp cmp_eq). apply pd_get_Some in H. apply in_map_iff. exists (k, v). auto.
      + rewrite H. left; reflexivity.
  Qed.
  Lemma pd_items_keys (d : list (K * V)) : map fst (pd_items cmp eqb d) = sort_dedup cmp (map fst d).
  Proof.
    unfold pd_items.
    assert (H : forall l, (forall k, In k l -> In k (map fst d)) ->
                map fst (flat_map (fun k => match pd_get eqb k d with Some v => [(k, v)] | None => [] end) l) = l).
    { induction l as [|k l IH]; intros Hl; cbn [flat_map]; [reflexivity|].
      rewrite map_app, IH by (intros; apply Hl; right; assumption).
      destruct (pd_get_In eqb eqb_refl' k d) as [v ->]; [apply Hl; left; reflexivity|reflexivity]. }
    apply H. intros k Hk. exact (proj1 (sort_dedup_In cmp cmp_eq _ _) Hk).
  Qed.
  Lemma pd_items_perm (d : list (K * V)) : NoDup (map fst d) -> Permutation (pd_items cmp eqb d) d.
  Proof.
    intros Hnd. apply NoDup_Permutation.
    - apply (NoDup_map_inv fst). rewrite pd_items_keys. apply (sort_dedup_NoDup cmp cmp_eq cmp_gt_lt cmp_trans).
    - apply (NoDup_map_inv fst). exact Hnd.
    - intros [k v]. rewrite pd_items_In. split; [apply pd_get_Some|apply pd_get_NoDup; assumption].
  Qed.
  Lemma pd_getd_notin k (dflt : V) (d : list (K * V)) : ~ In k (map fst d) -> pd_getd eqb k dflt d = dflt.
  Proof. intros H. unfold pd_getd. now rewrite pd_get_notin. Qed.
End Dict.


(* The verdict of check_dates on one value, tag by tag. *)
From Coq Require Import List ZArith NArith Bool Lia.
From I18n Require Import Lib.Outcome Model.Dates Spec.Calendar Proofs.DatesCalendar Proofs.Dates.
Import ListNotations.
Local Open Scope Z_scope.

Lemma ok_tags_in : forall (b1 b2 b3 : bool) (v r : list N) (x : dtag),
  In x ((if b1 then [] else [TInvalidFix v r]) ++ (if b2 then [TFuture v] else []) ++ (if b3 then [TAncient v] else []))
  <-> (b1 = false /\ x = TInvalidFix v r) \/ (b2 = true /\ x = TFuture v) \/ (b3 = true /\ x = TAncient v).
Proof.
  intros. rewrite !in_app_iff, in_if_single_neg, !in_if_single. tauto.
Qed.

Theorem verdict_iff : forall E now c is_po v, table_ok (tz_table E) = true -> exempt c is_po v = false ->
  let tags := reference_verdict E now c is_po v in
  let f := fix_date E (hint_for c v) v in
  (forall d, In (TBoilerplate d) tags <-> d = v /\ f = Err Boilerplate) /\
  (forall d, In (TInvalid d) tags <-> d = v /\ f = Err Invalid) /\
  (forall d r, In (TInvalidFix d r) tags <-> d = v /\ f = Ok r /\ v <> r) /\
  (forall d, In (TFuture d) tags <-> d = v /\ exists r st, f = Ok r /\ parse_date r = Ok st /\ now < stamp_instant st * us_per_minute) /\
  (forall d, In (TAncient d) tags <-> d = v /\ exists r st, f = Ok r /\ parse_date r = Ok st /\ stamp_instant st < epoch_instant) /\
  ~ In TDuplicate tags /\ ~ In TNoField tags.
Proof.
  intros E now c is_po v Ht Hex. cbn zeta. unfold reference_verdict. rewrite Hex.
  destruct (fix_date_total E (hint_for c v) v Ht (hint_for_good c v)) as [[r Hr] | [Hr | Hr]]; rewrite Hr.
  - destruct (fix_date_canonical _ _ _ _ Hr) as (_ & st & _ & _ & _ & Hp & _).
    rewrite Hp.
    split; [|split; [|split; [|split; [|split; [|split]]]]].
    + intro d. rewrite ok_tags_in. split.
      * intros [[_ H]|[[_ H]|[_ H]]]; discriminate.
      * intros [_ H]; discriminate.
    + intro d. rewrite ok_tags_in. split.
      * intros [[_ H]|[[_ H]|[_ H]]]; discriminate.
      * intros [_ H]; discriminate.
    + intros d r'. rewrite ok_tags_in. split.
      * intros [[Hb H]|[[_ H]|[_ H]]]; try discriminate. injection H as -> ->.
        split; [reflexivity|]. split; [reflexivity|]. intros ->. rewrite list_eqb_refl in Hb. discriminate.
      * intros (-> & [= ->] & Hne). left. split; [|reflexivity].
        destruct (list_eqb v r') eqn:Eb; [apply list_eqb_eq in Eb; contradiction | reflexivity].
    + intro d. rewrite ok_tags_in. split.
      * intros [[_ H]|[[Hb H]|[_ H]]]; try discriminate. injection H as ->. apply Z.ltb_lt in Hb.
        split; [reflexivity|]. exists r, st. auto.
      * intros (-> & r' & st' & [= <-] & Hp' & Hlt). rewrite Hp in Hp'. injection Hp' as <-.
        right. left. split; [apply Z.ltb_lt; exact Hlt | reflexivity].
    + intro d. rewrite ok_tags_in. split.
      * intros [[_ H]|[[_ H]|[Hb H]]]; try discriminate. injection H as ->. apply Z.ltb_lt in Hb.
        split; [reflexivity|]. exists r, st. auto.
      * intros (-> & r' & st' & [= <-] & Hp' & Hlt). rewrite Hp in Hp'. injection Hp' as <-.
        right. right. split; [apply Z.ltb_lt; exact Hlt | reflexivity].
    + rewrite ok_tags_in. intros [[_ H]|[[_ H]|[_ H]]]; discriminate.
    + rewrite ok_tags_in. intros [[_ H]|[[_ H]|[_ H]]]; discriminate.
  - split; [|split; [|split; [|split; [|split; [|split]]]]].
    + intro d. cbn [In]. split; [intros [[= ->]|[]]; auto | intros [-> _]; auto].
    + intro d. cbn [In]. split; [intros [H|[]]; discriminate | intros [_ H]; discriminate].
    + intros d r'. cbn [In]. split; [intros [H|[]]; discriminate | intros (_ & H & _); discriminate].
    + intro d. cbn [In]. split; [intros [H|[]]; discriminate | intros (_ & r' & st' & H & _); discriminate].
    + intro d. cbn [In]. split; [intros [H|[]]; discriminate | intros (_ & r' & st' & H & _); discriminate].
    + cbn [In]. intros [H|[]]; discriminate.
    + cbn [In]. intros [H|[]]; discriminate.
  - split; [|split; [|split; [|split; [|split; [|split]]]]].
    + intro d. cbn [In]. split; [intros [H|[]]; discriminate | intros [_ H]; discriminate].
    + intro d. cbn [In]. split; [intros [[= ->]|[]]; auto | intros [-> _]; auto].
    + intros d r'. cbn [In]. split; [intros [H|[]]; discriminate | intros (_ & H & _); discriminate].
    + intro d. cbn [In]. split; [intros [H|[]]; discriminate | intros (_ & r' & st' & H & _); discriminate].
    + intro d. cbn [In]. split; [intros [H|[]]; discriminate | intros (_ & r' & st' & H & _); discriminate].
    + cbn [In]. intros [H|[]]; discriminate.
    + cbn [In]. intros [H|[]]; discriminate.
Qed.

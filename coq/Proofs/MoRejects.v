(* The malformations named by C09, stated on the file alone (words and strings found at the offsets gmo.h prescribes),
   and the proof that each of them is rejected with the parser's own error. *)
From Coq Require Import List NArith Bool Lia Arith.
From I18n Require Import Lib.Outcome Model.MoParser Spec.MoFormat Proofs.MoBytes Proofs.MoStrings Proofs.MoParser
  Proofs.MoCorollaries.
Import ListNotations.
Local Open Scope N_scope.

(* ------------------------------------------------------------------ *)
(* what the file says, independently of any catalog *)

Definition raw_header (f : bytes) (be : bool) (n otab ttab : N) : Prop :=
  has_word be f 0 magic /\ has_word be f 8 n /\ has_word be f 12 otab /\ has_word be f 16 ttab.

(* the i-th descriptor of the table at [tab] is (len, off) *)
Definition raw_desc (f : bytes) (be : bool) (tab i len off : N) : Prop :=
  has_word be f (tab + 8 * i) len /\ has_word be f (tab + 8 * i + 4) off.

(* the bytes addressed by a descriptor *)
Definition raw_string (f : bytes) (len off : N) (s : bytes) : Prop := blen s = len /\ at_off f off s.

Fixpoint upto_nul (s : bytes) : bytes :=
  match s with
  | [] => []
  | c :: r => if N.eqb c 0 then [] else c :: upto_nul r
  end.

Definition bad_magic (f : bytes) : Prop := ~ has_word true f 0 magic /\ ~ has_word false f 0 magic.
Definition bad_major (f : bytes) : Prop :=
  exists be rev, has_word be f 0 magic /\ has_word be f 4 rev /\ 1 < rev / 65536.
Definition header_truncated (f : bytes) : Prop :=
  blen f < 20 \/ exists be rev, has_word be f 0 magic /\ has_word be f 4 rev /\ rev mod 65536 = 1 /\ blen f < 40.
Definition table_past_eof (f : bytes) : Prop :=
  exists be n otab ttab, raw_header f be n otab ttab /\ 0 < n /\ (blen f < otab + 8 * n \/ blen f < ttab + 8 * n).
Definition string_past_eof (f : bytes) : Prop :=
  exists be n otab ttab i len off, raw_header f be n otab ttab /\ i < n /\
    (raw_desc f be otab i len off \/ raw_desc f be ttab i len off) /\ blen f <= off + len.
Definition not_nul_terminated (f : bytes) : Prop :=
  exists be n otab ttab i len off t, raw_header f be n otab ttab /\ i < n /\
    (raw_desc f be otab i len off \/ raw_desc f be ttab i len off) /\ at_off f (off + len) [t] /\ t <> 0.
Definition nul_structure_bad (f : bytes) : Prop :=
  exists be n otab ttab i klen koff vlen voff k v, raw_header f be n otab ttab /\ i < n /\
    raw_desc f be otab i klen koff /\ raw_desc f be ttab i vlen voff /\
    raw_string f klen koff k /\ raw_string f vlen voff v /\
    ((2 <= count_occ N.eq_dec k 0%N)%nat \/ (~ In 0 k /\ In 0 v)).
Definition keys_decreasing (f : bytes) : Prop :=
  exists be n otab ttab i len1 off1 len2 off2 k1 k2, raw_header f be n otab ttab /\ i + 1 < n /\
    raw_desc f be otab i len1 off1 /\ raw_desc f be otab (i + 1) len2 off2 /\
    raw_string f len1 off1 k1 /\ raw_string f len2 off2 k2 /\
    ~ lex_le (upto_nul k1) (upto_nul k2).

(* ------------------------------------------------------------------ *)

Lemma be_unique : forall f b1 b2, has_word b1 f 0 magic -> has_word b2 f 0 magic -> b1 = b2.
Proof.
  intros f b1 b2 H1 H2. apply magic_complete in H1, H2. rewrite H1 in H2.
  destruct b1, b2; try reflexivity; discriminate.
Qed.

Lemma header_agree : forall f L c h be n otab ttab, Encodes_at f L c h -> raw_header f be n otab ttab ->
  be = l_be L /\ n = N.of_nat (length c) /\ otab = l_otab L /\ ttab = l_ttab L.
Proof.
  intros f L c h be n otab ttab (Hm & _ & _ & _ & Hn & Ho & Ht & _) (Rm & Rn & Ro & Rt).
  assert (be = l_be L) by (eapply be_unique; eassumption). subst be.
  repeat split; eapply has_word_inj; eassumption.
Qed.

Lemma nth_lt : forall (c : list mo_entry) i, i < N.of_nat (length c) -> exists e, nth_error c (N.to_nat i) = Some e.
Proof.
  intros c i H. destruct (nth_error c (N.to_nat i)) as [e|] eqn:E; [eauto|].
  apply nth_error_None in E. lia.
Qed.

Lemma entry_lookup : forall f L c h i, Encodes_at f L c h -> i < N.of_nat (length c) ->
  exists e d, nth_error c (N.to_nat i) = Some e /\
    entry_at f (l_be L) (l_otab L + 8 * i) (l_ttab L + 8 * i) e d.
Proof.
  intros f L c h i HE Hi. destruct (nth_lt c i Hi) as [e He].
  destruct HE as (_ & _ & _ & _ & _ & _ & _ & _ & Hat).
  destruct (entries_at_nth _ _ _ _ _ _ _ Hat _ _ He) as (d & _ & Hent).
  rewrite N.add_0_l, N2Nat.id in Hent. eauto.
Qed.

Lemma at_off_app_l : forall f off a b, at_off f off (a ++ b) -> at_off f off a.
Proof.
  intros f off a b (pre & post & -> & H). exists pre, (b ++ post). now rewrite <- app_assoc.
Qed.

Lemma at_off_app_r : forall f off a b, at_off f off (a ++ b) -> at_off f (off + blen a) b.
Proof.
  intros f off a b (pre & post & -> & H). exists (pre ++ a), post. split.
  - now rewrite <- !app_assoc.
  - rewrite blen_app. lia.
Qed.

Lemma at_off_unique : forall f off a b, at_off f off a -> at_off f off b -> blen a = blen b -> a = b.
Proof.
  intros f off a b Ha Hb E. destruct (at_off_drop _ _ _ Ha) as [_ [p Ea]]. destruct (at_off_drop _ _ _ Hb) as [_ [q Eb]].
  rewrite <- (take_app_blen a p), <- Ea, E, Eb. apply take_app_blen.
Qed.

Lemma desc_agree : forall f be ko vo e d tab i len off,
  entry_at f be ko vo e d -> raw_desc f be tab i len off ->
  (tab + 8 * i = ko -> len = d_klen d /\ off = d_koff d) /\ (tab + 8 * i = vo -> len = d_vlen d /\ off = d_voff d).
Proof.
  intros f be ko vo e d tab i len off (K1 & K2 & V1 & V2 & _) [R1 R2]. split; intros E; rewrite E in *;
    split; eapply has_word_inj; eassumption.
Qed.

(* ------------------------------------------------------------------ *)

Lemma encodes_not_bad_magic : forall f L c h, Encodes_at f L c h -> ~ bad_magic f.
Proof. intros f L c h (Hm & _) [H1 H2]. destruct (l_be L); contradiction. Qed.

Lemma encodes_not_bad_major : forall f L c h, Encodes_at f L c h -> ~ bad_major f.
Proof.
  intros f L c h (Hm & Hmaj & Hmin & Hrev & _) (be & rev & Rm & Rrev & Hbad).
  assert (be = l_be L) by (eapply be_unique; eassumption). subst be.
  assert (rev = l_major L * 65536 + l_minor L) by (eapply has_word_inj; eassumption). subst rev.
  destruct (revision_split (l_major L) (l_minor L) Hmin) as [E _]. rewrite E in Hbad. lia.
Qed.

Lemma encodes_not_header_truncated : forall f L c h, Encodes_at f L c h -> ~ header_truncated f.
Proof.
  intros f L c h (Hm & Hmaj & Hmin & Hrev & _ & _ & Ht & Hh & _) [Hs|(be & rev & Rm & Rrev & Hmin1 & Hs)].
  - destruct Ht as [_ Ht]. apply at_off_inside in Ht. rewrite blen_word_bytes in Ht. lia.
  - assert (be = l_be L) by (eapply be_unique; eassumption). subst be.
    assert (rev = l_major L * 65536 + l_minor L) by (eapply has_word_inj; eassumption). subst rev.
    destruct (revision_split (l_major L) (l_minor L) Hmin) as [_ E]. rewrite E in Hmin1. unfold hidden_of in Hh. rewrite Hmin1 in Hh.
    cbn in Hh. destruct Hh as (w & [_ Hw] & _). apply at_off_inside in Hw. rewrite blen_word_bytes in Hw. lia.
Qed.

Lemma encodes_not_table_past_eof : forall f L c h, Encodes_at f L c h -> ~ table_past_eof f.
Proof.
  intros f L c h HE (be & n & otab & ttab & Rh & Hn & Hbad).
  destruct (header_agree _ _ _ _ _ _ _ _ HE Rh) as (-> & -> & -> & ->).
  destruct (entry_lookup f L c h (N.of_nat (length c) - 1) HE) as (e & d & _ & Hent); [lia|].
  apply entry_at_in_bounds in Hent. lia.
Qed.

Lemma encodes_not_string_past_eof : forall f L c h, Encodes_at f L c h -> ~ string_past_eof f.
Proof.
  intros f L c h HE (be & n & otab & ttab & i & len & off & Rh & Hi & Hd & Hbad).
  destruct (header_agree _ _ _ _ _ _ _ _ HE Rh) as (-> & -> & -> & ->).
  destruct (entry_lookup f L c h i HE Hi) as (e & d & _ & Hent).
  assert (Hb := entry_at_in_bounds _ _ _ _ _ _ Hent). destruct Hb as (_ & _ & Hk & Hv).
  destruct Hd as [Hd|Hd]; destruct (desc_agree _ _ _ _ _ _ _ _ _ _ Hent Hd) as [A B].
  - destruct (A eq_refl) as [-> ->]. lia.
  - destruct (B eq_refl) as [-> ->]. lia.
Qed.

Lemma encodes_not_unterminated : forall f L c h, Encodes_at f L c h -> ~ not_nul_terminated f.
Proof.
  intros f L c h HE (be & n & otab & ttab & i & len & off & t & Rh & Hi & Hd & Ht & Hne).
  destruct (header_agree _ _ _ _ _ _ _ _ HE Rh) as (-> & -> & -> & ->).
  destruct (entry_lookup f L c h i HE Hi) as (e & d & _ & Hent).
  assert (Hent' := Hent). destruct Hent' as (_ & _ & _ & _ & K3 & K4 & V3 & V4).
  apply at_off_app_r in K4, V4. rewrite <- K3 in K4. rewrite <- V3 in V4.
  destruct Hd as [Hd|Hd]; destruct (desc_agree _ _ _ _ _ _ _ _ _ _ Hent Hd) as [A B].
  - destruct (A eq_refl) as [-> ->]. apply Hne. assert (X : [t] = [0]) by (now apply (at_off_unique f _ [t] [0] Ht K4)). now inversion X.
  - destruct (B eq_refl) as [-> ->]. apply Hne. assert (X : [t] = [0]) by (now apply (at_off_unique f _ [t] [0] Ht V4)). now inversion X.
Qed.

Lemma count_occ_no : forall (s : bytes) x, ~ In x s -> count_occ N.eq_dec s x = 0%nat.
Proof. intros s x H. now apply count_occ_not_In. Qed.

Lemma wf_key_count : forall e, wf_entry e -> (count_occ N.eq_dec (key_of e) 0%N <= 1)%nat.
Proof.
  intros e Hwf. assert (H0 := wf_sort_key_no0 e Hwf). destruct Hwf as (_ & _ & Hp & _).
  unfold key_of. rewrite count_occ_app, (count_occ_no _ _ H0). destruct (e_plural e) as [p|].
  - destruct Hp as [Hp _]. rewrite count_occ_cons_eq by reflexivity. rewrite (count_occ_no _ _ Hp). lia.
  - cbn. lia.
Qed.

Lemma raw_strings_agree : forall f be ko vo e d klen koff k tab i,
  entry_at f be ko vo e d -> tab + 8 * i = ko ->
  raw_desc f be tab i klen koff -> raw_string f klen koff k -> k = key_of e.
Proof.
  intros f be ko vo e d klen koff k tab i Hent E Hd [Hl Hat].
  destruct (desc_agree _ _ _ _ _ _ _ _ _ _ Hent Hd) as [A _]. destruct (A E) as [-> ->].
  destruct Hent as (_ & _ & _ & _ & K3 & K4 & _). apply at_off_app_l in K4.
  apply (at_off_unique f (d_koff d)); [exact Hat|exact K4|congruence].
Qed.

Lemma encodes_not_nul_bad : forall f L c h, Encodes_at f L c h -> wf_catalog c -> ~ nul_structure_bad f.
Proof.
  intros f L c h HE [Hwf _] (be & n & otab & ttab & i & klen & koff & vlen & voff & k & v & Rh & Hi & Hdk & Hdv & Hk & Hv & Hbad).
  destruct (header_agree _ _ _ _ _ _ _ _ HE Rh) as (-> & -> & -> & ->).
  destruct (entry_lookup f L c h i HE Hi) as (e & d & Hnth & Hent).
  assert (Hwe : wf_entry e) by (rewrite Forall_forall in Hwf; apply Hwf; eapply nth_error_In; eassumption).
  assert (Ek : k = key_of e) by (eapply (raw_strings_agree f _ _ _ e d klen koff k); eauto).
  assert (Ev : v = val_of e).
  { destruct Hv as [Hl Hat]. destruct (desc_agree _ _ _ _ _ _ _ _ _ _ Hent Hdv) as [_ B]. destruct (B eq_refl) as [-> ->].
    destruct Hent as (_ & _ & _ & _ & _ & _ & V3 & V4). apply at_off_app_l in V4.
    apply (at_off_unique f (d_voff d)); [exact Hat|exact V4|congruence]. }
  subst k v. destruct Hbad as [Hc|[Hnk Hv0]].
  - assert (Hle := wf_key_count e Hwe). lia.
  - destruct Hwe as (_ & _ & Hp & Hs). unfold key_of in Hnk. unfold val_of in Hv0.
    destruct (e_plural e) as [p|].
    + apply Hnk. apply in_or_app. right. now left.
    + destruct Hp as [s Es]. rewrite Es in *. cbn [join0] in Hv0. inversion Hs; subst. contradiction.
Qed.

Lemma upto_nul_app : forall a r, ~ In 0 a -> (r = [] \/ exists p, r = 0 :: p) -> upto_nul (a ++ r) = a.
Proof.
  induction a as [|x a IH]; intros r Ha Hr; cbn [app upto_nul].
  - destruct Hr as [->|[p ->]]; reflexivity.
  - destruct (N.eqb_spec x 0) as [E|E]; [exfalso; apply Ha; now left|].
    rewrite IH; [reflexivity| |exact Hr]. intros H. apply Ha. now right.
Qed.

Lemma wf_upto_nul : forall e, wf_entry e -> upto_nul (key_of e) = sort_key e.
Proof.
  intros e Hwf. assert (H0 := wf_sort_key_no0 e Hwf). unfold key_of. apply upto_nul_app; [exact H0|].
  destruct (e_plural e); eauto.
Qed.

Lemma keys_sorted_nth : forall c j a b, keys_sorted c -> nth_error c j = Some a -> nth_error c (S j) = Some b ->
  lex_le (sort_key a) (sort_key b).
Proof.
  intros c j a b H. revert j. induction H as [|e|x y r Hle Hs IH]; intros j Ha Hb.
  - destruct j; discriminate.
  - destruct j as [|j]; cbn in Hb; [discriminate|destruct j; discriminate].
  - destruct j as [|j].
    + cbn in Ha, Hb. inversion Ha; inversion Hb; subst. exact Hle.
    + apply (IH j); assumption.
Qed.

Lemma encodes_not_decreasing : forall f L c h, Encodes_at f L c h -> wf_catalog c -> ~ keys_decreasing f.
Proof.
  intros f L c h HE [Hwf Hsort] (be & n & otab & ttab & i & len1 & off1 & len2 & off2 & k1 & k2 & Rh & Hi & Hd1 & Hd2 & Hk1 & Hk2 & Hbad).
  destruct (header_agree _ _ _ _ _ _ _ _ HE Rh) as (-> & -> & -> & ->).
  destruct (entry_lookup f L c h i HE) as (e1 & d1 & Hn1 & Hent1); [lia|].
  destruct (entry_lookup f L c h (i + 1) HE) as (e2 & d2 & Hn2 & Hent2); [lia|].
  rewrite Forall_forall in Hwf.
  assert (Hw1 : wf_entry e1) by (apply Hwf; eapply nth_error_In; eassumption).
  assert (Hw2 : wf_entry e2) by (apply Hwf; eapply nth_error_In; eassumption).
  assert (E1 : k1 = key_of e1) by (eapply (raw_strings_agree f _ _ _ e1 d1 len1 off1 k1); eauto).
  assert (E2 : k2 = key_of e2) by (eapply (raw_strings_agree f _ _ _ e2 d2 len2 off2 k2); eauto).
  subst k1 k2. rewrite (wf_upto_nul _ Hw1), (wf_upto_nul _ Hw2) in Hbad. apply Hbad.
  replace (N.to_nat (i + 1)) with (S (N.to_nat i)) in Hn2 by lia.
  eapply keys_sorted_nth; eassumption.
Qed.

(* ------------------------------------------------------------------ *)

Definition malformed (f : bytes) : Prop :=
  bad_magic f \/ bad_major f \/ header_truncated f \/ table_past_eof f \/ string_past_eof f \/
  not_nul_terminated f \/ nul_structure_bad f \/ keys_decreasing f.

Theorem malformed_rejected : forall asc enc0 f, bytes_ok f -> malformed f ->
  exists m, mo_parse asc enc0 f = Err (MoSyntax m).
Proof.
  intros asc enc0 f Hf Hm. apply rejected_unless_encodes; [exact Hf|].
  intros L c h [HE Hwf].
  destruct Hm as [H|[H|[H|[H|[H|[H|[H|H]]]]]]].
  - now apply (encodes_not_bad_magic _ _ _ _ HE).
  - now apply (encodes_not_bad_major _ _ _ _ HE).
  - now apply (encodes_not_header_truncated _ _ _ _ HE).
  - now apply (encodes_not_table_past_eof _ _ _ _ HE).
  - now apply (encodes_not_string_past_eof _ _ _ _ HE).
  - now apply (encodes_not_unterminated _ _ _ _ HE).
  - now apply (encodes_not_nul_bad _ _ _ _ HE Hwf).
  - now apply (encodes_not_decreasing _ _ _ _ HE Hwf).
Qed.

(* the two malformations the parser meets first are reported with their own message (no bytes_ok needed) *)
Theorem bad_magic_message : forall asc enc0 f, bad_magic f -> mo_parse asc enc0 f = Err (MoSyntax MMagic).
Proof.
  intros asc enc0 f [Hb Hl]. unfold mo_parse, mo_run, parse_header.
  destruct (bytes_eqb (slice f 0 4) le_magic) eqn:B1.
  - exfalso. apply Hl. apply (magic_sound false). now apply bytes_eqb_eq.
  - destruct (bytes_eqb (slice f 0 4) be_magic) eqn:B2.
    + exfalso. apply Hb. apply (magic_sound true). now apply bytes_eqb_eq.
    + reflexivity.
Qed.

Theorem bad_major_message : forall asc enc0 f be rev, has_word be f 0 magic -> has_word be f 4 rev -> 1 < rev / 65536 ->
  mo_parse asc enc0 f = Err (MoSyntax (MMajor (rev / 65536))).
Proof.
  intros asc enc0 f be rev Hm Hrev Hbad. unfold mo_parse, mo_run, parse_header. cbv zeta.
  rewrite (magic_complete _ _ Hm).
  assert (Ebe : (if bytes_eqb (magic_of be) le_magic then Ok false
                 else if bytes_eqb (magic_of be) be_magic then Ok true
                 else Err (MoSyntax MMagic)) = (Ok be : outcome bool mo_err)) by (destruct be; reflexivity).
  rewrite Ebe. cbn [obind]. rewrite (read_int_complete _ _ _ _ Hrev). cbn [obind].
  destruct (N.ltb_spec 1 (rev / 65536)) as [_|X]; [reflexivity|lia].
Qed.

(* Source tie for C11 (notes/SRC14.md): the functions that tools/gen/gen_fmtc_src.py translates from
   lib/strformat/c.py (Generated/FmtCSrc.v) EQUAL the hand-written model Model/FmtC.v, for all arguments.
   This file: FormatString.add_argument and Conversion.__init__. *)
From Coq Require Import List NArith ZArith Bool Lia.
From I18n Require Import Lib.Outcome Lib.CFmtSyntax Generated.CInfo Model.FmtC Model.FmtCPy Generated.FmtCSrc.
Import ListNotations.
Local Open Scope Z_scope.
(* a proof that diverges after an edit of the translated code must fail, not hang the check *)
Set Default Timeout 120.

(* the model's outcome in the vocabulary of the translation *)
Definition emb {A} (o : outcome A cerr) : cres A :=
  match o with
  | Ok a => CRet a
  | Err e => CRaise (XErr e)
  | Crash CAssertion => CAssert
  | Crash c => CRaise (XCrash c)
  end.

Lemma to_outcome_emb : forall A (o : outcome A cerr), to_outcome (emb o) = o.
Proof. intros A [a|e|c]; try reflexivity. destruct c; reflexivity. Qed.

Lemma emb_bind : forall A B (o : outcome A cerr) (f : A -> outcome B cerr),
  emb (obind o f) = cbind (emb o) (fun a => emb (f a)).
Proof. intros A B [a|e|c] f; try reflexivity. destruct c; reflexivity. Qed.

Lemma emb_inj : forall A (o1 o2 : outcome A cerr), emb o1 = emb o2 -> o1 = o2.
Proof. intros A o1 o2 H. rewrite <- (to_outcome_emb _ o1), <- (to_outcome_emb _ o2), H. reflexivity. Qed.

(* ------------------------------------------------------------------ *)
(* small facts about the vocabulary                                     *)

Lemma list_eqb_refl : forall l, list_eqb l l = true.
Proof. induction l as [|x l IH]; cbn; [reflexivity|]. rewrite N.eqb_refl. exact IH. Qed.

Lemma list_eqb_eq : forall a b, list_eqb a b = true -> a = b.
Proof.
  induction a as [|x a IH]; intros [|y b] H; cbn in H; try discriminate; [reflexivity|].
  apply andb_true_iff in H. destruct H as [H1 H2]. apply N.eqb_eq in H1. subst y. f_equal. apply IH. exact H2.
Qed.

Lemma str_in_single : forall c s, str_in [c] s = mem c s.
Proof.
  intros c s. unfold mem. induction s as [|y s IH]; [reflexivity|].
  cbn [str_in prefix_eqb existsb]. rewrite IH. rewrite andb_true_r. reflexivity.
Qed.

Lemma single_eqb : forall c k, list_eqb [c] [k] = (c =? k)%N.
Proof. intros. cbn. apply andb_true_r. Qed.

Lemma prefix_starts : forall p s, prefix_eqb p s = starts p s.
Proof.
  unfold starts. induction p as [|x p IH]; intros s; [reflexivity|].
  destruct s as [|y s]; [reflexivity|]. cbn [prefix_eqb strip]. destruct (x =? y)%N; [|reflexivity]. cbn [andb]. apply IH.
Qed.

Lemma drop_while_none : forall c l, forallb (fun x => negb (x =? c)%N) l = true -> drop_while_eq c l = l.
Proof. intros c [|x l] H; [reflexivity|]. cbn in H. apply andb_true_iff in H. destruct H as [H _]. cbn. destruct (x =? c)%N; [discriminate|reflexivity]. Qed.

Definition no_dollar (ds : list N) : Prop := forallb (fun x => negb (x =? 36)%N) ds = true.

Lemma rstrip_dollar : forall ds, no_dollar ds -> str_rstrip 36%N (ds ++ [36%N]) = ds.
Proof.
  intros ds H. unfold str_rstrip. rewrite rev_app_distr. cbn [rev app drop_while_eq]. rewrite N.eqb_refl.
  rewrite drop_while_none; [apply rev_involutive|].
  apply forallb_forall. intros x Hx. apply in_rev in Hx. unfold no_dollar in H. rewrite forallb_forall in H. apply H. exact Hx.
Qed.

Lemma of_nat_eqb1 : forall n, (Z.of_nat n =? 1) = Nat.eqb n 1.
Proof. intros n. destruct (Nat.eqb n 1) eqn:E; [apply Nat.eqb_eq in E; subst; reflexivity|]. apply Nat.eqb_neq in E. apply Z.eqb_neq. lia. Qed.

(* ------------------------------------------------------------------ *)
(* FormatString.add_argument                                            *)

(* the two handlers every call site puts around add_argument *)
Definition add_handlers {A} (s : list N) (x : cexn) : option (cres A) :=
  match x with
  | XIndex => Some (CRaise (XErr (EArgumentNumberingMixture s)))
  | XOverflow v_exc => Some (CRaise (XErr (EArgumentRangeErrorStr s v_exc)))
  | _ => None
  end.

(* add_argument as the code has it: IndexError / OverflowError(n) are raised, the caller converts them *)
Theorem src_add_argument_eq : forall maxd s st n v,
  ccatch (src_add_argument maxd (st_entries st) (st_next st) n v) (add_handlers s)
  = emb (do st' <- add_argument s st n v; Ok (st_entries st', st_next st')).
Proof.
  intros maxd s [m nx w] n v. unfold src_add_argument, add_argument, amap_add. cbn [st_entries st_next st_warn].
  cbv zeta.
  destruct n as [k|]; destruct nx as [j|]; cbn [ccatch add_handlers]; rewrite ?Z.gtb_ltb;
    repeat match goal with
           | |- context [if ?c then _ else _] => destruct c eqn:?
           | |- context [match ?l with [] => _ | _ :: _ => _ end] => destruct l
           end; cbn in *; try reflexivity; try discriminate.
Qed.

(* the same, for the shape the translator gives to a call inside try/except *)
Lemma call_add_eq : forall maxd s m nx w n v,
  ccatch (cbind (src_add_argument maxd m nx n v) (fun '(m', nx') => CRet (m', nx')))
         (fun x => match x with
                   | XIndex => Some (CRaise (XErr (EArgumentNumberingMixture s)))
                   | XOverflow v_exc => Some (CRaise (XErr (EArgumentRangeErrorStr s v_exc)))
                   | _ => None end)
  = emb (do st' <- add_argument s (mkst m nx w) n v; Ok (st_entries st', st_next st')).
Proof.
  intros. rewrite <- (src_add_argument_eq maxd s (mkst m nx w) n v). cbn [st_entries st_next].
  destruct (src_add_argument maxd m nx n v) as [[m' nx']| |x]; try reflexivity.
Qed.

Lemma add_argument_warn : forall s st n v st', add_argument s st n v = Ok st' -> st_warn st' = st_warn st.
Proof.
  intros s [m nx w] n v st'. unfold add_argument. cbn [st_entries st_next st_warn].
  destruct n as [k|]; destruct nx as [j|];
    repeat match goal with
           | |- context [if ?c then _ else _] => destruct c eqn:?
           | |- context [match ?l with [] => _ | _ :: _ => _ end] => destruct l
           end; intros H; inversion H; reflexivity.
Qed.

(* Source tie for C12, part 2 (notes/SRC11.md): the generated translation of FormatString.__init__ (the character-level scanner
   with its five while loops, the call of Conversion(...), the final type-mismatch loop) equals the hand-written model
   fmtpy_parse of Model/FmtPython.v for every string.
   The source works with indices into s and an enumerate iterator; the model with suffixes of s.  [it_at s t] is the iterator
   whose remaining text is the suffix t, [pos s t] the index of the first character of t. *)
From Coq Require Import List NArith ZArith Bool Lia.
From I18n Require Import Lib.Outcome Model.FmtPython Model.FmtPythonPy Generated.FmtPythonSrc Proofs.FmtPythonSrc Proofs.FmtPython.
Import ListNotations.
Local Open Scope N_scope.

Definition pos (s t : pystr) : Z := Z.of_nat (length s - length t).
Definition it_at (s t : pystr) : Z * pystr := (pos s t, t).
(* t is a suffix of s *)
Definition suffix (s t : pystr) : Prop := skipn (length s - length t) s = t /\ (length t <= length s)%nat.

Lemma skipn_plus {A} (a b : nat) : forall l : list A, skipn a (skipn b l) = skipn (b + a) l.
Proof.
  induction b as [|b IH]; intros l; [reflexivity|]. destruct l as [|x l]; [destruct a; reflexivity|]. cbn [skipn Nat.add]. apply IH.
Qed.

Lemma suffix_refl s : suffix s s.
Proof. split; [rewrite Nat.sub_diag; reflexivity|lia]. Qed.

Lemma suffix_tl s c r : suffix s (c :: r) -> suffix s r.
Proof.
  intros [H L]. cbn [length] in *. split; [|lia].
  replace (length s - length r)%nat with ((length s - S (length r)) + 1)%nat by lia.
  rewrite <- skipn_plus, H. reflexivity.
Qed.

Lemma suffix_skipn s t n : suffix s t -> suffix s (skipn n t).
Proof.
  revert t. induction n as [|n IH]; intros t H; [exact H|].
  destruct t as [|c r]; [exact H|]. cbn [skipn]. apply IH. eapply suffix_tl; exact H.
Qed.

Lemma enum_next_nil s : enum_next (it_at s []) = None.
Proof. reflexivity. Qed.

Lemma enum_next_at s c r : (length (c :: r) <= length s)%nat ->
  enum_next (it_at s (c :: r)) = Some (pos s (c :: r), c, it_at s r).
Proof.
  intros L. unfold enum_next, it_at, pos. cbn [snd fst length] in *. do 3 f_equal. lia.
Qed.

(* ---------------------------------------------------------------- slices of s in terms of suffixes *)
Lemma py_norm_id n i : (0 <= i <= n)%Z -> py_norm n i = i.
Proof. intros H. unfold py_norm. replace (i <? 0)%Z with false by (symmetry; apply Z.ltb_ge; lia). lia. Qed.

Lemma pyslice_from_suffix s t : suffix s t -> pyslice_from s (pos s t) = t.
Proof.
  intros [H L]. unfold pyslice_from, pos. rewrite py_norm_id by lia. rewrite Nat2Z.id. exact H.
Qed.

Lemma pyslice_suffix s t (a b : nat) : suffix s t -> (a <= b <= length t)%nat ->
  pyslice s (pos s t + Z.of_nat a) (pos s t + Z.of_nat b) = firstn (b - a) (skipn a t).
Proof.
  intros [H L] Hab. unfold pyslice, pos. rewrite !py_norm_id by lia.
  replace (Z.to_nat (Z.of_nat (length s - length t) + Z.of_nat b - (Z.of_nat (length s - length t) + Z.of_nat a))) with (b - a)%nat by lia.
  replace (Z.to_nat (Z.of_nat (length s - length t) + Z.of_nat a)) with ((length s - length t) + a)%nat by lia.
  rewrite <- skipn_plus, H. reflexivity.
Qed.

(* ---------------------------------------------------------------- facts about the model's stage functions *)
Lemma key_scan_spec : forall t n acc k t', key_scan t n acc = Some (k, t') ->
  k = rev acc ++ firstn (length t - length t' - 1) t /\ (length t' < length t)%nat.
Proof.
  induction t as [|c r IH]; intros n acc k t' H; [discriminate|].
  cbn [key_scan] in H.
  assert (Hrec : forall n', key_scan r n' (c :: acc) = Some (k, t') ->
            k = rev acc ++ firstn (length (c :: r) - length t' - 1) (c :: r) /\ (length t' < length (c :: r))%nat).
  { intros n' H'. apply IH in H'. destruct H' as [Hk Hl]. split; [|cbn [length]; lia].
    rewrite Hk. cbn [rev length]. rewrite <- app_assoc. cbn [app].
    replace (S (length r) - length t' - 1)%nat with (S (length r - length t' - 1)) by lia. reflexivity. }
  destruct (c =? 40); [eapply Hrec; exact H|].
  destruct (c =? 41); [|eapply Hrec; exact H].
  destruct n as [|[|p]]; try (eapply Hrec; exact H).
  - inversion H; subst. cbn [length]. replace (S (length t') - length t' - 1)%nat with 0%nat by lia.
    cbn [firstn]. rewrite app_nil_r. split; [reflexivity|lia].
  - inversion H; subst. cbn [length]. replace (S (length t') - length t' - 1)%nat with 0%nat by lia.
    cbn [firstn]. rewrite app_nil_r. split; [reflexivity|lia].
Qed.

Lemma flags_scan_spec chars : forall t fl fl' t', flags_scan chars t fl = Some (fl', t') ->
  t' <> [] /\ (length t' <= length t)%nat.
Proof.
  induction t as [|c r IH]; intros fl fl' t' H; [discriminate|]. cbn [flags_scan] in H.
  destruct (mem c chars).
  - apply IH in H. cbn [length]. destruct H; split; [assumption|lia].
  - inversion H; subst. split; [discriminate|lia].
Qed.

Lemma digits_scan_spec : forall t acc z t', digits_scan t acc = Some (z, t') ->
  t' <> [] /\ (length t' <= length t)%nat.
Proof.
  induction t as [|c r IH]; intros acc z t' H; [discriminate|]. cbn [digits_scan] in H.
  destruct (is_ascii_digit c).
  - apply IH in H. cbn [length]. destruct H; split; [assumption|lia].
  - inversion H; subst. split; [discriminate|lia].
Qed.

Lemma counter_incr_eq c fl : counter_incr c fl = count_flag c fl.
Proof. induction fl as [|[f n] r IH]; [reflexivity|]. cbn. rewrite IH. reflexivity. Qed.

(* ---------------------------------------------------------------- the inner loops *)
(* `while ch in _info.flags:` *)
Lemma src_while3_eq inf F s i : forall fuel c r fl,
  (length (c :: r) <= length s)%nat -> (length (c :: r) < fuel)%nat ->
  src_FormatString_init_while3 inf F fuel s (it_at s r) i c (pos s (c :: r)) fl =
  match flags_scan (i_flags inf) (c :: r) fl with
  | None => FRaise KError (Some (pyslice_from s i))
  | Some (fl', t') => FOk (fl', pos s t', hd 0 t', it_at s (tl t'))
  end.
Proof.
  induction fuel as [|fuel IH]; intros c r fl L Hf; [lia|].
  cbn [src_FormatString_init_while3 flags_scan]. destruct (mem c (i_flags inf)); [|reflexivity].
  rewrite counter_incr_eq. destruct r as [|c' r'].
  - reflexivity.
  - rewrite enum_next_at by (cbn [length] in *; lia). apply IH; cbn [length] in *; lia.
Qed.

(* `while '0' <= ch <= '9':` for the width and for the precision *)
Lemma src_while4_eq inf F s i : forall fuel c r acc,
  (length (c :: r) <= length s)%nat -> (length (c :: r) < fuel)%nat ->
  src_FormatString_init_while4 inf F fuel s (it_at s r) i c (pos s (c :: r)) acc =
  match digits_scan (c :: r) acc with
  | None => FRaise KError (Some (pyslice_from s i))
  | Some (z, t') => FOk (z, pos s t', hd 0 t', it_at s (tl t'))
  end.
Proof.
  induction fuel as [|fuel IH]; intros c r acc L Hf; [lia|].
  cbn [src_FormatString_init_while4 digits_scan]. unfold is_ascii_digit.
  destruct ((48 <=? c) && (c <=? 57)); [|reflexivity].
  destruct r as [|c' r'].
  - reflexivity.
  - rewrite enum_next_at by (cbn [length] in *; lia). apply IH; cbn [length] in *; lia.
Qed.

Lemma src_while5_eq inf F s i : forall fuel c r acc,
  (length (c :: r) <= length s)%nat -> (length (c :: r) < fuel)%nat ->
  src_FormatString_init_while5 inf F fuel s (it_at s r) i c (pos s (c :: r)) acc =
  match digits_scan (c :: r) acc with
  | None => FRaise KError (Some (pyslice_from s i))
  | Some (z, t') => FOk (z, pos s t', hd 0 t', it_at s (tl t'))
  end.
Proof.
  induction fuel as [|fuel IH]; intros c r acc L Hf; [lia|].
  cbn [src_FormatString_init_while5 digits_scan]. unfold is_ascii_digit.
  destruct ((48 <=? c) && (c <=? 57)); [|reflexivity].
  destruct r as [|c' r'].
  - reflexivity.
  - rewrite enum_next_at by (cbn [length] in *; lia). apply IH; cbn [length] in *; lia.
Qed.

(* the key loop: `while True:` with pcount; the model counts in nat and never lets the count reach 0 *)
Lemma src_while2_eq inf F s i : forall fuel t n acc ch j,
  (1 <= n)%nat -> (length t <= length s)%nat -> (length t < fuel)%nat ->
  src_FormatString_init_while2 inf F fuel s (it_at s t) i ch j (Z.of_nat n) =
  match key_scan t n acc with
  | None => FRaise KError (Some (pyslice_from s i))
  | Some (_, t') =>
    match t' with
    | [] => FRaise KError (Some (pyslice_from s i))
    | c' :: r' => FOk (pos s t', c', it_at s r', 0%Z)
    end
  end.
Proof.
  induction fuel as [|fuel IH]; intros t n acc ch j Hn L Hf; [lia|].
  cbn [src_FormatString_init_while2]. destruct t as [|c r]; [reflexivity|].
  rewrite enum_next_at by exact L. cbn [key_scan].
  assert (Lr : (length r <= length s)%nat) by (cbn [length] in L; lia).
  assert (Fr : (length r < fuel)%nat) by (cbn [length] in Hf; lia).
  destruct (c =? 40).
  - replace (Z.of_nat n + 1)%Z with (Z.of_nat (S n)) by lia. apply IH; lia.
  - destruct (c =? 41); [|apply IH; assumption].
    destruct n as [|[|p]]; [lia| |].
    + cbn [Z.of_nat Pos.of_succ_nat Z.sub Z.add Z.opp Z.pos_sub Z.eqb]. destruct r as [|c' r']; [reflexivity|].
      rewrite enum_next_at by exact Lr. reflexivity.
    + replace (Z.of_nat (S (S p)) - 1)%Z with (Z.of_nat (S p)) by lia.
      replace (Z.of_nat (S p) =? 0)%Z with false by (symmetry; apply Z.eqb_neq; lia).
      apply IH; [lia|assumption|assumption].
Qed.

(* the stage functions return suffixes *)
Lemma key_scan_skipn : forall t n acc k t', key_scan t n acc = Some (k, t') -> exists m, t' = skipn m t.
Proof.
  induction t as [|c r IH]; intros n acc k t' H; [discriminate|]. cbn [key_scan] in H.
  assert (Hrec : forall n', key_scan r n' (c :: acc) = Some (k, t') -> exists m, t' = skipn m (c :: r)).
  { intros n' H'. apply IH in H'. destruct H' as [m ->]. exists (S m). reflexivity. }
  destruct (c =? 40); [eapply Hrec; exact H|]. destruct (c =? 41); [|eapply Hrec; exact H].
  destruct n as [|[|p]]; try (eapply Hrec; exact H); inversion H; subst; exists 1%nat; reflexivity.
Qed.

Lemma flags_scan_skipn chars : forall t fl fl' t', flags_scan chars t fl = Some (fl', t') -> exists m, t' = skipn m t.
Proof.
  induction t as [|c r IH]; intros fl fl' t' H; [discriminate|]. cbn [flags_scan] in H. destruct (mem c chars).
  - apply IH in H. destruct H as [m ->]. exists (S m). reflexivity.
  - inversion H; subst. exists 0%nat. reflexivity.
Qed.

Lemma digits_scan_skipn : forall t acc z t', digits_scan t acc = Some (z, t') -> exists m, t' = skipn m t.
Proof.
  induction t as [|c r IH]; intros acc z t' H; [discriminate|]. cbn [digits_scan] in H. destruct (is_ascii_digit c).
  - apply IH in H. destruct H as [m ->]. exists (S m). reflexivity.
  - inversion H; subst. exists 0%nat. reflexivity.
Qed.

Lemma key_scan_suffix s t k t' : suffix s t -> key_scan t 1 [] = Some (k, t') ->
  suffix s t' /\ k = firstn (length t - length t' - 1) t /\ (length t' < length t)%nat.
Proof.
  intros Hs H. destruct (key_scan_skipn _ _ _ _ _ H) as [m ->]. split; [apply suffix_skipn; exact Hs|].
  apply key_scan_spec in H. exact H.
Qed.
Lemma flags_scan_suffix chars s t fl fl' t' : suffix s t -> flags_scan chars t fl = Some (fl', t') ->
  suffix s t' /\ t' <> [] /\ (length t' <= length t)%nat.
Proof.
  intros Hs H. destruct (flags_scan_skipn _ _ _ _ _ H) as [m ->]. split; [apply suffix_skipn; exact Hs|].
  eapply flags_scan_spec; exact H.
Qed.
Lemma digits_scan_suffix s t acc z t' : suffix s t -> digits_scan t acc = Some (z, t') ->
  suffix s t' /\ t' <> [] /\ (length t' <= length t)%nat.
Proof.
  intros Hs H. destruct (digits_scan_skipn _ _ _ _ H) as [m ->]. split; [apply suffix_skipn; exact Hs|].
  eapply digits_scan_spec; exact H.
Qed.

Lemma src_while2_eq1 inf F s i t ch j : (length t <= length s)%nat -> (length t < F)%nat ->
  src_FormatString_init_while2 inf F F s (it_at s t) i ch j 1%Z =
  match key_scan t 1 [] with
  | None => FRaise KError (Some (pyslice_from s i))
  | Some (_, t') =>
    match t' with
    | [] => FRaise KError (Some (pyslice_from s i))
    | c' :: r' => FOk (pos s t', c', it_at s r', 0%Z)
    end
  end.
Proof. intros L Hf. exact (src_while2_eq inf F s i F t 1%nat [] ch j (le_n 1) L Hf). Qed.

(* key = s[i+2:j-1] *)
Lemma key_slice s c0 c1 r1 k t1 : suffix s (c0 :: c1 :: r1) -> key_scan r1 1 [] = Some (k, t1) ->
  pyslice s (pos s (c0 :: c1 :: r1) + 2) (pos s t1 - 1) = k.
Proof.
  intros Hs H. pose proof (suffix_tl _ _ _ (suffix_tl _ _ _ Hs)) as Hs1.
  destruct (key_scan_suffix _ _ _ _ Hs1 H) as (Hs' & -> & Hl). pose proof (proj2 Hs) as L. pose proof (proj2 Hs') as L'.
  replace (pos s t1 - 1)%Z with (pos s (c0 :: c1 :: r1) + Z.of_nat (2 + (length r1 - length t1 - 1)))%Z
    by (unfold pos; cbn [length] in *; lia).
  change 2%Z with (Z.of_nat 2). rewrite pyslice_suffix by (try exact Hs; cbn [length] in *; lia).
  cbn [skipn]. f_equal. lia.
Qed.

(* the text of the conversion = s[i:j+1] *)
Lemma text_slice s c0 r conv rest : suffix s (c0 :: r) -> suffix s (conv :: rest) -> (length (conv :: rest) <= length r)%nat ->
  pyslice s (pos s (c0 :: r)) (pos s (conv :: rest) + 1) = c0 :: firstn (length r - length rest) r.
Proof.
  intros Hs Hs' Hl. pose proof (proj2 Hs) as L.
  replace (pos s (c0 :: r)) with (pos s (c0 :: r) + Z.of_nat 0)%Z at 1 by lia.
  replace (pos s (conv :: rest) + 1)%Z with (pos s (c0 :: r) + Z.of_nat (S (length r - length rest)))%Z
    by (unfold pos; cbn [length] in *; lia).
  rewrite pyslice_suffix by (try exact Hs; cbn [length] in *; lia).
  cbn [skipn]. rewrite Nat.sub_0_r. reflexivity.
Qed.

(* ---------------------------------------------------------------- the outer loop *)
Definition drop_cursor {A B C} (r : fres (Z * (Z * pystr) * A * B * C)) : fres (A * B * C) :=
  fbind r (fun '(_, _, a, b, c) => FOk (a, b, c)).

Ltac sat_suffix :=
  repeat match goal with
  | Hs : suffix ?s (?c :: ?t) |- _ =>
    lazymatch goal with H' : suffix s t |- _ => fail | _ => pose proof (suffix_tl s c t Hs) end
  end.
Ltac sat_len :=
  repeat match goal with
  | Hs : suffix ?s ?t |- _ =>
    lazymatch goal with H' : (length t <= length s)%nat |- _ => fail
    | _ => pose proof (proj2 Hs : (length t <= length s)%nat) end
  end.
Ltac sat := sat_suffix; sat_len.
Ltac lens := cbn [length] in *; lia.
Ltac msimp := cbn [fbind obind_opt obind of_out drop_cursor next_si hd tl].

(* j, ch = next_si() *)
Ltac next_stage :=
  match goal with
  | |- context [enum_next (it_at ?s ?r)] =>
    destruct r as [|? ?]; [rewrite enum_next_nil | sat; rewrite enum_next_at by lens]
  end; msimp.

Ltac flags_stage :=
  match goal with
  | |- context [src_FormatString_init_while3 ?inf ?F ?F ?s (it_at ?s ?r) ?i ?c (pos ?s (?c :: ?r)) ?fl] =>
    rewrite (src_while3_eq inf F s i F c r fl) by lens;
    let E := fresh "Hfl" in let t2 := fresh "t" in let f2 := fresh "fl" in
    destruct (flags_scan (i_flags inf) (c :: r) fl) as [[f2 t2]|] eqn:E; msimp;
    [ match goal with Hs : suffix s (c :: r) |- _ =>
        let Hs' := fresh "Hs" in let Hne := fresh "Hne" in let Hle := fresh "Hle" in
        destruct (flags_scan_suffix _ _ _ _ _ _ Hs E) as (Hs' & Hne & Hle); clear E;
        destruct t2 as [|? ?]; [congruence|]; clear Hne; sat; msimp
      end | ]
  end.

Ltac done_err :=
  msimp; repeat match goal with Hs : suffix ?s ?t |- context [pyslice_from ?s (pos ?s ?t)] => rewrite (pyslice_from_suffix s t Hs) end;
  reflexivity.

Ltac digits_stage4 :=
  match goal with
  | |- context [src_FormatString_init_while4 ?inf ?F ?F ?s (it_at ?s ?r) ?i ?c (pos ?s (?c :: ?r)) 0%Z] =>
    rewrite (src_while4_eq inf F s i F c r 0%Z) by lens;
    let E := fresh "Hdg" in let t2 := fresh "t" in let z2 := fresh "z" in
    destruct (digits_scan (c :: r) 0) as [[z2 t2]|] eqn:E; msimp;
    [ match goal with Hs : suffix s (c :: r) |- _ =>
        let Hs' := fresh "Hs" in let Hne := fresh "Hne" in let Hle := fresh "Hle" in
        destruct (digits_scan_suffix _ _ _ _ _ Hs E) as (Hs' & Hne & Hle); clear E;
        destruct t2 as [|? ?]; [congruence|]; clear Hne; sat; msimp
      end | ]
  end.
Ltac digits_stage5 :=
  match goal with
  | |- context [src_FormatString_init_while5 ?inf ?F ?F ?s (it_at ?s ?r) ?i ?c (pos ?s (?c :: ?r)) 0%Z] =>
    rewrite (src_while5_eq inf F s i F c r 0%Z) by lens;
    let E := fresh "Hdg" in let t2 := fresh "t" in let z2 := fresh "z" in
    destruct (digits_scan (c :: r) 0) as [[z2 t2]|] eqn:E; msimp;
    [ match goal with Hs : suffix s (c :: r) |- _ =>
        let Hs' := fresh "Hs" in let Hne := fresh "Hne" in let Hle := fresh "Hle" in
        destruct (digits_scan_suffix _ _ _ _ _ Hs E) as (Hs' & Hne & Hle); clear E;
        destruct t2 as [|? ?]; [congruence|]; clear Hne; sat; msimp
      end | ]
  end.

Lemma src_while1_eq inf F s : (length s < F)%nat -> forall fuel t st i0, suffix s t ->
  drop_cursor (src_FormatString_init_while1 inf F fuel s (of_seq (st_seq st)) (of_map (st_map st)) (of_warns (st_warn st)) (it_at s t) i0)
  = of_out of_state (ploop inf fuel t st).
Proof.
  intros HF. induction fuel as [|fuel IH]; intros t st i0 Hst; [reflexivity|].
  cbn [src_FormatString_init_while1 ploop].
  destruct t as [|ch r]; [reflexivity|]. sat.
  rewrite enum_next_at by lens. rewrite ?(N.eqb_sym 37 ch).
  destruct (ch =? 37) eqn:Hpc; cbn [negb]; [|apply IH; assumption].
  apply N.eqb_eq in Hpc; subst ch.
  unfold parse_directive, p_key, p_width, p_prec, p_length.
  next_stage; [done_err|].
  (* key *)
  match goal with |- context [if ?c =? 40 then _ else _] => destruct (c =? 40) eqn:Hpar end.
  1: rewrite src_while2_eq1 by lens.
  1: match goal with |- context [key_scan ?r 1%nat []] => destruct (key_scan r 1%nat []) as [[k t1]|] eqn:Hkey end; msimp; [|done_err].
  1: match goal with Hs : suffix s ?r, Hk : key_scan ?r _ _ = _ |- _ => destruct (key_scan_suffix _ _ _ _ Hs Hk) as (Hs1 & _ & Hl1) end.
  1: destruct t1 as [|ca ra]; msimp; [done_err|].
  1: rewrite (key_slice _ _ _ _ _ _ Hst Hkey); sat.
  2: msimp.
  (* flags *)
  all: flags_stage; [|done_err].
  (* width *)
  all: match goal with |- context [fbind (if ?c =? 42 then _ else _) _] => destruct (c =? 42) end;
       [ next_stage; [done_err|] | digits_stage4; [|done_err] ].
  (* precision *)
  all: match goal with |- context [fbind (if ?c =? 46 then _ else _) _] => destruct (c =? 46) end;
       [ next_stage; [done_err|];
         match goal with |- context [fbind (if ?c =? 42 then _ else _) _] => destruct (c =? 42) end;
         [ next_stage; [done_err|] | digits_stage5; [|done_err] ]
       | msimp ].
  (* length *)
  all: match goal with |- context [fbind (if mem ?c (i_lengths ?ii) then _ else _) _] => destruct (mem c (i_lengths ii)) end;
       [ next_stage; [done_err|] | msimp ].
  (* conversion character *)
  all: match goal with |- context [fbind (if mem ?c (i_all ?ii) then _ else _) _] => destruct (mem c (i_all ii)) end; msimp; [|done_err].
  (* Conversion(self, s[i:j+1], ...) and the next iteration *)
  all: match goal with
  | |- context [src_Conversion_init ?ii (of_seq (st_seq ?st)) _ _ (pyslice ?s (pos ?s (?c0 :: ?r)) (pos ?s (?conv :: ?rest) + 1)) ?key ?fl ?w ?vw ?p ?vp ?len ?conv] =>
    rewrite (text_slice s c0 r conv rest) by (assumption || lens);
    match goal with |- context [conv_init ii st ?D] =>
    change (src_Conversion_init ii (of_seq (st_seq st)) (of_map (st_map st)) (of_warns (st_warn st)) (c0 :: firstn (length r - length rest) r) key fl w vw p vp len conv)
      with (src_Conversion_init ii (of_seq (st_seq st)) (of_map (st_map st)) (of_warns (st_warn st)) (d_text D) (d_key D) (d_flags D) (of_width D)
              (d_var_width D) (of_prec D) (d_var_prec D) (d_length D) (d_conv D));
    rewrite (src_conversion_init_eq ii st D) by discriminate;
    destruct (conv_init ii st D) as [st'|e|cr];
    [ cbn [of_out of_state fbind obind]; apply IH; assumption | destruct e; reflexivity | destruct cr; reflexivity ]
    end
  end.
Qed.

(* ---------------------------------------------------------------- the final loop: len(frozenset(a.type for a in args)) > 1 *)
Lemma ptype_eqb_eq a b : ptype_eqb a b = true <-> a = b.
Proof. destruct a, b; cbn; split; intros H; try reflexivity; try discriminate. Qed.

Lemma tyname_eqb a b : list_eqb (tyname a) (tyname b) = ptype_eqb a b.
Proof. destruct a, b; vm_compute; reflexivity. Qed.

Fixpoint pdedup (l : list ptype) : list ptype :=
  match l with
  | [] => []
  | x :: r => if existsb (fun y => ptype_eqb y x) r then pdedup r else x :: pdedup r
  end.

Lemma str_in_tyname x l : str_in (tyname x) (map tyname l) = existsb (fun y => ptype_eqb y x) l.
Proof. induction l as [|y r IH]; [reflexivity|]. cbn [map str_in existsb]. rewrite tyname_eqb, IH. reflexivity. Qed.

Lemma str_dedup_tyname l : str_dedup (map tyname l) = map tyname (pdedup l).
Proof.
  induction l as [|x r IH]; [reflexivity|]. cbn [map str_dedup pdedup]. rewrite str_in_tyname.
  destruct (existsb (fun y => ptype_eqb y x) r); [exact IH|]. cbn [map]. rewrite IH. reflexivity.
Qed.

Lemma pdedup_in x l : In x l -> In x (pdedup l).
Proof.
  induction l as [|y r IH]; [intros []|]. intros [->|Hin]; cbn [pdedup].
  - destruct (existsb (fun y => ptype_eqb y x) r) eqn:E; [|left; reflexivity].
    apply existsb_exists in E. destruct E as [z [Hz Ez]]. apply ptype_eqb_eq in Ez. subst z. apply IH. exact Hz.
  - destruct (existsb (fun y0 => ptype_eqb y0 y) r); [apply IH; exact Hin|right; apply IH; exact Hin].
Qed.

Lemma pdedup_all_eq t r : forallb (ptype_eqb t) r = true -> pdedup (t :: r) = [t].
Proof.
  induction r as [|x r IH]; [reflexivity|]. cbn [forallb]. intros H. apply andb_true_iff in H. destruct H as [Hx Hr].
  apply ptype_eqb_eq in Hx. subst x. specialize (IH Hr). cbn [pdedup existsb] in *.
  replace (ptype_eqb t t) with true by (symmetry; apply ptype_eqb_eq; reflexivity). cbn [orb]. exact IH.
Qed.

Lemma forallb_false_ex {A} (f : A -> bool) l : forallb f l = false -> exists x, In x l /\ f x = false.
Proof.
  induction l as [|y r IH]; [discriminate|]. cbn [forallb]. destruct (f y) eqn:E; cbn [andb]; intros H.
  - destruct (IH H) as [x [Hx Hf]]. exists x. split; [right; exact Hx|exact Hf].
  - exists y. split; [left; reflexivity|exact E].
Qed.

Lemma two_distinct {A} (a b : A) l : In a l -> In b l -> a <> b -> (2 <= length l)%nat.
Proof.
  destruct l as [|p [|q l']]; cbn [In length]; intros Ha Hb Hab; [tauto| |lia].
  destruct Ha as [<-|[]]. destruct Hb as [<-|[]]. congruence.
Qed.

Lemma mixed_types_set_len ts : (set_len (map (fun v_a => src_arg_type v_a) (of_types ts)) >? 1)%Z = mixed_types ts.
Proof.
  unfold set_len, of_types. rewrite map_map. cbn [src_arg_type]. rewrite str_dedup_tyname, map_length.
  destruct ts as [|t r]; [reflexivity|]. cbn [mixed_types]. destruct (forallb (ptype_eqb t) r) eqn:E.
  - rewrite pdedup_all_eq by exact E. reflexivity.
  - apply forallb_false_ex in E. destruct E as [x [Hx Hf]].
    assert (Hne : t <> x) by (intros ->; rewrite (proj2 (ptype_eqb_eq x x) eq_refl) in Hf; discriminate).
    pose proof (two_distinct t x (pdedup (t :: r)) (pdedup_in t (t :: r) (in_eq t r)) (pdedup_in x (t :: r) (in_cons t x r Hx)) Hne) as L.
    cbn [negb]. apply Z.gtb_lt. lia.
Qed.

Lemma src_for6_eq inf s m :
  src_FormatString_init_for6 inf (of_map m) s
  = if existsb (fun kv => mixed_types (snd kv)) m then FRaise KArgumentTypeMismatch None else FOk tt.
Proof.
  induction m as [|[k ts] r IH]; [reflexivity|].
  cbn [of_map map src_FormatString_init_for6 fst snd existsb]. cbv zeta. rewrite mixed_types_set_len.
  destruct (mixed_types ts); cbn [fbind orb]; [reflexivity|exact IH].
Qed.

(* ---------------------------------------------------------------- FormatString.__init__ *)
(* the public attributes: warnings, seq_arguments, seq_conversions, map_arguments *)
Definition of_sig (sg : py_sig) : list pwarn * list parg * list parg * argmap :=
  (of_warns (warnings sg), of_seq (seq_arguments sg), filter parg_is_conv (of_seq (seq_arguments sg)), of_map (map_arguments sg)).

Theorem src_formatstring_init_eq inf s :
  src_FormatString_init inf (S (length s)) s = of_out of_sig (fmtpy_parse inf s).
Proof.
  unfold src_FormatString_init, fmtpy_parse. cbv zeta.
  pose proof (src_while1_eq inf (S (length s)) s (Nat.lt_succ_diag_r _) (S (length s)) s st0 0%Z (suffix_refl s)) as H.
  unfold drop_cursor, it_at, pos in H. rewrite Nat.sub_diag in H. cbn [Z.of_nat st0 st_seq st_map st_warn of_seq of_map of_warns map] in H.
  match goal with |- context [src_FormatString_init_while1 ?a1 ?a2 ?a3 ?a4 ?a5 ?a6 ?a7 ?a8 ?a9] =>
    set (W := src_FormatString_init_while1 a1 a2 a3 a4 a5 a6 a7 a8 a9) end.
  assert (HW : fbind W (fun '(_, _, a, b, c) => FOk (a, b, c)) = of_out of_state (ploop inf (S (length s)) s st0)) by exact H.
  clearbody W. clear H. rename HW into H.
  destruct W as [[[[[i1 si1] a] b] c]|k a| |];
    cbn [fbind] in H |- *;
    destruct (ploop inf (S (length s)) s st0) as [st|e|cr]; try destruct e; try destruct cr;
    cbn [of_out obind] in H |- *; try discriminate H; inversion H; subst; try reflexivity.
  rewrite src_for6_eq. destruct (existsb (fun kv => mixed_types (snd kv)) (st_map st)); reflexivity.
Qed.

(* a property of the model read on the translated code: with today's tables the translated constructor ends normally or raises one
   of the module's own error classes, never an AssertionError, a foreign exception or FFuel (from own_errors) *)
Definition own_class (k : fcls) : Prop :=
  match k with
  | KError | KForbiddenArgumentKey | KArgumentIndexingMixture | KArgumentTypeMismatch | KWidthRangeError | KPrecisionRangeError => True
  | _ => False
  end.
Theorem src_formatstring_init_own_errors s :
  match src_FormatString_init std_info (S (length s)) s with
  | FOk _ => True | FRaise k _ => own_class k | FAssert | FFuel => False
  end.
Proof.
  rewrite src_formatstring_init_eq. pose proof (own_errors s) as H.
  destruct (fmtpy_parse std_info s) as [sg|e|c]; [exact I|destruct e; exact I|exfalso; exact (H c eq_refl)].
Qed.

(* Source tie for C19, part 2: the translation of Checker.check_language (Generated/LingSrc.v) equals the model's
   check_language for all arguments.  The proof runs the translated statements one compound statement at a time: the head
   block B of `lbind B K` is shown equal to LNorm of the model's values for it, then K is entered.  notes/SRC6.md. *)
From Coq Require Import List NArith ZArith Bool Lia.
From I18n Require Import Lib.Outcome Model.Ling Model.LingPy Generated.LingSrc Proofs.LingParse Proofs.LingFix Proofs.LingCheck Proofs.LingSrc.
Import ListNotations.
Local Open Scope N_scope.

Lemma zlen_gt1 {A} (l : list A) : (Z.of_nat (length l) >? 1)%Z = Nat.ltb 1 (length l).
Proof. destruct (Nat.ltb 1 (length l)) eqn:H; [apply Nat.ltb_lt in H|apply Nat.ltb_ge in H]; lia. Qed.
Lemma zlen_eq1 {A} (l : list A) : (Z.of_nat (length l) =? 1)%Z = Nat.eqb (length l) 1.
Proof. destruct (Nat.eqb (length l) 1) eqn:H; [apply Nat.eqb_eq in H|apply Nat.eqb_neq in H]; lia. Qed.
Lemma zlen_le1 {A} (l : list A) : (Z.of_nat (length l) <=? 1)%Z = Nat.leb (length l) 1.
Proof. destruct (Nat.leb (length l) 1) eqn:H; [apply Nat.leb_le in H|apply Nat.leb_gt in H]; lia. Qed.

Lemma index_of_lt x : forall l n, index_of x l = Some n -> (n < length l)%nat.
Proof.
  induction l as [|y r IH]; intros n H; cbn [index_of] in H; [discriminate|].
  destruct (lg_eqb x y).
  - injection H as <-. cbn. lia.
  - destruct (index_of x r) as [m|]; [|discriminate]. injection H as <-. specialize (IH m eq_refl). cbn. lia.
Qed.

(* path_components[i - 1] for the index i > 0 of a component *)
Lemma py_index_pred {A} (l : list A) i d : (i < length l)%nat -> py_index l (Z.of_nat (S i) - 1) = Some (nth i l d).
Proof.
  intros H. unfold py_index. replace (Z.of_nat (S i) - 1)%Z with (Z.of_nat i) by lia.
  destruct (Z.of_nat i <? 0)%Z eqn:Hn; [apply Z.ltb_lt in Hn; lia|]. rewrite Nat2Z.id. apply nth_error_nth'. exact H.
Qed.

(* enter the continuation once the head block is known *)
Ltac head_is v :=
  lazymatch goal with
  | |- seen _ (lbind ?B _) = _ => let Hb := fresh "Hb" in assert (Hb : B = v); [|rewrite Hb; clear Hb; cbn [lbind]]
  | |- lbind ?B _ = _ => let Hb := fresh "Hb" in assert (Hb : B = v); [|rewrite Hb; clear Hb; cbn [lbind]]
  end.

Definition cur_of (l : option language) (s : lsource) : option (language * lsource) :=
  match l with Some x => Some (x, s) | None => None end.

(* final_diags through what it depends on *)
Definition fin_d (nofield : bool) (l : option language) : list ldiag :=
  match l with
  | None => (if nofield then [DNoLanguageField None] else []) ++ [DUnable]
  | Some x => if nofield then [DNoLanguageField (Some x)] else []
  end.
Definition nofield_of (meta : option (list N)) (dupdiff : bool) : bool :=
  match meta with None => true | Some [] => true | Some _ => false end && negb dupdiff.

Lemma final_diags_fin meta dupdiff cur : final_diags meta dupdiff cur = fin_d (nofield_of meta dupdiff) (option_map fst cur).
Proof. unfold final_diags, fin_d, nofield_of. destruct cur as [[l s]|]; reflexivity. Qed.

(* the model from the X-Poedit fields on, given the tags emitted so far and the language known so far *)
Definition m_tail cfg pls pcs (nofield : bool) (pre : list ldiag) (cur : option (language * lsource))
  : outcome (list ldiag * option language) ling_err :=
  do pr <- poedit_phase cfg pls pcs cur;
  Ok (pre ++ fst pr ++ fin_d nofield (option_map fst (snd pr)), option_map fst (snd pr)).

(* field_language in the two steps in which the code takes it *)
Definition m_step1 cfg (o : list N) : outcome (list ldiag * option language) ling_err :=
  match parse_language o with
  | Ok l => Ok ([], Some l)
  | Crash c => Crash c
  | Err _ =>
    match get_language_for_name cfg o with
    | Ok l => Ok ([DInvalidLanguage o (Some l)], Some l)
    | Err _ => Ok ([DInvalidLanguage o None], None)
    | Crash c => Crash c
    end
  end.

Definition m_step2 cfg (o : list N) (l : language) : outcome (list ldiag * option language) ling_err :=
  let '(l1, b1) := remove_encoding l in
  let '(l2, b2) := remove_nonlinguistic_modifier l1 in
  let d2 := (if b1 then [DEncodingInField o] else []) ++ (if b2 then [DVariantNoEffect o] else []) in
  match fix_codes cfg l2 with
  | Ok (l3, true) => Ok (d2 ++ [DInvalidLanguage o (Some l3)], Some l3)
  | Ok (l3, false) => Ok (d2, Some l3)
  | Err _ => Ok (d2 ++ [DInvalidLanguage o None], None)
  | Crash c => Crash c
  end.

Lemma field_language_steps cfg c r : let o := c :: r in
  field_language cfg (Some o) =
  do s1 <- m_step1 cfg o;
  match snd s1 with
  | None => Ok {| f_diags := fst s1; f_lang := None; f_entered := false |}
  | Some l => do s2 <- m_step2 cfg o l; Ok {| f_diags := fst s1 ++ fst s2; f_lang := snd s2; f_entered := true |}
  end.
Proof.
  intros o. unfold field_language, m_step1, m_step2. fold o.
  destruct (parse_language o) as [l|e|k]; cbn [obind fst snd]; [| |reflexivity].
  - destruct (remove_encoding l) as [l1 b1]. destruct (remove_nonlinguistic_modifier l1) as [l2 b2].
    destruct (fix_codes cfg l2) as [[l3 [|]]|e|k]; reflexivity.
  - destruct (get_language_for_name cfg o) as [l|e'|k]; cbn [obind fst snd]; try reflexivity.
    destruct (remove_encoding l) as [l1 b1]. destruct (remove_nonlinguistic_modifier l1) as [l2 b2].
    destruct (fix_codes cfg l2) as [[l3 [|]]|e'|k]; reflexivity.
Qed.

(* the only foreign exception of get_language_for_name is the LanguageSyntaxError (a ValueError) of parse(...) *)
Lemma parse_code_crash code c : parse_code code = Crash c -> c = CValueError.
Proof. destruct (parse_code_cases code) as [[l H]|H]; rewrite H; intros E; [discriminate|now inversion E]. Qed.

Lemma name_hit_crash cfg k c : name_hit cfg k = Some (Crash c) -> c = CValueError.
Proof.
  unfold name_hit. destruct (lg_lookup (cfg_names cfg) k); [|discriminate]. intros E. inversion E as [H]. exact (parse_code_crash _ _ H).
Qed.

Lemma first_hit_crash cfg subs c : first_hit cfg subs = Some (Crash c) -> c = CValueError.
Proof.
  induction subs as [|s r IH]; cbn [first_hit]; [discriminate|].
  destruct (name_hit cfg (lg_strip s)) as [o|] eqn:H; [|exact IH]. intros E. inversion E. subst. exact (name_hit_crash _ _ _ H).
Qed.

Lemma get_language_for_name_crash cfg n c : get_language_for_name cfg n = Crash c -> c = CValueError.
Proof.
  unfold get_language_for_name, lookup_munched. set (nm := cfg_munch cfg n).
  destruct (name_hit cfg nm) as [o|] eqn:H1; [intros ->; exact (name_hit_crash _ _ _ H1)|].
  destruct (if lg_has 59 nm then first_hit cfg (lg_split 59 nm) else None) as [o|] eqn:H2.
  { intros ->. destruct (lg_has 59 nm); [exact (first_hit_crash _ _ _ H2)|discriminate]. }
  destruct (lg_has 44 nm); [|discriminate]. destruct (lg_split1 44 nm) as [a b].
  destruct (name_hit cfg (lg_strip b ++ [32] ++ lg_strip a)) as [o|] eqn:H3; [intros ->; exact (name_hit_crash _ _ _ H3)|].
  destruct (found_codes cfg (lg_split 44 nm)) as [|x r]; [discriminate|].
  destruct (forallb (lg_eqb x) r); [apply parse_code_crash|discriminate].
Qed.

(* from `poedit_languages = ctx.metadata['X-Poedit-Language']` to the end *)
Ltac tail_tac cfg :=
  unfold m_tail, poedit_phase; cbv zeta; rewrite !zlen_gt1;
  lazymatch goal with |- _ = obind _ (fun _ => Ok (_ ++ _ ++ fin_d ?nf _, _)) => generalize nf end; (let nf' := fresh "nf" in intros nf';
  repeat lazymatch goal with |- context [Nat.ltb 1 (length ?l)] => destruct (Nat.ltb 1 (length l)) end;
  cbn [lbind]; rewrite zlen_eq1, zlen_le1;
  lazymatch goal with |- context [match ?l with [] => LExc XValueError | _ => _ end] => destruct l as [|? [|? ?]] end;
  cbn [length Nat.eqb andb lbind];
  try lazymatch goal with |- context [Nat.leb (length ?l) 1] => destruct (Nat.leb (length l) 1) end;
  cbn [lbind];
  try (rewrite src_get_language_for_name_eq;
       lazymatch goal with |- context [of_hit (get_language_for_name cfg ?n)] =>
         let Hg := fresh "Hg" in let c := fresh "c" in
         destruct (get_language_for_name cfg n) as [?|[]|c] eqn:Hg; [| |apply get_language_for_name_crash in Hg; subst c] end);
  cbn;
  repeat match goal with
         | |- context [match ?l with Some _ => _ | None => _ end] => is_var l; destruct l; cbn
         | |- context [negb (lg_eqb ?a ?b)] => destruct (lg_eqb a b)
         end;
  destruct nf'; cbn; rewrite <- ?app_assoc; cbn [app]; rewrite ?app_nil_r; reflexivity).

Theorem src_check_language_seen cfg opt path metas pls pcs tmpl :
  seen own_none (src_check_language (env_of cfg) opt path metas pls pcs tmpl) = check_language cfg opt path metas pls pcs tmpl.
Proof.
  unfold src_check_language, check_language, field_value. cbv beta iota zeta.
  set (dup := Nat.ltb 1 (length metas)).
  set (metas' := if dup then sorted_set metas else metas).
  set (d0 := if dup then [DDupLanguage] else []).
  set (dupdiff := dup && Nat.ltb 1 (length metas')).
  set (meta := match metas' with [m] => Some m | _ => None end).
  (* duplicate Language fields *)
  head_is (@LNorm _ (list ldiag * option language) (d0, dupdiff, metas')).
  { rewrite zlen_gt1. subst d0 dupdiff metas'. fold dup. destruct dup; [|reflexivity].
    cbn [app andb]. rewrite zlen_gt1. destruct (Nat.ltb 1 (length (sorted_set metas))); reflexivity. }
  head_is (@LNorm _ (list ldiag * option language) meta).
  { rewrite zlen_eq1. subst meta. destruct metas' as [|a [|b r]]; reflexivity. }
  clearbody d0 dupdiff meta. clear metas' dup.
  (* templates *)
  destruct tmpl.
  { destruct meta; cbn; rewrite ?app_nil_r; reflexivity. }
  cbn [lbind].
  (* the language named outside the header *)
  rewrite external_language_spec. cbn [obind].
  set (comps := lg_split 47 (normpath path)).
  set (lang4 := match opt with Some l => Some l | None => dir_locale cfg path end).
  set (src4 := match opt with
               | Some _ => SrcCommandLine
               | None => match dir_locale cfg path with Some _ => SrcPathname | None => SrcCommandLine end
               end).
  head_is (@LNorm _ (list ldiag * option language) (lang4, src4)).
  { subst lang4 src4. destruct opt as [l|]; [reflexivity|].
    unfold dir_locale, lcmessages_parent, locale_of, normalised. fold comps.
    change [76; 67; 95; 77; 69; 83; 83; 65; 71; 69; 83] with s_LC_MESSAGES.
    destruct (index_of s_LC_MESSAGES comps) as [[|i]|] eqn:Hi; cbn [ltry lbind catches]; try reflexivity.
    replace (Z.of_nat (S i) >? 0)%Z with true by (symmetry; apply Z.gtb_lt; lia).
    rewrite (py_index_pred comps i []) by (apply index_of_lt in Hi; lia).
    rewrite src_parse_language_eq.
    destruct (parse_language (nth i comps [])) as [l|e|c] eqn:Hp; cbn [of_parse lcall ltry lbind catches is_language_error]; try reflexivity.
    2:{ exfalso. exact (parse_no_crash _ _ Hp). }
    rewrite src_fix_codes_eq.
    destruct (fix_codes cfg l) as [[l1 b]|e|c] eqn:Hf; cbn [of_fix lcall ltry lbind catches is_language_error]; try reflexivity.
    2:{ exfalso. exact (fix_codes_no_crash _ _ _ Hf). }
    rewrite src_remove_encoding_eq. cbn [lcall]. rewrite src_remove_nonlinguistic_modifier_eq. cbn [lcall ltry lbind].
    rewrite strip_eq. reflexivity. }
  set (lang5 := match lang4 with Some l => Some l | None => base_locale cfg path end).
  set (src5 := match lang4 with
               | Some _ => src4
               | None => match base_locale cfg path with Some _ => SrcPathname | None => src4 end
               end).
  set (q5 := match lang4 with
             | Some _ => true
             | None => match base_locale cfg path with Some _ => false | None => true end
             end).
  head_is (@LNorm _ (list ldiag * option language) (lang5, src5, if q5 then 1%Z else 0%Z)).
  { subst lang5 src5 q5. destruct lang4 as [l|]; [reflexivity|].
    unfold base_locale, normalised. change [46; 112; 111] with s_dot_po.
    destruct (lg_endswith path s_dot_po); [|reflexivity].
    change (py_slice_to (basename path) (-3)) with (po_stem path).
    rewrite src_parse_language_eq.
    destruct (parse_language (po_stem path)) as [l|e|c] eqn:Hp; cbn [of_parse lcall ltry lbind catches is_language_error]; try reflexivity.
    2:{ exfalso. exact (parse_no_crash _ _ Hp). }
    destruct (l_enc l) as [en|] eqn:He; cbn [is_some lbind ltry catches is_language_error]; [reflexivity|].
    rewrite src_fix_codes_eq.
    destruct (fix_codes cfg l) as [[l1 b]|e|c] eqn:Hf; cbn [of_fix lcall ltry lbind catches is_language_error]; try reflexivity.
    2:{ exfalso. exact (fix_codes_no_crash _ _ _ Hf). }
    rewrite src_remove_nonlinguistic_modifier_eq. cbn [lcall ltry lbind].
    rewrite strip_noenc; [reflexivity|]. rewrite (fix_codes_enc _ _ _ _ Hf). exact He. }
  assert (Hext : external_source cfg opt path = match lang5 with Some l => Some (l, src5, q5) | None => None end).
  { subst lang5 src5 q5 lang4 src4. unfold external_source. destruct opt; [reflexivity|].
    destruct (dir_locale cfg path); [reflexivity|]. destruct (base_locale cfg path); reflexivity. }
  rewrite Hext. clear Hext. clearbody lang5 src5 q5. clear lang4 src4 comps.
  destruct (truthy_str meta) as [o|] eqn:Hmeta.
  2:{ (* no Language field to analyse *)
      assert (Hf : field_language cfg meta = Ok {| f_diags := []; f_lang := None; f_entered := false |}).
      { destruct meta as [[|c r]|]; try reflexivity. discriminate. }
      assert (Hn : nofield_of meta dupdiff = (true && negb dupdiff)).
      { unfold nofield_of. destruct meta as [[|c r]|]; try reflexivity. discriminate. }
      rewrite Hf. cbn [obind f_lang f_diags]. cbn [lbind].
      replace (libreoffice_drop path match lang5 with Some l => Some (l, src5, q5) | None => None end
                 {| f_diags := []; f_lang := None; f_entered := false |}) with (cur_of lang5 src5)
        by (destruct lang5; reflexivity).
      cbn [merge_field app].
      transitivity (m_tail cfg pls pcs (true && negb dupdiff) d0 (cur_of lang5 src5)).
      2:{ unfold m_tail. destruct (poedit_phase cfg pls pcs (cur_of lang5 src5)) as [[d3 cur2]|e|c]; try reflexivity.
          cbn [obind fst snd]. rewrite final_diags_fin, Hn. reflexivity. }
      tail_tac cfg. }
  (* a Language field with a (single, non-empty) value o *)
  assert (Ho : exists c r, o = c :: r /\ meta = Some o).
  { destruct meta as [[|c r]|]; try discriminate. inversion Hmeta. eauto. }
  destruct Ho as (c & r & Ho & ->). clear Hmeta.
  replace (field_language cfg (Some o)) with (field_language cfg (Some (c :: r))) by (rewrite Ho; reflexivity).
  rewrite field_language_steps. cbv zeta. rewrite <- Ho.
  (* try: parse_language  except LanguageError: get_language_for_name *)
  head_is (match m_step1 cfg o with
           | Ok (d1, ml) => @LNorm _ (list ldiag * option language) (ml, d0 ++ d1)
           | Err _ => LExc XTypeError
           | Crash _ => LExc XLanguageSyntaxError
           end).
  { unfold m_step1. rewrite src_parse_language_eq.
    destruct (parse_language o) as [l|e|k] eqn:Hp; cbn [of_parse lcall ltry lbind catches is_language_error].
    - rewrite app_nil_r. reflexivity.
    - rewrite src_get_language_for_name_eq.
      destruct (get_language_for_name cfg o) as [l|[]|k]; reflexivity.
    - exfalso. exact (parse_no_crash _ _ Hp). }
  destruct (m_step1 cfg o) as [[d1 ml]|e|k] eqn:Hs1; cbn [lbind obind fst snd seen own_none].
  2:{ exfalso. unfold m_step1 in Hs1. destruct (parse_language o); try discriminate. destruct (get_language_for_name cfg o) as [?|[]|?]; discriminate. }
  2:{ f_equal. unfold m_step1 in Hs1. destruct (parse_language o) as [l|e|k'] eqn:Hp; try discriminate.
      - destruct (get_language_for_name cfg o) as [?|[]|k'] eqn:Hg; try discriminate. inversion Hs1; subst.
        symmetry. exact (get_language_for_name_crash _ _ _ Hg).
      - exfalso. exact (parse_no_crash _ _ Hp). }
  clear Hs1.
  (* remove_encoding, remove_nonlinguistic_modifier, fix_codes, the LibreOffice exception *)
  set (drop_of := fun fl : option language => match fl with Some m => negb q5 && path_names path m | None => false end).
  head_is (match ml with
           | None => @LNorm _ (list ldiag * option language) (d0 ++ d1, None, lang5)
           | Some l => match m_step2 cfg o l with
                       | Ok (d2, fl) => LNorm ((d0 ++ d1) ++ d2, fl, if drop_of fl then None else lang5)
                       | Err _ => LExc XTypeError
                       | Crash _ => LExc XValueError
                       end
           end).
  { destruct ml as [l|]; [|reflexivity]. unfold m_step2.
    rewrite src_remove_encoding_eq. destruct (remove_encoding l) as [l1 b1]. cbn [lcall fst snd].
    rewrite src_remove_nonlinguistic_modifier_eq. destruct (remove_nonlinguistic_modifier l1) as [l2 b2]. cbn [fst snd].
    assert (Hq : ((if q5 then 1 else 0) <=? 0)%Z = negb q5) by (destruct q5; reflexivity).
    assert (Hq' : (0 >=? (if q5 then 1 else 0))%Z = negb q5) by (destruct q5; reflexivity).
    destruct b1, b2; cbn [flag opt_true lbind lcall]; rewrite src_fix_codes_eq;
      (destruct (fix_codes cfg l2) as [[l3 [|]]|e|k] eqn:Hf; cbn [of_fix flag opt_true lcall lbind ltry catches is_language_error];
       [| | |exfalso; exact (fix_codes_no_crash _ _ _ Hf)]);
      rewrite ?src_str_eq, ?Hq, ?Hq'; unfold drop_of, path_names; cbn [app]; rewrite ?app_nil_r, <- ?app_assoc;
      try (destruct (negb q5 && _); reflexivity); reflexivity. }
  (* everything after the analysis of the field, for whatever it produced *)
  set (nf := negb (negb (is_nil o)) && negb dupdiff).
  assert (Hnf : nofield_of (Some o) dupdiff = nf) by (subst o; reflexivity).
  lazymatch goal with |- seen _ (lbind _ ?K) = _ => set (K6 := K) end.
  assert (HK : forall pre fl langF,
             seen own_none (K6 (d0 ++ pre, fl, langF)) =
             m_tail cfg pls pcs nf ((d0 ++ pre) ++ fst (merge_field (cur_of langF src5) fl)) (snd (merge_field (cur_of langF src5) fl))).
  { intros pre fl langF. subst K6. cbv beta iota.
    set (mf := merge_field (cur_of langF src5) fl).
    head_is (@LNorm _ (list ldiag * option language)
               ((d0 ++ pre) ++ fst mf, fl, option_map fst (snd mf), match snd mf with Some (_, s) => s | None => src5 end)).
    { subst mf. destruct fl as [m|], langF as [l|]; cbn [cur_of merge_field fst snd option_map lbind]; rewrite ?src_ne_eq, ?app_nil_r;
        try reflexivity. destruct (negb (lang_eqb l m)); cbn [lbind]; rewrite ?app_nil_r; reflexivity. }
    generalize ((d0 ++ pre) ++ fst mf). intros out. destruct (snd mf) as [[lm sm]|]; cbn [option_map fst].
    - change (Some (lm, sm)) with (cur_of (Some lm) sm). clear. tail_tac cfg.
    - change (@None (language * lsource)) with (cur_of None src5). clear. tail_tac cfg. }
  clearbody K6.
  (* the model's remaining phases in the same form *)
  assert (HM : forall fd fl ent,
             (let fr := {| f_diags := fd; f_lang := fl; f_entered := ent |} in
              let '(d2, cur1) := merge_field (libreoffice_drop path match lang5 with Some l => Some (l, src5, q5) | None => None end fr) (f_lang fr) in
              do pr <- poedit_phase cfg pls pcs cur1;
              let '(d3, cur2) := pr in
              Ok (d0 ++ f_diags fr ++ d2 ++ d3 ++ final_diags (Some o) dupdiff cur2, option_map fst cur2)) =
             (let langF := if ent && drop_of fl then None else lang5 in
              m_tail cfg pls pcs nf ((d0 ++ fd) ++ fst (merge_field (cur_of langF src5) fl)) (snd (merge_field (cur_of langF src5) fl)))).
  { intros fd fl ent. cbv zeta. cbn [f_diags f_lang f_entered].
    replace (libreoffice_drop path match lang5 with Some l => Some (l, src5, q5) | None => None end
               {| f_diags := fd; f_lang := fl; f_entered := ent |})
      with (cur_of (if ent && drop_of fl then None else lang5) src5).
    2:{ unfold libreoffice_drop, drop_of. cbn [f_entered f_lang]. destruct lang5 as [l5|]; [|destruct (ent && _); reflexivity].
        destruct ent, fl as [m|]; cbn [andb]; try reflexivity. destruct (negb q5 && path_names path m); reflexivity. }
    destruct (merge_field (cur_of (if ent && drop_of fl then None else lang5) src5) fl) as [d2 cur1]. cbn [fst snd].
    unfold m_tail. destruct (poedit_phase cfg pls pcs cur1) as [[d3 cur2]|e|k]; cbn [obind fst snd]; try reflexivity.
    rewrite final_diags_fin, Hnf, <- !app_assoc. reflexivity. }
  destruct ml as [l|].
  - destruct (m_step2 cfg o l) as [[d2 fl]|e|k] eqn:Hs2; cbn [lbind obind fst snd].
    + rewrite <- app_assoc, HK. symmetry. etransitivity; [exact (HM (d1 ++ d2) fl true)|reflexivity].
    + exfalso. unfold m_step2 in Hs2. destruct (remove_encoding l) as [l1 b1]. destruct (remove_nonlinguistic_modifier l1) as [l2 b2].
      destruct (fix_codes cfg l2) as [[l3 [|]]|e'|k]; discriminate.
    + exfalso. unfold m_step2 in Hs2. destruct (remove_encoding l) as [l1 b1]. destruct (remove_nonlinguistic_modifier l1) as [l2 b2].
      destruct (fix_codes cfg l2) as [[l3 [|]]|e'|k'] eqn:Hf; try discriminate. exact (fix_codes_no_crash _ _ _ Hf).
  - cbn [lbind obind]. rewrite HK. symmetry. etransitivity; [exact (HM d1 None false)|reflexivity].
Qed.

(* ---------- the statements restated in Props/C19.v ---------- *)
Lemma src_get_language_for_name_seen cfg name :
  seen own_lookup (src_get_language_for_name (env_of cfg) name) = get_language_for_name cfg name.
Proof.
  rewrite src_get_language_for_name_eq. destruct (get_language_for_name cfg name) as [l|[]|c] eqn:H; try reflexivity.
  apply get_language_for_name_crash in H. subst c. reflexivity.
Qed.

Lemma src_tie_lookups cfg k :
  src_lookup_language_code (env_of cfg) k = lg_lookup (cfg_iso639 cfg) k /\
  src_lookup_territory_code (env_of cfg) k = lookup_territory_code cfg k.
Proof. split; reflexivity. Qed.

Lemma src_tie_compare E a b :
  src_get_tuple E a = (l_lang a, l_terr a, l_enc a, l_mod a) /\ src_eq E a b = lang_eqb a b /\ src_ne E a b = negb (lang_eqb a b).
Proof. repeat split. Qed.

Lemma src_tie_remove E l :
  src_remove_encoding E l = LRet (fst (remove_encoding l), flag (snd (remove_encoding l))) /\
  src_remove_nonlinguistic_modifier E l = LRet (fst (remove_nonlinguistic_modifier l), flag (snd (remove_nonlinguistic_modifier l))).
Proof. split; [apply src_remove_encoding_eq|apply src_remove_nonlinguistic_modifier_eq]. Qed.

Lemma src_tie_parse cfg s :
  (forall ll cc en md, src_init (env_of cfg) ll cc en md = LRet (mkLang ll cc (option_map (map ascii_upper) en) md)) /\
  seen own_syntax (src_parse_language (env_of cfg) s) = parse_language s.
Proof. split; [apply src_init_eq|apply src_parse_language_seen]. Qed.

(* Lemmas about the string primitives of Model/Header.v *)
From Coq Require Import List NArith Bool Lia PeanoNat.
From Coq Require String.
From I18n Require Import Lib.Outcome Model.Header Spec.HeaderRules.
Import ListNotations.
Import String.StringSyntax.
Local Open Scope N_scope.

Lemma str_eqb_eq : forall a b, str_eqb a b = true <-> a = b.
Proof.
  induction a as [|x a IH]; destruct b as [|y b]; cbn [str_eqb]; split; intro H; try discriminate; try reflexivity.
  - apply andb_prop in H. destruct H as [H1 H2]. apply N.eqb_eq in H1. apply IH in H2. subst. reflexivity.
  - injection H as -> ->. rewrite N.eqb_refl. apply IH. reflexivity.
Qed.

Lemma str_eqb_refl : forall a, str_eqb a a = true.
Proof. intro a. apply str_eqb_eq. reflexivity. Qed.

Lemma str_eqb_neq : forall a b, str_eqb a b = false <-> a <> b.
Proof.
  intros a b. split.
  - intros H E. apply str_eqb_eq in E. congruence.
  - intro H. destruct (str_eqb a b) eqn:E; [apply str_eqb_eq in E; contradiction | reflexivity].
Qed.

Lemma str_cmp_eq : forall a b, str_cmp a b = Eq -> a = b.
Proof.
  induction a as [|x a IH]; destruct b as [|y b]; cbn [str_cmp]; intro H; try discriminate; try reflexivity.
  destruct (N.compare x y) eqn:E; try discriminate.
  apply N.compare_eq in E. subst. f_equal. apply IH. exact H.
Qed.

Lemma hmem_In : forall c s, hmem c s = true <-> In c s.
Proof.
  intros c s. unfold hmem. rewrite existsb_exists. split.
  - intros (x & Hx & E). apply N.eqb_eq in E. subst. exact Hx.
  - intro H. exists c. split; [exact H | apply N.eqb_refl].
Qed.

Lemma hmem_false : forall c s, hmem c s = false <-> ~ In c s.
Proof.
  intros c s. split.
  - intros H HI. apply hmem_In in HI. congruence.
  - intro H. destruct (hmem c s) eqn:E; [apply hmem_In in E; contradiction | reflexivity].
Qed.

Lemma smem_In : forall x l, smem x l = true <-> In x l.
Proof.
  intros x l. unfold smem. rewrite existsb_exists. split.
  - intros (y & Hy & E). apply str_eqb_eq in E. subst. exact Hy.
  - intro H. exists x. split; [exact H | apply str_eqb_refl].
Qed.

Lemma smem_false : forall x l, smem x l = false <-> ~ In x l.
Proof.
  intros x l. split.
  - intros H HI. apply smem_In in HI. congruence.
  - intro H. destruct (smem x l) eqn:E; [apply smem_In in E; contradiction | reflexivity].
Qed.

Lemma hstrip_prefix_some : forall p s r, hstrip_prefix p s = Some r <-> s = p ++ r.
Proof.
  induction p as [|c p IH]; intros s r; cbn [hstrip_prefix app].
  - split; intro H; [injection H as ->; reflexivity | subst; reflexivity].
  - destruct s as [|d s].
    + split; intro H; discriminate.
    + destruct (N.eqb c d) eqn:E.
      * apply N.eqb_eq in E. subst d. rewrite IH. split; intro H; [subst; reflexivity | injection H as ->; reflexivity].
      * apply N.eqb_neq in E. split; intro H; [discriminate | injection H as -> _; contradiction].
Qed.

Lemma hstrip_prefix_app : forall p r, hstrip_prefix p (p ++ r) = Some r.
Proof. intros. apply hstrip_prefix_some. reflexivity. Qed.

Lemma hstarts_iff : forall p s, hstarts p s = true <-> exists r, s = p ++ r.
Proof.
  intros p s. unfold hstarts. destruct (hstrip_prefix p s) eqn:E.
  - apply hstrip_prefix_some in E. split; [eauto | reflexivity].
  - split; [discriminate|]. intros (r & Hr). apply hstrip_prefix_some in Hr. congruence.
Qed.

Lemma hstrip_suffix_some : forall p s r, hstrip_suffix p s = Some r <-> s = r ++ p.
Proof.
  intros p s r. unfold hstrip_suffix. destruct (hstrip_prefix (rev p) (rev s)) eqn:E.
  - apply hstrip_prefix_some in E. split; intro H.
    + injection H as <-. apply (f_equal (@rev N)) in E. rewrite rev_involutive, rev_app_distr, rev_involutive in E. exact E.
    + subst s. rewrite rev_app_distr in E. apply app_inv_head in E. rewrite <- E, rev_involutive. reflexivity.
  - split; [discriminate|]. intro H. subst s. rewrite rev_app_distr, hstrip_prefix_app in E. discriminate.
Qed.

Lemma nonempty_iff : forall s, nonempty s = true <-> s <> [].
Proof. destruct s; cbn; split; congruence. Qed.

(* sort_u *)
Lemma In_insert_u : forall x l z, In z (insert_u x l) <-> z = x \/ In z l.
Proof.
  induction l as [|y l IH]; intro z; cbn [insert_u].
  - cbn. intuition.
  - destruct (str_cmp x y) eqn:E.
    + apply str_cmp_eq in E. subst. cbn. intuition.
    + cbn. intuition.
    + cbn [In]. rewrite IH. intuition.
Qed.

Lemma In_sort_u : forall l z, In z (sort_u l) <-> In z l.
Proof.
  induction l as [|x l IH]; intro z; cbn [sort_u fold_right].
  - reflexivity.
  - fold (sort_u l). rewrite In_insert_u, IH. cbn. intuition.
Qed.

Lemma sort_u_nil : forall l, sort_u l = [] <-> l = [].
Proof.
  intro l. split; intro H; [|subst; reflexivity].
  destruct l as [|x l]; [reflexivity|]. exfalso.
  assert (In x (sort_u (x :: l))) by (apply In_sort_u; left; reflexivity). rewrite H in H0. destruct H0.
Qed.

Lemma many_iff : forall l, many l = true <-> (1 < length l)%nat.
Proof. intro l. unfold many. apply Nat.ltb_lt. Qed.

Lemma In_dedup : forall l z, In z (dedup l) <-> In z l.
Proof. intros l z. unfold dedup. destruct (many l); [apply In_sort_u | reflexivity]. Qed.

Lemma dedup_nil : forall l, dedup l = [] <-> l = [].
Proof. intro l. unfold dedup. destruct (many l); [apply sort_u_nil | reflexivity]. Qed.

Lemma dedup_single : forall v, dedup [v] = [v].
Proof. reflexivity. Qed.

(* metadata lookups against the declarative reference *)
Lemma values_of_spec : forall k fs, values_of k fs = values k fs.
Proof.
  intros k fs. unfold values_of. induction fs as [|[k' v] fs IH]; cbn [filter map values fst]; [reflexivity|].
  destruct (list_eq_dec N.eq_dec k' k) as [->|Hne].
  - rewrite str_eqb_refl. cbn [map snd]. f_equal. exact IH.
  - apply str_eqb_neq in Hne. rewrite Hne. exact IH.
Qed.

Lemma In_values : forall k v fs, In v (values k fs) <-> In (k, v) fs.
Proof.
  intros k v fs. induction fs as [|[k' v'] fs IH]; cbn [values In]; [reflexivity|].
  destruct (list_eq_dec N.eq_dec k' k) as [->|Hne]; cbn [In]; rewrite IH; split; intro H.
  - destruct H as [->|H]; auto.
  - destruct H as [H|H]; [injection H as ->; auto | auto].
  - auto.
  - destruct H as [H|H]; [injection H as -> _; contradiction | exact H].
Qed.

Lemma values_nil_iff : forall k fs, values k fs = [] <-> ~ In k (map fst fs).
Proof.
  intros k fs. induction fs as [|[k' v'] fs IH]; cbn [values map fst In]; [intuition|].
  destruct (list_eq_dec N.eq_dec k' k) as [->|Hne].
  - split; [discriminate | intro H; exfalso; apply H; left; reflexivity].
  - rewrite IH. intuition.
Qed.

(* ocollect *)
Lemma ocollect_ok_in : forall A (f : A -> outcome (list diag) unit) l ds,
  ocollect f l = Ok ds -> forall d, In d ds <-> exists x a, In x l /\ f x = Ok a /\ In d a.
Proof.
  induction l as [|x l IH]; intros ds H d; cbn [ocollect] in H.
  - injection H as <-. split; [intros [] | intros (? & ? & [] & _)].
  - unfold obind in H. destruct (f x) as [a| |] eqn:Ef; try discriminate.
    destruct (ocollect f l) as [b| |] eqn:Eb; try discriminate. injection H as <-.
    rewrite in_app_iff, (IH b eq_refl d). split.
    + intros [Ha | (y & a' & Hy & Hfy & Hd)]; [exists x, a; cbn; auto | exists y, a'; cbn; auto].
    + intros (y & a' & [<-|Hy] & Hfy & Hd); [left; congruence | right; eauto].
Qed.

Lemma ocollect_pure : forall A (f : A -> outcome (list diag) unit) (g : A -> list diag) l,
  (forall x, In x l -> f x = Ok (g x)) -> ocollect f l = Ok (flat_map g l).
Proof.
  induction l as [|x l IH]; intro H; cbn [ocollect flat_map]; [reflexivity|].
  rewrite (H x (or_introl eq_refl)). cbn [obind]. rewrite IH by (intros; apply H; right; assumption). reflexivity.
Qed.

Lemma ocollect_crash : forall A (f : A -> outcome (list diag) unit) l c,
  ocollect f l = Crash c -> exists x, In x l /\ f x = Crash c.
Proof.
  induction l as [|x l IH]; intros c H; cbn [ocollect] in H; [discriminate|].
  unfold obind in H. destruct (f x) as [a| |c'] eqn:Ef; try discriminate.
  - destruct (ocollect f l) as [b| |c'] eqn:Eb; try discriminate. injection H as ->.
    destruct (IH c eq_refl) as (y & Hy & Hfy). exists y. split; [right; exact Hy | exact Hfy].
  - injection H as ->. exists x. split; [left; reflexivity | exact Ef].
Qed.

Lemma ocollect_no_err : forall A (f : A -> outcome (list diag) unit) l e,
  (forall x e', f x <> Err e') -> ocollect f l <> Err e.
Proof.
  induction l as [|x l IH]; intros e Hf H; cbn [ocollect] in H; [discriminate|].
  unfold obind in H. destruct (f x) as [a|e'|] eqn:Ef; try discriminate.
  - destruct (ocollect f l) as [b|e'|] eqn:Eb; try discriminate. exact (IH e' Hf eq_refl).
  - exact (Hf x e' Ef).
Qed.

(* Lemmas about the string primitives of Model/Header.v *)
From Coq Require Import List NArith Bool Lia PeanoNat.
From Coq Require String.
From I18n Require Import Lib.Outcome Model.Header Spec.HeaderRules.
Import ListNotations.
Import String.StringSyntax.
Local Open Scope N_scope.

Lemma str_eqb_eq : forall a b, str_eqb a b = true <-> a = b.
Proof.
  induction a as [|x a IH]; destruct b as [|y b]; cbn [str_eqb]; split; intro H; try discriminate; try reflexivity.
  - apply andb_prop in H. destruct H as [H1 H2]. apply N.eqb_eq in H1. apply IH in H2. subst. reflexivity.
  - injection H as -> ->. rewrite N.eqb_refl. apply IH. reflexivity.
Qed.

Lemma str_eqb_refl : forall a, str_eqb a a = true.
Proof. intro a. apply str_eqb_eq. reflexivity. Qed.

Lemma str_eqb_neq : forall a b, str_eqb a b = false <-> a <> b.
Proof.
  intros a b. split.
  - intros H E. apply str_eqb_eq in E. congruence.
  - intro H. destruct (str_eqb a b) eqn:E; [apply str_eqb_eq in E; contradiction | reflexivity].
Qed.

Lemma str_cmp_eq : forall a b, str_cmp a b = Eq -> a = b.
Proof.
  induction a as [|x a IH]; destruct b as [|y b]; cbn [str_cmp]; intro H; try discriminate; try reflexivity.
  destruct (N.compare x y) eqn:E; try discriminate.
  apply N.compare_eq in E. subst. f_equal. apply IH. exact H.
Qed.

Lemma hmem_In : forall c s, hmem c s = true <-> In c s.
Proof.
  intros c s. unfold hmem. rewrite existsb_exists. split.
  - intros (x & Hx & E). apply N.eqb_eq in E. subst. exact Hx.
  - intro H. exists c. split; [exact H | apply N.eqb_refl].
Qed.

Lemma hmem_false : forall c s, hmem c s = false <-> ~ In c s.
Proof.
  intros c s. split.
  - intros H HI. apply hmem_In in HI. congruence.
  - intro H. destruct (hmem c s) eqn:E; [apply hmem_In in E; contradiction | reflexivity].
Qed.

Lemma smem_In : forall x l, smem x l = true <-> In x l.
Proof.
  intros x l. unfold smem. rewrite existsb_exists. split.
  - intros (y & Hy & E). apply str_eqb_eq in E. subst. exact Hy.
  - intro H. exists x. split; [exact H | apply str_eqb_refl].
Qed.

Lemma smem_false : forall x l, smem x l = false <-> ~ In x l.
Proof.
  intros x l. split.
  - intros H HI. apply smem_In in HI. congruence.
  - intro H. destruct (smem x l) eqn:E; [apply smem_In in E; contradiction | reflexivity].
Qed.

Lemma hstrip_prefix_some : forall p s r, hstrip_prefix p s = Some r <-> s = p ++ r.
Proof.
  induction p as [|c p IH]; intros s r; cbn [hstrip_prefix app].
  - split; intro H; [injection H as ->; reflexivity | subst; reflexivity].
  - destruct s as [|d s].
    + split; intro H; discriminate.
    + destruct (N.eqb c d) eqn:E.
      * apply N.eqb_eq in E. subst d. rewrite IH. split; intro H; [subst; reflexivity | injection H as ->; reflexivity].
      * apply N.eqb_neq in E. split; intro H; [discriminate | injection H as -> _; contradiction].
Qed.

Lemma hstrip_prefix_app : forall p r, hstrip_prefix p (p ++ r) = Some r.
Proof. intros. apply hstrip_prefix_some. reflexivity. Qed.

Lemma hstarts_iff : forall p s, hstarts p s = true <-> exists r, s = p ++ r.
Proof.
  intros p s. unfold hstarts. destruct (hstrip_prefix p s) eqn:E.
  - apply hstrip_prefix_some in E. split; [eauto | reflexivity].
  - split; [discriminate|]. intros (r & Hr). apply hstrip_prefix_some in Hr. congruence.
Qed.

Lemma hstrip_suffix_some : forall p s r, hstrip_suffix p s = Some r <-> s = r ++ p.
Proof.
  intros p s r. unfold hstrip_suffix. destruct (hstrip_prefix (rev p) (rev s)) eqn:E.
  - apply hstrip_prefix_some in E. split; intro H.
    + injection H as <-. apply (f_equal (@rev N)) in E. rewrite rev_involutive, rev_app_distr, rev_involutive in E. exact E.
    + subst s. rewrite rev_app_distr in E. apply app_inv_head in E. rewrite <- E, rev_involutive. reflexivity.
  - split; [discriminate|]. intro H. subst s. rewrite rev_app_distr, hstrip_prefix_app in E. discriminate.
Qed.

Lemma nonempty_iff : forall s, nonempty s = true <-> s <> [].
Proof. destruct s; cbn; split; congruence. Qed.

(* sort_u *)
Lemma In_insert_u : forall x l z, In z (insert_u x l) <-> z = x \/ In z l.
Proof.
  induction l as [|y l IH]; intro z; cbn [insert_u].
  - cbn. intuition.
  - destruct (str_cmp x y) eqn:E.
    + apply str_cmp_eq in E. subst. cbn. intuition.
    + cbn. intuition.
    + cbn [In]. rewrite IH. intuition.
Qed.

Lemma In_sort_u : forall l z, In z (sort_u l) <-> In z l.
Proof.
  induction l as [|x l IH]; intro z; cbn [sort_u fold_right].
  - reflexivity.
  - fold (sort_u l). rewrite In_insert_u, IH. cbn. intuition.
Qed.

Lemma sort_u_nil : forall l, sort_u l = [] <-> l = [].
Proof.
  intro l. split; intro H; [|subst; reflexivity].
  destruct l as [|x l]; [reflexivity|]. exfalso.
  assert (In x (sort_u (x :: l))) by (apply In_sort_u; left; reflexivity). rewrite H in H0. destruct H0.
Qed.

Lemma many_iff : forall l, many l = true <-> (1 < length l)%nat.
Proof. intro l. unfold many. apply Nat.ltb_lt. Qed.

Lemma In_dedup : forall l z, In z (dedup l) <-> In z l.
Proof. intros l z. unfold dedup. destruct (many l); [apply In_sort_u | reflexivity]. Qed.

Lemma dedup_nil : forall l, dedup l = [] <-> l = [].
Proof. intro l. unfold dedup. destruct (many l); [apply sort_u_nil | reflexivity]. Qed.

Lemma dedup_single : forall v, dedup [v] = [v].
Proof. reflexivity. Qed.

(* metadata lookups against the declarative reference *)
Lemma values_of_spec : forall k fs, values_of k fs = values k fs.
Proof.
  intros k fs. unfold values_of. induction fs as [|[k' v] fs IH]; cbn [filter map values fst]; [reflexivity|].
  destruct (list_eq_dec N.eq_dec k' k) as [->|Hne].
  - rewrite str_eqb_refl. cbn [map snd]. f_equal. exact IH.
  - apply str_eqb_neq in Hne. rewrite Hne. exact IH.
Qed.

Lemma In_values : forall k v fs, In v (values k fs) <-> In (k, v) fs.
Proof.
  intros k v fs. induction fs as [|[k' v'] fs IH]; cbn [values In]; [reflexivity|].
  destruct (list_eq_dec N.eq_dec k' k) as [->|Hne]; cbn [In]; rewrite IH; split; intro H.
  - destruct H as [->|H]; auto.
  - destruct H as [H|H]; [injection H as ->; auto | auto].
  - auto.
  - destruct H as [H|H]; [injection H as -> _; contradiction | exact H].
Qed.

Lemma values_nil_iff : forall k fs, values k fs = [] <-> ~ In k (map fst fs).
Proof.
  intros k fs. induction fs as [|[k' v'] fs IH]; cbn [values map fst In]; [intuition|].
  destruct (list_eq_dec N.eq_dec k' k) as [->|Hne].
  - split; [discriminate | intro H; exfalso; apply H; left; reflexivity].
  - rewrite IH. intuition.
Qed.

(* ocollect *)
Lemma ocollect_ok_in : forall A (f : A -> outcome (list diag) unit) l ds,
  ocollect f l = Ok ds -> forall d, In d ds <-> exists x a, In x l /\ f x = Ok a /\ In d a.
Proof.
  induction l as [|x l IH]; intros ds H d; cbn [ocollect] in H.
  - injection H as <-. split; [intros [] | intros (? & ? & [] & _)].
  - unfold obind in H. destruct (f x) as [a| |] eqn:Ef; try discriminate.
    destruct (ocollect f l) as [b| |] eqn:Eb; try discriminate. injection H as <-.
    rewrite in_app_iff, (IH b eq_refl d). split.
    + intros [Ha | (y & a' & Hy & Hfy & Hd)]; [exists x, a; cbn; auto | exists y, a'; cbn; auto].
    + intros (y & a' & [<-|Hy] & Hfy & Hd); [left; congruence | right; eauto].
Qed.

Lemma ocollect_pure : forall A (f : A -> outcome (list diag) unit) (g : A -> list diag) l,
  (forall x, In x l -> f x = Ok (g x)) -> ocollect f l = Ok (flat_map g l).
Proof.
  induction l as [|x l IH]; intro H; cbn [ocollect flat_map]; [reflexivity|].
  rewrite (H x (or_introl eq_refl)). cbn [obind]. rewrite IH by (intros; apply H; right; assumption). reflexivity.
Qed.

Lemma ocollect_crash : forall A (f : A -> outcome (list diag) unit) l c,
  ocollect f l = Crash c -> exists x, In x l /\ f x = Crash c.
Proof.
  induction l as [|x l IH]; intros c H; cbn [ocollect] in H; [discriminate|].
  unfold obind in H. destruct (f x) as [a| |c'] eqn:Ef; try discriminate.
  - destruct (ocollect f l) as [b| |c'] eqn:Eb; try discriminate. injection H as ->.
    destruct (IH c eq_refl) as (y & Hy & Hfy). exists y. split; [right; exact Hy | exact Hfy].
  - injection H as ->. exists x. split; [left; reflexivity | exact Ef].
Qed.

Lemma ocollect_no_err : forall A (f : A -> outcome (list diag) unit) l e,
  (forall x e', f x <> Err e') -> ocollect f l <> Err e.
Proof.
  induction l as [|x l IH]; intros e Hf H; cbn [ocollect] in H; [discriminate|].
  unfold obind in H. destruct (f x) as [a|e'|] eqn:Ef; try discriminate.
  - destruct (ocollect f l) as [b|e'|] eqn:Eb; try discriminate. exact (IH e' Hf eq_refl).
  - exact (Hf x e' Ef).
Qed.

(* ------------------------------------------------------------------ *)
(* Python's str order; sort_u is strictly increasing *)
From Coq Require Import Sorted.

Lemma str_cmp_lt : forall a b, str_cmp a b = Lt <-> str_lt a b.
Proof.
  induction a as [|x a IH]; destruct b as [|y b]; cbn [str_cmp]; split; intro H; try discriminate; try (inversion H; fail).
  - constructor.
  - reflexivity.
  - destruct (N.compare x y) eqn:E; try discriminate.
    + apply N.compare_eq in E. subst. apply str_lt_tail. apply IH. exact H.
    + apply N.compare_lt_iff in E. apply str_lt_head. exact E.
  - inversion H as [| ? ? ? ? Hlt | ? ? ? Hlt]; subst.
    + apply N.compare_lt_iff in Hlt. rewrite Hlt. reflexivity.
    + rewrite N.compare_refl. apply IH. exact Hlt.
Qed.

Lemma str_cmp_gt : forall a b, str_cmp a b = Gt <-> str_lt b a.
Proof.
  induction a as [|x a IH]; destruct b as [|y b]; cbn [str_cmp]; split; intro H; try discriminate; try (inversion H; fail).
  - constructor.
  - reflexivity.
  - destruct (N.compare x y) eqn:E; try discriminate.
    + apply N.compare_eq in E. subst. apply str_lt_tail. apply IH. exact H.
    + apply N.compare_gt_iff in E. apply str_lt_head. exact E.
  - inversion H as [| ? ? ? ? Hlt | ? ? ? Hlt]; subst.
    + apply N.compare_gt_iff in Hlt. rewrite Hlt. reflexivity.
    + rewrite N.compare_refl. apply IH. exact Hlt.
Qed.

Lemma str_lt_irrefl : forall a, ~ str_lt a a.
Proof. induction a as [|x a IH]; intro H; inversion H; subst; [lia | auto]. Qed.

Lemma str_lt_trans : forall a b c, str_lt a b -> str_lt b c -> str_lt a c.
Proof.
  induction a as [|x a IH]; intros b c H1 H2.
  - inversion H1; subst. inversion H2; subst; constructor.
  - inversion H1; subst; inversion H2; subst.
    + apply str_lt_head. lia.
    + apply str_lt_head. assumption.
    + apply str_lt_head. assumption.
    + apply str_lt_tail. eapply IH; eassumption.
Qed.

Lemma insert_u_sorted : forall x l, StronglySorted str_lt l -> StronglySorted str_lt (insert_u x l).
Proof.
  intros x. induction l as [|y r IH]; intro H; cbn [insert_u].
  - constructor; constructor.
  - inversion H as [|? ? Hr Hy]; subst. destruct (str_cmp x y) eqn:E.
    + exact H.
    + apply str_cmp_lt in E. constructor; [exact H|]. constructor; [exact E|].
      rewrite Forall_forall in *. intros z Hz. eapply str_lt_trans; [exact E | apply Hy; exact Hz].
    + apply str_cmp_gt in E. constructor; [apply IH; exact Hr|].
      rewrite Forall_forall in *. intros z Hz. apply In_insert_u in Hz. destruct Hz as [->|Hz]; [exact E | apply Hy; exact Hz].
Qed.

Lemma sort_u_sorted : forall l, StronglySorted str_lt (sort_u l).
Proof.
  induction l as [|x l IH]; cbn [sort_u fold_right]; [constructor|]. fold (sort_u l). apply insert_u_sorted. exact IH.
Qed.

Lemma dedup_sorted : forall l, StronglySorted str_lt (dedup l).
Proof.
  intro l. unfold dedup. destruct (many l) eqn:E; [apply sort_u_sorted|].
  destruct l as [|x [|y r]]; [constructor | constructor; constructor | cbn in E; discriminate].
Qed.

(* find on the reversed list returns the last element with the property *)
Lemma find_rev_some : forall (P : str -> bool) l x,
  find P (rev l) = Some x <-> exists a b, l = a ++ x :: b /\ P x = true /\ forall y, In y b -> P y = false.
Proof.
  intros P l. induction l as [|z l IH] using rev_ind; intro x.
  - cbn. split; [discriminate | intros ([|? ?] & b & H & _); discriminate].
  - rewrite rev_app_distr. cbn [rev app find]. destruct (P z) eqn:Ez.
    + split.
      * intro H. injection H as <-. exists l, []. split; [reflexivity|]. split; [exact Ez | intros y []].
      * intros (a & b & H & Hx & Hb). destruct b as [|y b] using rev_ind.
        -- apply app_inj_tail in H. destruct H as [_ ->]. reflexivity.
        -- clear IHb. rewrite app_comm_cons, app_assoc in H. apply app_inj_tail in H. destruct H as [_ ->].
           rewrite (Hb y) in Ez by (apply in_or_app; right; left; reflexivity). discriminate.
    + rewrite IH. split.
      * intros (a & b & -> & Hx & Hb). exists a, (b ++ [z]). split; [rewrite <- app_assoc; reflexivity|]. split; [exact Hx|].
        intros y Hy. apply in_app_or in Hy. destruct Hy as [Hy|[<-|[]]]; [apply Hb; exact Hy | exact Ez].
      * intros (a & b & H & Hx & Hb). destruct b as [|y b] using rev_ind.
        -- apply app_inj_tail in H. destruct H as [_ ->]. congruence.
        -- clear IHb. rewrite app_comm_cons, app_assoc in H. apply app_inj_tail in H. destruct H as [-> ->].
           exists a, b. split; [reflexivity|]. split; [exact Hx|]. intros w Hw. apply Hb. apply in_or_app. left. exact Hw.
Qed.

Lemma find_rev_none : forall (P : str -> bool) l, find P (rev l) = None <-> forall y, In y l -> P y = false.
Proof.
  intros P l. split.
  - intros H y Hy. apply (find_none _ _ H). apply -> in_rev. exact Hy.
  - intro H. destruct (find P (rev l)) eqn:E; [|reflexivity]. apply find_some in E. destruct E as [Hi Hp].
    apply in_rev in Hi. rewrite (H _ Hi) in Hp. discriminate.
Qed.

(* in a strictly increasing list everything after x is greater and everything before is smaller *)
Lemma sorted_split : forall a x b, StronglySorted str_lt (a ++ x :: b) ->
  (forall y, In y a -> str_lt y x) /\ (forall y, In y b -> str_lt x y).
Proof.
  induction a as [|z a IH]; intros x b H; cbn [app] in H; inversion H as [|? ? Hs Hf]; subst.
  - split; [intros y [] | rewrite Forall_forall in Hf; exact Hf].
  - destruct (IH _ _ Hs) as [H1 H2]. split; [|exact H2]. intros y [<-|Hy]; [|apply H1; exact Hy].
    rewrite Forall_forall in Hf. apply Hf. apply in_or_app. right. left. reflexivity.
Qed.

Lemma count_str_occ : forall x l, count_str x l = count_occ (list_eq_dec N.eq_dec) l x.
Proof.
  intros x l. unfold count_str. induction l as [|y l IH]; cbn [filter count_occ length]; [reflexivity|].
  destruct (list_eq_dec N.eq_dec y x) as [->|Hne].
  - rewrite str_eqb_refl. cbn [length]. rewrite IH. reflexivity.
  - assert (str_eqb x y = false) as -> by (apply str_eqb_neq; congruence). exact IH.
Qed.

(* the character before a position: the last one of the text read so far, or the one before the start *)
Definition last_or (prev : option N) (a : str) : option N := match rev a with c :: _ => Some c | [] => prev end.

Lemma last_or_cons : forall prev c a, last_or prev (c :: a) = last_or (Some c) a.
Proof.
  intros prev c a. unfold last_or. cbn [rev]. destruct (rev a) as [|x r] eqn:E; reflexivity.
Qed.

Lemma last_of_some : forall a c, last_of a = Some c -> exists pre, a = pre ++ [c].
Proof.
  intros a c H. unfold last_of in H. destruct (rev a) as [|x r] eqn:E; [discriminate|]. injection H as ->.
  exists (rev r). rewrite <- (rev_involutive a), E. reflexivity.
Qed.

Lemma last_of_app1 : forall pre c, last_of (pre ++ [c]) = Some c.
Proof. intros. unfold last_of. rewrite rev_app_distr. reflexivity. Qed.

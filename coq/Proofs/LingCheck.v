(* Characterisation of the decision model of Checker.check_language (Model/Ling.v):
   which source names the language, when language-disparity / invalid-language /
   unable-to-determine-language are reported, what ctx.language becomes. *)
From Coq Require Import List NArith Bool Arith Lia.
From I18n Require Import Lib.Outcome Model.Ling Proofs.LingParse Proofs.LingFix.
Import ListNotations.
Local Open Scope N_scope.

(* ------------------------------------------------------------------ *)
(* the reading of the property text *)

Definition drop_euro (m : option (list N)) : option (list N) :=
  match m with Some x => if lg_eqb x s_euro then None else Some x | None => None end.

(* "after dropping encoding and non-linguistic modifiers" *)
Definition strip (l : language) : language := mkLang (l_lang l) (l_terr l) None (drop_euro (l_mod l)).

(* the locale an object names: codes normalised, then stripped; None if a code is unknown *)
Definition normalised (cfg : ling_cfg) (l : language) : option language :=
  match fix_codes cfg l with Ok (l', _) => Some (strip l') | _ => None end.

Definition locale_of (cfg : ling_cfg) (s : list N) : option language :=
  match parse_language s with Ok l => normalised cfg l | _ => None end.

(* the directory above LC_MESSAGES *)
Definition dir_locale (cfg : ling_cfg) (path : list N) : option language :=
  match lcmessages_parent path with Some c => locale_of cfg c | None => None end.

(* the base name of a .po file, unless it has an encoding part *)
Definition base_locale (cfg : ling_cfg) (path : list N) : option language :=
  if lg_endswith path s_dot_po then
    match parse_language (po_stem path) with
    | Ok l => if is_some (l_enc l) then None else normalised cfg l
    | _ => None
    end
  else None.

(* precedence of the sources outside the header: -l, LC_MESSAGES directory, base name (lower quality) *)
Definition external_source (cfg : ling_cfg) (opt : option language) (path : list N) : option (language * lsource * bool) :=
  match opt with
  | Some l => Some (l, SrcCommandLine, true)
  | None =>
    match dir_locale cfg path with
    | Some l => Some (l, SrcPathname, true)
    | None =>
      match base_locale cfg path with
      | Some l => Some (l, SrcPathname, false)
      | None => None
      end
    end
  end.

(* the Language field has exactly one distinct value *)
Definition single_value (metas : list (list N)) : option (list N) := snd (fst (field_value metas)).

(* the locale the (non-empty) field value names: as a locale name, or else as an English language name *)
Definition field_locale (cfg : ling_cfg) (o : list N) : option language :=
  match parse_language o with
  | Ok l => normalised cfg l
  | _ => match get_language_for_name cfg o with Ok l => normalised cfg l | _ => None end
  end.

Definition field_loc (cfg : ling_cfg) (metas : list (list N)) : option language :=
  match single_value metas with
  | Some (c :: o) => field_locale cfg (c :: o)
  | _ => None
  end.

(* a locale name with known, canonical codes *)
Definition canonical (cfg : ling_cfg) (o : list N) : Prop :=
  exists l l', parse_language o = Ok l /\ fix_codes cfg l = Ok (l', false).

(* X-Poedit-Language names a language: one distinct value, at most one distinct X-Poedit-Country, registered name *)
Definition distinct (l : list (list N)) : list (list N) := if Nat.ltb 1 (length l) then sorted_set l else l.
Definition poedit_language (cfg : ling_cfg) (pls pcs : list (list N)) : option language :=
  match distinct pls with
  | [name] =>
    if Nat.leb (length (distinct pcs)) 1
    then match get_language_for_name cfg name with Ok l => Some l | _ => None end
    else None
  | _ => None
  end.

(* ------------------------------------------------------------------ *)
(* small facts *)

Lemma opt_eqb_spec a b : opt_eqb a b = true <-> a = b.
Proof.
  destruct a as [x|], b as [y|]; cbn; try (split; congruence).
  rewrite lg_eqb_spec. split; [intros ->; reflexivity|intros H; inversion H; reflexivity].
Qed.

Lemma lang_eqb_spec a b : lang_eqb a b = true <-> a = b.
Proof.
  unfold lang_eqb. rewrite !andb_true_iff, lg_eqb_spec, !opt_eqb_spec.
  destruct a, b; cbn. split.
  - intros [[[-> ->] ->] ->]; reflexivity.
  - intros H; inversion H; auto.
Qed.

Lemma strip_eq l : fst (remove_nonlinguistic_modifier (fst (remove_encoding l))) = strip l.
Proof.
  unfold strip, remove_nonlinguistic_modifier, remove_encoding, drop_euro. cbn [fst l_lang l_terr l_enc l_mod].
  destruct (l_mod l) as [m|]; [destruct (lg_eqb m s_euro)|]; reflexivity.
Qed.

Lemma strip_noenc l : l_enc l = None -> fst (remove_nonlinguistic_modifier l) = strip l.
Proof.
  intros He. unfold strip, remove_nonlinguistic_modifier, drop_euro. destruct l as [ll cc en md]; cbn in *. subst en.
  destruct md as [m|]; [destruct (lg_eqb m s_euro)|]; reflexivity.
Qed.

(* code normalisation and stripping commute *)
Lemma fix_codes_strip cfg l :
  fix_codes cfg (strip l) =
  match fix_codes cfg l with Ok (l', b) => Ok (strip l', b) | Err e => Err e | Crash c => Crash c end.
Proof.
  unfold fix_codes, strip. cbn [l_lang l_terr l_enc l_mod].
  destruct (lg_lookup (cfg_iso639 cfg) (l_lang l)) as [ll|]; [|reflexivity].
  destruct (l_terr l) as [cc|]; [|reflexivity].
  destruct (lookup_territory_code cfg cc) as [cc'|]; [|reflexivity].
  destruct (negb (lg_eqb cc' cc)); reflexivity.
Qed.

Lemma fix_codes_enc cfg l l' b : fix_codes cfg l = Ok (l', b) -> l_enc l' = l_enc l.
Proof. intros H. apply fix_codes_ok_iff in H. destruct H as (ll & _ & _ & -> & _). reflexivity. Qed.

(* ------------------------------------------------------------------ *)
(* sources outside the header *)

Lemma lang_from_dir_spec cfg path : lang_from_dir cfg path = Ok (dir_locale cfg path).
Proof.
  unfold lang_from_dir, dir_locale, locale_of, normalised.
  destruct (lcmessages_parent path) as [c|]; [|reflexivity].
  destruct (parse_language c) as [l|e|k] eqn:Ep; [|reflexivity|exfalso; exact (parse_no_crash _ _ Ep)].
  destruct (fix_codes cfg l) as [[l1 b]|e|k] eqn:Ef; [|reflexivity|exfalso; exact (fix_codes_no_crash _ _ _ Ef)].
  rewrite strip_eq. reflexivity.
Qed.

Lemma lang_from_basename_spec cfg path : lg_endswith path s_dot_po = true ->
  lang_from_basename cfg path = Ok (base_locale cfg path).
Proof.
  intros Hpo. unfold lang_from_basename, base_locale, normalised. rewrite Hpo.
  destruct (parse_language (po_stem path)) as [l|e|k] eqn:Ep; [|reflexivity|exfalso; exact (parse_no_crash _ _ Ep)].
  destruct (is_some (l_enc l)) eqn:Ee; [reflexivity|].
  destruct (fix_codes cfg l) as [[l1 b]|e|k] eqn:Ef; [|reflexivity|exfalso; exact (fix_codes_no_crash _ _ _ Ef)].
  rewrite strip_noenc; [reflexivity|]. rewrite (fix_codes_enc _ _ _ _ Ef). destruct (l_enc l); [discriminate|reflexivity].
Qed.

Lemma base_locale_notpo cfg path : lg_endswith path s_dot_po = false -> base_locale cfg path = None.
Proof. unfold base_locale. intros ->. reflexivity. Qed.

Lemma external_language_spec cfg opt path : external_language cfg opt path = Ok (external_source cfg opt path).
Proof.
  unfold external_language, external_source.
  destruct opt as [l|]; [reflexivity|].
  rewrite lang_from_dir_spec. cbn [obind].
  destruct (dir_locale cfg path) as [l|]; [reflexivity|].
  destruct (lg_endswith path s_dot_po) eqn:Hpo.
  - rewrite (lang_from_basename_spec _ _ Hpo). cbn [obind]. destruct (base_locale cfg path); reflexivity.
  - rewrite (base_locale_notpo _ _ Hpo). reflexivity.
Qed.

(* ------------------------------------------------------------------ *)
(* sorted(set(...)) and the single value *)

Lemma ins_sorted_in x y l : In y (ins_sorted x l) <-> y = x \/ In y l.
Proof.
  induction l as [|z r IH]; cbn [ins_sorted In].
  - split; [intros [H|[]]; auto|intros [H|[]]; auto].
  - destruct (lg_eqb x z) eqn:E.
    + apply lg_eqb_spec in E. subst z. cbn [In]. split; [auto|]. intros [->|H]; auto.
    + destruct (lg_ltb x z); cbn [In].
      * split; [intros [H|H]; auto|intros [H|H]; auto].
      * rewrite IH. split; [intros [H|[H|H]]; auto|intros [H|[H|H]]; auto].
Qed.

Lemma sorted_set_in y l : In y (sorted_set l) <-> In y l.
Proof.
  induction l as [|x r IH]; cbn [sorted_set fold_right In]; [tauto|].
  fold (sorted_set r). rewrite ins_sorted_in, IH. split; [intros [H|H]; auto|intros [H|H]; auto].
Qed.

Lemma sorted_set_all_equal o l : l <> [] -> (forall x, In x l -> x = o) -> sorted_set l = [o].
Proof.
  induction l as [|x r IH]; [congruence|]. intros _ H.
  assert (x = o) by (apply H; left; reflexivity). subst x.
  cbn [sorted_set fold_right]. fold (sorted_set r). destruct r as [|y r'].
  - reflexivity.
  - rewrite IH; [|discriminate|intros z Hz; apply H; right; exact Hz]. cbn [ins_sorted]. rewrite lg_eqb_refl. reflexivity.
Qed.

(* exactly one distinct value *)
Theorem single_value_iff metas o : single_value metas = Some o <-> metas <> [] /\ forall x, In x metas -> x = o.
Proof.
  unfold single_value, field_value. cbn [fst snd].
  destruct (Nat.ltb 1 (length metas)) eqn:El.
  - split.
    + intros H. split; [intros ->; discriminate|].
      intros x Hx. apply (sorted_set_in x) in Hx.
      destruct (sorted_set metas) as [|a [|b r]]; try discriminate. inversion H; subst.
      destruct Hx as [Hx|[]]; auto.
    + intros [Hn Ha]. rewrite (sorted_set_all_equal o metas Hn Ha). reflexivity.
  - apply Nat.ltb_ge in El. destruct metas as [|a [|b r]]; cbn in El; try lia.
    + split; [discriminate|]. intros [H _]; congruence.
    + split.
      * intros H; inversion H; subst. split; [discriminate|]. intros x [<-|[]]; reflexivity.
      * intros [_ H]. rewrite (H a); [reflexivity|left; reflexivity].
Qed.

(* ------------------------------------------------------------------ *)
(* the Language field *)

Definition field_diag (o : list N) (d : ldiag) : Prop :=
  match d with
  | DInvalidLanguage o' _ | DEncodingInField o' | DVariantNoEffect o' => o' = o
  | _ => False
  end.

Lemma field_language_empty cfg meta fr : (meta = None \/ meta = Some []) -> field_language cfg meta = Ok fr ->
  f_diags fr = [] /\ f_lang fr = None /\ f_entered fr = false.
Proof. intros [-> | ->]; cbn; intros H; inversion H; subst; cbn; auto. Qed.

(* the result of analysing a non-empty value, spelled out by cases *)
Lemma field_language_cases cfg c o0 fr : let o := c :: o0 in
  field_language cfg (Some o) = Ok fr ->
  exists d1 (src : option language),
    ((exists l, parse_language o = Ok l /\ d1 = [] /\ src = Some l) \/
     (parse_language o = Err LSyntax /\ exists l, get_language_for_name cfg o = Ok l /\ d1 = [DInvalidLanguage o (Some l)] /\ src = Some l) \/
     (parse_language o = Err LSyntax /\ get_language_for_name cfg o = Err LLookup /\ d1 = [DInvalidLanguage o None] /\ src = None)) /\
    match src with
    | None => fr = {| f_diags := d1; f_lang := None; f_entered := false |}
    | Some l =>
      let d2 := (if is_some (l_enc l) then [DEncodingInField o] else []) ++
                (if is_some (l_mod l) && negb (is_some (drop_euro (l_mod l))) then [DVariantNoEffect o] else []) in
      match fix_codes cfg l with
      | Ok (l', true) => fr = {| f_diags := d1 ++ d2 ++ [DInvalidLanguage o (Some (strip l'))]; f_lang := Some (strip l'); f_entered := true |}
      | Ok (l', false) => fr = {| f_diags := d1 ++ d2; f_lang := Some (strip l'); f_entered := true |}
      | Err _ => fr = {| f_diags := d1 ++ d2 ++ [DInvalidLanguage o None]; f_lang := None; f_entered := true |}
      | Crash _ => False
      end
    end.
Proof.
  intros o. unfold field_language. fold o.
  assert (Hstep : forall d1 l,
    (let '(l1, b1) := remove_encoding l in
     let '(l2, b2) := remove_nonlinguistic_modifier l1 in
     let d2 := (if b1 then [DEncodingInField o] else []) ++ (if b2 then [DVariantNoEffect o] else []) in
     match fix_codes cfg l2 with
     | Ok (l3, true) => Ok {| f_diags := d1 ++ d2 ++ [DInvalidLanguage o (Some l3)]; f_lang := Some l3; f_entered := true |}
     | Ok (l3, false) => Ok {| f_diags := d1 ++ d2; f_lang := Some l3; f_entered := true |}
     | Err _ => Ok {| f_diags := d1 ++ d2 ++ [DInvalidLanguage o None]; f_lang := None; f_entered := true |}
     | Crash c0 => Crash c0
     end) = (Ok fr : outcome field_result ling_err) ->
    let d2 := (if is_some (l_enc l) then [DEncodingInField o] else []) ++
              (if is_some (l_mod l) && negb (is_some (drop_euro (l_mod l))) then [DVariantNoEffect o] else []) in
    match fix_codes cfg l with
    | Ok (l', true) => fr = {| f_diags := d1 ++ d2 ++ [DInvalidLanguage o (Some (strip l'))]; f_lang := Some (strip l'); f_entered := true |}
    | Ok (l', false) => fr = {| f_diags := d1 ++ d2; f_lang := Some (strip l'); f_entered := true |}
    | Err _ => fr = {| f_diags := d1 ++ d2 ++ [DInvalidLanguage o None]; f_lang := None; f_entered := true |}
    | Crash _ => False
    end).
  { intros d1 l.
    assert (E2 : remove_nonlinguistic_modifier (fst (remove_encoding l)) =
                 (strip l, is_some (l_mod l) && negb (is_some (drop_euro (l_mod l))))).
    { unfold strip, remove_nonlinguistic_modifier, remove_encoding, drop_euro. cbn [fst l_lang l_terr l_enc l_mod].
      destruct (l_mod l) as [m|]; [destruct (lg_eqb m s_euro)|]; cbn; reflexivity. }
    unfold remove_encoding at 1. cbn [fst] in E2. unfold remove_encoding in E2. cbn [fst] in E2. rewrite E2.
    rewrite fix_codes_strip.
    destruct (fix_codes cfg l) as [[l' [|]]|e|k]; cbn zeta; intros H; inversion H; subst; auto.
  }
  destruct (parse_language o) as [l|e|k] eqn:Ep.
  - cbn [obind]. intros H. exists [], (Some l). split; [left; eauto|]. apply (Hstep [] l H).
  - rewrite (parse_err_syntax _ _ Ep) in *.
    destruct (get_language_for_name cfg o) as [l|[]|k] eqn:En; cbn [obind].
    + intros H. exists [DInvalidLanguage o (Some l)], (Some l). split; [right; left; eauto 10|]. apply (Hstep _ l H).
    + intros H. exists [DInvalidLanguage o None], None. split; [right; right; auto|]. inversion H; reflexivity.
    + discriminate.
  - exfalso. exact (parse_no_crash _ _ Ep).
Qed.

Lemma normalised_ok cfg l l' b : fix_codes cfg l = Ok (l', b) -> normalised cfg l = Some (strip l').
Proof. unfold normalised. intros ->. reflexivity. Qed.
Lemma normalised_err cfg l e : fix_codes cfg l = Err e -> normalised cfg l = None.
Proof. unfold normalised. intros ->. reflexivity. Qed.

Ltac disj_congr := solve [ congruence | left; disj_congr | right; disj_congr ].
Ltac in_small := cbn [In app] in *; repeat rewrite in_app_iff in *; cbn [In] in *.

Lemma in_enc_variant o (b1 b2 : bool) d :
  In d (if b1 then [DEncodingInField o] else []) \/ In d (if b2 then [DVariantNoEffect o] else []) ->
  d = DEncodingInField o \/ d = DVariantNoEffect o.
Proof. destruct b1, b2; cbn; intuition auto. Qed.

(* what the field analysis gives: the locale the value names, and its diagnostics *)
Lemma field_language_spec cfg c o0 fr : let o := c :: o0 in
  field_language cfg (Some o) = Ok fr ->
  f_lang fr = field_locale cfg o /\
  (f_lang fr <> None -> f_entered fr = true) /\
  Forall (field_diag o) (f_diags fr) /\
  ((exists k, In (DInvalidLanguage o k) (f_diags fr)) <-> ~ canonical cfg o) /\
  (forall k, In (DInvalidLanguage o (Some k)) (f_diags fr) <->
     (parse_language o = Err LSyntax /\ get_language_for_name cfg o = Ok k) \/
     (exists l l', (parse_language o = Ok l \/ (parse_language o = Err LSyntax /\ get_language_for_name cfg o = Ok l)) /\
                   fix_codes cfg l = Ok (l', true) /\ k = strip l')).
Proof.
  intros o H. destruct (field_language_cases cfg c o0 fr H) as (d1 & src & Hsrc & Hfr). fold o in Hsrc, Hfr.
  unfold field_locale, canonical.
  destruct Hsrc as [(l & Ep & -> & ->)|[(Ep & l & En & -> & ->)|(Ep & En & -> & ->)]].
  - (* a locale name *)
    rewrite Ep. cbn zeta in Hfr.
    destruct (fix_codes cfg l) as [[l' [|]]|e|k] eqn:Ef; [| | |contradiction]; subst fr; cbn [f_lang f_entered f_diags].
    + rewrite (normalised_ok _ _ _ _ Ef). split; [reflexivity|]. split; [reflexivity|]. split; [|split].
      * apply Forall_forall. intros d Hd. in_small. destruct Hd as [Hd|[Hd|[]]]; [|subst d; reflexivity].
        apply in_enc_variant in Hd. destruct Hd as [-> | ->]; reflexivity.
      * split; [|intros _; eexists; in_small; eauto].
        intros _ (l0 & l0' & E0 & E1). try rewrite Ep in E0; inversion E0; subst. congruence.
      * intros k. in_small. split.
        -- intros [Hd|[Hd|[]]]; [apply in_enc_variant in Hd; destruct Hd; discriminate|].
           inversion Hd; subst. right. exists l, l'. auto.
        -- intros [[E0 E0']|(l0 & l0' & [E0|[E0 E0']] & E1 & ->)]; disj_congr.
    + rewrite (normalised_ok _ _ _ _ Ef). split; [reflexivity|]. split; [reflexivity|]. split; [|split].
      * apply Forall_forall. intros d Hd. in_small. apply in_enc_variant in Hd. destruct Hd as [-> | ->]; reflexivity.
      * split.
        -- intros (k & Hd). in_small. apply in_enc_variant in Hd. destruct Hd; discriminate.
        -- intros Hn. exfalso. apply Hn. eauto.
      * intros k. in_small. split.
        -- intros Hd. apply in_enc_variant in Hd. destruct Hd; discriminate.
        -- intros [[E0 E0']|(l0 & l0' & [E0|[E0 E0']] & E1 & ->)]; disj_congr.
    + rewrite (normalised_err _ _ _ Ef). split; [reflexivity|]. split; [congruence|]. split; [|split].
      * apply Forall_forall. intros d Hd. in_small. destruct Hd as [Hd|[Hd|[]]]; [|subst d; reflexivity].
        apply in_enc_variant in Hd. destruct Hd as [-> | ->]; reflexivity.
      * split; [|intros _; eexists; in_small; eauto].
        intros _ (l0 & l0' & E0 & E1). try rewrite Ep in E0; inversion E0; subst. congruence.
      * intros k. in_small. split.
        -- intros [Hd|[Hd|[]]]; [apply in_enc_variant in Hd; destruct Hd; discriminate|discriminate].
        -- intros [[E0 E0']|(l0 & l0' & [E0|[E0 E0']] & E1 & ->)]; disj_congr.
  - (* not a locale name, but a registered language name *)
    rewrite Ep, En. cbn zeta in Hfr.
    assert (Hnc : ~ (exists l0 l0', parse_language o = Ok l0 /\ fix_codes cfg l0 = Ok (l0', false))).
    { intros (l0 & l0' & E0 & _). congruence. }
    destruct (fix_codes cfg l) as [[l' [|]]|e|k] eqn:Ef; [| | |contradiction]; subst fr; cbn [f_lang f_entered f_diags].
    + rewrite (normalised_ok _ _ _ _ Ef). split; [reflexivity|]. split; [reflexivity|]. split; [|split].
      * apply Forall_forall. intros d Hd. in_small. destruct Hd as [Hd|[Hd|[Hd|[]]]]; try (subst d; reflexivity).
        apply in_enc_variant in Hd. destruct Hd as [-> | ->]; reflexivity.
      * split; [intros _ (l0 & l0' & E0 & _); congruence|]. intros _. eexists; in_small; eauto.
      * intros k. in_small. split.
        -- intros [Hd|[Hd|[Hd|[]]]].
           ++ inversion Hd; subst. auto.
           ++ apply in_enc_variant in Hd. destruct Hd; discriminate.
           ++ inversion Hd; subst. right. exists l, l'. auto.
        -- intros [[E0 E0']|(l0 & l0' & [E0|[E0 E0']] & E1 & ->)]; disj_congr.
    + rewrite (normalised_ok _ _ _ _ Ef). split; [reflexivity|]. split; [reflexivity|]. split; [|split].
      * apply Forall_forall. intros d Hd. in_small. destruct Hd as [Hd|Hd]; [subst d; reflexivity|].
        apply in_enc_variant in Hd. destruct Hd as [-> | ->]; reflexivity.
      * split; [intros _ (l0 & l0' & E0 & _); congruence|]. intros _. eexists; in_small; eauto.
      * intros k. in_small. split.
        -- intros [Hd|Hd].
           ++ inversion Hd; subst. auto.
           ++ apply in_enc_variant in Hd. destruct Hd; discriminate.
        -- intros [[E0 E0']|(l0 & l0' & [E0|[E0 E0']] & E1 & ->)]; disj_congr.
    + rewrite (normalised_err _ _ _ Ef). split; [reflexivity|]. split; [congruence|]. split; [|split].
      * apply Forall_forall. intros d Hd. in_small. destruct Hd as [Hd|[Hd|[Hd|[]]]]; try (subst d; reflexivity).
        apply in_enc_variant in Hd. destruct Hd as [-> | ->]; reflexivity.
      * split; [intros _ (l0 & l0' & E0 & _); congruence|]. intros _. eexists; in_small; eauto.
      * intros k. in_small. split.
        -- intros [Hd|[Hd|[Hd|[]]]].
           ++ inversion Hd; subst. auto.
           ++ apply in_enc_variant in Hd. destruct Hd; discriminate.
           ++ discriminate.
        -- intros [[E0 E0']|(l0 & l0' & [E0|[E0 E0']] & E1 & ->)]; disj_congr.
  - (* neither *)
    rewrite Ep, En. subst fr. cbn [f_lang f_entered f_diags].
    split; [reflexivity|]. split; [congruence|]. split; [|split].
    + constructor; [reflexivity|constructor].
    + split; [|intros _; eexists; left; reflexivity]. intros _ (l0 & l0' & E0 & _). congruence.
    + intros k. cbn [In]. split.
      * intros [Hd|[]]. discriminate.
      * intros [[E0 E0']|(l0 & l0' & [E0|[E0 E0']] & E1 & ->)]; disj_congr.
Qed.

(* ------------------------------------------------------------------ *)
(* the remaining phases *)

Definition dropped (path : list N) (q : bool) (fr : field_result) : bool :=
  f_entered fr && match f_lang fr with Some m => negb q && path_names path m | None => false end.

Lemma libreoffice_drop_spec path ext fr :
  libreoffice_drop path ext fr =
  match ext with Some (l, src, q) => if dropped path q fr then None else Some (l, src) | None => None end.
Proof. destruct ext as [[[l src] q]|]; reflexivity. Qed.

Lemma merge_field_spec ext ml d2 cur : merge_field ext ml = (d2, cur) ->
  (forall d, In d d2 <-> exists l src m, d = DDisparity l src m SrcLanguageField /\ ext = Some (l, src) /\ ml = Some m /\ l <> m) /\
  cur = match ext with Some x => Some x | None => option_map (fun m => (m, SrcLanguageField)) ml end.
Proof.
  unfold merge_field. destruct ml as [m|].
  - destruct ext as [[l src]|].
    + destruct (lang_eqb l m) eqn:E; cbn [negb]; intros H; inversion H; subst; split; try reflexivity.
      * apply lang_eqb_spec in E. subst m. intros d. split; [intros []|]. intros (l0 & s0 & m0 & _ & H1 & H2 & H3).
        inversion H1; inversion H2; subst. congruence.
      * intros d. cbn [In]. split.
        -- intros [<-|[]]. exists l, src, m. repeat split; auto. intros ->.
           rewrite (proj2 (lang_eqb_spec m m) eq_refl) in E. discriminate.
        -- intros (l0 & s0 & m0 & -> & H1 & H2 & _). inversion H1; inversion H2; subst. auto.
    + intros H; inversion H; subst. split; [|reflexivity].
      intros d. split; [intros []|]. intros (l0 & s0 & m0 & _ & H1 & _). discriminate.
  - destruct ext as [x|]; intros H; inversion H; subst; (split; [|reflexivity]);
      intros d; (split; [intros []|]); intros (l0 & s0 & m0 & _ & _ & H1 & _); discriminate.
Qed.

Definition poedit_diag (d : ldiag) : Prop :=
  match d with
  | DDupPoedit _ | DUnknownPoedit _ => True
  | DDisparity _ _ _ SrcPoedit => True
  | _ => False
  end.

Ltac dcur := match goal with |- ?c = _ => destruct c as [[? ?]|]; reflexivity end.
Lemma poedit_phase_spec cfg pls pcs cur d3 cur2 : poedit_phase cfg pls pcs cur = Ok (d3, cur2) ->
  Forall poedit_diag d3 /\
  cur2 = match cur with Some x => Some x | None => option_map (fun l => (l, SrcPoedit)) (poedit_language cfg pls pcs) end.
Proof.
  unfold poedit_phase, poedit_language, distinct.
  remember (if Nat.ltb 1 (length pls) then sorted_set pls else pls) as pls' eqn:E1.
  remember (if Nat.ltb 1 (length pcs) then sorted_set pcs else pcs) as pcs' eqn:E2.
  remember ((if Nat.ltb 1 (length pls) then [DDupPoedit false] else []) ++ (if Nat.ltb 1 (length pcs) then [DDupPoedit true] else [])) as d0 eqn:E0.
  assert (Hd0 : Forall poedit_diag d0).
  { subst d0. destruct (Nat.ltb 1 (length pls)), (Nat.ltb 1 (length pcs)); repeat constructor. }
  clear E0 E1 E2.
  destruct pls' as [|name [|x r]].
  - intros H; inversion H; subst. split; [auto|]. dcur.
  - destruct (Nat.leb (length pcs') 1).
    + destruct (get_language_for_name cfg name) as [pl|e|k].
      * destruct cur as [[l src]|]; intros H; inversion H; subst; [|auto].
        split; [|reflexivity]. apply Forall_app. split; [auto|].
        destruct (negb (lg_eqb (l_lang l) (l_lang pl))); repeat constructor.
      * intros H; inversion H; subst. split; [|dcur].
        apply Forall_app. split; [auto|]. repeat constructor.
      * discriminate.
    + intros H; inversion H; subst. split; [auto|]. dcur.
  - intros H; inversion H; subst. split; [auto|]. dcur.
Qed.

Definition final_diag (d : ldiag) : Prop :=
  match d with DNoLanguageField _ | DUnable => True | _ => False end.

Lemma final_diags_spec meta dd cur :
  Forall final_diag (final_diags meta dd cur) /\ (In DUnable (final_diags meta dd cur) <-> cur = None).
Proof.
  unfold final_diags.
  destruct ((match meta with None => true | Some [] => true | Some (_ :: _) => false end) && negb dd); destruct cur as [[l s]|]; cbn.
  - split; [repeat constructor|]. split; [intros [H|[]]; discriminate|discriminate].
  - split; [repeat constructor|]. split; auto.
  - split; [constructor|]. split; [intros []|discriminate].
  - split; [repeat constructor|]. split; auto.
Qed.

Lemma field_value_dups metas : Forall (fun d => d = DDupLanguage) (fst (fst (field_value metas))).
Proof. unfold field_value. cbn [fst]. destruct (Nat.ltb 1 (length metas)); repeat constructor. Qed.

(* a completed run of the non-template branch, phase by phase *)
Lemma check_language_decompose cfg opt path metas pls pcs ds lang :
  check_language cfg opt path metas pls pcs false = Ok (ds, lang) ->
  exists d0 fr d2 cur1 d3 cur2,
    Forall (fun d => d = DDupLanguage) d0 /\
    field_language cfg (single_value metas) = Ok fr /\
    merge_field (libreoffice_drop path (external_source cfg opt path) fr) (f_lang fr) = (d2, cur1) /\
    poedit_phase cfg pls pcs cur1 = Ok (d3, cur2) /\
    ds = d0 ++ f_diags fr ++ d2 ++ d3 ++ final_diags (single_value metas) (snd (field_value metas)) cur2 /\
    lang = option_map fst cur2.
Proof.
  unfold check_language, single_value. pose proof (field_value_dups metas) as Hd0.
  destruct (field_value metas) as [[d0 meta] dd]. cbn [fst snd] in *.
  rewrite external_language_spec; cbn [obind].
  destruct (field_language cfg meta) as [fr|e|k]; cbn [obind]; try discriminate.
  destruct (merge_field (libreoffice_drop path (external_source cfg opt path) fr) (f_lang fr)) as [d2 cur1] eqn:Em.
  destruct (poedit_phase cfg pls pcs cur1) as [[d3 cur2]|e|k] eqn:Epp; cbn [obind]; try discriminate.
  intros H; inversion H; subst. exists d0, fr, d2, cur1, d3, cur2. auto 10.
Qed.

Lemma field_language_single cfg metas fr : field_language cfg (single_value metas) = Ok fr ->
  f_lang fr = field_loc cfg metas /\
  (f_lang fr <> None -> f_entered fr = true) /\
  (forall d, In d (f_diags fr) -> match d with DInvalidLanguage _ _ | DEncodingInField _ | DVariantNoEffect _ => True | _ => False end).
Proof.
  unfold field_loc. destruct (single_value metas) as [[|c o0]|] eqn:Es.
  - intros H. destruct (field_language_empty cfg _ fr (or_intror eq_refl) H) as (-> & -> & _).
    split; [reflexivity|]. split; [congruence|]. intros d [].
  - intros H. destruct (field_language_spec cfg c o0 fr H) as (H1 & H2 & H3 & _).
    split; [exact H1|]. split; [exact H2|]. intros d Hd. rewrite Forall_forall in H3. specialize (H3 d Hd).
    destruct d; cbn in H3; auto.
  - intros H. destruct (field_language_empty cfg _ fr (or_introl eq_refl) H) as (-> & -> & _).
    split; [reflexivity|]. split; [congruence|]. intros d [].
Qed.

(* ------------------------------------------------------------------ *)
(* language-disparity against the Language field *)
Theorem disparity_iff cfg opt path metas pls pcs ds lang :
  check_language cfg opt path metas pls pcs false = Ok (ds, lang) ->
  forall l src m,
  In (DDisparity l src m SrcLanguageField) ds <->
    exists q, external_source cfg opt path = Some (l, src, q) /\
      field_loc cfg metas = Some m /\ l <> m /\
      (q = false -> path_names path m = false).
Proof.
  intros H l src m.
  destruct (check_language_decompose _ _ _ _ _ _ _ _ H) as (d0 & fr & d2 & cur1 & d3 & cur2 & Hd0 & Hf & Hm & Hp & -> & _).
  destruct (field_language_single _ _ _ Hf) as (Hfl & Hent & Hfd).
  destruct (merge_field_spec _ _ _ _ Hm) as [Hd2 _].
  destruct (poedit_phase_spec _ _ _ _ _ _ Hp) as [Hd3 _].
  destruct (final_diags_spec (single_value metas) (snd (field_value metas)) cur2) as [Hfin _].
  rewrite Forall_forall in Hd0, Hd3, Hfin.
  rewrite !in_app_iff. split.
  - intros [Hi|[Hi|[Hi|[Hi|Hi]]]].
    + apply Hd0 in Hi. discriminate.
    + apply Hfd in Hi. contradiction.
    + apply Hd2 in Hi. destruct Hi as (l0 & s0 & m0 & E & Hext & Hml & Hne). inversion E; subst l0 s0 m0.
      rewrite libreoffice_drop_spec in Hext.
      destruct (external_source cfg opt path) as [[[l1 s1] q]|]; [|discriminate].
      destruct (dropped path q fr) eqn:Ed; [discriminate|]. inversion Hext; subst l1 s1.
      exists q. rewrite <- Hfl. repeat split; auto.
      intros ->. unfold dropped in Ed. rewrite Hent in Ed by congruence. rewrite Hml in Ed. cbn in Ed. exact Ed.
    + apply Hd3 in Hi. contradiction.
    + apply Hfin in Hi. contradiction.
  - intros (q & Hext & Hm' & Hne & Hq). right; right; left. apply Hd2.
    exists l, src, m. rewrite <- Hfl in Hm'. repeat split; auto.
    rewrite libreoffice_drop_spec, Hext.
    assert (Ed : dropped path q fr = false).
    { unfold dropped. rewrite Hm'. destruct q; cbn [negb andb]; [apply andb_false_r|]. rewrite (Hq eq_refl). apply andb_false_r. }
    rewrite Ed. reflexivity.
Qed.

(* invalid-language: iff the (single, non-empty) value is not a locale name with known, canonical codes *)
Theorem invalid_language_iff cfg opt path metas pls pcs ds lang :
  check_language cfg opt path metas pls pcs false = Ok (ds, lang) ->
  forall o, (exists k, In (DInvalidLanguage o k) ds) <-> single_value metas = Some o /\ o <> [] /\ ~ canonical cfg o.
Proof.
  intros H o.
  destruct (check_language_decompose _ _ _ _ _ _ _ _ H) as (d0 & fr & d2 & cur1 & d3 & cur2 & Hd0 & Hf & Hm & Hp & -> & _).
  destruct (merge_field_spec _ _ _ _ Hm) as [Hd2 _].
  destruct (poedit_phase_spec _ _ _ _ _ _ Hp) as [Hd3 _].
  destruct (final_diags_spec (single_value metas) (snd (field_value metas)) cur2) as [Hfin _].
  rewrite Forall_forall in Hd0, Hd3, Hfin.
  assert (Hred : forall k, In (DInvalidLanguage o k) (d0 ++ f_diags fr ++ d2 ++ d3 ++ final_diags (single_value metas) (snd (field_value metas)) cur2)
                   <-> In (DInvalidLanguage o k) (f_diags fr)).
  { intros k. rewrite !in_app_iff. split; [|auto].
    intros [Hi|[Hi|[Hi|[Hi|Hi]]]]; auto.
    - apply Hd0 in Hi. discriminate.
    - apply Hd2 in Hi. destruct Hi as (? & ? & ? & E & _). discriminate.
    - apply Hd3 in Hi. contradiction.
    - apply Hfin in Hi. contradiction. }
  destruct (single_value metas) as [[|c o0]|] eqn:Es.
  - destruct (field_language_empty cfg _ fr (or_intror eq_refl) Hf) as (E & _). split.
    + intros (k & Hk). apply Hred in Hk. rewrite E in Hk. destruct Hk.
    + intros (E1 & E2 & _). inversion E1; subst. congruence.
  - destruct (field_language_spec cfg c o0 fr Hf) as (_ & _ & H3 & H4 & _). split.
    + intros (k & Hk). apply Hred in Hk. rewrite Forall_forall in H3. pose proof (H3 _ Hk) as E. cbn in E. subst o.
      split; [reflexivity|]. split; [discriminate|]. apply H4. eauto.
    + intros (E1 & _ & Hn). inversion E1; subst o. apply H4 in Hn. destruct Hn as (k & Hk). exists k. apply Hred. exact Hk.
  - destruct (field_language_empty cfg _ fr (or_introl eq_refl) Hf) as (E & _). split.
    + intros (k & Hk). apply Hred in Hk. rewrite E in Hk. destruct Hk.
    + intros (E1 & _). discriminate.
Qed.

(* the corrections offered *)
Theorem invalid_language_correction cfg opt path metas pls pcs ds lang :
  check_language cfg opt path metas pls pcs false = Ok (ds, lang) ->
  forall o k, In (DInvalidLanguage o (Some k)) ds <->
    single_value metas = Some o /\ o <> [] /\
    ((parse_language o = Err LSyntax /\ get_language_for_name cfg o = Ok k) \/
     (exists l l', (parse_language o = Ok l \/ (parse_language o = Err LSyntax /\ get_language_for_name cfg o = Ok l)) /\
                   fix_codes cfg l = Ok (l', true) /\ k = strip l')).
Proof.
  intros H o k.
  destruct (check_language_decompose _ _ _ _ _ _ _ _ H) as (d0 & fr & d2 & cur1 & d3 & cur2 & Hd0 & Hf & Hm & Hp & -> & _).
  destruct (merge_field_spec _ _ _ _ Hm) as [Hd2 _].
  destruct (poedit_phase_spec _ _ _ _ _ _ Hp) as [Hd3 _].
  destruct (final_diags_spec (single_value metas) (snd (field_value metas)) cur2) as [Hfin _].
  rewrite Forall_forall in Hd0, Hd3, Hfin.
  assert (Hred : In (DInvalidLanguage o (Some k)) (d0 ++ f_diags fr ++ d2 ++ d3 ++ final_diags (single_value metas) (snd (field_value metas)) cur2)
                   <-> In (DInvalidLanguage o (Some k)) (f_diags fr)).
  { rewrite !in_app_iff. split; [|auto].
    intros [Hi|[Hi|[Hi|[Hi|Hi]]]]; auto.
    - apply Hd0 in Hi. discriminate.
    - apply Hd2 in Hi. destruct Hi as (? & ? & ? & E & _). discriminate.
    - apply Hd3 in Hi. contradiction.
    - apply Hfin in Hi. contradiction. }
  rewrite Hred. clear Hred.
  destruct (single_value metas) as [[|c o0]|] eqn:Es.
  - destruct (field_language_empty cfg _ fr (or_intror eq_refl) Hf) as (E & _). rewrite E. split; [intros []|].
    intros (E1 & E2 & _). inversion E1; subst. congruence.
  - destruct (field_language_spec cfg c o0 fr Hf) as (_ & _ & H3 & _ & H5). split.
    + intros Hk. rewrite Forall_forall in H3. pose proof (H3 _ Hk) as E. cbn in E. subst o.
      split; [reflexivity|]. split; [discriminate|]. apply H5. exact Hk.
    + intros (E1 & _ & Hc). inversion E1; subst o. apply H5. exact Hc.
  - destruct (field_language_empty cfg _ fr (or_introl eq_refl) Hf) as (E & _). rewrite E. split; [intros []|].
    intros (E1 & _). discriminate.
Qed.

(* ------------------------------------------------------------------ *)
(* the resulting language, and unable-to-determine-language *)

(* the language from outside the header that is retained: the base name is discounted when the language of the
   header field is a path component (LibreOffice layout) *)
Definition effective_external (cfg : ling_cfg) (opt : option language) (path : list N) (fr : field_result) : option language :=
  match external_source cfg opt path with
  | Some (l, _, q) => if dropped path q fr then None else Some l
  | None => None
  end.

Theorem language_sources cfg opt path metas pls pcs ds lang :
  check_language cfg opt path metas pls pcs false = Ok (ds, lang) ->
  exists fr, field_language cfg (single_value metas) = Ok fr /\
    lang = match effective_external cfg opt path fr with
           | Some l => Some l
           | None => match field_loc cfg metas with
                     | Some m => Some m
                     | None => poedit_language cfg pls pcs
                     end
           end /\
    (In DUnable ds <-> lang = None).
Proof.
  intros H.
  destruct (check_language_decompose _ _ _ _ _ _ _ _ H) as (d0 & fr & d2 & cur1 & d3 & cur2 & Hd0 & Hf & Hm & Hp & -> & ->).
  destruct (field_language_single _ _ _ Hf) as (Hfl & _ & Hfd).
  destruct (merge_field_spec _ _ _ _ Hm) as [Hd2 Hc1].
  destruct (poedit_phase_spec _ _ _ _ _ _ Hp) as [Hd3 Hc2].
  destruct (final_diags_spec (single_value metas) (snd (field_value metas)) cur2) as [Hfin Hun].
  rewrite Forall_forall in Hd0, Hd3, Hfin.
  exists fr. split; [exact Hf|]. split.
  - subst cur2 cur1. rewrite libreoffice_drop_spec. unfold effective_external. rewrite <- Hfl.
    destruct (external_source cfg opt path) as [[[l s] q]|].
    + destruct (dropped path q fr); [|reflexivity].
      destruct (f_lang fr); cbn; [reflexivity|]. destruct (poedit_language cfg pls pcs); reflexivity.
    + destruct (f_lang fr); cbn; [reflexivity|]. destruct (poedit_language cfg pls pcs); reflexivity.
  - rewrite !in_app_iff. split.
    + intros [Hi|[Hi|[Hi|[Hi|Hi]]]].
      * apply Hd0 in Hi. discriminate.
      * apply Hfd in Hi. contradiction.
      * apply Hd2 in Hi. destruct Hi as (? & ? & ? & E & _). discriminate.
      * apply Hd3 in Hi. contradiction.
      * apply Hun in Hi. subst cur2. rewrite Hi. reflexivity.
    + intros E. right; right; right; right. apply Hun. destruct cur2; [discriminate|reflexivity].
Qed.

(* unable-to-determine-language iff no source names a language *)
Theorem unable_iff cfg opt path metas pls pcs ds lang :
  check_language cfg opt path metas pls pcs false = Ok (ds, lang) ->
  (In DUnable ds <->
     external_source cfg opt path = None /\ field_loc cfg metas = None /\ poedit_language cfg pls pcs = None).
Proof.
  intros H. destruct (language_sources _ _ _ _ _ _ _ _ H) as (fr & Hf & Hl & Hu).
  destruct (field_language_single _ _ _ Hf) as (Hfl & _ & _).
  rewrite Hu, Hl. unfold effective_external.
  destruct (external_source cfg opt path) as [[[l s] q]|].
  - destruct (dropped path q fr) eqn:Ed.
    + destruct (field_loc cfg metas) as [m|] eqn:Em.
      * split; [discriminate|]. intros (E & _); discriminate.
      * exfalso. unfold dropped in Ed. rewrite Hfl, andb_false_r in Ed. discriminate.
    + split; [discriminate|]. intros (E & _); discriminate.
  - destruct (field_loc cfg metas) as [m|].
    + split; [discriminate|]. intros (_ & E & _); discriminate.
    + split; [auto|]. intros (_ & _ & E); exact E.
Qed.

(* nothing is guessed: the resulting language is the one named by one of the sources *)
Theorem language_is_named cfg opt path metas pls pcs ds lang l :
  check_language cfg opt path metas pls pcs false = Ok (ds, lang) -> lang = Some l ->
  (exists src q, external_source cfg opt path = Some (l, src, q)) \/ field_loc cfg metas = Some l \/ poedit_language cfg pls pcs = Some l.
Proof.
  intros H E. destruct (language_sources _ _ _ _ _ _ _ _ H) as (fr & _ & Hl & _). rewrite Hl in E. clear Hl.
  unfold effective_external in E.
  destruct (external_source cfg opt path) as [[[l0 s] q]|].
  - destruct (dropped path q fr).
    + destruct (field_loc cfg metas); [inversion E; auto|auto].
    + inversion E; subst. left. eauto.
  - destruct (field_loc cfg metas); [inversion E; auto|auto].
Qed.

(* templates: only the presence of the field is looked at *)
Theorem template_silent cfg opt path metas pls pcs :
  exists ds, check_language cfg opt path metas pls pcs true = Ok (ds, None) /\
    forall d, In d ds -> d = DDupLanguage \/ d = DNoLanguageField None.
Proof.
  unfold check_language. pose proof (field_value_dups metas) as Hd0.
  destruct (field_value metas) as [[d0 meta] dd]. cbn [fst] in Hd0. eexists. split; [reflexivity|].
  intros d Hd. apply in_app_iff in Hd. rewrite Forall_forall in Hd0. destruct Hd as [Hd|Hd]; [left; auto|].
  destruct meta; [destruct Hd|]. destruct Hd as [<-|[]]. auto.
Qed.

(* the ways check_language can fail *)
Theorem check_language_failures cfg opt path metas pls pcs tmpl :
  (forall e, check_language cfg opt path metas pls pcs tmpl <> Err e).
Proof.
  intros e. unfold check_language. destruct (field_value metas) as [[d0 meta] dd].
  destruct tmpl; [discriminate|].
  rewrite external_language_spec; cbn [obind].
  assert (Hf : forall e0, field_language cfg meta <> Err e0).
  { intros e0. unfold field_language. destruct meta as [[|c o0]|]; try discriminate.
    destruct (parse_language (c :: o0)) as [l|e1|k]; cbn [obind].
    - destruct (remove_encoding l) as [l1 b1]. destruct (remove_nonlinguistic_modifier l1) as [l2 b2].
      destruct (fix_codes cfg l2) as [[l3 [|]]|e2|k]; discriminate.
    - destruct (get_language_for_name cfg (c :: o0)) as [l|e2|k]; cbn [obind]; try discriminate.
      destruct (remove_encoding l) as [l1 b1]. destruct (remove_nonlinguistic_modifier l1) as [l2 b2].
      destruct (fix_codes cfg l2) as [[l3 [|]]|e3|k]; discriminate.
    - discriminate. }
  destruct (field_language cfg meta) as [fr|e0|k] eqn:Ef; cbn [obind]; [|exfalso; exact (Hf _ eq_refl)|discriminate].
  destruct (merge_field (libreoffice_drop path (external_source cfg opt path) fr) (f_lang fr)) as [d2 cur1].
  assert (Hp : forall e0, poedit_phase cfg pls pcs cur1 <> Err e0).
  { intros e0. unfold poedit_phase.
    destruct (if Nat.ltb 1 (length pls) then sorted_set pls else pls) as [|name [|x r]]; try discriminate.
    destruct (Nat.leb _ 1); [|discriminate].
    destruct (get_language_for_name cfg name) as [pl|e1|k]; [destruct cur1 as [[l s]|]| |]; discriminate. }
  destruct (poedit_phase cfg pls pcs cur1) as [[d3 cur2]|e0|k] eqn:Ep; cbn [obind]; [discriminate|exfalso; exact (Hp _ eq_refl)|discriminate].
Qed.

(* cli.main(): -l names the locale normalised in the same way *)
Theorem cli_language_spec cfg s l : cli_language cfg s = Ok l <-> locale_of cfg s = Some l.
Proof.
  unfold cli_language, locale_of, normalised.
  destruct (parse_language s) as [l0|e|k]; cbn [obind]; [|split; discriminate|split; discriminate].
  destruct (fix_codes cfg l0) as [[l1 b]|e|k]; cbn [obind fst]; [|split; discriminate|split; discriminate].
  rewrite strip_eq. split; intros H; inversion H; reflexivity.
Qed.

(* ... and `invalid language` (ap.error) is the only other outcome *)
Theorem cli_language_rejects cfg s : (exists e, cli_language cfg s = Err e) <-> locale_of cfg s = None.
Proof.
  unfold cli_language, locale_of, normalised.
  destruct (parse_language s) as [l0|e0|k] eqn:Ep; cbn [obind].
  - destruct (fix_codes cfg l0) as [[l1 b]|e1|k] eqn:Ef; cbn [obind fst].
    + split; [intros [e H]; discriminate|discriminate].
    + split; [reflexivity|eauto].
    + exfalso. exact (fix_codes_no_crash _ _ _ Ef).
  - split; [reflexivity|eauto].
  - exfalso. exact (parse_no_crash _ _ Ep).
Qed.

(* Source tie, class CodomainEvaluator (and BaseEvaluator as used by it): see Proofs/IntExprSrc.v *)
From Coq Require Import List ZArith Bool Lia ZifyBool.
From I18n Require Import Lib.Outcome Lib.PySrc Model.IntExpr Generated.IntExprSrc Proofs.IntExprSrc.
Import ListNotations.
Local Open Scope Z_scope.

(* ================================================================== *)
(* class CodomainEvaluator                                              *)

Lemma src_cd_add_eq M x0 x1 y0 y1 : src_cd_add M (x0, x1) (y0, y1) = of_cres (cd_bin M Add x0 x1 y0 y1).
Proof. unfold src_cd_add, cd_bin. cbn [fst snd]. zb. Qed.
Lemma src_cd_sub_eq M x0 x1 y0 y1 : src_cd_sub (x0, x1) (y0, y1) = of_cres (cd_bin M Sub x0 x1 y0 y1).
Proof. unfold src_cd_sub, cd_bin. cbn [fst snd]. zb. Qed.
Lemma src_cd_mult_eq M x0 x1 y0 y1 : src_cd_mult M (x0, x1) (y0, y1) = of_cres (cd_bin M Mult x0 x1 y0 y1).
Proof. unfold src_cd_mult, cd_bin. cbn [fst snd]. zb. Qed.

(* the ZeroDivisionError branches the translation of // introduces are dead behind `assert y[1] > 0` and max(y[0], 1) *)
Lemma src_cd_div_eq M x0 x1 y0 y1 : src_cd_div (x0, x1) (y0, y1) = of_cres (cd_bin M Div x0 x1 y0 y1).
Proof.
  unfold src_cd_div, cd_bin, zpair_eqb, pair_eqb. cbn [fst snd]. zb.
Qed.
Lemma src_cd_mod_eq M x0 x1 y0 y1 : src_cd_mod (x0, x1) (y0, y1) = of_cres (cd_bin M Mod x0 x1 y0 y1).
Proof.
  unfold src_cd_mod, cd_bin, zpair_eqb, pair_eqb. cbn [fst snd]. zb.
Qed.

Lemma src_cd_not_eq x0 x1 : src_cd_not (x0, x1) = of_cres (cd_not x0 x1).
Proof.
  unfold src_cd_not, cd_not, zpair_eqb, pair_eqb. cbn [fst snd]. zb.
Qed.

Lemma src_cd_gte_eq x0 x1 y0 y1 : src_cd_gte (x0, x1) (y0, y1) = of_cres (cd_cmp CGe x0 x1 y0 y1).
Proof. reflexivity. Qed.
Lemma src_cd_gt_eq x0 x1 y0 y1 : src_cd_gt (x0, x1) (y0, y1) = of_cres (cd_cmp CGt x0 x1 y0 y1).
Proof. reflexivity. Qed.
Lemma src_cd_lte_eq x0 x1 y0 y1 : src_cd_lte (x0, x1) (y0, y1) = of_cres (cd_cmp CLe x0 x1 y0 y1).
Proof. reflexivity. Qed.
Lemma src_cd_lt_eq x0 x1 y0 y1 : src_cd_lt (x0, x1) (y0, y1) = of_cres (cd_cmp CLt x0 x1 y0 y1).
Proof. reflexivity. Qed.
Lemma src_cd_eq_eq x0 x1 y0 y1 : src_cd_eq (x0, x1) (y0, y1) = of_cres (cd_cmp CEq x0 x1 y0 y1).
Proof.
  unfold src_cd_eq, cd_cmp. cbn [fst snd].
  destruct ((x0 =? x1) && (x1 =? y0) && (y0 =? y1)); [reflexivity|].
  destruct ((x0 <=? y0) && (y0 <=? x1)); [reflexivity|].
  destruct ((y0 <=? x0) && (x0 <=? y1)); reflexivity.
Qed.
Lemma src_cd_noteq_eq x0 x1 y0 y1 : src_cd_noteq (x0, x1) (y0, y1) = of_cres (cd_cmp CNe x0 x1 y0 y1).
Proof.
  unfold src_cd_noteq, cd_cmp. cbn [fst snd].
  destruct ((x0 =? x1) && (x1 =? y0) && (y0 =? y1)); [reflexivity|].
  destruct ((x0 <=? y0) && (y0 <=? x1)); [reflexivity|].
  destruct ((y0 <=? x0) && (x0 <=? y1)); reflexivity.
Qed.

(* The loops.  The source visits the arguments one by one inside the loop; the model takes the list of
   results of visiting all of them (visiting has no effect other than its result, and the loop stops using
   the list at the first return).  For every visit function f and every argument list: *)
Lemma src_cd_and_loop_eq {A} (f : A -> cres) l : forall r0 r1,
  src_cd_and_loop (fun a => of_cres (f a)) (r0, r1) l = of_cres (cd_and_loop r0 r1 (map f l)).
Proof.
  induction l as [|a l IH]; intros r0 r1; [reflexivity|].
  cbn [src_cd_and_loop cd_and_loop map]. unfold zpair_eqb, pair_eqb. cbn [fst snd].
  destruct ((r0 =? 0) && (r1 =? 0)); [reflexivity|].
  destruct (f a) as [|x0 x1|]; cbn [of_cres sbind fst snd].
  - destruct ((r0 =? 0) && (r1 =? 1)); reflexivity.
  - destruct ((x0 =? 0) && (x1 =? 0)); [reflexivity|].
    destruct (x0 >=? 1); [apply IH|].
    destruct (x0 =? 0); cbn [negb]; [|reflexivity].
    destruct (x1 >? 0); cbn [negb]; [|reflexivity]. apply IH.
  - reflexivity.
Qed.
Lemma src_cd_and_eq {A} (f : A -> cres) l :
  src_cd_and (fun a => of_cres (f a)) l = of_cres (cd_and_loop 1 1 (map f l)).
Proof. apply src_cd_and_loop_eq. Qed.

Lemma src_cd_or_loop_eq {A} (f : A -> cres) l : forall r0 r1,
  src_cd_or_loop (fun a => of_cres (f a)) (r0, r1) l = of_cres (cd_or_loop r0 r1 (map f l)).
Proof.
  induction l as [|a l IH]; intros r0 r1; [reflexivity|].
  cbn [src_cd_or_loop cd_or_loop map]. unfold zpair_eqb, pair_eqb. cbn [fst snd].
  destruct ((r0 =? 1) && (r1 =? 1)); [reflexivity|].
  destruct (f a) as [|x0 x1|]; cbn [of_cres sbind fst snd].
  - destruct ((r0 =? 0) && (r1 =? 1)); reflexivity.
  - destruct (x0 >=? 1); [reflexivity|].
    destruct ((x0 =? 0) && (x1 =? 0)); [apply IH|].
    destruct (x0 =? 0); cbn [negb]; [|reflexivity].
    destruct (x1 >? 0); cbn [negb]; [|reflexivity]. apply IH.
  - reflexivity.
Qed.
Lemma src_cd_or_eq {A} (f : A -> cres) l :
  src_cd_or (fun a => of_cres (f a)) l = of_cres (cd_or_loop 0 0 (map f l)).
Proof. apply src_cd_or_loop_eq. Qed.

(* the source visits body / orelse only when needed, the model always: same result *)
Lemma src_cd_ifexp_eq {A} (f : A -> cres) c a b :
  src_cd_ifexp (fun a => of_cres (f a)) c a b = of_cres (cd_if (f c) (f a) (f b)).
Proof.
  unfold src_cd_ifexp, cd_if.
  destruct (f c) as [|t0 t1|]; cbn [of_cres sbind fst snd]; try reflexivity.
  destruct (t1 >? 0), (t0 =? 0), (f a) as [|a0 a1|], (f b) as [|b0 b1|]; reflexivity.
Qed.

Lemma src_cd_num_eq M z : src_cd_num M z = of_cres (codomain M (Num z)).
Proof. unfold src_cd_num. cbn [codomain]. destruct ((z <? 0) || (z >=? M)); reflexivity. Qed.
Lemma src_cd_name_eq M : src_cd_name M = of_cres (codomain M Var).
Proof. reflexivity. Qed.

(* self._visit on an expression node = the model's analysis (on other nodes: never used below, any value) *)
Definition cd_of (M : Z) (nd : pynode) : cres :=
  match nd with NE e => codomain M e | _ => CAssert end.
Definition cd_vis (M : Z) (nd : pynode) : sres (Z * Z) := of_cres (cd_of M nd).
Definition cd_visit2 (M : Z) (nd : pynode) (x y : Z * Z) : sres (Z * Z) :=
  match nd with
  | NBin Add => src_cd_add M x y | NBin Sub => src_cd_sub x y | NBin Mult => src_cd_mult M x y
  | NBin Div => src_cd_div x y | NBin Mod => src_cd_mod x y
  | NCmp CGe => src_cd_gte x y | NCmp CGt => src_cd_gt x y | NCmp CLe => src_cd_lte x y
  | NCmp CLt => src_cd_lt x y | NCmp CEq => src_cd_eq x y | NCmp CNe => src_cd_noteq x y
  | _ => SRaise (XCrash CTypeError)
  end.
Definition cd_visit1 (nd : pynode) (x : Z * Z) : sres (Z * Z) :=
  match nd with NNot => src_cd_not x | _ => SRaise (XCrash CTypeError) end.
Definition cd_visitn (M : Z) (nd : pynode) (args : list pynode) : sres (Z * Z) :=
  match nd with
  | NAnd => src_cd_and (cd_vis M) args | NOr => src_cd_or (cd_vis M) args
  | _ => SRaise (XCrash CTypeError)
  end.

Lemma cd_step_bin M o a b :
  src_base_binop (cd_vis M) (cd_visit2 M) (NE a) (NE b) (NBin o) = of_cres (codomain M (Bin o a b)).
Proof.
  unfold src_base_binop, cd_vis. cbn [cd_of codomain].
  destruct (codomain M a) as [|x0 x1|]; cbn [cbind of_cres sbind]; try reflexivity.
  destruct (codomain M b) as [|y0 y1|]; cbn [cbind of_cres sbind]; try reflexivity.
  destruct o; cbn [cd_visit2].
  - apply src_cd_add_eq. - apply src_cd_sub_eq. - apply src_cd_mult_eq.
  - apply src_cd_div_eq. - apply src_cd_mod_eq.
Qed.

Lemma cd_step_cmp M o a b :
  src_base_compare (cd_vis M) (cd_visit2 M) [NE b] [NCmp o] (NE a) = of_cres (codomain M (Cmp o a b)).
Proof.
  unfold src_base_compare, cd_vis. cbn [length Z.of_nat Z.eqb Pos.eqb negb cd_of codomain].
  destruct (codomain M a) as [|x0 x1|]; cbn [cbind of_cres sbind]; try reflexivity.
  destruct (codomain M b) as [|y0 y1|]; cbn [cbind of_cres sbind]; try reflexivity.
  destruct o; cbn [cd_visit2].
  - apply src_cd_lt_eq. - apply src_cd_lte_eq. - apply src_cd_gt_eq.
  - apply src_cd_gte_eq. - apply src_cd_eq_eq. - apply src_cd_noteq_eq.
Qed.

Lemma cd_step_not M a :
  src_base_unaryop (cd_vis M) cd_visit1 (NE a) NNot = of_cres (codomain M (Not a)).
Proof.
  unfold src_base_unaryop, cd_vis. cbn [cd_of codomain].
  destruct (codomain M a) as [|x0 x1|]; cbn [cbind of_cres sbind cd_visit1]; try reflexivity.
  apply src_cd_not_eq.
Qed.

Lemma cd_step_and M a b :
  src_base_boolop (cd_visitn M) NAnd [NE a; NE b] = of_cres (codomain M (And a b)).
Proof. exact (src_cd_and_eq (cd_of M) [NE a; NE b]). Qed.
Lemma cd_step_or M a b :
  src_base_boolop (cd_visitn M) NOr [NE a; NE b] = of_cres (codomain M (Or a b)).
Proof. exact (src_cd_or_eq (cd_of M) [NE a; NE b]). Qed.
Lemma cd_step_if M c a b :
  src_cd_ifexp (cd_vis M) (NE c) (NE a) (NE b) = of_cres (codomain M (If c a b)).
Proof. exact (src_cd_ifexp_eq (cd_of M) (NE c) (NE a) (NE b)). Qed.


(* grouped for Props/C05.v *)
Lemma cd_tie_arith M x0 x1 y0 y1 :
  src_cd_add M (x0, x1) (y0, y1) = of_cres (cd_bin M Add x0 x1 y0 y1) /\
  src_cd_sub (x0, x1) (y0, y1) = of_cres (cd_bin M Sub x0 x1 y0 y1) /\
  src_cd_mult M (x0, x1) (y0, y1) = of_cres (cd_bin M Mult x0 x1 y0 y1) /\
  src_cd_div (x0, x1) (y0, y1) = of_cres (cd_bin M Div x0 x1 y0 y1) /\
  src_cd_mod (x0, x1) (y0, y1) = of_cres (cd_bin M Mod x0 x1 y0 y1).
Proof. repeat split; [apply src_cd_add_eq|apply src_cd_sub_eq|apply src_cd_mult_eq|apply src_cd_div_eq|apply src_cd_mod_eq]. Qed.

Lemma cd_tie_compare x0 x1 y0 y1 :
  src_cd_gte (x0, x1) (y0, y1) = of_cres (cd_cmp CGe x0 x1 y0 y1) /\
  src_cd_gt (x0, x1) (y0, y1) = of_cres (cd_cmp CGt x0 x1 y0 y1) /\
  src_cd_lte (x0, x1) (y0, y1) = of_cres (cd_cmp CLe x0 x1 y0 y1) /\
  src_cd_lt (x0, x1) (y0, y1) = of_cres (cd_cmp CLt x0 x1 y0 y1) /\
  src_cd_eq (x0, x1) (y0, y1) = of_cres (cd_cmp CEq x0 x1 y0 y1) /\
  src_cd_noteq (x0, x1) (y0, y1) = of_cres (cd_cmp CNe x0 x1 y0 y1) /\
  src_cd_not (x0, x1) = of_cres (cd_not x0 x1).
Proof. repeat split; [apply src_cd_eq_eq|apply src_cd_noteq_eq|apply src_cd_not_eq]. Qed.

Lemma cd_tie_leaves M z :
  src_cd_num M z = of_cres (codomain M (Num z)) /\ src_cd_name M = of_cres (codomain M Var).
Proof. split; [apply src_cd_num_eq|apply src_cd_name_eq]. Qed.

Lemma cd_tie_visitor M :
  (forall o a b, src_base_binop (cd_vis M) (cd_visit2 M) (NE a) (NE b) (NBin o) = of_cres (codomain M (Bin o a b))) /\
  (forall o a b, src_base_compare (cd_vis M) (cd_visit2 M) [NE b] [NCmp o] (NE a) = of_cres (codomain M (Cmp o a b))) /\
  (forall a, src_base_unaryop (cd_vis M) cd_visit1 (NE a) NNot = of_cres (codomain M (Not a))) /\
  (forall a b, src_base_boolop (cd_visitn M) NAnd [NE a; NE b] = of_cres (codomain M (And a b))) /\
  (forall a b, src_base_boolop (cd_visitn M) NOr [NE a; NE b] = of_cres (codomain M (Or a b))) /\
  (forall c a b, src_cd_ifexp (cd_vis M) (NE c) (NE a) (NE b) = of_cres (codomain M (If c a b))).
Proof.
  repeat split; intros.
  - apply cd_step_bin. - apply cd_step_cmp. - apply cd_step_not. - apply cd_step_and. - apply cd_step_or.
  - apply cd_step_if.
Qed.

Lemma cd_pins : src_pin_base = true /\ src_pin_cd = true.
Proof. split; reflexivity. Qed.

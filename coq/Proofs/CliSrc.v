(* Source tie for C03 / C17: the translation of lib/cli.py (Generated/CliSrc.v, written by tools/gen/gen_cli_src.py on
   every run) equals the hand-written model (Model/Cli.v), for all arguments and all oracles. *)
From Coq Require Import List NArith ZArith Bool Arith Lia Permutation.
From I18n Require Import Model.CliPy Model.Cli Proofs.Cli Generated.CliSrc.
Import ListNotations.

(* ------------------------------------------------------------------ the io vocabulary *)
Section IOFacts.
  Context {L X : Type}.

  Lemma io_bind_ret_r (m : io L X unit) : io_bind m (fun _ => io_ret tt) = m.
  Proof. destruct m as [o [[]|e]]; cbn; [rewrite app_nil_r|]; reflexivity. Qed.

  Lemma io_bind_ret_l {A B} (a : A) (k : A -> io L X B) : io_bind (io_ret a) k = k a.
  Proof. unfold io_bind, io_ret. destruct (k a) as [o r]. reflexivity. Qed.

  Lemma io_bind_assoc {A B C} (m : io L X A) (k : A -> io L X B) (h : B -> io L X C) :
    io_bind (io_bind m k) h = io_bind m (fun a => io_bind (k a) h).
  Proof.
    destruct m as [o [a|e]]; cbn; [|reflexivity].
    destruct (k a) as [o2 [b|e2]]; cbn; [|reflexivity].
    destruct (h b) as [o3 r3]. rewrite app_assoc. reflexivity.
  Qed.

  Lemma io_bind_ext {A B} (m : io L X A) (k k' : A -> io L X B) : (forall a, k a = k' a) -> io_bind m k = io_bind m k'.
  Proof. intros H. destruct m as [o [a|e]]; cbn; [rewrite H|]; reflexivity. Qed.

  Lemma io_for_ext {A} (f g : A -> io L X unit) l : (forall a, f a = g a) -> io_for f l = io_for g l.
  Proof. intros H. induction l as [|a l IH]; cbn [io_for]; [reflexivity|]. rewrite H, IH. reflexivity. Qed.

  Lemma io_for_app {A} (f : A -> io L X unit) l1 l2 : io_for f (l1 ++ l2) = io_bind (io_for f l1) (fun _ => io_for f l2).
  Proof.
    induction l1 as [|a l1 IH]; cbn [io_for app].
    - rewrite io_bind_ret_l. reflexivity.
    - rewrite io_bind_assoc. apply io_bind_ext. intros _. exact IH.
  Qed.

  (* a loop whose body does not raise writes the concatenation of what the iterations write *)
  Lemma io_for_total {A} (f : A -> io L X unit) l :
    (forall a, In a l -> snd (f a) = Ret tt) -> io_for f l = (flat_map (fun a => fst (f a)) l, Ret tt).
  Proof.
    induction l as [|a l IH]; intros H; cbn [io_for flat_map]; [reflexivity|].
    rewrite IH by (intros; apply H; right; assumption).
    specialize (H a (or_introl eq_refl)). destruct (f a) as [o r]. cbn in H. subst r. reflexivity.
  Qed.
End IOFacts.

(* ------------------------------------------------------------------ paths *)
Lemma path_join_dir d : path_ok d -> path_join d [] = d ++ [47%N].
Proof.
  intros [Hne He]. unfold path_join. cbn [str_startswith_sep]. rewrite He.
  destruct d; [congruence|]. cbn [app]. rewrite ?app_nil_r. reflexivity.
Qed.

Lemma path_ok_s d : path_ok d -> path_ok (path_join d [115%N]).
Proof.
  intros [Hne He]. unfold path_join. cbn [str_startswith_sep N.eqb Pos.eqb]. rewrite He.
  destruct d as [|c d]; [congruence|]. split; [discriminate|].
  unfold str_endswith. rewrite rev_app_distr. reflexivity.
Qed.

Lemma path_join_s d : path_ok d -> path_join d [115%N] = d ++ [47%N; 115%N].
Proof.
  intros [Hne He]. unfold path_join. cbn [str_startswith_sep N.eqb Pos.eqb]. rewrite He.
  destruct d; [congruence|]. reflexivity.
Qed.

Lemma real_root_src d : path_ok d ->
  path_join d [] = real_root true d /\ path_join (path_join d [115%N]) [] = real_root false d.
Proof.
  intros H. split; [apply path_join_dir; assumption|].
  rewrite (path_join_dir _ (path_ok_s d H)), (path_join_s d H). unfold real_root. rewrite <- app_assoc. reflexivity.
Qed.

(* a name with a suffix whose last character is not "/" *)
Lemma endswith_path_ok s suf c : str_endswith s (suf ++ [c]) = true -> N.eqb 47 c = false -> path_ok s.
Proof.
  unfold path_ok, str_endswith. rewrite rev_app_distr. cbn [rev app].
  intros H Hc. destruct (rev s) as [|y r] eqn:E; [discriminate|]. cbn [str_prefixb] in H.
  apply andb_true_iff in H. destruct H as [Hy _]. apply N.eqb_eq in Hy. subst y. split.
  - intros ->. discriminate.
  - cbn [str_prefixb]. rewrite Hc. reflexivity.
Qed.

Lemma deb_kind_path_ok f b : deb_kind f = Some b -> path_ok f.
Proof.
  unfold deb_kind. destruct (str_endswith f s_deb) eqn:E1.
  - intros _. apply (endswith_path_ok f [46; 100; 101]%N 98%N); [exact E1|reflexivity].
  - destruct (str_endswith f s_dsc) eqn:E2; [|discriminate].
    intros _. apply (endswith_path_ok f [46; 100; 115]%N 99%N); [exact E2|reflexivity].
Qed.

(* ------------------------------------------------------------------ Checker.tag, check_regular_file, copy_options *)
Theorem src_tag_eq {L X T E O} (get_tag : str -> option T) (tag_format : T -> str -> E -> bool -> res X L)
    (opts : options O) fake_path tagname extra :
  src_tag get_tag tag_format opts fake_path tagname extra = cli_tag (L := L) get_tag tag_format opts fake_path tagname extra.
Proof.
  unfold src_tag, cli_tag. destruct (set_mem tagname (o_ignore_tags opts)); [reflexivity|].
  destruct (get_tag tagname) as [t|]; [|reflexivity].
  unfold io_lift. destruct (tag_format t fake_path extra true) as [s|e]; reflexivity.
Qed.

Theorem src_check_regular_file_eq {L X O} (checker_check : str -> options O -> io L X unit) filename o :
  src_check_regular_file checker_check filename o = checker_check filename o.
Proof. unfold src_check_regular_file. rewrite ?io_bind_ret_r. reflexivity. Qed.

Theorem src_copy_options_eq {O} (o : options O) us : src_copy_options o us = copy_options o us.
Proof. reflexivity. Qed.

(* ------------------------------------------------------------------ check_deb *)
Section Deb.
  Context {L X O : Type}.
  Variable check_call : list str -> bool -> io L X unit.
  Variable mkdtemp : str -> res X str.
  Variable cleanup : str -> io L X unit.
  Variable os_walk : str -> list (str * list str * list str).
  Variables islink isfile : str -> bool.
  Variable checker_check : str -> options O -> io L X unit.
  Variable rec_check_file : str -> options O -> io L X unit.

  (* the inner loop: the files of one directory *)
  Lemma src_deb_files_eq o root files :
    src_check_deb_loop1 islink isfile rec_check_file o root files
    = io_for (fun p => rec_check_file p o) (filter (fun p => negb (islink p) && isfile p) (map (path_join root) files)).
  Proof.
    induction files as [|f files IH]; [reflexivity|].
    cbn [src_check_deb_loop1 map filter]. cbv zeta. rewrite IH.
    destruct (islink (path_join root f)); cbn [negb andb].
    - rewrite io_bind_ret_l. reflexivity.
    - destruct (isfile (path_join root f)).
      + cbn [io_for]. rewrite ?io_bind_ret_r. reflexivity.
      + rewrite io_bind_ret_l. reflexivity.
  Qed.

  (* the outer loop over os.walk: nested loops with `continue` = one loop over the filtered, flattened member list *)
  Lemma src_deb_walk_eq o walk :
    src_check_deb_loop2 islink isfile rec_check_file o walk
    = io_for (fun p => rec_check_file p o) (deb_members islink isfile walk).
  Proof.
    unfold deb_members. induction walk as [|[[root dirs] files] walk IH]; [reflexivity|].
    cbn [src_check_deb_loop2 flat_map fst snd]. rewrite filter_app, io_for_app, IH, src_deb_files_eq, ?io_bind_ret_r.
    reflexivity.
  Qed.

  Hypothesis mkdtemp_ok : forall p d, mkdtemp p = Ret d -> path_ok d.

  Theorem src_check_deb_eq filename o :
    src_check_deb check_call mkdtemp cleanup os_walk islink isfile rec_check_file filename o
    = check_deb check_call mkdtemp cleanup os_walk islink isfile rec_check_file filename o.
  Proof.
    unfold src_check_deb, check_deb. fold s_deb s_dsc s_tmp_prefix s_unknown_file_type.
    destruct (deb_kind filename) as [binary|] eqn:K.
    - pose proof (deb_kind_path_ok _ _ K) as Hf.
      destruct (mkdtemp s_tmp_prefix) as [d|e] eqn:D.
      2:{ unfold deb_kind in K. destruct (str_endswith filename s_deb); [reflexivity|].
          destruct (str_endswith filename s_dsc); [reflexivity|discriminate]. }
      pose proof (mkdtemp_ok _ _ D) as Hd. destruct (real_root_src d Hd) as [R1 R2].
      pose proof (path_join_dir filename Hf) as RF.
      assert (G : forall b, deb_kind filename = Some b -> b = binary) by (intros b Hb; congruence).
      unfold deb_kind in K, G.
      destruct (str_endswith filename s_deb).
      + inversion K; subst binary. cbv zeta. unfold io_lift. cbn [io_bind]. rewrite ?io_bind_ret_l.
        cbv beta iota. rewrite !R1, !RF. unfold src_copy_options, dict_copy, ns_vars, ns_of_dict, dict_update, set_copy, set_add.
        cbn [fold_left apply_update o_unpack_deb o_jobs o_ignore_tags o_fake_root o_rest unpack_argv negb].
        fold s_dpkg_deb s_x.
        replace (io_bind (check_call [s_dpkg_deb; s_x; filename; d] false) _)
          with (io_bind (check_call [s_dpkg_deb; s_x; filename; d] false)
                  (fun _ => io_for (fun p => rec_check_file p (deb_options o true d filename)) (deb_members islink isfile (os_walk d))))
          by (apply io_bind_ext; intros _; rewrite src_deb_walk_eq; reflexivity).
        destruct (io_finally _ _) as [o1 r1]. rewrite ?app_nil_r. reflexivity.
      + destruct (str_endswith filename s_dsc); [|discriminate].
        inversion K; subst binary. cbv zeta. unfold io_lift. cbn [io_bind]. rewrite ?io_bind_ret_l.
        cbv beta iota. rewrite !R2, !RF. unfold src_copy_options, dict_copy, ns_vars, ns_of_dict, dict_update, set_copy, set_add.
        cbn [fold_left apply_update o_unpack_deb o_jobs o_ignore_tags o_fake_root o_rest unpack_argv negb].
        fold s_dpkg_source s_x s_no_copy s_no_check.
        replace (io_bind (check_call [s_dpkg_source; s_no_copy; s_no_check; s_x; filename; real_root false d] true) _)
          with (io_bind (check_call [s_dpkg_source; s_no_copy; s_no_check; s_x; filename; real_root false d] true)
                  (fun _ => io_for (fun p => rec_check_file p (deb_options o false d filename)) (deb_members islink isfile (os_walk d))))
          by (apply io_bind_ext; intros _; rewrite src_deb_walk_eq; reflexivity).
        destruct (io_finally _ _) as [o1 r1]. rewrite ?app_nil_r. reflexivity.
    - unfold deb_kind in K. destruct (str_endswith filename s_deb); [discriminate|].
      destruct (str_endswith filename s_dsc); [discriminate|]. reflexivity.
  Qed.

  (* ---------------------------------------------------------------- check_file, check_file_s *)
  Theorem src_check_file_eq path o :
    src_check_file checker_check check_call mkdtemp cleanup os_walk islink isfile rec_check_file path o
    = check_file checker_check (check_deb check_call mkdtemp cleanup os_walk islink isfile rec_check_file) path o.
  Proof.
    unfold src_check_file, check_file. rewrite !src_check_regular_file_eq, src_check_deb_eq. reflexivity.
  Qed.

  Theorem src_check_file_s_eq path o :
    src_check_file_s checker_check check_call mkdtemp cleanup os_walk islink isfile rec_check_file path o
    = io_capture (check_file checker_check (check_deb check_call mkdtemp cleanup os_walk islink isfile rec_check_file) path o).
  Proof. unfold src_check_file_s. rewrite src_check_file_eq. reflexivity. Qed.

  (* ---------------------------------------------------------------- check_all *)
  Variable executor_map : Z -> (str -> io L X (list L)) -> list str -> list (io L X (list L)).

  Let the_check_file := check_file checker_check (check_deb check_call mkdtemp cleanup os_walk islink isfile rec_check_file).

  Lemma src_all_loop1_eq o paths :
    src_check_all_loop1 checker_check check_call mkdtemp cleanup os_walk islink isfile rec_check_file o paths
    = io_for (fun p => the_check_file p o) paths.
  Proof.
    induction paths as [|p paths IH]; [reflexivity|].
    cbn [src_check_all_loop1 io_for]. rewrite IH, src_check_file_eq. rewrite ?io_bind_ret_r. reflexivity.
  Qed.

  Lemma src_all_loop2_eq (ms : list (io L X (list L))) :
    src_check_all_loop2 ms = io_for (fun m => io_bind m io_write) ms.
  Proof.
    induction ms as [|m ms IH]; [reflexivity|].
    cbn [src_check_all_loop2 io_for]. rewrite IH. rewrite ?io_bind_ret_r. reflexivity.
  Qed.

  Hypothesis executor_map_ext : forall n f g l, (forall p, f p = g p) -> executor_map n f l = executor_map n g l.

  Theorem src_check_all_eq paths o :
    src_check_all checker_check check_call mkdtemp cleanup os_walk islink isfile executor_map rec_check_file paths o
    = check_all executor_map the_check_file paths o.
  Proof.
    unfold src_check_all, check_all.
    destruct ((Z.of_nat (length paths) <=? 1)%Z) eqn:E1; destruct ((o_jobs o <=? 1)%Z) eqn:E2;
      cbn [orb]; rewrite ?orb_true_r, ?orb_false_r, ?E1, ?E2; cbn [orb]; cbv zeta; rewrite ?io_bind_ret_r;
      try apply src_all_loop1_eq.
    rewrite src_all_loop2_eq. f_equal. apply executor_map_ext. intros p. apply src_check_file_s_eq.
  Qed.
End Deb.

(* ------------------------------------------------------------------ check_all against check_all_seq / check_all_par *)
Section AllModel.
  Context {L X O : Type}.
  Variable cf : str -> options O -> io L X unit.

  (* the model's assumption, made explicit: checking a file ends normally (every problem of the file is a diagnostic) *)
  Definition total (o : options O) : Prop := forall p, snd (cf p o) = Ret tt.
  Definition out (o : options O) (p : str) : list L := fst (cf p o).

  Lemma lookup_result_map {B C} (h : B -> C) (f : str -> B) i pi (fs : list str) :
    lookup_result i (flat_map (fun j => match nth_error fs j with Some x => [(j, h (f x))] | None => [] end) pi)
    = option_map h (lookup_result i (flat_map (fun j => match nth_error fs j with Some x => [(j, f x)] | None => [] end) pi)).
  Proof.
    induction pi as [|j pi IH]; [reflexivity|]. cbn [flat_map].
    destruct (nth_error fs j) as [x|]; cbn [app lookup_result]; [|exact IH].
    destruct (Nat.eqb i j); [reflexivity|exact IH].
  Qed.

  Lemma lookup_result_lookup i pi (fs : list str) (f : str -> list L) :
    lookup_result i (flat_map (fun j => match nth_error fs j with Some x => [(j, f x)] | None => [] end) pi)
    = lookup L i (completed str L f pi fs).
  Proof.
    unfold completed. induction pi as [|j pi IH]; [reflexivity|]. cbn [flat_map].
    destruct (nth_error fs j) as [x|]; cbn [app lookup_result lookup]; [|exact IH].
    destruct (Nat.eqb i j); [reflexivity|exact IH].
  Qed.

  Lemma par_branch o pi (paths : list str) : total o ->
    io_for (fun m => io_bind m io_write) (executor_map_model pi (fun p => io_capture (cf p o)) paths)
    = (check_all_par str L (out o) pi paths, Ret tt).
  Proof.
    intros Ht. unfold executor_map_model, check_all_par.
    assert (Hc : forall p, io_capture (cf p o) = ([], Ret (out o p))).
    { intros p. unfold out. specialize (Ht p). destruct (cf p o) as [w r]. cbn in *. subst r. reflexivity. }
    set (g := fun w : list L => (([], Ret w)) : io L X (list L)).
    set (tbl := flat_map (fun j => match nth_error paths j with Some x => [(j, io_capture (cf x o))] | None => [] end) pi).
    assert (Htbl : forall i, lookup_result i tbl = option_map g (lookup L i (completed str L (out o) pi paths))).
    { intros i. unfold tbl. rewrite <- lookup_result_lookup, <- (lookup_result_map g (out o)). f_equal.
      apply flat_map_ext. intros j. destruct (nth_error paths j); [rewrite Hc|]; reflexivity. }
    clearbody tbl.
    generalize (seq 0 (length paths)). intros idx. induction idx as [|i idx IH]; [reflexivity|].
    cbn [flat_map]. rewrite Htbl.
    destruct (lookup L i (completed str L (out o) pi paths)) as [w|]; cbn [option_map app].
    - cbn [io_for]. rewrite IH. unfold g. cbn. rewrite ?app_nil_r. reflexivity.
    - exact IH.
  Qed.

  (* check_all with the model's executor: the sequential model below the threshold, the parallel model above it *)
  Theorem check_all_model o pi paths : total o ->
    check_all (fun _ => executor_map_model pi) cf paths o
    = (if (Z.of_nat (length paths) <=? 1)%Z || (o_jobs o <=? 1)%Z
       then check_all_seq str L (out o) paths else check_all_par str L (out o) pi paths, Ret tt).
  Proof.
    intros Ht. unfold check_all. destruct ((Z.of_nat (length paths) <=? 1)%Z || (o_jobs o <=? 1)%Z).
    - rewrite io_for_total by (intros; apply Ht). reflexivity.
    - apply par_branch. exact Ht.
  Qed.

  (* so, for every job count and every completion order of the workers, the run writes the sequential output *)
  Theorem check_all_output o pi paths : total o -> Permutation pi (seq 0 (length paths)) ->
    check_all (fun _ => executor_map_model pi) cf paths o = (flat_map (out o) paths, Ret tt).
  Proof.
    intros Ht Hp. rewrite check_all_model by exact Ht.
    destruct (_ || _); [reflexivity|]. rewrite par_eq_seq by exact Hp. reflexivity.
  Qed.
End AllModel.

(* ------------------------------------------------------------------ parse_jobs and the normalisation in main *)
Theorem src_parse_jobs_eq {L X} cpu (py_int : str -> res X Z) s :
  src_parse_jobs cpu py_int s = parse_jobs (L := L) cpu py_int s.
Proof.
  unfold src_parse_jobs, parse_jobs. destruct (str_eqb s _); [reflexivity|].
  unfold io_lift. destruct (py_int s) as [n|e]; [|reflexivity]. cbn [io_bind].
  destruct (n <=? 0)%Z; reflexivity.
Qed.

Theorem src_main_normalise_eq jobs parallel : src_main_normalise jobs parallel = main_normalise jobs parallel.
Proof. destruct jobs, parallel; reflexivity. Qed.

(* an explicit -j N is a positive number (or the CPU count): with py_int / cpu_count as the interpreter gives them *)
Theorem parse_jobs_positive {L X} cpu (py_int : str -> res X Z) s n w :
  (0 < cpu)%Z -> parse_jobs (L := L) cpu py_int s = (w, Ret n) -> (0 < n)%Z.
Proof.
  unfold parse_jobs. intros Hc. destruct (str_eqb s _).
  - intros H. inversion H. subst. exact Hc.
  - destruct (py_int s) as [m|e]; [|discriminate]. destruct (m <=? 0)%Z eqn:E; [discriminate|].
    intros H. inversion H. subst. apply Z.leb_gt in E. exact E.
Qed.

(* ------------------------------------------------------------------ what check_deb gives the members *)
Section DebFacts.
  Context {L X T E O : Type}.

  (* unknown-file-type is never printed for a member of a package *)
  Theorem deb_unknown_file_type_silent (get_tag : str -> option T) (tag_format : T -> str -> E -> bool -> res X L)
      (o : options O) binary tmpdir filename fake_path extra :
    cli_tag get_tag tag_format (deb_options o binary tmpdir filename) fake_path s_unknown_file_type extra = io_ret tt.
  Proof. reflexivity. Qed.

  (* every other tag is treated for a member as for the package's own options *)
  Theorem deb_other_tags (get_tag : str -> option T) (tag_format : T -> str -> E -> bool -> res X L)
      (o : options O) binary tmpdir filename fake_path tagname extra :
    str_eqb tagname s_unknown_file_type = false ->
    cli_tag get_tag tag_format (deb_options o binary tmpdir filename) fake_path tagname extra
    = cli_tag get_tag tag_format o fake_path tagname extra.
  Proof. intros H. unfold cli_tag, deb_options. cbn [o_ignore_tags set_mem existsb]. rewrite H. reflexivity. Qed.

  (* the fake root of the members is the pair that C17_member_path is about *)
  Theorem deb_fake_root (o : options O) binary tmpdir filename member :
    o_fake_root (deb_options o binary tmpdir filename) = Some (real_root binary tmpdir, filename ++ [47%N]) /\
    fake_path N.eqb (real_root binary tmpdir) (filename ++ [47%N]) (unpacked_member binary tmpdir member) = filename ++ [47%N] ++ member.
  Proof. split; [reflexivity|]. apply printed_member_spec. Qed.

  (* a package whose unpacking and members end normally prints: what the unpacker printed, then the members' outputs in os.walk
     order, then what removing the directory printed; the caller's options are not changed (they are a value) *)
  Theorem check_deb_output (check_call : list str -> bool -> io L X unit) mkdtemp (cleanup : str -> io L X unit) os_walk islink isfile
      (cf : str -> options O -> io L X unit) filename (o : options O) binary d w1 w2 :
    deb_kind filename = Some binary -> mkdtemp s_tmp_prefix = Ret d ->
    check_call (unpack_argv binary filename d) (negb binary) = (w1, Ret tt) -> cleanup d = (w2, Ret tt) ->
    (forall p, snd (cf p (deb_options o binary d filename)) = Ret tt) ->
    check_deb check_call mkdtemp cleanup os_walk islink isfile cf filename o
    = (w1 ++ flat_map (fun p => fst (cf p (deb_options o binary d filename))) (deb_members islink isfile (os_walk d)) ++ w2, Ret tt).
  Proof.
    intros K D C1 C2 Ht. unfold check_deb. rewrite K, D. unfold io_lift. cbn [io_bind].
    rewrite C1, C2, io_for_total by (intros; apply Ht). cbn. rewrite ?app_nil_r, <- ?app_assoc. reflexivity.
  Qed.
End DebFacts.

(* ------------------------------------------------------------------ end to end: the translated check_all with the model's executor *)
Lemma executor_map_model_ext {B} pi (f g : str -> B) l : (forall p, f p = g p) -> executor_map_model pi f l = executor_map_model pi g l.
Proof.
  intros H. unfold executor_map_model.
  assert (E : flat_map (fun j => match nth_error l j with Some x => [(j, f x)] | None => [] end) pi
            = flat_map (fun j => match nth_error l j with Some x => [(j, g x)] | None => [] end) pi).
  { apply flat_map_ext. intros j. destruct (nth_error l j); [rewrite H|]; reflexivity. }
  rewrite E. reflexivity.
Qed.

Theorem src_check_all_output {L X O} (checker_check : str -> options O -> io L X unit) check_call mkdtemp cleanup os_walk islink isfile
    rec_check_file pi paths o :
  (forall p d, mkdtemp p = Ret d -> path_ok d) ->
  (forall p, snd (check_file checker_check (check_deb check_call mkdtemp cleanup os_walk islink isfile rec_check_file) p o) = Ret tt) ->
  Permutation pi (seq 0 (length paths)) ->
  src_check_all checker_check check_call mkdtemp cleanup os_walk islink isfile (fun _ => executor_map_model pi) rec_check_file paths o
  = (flat_map (fun p => fst (check_file checker_check (check_deb check_call mkdtemp cleanup os_walk islink isfile rec_check_file) p o)) paths,
     Ret tt).
Proof.
  intros Hm Ht Hp. rewrite src_check_all_eq; [|exact Hm|intros n f g l H; apply executor_map_model_ext; exact H].
  apply check_all_output; assumption.
Qed.

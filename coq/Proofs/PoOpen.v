(* Codecs.open (lib/polib4us.py) on a file of the printer family: the lines reach the parser in order,
   comment normalisation and pending-comment buffering do not change what they lex to, and only
   white-space lines at the end are dropped. *)
From Coq Require Import List NArith Bool Lia ZifyBool Arith.
From I18n Require Import Lib.Outcome Model.PoUnescape Model.PoParser Model.PoLexer Spec.PoSyntax
  Proofs.PoStrings Proofs.PoParser Proofs.PoLex.
Import ListNotations.
Local Open Scope N_scope.

Lemma not_space_35 : ~ is_space 35.
Proof. apply not_space_chars. Qed.

(* ---------------------------------------------------------------- _iterlines *)
Lemma iterlines_aux_line l : ~ In 10 l -> forall rest cur,
  iterlines_aux (l ++ 10 :: rest) cur = (rev cur ++ l ++ [10]) :: iterlines_aux rest [].
Proof.
  induction l as [|c l IH]; intros Hn rest cur; cbn [app iterlines_aux].
  - change (N.eqb 10 10) with true. cbv iota. cbn [rev app]. reflexivity.
  - destruct (N.eqb_spec c 10) as [->|Hc]; [exfalso; apply Hn; now left|].
    rewrite IH by (intros H; apply Hn; now right). cbn [rev]. rewrite <- app_assoc. reflexivity.
Qed.

Lemma iterlines_lines pls : Forall (fun l => ~ In 10 l) pls ->
  iterlines (flat_map (fun l => l ++ [10]) pls) = map (fun l => l ++ [10]) pls ++ [[]].
Proof.
  unfold iterlines. induction 1 as [|l pls Hl _ IH]; [reflexivity|]. cbn [flat_map map].
  rewrite <- app_assoc. cbn [app]. rewrite iterlines_aux_line by assumption. cbn [rev app]. now rewrite IH.
Qed.

(* ---------------------------------------------------------------- one line *)
Definition tc_shaped (b : str) : Prop := b = [35] \/ exists r, b = 35 :: 32 :: r.

Lemma typical_eval c : In c [32; 46; 58; 44; 124; 126] ->
  (N.eqb c 32 || N.eqb c 46 || N.eqb c 58 || N.eqb c 44 || N.eqb c 124 || N.eqb c 126) = true.
Proof. cbn [In]. intros H. repeat (destruct H as [H|H]; [subst c; reflexivity|]). destruct H. Qed.

Lemma atypical_head x s : x <> 35 -> atypical_comment (x :: s) = false.
Proof. intros H. assert (Hx : N.eqb x 35 = false) by (destruct (N.eqb_spec x 35); congruence).
  destruct s; cbn [atypical_comment]; [reflexivity|]. now rewrite Hx. Qed.

Lemma normalise_padded lead b trail : typical_shape b -> trimmed b -> b <> [] -> all_space lead -> all_space trail ->
  exists trail', all_space trail' /\ normalise (lead ++ b ++ trail) = lead ++ b ++ trail'.
Proof.
  intros Hs Ht Hne Hl Htr. unfold normalise.
  destruct lead as [|l0 lead'].
  - cbn [app]. destruct Hs as [-> | [Hh | (c & r & -> & Hc)]].
    + cbn [app]. destruct trail as [|c t]; [exists []; split; [constructor|reflexivity]|].
      cbn [atypical_comment]. rewrite N.eqb_refl. cbn [andb].
      destruct (N.eqb c 32 || N.eqb c 46 || N.eqb c 58 || N.eqb c 44 || N.eqb c 124 || N.eqb c 126) eqn:E; cbn [negb].
      * exists (c :: t). split; [assumption|reflexivity].
      * exists (32 :: c :: t). split; [|reflexivity]. constructor; [unfold is_space; cbn; tauto|assumption].
    + destruct b as [|x b']; [congruence|]. cbn [hd] in Hh. exists trail. split; [assumption|].
      cbn [app]. now rewrite atypical_head.
    + exists trail. split; [assumption|]. cbn [app atypical_comment]. rewrite N.eqb_refl, (typical_eval c Hc). reflexivity.
  - exists trail. split; [assumption|]. inversion Hl as [|? ? H0 _]; subst.
    cbn [app]. rewrite atypical_head; [reflexivity|]. intros ->. now apply not_space_35.
Qed.

Lemma forallb_space_false lead b trail : trimmed b -> b <> [] -> forallb py_isspace (lead ++ b ++ trail) = false.
Proof.
  intros Ht Hne. destruct b as [|c b']; [congruence|]. destruct Ht as [Hc _].
  rewrite forallb_app. cbn [app forallb]. rewrite (not_space_false _ Hc). cbn [andb]. apply andb_false_r.
Qed.

Lemma pending_padded lead b trail : trimmed b -> b <> [] -> all_space lead ->
  is_pending (lead ++ b ++ trail) = true -> lead = [] /\ tc_shaped b.
Proof.
  intros Ht Hne Hl Hp. unfold is_pending in Hp.
  assert (H3 : py_str_isspace (lead ++ b ++ trail) = false).
  { unfold py_str_isspace. destruct (lead ++ b ++ trail) eqn:E; [reflexivity|]. rewrite <- E. now apply forallb_space_false. }
  rewrite H3, orb_false_r in Hp.
  destruct lead as [|l0 lead'].
  - split; [reflexivity|]. cbn [app] in Hp. destruct b as [|x b']; [congruence|].
    destruct b' as [|y b''].
    + cbn [app firstn] in Hp. destruct trail as [|t0 trail']; cbn in Hp.
      * destruct (N.eqb_spec x 35); cbn in Hp; discriminate.
      * destruct (N.eqb_spec x 35) as [->|]; [now left|]. cbn in Hp. discriminate.
    + cbn [app firstn] in Hp. cbn in Hp. destruct (N.eqb_spec x 35) as [->|]; [|cbn in Hp; discriminate].
      destruct (N.eqb_spec y 32) as [->|]; [|cbn in Hp; discriminate]. right. eexists. reflexivity.
  - exfalso. inversion Hl as [|? ? H0 _]; subst. cbn [app] in Hp.
    destruct (lead' ++ b ++ trail); cbn in Hp.
    + destruct (N.eqb_spec l0 35) as [->|]; [now apply not_space_35|]. cbn in Hp. discriminate.
    + destruct (N.eqb_spec l0 35) as [->|]; [now apply not_space_35|]. cbn in Hp. discriminate.
Qed.

Lemma blank_line ws : all_space ws -> normalise ws = ws /\ is_pending ws = true.
Proof.
  intros Hw. split.
  - unfold normalise. destruct ws as [|c ws']; [reflexivity|]. inversion Hw as [|? ? Hc _]; subst.
    assert (Hx : N.eqb c 35 = false) by (destruct (N.eqb_spec c 35) as [->|]; [exfalso; now apply not_space_35|reflexivity]).
    destruct ws'; cbn [atypical_comment]; [reflexivity|]. now rewrite Hx.
  - unfold is_pending. destruct ws as [|c ws']; [reflexivity|].
    assert (H : py_str_isspace (c :: ws') = true).
    { unfold py_str_isspace. apply forallb_forall. intros x Hx. unfold all_space in Hw. rewrite Forall_forall in Hw. now apply space_true, Hw. }
    rewrite H. apply orb_true_r.
Qed.

(* ---------------------------------------------------------------- the generator *)
Lemma file_of_snoc_blank bodies raws ws : file_of bodies raws -> all_space ws -> file_of bodies (raws ++ [ws]).
Proof. induction 1 as [| ? ? ? ? ? IH | ? ? ? ? ? ? ? ? IH]; intros Hw; cbn [app].
  - apply file_blank; [assumption|constructor].
  - apply file_blank; [assumption|now apply IH].
  - apply file_line; try assumption. now apply IH. Qed.

Lemma file_of_snoc_line bodies raws lead b trail : file_of bodies raws -> all_space lead -> all_space trail ->
  file_of (bodies ++ [b]) (raws ++ [lead ++ b ++ trail]).
Proof. induction 1 as [| ? ? ? ? ? IH | ? ? ? ? ? ? ? ? IH]; intros Hl Ht; cbn [app].
  - apply file_line; try assumption. constructor.
  - apply file_blank; [assumption|now apply IH].
  - apply file_line; try assumption. now apply IH. Qed.

Lemma file_of_app b1 r1 b2 r2 : file_of b1 r1 -> file_of b2 r2 -> file_of (b1 ++ b2) (r1 ++ r2).
Proof. induction 1 as [| ? ? ? ? ? IH | ? ? ? ? ? ? ? ? IH]; intros H2; cbn [app].
  - assumption.
  - apply file_blank; [assumption|now apply IH].
  - apply file_line; try assumption. now apply IH. Qed.

Definition body_ok (b : str) : Prop := typical_shape b /\ trimmed b /\ b <> [].

Lemma open_file : forall bodies ls, file_of bodies ls -> Forall body_ok bodies ->
  forall pend pb e, file_of pb pend ->
  (bodies = [] -> pb = [] /\ e = false) -> (bodies <> [] -> ~ tc_shaped (last bodies [])) ->
  file_of (pb ++ bodies) (open_lines ls pend e).
Proof.
  induction 1 as [| bodies ws raws Hws Hf IH | body lead trail bodies raws Hl Ht Hf IH]; intros Hok pend pb e Hp Hnil Hlast.
  - destruct (Hnil eq_refl) as [-> ->]. cbn. constructor.
  - cbn [open_lines]. destruct (blank_line ws Hws) as [-> ->].
    apply IH; try assumption. now apply file_of_snoc_blank.
  - inversion Hok as [|? ? (Hs & Htr & Hne) Hok']; subst. cbn [open_lines].
    destruct (normalise_padded lead body trail Hs Htr Hne Hl Ht) as (trail' & Ht' & ->).
    destruct (is_pending (lead ++ body ++ trail')) eqn:Ep.
    + destruct (pending_padded lead body trail' Htr Hne Hl Ep) as [-> Htc].
      assert (Hrest : bodies <> []).
      { intros ->. apply (Hlast ltac:(discriminate)). exact Htc. }
      replace (pb ++ body :: bodies) with ((pb ++ [body]) ++ bodies) by (rewrite <- app_assoc; reflexivity).
      apply IH; try assumption.
      * apply (file_of_snoc_line pb pend [] body trail' Hp (Forall_nil _) Ht').
      * intros E. contradiction.
      * intros _. specialize (Hlast ltac:(discriminate)). destruct bodies; [congruence|exact Hlast].
    + apply (file_of_app pb pend (body :: bodies)); [assumption|]. apply file_line; try assumption.
      apply (IH Hok' [] [] false file_nil).
      * intros ->. split; reflexivity.
      * intros Hb. specialize (Hlast ltac:(discriminate)). destruct bodies; [congruence|exact Hlast].
Qed.

Lemma file_of_lf bodies pls : file_of bodies pls -> file_of bodies (map (fun l => l ++ [10]) pls ++ [[]]).
Proof.
  assert (H10 : is_space 10) by (unfold is_space; cbn; tauto).
  induction 1; cbn [map app].
  - apply file_blank; constructor.
  - apply file_blank; [|assumption]. apply Forall_app. split; [assumption|constructor; [exact H10|constructor]].
  - rewrite <- !app_assoc. apply file_line; try assumption. apply Forall_app. split; [assumption|constructor; [exact H10|constructor]].
Qed.

(* Codecs.open on the text of the file (every physical line ends with LF) yields a file of the same bodies *)
Theorem codecs_open_file bodies pls : file_of bodies pls -> Forall (fun l => ~ In 10 l) pls -> Forall body_ok bodies ->
  bodies <> [] -> ~ tc_shaped (last bodies []) ->
  file_of bodies (codecs_open_text (flat_map (fun l => l ++ [10]) pls)).
Proof.
  intros Hf Hlf Hok Hne Hlast. unfold codecs_open_text. rewrite iterlines_lines by assumption.
  apply (open_file bodies _ (file_of_lf _ _ Hf) Hok [] [] true file_nil); [congruence|intros _; exact Hlast].
Qed.

(* ---------------------------------------------------------------- the last line of a rendered catalog is a message line *)
Definition msg_shaped (b : str) : Prop := hd 0 b = 109 \/ hd 0 b = 34 \/ exists r, b = 35 :: 126 :: r.

Lemma msg_not_tc b : msg_shaped b -> ~ tc_shaped b.
Proof. intros Hm Ht. destruct Ht as [-> | (r' & ->)].
  - destruct Hm as [H|[H|(r & E)]]; [cbn in H; discriminate H|cbn in H; discriminate H|discriminate E].
  - destruct Hm as [H|[H|(r & E)]]; [cbn in H; discriminate H|cbn in H; discriminate H|discriminate E]. Qed.

Lemma msg_shaped_pre sp (obs : bool) x : hd 0 x = 109 \/ hd 0 x = 34 -> x <> [] ->
  msg_shaped ((if obs then [35; 126] ++ sp_obs sp else []) ++ x).
Proof. intros Hx Hne. destruct obs; cbn [app].
  - right; right. eexists. reflexivity.
  - destruct Hx; [left|right; left]; assumption. Qed.

Lemma string_bodies_msg sp (obs : bool) kw s : hd 0 kw = 109 -> kw <> [] ->
  Forall msg_shaped (string_bodies sp (if obs then [35; 126] ++ sp_obs sp else []) kw s).
Proof.
  intros Hk Hne. destruct s as [|c r]; [constructor|]. cbn [string_bodies]. constructor.
  - apply msg_shaped_pre; [left; destruct kw; [congruence|exact Hk]|destruct kw; [congruence|discriminate]].
  - apply Forall_forall. intros x Hx. apply in_map_iff in Hx. destruct Hx as (c' & <- & _).
    apply msg_shaped_pre; [right; reflexivity|discriminate].
Qed.

Lemma plurals_bodies_msg sp (obs : bool) : forall l i,
  Forall msg_shaped (plurals_bodies sp (if obs then [35; 126] ++ sp_obs sp else []) i l).
Proof.
  induction l as [|s l IH]; intros i; [constructor|]. cbn [plurals_bodies]. apply Forall_app. split; [|apply IH].
  destruct s as [|c r]; [constructor|]. cbn [plural_bodies]. constructor.
  - apply msg_shaped_pre; [left; reflexivity|discriminate].
  - apply Forall_forall. intros x Hx. apply in_map_iff in Hx. destruct Hx as (c' & <- & _).
    apply msg_shaped_pre; [right; reflexivity|discriminate].
Qed.

Lemma last_app_Forall {A} (P : A -> Prop) l1 l2 d : Forall P l2 -> l2 <> [] -> P (last (l1 ++ l2) d).
Proof. intros H Hne. rewrite last_app_ne' by assumption. destruct (@exists_last _ l2 Hne) as (l' & z & ->).
  rewrite last_last. apply Forall_app in H. destruct H as [_ H]. now inversion H. Qed.

Lemma flat_map_last_split {A B} (f : A -> list B) l d : l <> [] -> exists X, flat_map f l = X ++ f (last l d).
Proof. induction l as [|x l IH]; intros Hne; [congruence|]. destruct l as [|y l'].
  - exists []. cbn. now rewrite app_nil_r.
  - destruct (IH ltac:(discriminate)) as [X E]. exists (f x ++ X). cbn [flat_map] in *. rewrite E. now rewrite app_assoc. Qed.

Lemma entry_bodies_last dec sp e : sentry_ok dec e -> exists X D, entry_bodies sp e = X ++ D /\ D <> [] /\ Forall msg_shaped D.
Proof.
  intros (_ & _ & _ & Hstrs). unfold entry_bodies.
  set (pre := if s_obsolete e then [35; 126] ++ sp_obs sp else []).
  destruct (s_plural e) as [pl|].
  - destruct Hstrs as ([Hplne _] & Hne & Hall). eexists _, (string_bodies sp pre w_msgid_plural pl ++ plurals_bodies sp pre 0 (s_strs e)).
    split; [rewrite !app_assoc; reflexivity|]. split.
    + destruct pl; [congruence|]. discriminate.
    + apply Forall_app. split; [apply (string_bodies_msg sp (s_obsolete e)); [reflexivity|discriminate]|apply (plurals_bodies_msg sp (s_obsolete e))].
  - destruct Hstrs as (s & Hs & [Hsne _]). rewrite Hs. cbn [flat_map]. rewrite app_nil_r.
    eexists _, (string_bodies sp pre w_msgstr s). split; [rewrite !app_assoc; reflexivity|]. split.
    + destruct s; [congruence|discriminate].
    + apply (string_bodies_msg sp (s_obsolete e)); [reflexivity|discriminate].
Qed.

Lemma render_bodies_last dec sp c : Forall (sentry_ok dec) (sc_entries c) -> sc_entries c <> [] ->
  render_bodies sp c <> [] /\ ~ tc_shaped (last (render_bodies sp c) []).
Proof.
  intros Hok Hne. unfold render_bodies.
  destruct (flat_map_last_split (entry_bodies sp) (sc_entries c) (mkSentry [] false None [] None []) Hne) as [X E].
  assert (Hlast : sentry_ok dec (last (sc_entries c) (mkSentry [] false None [] None []))).
  { rewrite Forall_forall in Hok. apply Hok. destruct (@exists_last _ (sc_entries c) Hne) as (l' & z & ->). rewrite last_last. apply in_or_app. right. now left. }
  destruct (entry_bodies_last dec sp _ Hlast) as (X2 & D & E2 & HD & HDm).
  rewrite E, E2, !app_assoc. split.
  - intros H. apply app_eq_nil in H. destruct H. contradiction.
  - apply msg_not_tc. now apply last_app_Forall.
Qed.

Lemma Forall2_left {A B} (R : A -> B -> Prop) (P : A -> Prop) l l' : (forall a b, R a b -> P a) -> Forall2 R l l' -> Forall P l.
Proof. intros H. induction 1; constructor; eauto. Qed.

(* ---------------------------------------------------------------- Codecs.open + parse on the text of a rendered file *)
Theorem open_load_render O sp c pls :
  ascii_compatible (o_dec O) -> seps_ok sp -> scatalog_ok (o_dec O) c -> nplurals_le_10 c -> sc_entries c <> [] ->
  file_of (render_bodies sp c) pls -> Forall (fun l => ~ In 10 l) pls ->
  parse_lines O (codecs_open_text (flat_map (fun l => l ++ [10]) pls)) =
  Ok (mkPo (fst (catalog_value c)) (map (fun e => to_entry (tool_view e)) (snd (catalog_value c))) false).
Proof.
  intros Hdec Hsp Hok Hn Hne Hfile Hlf.
  apply (load_render O sp c _ Hdec Hsp Hok Hn).
  destruct (render_bodies_last (o_dec O) sp c ltac:(apply Hok) Hne) as [Hb Hlast].
  apply codecs_open_file; try assumption.
  apply (Forall2_left lexes body_ok _ (toks_catalog_x sp c)); [|now apply (lexes_catalog (o_dec O) sp Hsp)].
  intros a b (H1 & H2 & H3 & _). repeat split; assumption.
Qed.

(* polib.pofile(path, encoding=enc) when the whole-file decode gives that text *)
Theorem pofile_with_render C enc raw sp c pls :
  let dec := c_decode C enc in
  c_decode C (if c_ascii_compatible C enc then enc else s_ascii) raw = Some (flat_map (fun l => l ++ [10]) pls) ->
  ascii_compatible dec -> seps_ok sp -> scatalog_ok dec c -> nplurals_le_10 c -> sc_entries c <> [] ->
  file_of (render_bodies sp c) pls -> Forall (fun l => ~ In 10 l) pls ->
  pofile_with C enc raw =
  Ok (mkLoaded enc (mkPo (fst (catalog_value c)) (map (fun e => to_entry (tool_view e)) (snd (catalog_value c))) false)).
Proof.
  intros dec Hfile Hdec Hsp Hok Hn Hne Hf Hlf. unfold pofile_with. rewrite Hfile.
  rewrite (open_load_render (mkOracles (c_decode C enc) (c_udigit C) (c_uisdigit C)) sp c pls); try assumption. reflexivity.
Qed.

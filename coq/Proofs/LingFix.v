(* Language.fix_codes: what it changes, when it fails, idempotence; the table facts are computed on
   Generated/IsoCodes.v (rewritten from /repo on every run) and lifted with forallb_forall. *)
From Coq Require Import List NArith Bool Arith Lia.
From I18n Require Import Lib.Outcome Model.Ling Model.LingData Generated.IsoCodes Proofs.LingParse.
Import ListNotations.
Local Open Scope N_scope.

Lemma lg_lookup_in t k v : lg_lookup t k = Some v -> In (k, v) t.
Proof.
  induction t as [|[k' v'] r IH]; cbn [lg_lookup]; [discriminate|].
  destruct (lg_eqb k k') eqn:E.
  - intros H; inversion H; subst. apply lg_eqb_spec in E; subst. left; reflexivity.
  - intros H. right. auto.
Qed.

Lemma lg_mem_in t k : lg_mem t k = true <-> In k t.
Proof.
  induction t as [|k' r IH]; cbn [lg_mem In]; [split; [discriminate|tauto]|].
  rewrite orb_true_iff, IH, lg_eqb_spec. split; intros [H|H]; auto.
Qed.

Definition lookup_is (t : list (list N * list N)) (k v : list N) : bool :=
  match lg_lookup t k with Some x => lg_eqb x v | None => false end.

Lemma lookup_is_spec t k v : lookup_is t k v = true <-> lg_lookup t k = Some v.
Proof.
  unfold lookup_is. destruct (lg_lookup t k) as [x|]; [|split; discriminate].
  rewrite lg_eqb_spec. split; [intros ->; reflexivity|intros H; inversion H; reflexivity].
Qed.

(* ---------- checkers over the tables ---------- *)
(* the canonical code of every entry is its own canonical code; a code is changed only from three to two letters *)
Definition iso_entry_ok (t : list (list N * list N)) (kv : list N * list N) : bool :=
  lookup_is t (snd kv) (snd kv) &&
  (lg_eqb (fst kv) (snd kv) || (Nat.eqb (length (fst kv)) 3 && Nat.eqb (length (snd kv)) 2)).
Definition iso_table_ok (t : list (list N * list N)) : bool := forallb (iso_entry_ok t) t.

(* data/iso-codes [language-codes]: lll = ll  => lll -> ll and ll -> ll;   lll =   => lll -> lll *)
Definition raw_entry_ok (t : list (list N * list N)) (p : list N * list N) : bool :=
  Nat.eqb (length (fst p)) 3 &&
  (if is_nil (snd p) then lookup_is t (fst p) (fst p)
   else Nat.eqb (length (snd p)) 2 && lookup_is t (fst p) (snd p) && lookup_is t (snd p) (snd p)).
(* every key of the table comes from a line of the file *)
Definition key_from_raw (raw : list (list N * list N)) (kv : list N * list N) : bool :=
  existsb (fun p => lg_eqb (fst kv) (fst p) || (negb (is_nil (snd p)) && lg_eqb (fst kv) (snd p))) raw.

Definition tables_ok (t raw : list (list N * list N)) : bool :=
  iso_table_ok t && forallb (raw_entry_ok t) raw && forallb (key_from_raw raw) t.

Theorem fix_table : tables_ok iso_639 iso_639_raw = true.
Proof. vm_compute. reflexivity. Qed.

Lemma table_ok_lookup t : iso_table_ok t = true -> forall k v, lg_lookup t k = Some v ->
  lg_lookup t v = Some v /\ (k = v \/ (length k = 3 /\ length v = 2)%nat).
Proof.
  intros Ht k v H. apply lg_lookup_in in H. unfold iso_table_ok in Ht. rewrite forallb_forall in Ht.
  specialize (Ht _ H). unfold iso_entry_ok in Ht. cbn [fst snd] in Ht.
  rewrite andb_true_iff, orb_true_iff, andb_true_iff, lookup_is_spec, lg_eqb_spec, !Nat.eqb_eq in Ht. tauto.
Qed.

(* ---------- fix_codes ---------- *)
Definition terr_known (cfg : ling_cfg) (o : option (list N)) : Prop :=
  match o with None => True | Some cc => In cc (cfg_iso3166 cfg) end.

Theorem fix_codes_ok_iff cfg l l' b : fix_codes cfg l = Ok (l', b) <->
  exists ll, lg_lookup (cfg_iso639 cfg) (l_lang l) = Some ll /\ terr_known cfg (l_terr l) /\
    l' = mkLang ll (l_terr l) (l_enc l) (l_mod l) /\ b = negb (lg_eqb ll (l_lang l)).
Proof.
  unfold fix_codes, lookup_territory_code, terr_known.
  destruct (lg_lookup (cfg_iso639 cfg) (l_lang l)) as [ll|].
  2:{ split; [discriminate|]. intros (ll & H & _); discriminate. }
  destruct (l_terr l) as [cc|].
  - destruct (lg_mem (cfg_iso3166 cfg) cc) eqn:Em.
    + rewrite lg_eqb_refl. cbn [negb]. apply lg_mem_in in Em. split.
      * intros H; inversion H; subst. eauto.
      * intros (ll' & H & _ & -> & ->). inversion H; subst. reflexivity.
    + split; [discriminate|]. intros (ll' & _ & Hin & _). apply lg_mem_in in Hin. congruence.
  - split.
    + intros H; inversion H; subst. eauto.
    + intros (ll' & H & _ & -> & ->). inversion H; subst. reflexivity.
Qed.

Theorem fix_codes_err_iff cfg l e : fix_codes cfg l = Err e <->
  e = LFixCodes /\ (lg_lookup (cfg_iso639 cfg) (l_lang l) = None \/ exists cc, l_terr l = Some cc /\ ~ In cc (cfg_iso3166 cfg)).
Proof.
  unfold fix_codes, lookup_territory_code.
  destruct (lg_lookup (cfg_iso639 cfg) (l_lang l)) as [ll|].
  2:{ split; [intros H; inversion H; auto|intros [-> _]; reflexivity]. }
  destruct (l_terr l) as [cc|].
  - destruct (lg_mem (cfg_iso3166 cfg) cc) eqn:Em.
    + rewrite lg_eqb_refl. cbn [negb]. split; [discriminate|]. apply lg_mem_in in Em.
      intros [_ [H|(cc' & H & Hn)]]; [discriminate|]. inversion H; subst. contradiction.
    + split.
      * intros H; inversion H. split; [reflexivity|]. right. exists cc. split; [reflexivity|].
        intros Hin. apply lg_mem_in in Hin. congruence.
      * intros [-> _]. reflexivity.
  - split; [discriminate|]. intros [_ [H|(cc' & H & _)]]; discriminate.
Qed.

(* the `raise ValueError  # no coverage` is dead *)
Theorem fix_codes_no_crash cfg l c : fix_codes cfg l <> Crash c.
Proof.
  unfold fix_codes, lookup_territory_code.
  destruct (lg_lookup (cfg_iso639 cfg) (l_lang l)) as [ll|]; [|discriminate].
  destruct (l_terr l) as [cc|]; [|discriminate].
  destruct (lg_mem (cfg_iso3166 cfg) cc); [|discriminate].
  rewrite lg_eqb_refl. discriminate.
Qed.

Theorem fix_codes_idempotent cfg : iso_table_ok (cfg_iso639 cfg) = true ->
  forall l l' b, fix_codes cfg l = Ok (l', b) -> fix_codes cfg l' = Ok (l', false).
Proof.
  intros Ht l l' b H. apply fix_codes_ok_iff in H. destruct H as (ll & Hl & Hk & -> & _).
  apply fix_codes_ok_iff. cbn [l_lang l_terr l_enc l_mod].
  destruct (table_ok_lookup _ Ht _ _ Hl) as [Hll _].
  exists ll. rewrite lg_eqb_refl. auto.
Qed.

(* only the language code may change, and only from a three-letter code to its two-letter equivalent *)
Theorem fix_codes_changes cfg : iso_table_ok (cfg_iso639 cfg) = true ->
  forall l l' b, fix_codes cfg l = Ok (l', b) ->
    l_terr l' = l_terr l /\ l_enc l' = l_enc l /\ l_mod l' = l_mod l /\
    (b = false -> l' = l) /\
    (b = true -> l_lang l' <> l_lang l /\ length (l_lang l) = 3%nat /\ length (l_lang l') = 2%nat).
Proof.
  intros Ht l l' b H. apply fix_codes_ok_iff in H. destruct H as (ll & Hl & Hk & -> & ->).
  cbn [l_lang l_terr l_enc l_mod].
  split; [reflexivity|]. split; [reflexivity|]. split; [reflexivity|]. split.
  - intros E. apply negb_false_iff, lg_eqb_spec in E. subst ll. destruct l; reflexivity.
  - intros E. apply negb_true_iff, lg_eqb_false in E.
    destruct (table_ok_lookup _ Ht _ _ Hl) as [_ [H|[H3 H2]]]; [congruence|].
    split; [exact E|]. split; [exact H3|exact H2].
Qed.

(* ---------- on the generated tables ---------- *)
Lemma gen_table_ok munch : iso_table_ok (cfg_iso639 (gen_cfg munch)) = true.
Proof.
  pose proof fix_table as H. unfold tables_ok in H. rewrite !andb_true_iff in H. exact (proj1 (proj1 H)).
Qed.

Theorem fix_idempotent_gen munch l l' b :
  fix_codes (gen_cfg munch) l = Ok (l', b) -> fix_codes (gen_cfg munch) l' = Ok (l', false).
Proof. apply fix_codes_idempotent, gen_table_ok. Qed.

Theorem fix_changes_gen munch l l' b : fix_codes (gen_cfg munch) l = Ok (l', b) ->
    l_terr l' = l_terr l /\ l_enc l' = l_enc l /\ l_mod l' = l_mod l /\
    (b = false -> l' = l) /\
    (b = true -> l_lang l' <> l_lang l /\ length (l_lang l) = 3%nat /\ length (l_lang l') = 2%nat).
Proof. apply fix_codes_changes, gen_table_ok. Qed.

(* a three-letter code of data/iso-codes with a two-letter equivalent is mapped to it, one without is kept,
   a two-letter code is kept *)
Theorem fix_raw_gen munch lll ll : In (lll, ll) iso_639_raw -> forall l, l_lang l = lll -> terr_known (gen_cfg munch) (l_terr l) ->
  (ll <> [] -> fix_codes (gen_cfg munch) l = Ok (mkLang ll (l_terr l) (l_enc l) (l_mod l), true) /\
               fix_codes (gen_cfg munch) (mkLang ll (l_terr l) (l_enc l) (l_mod l)) = Ok (mkLang ll (l_terr l) (l_enc l) (l_mod l), false)) /\
  (ll = [] -> fix_codes (gen_cfg munch) l = Ok (l, false)).
Proof.
  intros Hin l Hl Hk.
  pose proof fix_table as H. unfold tables_ok in H. rewrite !andb_true_iff in H.
  destruct H as [[_ Hraw] _]. rewrite forallb_forall in Hraw. specialize (Hraw _ Hin).
  unfold raw_entry_ok in Hraw. cbn [fst snd] in Hraw. apply andb_true_iff in Hraw. destruct Hraw as [H3 Hraw].
  apply Nat.eqb_eq in H3.
  split.
  - intros Hne. destruct ll as [|c ll0]; [congruence|]. cbn [is_nil] in Hraw.
    rewrite !andb_true_iff, !lookup_is_spec, Nat.eqb_eq in Hraw. destruct Hraw as [[H2 Ha] Hb].
    split.
    + apply fix_codes_ok_iff. exists (c :: ll0). rewrite Hl. repeat split; auto.
      symmetry. apply negb_true_iff, lg_eqb_false. intros E. rewrite E in H2. lia.
    + apply fix_codes_ok_iff. cbn [l_lang l_terr l_enc l_mod]. exists (c :: ll0). rewrite lg_eqb_refl. auto.
  - intros ->. cbn [is_nil] in Hraw. apply lookup_is_spec in Hraw.
    apply fix_codes_ok_iff. exists lll. rewrite Hl. repeat split; auto.
    + destruct l; cbn in *; congruence.
    + rewrite lg_eqb_refl. reflexivity.
Qed.

(* a language code is known only if data/iso-codes lists it (as a three-letter code or as a two-letter equivalent) *)
Theorem known_from_raw munch k v : lg_lookup (cfg_iso639 (gen_cfg munch)) k = Some v ->
  exists lll ll, In (lll, ll) iso_639_raw /\ (k = lll \/ (ll <> [] /\ k = ll)).
Proof.
  intros H. apply lg_lookup_in in H.
  pose proof fix_table as Ht. unfold tables_ok in Ht. rewrite !andb_true_iff in Ht.
  destruct Ht as [_ Hk]. rewrite forallb_forall in Hk. specialize (Hk _ H).
  unfold key_from_raw in Hk. apply existsb_exists in Hk. destruct Hk as ([lll ll] & Hin & Hp).
  cbn [fst snd] in Hp. exists lll, ll. split; [exact Hin|].
  rewrite orb_true_iff, andb_true_iff, !lg_eqb_spec in Hp. destruct Hp as [Hp|[Hn Hp]]; [auto|].
  right. split; [|exact Hp]. destruct ll; [discriminate|congruence].
Qed.

(* Source tie for lib/strformat/pybrace.py (notes/SRC12.md): the translations of FormatString.add_argument, Field.__init__
   and FormatString.__init__ (Generated/BraceSrc.v, regenerated from the working tree on every run) equal
   Model/FmtPyBrace.add_argument / field_init / pybrace_parse for all arguments, when str.isdecimal, int() and the three
   regular expressions are the model's oracles and scanners. *)
From Coq Require Import List NArith ZArith Bool Lia.
From I18n Require Import Lib.Outcome Model.FmtPerlBrace Model.FmtBracePy Generated.BraceSrc Model.FmtPyBrace.
Import ListNotations.

(* ---------------------------------------------------------------- generic facts *)
Definition of_pb {A} (x : outcome A pb_err) : bres pb_err A := of_outcome x.

Lemma of_pb_bind {A B} (x : outcome A pb_err) (f : A -> outcome B pb_err) :
  of_pb (obind x f) = bbind (of_pb x) (fun a => of_pb (f a)).
Proof. destruct x; reflexivity. Qed.

Lemma bbind_assoc {E A B C} (x : bres E A) (f : A -> bres E B) (g : B -> bres E C) :
  bbind (bbind x f) g = bbind x (fun a => bbind (f a) g).
Proof. destruct x; reflexivity. Qed.

Lemma bbind_ext {E A B} (x y : bres E A) (f g : A -> bres E B) :
  x = y -> (forall a, f a = g a) -> bbind x f = bbind y g.
Proof. intros -> H. destruct y; cbn; [apply H|reflexivity]. Qed.

Lemma list_eqb_refl a : FmtPyBrace.list_eqb a a = true.
Proof. induction a as [|x a IH]; cbn; [reflexivity|]. rewrite N.eqb_refl. exact IH. Qed.
Lemma akey_eqb_refl k : akey_eqb k k = true.
Proof. destruct k; cbn; [apply Z.eqb_refl|apply list_eqb_refl]. Qed.

(* ---------------------------------------------------------------- objects kept in the map *)
Lemma list_set_app_lt {A} (c : A) : forall i cs x, (i < length cs)%nat -> list_set i c (cs ++ x) = list_set i c cs ++ x.
Proof.
  induction i as [|i IH]; intros [|y cs] x Hl; cbn [length] in Hl; try lia; cbn [list_set app]; [reflexivity|].
  f_equal. apply IH. lia.
Qed.
Lemma list_set_last {A} (c c0 : A) : forall cs, list_set (length cs) c (cs ++ [c0]) = cs ++ [c].
Proof. induction cs as [|y cs IH]; cbn [length list_set app]; [reflexivity|]. f_equal. exact IH. Qed.
Lemma list_set_length {A} (c : A) : forall i cs, length (list_set i c cs) = length cs.
Proof. induction i as [|i IH]; intros [|y cs]; cbn [list_set length]; try reflexivity. f_equal. apply IH. Qed.

(* assigning the attribute of the object that was filed last under k *)
Lemma amap_set_append k c c0 : forall m, amap_set (k, amap_count k m) c (amap_append k c0 m) = amap_append k c m.
Proof.
  induction m as [|[k0 cs] r IH]; cbn [amap_count amap_append amap_set fst snd].
  - rewrite akey_eqb_refl. reflexivity.
  - destruct (akey_eqb k0 k) eqn:E; cbn [amap_set fst snd]; rewrite E.
    + rewrite list_set_last. reflexivity.
    + f_equal. exact IH.
Qed.

Lemma amap_count_append k c : forall m, amap_count k (amap_append k c m) = S (amap_count k m).
Proof.
  induction m as [|[k0 cs] r IH]; cbn [amap_count amap_append].
  - rewrite akey_eqb_refl. reflexivity.
  - destruct (akey_eqb k0 k) eqn:E; cbn [amap_count]; rewrite E; [rewrite app_length; cbn; lia|exact IH].
Qed.
Lemma amap_count_append_le k k' c : forall m, (amap_count k m <= amap_count k (amap_append k' c m))%nat.
Proof.
  induction m as [|[k0 cs] r IH]; cbn [amap_count amap_append]; [lia|].
  destruct (akey_eqb k0 k') eqn:E'; cbn [amap_count]; destruct (akey_eqb k0 k) eqn:E; rewrite ?app_length; try lia; exact IH.
Qed.
Lemma amap_count_set k p c : forall m, amap_count k (amap_set p c m) = amap_count k m.
Proof.
  induction m as [|[k0 cs] r IH]; cbn [amap_count amap_set]; [reflexivity|].
  destruct (akey_eqb k0 (fst p)); cbn [amap_count]; destruct (akey_eqb k0 k); try reflexivity; try apply list_set_length; exact IH.
Qed.

(* an assignment to an object already in the map commutes with filing another one *)
Lemma amap_append_set k c' p c : forall m, (snd p < amap_count (fst p) m)%nat ->
  amap_append k c' (amap_set p c m) = amap_set p c (amap_append k c' m).
Proof.
  induction m as [|[k0 cs] r IH]; cbn [amap_count amap_append amap_set]; intros Hv; [lia|].
  destruct (akey_eqb k0 (fst p)) eqn:Ep; destruct (akey_eqb k0 k) eqn:Ek; cbn [amap_append amap_set]; rewrite ?Ep, ?Ek.
  - rewrite list_set_app_lt by exact Hv. reflexivity.
  - reflexivity.
  - reflexivity.
  - f_equal. apply IH. exact Hv.
Qed.

(* the model's map as a map of cells *)
Definition cell_of (k : fkind) : cell := Some (fk_types k).
Definition img (m : list (akey * list fkind)) : amap := map (fun kv => (fst kv, map cell_of (snd kv))) m.
Definition st_of (st : bstate) : pbstate := {| s_amap := Some (img (b_map st)); s_next := b_next st |}.

Lemma img_add k f : forall m, img (bmap_add k f m) = amap_append k (cell_of f) (img m).
Proof.
  induction m as [|[k0 fs] r IH]; cbn [bmap_add img map amap_append fst snd]; [reflexivity|].
  destruct (akey_eqb k0 k); cbn [img map fst snd]; [rewrite map_app; reflexivity|]. f_equal. exact IH.
Qed.

Section Py.
Variable U : ucd.
Notation M := src_ssize_max.

Definition model_oracles : pb_oracles := {|
  o_isdecimal := fun nm => match nm with [] => false | _ => forallb (u_isdecimal U) nm end;
  o_int := @py_int U pb_err;
  o_format_spec_match := m_format_spec U |}.
Notation O := model_oracles.

Lemma py_int_any {E1 E2} s :
  @py_int U E1 s = match @py_int U E2 s with Ok v => Ok v | Err _ => Crash CValueError | Crash c => Crash c end /\
  (forall c, @py_int U E2 s = Crash c -> c = CValueError) /\ (forall e, @py_int U E2 s <> Err e).
Proof.
  unfold py_int. destruct (negb (max_digits_ok U (length s))); [repeat split; congruence|].
  destruct s as [|c r]; [repeat split; congruence|]. destruct (forallb (u_isdecimal U) (c :: r)); [|repeat split; congruence].
  destruct (dec_value U (c :: r) 0); repeat split; congruence.
Qed.

(* ---------------------------------------------------------------- add_argument *)
Definition of_add (m : amap) (c : cell) (x : outcome (akey * bstate) add_exc) : bres pb_err (pbstate * oref) :=
  match x with
  | Ok (k, st') => BRet ({| s_amap := Some (amap_append k c m); s_next := b_next st' |}, (k, amap_count k m))
  | Err XIndex => BRaise XIndexError
  | Err XOverflow => BRaise XOverflowError
  | Crash cr => BRaise (XCrash cr)
  end.

Theorem src_add_argument_eq st m name c :
  src_pybrace_add_argument O {| s_amap := Some m; s_next := b_next st |} name c = of_add m c (add_argument U M st name).
Proof.
  destruct st as [nx mp]. unfold src_pybrace_add_argument, add_argument, of_add. cbn [s_amap s_next o_isdecimal o_int model_oracles b_next b_map].
  destruct name as [nm|].
  - destruct (match nm with [] => false | _ :: _ => forallb (u_isdecimal U) nm end); [|reflexivity].
    destruct (@py_int_any add_exc pb_err nm) as [H1 [H2 H3]]. rewrite H1.
    destruct (@py_int U pb_err nm) as [v|e|cr] eqn:Ei; cbn [of_outcome bbind obind]; [|exfalso; exact (H3 e eq_refl)|reflexivity].
    destruct (Z.gtb v M); [reflexivity|]. destruct nx as [i|]; [|reflexivity].
    destruct (Z.eqb i 0); reflexivity.
  - destruct nx as [n|]; [|reflexivity]. destruct (Z.gtb n M); reflexivity.
Qed.

Lemma add_argument_map st name k st' : add_argument U M st name = Ok (k, st') -> b_map st' = b_map st.
Proof.
  unfold add_argument. destruct name as [nm|].
  - destruct (match nm with [] => false | _ :: _ => forallb (u_isdecimal U) nm end).
    + destruct (@py_int U add_exc nm); cbn [obind]; try discriminate. destruct (Z.gtb a M); [discriminate|].
      destruct (b_next st) as [i|]; [destruct (Z.eqb i 0); [|discriminate]|]; intros H; inversion H; reflexivity.
    + intros H; inversion H; reflexivity.
  - destruct (b_next st) as [n|]; [|discriminate]. destruct (Z.gtb n M); [discriminate|]. intros H; inversion H; reflexivity.
Qed.

Lemma add_argument_crash st name cr : add_argument U M st name = Crash cr -> cr = CValueError.
Proof.
  unfold add_argument. destruct name as [nm|].
  - destruct (match nm with [] => false | _ :: _ => forallb (u_isdecimal U) nm end); [|discriminate].
    destruct (@py_int_any add_exc add_exc nm) as [_ [H2 _]].
    destruct (@py_int U add_exc nm) eqn:Ei; cbn [obind].
    + destruct (Z.gtb a M); [discriminate|]. destruct (b_next st) as [i|]; [destruct (Z.eqb i 0)|]; discriminate.
    + discriminate.
    + intros H; inversion H; subst. apply H2. reflexivity.
  - destruct (b_next st) as [n|]; [|discriminate]. destruct (Z.gtb n M); discriminate.
Qed.

(* the try / except around add_argument in Field.__init__ *)
Definition of_lift (m : amap) (c : cell) (x : outcome (akey * bstate) add_exc) : bres pb_err (pbstate * oref) :=
  match lift_add x with
  | Ok (k, st') => BRet ({| s_amap := Some (amap_append k c m); s_next := b_next st' |}, (k, amap_count k m))
  | Err e => BRaise (XOwn e)
  | Crash cr => BRaise (XCrash cr)
  end.

Lemma src_add_argument_eq' m nx name c :
  src_pybrace_add_argument O {| s_amap := Some m; s_next := nx |} name c =
  of_add m c (add_argument U M {| b_next := nx; b_map := [] |} name).
Proof. exact (src_add_argument_eq {| b_next := nx; b_map := [] |} m name c). Qed.

(* ---------------------------------------------------------------- the loop over the nested fields *)
Definition of_st (x : outcome bstate pb_err) : bres pb_err pbstate :=
  match x with Ok st => BRet (st_of st) | Err e => BRaise (XOwn e) | Crash c => BRaise (XCrash c) end.
Lemma of_st_bind {A} (x : outcome A pb_err) (f : A -> outcome bstate pb_err) :
  of_st (obind x f) = bbind (of_pb x) (fun a => of_st (f a)).
Proof. destruct x; reflexivity. Qed.

(* the names the scanner reports for nested fields are never empty strings (m_field_nested_ok below) *)
Definition nested_ok (ns : list (option (list N))) : Prop := Forall (fun o => o <> Some []) ns.

Lemma nested_text_first o : str_first (nested_text o) = Some 123%N.
Proof. reflexivity. Qed.
Lemma str_last_snoc (l : pystr) x : str_last (l ++ [x]) = Some x.
Proof.
  unfold str_last. destruct (l ++ [x]) eqn:E; [destruct l; discriminate|]. rewrite <- E, last_last. reflexivity.
Qed.
Lemma nested_text_last o : str_last (nested_text o) = Some 125%N.
Proof. exact (str_last_snoc (123%N :: match o with Some n => n | None => [] end) 125%N). Qed.
Lemma nested_text_inner o : o <> Some [] ->
  (if str_nonempty (str_inner (nested_text o)) then Some (str_inner (nested_text o)) else None) = o.
Proof.
  intros Ho. unfold str_inner, nested_text. cbn [tl]. rewrite removelast_last.
  destruct o as [[|c r]|]; [congruence|reflexivity|reflexivity].
Qed.

(* assigning `types` of an object already filed commutes with the loop *)
Lemma nested_loop_set vs self p c : forall l m nx, (snd p < amap_count (fst p) m)%nat ->
  src_pybrace_field_loop1 O {| s_amap := Some (amap_set p c m); s_next := nx |} vs self l =
  bbind (src_pybrace_field_loop1 O {| s_amap := Some m; s_next := nx |} vs self l) (fun w => BRet (state_set_cell w p c)).
Proof.
  induction l as [|sub l IH]; intros m nx Hv; cbn [src_pybrace_field_loop1]; [reflexivity|].
  destruct (str_first sub) as [c1|]; cbn [bbind]; [|reflexivity].
  destruct (negb (N.eqb c1 123)); [reflexivity|].
  destruct (str_last sub) as [c2|]; cbn [bbind]; [|reflexivity].
  destruct (negb (N.eqb c2 125)); [reflexivity|].
  rewrite !src_add_argument_eq'.
  match goal with |- context [add_argument U M ?s ?n] => destruct (add_argument U M s n) as [[k st']|[]|cr] end; cbn [of_add].
  - rewrite ?amap_count_set, amap_append_set by exact Hv. apply IH.
    eapply Nat.lt_le_trans; [exact Hv|apply amap_count_append_le].
  - reflexivity.
  - reflexivity.
  - destruct (exn_is_index (@XCrash pb_err cr)); [reflexivity|]. destruct (exn_is_overflow (@XCrash pb_err cr)); reflexivity.
Qed.

Lemma nested_loop_eq vs self : forall ns st, nested_ok ns ->
  src_pybrace_field_loop1 O (st_of st) vs self (map nested_text ns) = of_st (add_nested U M st ns).
Proof.
  induction ns as [|o ns IH]; intros st Hok; cbn [map src_pybrace_field_loop1 add_nested of_st]; [reflexivity|].
  inversion Hok as [|? ? Ho Hok']; subst.
  rewrite nested_text_first, nested_text_last. cbn [bbind N.eqb negb]. rewrite !Pos.eqb_refl. cbn [negb].
  rewrite (nested_text_inner o Ho). unfold st_of at 1. rewrite src_add_argument_eq.
  destruct (add_argument U M st o) as [[k st']|[]|cr] eqn:Ea; cbn [of_add lift_add obind of_st].
  - rewrite <- IH by exact Hok'. unfold st_of, file_field. cbn [b_map b_next].
    rewrite img_add, (add_argument_map _ _ _ _ Ea). reflexivity.
  - reflexivity.
  - reflexivity.
  - rewrite (add_argument_crash _ _ _ Ea). reflexivity.
Qed.

(* ---------------------------------------------------------------- Field.__init__ *)
Lemma set_filed m key nx tp :
  state_set_cell {| s_amap := Some (amap_append key None m); s_next := nx |} (key, amap_count key m) (Some tp) =
  {| s_amap := Some (amap_append key (Some tp) m); s_next := nx |}.
Proof. unfold state_set_cell. cbn [s_amap s_next]. rewrite amap_set_append. reflexivity. Qed.

Lemma st_of_file st1 st key tp : b_map st1 = b_map st ->
  {| s_amap := Some (amap_append key (Some tp) (img (b_map st))); s_next := b_next st1 |} = st_of (file_field st1 key (FField tp)).
Proof. intros E. unfold st_of, file_field. cbn [b_map b_next]. rewrite img_add, E. reflexivity. Qed.

Ltac split_ifs :=
  repeat (cbn [bbind obind of_outcome]; match goal with
          | |- context [if ?c then _ else _] => destruct c eqn:?
          end); cbn [bbind obind of_outcome]; try reflexivity; try congruence.

Theorem src_field_init_eq st f a b : nested_ok (f_nested f) ->
  src_pybrace_field_init O (st_of st) {| pm_start := a; pm_end := b; pm_groups := BField f |} = of_st (field_init U M st f).
Proof.
  intros Hok. unfold src_pybrace_field_init, field_init.
  cbn [pm_groups pbi_name pbi_text pbi_format pbi_conversion pbi_findall_simple].
  unfold st_of at 1. rewrite src_add_argument_eq.
  destruct (add_argument U M st (f_name f)) as [[key st1]|[]|cr] eqn:Ea; cbn [of_add lift_add obind of_st].
  2: reflexivity. 2: reflexivity. 2: rewrite (add_argument_crash _ _ _ Ea); reflexivity.
  pose proof (add_argument_map _ _ _ _ Ea) as Em.
  destruct (f_fmt f) as [fmt|].
  2: { (* no format spec *)
    cbn [bbind]. unfold conv_check. destruct (f_conv f) as [cv|]; cbn [obind of_st].
    - unfold str_in, existsb, s_conv_s, s_conv_r, s_conv_a.
      destruct (FmtPyBrace.list_eqb cv [33; 115]%N), (FmtPyBrace.list_eqb cv [33; 114]%N), (FmtPyBrace.list_eqb cv [33; 97]%N);
        cbn [orb negb t_str t_all obind of_st]; rewrite ?set_filed, ?(st_of_file _ _ _ _ Em); reflexivity.
    - rewrite set_filed, (st_of_file _ _ _ _ Em). reflexivity. }
  unfold str_has. destruct (existsb (N.eqb 123) fmt).
  - (* nested fields *)
    rewrite bbind_assoc.
    assert (H : bbind (src_pybrace_field_loop1 O {| s_amap := Some (amap_append key None (img (b_map st))); s_next := b_next st1 |}
                         (f_text f) (key, amap_count key (img (b_map st))) (map nested_text (f_nested f)))
                      (fun w => BRet (state_set_cell w (key, amap_count key (img (b_map st))) (Some t_all))) =
                of_st (add_nested U M (file_field st1 key (FField t_all)) (f_nested f))).
    { rewrite <- nested_loop_set by (cbn [fst snd]; rewrite amap_count_append; lia).
      rewrite amap_set_append, (st_of_file _ _ _ _ Em). apply nested_loop_eq. exact Hok. }
    destruct (src_pybrace_field_loop1 O _ (f_text f) _ (map nested_text (f_nested f))) as [wr|x];
      destruct (add_nested U M (file_field st1 key (FField t_all)) (f_nested f)) as [st2|e|c2];
      cbn [bbind of_st] in H; try discriminate; cbn [bbind obind of_st].
    + assert (H' : state_set_cell wr (key, amap_count key (img (b_map st))) (Some t_all) = st_of st2) by congruence.
      unfold t_all in H'. unfold conv_check. destruct (f_conv f) as [cv|]; cbn [obind of_st].
      * unfold str_in, existsb, s_conv_s, s_conv_r, s_conv_a.
        destruct (FmtPyBrace.list_eqb cv [33; 115]%N), (FmtPyBrace.list_eqb cv [33; 114]%N), (FmtPyBrace.list_eqb cv [33; 97]%N);
          cbn [orb negb t_str t_all obind of_st]; rewrite ?H'; reflexivity.
      * rewrite H'. reflexivity.
    + exact H.
    + exact H.
  - (* a format spec without nested fields *)
    destruct fmt as [|c ft]; cbn [str_first bbind]; [reflexivity|].
    destruct (N.eqb c 58); cbn [negb]; [|reflexivity].
    cbn [str_tail List.tl o_format_spec_match model_oracles]. unfold spec_types.
    destruct (m_format_spec U ft) as [m|]; [|reflexivity].
    assert (Hconv : forall tp,
      match f_conv f with
      | Some x =>
        if str_in x [[33; 115]; [33; 114]; [33; 97]]%N
        then if negb (t_str tp) then BRaise (XOwn BFormatTypeMismatch)
             else BRet (state_set_cell {| s_amap := Some (amap_append key None (img (b_map st))); s_next := b_next st1 |}
                          (key, amap_count key (img (b_map st))) (Some tp))
        else BRaise (XOwn BConversionError)
      | None => BRet (state_set_cell {| s_amap := Some (amap_append key None (img (b_map st))); s_next := b_next st1 |}
                        (key, amap_count key (img (b_map st))) (Some tp))
      end = of_st (do _ <- conv_check (f_conv f) tp; Ok (file_field st1 key (FField tp)))).
    { intros tp. rewrite set_filed, (st_of_file _ _ _ _ Em). unfold conv_check. destruct (f_conv f) as [cv|]; [|reflexivity].
      unfold str_in, existsb, s_conv_s, s_conv_r, s_conv_a.
      destruct (FmtPyBrace.list_eqb cv [33; 115]%N), (FmtPyBrace.list_eqb cv [33; 114]%N), (FmtPyBrace.list_eqb cv [33; 97]%N);
        cbn [orb]; destruct (t_str tp); reflexivity. }
    rewrite !bbind_assoc, of_st_bind, !of_pb_bind, !bbind_assoc.
    (* presentation type *)
    apply bbind_ext.
    { unfold char_in, t_num, t_all, of_pb. destruct (sp_type m) as [x|]; [|reflexivity]. split_ifs. }
    intros tp. cbv beta zeta. rewrite ?bbind_assoc, ?of_pb_bind, ?bbind_assoc.
    (* "#", sign, "," *)
    apply bbind_ext.
    { unfold opt_some, FmtPyBrace.is_some, t_num, of_pb. destruct (sp_sign m); split_ifs. }
    intros tp0. cbv beta zeta. rewrite ?bbind_assoc, ?of_pb_bind, ?bbind_assoc.
    (* alignment, "0" *)
    destruct (sp_align m) as [al|]; destruct (sp_zero m); cbn [opt_some negb andb bbind];
      rewrite ?bbind_assoc, ?of_pb_bind, ?bbind_assoc;
      (apply bbind_ext; [unfold optchar_eqb, t_num, of_pb; split_ifs|intros tp1; cbv beta zeta]).
    (* width *)
    all: rewrite ?bbind_assoc, ?of_pb_bind, ?bbind_assoc;
      (apply bbind_ext;
       [destruct (sp_width m) as [w|]; [|reflexivity]; cbn [o_int model_oracles]; unfold of_pb;
        destruct (py_int U w); cbn [of_outcome bbind obind]; try reflexivity; split_ifs
       |intros _]).
    (* precision, then the conversion *)
    all: destruct (sp_prec m) as [pr|]; cbn [bbind of_pb of_outcome]; [|apply Hconv].
    all: destruct (t_empty (t_and tp1 {| t_str := true; t_int := false; t_float := true |})); [reflexivity|].
    all: cbn [o_int model_oracles]; destruct (py_int U pr) as [v|e|cr']; cbn [of_outcome bbind obind]; try reflexivity.
    all: destruct (Z.gtb v M); cbn [of_outcome bbind]; [reflexivity|apply Hconv].
Qed.

End Py.

(* Source tie for lib/strformat/pybrace.py (notes/SRC12.md): the translations of FormatString.add_argument, Field.__init__
   and FormatString.__init__ (Generated/BraceSrc.v, regenerated from the working tree on every run) equal
   Model/FmtPyBrace.add_argument / field_init / pybrace_parse for all arguments, when str.isdecimal, int() and the three
   regular expressions are the model's oracles and scanners. *)
From Coq Require Import List NArith ZArith Bool Lia.
From I18n Require Import Lib.Outcome Model.FmtPerlBrace Model.FmtBracePy Generated.BraceSrc Proofs.BraceSrcPerl Model.FmtPyBrace Proofs.FmtPyBrace.
Import ListNotations.

(* ---------------------------------------------------------------- generic facts *)
Definition of_pb {A} (x : outcome A pb_err) : bres pb_err A := of_outcome x.

Lemma of_pb_bind {A B} (x : outcome A pb_err) (f : A -> outcome B pb_err) :
  of_pb (obind x f) = bbind (of_pb x) (fun a => of_pb (f a)).
Proof. destruct x; reflexivity. Qed.

Lemma bbind_assoc {E A B C} (x : bres E A) (f : A -> bres E B) (g : B -> bres E C) :
  bbind (bbind x f) g = bbind x (fun a => bbind (f a) g).
Proof. destruct x; reflexivity. Qed.

Lemma bbind_ext {E A B} (x y : bres E A) (f g : A -> bres E B) :
  x = y -> (forall a, f a = g a) -> bbind x f = bbind y g.
Proof. intros -> H. destruct y; cbn; [apply H|reflexivity]. Qed.

Lemma list_eqb_refl a : FmtPyBrace.list_eqb a a = true.
Proof. induction a as [|x a IH]; cbn; [reflexivity|]. rewrite N.eqb_refl. exact IH. Qed.
Lemma akey_eqb_refl k : akey_eqb k k = true.
Proof. destruct k; cbn; [apply Z.eqb_refl|apply list_eqb_refl]. Qed.

(* ---------------------------------------------------------------- objects kept in the map *)
Lemma list_set_app_lt {A} (c : A) : forall i cs x, (i < length cs)%nat -> list_set i c (cs ++ x) = list_set i c cs ++ x.
Proof.
  induction i as [|i IH]; intros [|y cs] x Hl; cbn [length] in Hl; try lia; cbn [list_set app]; [reflexivity|].
  f_equal. apply IH. lia.
Qed.
Lemma list_set_last {A} (c c0 : A) : forall cs, list_set (length cs) c (cs ++ [c0]) = cs ++ [c].
Proof. induction cs as [|y cs IH]; cbn [length list_set app]; [reflexivity|]. f_equal. exact IH. Qed.
Lemma list_set_length {A} (c : A) : forall i cs, length (list_set i c cs) = length cs.
Proof. induction i as [|i IH]; intros [|y cs]; cbn [list_set length]; try reflexivity. f_equal. apply IH. Qed.

(* assigning the attribute of the object that was filed last under k *)
Lemma amap_set_append k c c0 : forall m, amap_set (k, amap_count k m) c (amap_append k c0 m) = amap_append k c m.
Proof.
  induction m as [|[k0 cs] r IH]; cbn [amap_count amap_append amap_set fst snd].
  - rewrite akey_eqb_refl. reflexivity.
  - destruct (akey_eqb k0 k) eqn:E; cbn [amap_set fst snd]; rewrite E.
    + rewrite list_set_last. reflexivity.
    + f_equal. exact IH.
Qed.

Lemma amap_count_append k c : forall m, amap_count k (amap_append k c m) = S (amap_count k m).
Proof.
  induction m as [|[k0 cs] r IH]; cbn [amap_count amap_append].
  - rewrite akey_eqb_refl. reflexivity.
  - destruct (akey_eqb k0 k) eqn:E; cbn [amap_count]; rewrite E; [rewrite app_length; cbn; lia|exact IH].
Qed.
Lemma amap_count_append_le k k' c : forall m, (amap_count k m <= amap_count k (amap_append k' c m))%nat.
Proof.
  induction m as [|[k0 cs] r IH]; cbn [amap_count amap_append]; [lia|].
  destruct (akey_eqb k0 k') eqn:E'; cbn [amap_count]; destruct (akey_eqb k0 k) eqn:E; rewrite ?app_length; try lia; exact IH.
Qed.
Lemma amap_count_set k p c : forall m, amap_count k (amap_set p c m) = amap_count k m.
Proof.
  induction m as [|[k0 cs] r IH]; cbn [amap_count amap_set]; [reflexivity|].
  destruct (akey_eqb k0 (fst p)); cbn [amap_count]; destruct (akey_eqb k0 k); try reflexivity; try apply list_set_length; exact IH.
Qed.

(* an assignment to an object already in the map commutes with filing another one *)
Lemma amap_append_set k c' p c : forall m, (snd p < amap_count (fst p) m)%nat ->
  amap_append k c' (amap_set p c m) = amap_set p c (amap_append k c' m).
Proof.
  induction m as [|[k0 cs] r IH]; cbn [amap_count amap_append amap_set]; intros Hv; [lia|].
  destruct (akey_eqb k0 (fst p)) eqn:Ep; destruct (akey_eqb k0 k) eqn:Ek; cbn [amap_append amap_set]; rewrite ?Ep, ?Ek.
  - rewrite list_set_app_lt by exact Hv. reflexivity.
  - reflexivity.
  - reflexivity.
  - f_equal. apply IH. exact Hv.
Qed.

(* the model's map as a map of cells *)
Definition cell_of (k : fkind) : cell := Some (fk_types k).
Definition img (m : list (akey * list fkind)) : amap := map (fun kv => (fst kv, map cell_of (snd kv))) m.
Definition st_of (st : bstate) : pbstate := {| s_amap := Some (img (b_map st)); s_next := b_next st |}.

Lemma img_add k f : forall m, img (bmap_add k f m) = amap_append k (cell_of f) (img m).
Proof.
  induction m as [|[k0 fs] r IH]; cbn [bmap_add img map amap_append fst snd]; [reflexivity|].
  destruct (akey_eqb k0 k); cbn [img map fst snd]; [rewrite map_app; reflexivity|]. f_equal. exact IH.
Qed.

Section Py.
Variable U : ucd.
Notation M := src_ssize_max.

Definition model_oracles : pb_oracles := {|
  o_isdecimal := fun nm => match nm with [] => false | _ => forallb (u_isdecimal U) nm end;
  o_int := @py_int U pb_err;
  o_format_spec_match := m_format_spec U |}.
Notation O := model_oracles.

Lemma py_int_any {E1 E2} s :
  @py_int U E1 s = match @py_int U E2 s with Ok v => Ok v | Err _ => Crash CValueError | Crash c => Crash c end /\
  (forall c, @py_int U E2 s = Crash c -> c = CValueError) /\ (forall e, @py_int U E2 s <> Err e).
Proof.
  unfold py_int. destruct (negb (max_digits_ok U (length s))); [repeat split; congruence|].
  destruct s as [|c r]; [repeat split; congruence|]. destruct (forallb (u_isdecimal U) (c :: r)); [|repeat split; congruence].
  destruct (dec_value U (c :: r) 0); repeat split; congruence.
Qed.

(* ---------------------------------------------------------------- add_argument *)
Definition of_add (m : amap) (c : cell) (x : outcome (akey * bstate) add_exc) : bres pb_err (pbstate * oref) :=
  match x with
  | Ok (k, st') => BRet ({| s_amap := Some (amap_append k c m); s_next := b_next st' |}, (k, amap_count k m))
  | Err XIndex => BRaise XIndexError
  | Err XOverflow => BRaise XOverflowError
  | Crash cr => BRaise (XCrash cr)
  end.

Theorem src_add_argument_eq st m name c :
  src_pybrace_add_argument O {| s_amap := Some m; s_next := b_next st |} name c = of_add m c (add_argument U M st name).
Proof.
  destruct st as [nx mp]. unfold src_pybrace_add_argument, add_argument, of_add. cbn [s_amap s_next o_isdecimal o_int model_oracles b_next b_map].
  destruct name as [nm|].
  - destruct (match nm with [] => false | _ :: _ => forallb (u_isdecimal U) nm end); [|reflexivity].
    destruct (@py_int_any add_exc pb_err nm) as [H1 [H2 H3]]. rewrite H1.
    destruct (@py_int U pb_err nm) as [v|e|cr] eqn:Ei; cbn [of_outcome bbind obind]; [|exfalso; exact (H3 e eq_refl)|reflexivity].
    destruct (Z.gtb v M); [reflexivity|]. destruct nx as [i|]; [|reflexivity].
    destruct (Z.eqb i 0); reflexivity.
  - destruct nx as [n|]; [|reflexivity]. destruct (Z.gtb n M); reflexivity.
Qed.

Lemma add_argument_map st name k st' : add_argument U M st name = Ok (k, st') -> b_map st' = b_map st.
Proof.
  unfold add_argument. destruct name as [nm|].
  - destruct (match nm with [] => false | _ :: _ => forallb (u_isdecimal U) nm end).
    + destruct (@py_int U add_exc nm); cbn [obind]; try discriminate. destruct (Z.gtb a M); [discriminate|].
      destruct (b_next st) as [i|]; [destruct (Z.eqb i 0); [|discriminate]|]; intros H; inversion H; reflexivity.
    + intros H; inversion H; reflexivity.
  - destruct (b_next st) as [n|]; [|discriminate]. destruct (Z.gtb n M); [discriminate|]. intros H; inversion H; reflexivity.
Qed.

Lemma add_argument_crash st name cr : add_argument U M st name = Crash cr -> cr = CValueError.
Proof.
  unfold add_argument. destruct name as [nm|].
  - destruct (match nm with [] => false | _ :: _ => forallb (u_isdecimal U) nm end); [|discriminate].
    destruct (@py_int_any add_exc add_exc nm) as [_ [H2 _]].
    destruct (@py_int U add_exc nm) eqn:Ei; cbn [obind].
    + destruct (Z.gtb a M); [discriminate|]. destruct (b_next st) as [i|]; [destruct (Z.eqb i 0)|]; discriminate.
    + discriminate.
    + intros H; inversion H; subst. apply H2. reflexivity.
  - destruct (b_next st) as [n|]; [|discriminate]. destruct (Z.gtb n M); discriminate.
Qed.

(* the try / except around add_argument in Field.__init__ *)
Definition of_lift (m : amap) (c : cell) (x : outcome (akey * bstate) add_exc) : bres pb_err (pbstate * oref) :=
  match lift_add x with
  | Ok (k, st') => BRet ({| s_amap := Some (amap_append k c m); s_next := b_next st' |}, (k, amap_count k m))
  | Err e => BRaise (XOwn e)
  | Crash cr => BRaise (XCrash cr)
  end.

Lemma src_add_argument_eq' m nx name c :
  src_pybrace_add_argument O {| s_amap := Some m; s_next := nx |} name c =
  of_add m c (add_argument U M {| b_next := nx; b_map := [] |} name).
Proof. exact (src_add_argument_eq {| b_next := nx; b_map := [] |} m name c). Qed.

(* ---------------------------------------------------------------- the loop over the nested fields *)
Definition of_st (x : outcome bstate pb_err) : bres pb_err pbstate :=
  match x with Ok st => BRet (st_of st) | Err e => BRaise (XOwn e) | Crash c => BRaise (XCrash c) end.
Lemma of_st_bind {A} (x : outcome A pb_err) (f : A -> outcome bstate pb_err) :
  of_st (obind x f) = bbind (of_pb x) (fun a => of_st (f a)).
Proof. destruct x; reflexivity. Qed.

(* the names the scanner reports for nested fields are never empty strings (m_field_nested_ok below) *)
Definition nested_ok (ns : list (option (list N))) : Prop := Forall (fun o => o <> Some []) ns.

Lemma nested_text_first o : str_first (nested_text o) = Some 123%N.
Proof. reflexivity. Qed.
Lemma str_last_snoc (l : pystr) x : str_last (l ++ [x]) = Some x.
Proof.
  unfold str_last. destruct (l ++ [x]) eqn:E; [destruct l; discriminate|]. rewrite <- E, last_last. reflexivity.
Qed.
Lemma nested_text_last o : str_last (nested_text o) = Some 125%N.
Proof. exact (str_last_snoc (123%N :: match o with Some n => n | None => [] end) 125%N). Qed.
Lemma nested_text_inner o : o <> Some [] ->
  (if str_nonempty (str_inner (nested_text o)) then Some (str_inner (nested_text o)) else None) = o.
Proof.
  intros Ho. unfold str_inner, nested_text. cbn [tl]. rewrite removelast_last.
  destruct o as [[|c r]|]; [congruence|reflexivity|reflexivity].
Qed.

(* assigning `types` of an object already filed commutes with the loop *)
Lemma nested_loop_set vs self p c : forall l m nx, (snd p < amap_count (fst p) m)%nat ->
  src_pybrace_field_loop1 O {| s_amap := Some (amap_set p c m); s_next := nx |} vs self l =
  bbind (src_pybrace_field_loop1 O {| s_amap := Some m; s_next := nx |} vs self l) (fun w => BRet (state_set_cell w p c)).
Proof.
  induction l as [|sub l IH]; intros m nx Hv; cbn [src_pybrace_field_loop1]; [reflexivity|].
  destruct (str_first sub) as [c1|]; cbn [bbind]; [|reflexivity].
  destruct (negb (N.eqb c1 123)); [reflexivity|].
  destruct (str_last sub) as [c2|]; cbn [bbind]; [|reflexivity].
  destruct (negb (N.eqb c2 125)); [reflexivity|].
  rewrite !src_add_argument_eq'.
  match goal with |- context [add_argument U M ?s ?n] => destruct (add_argument U M s n) as [[k st']|[]|cr] end; cbn [of_add].
  - rewrite ?amap_count_set, amap_append_set by exact Hv. apply IH.
    eapply Nat.lt_le_trans; [exact Hv|apply amap_count_append_le].
  - reflexivity.
  - reflexivity.
  - destruct (exn_is_index (@XCrash pb_err cr)); [reflexivity|]. destruct (exn_is_overflow (@XCrash pb_err cr)); reflexivity.
Qed.

Lemma nested_loop_eq vs self : forall ns st, nested_ok ns ->
  src_pybrace_field_loop1 O (st_of st) vs self (map nested_text ns) = of_st (add_nested U M st ns).
Proof.
  induction ns as [|o ns IH]; intros st Hok; cbn [map src_pybrace_field_loop1 add_nested of_st]; [reflexivity|].
  inversion Hok as [|? ? Ho Hok']; subst.
  rewrite nested_text_first, nested_text_last. cbn [bbind N.eqb negb]. rewrite !Pos.eqb_refl. cbn [negb].
  rewrite (nested_text_inner o Ho). unfold st_of at 1. rewrite src_add_argument_eq.
  destruct (add_argument U M st o) as [[k st']|[]|cr] eqn:Ea; cbn [of_add lift_add obind of_st].
  - rewrite <- IH by exact Hok'. unfold st_of, file_field. cbn [b_map b_next].
    rewrite img_add, (add_argument_map _ _ _ _ Ea). reflexivity.
  - reflexivity.
  - reflexivity.
  - rewrite (add_argument_crash _ _ _ Ea). reflexivity.
Qed.

(* ---------------------------------------------------------------- Field.__init__ *)
Lemma set_filed m key nx tp :
  state_set_cell {| s_amap := Some (amap_append key None m); s_next := nx |} (key, amap_count key m) (Some tp) =
  {| s_amap := Some (amap_append key (Some tp) m); s_next := nx |}.
Proof. unfold state_set_cell. cbn [s_amap s_next]. rewrite amap_set_append. reflexivity. Qed.

Lemma st_of_file st1 st key tp : b_map st1 = b_map st ->
  {| s_amap := Some (amap_append key (Some tp) (img (b_map st))); s_next := b_next st1 |} = st_of (file_field st1 key (FField tp)).
Proof. intros E. unfold st_of, file_field. cbn [b_map b_next]. rewrite img_add, E. reflexivity. Qed.

Ltac split_ifs :=
  repeat (cbn [bbind obind of_outcome]; match goal with
          | |- context [if ?c then _ else _] => destruct c eqn:?
          end); cbn [bbind obind of_outcome]; try reflexivity; try congruence.

(* x in {'!s', '!r', '!a'}, in whatever order the set is written *)
Ltac conv_set :=
  intros cv; unfold str_in, existsb, s_conv_s, s_conv_r, s_conv_a;
  destruct (FmtPyBrace.list_eqb cv [33; 115]%N), (FmtPyBrace.list_eqb cv [33; 114]%N), (FmtPyBrace.list_eqb cv [33; 97]%N); reflexivity.

Theorem src_field_init_eq st f a b : nested_ok (f_nested f) ->
  src_pybrace_field_init O (st_of st) {| pm_start := a; pm_end := b; pm_groups := BField f |} = of_st (field_init U M st f).
Proof.
  intros Hok. unfold src_pybrace_field_init, field_init.
  cbn [pm_groups pbi_name pbi_text pbi_format pbi_conversion pbi_findall_simple].
  unfold st_of at 1. rewrite src_add_argument_eq.
  destruct (add_argument U M st (f_name f)) as [[key st1]|[]|cr] eqn:Ea; cbn [of_add lift_add obind of_st].
  2: reflexivity. 2: reflexivity. 2: rewrite (add_argument_crash _ _ _ Ea); reflexivity.
  pose proof (add_argument_map _ _ _ _ Ea) as Em.
  destruct (f_fmt f) as [fmt|].
  2: { (* no format spec *)
    cbn [bbind]. unfold conv_check. destruct (f_conv f) as [cv|]; cbn [obind of_st].
    - unfold str_in, existsb, s_conv_s, s_conv_r, s_conv_a.
      destruct (FmtPyBrace.list_eqb cv [33; 115]%N), (FmtPyBrace.list_eqb cv [33; 114]%N), (FmtPyBrace.list_eqb cv [33; 97]%N);
        cbn [orb negb t_str t_all obind of_st]; rewrite ?set_filed, ?(st_of_file _ _ _ _ Em); reflexivity.
    - rewrite set_filed, (st_of_file _ _ _ _ Em). reflexivity. }
  unfold str_has. destruct (existsb (N.eqb 123) fmt).
  - (* nested fields *)
    rewrite bbind_assoc.
    assert (H : bbind (src_pybrace_field_loop1 O {| s_amap := Some (amap_append key None (img (b_map st))); s_next := b_next st1 |}
                         (f_text f) (key, amap_count key (img (b_map st))) (map nested_text (f_nested f)))
                      (fun w => BRet (state_set_cell w (key, amap_count key (img (b_map st))) (Some t_all))) =
                of_st (add_nested U M (file_field st1 key (FField t_all)) (f_nested f))).
    { rewrite <- nested_loop_set by (cbn [fst snd]; rewrite amap_count_append; lia).
      rewrite amap_set_append, (st_of_file _ _ _ _ Em). apply nested_loop_eq. exact Hok. }
    destruct (src_pybrace_field_loop1 O _ (f_text f) _ (map nested_text (f_nested f))) as [wr|x];
      destruct (add_nested U M (file_field st1 key (FField t_all)) (f_nested f)) as [st2|e|c2];
      cbn [bbind of_st] in H; try discriminate; cbn [bbind obind of_st].
    + assert (H' : state_set_cell wr (key, amap_count key (img (b_map st))) (Some t_all) = st_of st2) by congruence.
      unfold t_all in H'. unfold conv_check. destruct (f_conv f) as [cv|]; cbn [obind of_st].
      * unfold str_in, existsb, s_conv_s, s_conv_r, s_conv_a.
        destruct (FmtPyBrace.list_eqb cv [33; 115]%N), (FmtPyBrace.list_eqb cv [33; 114]%N), (FmtPyBrace.list_eqb cv [33; 97]%N);
          cbn [orb negb t_str t_all obind of_st]; rewrite ?H'; reflexivity.
      * rewrite H'. reflexivity.
    + exact H.
    + exact H.
  - (* a format spec without nested fields *)
    destruct fmt as [|c ft]; cbn [str_first bbind]; [reflexivity|].
    destruct (N.eqb c 58); cbn [negb]; [|reflexivity].
    cbn [str_tail List.tl o_format_spec_match model_oracles]. unfold spec_types.
    destruct (m_format_spec U ft) as [m|]; [|reflexivity].
    assert (Hconv : forall (l : list pystr),
      (forall cv, str_in cv l = (FmtPyBrace.list_eqb cv s_conv_s || FmtPyBrace.list_eqb cv s_conv_r || FmtPyBrace.list_eqb cv s_conv_a)) ->
      forall tp,
      match f_conv f with
      | Some x =>
        if str_in x l
        then if negb (t_str tp) then BRaise (XOwn BFormatTypeMismatch)
             else BRet (state_set_cell {| s_amap := Some (amap_append key None (img (b_map st))); s_next := b_next st1 |}
                          (key, amap_count key (img (b_map st))) (Some tp))
        else BRaise (XOwn BConversionError)
      | None => BRet (state_set_cell {| s_amap := Some (amap_append key None (img (b_map st))); s_next := b_next st1 |}
                        (key, amap_count key (img (b_map st))) (Some tp))
      end = of_st (do _ <- conv_check (f_conv f) tp; Ok (file_field st1 key (FField tp)))).
    { intros l Hl tp. rewrite set_filed, (st_of_file _ _ _ _ Em). unfold conv_check. destruct (f_conv f) as [cv|]; [|reflexivity].
      rewrite Hl. destruct (FmtPyBrace.list_eqb cv s_conv_s || FmtPyBrace.list_eqb cv s_conv_r || FmtPyBrace.list_eqb cv s_conv_a);
        destruct (t_str tp); reflexivity. }
    rewrite !bbind_assoc, of_st_bind, !of_pb_bind, !bbind_assoc.
    (* presentation type *)
    apply bbind_ext.
    { unfold char_in, t_num, t_all, of_pb. destruct (sp_type m) as [x|]; [|reflexivity]. split_ifs. }
    intros tp. cbv beta zeta. rewrite ?bbind_assoc, ?of_pb_bind, ?bbind_assoc.
    (* "#", sign, "," *)
    apply bbind_ext.
    { unfold opt_some, FmtPyBrace.is_some, t_num, of_pb. destruct (sp_sign m); split_ifs. }
    intros tp0. cbv beta zeta. rewrite ?bbind_assoc, ?of_pb_bind, ?bbind_assoc.
    (* alignment, "0" *)
    destruct (sp_align m) as [al|]; destruct (sp_zero m); cbn [opt_some negb andb bbind];
      rewrite ?bbind_assoc, ?of_pb_bind, ?bbind_assoc;
      (apply bbind_ext; [unfold optchar_eqb, t_num, of_pb; split_ifs|intros tp1; cbv beta zeta]).
    (* width *)
    all: rewrite ?bbind_assoc, ?of_pb_bind, ?bbind_assoc;
      (apply bbind_ext;
       [destruct (sp_width m) as [w|]; [|reflexivity]; cbn [o_int model_oracles]; unfold of_pb;
        destruct (py_int U w); cbn [of_outcome bbind obind]; try reflexivity; split_ifs
       |intros _]).
    (* precision, then the conversion *)
    all: destruct (sp_prec m) as [pr|]; cbn [bbind of_pb of_outcome]; [|apply Hconv; conv_set].
    all: destruct (t_empty (t_and tp1 {| t_str := true; t_int := false; t_float := true |})); [reflexivity|].
    all: cbn [o_int model_oracles]; destruct (py_int U pr) as [v|e|cr']; cbn [of_outcome bbind obind]; try reflexivity.
    all: destruct (Z.gtb v M); cbn [of_outcome bbind]; [reflexivity|apply Hconv; conv_set].
Qed.

(* ---------------------------------------------------------------- facts about the scanners: what is left is a suffix;
   the names reported for nested fields are not empty *)
Definition suffix (r s : list N) : Prop := exists x, s = x ++ r.
Lemma suffix_refl s : suffix s s.
Proof. exists []. reflexivity. Qed.
Lemma suffix_cons c r s : suffix r s -> suffix r (c :: s).
Proof. intros [x ->]. exists (c :: x). reflexivity. Qed.
Lemma suffix_trans a b c : suffix a b -> suffix b c -> suffix a c.
Proof. intros [x ->] [y ->]. exists (y ++ x). rewrite app_assoc. reflexivity. Qed.
Lemma span_suffix p s : suffix (snd (span p s)) s.
Proof. exists (fst (span p s)). symmetry. apply span_app. Qed.

Lemma m_ident_suffix s id r : m_ident U s = Some (id, r) -> suffix r s /\ id <> [].
Proof.
  unfold m_ident. destruct s as [|c t]; [discriminate|]. destruct (ident_start U c); [|discriminate].
  pose proof (span_suffix (u_w U) t) as H. destruct (span (u_w U) t) as [w r']. cbn [snd] in H.
  intros E; inversion E; subst. split; [apply suffix_cons; exact H|discriminate].
Qed.

Lemma m_name_tail_suffix fuel : forall s, suffix (snd (m_name_tail U fuel s)) s.
Proof.
  induction fuel as [|fuel IH]; intros s; cbn [m_name_tail]; [apply suffix_refl|].
  destruct s as [|c r]; [apply suffix_refl|]. destruct (N.eqb c 46).
  - destruct (m_ident U r) as [[id r']|] eqn:Ei; [|apply suffix_refl]. specialize (IH r').
    destruct (m_name_tail U fuel r') as [t r'']. cbn [snd] in *. apply suffix_cons.
    eapply suffix_trans; [exact IH|]. apply m_ident_suffix in Ei. apply Ei.
  - destruct (N.eqb c 91); [|apply suffix_refl].
    match goal with |- context [span ?p r] => pose proof (span_suffix p r) as Hs; destruct (span p r) as [ix r'] end.
    cbn [snd] in Hs. destruct ix as [|i0 ix]; [apply suffix_refl|]. destruct r' as [|c' r'']; [apply suffix_refl|].
    specialize (IH r''). destruct (m_name_tail U fuel r'') as [t r3]. cbn [snd] in *. apply suffix_cons.
    eapply suffix_trans; [exact IH|]. eapply suffix_trans; [|exact Hs]. apply suffix_cons, suffix_refl.
Qed.

Lemma m_field_name_suffix s n r : m_field_name U s = Some (n, r) -> suffix r s /\ n <> [].
Proof.
  unfold m_field_name. destruct s as [|c t]; [discriminate|]. destruct (u_d U c) eqn:Ed.
  - pose proof (span_suffix (u_d U) (c :: t)) as Hs. cbn [span] in *. rewrite Ed in *.
    destruct (span (u_d U) t) as [a b]. cbn [snd] in Hs.
    pose proof (m_name_tail_suffix (length b) b) as Ht. destruct (m_name_tail U (length b) b) as [t0 r']. cbn [snd] in Ht.
    intros E; inversion E; subst. split; [eapply suffix_trans; [exact Ht|exact Hs]|discriminate].
  - destruct (m_ident U (c :: t)) as [[id r0]|] eqn:Ei; [|discriminate]. apply m_ident_suffix in Ei as [H1 H2].
    pose proof (m_name_tail_suffix (length r0) r0) as Ht. destruct (m_name_tail U (length r0) r0) as [t0 r']. cbn [snd] in Ht.
    intros E; inversion E; subst. split; [eapply suffix_trans; [exact Ht|exact H1]|]. destruct id; [congruence|discriminate].
Qed.

Lemma m_simple_field_suffix s nm r : m_simple_field U s = Some (nm, r) -> suffix r s /\ nm <> Some [].
Proof.
  unfold m_simple_field. destruct s as [|c t]; [discriminate|]. destruct (N.eqb c 123); [|discriminate].
  destruct (m_field_name U t) as [[n r']|] eqn:En.
  - apply m_field_name_suffix in En as [H1 H2]. destruct r' as [|c1 r2]; [discriminate|]. destruct (N.eqb c1 125); [|discriminate].
    intros E; inversion E; subst. split; [|congruence]. apply suffix_cons. eapply suffix_trans; [|exact H1]. apply suffix_cons, suffix_refl.
  - destruct t as [|c1 r2]; [discriminate|]. destruct (N.eqb c1 125); [|discriminate].
    intros E; inversion E; subst. split; [apply suffix_cons, suffix_cons, suffix_refl|discriminate].
Qed.

Lemma m_format_body_facts fuel : forall s t ns r, m_format_body U fuel s = Some (t, ns, r) -> suffix r s /\ nested_ok ns.
Proof.
  induction fuel as [|fuel IH]; intros s t ns r; cbn [m_format_body]; [discriminate|].
  pose proof (span_suffix not_brace s) as Hs. destruct (span not_brace s) as [run r0]. cbn [snd] in Hs.
  destruct r0 as [|c r0']; [intros E; inversion E; subst; split; [exact Hs|constructor]|].
  destruct (N.eqb c 123); [|intros E; inversion E; subst; split; [exact Hs|constructor]].
  destruct (m_simple_field U (c :: r0')) as [[nm r']|] eqn:Esf; [|discriminate].
  destruct (m_format_body U fuel r') as [[[t' ns'] r'']|] eqn:Eb; [|discriminate].
  intros E; inversion E; subst. apply IH in Eb as [H1 H2]. apply m_simple_field_suffix in Esf as [H3 H4].
  split; [eapply suffix_trans; [exact H1|eapply suffix_trans; [exact H3|exact Hs]]|constructor; assumption].
Qed.

Lemma m_field_facts s f r : m_field U s = Some (f, r) -> suffix r s /\ nested_ok (f_nested f).
Proof.
  unfold m_field. destruct s as [|c t]; [discriminate|]. destruct (N.eqb c 123); [|discriminate].
  assert (H1 : suffix (snd (match m_field_name U t with Some (n, r') => (Some n, r') | None => (None, t) end)) t).
  { destruct (m_field_name U t) as [[n r']|] eqn:En; cbn [snd]; [apply m_field_name_suffix in En; apply En|apply suffix_refl]. }
  destruct (match m_field_name U t with Some (n, r') => (Some n, r') | None => (None, t) end) as [nm r1]. cbn [snd] in H1.
  set (cvr := match r1 with
              | c1 :: r1' => if N.eqb c1 33 then match span (u_w U) r1' with ((_ :: _) as w, r') => (Some (c1 :: w), r') | _ => (None, r1) end else (None, r1)
              | [] => (None, r1) end).
  assert (H2 : suffix (snd cvr) r1).
  { unfold cvr. destruct r1 as [|c1 r1']; [apply suffix_refl|]. destruct (N.eqb c1 33); [|apply suffix_refl].
    pose proof (span_suffix (u_w U) r1') as Hs. destruct (span (u_w U) r1') as [[|w0 w] r']; cbn [snd] in *; [apply suffix_refl|].
    apply suffix_cons. exact Hs. }
  destruct cvr as [cv r2]. cbn [snd] in H2.
  set (fmr := match r2 with
              | c2 :: r2' => if N.eqb c2 58 then match m_format_body U (S (length r2')) r2' with Some (t0, ns, r') => (Some (c2 :: t0), ns, r') | None => (None, [], r2) end else (None, [], r2)
              | [] => (None, [], r2) end).
  assert (H3 : suffix (snd fmr) r2 /\ nested_ok (snd (fst fmr))).
  { unfold fmr. destruct r2 as [|c2 r2']; [cbn; split; [apply suffix_refl|constructor]|].
    destruct (N.eqb c2 58); [|cbn; split; [apply suffix_refl|constructor]].
    destruct (m_format_body U (S (length r2')) r2') as [[[t0 ns] r']|] eqn:Eb; [|cbn; split; [apply suffix_refl|constructor]].
    apply m_format_body_facts in Eb as [Hb1 Hb2]. cbn [fst snd]. split; [apply suffix_cons; exact Hb1|exact Hb2]. }
  destruct fmr as [[fm ns] r3]. cbn [fst snd] in H3. destruct H3 as [H3 H4].
  destruct r3 as [|c3 r4]; [discriminate|]. destruct (N.eqb c3 125); [|discriminate].
  intros H; inversion H; subst. cbn [f_nested]. split; [|exact H4].
  apply suffix_cons. eapply suffix_trans; [|exact H1]. eapply suffix_trans; [|exact H2]. eapply suffix_trans; [|exact H3].
  apply suffix_cons, suffix_refl.
Qed.

Lemma m_field_re_facts s it r : m_field_re U s = Some (it, r) ->
  suffix r s /\ match it with BLit _ => True | BField f => nested_ok (f_nested f) end.
Proof.
  unfold m_field_re. pose proof (m_literal_app s) as Hl. destruct (m_literal s) as [[|t0 t] r0]; cbn [fst snd] in Hl.
  - destruct (m_field U s) as [[f r']|] eqn:Ef; [|discriminate]. apply m_field_facts in Ef.
    intros H; inversion H; subst. exact Ef.
  - intros H. injection H as <- <-. split; [exists (t0 :: t); symmetry; exact Hl|exact I].
Qed.

(* ---------------------------------------------------------------- the finditer loop of FormatString.__init__ *)
Definition pb_raise_prefix {A} (s : pystr) : bres pb_err A :=
  bbind (src_pybrace_printable_prefix s) (fun r => BRaise (XOwn (BError r))).

Lemma span_perl_py p : forall s, FmtPerlBrace.span p s = span p s.
Proof.
  induction s as [|c r IH]; cbn [FmtPerlBrace.span span]; [reflexivity|]. destruct (p c); [rewrite IH|]; reflexivity.
Qed.
Lemma pb_printable_eq {A} s : @pb_raise_prefix A s = of_pb (@printable_prefix A s).
Proof.
  unfold pb_raise_prefix, src_pybrace_printable_prefix, printable_match, printable_prefix.
  change FmtPerlBrace.is_printable_ascii with is_printable_ascii. rewrite span_perl_py.
  destruct (fst (span is_printable_ascii s)); reflexivity.
Qed.

Lemma src_pybrace_loop_eq {A} s0 (K : option amap * option Z * nat -> bres pb_err A) (KM : bstate -> bres pb_err A) :
  (forall lp am nx, lp <> length s0 -> K (am, nx, lp) = pb_raise_prefix (skipn lp s0)) ->
  (forall st, K (Some (img (b_map st)), b_next st, length s0) = KM st) ->
  forall fuel s pos st, (length s < fuel)%nat -> skipn pos s0 = s -> (pos + length s = length s0)%nat ->
  bbind (src_pybrace_init_loop1 O s0 (Some (img (b_map st))) (b_next st) pos (py_finditer (m_field_re U) fuel pos s)) K =
  match bloop U M fuel s st with Ok st' => KM st' | Err e => BRaise (XOwn e) | Crash c => BRaise (XCrash c) end.
Proof.
  intros HK1 HK2. induction fuel as [|fuel IH]; intros s pos st Hf Hs Hl; [lia|].
  cbn [py_finditer bloop]. destruct s as [|c r].
  - cbn [src_pybrace_init_loop1 bbind]. cbn [length] in Hl. replace pos with (length s0) by lia. apply HK2.
  - destruct (m_field_re U (c :: r)) as [[it rest]|] eqn:Em.
    + destruct (m_field_re_facts _ _ _ Em) as [[x Hx] Hn]. destruct (m_field_re_some _ _ _ _ Em) as [Hlen _].
      cbn [src_pybrace_init_loop1 pm_start pm_end pm_groups]. rewrite Nat.eqb_refl. cbn [negb].
      assert (Hs' : skipn (pos + (length (c :: r) - length rest)) s0 = rest) by (eapply skipn_suffix; eauto).
      assert (Hl' : (pos + (length (c :: r) - length rest) + length rest = length s0)%nat) by lia.
      assert (Hf' : (length rest < fuel)%nat) by (cbn [length] in *; lia).
      destruct it as [t|f]; cbn [pbi_literal].
      * apply IH; assumption.
      * change {| s_amap := Some (img (b_map st)); s_next := b_next st |} with (st_of st).
        rewrite src_field_init_eq by exact Hn.
        destruct (field_init U M st f) as [st'|e|cr]; cbn [of_st bbind obind]; [|reflexivity|reflexivity].
        cbn [st_of s_amap s_next]. apply IH; assumption.
    + transitivity (@pb_raise_prefix A (c :: r)).
      * destruct (py_finditer (m_field_re U) fuel (S pos) r) as [|m l] eqn:Ef.
        -- cbn [src_pybrace_init_loop1 bbind]. cbn [length] in Hl. rewrite HK1 by lia. rewrite Hs. reflexivity.
        -- apply finditer_head_ge in Ef. cbn [src_pybrace_init_loop1].
           replace (pm_start m =? pos)%nat with false by (symmetry; apply Nat.eqb_neq; lia). cbn [negb].
           unfold str_from. rewrite Hs. unfold pb_raise_prefix.
           destruct (@src_pybrace_printable_prefix pb_err (c :: r)); reflexivity.
      * rewrite pb_printable_eq. unfold of_pb, of_outcome, printable_prefix.
        destruct (fst (span is_printable_ascii (c :: r))); reflexivity.
Qed.

(* ---------------------------------------------------------------- every list of the map has an element *)
Definition map_ne (m : list (akey * list fkind)) : Prop := Forall (fun kv => snd kv <> []) m.

Lemma bmap_add_ne k f : forall m, map_ne m -> map_ne (bmap_add k f m).
Proof.
  induction m as [|[k0 fs] r IH]; intros H; cbn [bmap_add].
  - constructor; [discriminate|constructor].
  - inversion H as [|? ? H1 H2]; subst. destruct (akey_eqb k0 k).
    + constructor; [cbn [snd]; destruct fs; discriminate|exact H2].
    + constructor; [exact H1|apply IH; exact H2].
Qed.
Lemma add_nested_ne : forall ns st st', map_ne (b_map st) -> add_nested U M st ns = Ok st' -> map_ne (b_map st').
Proof.
  induction ns as [|o ns IH]; intros st st' Hne; cbn [add_nested]; [intros H; inversion H; subst; exact Hne|].
  destruct (add_argument U M st o) as [[k st1]|[]|] eqn:Ea; cbn [lift_add obind]; try discriminate.
  intros H. apply IH in H; [exact H|]. cbn [file_field b_map]. apply bmap_add_ne.
  rewrite (add_argument_map _ _ _ _ Ea). exact Hne.
Qed.
Lemma field_init_ne st f st' : map_ne (b_map st) -> field_init U M st f = Ok st' -> map_ne (b_map st').
Proof.
  intros Hne. unfold field_init.
  destruct (add_argument U M st (f_name f)) as [[k st1]|[]|] eqn:Ea; cbn [lift_add obind]; try discriminate.
  assert (H1 : forall tp, map_ne (b_map (file_field st1 k (FField tp)))).
  { intros tp. cbn [file_field b_map]. apply bmap_add_ne. rewrite (add_argument_map _ _ _ _ Ea). exact Hne. }
  destruct (f_fmt f) as [fmt|].
  - destruct (existsb (N.eqb 123) fmt).
    + destruct (add_nested U M (file_field st1 k (FField t_all)) (f_nested f)) as [st2| |] eqn:En; cbn [obind]; try discriminate.
      destruct (conv_check (f_conv f) t_all); cbn [obind]; try discriminate.
      intros H; inversion H; subst. eapply add_nested_ne; [apply H1|exact En].
    + destruct fmt as [|c ft]; [discriminate|]. destruct (N.eqb c 58); [|discriminate].
      destruct (spec_types U M (f_text f) ft) as [tp| |]; cbn [obind]; try discriminate.
      destruct (conv_check (f_conv f) tp); cbn [obind]; try discriminate. intros H; inversion H; subst. apply H1.
  - destruct (conv_check (f_conv f) t_all); cbn [obind]; try discriminate. intros H; inversion H; subst. apply H1.
Qed.
Lemma bloop_ne fuel : forall s st st', map_ne (b_map st) -> bloop U M fuel s st = Ok st' -> map_ne (b_map st').
Proof.
  induction fuel as [|fuel IH]; intros s st st' Hne; cbn [bloop]; [discriminate|].
  destruct s as [|c r]; [intros H; inversion H; subst; exact Hne|].
  destruct (m_field_re U (c :: r)) as [[[t|f] rest]|].
  - apply IH. exact Hne.
  - destruct (field_init U M st f) as [st1| |] eqn:Ef; cbn [obind]; try discriminate.
    apply IH. eapply field_init_ne; eauto.
  - unfold printable_prefix. destruct (fst (span is_printable_ascii (c :: r))); discriminate.
Qed.

(* ---------------------------------------------------------------- the final loop over _argument_map.items() *)
Lemma t_and_all t : t_and t_all t = t.
Proof. destruct t; reflexivity. Qed.
Lemma cells_and_eq : forall fs acc, @cells_and pb_err acc (map cell_of fs) = BRet (fold_left (fun a k => t_and a (fk_types k)) fs acc).
Proof. induction fs as [|k fs IH]; intros acc; cbn [map cells_and cell_of fold_left]; [reflexivity|apply IH]. Qed.
Lemma reduce_eq fs : fs <> [] -> @py_reduce_tand pb_err (map cell_of fs) = BRet (common_types fs).
Proof.
  destruct fs as [|k fs]; [congruence|]. intros _. unfold common_types. cbn [map py_reduce_tand cell_of fold_left].
  rewrite t_and_all. apply cells_and_eq.
Qed.

Definition cells_of_sig (kv : akey * list fkind) : akey * list cell :=
  (fst kv, map (fun _ : cell => Some (common_types (snd kv))) (map cell_of (snd kv))).

Lemma src_pybrace_loop2_eq vs : forall mm acc, map_ne mm ->
  src_pybrace_init_loop2 O vs acc (img mm) =
  if existsb (fun kv => t_empty (common_types (snd kv))) mm then BRaise (XOwn BTypeMismatch)
  else BRet (acc ++ map cells_of_sig mm).
Proof.
  induction mm as [|[k fs] r IH]; intros acc Hne; cbn [img map src_pybrace_init_loop2 existsb fst snd].
  - rewrite app_nil_r. reflexivity.
  - inversion Hne as [|? ? H1 H2]; subst. cbn [snd] in H1. rewrite (reduce_eq fs H1). cbn [bbind].
    destruct (t_empty (common_types fs)); cbn [orb]; [reflexivity|].
    fold (img r). rewrite IH by exact H2. destruct (existsb _ r); [reflexivity|].
    rewrite <- app_assoc. reflexivity.
Qed.

(* ---------------------------------------------------------------- FormatString.__init__ *)
Definition pb_attempt := m_field_re U.
Definition pb_finditer (s : pystr) : list (pymatch pb_item) := py_finditer pb_attempt (S (length s)) 0 s.

(* argument_map as the code leaves it: under every key, one `types` value per filed object, all equal *)
Definition sig_cells (sg : pb_sig) : amap :=
  map (fun kv => (fst kv, repeat (Some (fst (snd kv))) (snd (snd kv)))) (argument_map sg).
Definition of_sig (x : outcome pb_sig pb_err) : bres pb_err amap :=
  match x with Ok sg => BRet (sig_cells sg) | Err e => BRaise (XOwn e) | Crash c => BRaise (XCrash c) end.

Lemma map_const_repeat {A B} (v : B) : forall l : list A, map (fun _ => v) l = repeat v (length l).
Proof. induction l as [|x l IH]; cbn; [reflexivity|]. f_equal. exact IH. Qed.

Theorem src_pybrace_init_eq s : src_pybrace_init O pb_finditer s = of_sig (pybrace_parse U M s).
Proof.
  unfold src_pybrace_init, pybrace_parse, pb_finditer, pb_attempt. cbv zeta.
  change (Some (@nil (akey * list cell))) with (Some (img (b_map b0))). change (Some 0%Z) with (b_next b0).
  rewrite (src_pybrace_loop_eq s _
             (fun st => bbind (src_pybrace_init_loop2 O s [] (img (b_map st))) (fun m6 => BRet m6))).
  - destruct (bloop U M (S (length s)) s b0) as [st|e|c] eqn:Eb; cbn [obind of_sig]; try reflexivity.
    rewrite src_pybrace_loop2_eq by (eapply bloop_ne; [|exact Eb]; constructor).
    destruct (existsb _ (b_map st)); [reflexivity|]. cbn [bbind app of_sig]. f_equal.
    unfold sig_cells. cbn [argument_map]. rewrite map_map. apply map_ext. intros [k fs]. unfold cells_of_sig. cbn [fst snd].
    rewrite map_const_repeat, map_length. reflexivity.
  - intros lp am nx Hne. replace (lp =? length s)%nat with false by (symmetry; apply Nat.eqb_neq; exact Hne). reflexivity.
  - intros st. rewrite Nat.eqb_refl. reflexivity.
  - lia.
  - reflexivity.
  - cbn. lia.
Qed.

End Py.

(* ---------------------------------------------------------------- the texts the scanners of Model/FmtPyBrace.v were written for,
   the exception classes, the constants (hand-written copies: an edit of a pattern in the source makes the lemma false) *)
Definition pybrace_simple_field_pattern : pystr :=
  [91; 123; 93; 32; 40; 63; 58; 10; 32; 32; 32; 32; 40; 63; 58; 32; 92; 100; 43; 32; 124; 32; 91; 94; 92; 87; 92; 100; 93; 92; 119; 42; 32; 41; 10; 32; 32; 32; 32; 40; 63; 58; 10; 32; 32; 32; 32; 32; 32; 32; 32; 91; 46; 93; 32; 91; 94; 92; 87; 92; 100; 93; 92; 119; 42; 32; 124; 10; 32; 32; 32; 32; 32; 32; 32; 32; 92; 91; 32; 91; 94; 93; 93; 43; 32; 92; 93; 10; 32; 32; 32; 32; 41; 42; 10; 41; 32; 63; 32; 91; 125; 93]%N.
Definition pybrace_field_re_pattern : pystr :=
  [10; 32; 32; 32; 32; 40; 63; 80; 60; 108; 105; 116; 101; 114; 97; 108; 62; 32; 40; 63; 58; 32; 91; 94; 123; 125; 93; 32; 124; 32; 91; 123; 93; 123; 50; 125; 32; 124; 32; 91; 125; 93; 123; 50; 125; 32; 41; 43; 32; 41; 32; 124; 10; 32; 32; 32; 32; 40; 63; 58; 10; 32; 32; 32; 32; 32; 32; 32; 32; 91; 123; 93; 10; 32; 32; 32; 32; 32; 32; 32; 32; 32; 32; 32; 32; 40; 63; 58; 10; 32; 32; 32; 32; 32; 32; 32; 32; 32; 32; 32; 32; 32; 32; 32; 32; 40; 63; 80; 60; 110; 97; 109; 101; 62; 10; 32; 32; 32; 32; 40; 63; 58; 32; 92; 100; 43; 32; 124; 32; 91; 94; 92; 87; 92; 100; 93; 92; 119; 42; 32; 41; 10; 32; 32; 32; 32; 40; 63; 58; 10; 32; 32; 32; 32; 32; 32; 32; 32; 91; 46; 93; 32; 91; 94; 92; 87; 92; 100; 93; 92; 119; 42; 32; 124; 10; 32; 32; 32; 32; 32; 32; 32; 32; 92; 91; 32; 91; 94; 93; 93; 43; 32; 92; 93; 10; 32; 32; 32; 32; 41; 42; 10; 41; 32; 63; 10; 32; 32; 32; 32; 32; 32; 32; 32; 32; 32; 32; 32; 32; 32; 32; 32; 40; 63; 80; 60; 99; 111; 110; 118; 101; 114; 115; 105; 111; 110; 62; 32; 33; 32; 92; 119; 43; 32; 41; 32; 63; 10; 32; 32; 32; 32; 32; 32; 32; 32; 32; 32; 32; 32; 32; 32; 32; 32; 40; 63; 80; 60; 102; 111; 114; 109; 97; 116; 62; 32; 58; 10; 32; 32; 32; 32; 32; 32; 32; 32; 32; 32; 32; 32; 32; 32; 32; 32; 32; 32; 32; 32; 40; 63; 58; 10; 32; 32; 32; 32; 32; 32; 32; 32; 32; 32; 32; 32; 32; 32; 32; 32; 32; 32; 32; 32; 32; 32; 32; 32; 91; 94; 123; 125; 93; 32; 124; 10; 32; 32; 32; 32; 32; 32; 32; 32; 32; 32; 32; 32; 32; 32; 32; 32; 32; 32; 32; 32; 32; 32; 32; 32; 91; 123; 93; 32; 40; 63; 58; 10; 32; 32; 32; 32; 40; 63; 58; 32; 92; 100; 43; 32; 124; 32; 91; 94; 92; 87; 92; 100; 93; 92; 119; 42; 32; 41; 10; 32; 32; 32; 32; 40; 63; 58; 10; 32; 32; 32; 32; 32; 32; 32; 32; 91; 46; 93; 32; 91; 94; 92; 87; 92; 100; 93; 92; 119; 42; 32; 124; 10; 32; 32; 32; 32; 32; 32; 32; 32; 92; 91; 32; 91; 94; 93; 93; 43; 32; 92; 93; 10; 32; 32; 32; 32; 41; 42; 10; 41; 32; 63; 32; 91; 125; 93; 10; 32; 32; 32; 32; 32; 32; 32; 32; 32; 32; 32; 32; 32; 32; 32; 32; 32; 32; 32; 32; 41; 42; 10; 32; 32; 32; 32; 32; 32; 32; 32; 32; 32; 32; 32; 32; 32; 32; 32; 41; 32; 63; 10; 32; 32; 32; 32; 32; 32; 32; 32; 32; 32; 32; 32; 41; 10; 32; 32; 32; 32; 32; 32; 32; 32; 91; 125; 93; 10; 32; 32; 32; 32; 41; 10]%N.
Definition pybrace_format_spec_re_pattern : pystr :=
  [10; 32; 32; 32; 32; 92; 65; 10; 32; 32; 32; 32; 40; 63; 58; 10; 32; 32; 32; 32; 32; 32; 32; 32; 40; 63; 80; 60; 102; 105; 108; 108; 62; 32; 91; 94; 125; 93; 32; 41; 32; 63; 10; 32; 32; 32; 32; 32; 32; 32; 32; 40; 63; 80; 60; 97; 108; 105; 103; 110; 62; 32; 91; 60; 62; 61; 94; 93; 32; 41; 10; 32; 32; 32; 32; 41; 32; 63; 10; 32; 32; 32; 32; 40; 63; 80; 60; 115; 105; 103; 110; 62; 32; 91; 32; 43; 45; 93; 32; 41; 32; 63; 10; 32; 32; 32; 32; 40; 63; 80; 60; 97; 108; 116; 62; 32; 91; 35; 93; 32; 41; 32; 63; 10; 32; 32; 32; 32; 40; 63; 80; 60; 122; 101; 114; 111; 62; 32; 91; 48; 93; 32; 41; 32; 63; 10; 32; 32; 32; 32; 40; 63; 80; 60; 119; 105; 100; 116; 104; 62; 32; 91; 48; 45; 57; 93; 43; 32; 41; 32; 63; 10; 32; 32; 32; 32; 40; 63; 80; 60; 99; 111; 109; 109; 97; 62; 32; 91; 44; 93; 32; 41; 32; 63; 10; 32; 32; 32; 32; 40; 63; 58; 10; 32; 32; 32; 32; 32; 32; 32; 32; 91; 46; 93; 10; 32; 32; 32; 32; 32; 32; 32; 32; 40; 63; 80; 60; 112; 114; 101; 99; 105; 115; 105; 111; 110; 62; 32; 92; 100; 43; 41; 10; 32; 32; 32; 32; 41; 32; 63; 10; 32; 32; 32; 32; 40; 63; 80; 60; 116; 121; 112; 101; 62; 32; 91; 92; 119; 37; 93; 41; 32; 63; 10; 32; 32; 32; 32; 92; 90; 10]%N.
(* Error(Exception); ConversionError, FormatError, FormatTypeMismatch, ArgumentNumberingMixture, ArgumentRangeError,
   ArgumentTypeMismatch, each (Error) *)
Definition pybrace_error_classes : list (pystr * pystr) :=
  [([69; 114; 114; 111; 114]%N, [69; 120; 99; 101; 112; 116; 105; 111; 110]%N);
   ([67; 111; 110; 118; 101; 114; 115; 105; 111; 110; 69; 114; 114; 111; 114]%N, [69; 114; 114; 111; 114]%N);
   ([70; 111; 114; 109; 97; 116; 69; 114; 114; 111; 114]%N, [69; 114; 114; 111; 114]%N);
   ([70; 111; 114; 109; 97; 116; 84; 121; 112; 101; 77; 105; 115; 109; 97; 116; 99; 104]%N, [69; 114; 114; 111; 114]%N);
   ([65; 114; 103; 117; 109; 101; 110; 116; 78; 117; 109; 98; 101; 114; 105; 110; 103; 77; 105; 120; 116; 117; 114; 101]%N, [69; 114; 114; 111; 114]%N);
   ([65; 114; 103; 117; 109; 101; 110; 116; 82; 97; 110; 103; 101; 69; 114; 114; 111; 114]%N, [69; 114; 114; 111; 114]%N);
   ([65; 114; 103; 117; 109; 101; 110; 116; 84; 121; 112; 101; 77; 105; 115; 109; 97; 116; 99; 104]%N, [69; 114; 114; 111; 114]%N)].
Lemma src_pybrace_patterns :
  src_pybrace_simple_field_re_pattern = pybrace_simple_field_pattern /\ src_pybrace_field_re_pattern = pybrace_field_re_pattern /\
  src_pybrace_format_spec_re_pattern = pybrace_format_spec_re_pattern /\ src_pybrace_printable_pattern = printable_pattern /\
  src_pybrace_error_classes = pybrace_error_classes.
Proof. repeat split. Qed.

Lemma src_pybrace_constants : src_ssize_max = pb_ssize_max_std /\ src_nested_types = t_all.
Proof. split; reflexivity. Qed.

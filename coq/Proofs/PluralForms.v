(* Truthfulness of the Plural-Forms diagnostics (model of Checker.check_plurals). *)
From Coq Require Import List ZArith Bool Lia ZifyBool.
From I18n Require Import Lib.Outcome Model.IntExpr Model.PluralForms
  Proofs.Codomain Proofs.Period Proofs.IntExprEval.
Import ListNotations.
Local Open Scope Z_scope.

(* ---------- preimage bookkeeping ---------- *)
Lemma pre_has_add p k i k' : pre_has (pre_add p k i) k' = pre_has p k' || (k' =? k).
Proof.
  unfold pre_has. induction p as [|[k0 l] r IH]; cbn [pre_add existsb fst].
  - cbn. lia.
  - destruct (k =? k0) eqn:E; cbn [existsb fst].
    + destruct (existsb (fun x : Z * list Z => fst x =? k') r); lia.
    + destruct (k <? k0) eqn:E0; cbn [existsb fst].
      * destruct (existsb (fun x : Z * list Z => fst x =? k') r); lia.
      * rewrite IH. destruct (existsb (fun x : Z * list Z => fst x =? k') r); lia.
Qed.

Lemma pre_add_keys_lt p k i n : (forall x, In x (map fst p) -> 0 <= x < n) -> 0 <= k < n ->
  forall x, In x (map fst (pre_add p k i)) -> 0 <= x < n.
Proof.
  induction p as [|[k0 l] r IH]; cbn; intros Hp Hk x Hx.
  - destruct Hx as [<-|[]]; auto.
  - destruct (k =? k0) eqn:E; cbn in Hx.
    + apply Hp. auto.
    + destruct (k <? k0) eqn:E0; cbn in Hx.
      * destruct Hx as [<-|Hx]; auto.
      * destruct Hx as [<-|Hx]; [apply Hp; auto|]. apply IH; auto.
Qed.

Lemma pre_has_in p k : pre_has p k = true -> In k (map fst p).
Proof.
  unfold pre_has. induction p as [|[k0 l] r IH]; cbn; [discriminate|].
  destruct (k0 =? k) eqn:E; cbn; [left; lia|auto].
Qed.

(* ---------- the window loop ---------- *)
Definition loop_diag (d : pdiag) : Prop :=
  match d with DArith _ _ | DCodomainAt _ _ _ | DUnusual => True | _ => False end.

Lemma window_loop_diags e n lc : forall is pre u acc ds res,
  window_loop e n lc is pre u acc = (ds, res) ->
  exists extra, ds = acc ++ extra /\ Forall loop_diag extra.
Proof.
  induction is as [|i rest IH]; intros pre u acc ds res; cbn [window_loop].
  - intros H; inversion H; subst. exists []. rewrite app_nil_r. auto.
  - destruct (pyeval M32 e i) as [fi|k|c].
    + destruct (fi >=? n).
      { intros H; inversion H; subst. eexists; split; eauto. repeat constructor. }
      destruct lc as [le|].
      * destruct (pyeval M32 le i) as [v|k|c].
        -- destruct (negb (fi =? v) && negb u).
           ++ intros H. apply IH in H. destruct H as [extra [-> HF]].
              exists (DUnusual :: extra). rewrite <- app_assoc. split; auto. constructor; cbn; auto.
           ++ apply IH.
        -- intros H; inversion H; subst. eexists; split; eauto. repeat constructor.
        -- intros H; inversion H; subst. exists []. rewrite app_nil_r. auto.
      * apply IH.
    + intros H; inversion H; subst. eexists; split; eauto. repeat constructor.
    + intros H; inversion H; subst. exists []. rewrite app_nil_r. auto.
Qed.

Lemma window_loop_pre e n lc : forall is pre u acc ds p,
  window_loop e n lc is pre u acc = (ds, Some p) ->
  (forall k, pre_has pre k = true -> pre_has p k = true) /\
  (forall i, In i is -> exists v, pyeval M32 e i = Ok v /\ v < n /\ pre_has p v = true) /\
  ((forall x, In x (map fst pre) -> 0 <= x < n) -> forall x, In x (map fst p) -> 0 <= x < n).
Proof.
  induction is as [|i rest IH]; intros pre u acc ds p; cbn [window_loop].
  - intros H; inversion H; subst. split; [auto|split; [intros i []|auto]].
  - destruct (pyeval M32 e i) as [fi|k|c] eqn:Ei; try discriminate.
    destruct (fi >=? n) eqn:En; [discriminate|].
    assert (Hstep : forall u' acc', window_loop e n lc rest (pre_add pre fi i) u' acc' = (ds, Some p) ->
      (forall k, pre_has pre k = true -> pre_has p k = true) /\
      (forall i0, i = i0 \/ In i0 rest -> exists v, pyeval M32 e i0 = Ok v /\ v < n /\ pre_has p v = true) /\
      ((forall x, In x (map fst pre) -> 0 <= x < n) -> forall x, In x (map fst p) -> 0 <= x < n)).
    { intros u' acc' H. apply IH in H. destruct H as [H1 [H2 H3]]. split; [|split].
      - intros k Hk. apply H1. rewrite pre_has_add, Hk. reflexivity.
      - intros i0 [<-|Hi0]; [|auto]. exists fi. split; [auto|split; [lia|]].
        apply H1. rewrite pre_has_add. rewrite Z.eqb_refl. apply orb_true_r.
      - intros Hpre. apply H3. apply pre_add_keys_lt; auto.
        pose proof (pyeval_nonneg M32 e i fi Ei). lia. }
    destruct lc as [le|]; [|apply Hstep].
    destruct (pyeval M32 le i) as [v|k|c]; try discriminate.
    destruct (negb (fi =? v) && negb u); apply Hstep.
Qed.

Lemma zrange_in lo hi i : In i (zrange lo hi) <-> lo <= i < hi.
Proof.
  unfold zrange. rewrite in_map_iff. split.
  - intros [k [<- Hk]]. apply in_seq in Hk. lia.
  - intros H. exists (Z.to_nat (i - lo)). split; [lia|]. apply in_seq. lia.
Qed.

Lemma gap_scan_spec n all : forall keys lo hi, In (lo, hi) (gap_scan n all keys) ->
  hi = lo + 1 /\ pre_has all lo = false /\
  ((exists i, In i keys /\ lo = i - 1 /\ i > 0) \/ (exists i, In i keys /\ lo = i + 1 /\ i + 1 < n)).
Proof.
  induction keys as [|i rest IH]; cbn; intros lo hi; [intros []|].
  destruct ((i >? 0) && negb (pre_has all (i - 1))) eqn:E1.
  - intros [H|[]]; inversion H; subst lo hi. repeat split; try lia.
    left. exists i. split; [left; reflexivity|lia].
  - destruct ((i + 1 <? n) && negb (pre_has all (i + 1))) eqn:E2.
    + intros [H|[]]; inversion H; subst lo hi. repeat split; try lia.
      right. exists i. split; [left; reflexivity|lia].
    + intros H. apply IH in H. destruct H as [H1 [H2 [[j [Hj ?]]|[j [Hj ?]]]]]; repeat split; auto;
        [left|right]; exists j; (split; [right; auto|auto]).
Qed.

(* ---------- what a DNever claim rests on ---------- *)
Definition never_produced (e : expr) (lo hi : Z) : Prop :=
  forall k, lo <= k < hi -> forall m, 0 <= m < M32 -> pyeval M32 e m <> Ok k.

Lemma M32_ge1 : 1 <= M32. Proof. unfold M32; lia. Qed.

Lemma codomain_uncov_truthful e n x y lo hi : codomain M32 e = CSome x y ->
  In (lo, hi) ((if x >? 0 then [(0, x)] else []) ++ (if y + 1 <? n then [(y + 1, n)] else [])) ->
  never_produced e lo hi /\ 0 <= lo < hi /\ hi <= Z.max x n /\ (lo = 0 \/ hi = n).
Proof.
  intros Hc Hin. pose proof (codomain_bounds M32 e x y M32_ge1 Hc) as Hb.
  pose proof (codomain_wf M32 e x y M32_ge1 Hc) as [Hwf _].
  apply in_app_or in Hin. destruct Hin as [Hin|Hin].
  - destruct (x >? 0) eqn:E; [|destruct Hin]. destruct Hin as [H|[]]; inversion H; subst.
    split; [|lia]. intros k Hk m Hm Hv. specialize (Hb m k Hm Hv). lia.
  - destruct (y + 1 <? n) eqn:E; [|destruct Hin]. destruct Hin as [H|[]]; inversion H; subst.
    split; [|lia]. intros k Hk m Hm Hv. specialize (Hb m k Hm Hv). lia.
Qed.

Lemma gap_truthful e n p o pp lo hi :
  period M32 e = Some (o, pp) -> o + pp < window ->
  (forall i, 0 <= i < window -> exists v, pyeval M32 e i = Ok v /\ v < n /\ pre_has p v = true) ->
  (forall x, In x (map fst p) -> 0 <= x < n) ->
  In (lo, hi) (gap_scan n p (map fst p)) ->
  never_produced e lo hi /\ 0 <= lo < hi /\ hi <= n.
Proof.
  intros Hper Hsum Hwin Hkeys Hin. apply gap_scan_spec in Hin. destruct Hin as [-> [Hno Hwhere]].
  split.
  - intros k Hk m Hm Hv. assert (k = lo) by lia. subst k.
    destruct (period_image_in_window M32 e o pp window Hper ltac:(lia) m Hm) as [m' [Hm' [_ Hsame]]].
    rewrite Hv in Hsame. destruct (Hwin m' Hm') as [v [Ev [_ Hp]]]. rewrite Ev in Hsame. cbn in Hsame. subst.
    congruence.
  - destruct Hwhere as [[i [Hi [-> ?]]]|[i [Hi [-> ?]]]]; apply Hkeys in Hi; lia.
Qed.

(* ---------- decomposition of check_plurals_core ---------- *)
Definition diag_is_never (d : pdiag) : bool := match d with DNever _ _ => true | _ => false end.

Lemma not_never_loop extra : Forall loop_diag extra -> forall lo hi, ~ In (DNever lo hi) extra.
Proof. intros HF lo hi Hin. rewrite Forall_forall in HF. apply HF in Hin. exact Hin. Qed.

Theorem never_claims_truthful maxd inp ds pre n e l r :
  check_plurals_core maxd inp = Ok (ds, pre) ->
  parse_plural_forms maxd (pf_value inp) = Ok (n, e, l, r) ->
  forall lo hi, In (DNever lo hi) ds ->
    never_produced e lo hi /\ 0 <= lo < hi.
Proof.
  unfold check_plurals_core. intros H Hp. rewrite Hp in H.
  destruct (match pf_correct inp with None => Ok None | Some l0 => do r0 <- parse_registry maxd l0; Ok (Some r0) end)
    as [reg| |]; cbn [obind] in H; try discriminate.
  match type of H with context[window_loop ?a ?b ?c ?d ?f ?g ?h] =>
    destruct (window_loop a b c d f g h) as [dl wpre] eqn:EW end.
  destruct (codomain M32 e) as [|x y|] eqn:Ec; try discriminate.
  - (* codomain None: no range claims; gap scan possible *)
    inversion H; subst; clear H. intros lo hi Hin.
    apply window_loop_diags in EW as Hd. destruct Hd as [extra [-> HF]]. cbn [app] in Hin.
    repeat (apply in_app_or in Hin; destruct Hin as [Hin|Hin]);
      try (destruct (pf_expected inp) as [|k [|]]; cbn in Hin; try (destruct (negb (n =? k))); cbn in Hin; intuition discriminate).
    + destruct l; cbn in Hin; intuition discriminate.
    + destruct r; cbn in Hin; intuition discriminate.
    + destruct reg as [r0|]; cbn in Hin; [destruct (filter _ r0)|]; cbn in Hin; intuition discriminate.
    + exfalso. eapply not_never_loop; eauto.
    + apply in_map_iff in Hin. destruct Hin as [[lo' hi'] [Heq Hin]]. cbn in Heq. inversion Heq; subst.
      destruct wpre as [p|]; [|destruct Hin].
      destruct (period M32 e) as [[o pp]|] eqn:Eper; [|destruct Hin].
      destruct (o + pp <? window) eqn:Es; [|destruct Hin].
      apply window_loop_pre in EW. destruct EW as [_ [Hw Hk]].
      destruct (gap_truthful e n p o pp lo hi Eper ltac:(lia)) as [H1 [H2 H3]]; auto.
      * intros i Hi. apply Hw. apply zrange_in. auto.
      * apply Hk. intros x [].
  - inversion H; subst; clear H. intros lo hi Hin.
    apply window_loop_diags in EW as Hd. destruct Hd as [extra [-> HF]]. cbn [app] in Hin.
    repeat (apply in_app_or in Hin; destruct Hin as [Hin|Hin]);
      try (destruct (pf_expected inp) as [|k [|]]; cbn in Hin; try (destruct (negb (n =? k))); cbn in Hin; intuition discriminate).
    + destruct l; cbn in Hin; intuition discriminate.
    + destruct r; cbn in Hin; intuition discriminate.
    + destruct reg as [r0|]; cbn in Hin; [destruct (filter _ r0)|]; cbn in Hin; intuition discriminate.
    + exfalso. eapply not_never_loop; eauto.
    + apply in_map_iff in Hin. destruct Hin as [[lo' hi'] [Heq Hin]]. cbn in Heq. inversion Heq; subst.
      set (u1 := (if x >? 0 then [(0, x)] else []) ++ (if y + 1 <? n then [(y + 1, n)] else [])) in *.
      destruct u1 as [|u0 us] eqn:Eu.
      * destruct wpre as [p|]; [|destruct Hin].
        destruct (period M32 e) as [[o pp]|] eqn:Eper; [|destruct Hin].
        destruct (o + pp <? window) eqn:Es; [|destruct Hin].
        apply window_loop_pre in EW. destruct EW as [_ [Hw Hk]].
        destruct (gap_truthful e n p o pp lo hi Eper ltac:(lia)) as [H1 [H2 H3]]; auto.
        -- intros i Hi. apply Hw. apply zrange_in. auto.
        -- apply Hk. intros x0 [].
      * assert (Hin' : In (lo, hi) u1) by (rewrite Eu; destruct wpre; exact Hin).
        unfold u1 in Hin'. destruct (codomain_uncov_truthful e n x y lo hi Ec Hin') as [H1 [H2 _]]. auto.
Qed.

(* ---------- inversion of check_plurals_core ---------- *)
Definition d_ljunk (l : list N) : list pdiag := match l with [] => [] | _ => [DLeadingJunk l] end.
Definition d_rjunk (r : list N) : list pdiag := match r with [] => [] | _ => [DTrailingJunk r] end.
Definition d_count (n : Z) (exp : list Z) : list pdiag :=
  match exp with [k] => if negb (n =? k) then [DIncorrectN n k] else [] | _ => [] end.
Definition reg_local (n : Z) (reg : option (list (Z * expr))) : option (list (Z * expr)) :=
  match reg with None => None | Some r => Some (filter (fun x => fst x =? n) r) end.
Definition d_unusual0 (local : option (list (Z * expr))) : list pdiag :=
  match local with Some [] => [DUnusual] | _ => [] end.
Definition lc_of (local : option (list (Z * expr))) : option expr :=
  match local with Some [(_, le)] => Some le | _ => None end.
Definition uncov1_of (e : expr) (n : Z) : list (Z * Z) :=
  match codomain M32 e with
  | CSome x y => (if x >? 0 then [(0, x)] else []) ++ (if y + 1 <? n then [(y + 1, n)] else [])
  | _ => []
  end.
Definition uncov_of (e : expr) (n : Z) (wpre : option preimg) : list (Z * Z) :=
  match uncov1_of e n, wpre with
  | [], Some p =>
    match period M32 e with
    | Some (o, pp) => if o + pp <? window then gap_scan n p (map fst p) else []
    | None => []
    end
  | u, _ => u
  end.

Lemma core_inv maxd inp ds pre n e l r :
  check_plurals_core maxd inp = Ok (ds, pre) ->
  parse_plural_forms maxd (pf_value inp) = Ok (n, e, l, r) ->
  exists reg dl wpre,
    (match pf_correct inp with None => Ok None | Some l0 => do r0 <- parse_registry maxd l0; Ok (Some r0) end) = Ok reg /\
    window_loop e n (lc_of (reg_local n reg)) (zrange 0 window) [] false [] = (dl, wpre) /\
    ds = d_ljunk l ++ d_rjunk r ++ d_count n (pf_expected inp) ++ d_unusual0 (reg_local n reg) ++ dl
         ++ map (fun r => DNever (fst r) (snd r)) (uncov_of e n wpre) /\
    pre = match uncov_of e n wpre with [] => wpre | _ => None end.
Proof.
  unfold check_plurals_core. intros H Hp. rewrite Hp in H.
  destruct (match pf_correct inp with None => Ok None | Some l0 => do r0 <- parse_registry maxd l0; Ok (Some r0) end)
    as [reg| |]; cbn [obind] in H; try discriminate.
  exists reg.
  match type of H with context[window_loop ?a ?b ?c ?d ?f ?g ?h] =>
    destruct (window_loop a b c d f g h) as [dl wpre] eqn:EW end.
  exists dl, wpre. split; [reflexivity|]. split; [exact EW|].
  unfold uncov_of, uncov1_of.
  destruct (codomain M32 e) as [|x y|] eqn:Ec; try discriminate; inversion H; subst; clear H; split; try reflexivity.
  - destruct ((if x >? 0 then [(0, x)] else []) ++ (if y + 1 <? n then [(y + 1, n)] else [])); reflexivity.
  - destruct ((if x >? 0 then [(0, x)] else []) ++ (if y + 1 <? n then [(y + 1, n)] else [])); reflexivity.
Qed.

Lemma uncov_truthful e n wpre dl lc lo hi :
  window_loop e n lc (zrange 0 window) [] false [] = (dl, wpre) ->
  In (lo, hi) (uncov_of e n wpre) ->
  never_produced e lo hi /\ 0 <= lo < hi /\ (lo = 0 \/ hi <= n).
Proof.
  intros EW Hin. unfold uncov_of, uncov1_of in Hin.
  destruct (codomain M32 e) as [|x y|] eqn:Ec.
  - destruct wpre as [p|]; [|destruct Hin].
    destruct (period M32 e) as [[o pp]|] eqn:Eper; [|destruct Hin].
    destruct (o + pp <? window) eqn:Es; [|destruct Hin].
    apply window_loop_pre in EW. destruct EW as [_ [Hw Hk]].
    destruct (gap_truthful e n p o pp lo hi Eper ltac:(lia)) as [H1 [H2 H3]]; auto.
    + intros i Hi. apply Hw. apply zrange_in. auto.
    + apply Hk. intros x [].
  - set (u1 := (if x >? 0 then [(0, x)] else []) ++ (if y + 1 <? n then [(y + 1, n)] else [])) in *.
    destruct u1 as [|u0 us] eqn:Eu.
    + destruct wpre as [p|]; [|destruct Hin].
      destruct (period M32 e) as [[o pp]|] eqn:Eper; [|destruct Hin].
      destruct (o + pp <? window) eqn:Es; [|destruct Hin].
      apply window_loop_pre in EW. destruct EW as [_ [Hw Hk]].
      destruct (gap_truthful e n p o pp lo hi Eper ltac:(lia)) as [H1 [H2 H3]]; auto.
      * intros i Hi. apply Hw. apply zrange_in. auto.
      * apply Hk. intros x0 [].
    + assert (Hin' : In (lo, hi) u1) by (rewrite Eu; destruct wpre; exact Hin).
      unfold u1 in Hin'. destruct (codomain_uncov_truthful e n x y lo hi Ec Hin') as [H1 [H2 [_ H4]]].
      split; auto. split; auto. destruct H4; [left; auto|right; lia].
  - destruct wpre as [p|]; [|destruct Hin].
    destruct (period M32 e) as [[o pp]|] eqn:Eper; [|destruct Hin].
    destruct (o + pp <? window) eqn:Es; [|destruct Hin].
    apply window_loop_pre in EW. destruct EW as [_ [Hw Hk]].
    destruct (gap_truthful e n p o pp lo hi Eper ltac:(lia)) as [H1 [H2 H3]]; auto.
    + intros i Hi. apply Hw. apply zrange_in. auto.
    + apply Hk. intros x [].
Qed.

(* membership in the diagnostic list, by kind *)
Lemma in_never maxd inp ds pre n e l r lo hi :
  check_plurals_core maxd inp = Ok (ds, pre) ->
  parse_plural_forms maxd (pf_value inp) = Ok (n, e, l, r) ->
  In (DNever lo hi) ds ->
  exists dl wpre lc, window_loop e n lc (zrange 0 window) [] false [] = (dl, wpre) /\ In (lo, hi) (uncov_of e n wpre).
Proof.
  intros H Hp Hin. destruct (core_inv _ _ _ _ _ _ _ _ H Hp) as [reg [dl [wpre [_ [EW [-> _]]]]]].
  exists dl, wpre, (lc_of (reg_local n reg)). split; auto.
  apply window_loop_diags in EW as Hd. destruct Hd as [extra [Hdl HF]]. cbn [app] in Hdl. subst dl.
  repeat (apply in_app_or in Hin; destruct Hin as [Hin|Hin]).
  - destruct l; cbn in Hin; intuition discriminate.
  - destruct r; cbn in Hin; intuition discriminate.
  - unfold d_count in Hin. destruct (pf_expected inp) as [|k [|]]; cbn in Hin; try (destruct (negb (n =? k))); cbn in Hin; intuition discriminate.
  - unfold d_unusual0 in Hin. destruct (reg_local n reg) as [[|]|]; cbn in Hin; intuition discriminate.
  - exfalso. eapply not_never_loop; eauto.
  - apply in_map_iff in Hin. destruct Hin as [[lo' hi'] [Heq Hin]]. cbn in Heq. inversion Heq; subst. auto.
Qed.

Theorem never_claims_truthful_strong maxd inp ds pre n e l r :
  check_plurals_core maxd inp = Ok (ds, pre) ->
  parse_plural_forms maxd (pf_value inp) = Ok (n, e, l, r) ->
  forall lo hi, In (DNever lo hi) ds ->
    never_produced e lo hi /\ 0 <= lo < hi /\ (lo = 0 \/ hi <= n).
Proof.
  intros H Hp lo hi Hin. destruct (in_never _ _ _ _ _ _ _ _ _ _ H Hp Hin) as [dl [wpre [lc [EW Hu]]]].
  eapply uncov_truthful; eauto.
Qed.

(* ---------- the window diagnostics ---------- *)
Fixpoint first_bad (e : expr) (n : Z) (is : list Z) : option pdiag :=
  match is with
  | [] => None
  | i :: rest =>
    match pyeval M32 e i with
    | Ok fi => if fi >=? n then Some (DCodomainAt i fi n) else first_bad e n rest
    | Err k => Some (DArith i k)
    | Crash _ => None
    end
  end.

Definition is_window_diag (d : pdiag) : bool :=
  match d with DArith _ _ | DCodomainAt _ _ _ => true | _ => false end.
Definition opt_list {A} (o : option A) : list A := match o with Some x => [x] | None => [] end.

Lemma window_loop_first_bad e n lc : forall is pre u acc,
  (forall le, lc = Some le -> forall i, In i is -> exists v, pyeval M32 le i = Ok v) ->
  filter is_window_diag (fst (window_loop e n lc is pre u acc))
    = filter is_window_diag acc ++ opt_list (first_bad e n is) /\
  (snd (window_loop e n lc is pre u acc) = None <-> first_bad e n is <> None).
Proof.
  induction is as [|i rest IH]; intros pre u acc Hlc; cbn [window_loop first_bad].
  - cbn. rewrite app_nil_r. split; auto. split; [discriminate|congruence].
  - destruct (pyeval M32 e i) as [fi|k|c] eqn:Ei.
    + destruct (fi >=? n).
      { cbn. rewrite filter_app. cbn. split; auto. split; [discriminate|auto]. }
      assert (Hrest : forall le, lc = Some le -> forall i0, In i0 rest -> exists v, pyeval M32 le i0 = Ok v)
        by (intros le Hle i0 Hi0; apply (Hlc le Hle); right; auto).
      destruct lc as [le|]; [|apply IH; auto].
      destruct (Hlc le eq_refl i (or_introl eq_refl)) as [v Ev]. rewrite Ev.
      destruct (negb (fi =? v) && negb u).
      * destruct (IH (pre_add pre fi i) true (acc ++ [DUnusual]) Hrest) as [H1 H2].
        rewrite H1. rewrite filter_app. cbn. rewrite app_nil_r. split; auto.
      * apply IH; auto.
    + cbn. rewrite filter_app. cbn. split; auto. split; [discriminate|auto].
    + exfalso. eapply pyeval_nocrash; eauto.
Qed.

Lemma first_bad_spec' e n : forall len lo d,
  first_bad e n (map (fun k => lo + Z.of_nat k) (seq 0 len)) = Some d ->
  exists i, lo <= i < lo + Z.of_nat len /\
    (forall j, lo <= j < i -> exists v, pyeval M32 e j = Ok v /\ v < n) /\
    ((exists k, d = DArith i k /\ pyeval M32 e i = Err k) \/
     (exists fi, d = DCodomainAt i fi n /\ pyeval M32 e i = Ok fi /\ n <= fi)).
Proof.
  induction len as [|len IH]; intros lo d; cbn [seq map first_bad]; [discriminate|].
  replace (lo + Z.of_nat 0) with lo by lia.
  destruct (pyeval M32 e lo) as [fi|k|c] eqn:E0.
  - destruct (fi >=? n) eqn:En.
    + intros H; inversion H; subst. exists lo. split; [lia|]. split; [intros; lia|].
      right. exists fi. repeat split; auto. lia.
    + rewrite <- seq_shift, map_map.
      replace (map (fun x => lo + Z.of_nat (S x)) (seq 0 len)) with (map (fun k => (lo + 1) + Z.of_nat k) (seq 0 len))
        by (apply map_ext; intros; lia).
      intros H. destruct (IH (lo + 1) d H) as [i [Hi [Hpre Hd]]].
      exists i. split; [lia|]. split; auto.
      intros j Hj. destruct (Z.eq_dec j lo) as [->|]; [exists fi; split; auto; lia|apply Hpre; lia].
  - intros H; inversion H; subst. exists lo. split; [lia|]. split; [intros; lia|].
    left. exists k. auto.
  - discriminate.
Qed.

Lemma first_bad_spec e n lo hi d : first_bad e n (zrange lo hi) = Some d ->
  exists i, lo <= i < hi /\
    (forall j, lo <= j < i -> exists v, pyeval M32 e j = Ok v /\ v < n) /\
    ((exists k, d = DArith i k /\ pyeval M32 e i = Err k) \/
     (exists fi, d = DCodomainAt i fi n /\ pyeval M32 e i = Ok fi /\ n <= fi)).
Proof.
  unfold zrange. intros H. apply first_bad_spec' in H. destruct H as [i [Hi H]]. exists i. split; [lia|auto].
Qed.

Lemma first_bad_none e n : forall is, first_bad e n is = None ->
  forall i, In i is -> exists v, pyeval M32 e i = Ok v /\ v < n.
Proof.
  induction is as [|i0 rest IH]; cbn; [intros _ i []|].
  destruct (pyeval M32 e i0) as [fi|k|c] eqn:E0.
  - destruct (fi >=? n) eqn:En; [discriminate|]. intros H i [<-|Hi]; [exists fi; split; auto; lia|auto].
  - discriminate.
  - exfalso. eapply pyeval_nocrash; eauto.
Qed.

Lemma first_bad_none_conv e n : forall is,
  (forall i, In i is -> exists v, pyeval M32 e i = Ok v /\ v < n) -> first_bad e n is = None.
Proof.
  induction is as [|i0 rest IH]; cbn; auto. intros H.
  destruct (H i0 (or_introl eq_refl)) as [v [Ev Hv]]. rewrite Ev.
  destruct (v >=? n) eqn:En; [lia|]. apply IH. intros i Hi. apply H. auto.
Qed.

(* registry declarations that are compared must not fail on the window (true of the generated registry) *)
Definition reg_total (reg : option (list (Z * expr))) : Prop :=
  match reg with
  | None => True
  | Some r => forall k le, In (k, le) r -> forall i, 0 <= i < window -> exists v, pyeval M32 le i = Ok v
  end.

Theorem window_diags_exact maxd inp ds pre n e l r reg :
  check_plurals_core maxd inp = Ok (ds, pre) ->
  parse_plural_forms maxd (pf_value inp) = Ok (n, e, l, r) ->
  (match pf_correct inp with None => Ok None | Some l0 => do r0 <- parse_registry maxd l0; Ok (Some r0) end) = Ok reg ->
  reg_total reg ->
  filter is_window_diag ds = opt_list (first_bad e n (zrange 0 window)).
Proof.
  intros H Hp Hreg Htot. destruct (core_inv _ _ _ _ _ _ _ _ H Hp) as [reg' [dl [wpre [Hreg' [EW [-> _]]]]]].
  rewrite Hreg in Hreg'. inversion Hreg'; subst reg'; clear Hreg'.
  pose proof (window_loop_first_bad e n (lc_of (reg_local n reg)) (zrange 0 window) [] false []) as HW.
  rewrite EW in HW. cbn [fst snd filter app] in HW.
  destruct HW as [HW _].
  { intros le Hle i Hi. apply zrange_in in Hi.
    destruct reg as [rr|]; cbn in Hle; [|discriminate].
    destruct (filter (fun x => fst x =? n) rr) as [|[k le'] [|]] eqn:Ef; try discriminate.
    inversion Hle; subst. assert (Hin : In (k, le) (filter (fun x => fst x =? n) rr)) by (rewrite Ef; left; auto).
    apply filter_In in Hin. destruct Hin as [Hin _]. eapply Htot; eauto. }
  rewrite !filter_app. rewrite HW.
  assert (E1 : filter is_window_diag (d_ljunk l) = []) by (destruct l; reflexivity).
  assert (E2 : filter is_window_diag (d_rjunk r) = []) by (destruct r; reflexivity).
  assert (E3 : filter is_window_diag (d_count n (pf_expected inp)) = []).
  { unfold d_count. destruct (pf_expected inp) as [|k [|]]; auto. destruct (negb (n =? k)); auto. }
  assert (E4 : filter is_window_diag (d_unusual0 (reg_local n reg)) = []).
  { unfold d_unusual0. destruct (reg_local n reg) as [[|]|]; auto. }
  assert (E5 : forall u, filter is_window_diag (map (fun r0 : Z * Z => DNever (fst r0) (snd r0)) u) = []).
  { induction u; cbn; auto. }
  rewrite E1, E2, E3, E4, E5. cbn. rewrite app_nil_r. reflexivity.
Qed.

(* ---------- nplurals ---------- *)
Theorem incorrect_n_iff maxd inp ds pre n e l r a b :
  check_plurals_core maxd inp = Ok (ds, pre) ->
  parse_plural_forms maxd (pf_value inp) = Ok (n, e, l, r) ->
  (In (DIncorrectN a b) ds <-> pf_expected inp = [b] /\ a = n /\ n <> b).
Proof.
  intros H Hp. destruct (core_inv _ _ _ _ _ _ _ _ H Hp) as [reg [dl [wpre [_ [EW [-> _]]]]]].
  apply window_loop_diags in EW as Hd. destruct Hd as [extra [Hdl HF]]. cbn [app] in Hdl. subst dl.
  split.
  - intros Hin. repeat (apply in_app_or in Hin; destruct Hin as [Hin|Hin]).
    + destruct l; cbn in Hin; intuition discriminate.
    + destruct r; cbn in Hin; intuition discriminate.
    + unfold d_count in Hin. destruct (pf_expected inp) as [|k [|]]; cbn in Hin; try contradiction.
      destruct (negb (n =? k)) eqn:E; cbn in Hin; [|contradiction].
      destruct Hin as [Hin|[]]. inversion Hin; subst. repeat split; auto. lia.
    + unfold d_unusual0 in Hin. destruct (reg_local n reg) as [[|]|]; cbn in Hin; intuition discriminate.
    + rewrite Forall_forall in HF. apply HF in Hin. contradiction.
    + apply in_map_iff in Hin. destruct Hin as [? [Heq _]]. discriminate.
  - intros [He [-> Hne]]. apply in_or_app. right. apply in_or_app. right. apply in_or_app. left.
    unfold d_count. rewrite He. destruct (negb (n =? b)) eqn:E; [left; auto|lia].
Qed.

(* ---------- a clean declaration is silent ---------- *)
Theorem clean_is_silent maxd inp ds pre n e l r reg :
  check_plurals_core maxd inp = Ok (ds, pre) ->
  parse_plural_forms maxd (pf_value inp) = Ok (n, e, l, r) ->
  (match pf_correct inp with None => Ok None | Some l0 => do r0 <- parse_registry maxd l0; Ok (Some r0) end) = Ok reg ->
  reg_total reg ->
  1 <= n ->
  (forall i, 0 <= i < window -> exists v, pyeval M32 e i = Ok v /\ v < n) ->      (* total and in range on the window *)
  (forall k, 0 <= k < n -> exists m, 0 <= m < M32 /\ pyeval M32 e m = Ok k) ->    (* onto {0..n-1} *)
  forall d, In d ds -> match d with DArith _ _ | DCodomainAt _ _ _ | DNever _ _ => False | _ => True end.
Proof.
  intros H Hp Hreg Htot Hn Hwin Honto d Hin.
  destruct d; auto.
  - assert (Hf : In (DCodomainAt i fi n0) (filter is_window_diag ds)) by (apply filter_In; split; auto).
    rewrite (window_diags_exact _ _ _ _ _ _ _ _ _ H Hp Hreg Htot) in Hf.
    rewrite first_bad_none_conv in Hf; [destruct Hf|]. intros j Hj. apply zrange_in in Hj. auto.
  - assert (Hf : In (DArith i k) (filter is_window_diag ds)) by (apply filter_In; split; auto).
    rewrite (window_diags_exact _ _ _ _ _ _ _ _ _ H Hp Hreg Htot) in Hf.
    rewrite first_bad_none_conv in Hf; [destruct Hf|]. intros j Hj. apply zrange_in in Hj. auto.
  - destruct (never_claims_truthful_strong _ _ _ _ _ _ _ _ H Hp lo hi Hin) as [Hnp [Hlo Hor]].
    assert (Hk : 0 <= lo < n) by lia.
    destruct (Honto lo Hk) as [m [Hm Em]]. apply (Hnp lo ltac:(lia) m Hm Em).
Qed.

(* ---------- the header value: decomposition found by the leftmost search ---------- *)
Lemma strip_prefix_spec p : forall s r, strip_prefix p s = Some r -> s = p ++ r.
Proof.
  induction p as [|c p IH]; cbn; intros s r H; [inversion H; auto|].
  destruct s as [|d s]; [discriminate|]. destruct (N.eqb c d) eqn:E; [|discriminate].
  apply N.eqb_eq in E. subst. f_equal. auto.
Qed.

Lemma span_spec (p : N -> bool) : forall s a b, span p s = (a, b) ->
  s = a ++ b /\ forallb p a = true /\ match b with [] => True | c :: _ => p c = false end.
Proof.
  induction s as [|c s IH]; cbn; intros a b H.
  - inversion H; subst. auto.
  - destruct (p c) eqn:E.
    + destruct (span p s) as [a' b'] eqn:Es. inversion H; subst. destruct (IH a' b eq_refl) as [H1 [H2 H3]].
      cbn. rewrite E, H2. subst. auto.
    + inversion H; subst. cbn. auto.
Qed.

Definition pf_shape (s l ds body r : list N) : Prop :=
  exists blanks semi,
    s = l ++ s_nplurals ++ ds ++ [59%N] ++ blanks ++ s_plural ++ body ++ semi ++ r /\
    forallb is_digit ds = true /\
    (exists d ds', ds = d :: ds' /\ (49 <= d <= 57)%N) /\
    forallb is_blank blanks = true /\
    body <> [] /\ forallb not_semi body = true /\
    ((semi = [59%N]) \/ (semi = [] /\ r = [])).

Lemma pf_match_here_spec s ds body r : pf_match_here s = Some (ds, body, r) -> pf_shape s [] ds body r.
Proof.
  unfold pf_match_here. destruct (strip_prefix s_nplurals s) as [s1|] eqn:E1; [|discriminate].
  apply strip_prefix_spec in E1. destruct s1 as [|d s1']; [discriminate|].
  destruct ((49 <=? d)%N && (d <=? 57)%N) eqn:Ed; [|discriminate].
  destruct (span is_digit (d :: s1')) as [digits s2] eqn:E2.
  destruct s2 as [|c2 s3]; [discriminate|].
  destruct (N.eqb c2 59) eqn:Ec2; cbn [negb]; [|discriminate]. apply N.eqb_eq in Ec2. subst c2.
  destruct (span is_blank s3) as [blanks s4] eqn:E3.
  destruct (strip_prefix s_plural s4) as [s5|] eqn:E4; [|discriminate].
  destruct (span not_semi s5) as [b s6] eqn:E5.
  destruct b as [|b0 b']; [discriminate|]. intros H'. inversion H' as [[Hds Hbody Hr]]; clear H'. subst digits body r.
  apply span_spec in E2. destruct E2 as [E2a [E2b _]].
  apply span_spec in E3. destruct E3 as [E3a [E3b _]].
  apply strip_prefix_spec in E4.
  apply span_spec in E5. destruct E5 as [E5a [E5b E5c]].
  apply andb_prop in Ed. destruct Ed as [A B]. apply N.leb_le in A, B.
  assert (Hd : exists d0 ds', ds = d0 :: ds' /\ (49 <= d0 <= 57)%N).
  { destruct ds as [|d0 ds']; cbn in E2a.
    - exfalso. inversion E2a. subst. lia.
    - exists d0, ds'. split; auto. inversion E2a; subst. lia. }
  destruct s6 as [|c6 s7]; cbn [drop_semi].
  - exists blanks, []. cbn [app]. repeat split; auto; try discriminate.
    rewrite E1, E2a, E3a, E4, E5a. cbn. rewrite ?app_nil_r. reflexivity.
  - assert (c6 = 59%N).
    { unfold not_semi in E5c. destruct (N.eqb c6 59) eqn:E; [apply N.eqb_eq in E; auto|discriminate]. }
    subst c6. cbn. exists blanks, [59%N]. repeat split; auto; try discriminate.
    rewrite E1, E2a, E3a, E4, E5a. cbn. rewrite <- ?app_assoc. cbn. reflexivity.
Qed.

Lemma pf_search_spec : forall s l ds body r, pf_search s = Some (l, ds, body, r) -> pf_shape s l ds body r.
Proof.
  induction s as [|c s IH]; intros l ds body r; cbn [pf_search].
  - destruct (pf_match_here []) as [[[d b] r0]|] eqn:E; [|discriminate].
    intros H; inversion H; subst; apply pf_match_here_spec; auto.
  - destruct (pf_match_here (c :: s)) as [[[d b] r0]|] eqn:E.
    + intros H; inversion H; subst; apply pf_match_here_spec; auto.
    + destruct (pf_search s) as [[[[l0 d0] b0] r0]|] eqn:Es; [|discriminate].
      intros H; inversion H; subst. destruct (IH _ _ _ _ eq_refl) as [blanks [semi [H1 H2]]].
      exists blanks, semi. split; [cbn; rewrite H1; reflexivity|auto].
Qed.

(* leftmost: no match starts inside the leading junk *)
Lemma pf_search_leftmost : forall s l ds body r, pf_search s = Some (l, ds, body, r) ->
  forall l1 l2, l = l1 ++ l2 -> l2 <> [] -> exists rest, s = l1 ++ rest /\ pf_match_here rest = None.
Proof.
  induction s as [|c s IH]; intros l ds body r; cbn [pf_search].
  - destruct (pf_match_here []) as [[[d b] r0]|] eqn:E; [|discriminate].
    intros H; inversion H; subst. intros l1 l2 Hl Hne. destruct l1, l2; try discriminate; try contradiction.
  - destruct (pf_match_here (c :: s)) as [[[d b] r0]|] eqn:E.
    + intros H; inversion H; subst. intros l1 l2 Hl Hne. destruct l1, l2; try discriminate; try contradiction.
    + destruct (pf_search s) as [[[[l0 d0] b0] r0]|] eqn:Es; [|discriminate].
      intros H; inversion H; subst. intros l1 l2 Hl Hne.
      destruct l1 as [|c1 l1].
      * exists (c :: s). split; auto.
      * cbn in Hl. inversion Hl; subst. destruct (IH _ _ _ _ eq_refl l1 l2 eq_refl Hne) as [rest [Hr Hm]].
        exists rest. split; [cbn; rewrite Hr; reflexivity|auto].
Qed.

Theorem syntax_error_iff maxd inp :
  (exists c, parse_plural_forms maxd (pf_value inp) = Crash c) \/
  (check_plurals_core maxd inp = Ok ([DSyntax], None) <-> parse_plural_forms maxd (pf_value inp) = Err PFSyntax).
Proof.
  unfold check_plurals_core. destruct (parse_plural_forms maxd (pf_value inp)) as [[[[n e] l] r]|[]|c] eqn:E.
  - right. split; [|discriminate]. intros H.
    destruct (match pf_correct inp with None => Ok None | Some l0 => do r0 <- parse_registry maxd l0; Ok (Some r0) end)
      as [reg| |]; cbn [obind] in H; try discriminate.
    match type of H with context[window_loop ?a ?b ?c ?d ?f ?g ?h] =>
      destruct (window_loop a b c d f g h) as [dl wpre] eqn:EW end.
    destruct (codomain M32 e); try discriminate; inversion H as [[H1 H2]];
      (assert (Hin : In DSyntax [DSyntax]) by (left; auto); rewrite <- H1 in Hin;
       apply window_loop_diags in EW; destruct EW as [extra [-> HF]]; cbn [app] in Hin;
       repeat (apply in_app_or in Hin; destruct Hin as [Hin|Hin]);
       [ destruct l; cbn in Hin; intuition discriminate
       | destruct r; cbn in Hin; intuition discriminate
       | destruct (pf_expected inp) as [|k [|]]; cbn in Hin; try (destruct (negb (n =? k))); cbn in Hin; intuition discriminate
       | destruct reg as [rg0|]; cbn in Hin; [destruct (filter _ rg0)|]; cbn in Hin; intuition discriminate
       | rewrite Forall_forall in HF; apply HF in Hin; contradiction
       | apply in_map_iff in Hin; destruct Hin as [? [Heq _]]; discriminate ]).
  - right. split; auto.
  - left. eauto.
Qed.

Theorem junk_exact maxd inp ds pre n e l r :
  check_plurals_core maxd inp = Ok (ds, pre) ->
  parse_plural_forms maxd (pf_value inp) = Ok (n, e, l, r) ->
  (forall j, In (DLeadingJunk j) ds <-> j = l /\ l <> []) /\
  (forall j, In (DTrailingJunk j) ds <-> j = r /\ r <> []).
Proof.
  intros H Hp. destruct (core_inv _ _ _ _ _ _ _ _ H Hp) as [reg [dl [wpre [_ [EW [-> _]]]]]].
  apply window_loop_diags in EW as Hd. destruct Hd as [extra [Hdl HF]]. cbn [app] in Hdl. subst dl.
  split; intros j; split.
  - intros Hin. repeat (apply in_app_or in Hin; destruct Hin as [Hin|Hin]).
    + destruct l; cbn in Hin; [contradiction|]. destruct Hin as [Hin|[]]. inversion Hin. split; auto. discriminate.
    + destruct r; cbn in Hin; intuition discriminate.
    + unfold d_count in Hin. destruct (pf_expected inp) as [|k [|]]; cbn in Hin; try (destruct (negb (n =? k))); cbn in Hin; intuition discriminate.
    + unfold d_unusual0 in Hin. destruct (reg_local n reg) as [[|]|]; cbn in Hin; intuition discriminate.
    + rewrite Forall_forall in HF. apply HF in Hin. contradiction.
    + apply in_map_iff in Hin. destruct Hin as [? [Heq _]]. discriminate.
  - intros [-> Hne]. apply in_or_app. left. destruct l; [contradiction|left; auto].
  - intros Hin. repeat (apply in_app_or in Hin; destruct Hin as [Hin|Hin]).
    + destruct l; cbn in Hin; intuition discriminate.
    + destruct r; cbn in Hin; [contradiction|]. destruct Hin as [Hin|[]]. inversion Hin. split; auto. discriminate.
    + unfold d_count in Hin. destruct (pf_expected inp) as [|k [|]]; cbn in Hin; try (destruct (negb (n =? k))); cbn in Hin; intuition discriminate.
    + unfold d_unusual0 in Hin. destruct (reg_local n reg) as [[|]|]; cbn in Hin; intuition discriminate.
    + rewrite Forall_forall in HF. apply HF in Hin. contradiction.
    + apply in_map_iff in Hin. destruct Hin as [? [Heq _]]. discriminate.
  - intros [-> Hne]. apply in_or_app. right. apply in_or_app. left. destruct r; [contradiction|left; auto].
Qed.

(* parse_plural_forms succeeds exactly on values that contain a well-shaped declaration whose
   expression text is accepted by the expression parser (leftmost such declaration) *)
Theorem parse_plural_forms_ok maxd s n e l r :
  parse_plural_forms maxd s = Ok (n, e, l, r) ->
  exists ds body, pf_shape s l ds body r /\ n = digits_value ds /\ parse_string maxd body = Ok e.
Proof.
  unfold parse_plural_forms. destruct (pf_search s) as [[[[l0 ds] body] r0]|] eqn:E; [|discriminate].
  destruct (negb (max_digits_ok maxd (N.of_nat (length ds)))); [discriminate|].
  destruct (parse_string maxd body) as [e0| |] eqn:Ep; try discriminate.
  intros H; inversion H; subst. exists ds, body. split; [apply pf_search_spec; auto|auto].
Qed.

(* ---------- completeness of the search: no match  <->  no declaration anywhere in the value ---------- *)
Lemma strip_prefix_app p : forall r, strip_prefix p (p ++ r) = Some r.
Proof. induction p as [|c p IH]; cbn; intros r; auto. rewrite N.eqb_refl. auto. Qed.

Lemma span_app (p : N -> bool) : forall a b, forallb p a = true ->
  match b with [] => True | c :: _ => p c = false end -> span p (a ++ b) = (a, b).
Proof.
  induction a as [|x a IH]; cbn; intros b Ha Hb.
  - destruct b as [|c b]; cbn; auto. rewrite Hb. auto.
  - apply andb_prop in Ha. destruct Ha as [Hx Ha]. rewrite Hx. rewrite (IH b Ha Hb). reflexivity.
Qed.

Lemma pf_match_here_complete s ds body r : pf_shape s [] ds body r -> pf_match_here s = Some (ds, body, r).
Proof.
  intros [blanks [semi [Hs [Hd [[d0 [ds' [Hds Hd0]]] [Hb [Hne [Hbody Hsemi]]]]]]]]. cbn [app] in Hs. subst s.
  unfold pf_match_here. rewrite strip_prefix_app. subst ds. cbn [app].
  assert (E0 : (49 <=? d0)%N && (d0 <=? 57)%N = true) by (apply andb_true_intro; split; apply N.leb_le; lia).
  rewrite E0.
  change (d0 :: ds' ++ 59%N :: blanks ++ s_plural ++ body ++ semi ++ r)
    with ((d0 :: ds') ++ (59%N :: blanks ++ s_plural ++ body ++ semi ++ r)).
  rewrite (span_app is_digit (d0 :: ds') (59%N :: blanks ++ s_plural ++ body ++ semi ++ r) Hd) by reflexivity.
  cbn [N.eqb negb]. change (N.eqb 59 59) with true. cbn [negb].
  assert (Hsp : span is_blank (blanks ++ s_plural ++ body ++ semi ++ r) = (blanks, s_plural ++ body ++ semi ++ r))
    by (apply span_app; auto; reflexivity).
  rewrite Hsp. rewrite strip_prefix_app.
  assert (Hsb : span not_semi (body ++ semi ++ r) = (body, semi ++ r)).
  { apply span_app; auto. destruct Hsemi as [-> | [-> ->]]; cbn; auto. }
  rewrite Hsb. destruct body as [|b0 b']; [contradiction|].
  destruct Hsemi as [-> | [-> ->]]; cbn; reflexivity.
Qed.

Lemma pf_shape_split s l ds body r : pf_shape s l ds body r <-> exists rest, s = l ++ rest /\ pf_shape rest [] ds body r.
Proof.
  split.
  - intros [blanks [semi [Hs H]]]. exists (s_nplurals ++ ds ++ [59%N] ++ blanks ++ s_plural ++ body ++ semi ++ r).
    split; auto. exists blanks, semi. split; auto.
  - intros [rest [-> [blanks [semi [Hs H]]]]]. exists blanks, semi. split; auto. cbn [app] in Hs. rewrite Hs. reflexivity.
Qed.

Lemma pf_search_app_some l : forall rest x, pf_match_here rest = Some x -> pf_search (l ++ rest) <> None.
Proof.
  induction l as [|c l IH]; intros rest [[d b] r0] Hm; cbn [app].
  - destruct rest; cbn [pf_search]; rewrite Hm; discriminate.
  - cbn [pf_search]. destruct (pf_match_here (c :: l ++ rest)) as [[[d' b'] r']|]; [discriminate|].
    specialize (IH rest _ Hm). destruct (pf_search (l ++ rest)) as [[[[l0 d0] b0] r1]|]; [discriminate|contradiction].
Qed.

Theorem pf_search_none_iff s : pf_search s = None <-> forall l ds body r, ~ pf_shape s l ds body r.
Proof.
  split.
  - intros Hn l ds body r Hsh. apply pf_shape_split in Hsh. destruct Hsh as [rest [-> Hsh]].
    apply pf_match_here_complete in Hsh. exact (pf_search_app_some l rest _ Hsh Hn).
  - intros H. destruct (pf_search s) as [[[[l ds] body] r]|] eqn:E; auto.
    exfalso. apply (H l ds body r). apply pf_search_spec. auto.
Qed.

(* the syntax error is reported iff the value contains no declaration at all, or the expression text of the leftmost one
   is not a plural expression *)
Theorem syntax_error_characterised maxd s : maxd = 0%N ->
  (parse_plural_forms maxd s = Err PFSyntax <->
   (forall l ds body r, ~ pf_shape s l ds body r) \/
   (exists l ds body r, pf_search s = Some (l, ds, body, r) /\ parse_string maxd body = Err SynErr)).
Proof.
  intros ->. unfold parse_plural_forms. split.
  - destruct (pf_search s) as [[[[l ds] body] r]|] eqn:E.
    + cbn. destruct (parse_string 0 body) as [e|[]|c] eqn:Ep; try discriminate.
      intros _. right. exists l, ds, body, r. auto.
    + intros _. left. apply pf_search_none_iff. auto.
  - intros [H|[l [ds [body [r [E Ep]]]]]].
    + apply pf_search_none_iff in H. rewrite H. reflexivity.
    + rewrite E. cbn. rewrite Ep. reflexivity.
Qed.

(* Lemmas about Model/Dates.v: shape of what fix_date accepts and returns, absence of crashes,
   idempotence, verdicts. *)
From Coq Require Import List ZArith NArith Bool Lia.
From I18n Require Import Lib.Outcome Model.Dates Spec.Calendar Proofs.DatesCalendar
  Generated.Timezones Generated.DatesUcd.
Import ListNotations.

(* ------------------------------------------------------------------ *)
(* generic *)

Lemma orelse_some : forall A (a b : option A) x, orelse a b = Some x -> a = Some x \/ (a = None /\ b = Some x).
Proof. intros A [a|] b x H; cbn in H; [left|right]; auto. Qed.

Lemma list_eqb_eq : forall a b, list_eqb a b = true <-> a = b.
Proof.
  induction a as [|x a IH]; destruct b as [|y b]; cbn; split; intro H; try reflexivity; try discriminate.
  - apply andb_true_iff in H. destruct H as [H1 H2]. apply N.eqb_eq in H1. apply IH in H2. subst; reflexivity.
  - injection H as -> ->. rewrite N.eqb_refl. cbn. apply IH. reflexivity.
Qed.

Lemma list_eqb_refl : forall a, list_eqb a a = true.
Proof. intro a. apply list_eqb_eq. reflexivity. Qed.

Lemma strip_prefix_spec : forall p s r, strip_prefix p s = Some r <-> s = p ++ r.
Proof.
  induction p as [|c p IH]; intros s r; cbn.
  - split; [intros [= ->]; reflexivity | intros ->; reflexivity].
  - destruct s as [|d s]; [split; discriminate|].
    destruct (N.eqb_spec c d) as [->|Hne].
    + rewrite IH. split; [intros ->; reflexivity | intros [= ->]; reflexivity].
    + split; [discriminate | intros [= -> _]; congruence].
Qed.

Definition nl_opt (n : list N) : Prop := n = [] \/ n = [10%N].

Lemma at_dollar_spec : forall s, at_dollar s = true <-> nl_opt s.
Proof.
  intros [|c [|d r]]; cbn; unfold nl_opt; split; intro H; auto; try discriminate.
  - apply N.eqb_eq in H. subst. auto.
  - destruct H as [H|H]; [discriminate|]. injection H as ->. reflexivity.
  - destruct H as [H|H]; discriminate.
Qed.

(* ------------------------------------------------------------------ *)
(* fixed-shape pieces *)

Definition conforms (p : list cc) (a : list N) : Prop := match_pat p a = Some (a, []).

Lemma match_pat_spec : forall p s a r, match_pat p s = Some (a, r) -> s = a ++ r /\ conforms p a.
Proof.
  unfold conforms. induction p as [|k p IH]; intros s a r H; cbn in H.
  - injection H as <- <-. split; reflexivity.
  - destruct s as [|c s]; [discriminate|].
    destruct (cc_ok k c) eqn:Hk; [|discriminate].
    destruct (match_pat p s) as [[a' r']|] eqn:Hm; [|discriminate].
    injection H as <- <-. destruct (IH _ _ _ Hm) as [-> Hc].
    split; [reflexivity|]. cbn. rewrite Hk, Hc. reflexivity.
Qed.

Lemma match_pat_complete : forall p a r, conforms p a -> match_pat p (a ++ r) = Some (a, r).
Proof.
  unfold conforms. induction p as [|k p IH]; intros a r H; cbn in H.
  - injection H as <-. reflexivity.
  - destruct a as [|c a]; [discriminate|]. cbn.
    destruct (cc_ok k c); [|discriminate].
    destruct (match_pat p a) as [[a' r']|] eqn:Hm; [|discriminate].
    injection H as -> ->. rewrite (IH a r Hm). reflexivity.
Qed.

Lemma conforms_length : forall p a, conforms p a -> length a = length p.
Proof.
  unfold conforms. induction p as [|k p IH]; intros a H; cbn in H.
  - injection H as <-. reflexivity.
  - destruct a as [|c a]; [discriminate|]. destruct (cc_ok k c); [|discriminate].
    destruct (match_pat p a) as [[a' r']|] eqn:Hm; [|discriminate].
    injection H as -> ->. cbn. f_equal. apply IH. exact Hm.
Qed.

Lemma conforms_app : forall p q a b, conforms p a -> conforms q b -> conforms (p ++ q) (a ++ b).
Proof.
  unfold conforms. induction p as [|k p IH]; intros q a b Ha Hb; cbn in Ha.
  - injection Ha as <-. exact Hb.
  - destruct a as [|c a]; [discriminate|]. cbn.
    destruct (cc_ok k c); [|discriminate].
    destruct (match_pat p a) as [[a' r']|] eqn:Hm; [|discriminate].
    injection Ha as -> ->. rewrite (IH q a b Hm Hb). reflexivity.
Qed.

Lemma conforms_split : forall p q s, conforms (p ++ q) s -> exists a b, s = a ++ b /\ conforms p a /\ conforms q b.
Proof.
  unfold conforms. induction p as [|k p IH]; intros q s H.
  - exists [], s. repeat split; auto.
  - cbn in H. destruct s as [|c s]; [discriminate|].
    destruct (cc_ok k c) eqn:Hk; [|discriminate].
    destruct (match_pat (p ++ q) s) as [[a' r']|] eqn:Hm; [|discriminate].
    injection H as -> ->.
    destruct (IH q s Hm) as (a & b & -> & Ha & Hb).
    exists (c :: a), b. repeat split; auto. cbn. rewrite Hk, Ha. reflexivity.
Qed.

Lemma conforms_cons : forall k p c a, conforms (k :: p) (c :: a) <-> cc_ok k c = true /\ conforms p a.
Proof.
  unfold conforms. intros k p c a. cbn. destruct (cc_ok k c).
  - destruct (match_pat p a) as [[a' r']|] eqn:Hm.
    + split.
      * intros [= -> ->]. auto.
      * intros [_ [= -> ->]]. reflexivity.
    + split; [discriminate | intros [_ H]; discriminate].
  - split; [discriminate | intros [H _]; discriminate].
Qed.

Lemma conforms_cons_inv : forall k p s, conforms (k :: p) s -> exists c a, s = c :: a /\ cc_ok k c = true /\ conforms p a.
Proof.
  intros k p [|c a] H.
  - discriminate.
  - exists c, a. split; [reflexivity|]. apply conforms_cons. exact H.
Qed.

Lemma conforms_nil_inv : forall s, conforms [] s -> s = [].
Proof. unfold conforms. cbn. intros s [= <-]. reflexivity. Qed.

Lemma conforms_all : forall (P : N -> Prop) p a, conforms p a ->
  (forall k c, In k p -> cc_ok k c = true -> P c) -> Forall P a.
Proof.
  induction p as [|k p IH]; intros a H HP.
  - apply conforms_nil_inv in H. subst. constructor.
  - destruct (conforms_cons_inv _ _ _ H) as (c & a' & -> & Hk & Ha).
    constructor; [apply (HP k c); cbn; auto|]. apply IH; [exact Ha|]. intros; apply (HP k0 c0); cbn; auto.
Qed.

(* ------------------------------------------------------------------ *)
(* what the _parse_date scanner accepts *)

Definition all_ws (sp : N -> bool) (w : list N) : Prop := Forall (fun c => sp c = true) w.

Lemma ws_star_spec : forall A sp (k : list N -> option A) s x, ws_star sp k s = Some x ->
  exists w r, s = w ++ r /\ all_ws sp w /\ k r = Some x.
Proof.
  intros A sp k. induction s as [|c s IH]; intros x H; cbn in H.
  - exists [], []. repeat split; [constructor | exact H].
  - destruct (sp c) eqn:Hc.
    + apply orelse_some in H. destruct H as [H | [_ H]].
      * destruct (IH x H) as (w & r & -> & Hw & Hk).
        exists (c :: w), r. repeat split; [constructor; assumption | exact Hk].
      * exists [], (c :: s). repeat split; [constructor | exact H].
    + exists [], (c :: s). repeat split; [constructor | exact H].
Qed.

Lemma ws_plus_spec : forall A sp (k : list N -> option A) s x, ws_plus sp k s = Some x ->
  exists w r, s = w ++ r /\ w <> [] /\ all_ws sp w /\ k r = Some x.
Proof.
  intros A sp k [|c s] x H; cbn in H; [discriminate|].
  destruct (sp c) eqn:Hc; [|discriminate].
  destruct (ws_star_spec _ _ _ _ _ H) as (w & r & -> & Hw & Hk).
  exists (c :: w), r. repeat split; [discriminate | constructor; assumption | exact Hk].
Qed.

Lemma ws_star_nonspace : forall A sp (k : list N -> option A) c s, sp c = false -> ws_star sp k (c :: s) = k (c :: s).
Proof. intros. cbn. rewrite H. reflexivity. Qed.

Definition gmt_prefix (pre : list N) : Prop := pre = [] \/ pre = s_GMT \/ pre = s_UTC.
Definition opt_lit (c : N) (l : list N) : Prop := l = [] \/ l = [c].

Lemma zone_num_spec : forall s z, zone_num s = Some z ->
  exists pre zh colon zm nl, z = ZNum zh zm /\ s = pre ++ zh ++ colon ++ zm ++ nl /\
    gmt_prefix pre /\ conforms zh_pat zh /\ opt_lit 58 colon /\ conforms zm_pat zm /\ nl_opt nl.
Proof.
  intros s z H. unfold zone_num in H.
  set (s1 := match strip_prefix s_GMT s with Some r => r | None => match strip_prefix s_UTC s with Some r => r | None => s end end) in H.
  assert (Hpre : exists pre, gmt_prefix pre /\ s = pre ++ s1).
  { unfold s1. destruct (strip_prefix s_GMT s) as [r|] eqn:E1.
    - apply strip_prefix_spec in E1. exists s_GMT. unfold gmt_prefix. auto.
    - destruct (strip_prefix s_UTC s) as [r|] eqn:E2.
      + apply strip_prefix_spec in E2. exists s_UTC. unfold gmt_prefix. auto.
      + exists []. unfold gmt_prefix. auto. }
  destruct Hpre as (pre & Hpre & Hs). clearbody s1.
  destruct (match_pat zh_pat s1) as [[zh s2]|] eqn:E1; [|discriminate].
  apply match_pat_spec in E1. destruct E1 as [-> Hzh].
  set (s3 := match s2 with c :: r => if N.eqb c 58 then r else s2 | [] => s2 end) in H.
  assert (Hcol : exists colon, opt_lit 58 colon /\ s2 = colon ++ s3).
  { unfold s3. destruct s2 as [|c r]; [exists []; unfold opt_lit; auto|].
    destruct (N.eqb_spec c 58) as [->|_]; [exists [58%N] | exists []]; unfold opt_lit; auto. }
  clearbody s3. destruct Hcol as (colon & Hcol & ->).
  destruct (match_pat zm_pat s3) as [[zm s4]|] eqn:E2; [|discriminate].
  apply match_pat_spec in E2. destruct E2 as [-> Hzm].
  destruct (at_dollar s4) eqn:E3; [|discriminate]. apply at_dollar_spec in E3.
  injection H as <-. exists pre, zh, colon, zm, s4. repeat split; assumption.
Qed.

Lemma find_abbr_spec : forall t s z, find_abbr t s = Some z ->
  exists a v nl, z = ZAbbr a /\ In (a, v) t /\ s = a ++ nl /\ nl_opt nl.
Proof.
  induction t as [|[a v] t IH]; intros s z H; cbn in H; [discriminate|].
  assert (Hrec : find_abbr t s = Some z -> exists a0 v0 nl, z = ZAbbr a0 /\ In (a0, v0) ((a, v) :: t) /\ s = a0 ++ nl /\ nl_opt nl).
  { intro H'. destruct (IH s z H') as (a0 & v0 & nl & Hz & Hin & Hs & Hnl). exists a0, v0, nl. cbn. auto. }
  destruct (strip_prefix a s) as [r|] eqn:E; [|auto].
  destruct (at_dollar r) eqn:E2; [|auto].
  apply strip_prefix_spec in E. apply at_dollar_spec in E2. injection H as <-.
  exists a, v, r. cbn. auto.
Qed.

Lemma zone_abbr_spec : forall t s z, zone_abbr t s = Some z ->
  exists plus a v nl, z = ZAbbr a /\ In (a, v) t /\ s = plus ++ a ++ nl /\ opt_lit 43 plus /\ nl_opt nl.
Proof.
  intros t s z H. unfold zone_abbr in H. apply orelse_some in H. destruct H as [H | [_ H]].
  - destruct s as [|c r]; [discriminate|]. destruct (N.eqb_spec c 43) as [->|_]; [|discriminate].
    destruct (find_abbr_spec _ _ _ H) as (a & v & nl & Hz & Hin & -> & Hnl).
    exists [43%N], a, v, nl. unfold opt_lit. repeat split; auto.
  - destruct (find_abbr_spec _ _ _ H) as (a & v & nl & Hz & Hin & -> & Hnl).
    exists [], a, v, nl. unfold opt_lit. repeat split; auto.
Qed.

Lemma in_lookup : forall t a v, In (a, v) t -> exists v', lookup t a = Some v'.
Proof.
  induction t as [|[k w] t IH]; intros a v H; [destruct H|]. cbn.
  destruct (list_eqb k a) eqn:E; [eexists; reflexivity|].
  destruct H as [H|H]; [|eapply IH; exact H].
  injection H as -> ->. rewrite list_eqb_refl in E. discriminate.
Qed.

(* the text after the time and the blanks, and the zone it stands for *)
Inductive zone_written (t : list (list N * list (list N))) (hint : option (list N)) : list N -> list N -> Prop :=
| ZW_num : forall pre zh colon zm nl,
    gmt_prefix pre -> conforms zh_pat zh -> opt_lit 58 colon -> conforms zm_pat zm -> nl_opt nl ->
    zone_written t hint (pre ++ zh ++ colon ++ zm ++ nl) (zh ++ zm)
| ZW_abbr : forall plus a z nl,
    opt_lit 43 plus -> lookup t a = Some [z] -> nl_opt nl ->
    zone_written t hint (plus ++ a ++ nl) z
| ZW_hint : forall nl z,
    nl_opt nl -> hint = Some z ->
    zone_written t hint nl z.

(* stripped input s, result r *)
Definition date_shape (E : env) (hint : option (list N)) (s r : list N) : Prop :=
  exists date sep time secs ws ztext zone,
    s = date ++ sep ++ time ++ secs ++ ws ++ ztext /\
    conforms date_pat date /\
    (sep = [84%N] \/ (sep <> [] /\ all_ws (sp_re E) sep)) /\
    conforms time_pat time /\
    (secs = [] \/ conforms sec_pat secs) /\
    all_ws (sp_re E) ws /\
    zone_written (tz_table E) hint ztext zone /\
    r = date ++ [32%N] ++ time ++ zone.

(* the regex level: groups and the text they come from *)
Definition re_shape (E : env) (s date time : list N) (z : zone_match) : Prop :=
  exists sep secs ws ztext,
    s = date ++ sep ++ time ++ secs ++ ws ++ ztext /\
    conforms date_pat date /\
    (sep = [84%N] \/ (sep <> [] /\ all_ws (sp_re E) sep)) /\
    conforms time_pat time /\
    (secs = [] \/ conforms sec_pat secs) /\
    all_ws (sp_re E) ws /\
    zone_opt (tz_table E) ztext = Some z.

Lemma re_time_spec : forall E s time z, re_time E s = Some (time, z) ->
  exists secs ws ztext, s = time ++ secs ++ ws ++ ztext /\ conforms time_pat time /\
    (secs = [] \/ conforms sec_pat secs) /\ all_ws (sp_re E) ws /\ zone_opt (tz_table E) ztext = Some z.
Proof.
  intros E s time z H. unfold re_time in H.
  destruct (match_pat time_pat s) as [[time' s3]|] eqn:E1; [|discriminate].
  apply match_pat_spec in E1. destruct E1 as [-> Ht].
  match type of H with match ?o with _ => _ end = _ => destruct o as [z'|] eqn:E2; [|discriminate] end.
  injection H as -> ->.
  apply orelse_some in E2. destruct E2 as [E2 | [_ E2]].
  - destruct (match_pat sec_pat s3) as [[secs s4]|] eqn:E3; [|discriminate].
    apply match_pat_spec in E3. destruct E3 as [-> Hs].
    unfold re_tail in E2. destruct (ws_star_spec _ _ _ _ _ E2) as (w & r & -> & Hw & Hk).
    exists secs, w, r. repeat split; auto.
  - unfold re_tail in E2. destruct (ws_star_spec _ _ _ _ _ E2) as (w & r & -> & Hw & Hk).
    exists [], w, r. repeat split; auto.
Qed.

Theorem parse_date_re_spec : forall E s date time z,
  parse_date_re E s = Some (date, time, z) -> re_shape E s date time z.
Proof.
  intros E s date time z H. unfold parse_date_re in H.
  destruct (match_pat date_pat s) as [[date' s1]|] eqn:E1; [|discriminate].
  apply match_pat_spec in E1. destruct E1 as [-> Hd].
  match type of H with match ?o with _ => _ end = _ => destruct o as [[time' z']|] eqn:E2; [|discriminate] end.
  injection H as -> -> ->.
  apply orelse_some in E2. destruct E2 as [E2 | [_ E2]].
  - destruct (ws_plus_spec _ _ _ _ _ E2) as (w & r & -> & Hne & Hw & Hk).
    destruct (re_time_spec _ _ _ _ Hk) as (secs & ws & ztext & -> & Ht & Hs & Hws & Hz).
    exists w, secs, ws, ztext. repeat split; auto.
  - destruct s1 as [|c r]; [discriminate|]. destruct (N.eqb_spec c 84) as [->|_]; [|discriminate].
    destruct (re_time_spec _ _ _ _ E2) as (secs & ws & ztext & -> & Ht & Hs & Hws & Hz).
    exists [84%N], secs, ws, ztext. repeat split; auto.
Qed.

(* ------------------------------------------------------------------ *)
(* digits, numbers, rendering *)
Local Open Scope Z_scope.

Definition dchr (v : Z) : N := Z.to_N (v + 48).
Definition dec2 (v : Z) : list N := [dchr (v / 10); dchr (v mod 10)].
Definition dec4 (v : Z) : list N := [dchr (v / 1000); dchr (v / 100 mod 10); dchr (v / 10 mod 10); dchr (v mod 10)].

(* the canonical spelling YYYY-MM-DD hh:mm+ZZzz / -ZZzz *)
Definition render (y m d hh mi : Z) (neg : bool) (zh zm : Z) : list N :=
  dec4 y ++ [45%N] ++ dec2 m ++ [45%N] ++ dec2 d ++ [32%N] ++ dec2 hh ++ [58%N] ++ dec2 mi
  ++ [if neg then 45%N else 43%N] ++ dec2 zh ++ dec2 zm.

Lemma is_d_range : forall c, is_d c = true -> 0 <= dval c <= 9.
Proof. intros c H. unfold is_d in H. apply andb_true_iff in H. destruct H as [H1 H2]. apply N.leb_le in H1, H2. unfold dval. lia. Qed.

Lemma dchr_dval : forall c, is_d c = true -> dchr (dval c) = c.
Proof. intros c H. pose proof (is_d_range c H). unfold dchr, dval in *. replace (Z.of_N c - 48 + 48) with (Z.of_N c) by lia. apply N2Z.id. Qed.

Lemma num2 : forall a b, num [a; b] = dval a * 10 + dval b.
Proof. intros. unfold num. cbn [fold_left]. lia. Qed.

Lemma num4 : forall a b c d, num [a; b; c; d] = ((dval a * 10 + dval b) * 10 + dval c) * 10 + dval d.
Proof. intros. unfold num. cbn [fold_left]. lia. Qed.

Lemma dec2_num : forall a b, is_d a = true -> is_d b = true -> dec2 (num [a; b]) = [a; b] /\ 0 <= num [a; b] <= 99.
Proof.
  intros a b Ha Hb. rewrite num2. pose proof (is_d_range a Ha) as Ra. pose proof (is_d_range b Hb) as Rb.
  rewrite <- (dchr_dval a Ha) at 2. rewrite <- (dchr_dval b Hb) at 2.
  set (x := dval a) in *. set (y := dval b) in *. unfold dec2. split; [|lia].
  replace ((x * 10 + y) / 10) with x by (Z.div_mod_to_equations; lia).
  replace ((x * 10 + y) mod 10) with y by (Z.div_mod_to_equations; lia).
  reflexivity.
Qed.

Lemma dec4_num : forall a b c d, is_d a = true -> is_d b = true -> is_d c = true -> is_d d = true ->
  dec4 (num [a; b; c; d]) = [a; b; c; d] /\ 0 <= num [a; b; c; d] <= 9999.
Proof.
  intros a b c d Ha Hb Hc Hd. rewrite num4.
  pose proof (is_d_range a Ha) as Ra. pose proof (is_d_range b Hb) as Rb.
  pose proof (is_d_range c Hc) as Rc. pose proof (is_d_range d Hd) as Rd.
  rewrite <- (dchr_dval a Ha) at 2. rewrite <- (dchr_dval b Hb) at 2.
  rewrite <- (dchr_dval c Hc) at 2. rewrite <- (dchr_dval d Hd) at 2.
  set (x := dval a) in *. set (y := dval b) in *. set (z := dval c) in *. set (w := dval d) in *.
  unfold dec4. split; [|lia].
  replace ((((x * 10 + y) * 10 + z) * 10 + w) / 1000) with x by (Z.div_mod_to_equations; lia).
  replace ((((x * 10 + y) * 10 + z) * 10 + w) / 100 mod 10) with y by (Z.div_mod_to_equations; lia).
  replace ((((x * 10 + y) * 10 + z) * 10 + w) / 10 mod 10) with z by (Z.div_mod_to_equations; lia).
  replace ((((x * 10 + y) * 10 + z) * 10 + w) mod 10) with w by (Z.div_mod_to_equations; lia).
  reflexivity.
Qed.

(* inversion of `conforms` on explicit patterns *)
Ltac conf_inv :=
  repeat match goal with
  | H : conforms (_ :: _) ?s |- _ =>
    let c := fresh "c" in let a := fresh "a" in let Hc := fresh "Hc" in
    apply conforms_cons_inv in H; destruct H as (c & a & ? & Hc & H); subst s; cbn [cc_ok] in Hc
  | H : conforms [] ?s |- _ => apply conforms_nil_inv in H; subst s
  end.

Definition zone5_pat : list cc := [CS; CD; CD; CD; CD].
Definition canon_pat : list cc := canon16_pat ++ zone5_pat.
Definition canonical (r : list N) : Prop := conforms canon_pat r.

Lemma is_sign_cases : forall c, is_sign c = true -> c = 43%N \/ c = 45%N.
Proof. intros c H. unfold is_sign in H. apply orb_true_iff in H. destruct H as [H|H]; apply N.eqb_eq in H; auto. Qed.

Lemma zone5_offset_inv : forall z off, zone5_offset z = Some off ->
  exists sg a b c d, z = [sg; a; b; c; d] /\ is_sign sg = true /\ is_d a = true /\ is_d b = true /\ is_d c = true /\ is_d d = true /\
    num [a; b] <= 23 /\ num [c; d] <= 59 /\
    off = (if N.eqb sg 45 then -1 else 1) * (num [a; b] * 60 + num [c; d]).
Proof.
  intros z off H. unfold zone5_offset in H.
  destruct (match_pat [CS; CD; CD; CD; CD] z) as [[a r]|] eqn:E; [|discriminate].
  destruct r; [|discriminate].
  apply match_pat_spec in E. destruct E as [-> Hc]. rewrite app_nil_r in *.
  conf_inv. cbn [nth firstn skipn] in H.
  destruct ((num [c0; c1] <=? 23) && (num [c2; c3] <=? 59)) eqn:Eb; [|discriminate].
  apply andb_true_iff in Eb. destruct Eb as [E1 E2]. apply Z.leb_le in E1, E2.
  injection H as <-.
  exists c, c0, c1, c2, c3. repeat split; auto.
  destruct (N.eqb c 45); lia.
Qed.

Lemma zone5_offset_conforms : forall z off, zone5_offset z = Some off -> conforms zone5_pat z.
Proof.
  intros z off H. unfold zone5_offset in H.
  destruct (match_pat [CS; CD; CD; CD; CD] z) as [[a r]|] eqn:E; [|discriminate].
  destruct r; [|discriminate].
  apply match_pat_spec in E. destruct E as [-> Hc]. rewrite app_nil_r. exact Hc.
Qed.

Lemma app4_assoc : forall (a b c d : list N), a ++ b ++ c ++ d = (a ++ b ++ c) ++ d.
Proof. intros. rewrite !app_assoc. reflexivity. Qed.

Lemma conforms_canon16 : forall date time, conforms date_pat date -> conforms time_pat time ->
  conforms canon16_pat (date ++ [32%N] ++ time).
Proof.
  intros date time Hd Ht. unfold canon16_pat.
  apply conforms_app; [exact Hd|]. apply conforms_app; [reflexivity | exact Ht].
Qed.

(* what a successful parse_date means *)
Lemma parse_date_inv : forall date time zone st,
  conforms date_pat date -> conforms time_pat time ->
  parse_date (date ++ [32%N] ++ time ++ zone) = Ok st ->
  exists neg zh zm,
    date ++ [32%N] ++ time ++ zone = render (st_y st) (st_m st) (st_d st) (st_hh st) (st_mi st) neg zh zm /\
    stamp_valid st /\ 0 <= zh <= 23 /\ 0 <= zm <= 59 /\
    st_off st = (if neg then -1 else 1) * (zh * 60 + zm) /\
    conforms zone5_pat zone.
Proof.
  intros date time zone st Hd Ht H.
  pose proof (conforms_canon16 _ _ Hd Ht) as H16.
  rewrite app4_assoc in H. unfold parse_date in H.
  rewrite (match_pat_complete _ _ zone H16) in H.
  destruct (negb (Nat.eqb (length zone) 5) || non_ascii zone); [discriminate|].
  destruct (zone5_offset zone) as [off|] eqn:Ez; [|discriminate].
  pose proof (zone5_offset_conforms _ _ Ez) as Hz5.
  apply zone5_offset_inv in Ez.
  destruct Ez as (sg & za & zb & zc & zd & -> & Hsg & Hza & Hzb & Hzc & Hzd & Hzh & Hzm & Hoff).
  unfold date_pat in Hd. unfold time_pat in Ht. conf_inv.
  repeat match goal with Hx : N.eqb _ _ = true |- _ => apply N.eqb_eq in Hx; subst end.
  cbn [app firstn skipn] in H.
  match type of H with (if ?b then _ else _) = _ => destruct b eqn:Ec; [|discriminate] end.
  injection H as <-. cbn [st_y st_m st_d st_hh st_mi st_off].
  apply civil_ok_spec in Ec. destruct Ec as (Hvd & Hy & Hvt).
  destruct (dec2_num za zb Hza Hzb) as [Dz1 Rz1]. destruct (dec2_num zc zd Hzc Hzd) as [Dz2 Rz2].
  exists (N.eqb sg 45), (num [za; zb]), (num [zc; zd]).
  split; [|split; [|split; [|split; [|split]]]]; try assumption; try lia.
  - unfold render.
    repeat match goal with
    | Ha : is_d ?a = true, Hb : is_d ?b = true |- context [dec2 (num [?a; ?b])] =>
      rewrite (proj1 (dec2_num a b Ha Hb))
    end.
    match goal with
    | |- context [dec4 (num [?a; ?b; ?c; ?d])] =>
      rewrite (proj1 (dec4_num a b c d ltac:(assumption) ltac:(assumption) ltac:(assumption) ltac:(assumption)))
    end.
    destruct (is_sign_cases _ Hsg) as [-> | ->]; reflexivity.
  - unfold stamp_valid. cbn [st_y st_m st_d st_hh st_mi st_off]. repeat split; try apply Hvd; try apply Hvt; try assumption.
    + destruct (N.eqb sg 45); lia.
    + destruct (N.eqb sg 45); lia.
Qed.

(* ------------------------------------------------------------------ *)
(* fix_date: inversion of success *)

Definition zone_resolved (E : env) (hint : option (list N)) (zm : zone_match) (zone : list N) : Prop :=
  match zm with
  | ZNum zh zmin => zone = zh ++ zmin
  | ZAbbr a => lookup (tz_table E) a = Some [zone]
  | ZNone => hint = Some zone
  end.

Lemma fix_date_ok_inv : forall E hint s0 r, fix_date E hint s0 = Ok r ->
  bp_search (sp_re E) (strip (sp_strip E) s0) = false /\
  exists date time zm zone st,
    parse_date_re E (strip (sp_strip E) s0) = Some (date, time, zm) /\
    zone_resolved E hint zm zone /\
    r = date ++ [32%N] ++ time ++ zone /\
    parse_date r = Ok st.
Proof.
  intros E hint s0 r H. unfold fix_date in H. cbn zeta in H.
  set (s := strip (sp_strip E) s0) in *.
  destruct (bp_search (sp_re E) s) eqn:Ebp; [discriminate|].
  split; [reflexivity|].
  destruct (match hint with None => Ok tt | Some h => hint_check h end) as [[]|e|c] eqn:Eh; cbn [obind] in H; try discriminate.
  destruct (parse_date_re E s) as [[[date time] zm]|] eqn:Ere; [|discriminate].
  match type of H with obind ?o _ = _ => destruct o as [zone|e|c] eqn:Ez end; cbn [obind] in H; try discriminate.
  match type of H with (if ?b then _ else _) = _ => destruct b; [discriminate|] end.
  destruct (parse_date (date ++ [32%N] ++ time ++ zone)) as [st|e|c] eqn:Ep; cbn [obind] in H; try discriminate.
  injection H as <-.
  exists date, time, zm, zone, st. repeat split; try assumption.
  unfold zone_resolved. destruct zm as [zh zmin|a|].
  - injection Ez as <-. reflexivity.
  - destruct (lookup (tz_table E) a) as [[|z [|z' l]]|]; try discriminate. injection Ez as <-. reflexivity.
  - destruct hint as [h|]; [|discriminate]. injection Ez as <-. reflexivity.
Qed.

Lemma re_shape_conforms : forall E s date time z, re_shape E s date time z -> conforms date_pat date /\ conforms time_pat time.
Proof. intros E s date time z (sep & secs & ws & ztext & _ & Hd & _ & Ht & _). auto. Qed.

(* C18_canonical *)
Theorem fix_date_canonical : forall E hint s r, fix_date E hint s = Ok r ->
  canonical r /\
  exists st neg zh zm,
    parse_date r = Ok st /\
    r = render (st_y st) (st_m st) (st_d st) (st_hh st) (st_mi st) neg zh zm /\
    stamp_valid st /\ 0 <= zh <= 23 /\ 0 <= zm <= 59 /\
    st_off st = (if neg then -1 else 1) * (zh * 60 + zm).
Proof.
  intros E hint s r H.
  destruct (fix_date_ok_inv _ _ _ _ H) as (_ & date & time & zm & zone & st & Hre & _ & -> & Hp).
  apply parse_date_re_spec in Hre. destruct (re_shape_conforms _ _ _ _ _ Hre) as [Hd Ht].
  destruct (parse_date_inv _ _ _ _ Hd Ht Hp) as (neg & zh & zmin & Hr & Hv & Hzh & Hzm & Hoff & Hz5).
  split.
  - unfold canonical, canon_pat. rewrite app4_assoc. apply conforms_app; [apply conforms_canon16; assumption | exact Hz5].
  - exists st, neg, zh, zmin. repeat split; try assumption; try lia; apply Hv.
Qed.

(* C18_components *)
Theorem fix_date_components : forall E hint s r, fix_date E hint s = Ok r ->
  date_shape E hint (strip (sp_strip E) s) r.
Proof.
  intros E hint s r H.
  destruct (fix_date_ok_inv _ _ _ _ H) as (_ & date & time & zm & zone & st & Hre & Hzr & -> & _).
  apply parse_date_re_spec in Hre.
  destruct Hre as (sep & secs & ws & ztext & Hs & Hd & Hsep & Ht & Hsecs & Hws & Hz).
  exists date, sep, time, secs, ws, ztext, zone. repeat split; try assumption.
  unfold zone_opt in Hz. apply orelse_some in Hz. destruct Hz as [Hz | [_ Hz]].
  - apply orelse_some in Hz. destruct Hz as [Hz | [_ Hz]].
    + destruct (zone_num_spec _ _ Hz) as (pre & zh & colon & zmin & nl & -> & -> & Hpre & Hzh & Hcol & Hzm & Hnl).
      cbn in Hzr. subst zone. apply ZW_num; assumption.
    + destruct (zone_abbr_spec _ _ _ Hz) as (plus & a & v & nl & -> & _ & -> & Hplus & Hnl).
      cbn in Hzr. apply ZW_abbr; assumption.
  - destruct (at_dollar ztext) eqn:Ed; [|discriminate]. injection Hz as <-. cbn in Hzr.
    apply at_dollar_spec in Ed. apply ZW_hint; assumption.
Qed.

(* ------------------------------------------------------------------ *)
(* no crash *)

Definition zone5_ok (z : list N) : bool := match zone5_offset z with Some _ => true | None => false end.

(* every offset of the table is [+-]hhmm with hh <= 23 and mm <= 59 *)
Definition table_ok (t : list (list N * list (list N))) : bool :=
  forallb (fun e => forallb zone5_ok (snd e)) t.

Definition good_hint (hint : option (list N)) : Prop :=
  match hint with None => True | Some h => zone5_ok h = true end.

Lemma lookup_in : forall t a v, lookup t a = Some v -> In (a, v) t.
Proof.
  induction t as [|[k w] t IH]; intros a v H; cbn in H; [discriminate|].
  destruct (list_eqb k a) eqn:E.
  - apply list_eqb_eq in E. injection H as <-. subst. left; reflexivity.
  - right. apply IH. exact H.
Qed.

Lemma table_ok_lookup : forall t a z, table_ok t = true -> lookup t a = Some [z] -> zone5_ok z = true.
Proof.
  intros t a z Ht Hl. apply lookup_in in Hl. unfold table_ok in Ht.
  rewrite forallb_forall in Ht. specialize (Ht _ Hl). cbn in Ht.
  apply andb_true_iff in Ht. apply Ht.
Qed.

Lemma existsb_false : forall (f : N -> bool) l, (forall c, In c l -> f c = false) -> existsb f l = false.
Proof.
  induction l as [|x l IH]; intro H; [reflexivity|]. cbn. rewrite (H x) by (left; reflexivity).
  apply IH. intros c Hc. apply H. right. exact Hc.
Qed.

Lemma zone5_ok_inv : forall z, zone5_ok z = true ->
  conforms zone5_pat z /\ length z = 5%nat /\ non_ascii z = false.
Proof.
  intros z H. unfold zone5_ok in H. destruct (zone5_offset z) as [off|] eqn:E; [|discriminate].
  pose proof (zone5_offset_conforms _ _ E) as Hc. split; [exact Hc|].
  split; [apply (conforms_length _ _ Hc)|].
  unfold non_ascii. apply existsb_false.
  assert (Hall : Forall (fun c => (c < 128)%N) z).
  { apply (conforms_all _ _ _ Hc). intros k c Hin Hk. unfold zone5_pat in Hin. cbn in Hin.
    destruct Hin as [<-|[<-|[<-|[<-|[<-|[]]]]]]; cbn in Hk;
      try (unfold is_d in Hk; apply andb_true_iff in Hk; destruct Hk as [_ Hk]; apply N.leb_le in Hk; lia).
    destruct (is_sign_cases _ Hk); subst; lia. }
  rewrite Forall_forall in Hall. intros c Hc'. apply N.leb_gt. apply Hall. exact Hc'.
Qed.

Lemma conforms_zone5_ascii : forall z, conforms zone5_pat z -> length z = 5%nat /\ non_ascii z = false.
Proof.
  intros z Hc. split; [apply (conforms_length _ _ Hc)|].
  unfold non_ascii. apply existsb_false.
  assert (Hall : Forall (fun c => (c < 128)%N) z).
  { apply (conforms_all _ _ _ Hc). intros k c Hin Hk. unfold zone5_pat in Hin. cbn in Hin.
    destruct Hin as [<-|[<-|[<-|[<-|[<-|[]]]]]]; cbn in Hk;
      try (unfold is_d in Hk; apply andb_true_iff in Hk; destruct Hk as [_ Hk]; apply N.leb_le in Hk; lia).
    destruct (is_sign_cases _ Hk); subst; lia. }
  rewrite Forall_forall in Hall. intros c Hc'. apply N.leb_gt. apply Hall. exact Hc'.
Qed.

Lemma is_d_le : forall c, is_d c = true -> (48 <= c <= 57)%N.
Proof. intros c H. unfold is_d in H. apply andb_true_iff in H. destruct H as [H1 H2]. apply N.leb_le in H1, H2. lia. Qed.

Lemma hint_check_zone5 : forall h, zone5_ok h = true -> hint_check h = Ok tt.
Proof.
  intros h H. destruct (zone5_ok_inv _ H) as (_ & _ & Hna).
  unfold zone5_ok in H. destruct (zone5_offset h) as [off|] eqn:E; [|discriminate].
  apply zone5_offset_inv in E.
  destruct E as (sg & a & b & c & d & -> & Hsg & Ha & Hb & Hc & Hd & Hzh & Hzm & _).
  unfold hint_check. rewrite Hna.
  cbn [list_eqb]. rewrite andb_false_r.
  assert (Hzhp : conforms zh_pat [sg; a; b]).
  { unfold zh_pat. apply conforms_cons. split; [exact Hsg|]. apply conforms_cons. split; [exact Ha|].
    apply conforms_cons. split; [exact Hb|]. reflexivity. }
  change [sg; a; b; c; d] with ([sg; a; b] ++ [c; d]).
  rewrite (match_pat_complete _ _ [c; d] Hzhp).
  pose proof (is_d_le c Hc) as Rc. pose proof (is_d_range c Hc) as Rc'. pose proof (is_d_range d Hd) as Rd'.
  unfold take_colon. destruct (N.eqb_spec c 58) as [->|_]; [lia|].
  assert (H05 : is_05 c = true).
  { rewrite num2 in Hzm. unfold is_05. apply andb_true_iff. split; apply N.leb_le; unfold dval in *; lia. }
  rewrite H05, Hd. cbn [andb negb skipn].
  apply Z.leb_le in Hzh. rewrite Hzh. reflexivity.
Qed.

Lemma zone_opt_num : forall t s zh zm, zone_opt t s = Some (ZNum zh zm) -> conforms zh_pat zh /\ conforms zm_pat zm.
Proof.
  intros t s zh zm H. unfold zone_opt in H. apply orelse_some in H. destruct H as [H | [_ H]].
  - apply orelse_some in H. destruct H as [H | [_ H]].
    + destruct (zone_num_spec _ _ H) as (pre & zh' & colon & zm' & nl & Hz & _ & _ & Hzh & _ & Hzm & _).
      injection Hz as -> ->. auto.
    + destruct (zone_abbr_spec _ _ _ H) as (plus & a & v & nl & Hz & _). discriminate.
  - destruct (at_dollar s); discriminate.
Qed.

Lemma zone_opt_abbr : forall t s a, zone_opt t s = Some (ZAbbr a) -> exists v, lookup t a = Some v.
Proof.
  intros t s a H. unfold zone_opt in H. apply orelse_some in H. destruct H as [H | [_ H]].
  - apply orelse_some in H. destruct H as [H | [_ H]].
    + destruct (zone_num_spec _ _ H) as (pre & zh' & colon & zm' & nl & Hz & _). discriminate.
    + destruct (zone_abbr_spec _ _ _ H) as (plus & a' & v & nl & Hz & Hin & _).
      injection Hz as ->. eapply in_lookup. exact Hin.
  - destruct (at_dollar s); discriminate.
Qed.

Lemma parse_date_no_crash : forall date time zone,
  conforms date_pat date -> conforms time_pat time -> length zone = 5%nat -> non_ascii zone = false ->
  (exists st, parse_date (date ++ [32%N] ++ time ++ zone) = Ok st) \/ parse_date (date ++ [32%N] ++ time ++ zone) = Err Invalid.
Proof.
  intros date time zone Hd Ht Hl Hna.
  pose proof (conforms_canon16 _ _ Hd Ht) as H16.
  rewrite app4_assoc. unfold parse_date.
  rewrite (match_pat_complete _ _ zone H16). rewrite Hl, Hna. cbn [Nat.eqb negb orb].
  destruct (zone5_offset zone) as [off|]; [|right; reflexivity].
  match goal with |- context [if ?b then _ else _] => destruct b end; [left; eexists; reflexivity | right; reflexivity].
Qed.

Lemma canon_length : forall date time zone, conforms date_pat date -> conforms time_pat time -> length zone = 5%nat ->
  length (date ++ [32%N] ++ time ++ zone) = 21%nat.
Proof.
  intros date time zone Hd Ht Hl. rewrite !app_length. rewrite (conforms_length _ _ Hd), (conforms_length _ _ Ht), Hl. reflexivity.
Qed.

(* C18_fix_total *)
Theorem fix_date_total : forall E hint s, table_ok (tz_table E) = true -> good_hint hint ->
  (exists r, fix_date E hint s = Ok r) \/ fix_date E hint s = Err Boilerplate \/ fix_date E hint s = Err Invalid.
Proof.
  intros E hint s0 Ht Hh. unfold fix_date. cbn zeta.
  set (s := strip (sp_strip E) s0).
  destruct (bp_search (sp_re E) s); [right; left; reflexivity|].
  assert (Hhc : match hint with None => Ok tt | Some h => hint_check h end = (Ok tt : outcome unit date_err)).
  { destruct hint as [h|]; [apply hint_check_zone5; exact Hh | reflexivity]. }
  rewrite Hhc. cbn [obind].
  destruct (parse_date_re E s) as [[[date time] zm]|] eqn:Ere; [|right; right; reflexivity].
  apply parse_date_re_spec in Ere.
  destruct Ere as (sep & secs & ws & ztext & _ & Hd & _ & Htm & _ & _ & Hz).
  assert (Hfin : forall zone, zone5_ok zone = true ->
    (exists r, (if negb (Nat.eqb (length (date ++ [32%N] ++ time ++ zone)) 21) then Crash CAssertion
                else obind (parse_date (date ++ [32%N] ++ time ++ zone)) (fun _ => Ok (date ++ [32%N] ++ time ++ zone))) = Ok r) \/
    (if negb (Nat.eqb (length (date ++ [32%N] ++ time ++ zone)) 21) then Crash CAssertion
     else obind (parse_date (date ++ [32%N] ++ time ++ zone)) (fun _ => Ok (date ++ [32%N] ++ time ++ zone))) = (Err Invalid : outcome (list N) date_err)).
  { intros zone Hz5. destruct (zone5_ok_inv _ Hz5) as (_ & Hl & Hna).
    rewrite (canon_length _ _ _ Hd Htm Hl). cbn [Nat.eqb negb].
    destruct (parse_date_no_crash date time zone Hd Htm Hl Hna) as [[st ->] | ->]; cbn [obind]; [left; eexists; reflexivity | right; reflexivity]. }
  destruct zm as [zh zmin|a|]; cbn [obind].
  - destruct (zone_opt_num _ _ _ _ Hz) as [Hzh Hzm].
    assert (Hz5 : conforms zone5_pat (zh ++ zmin)) by (apply (conforms_app zh_pat zm_pat); assumption).
    destruct (conforms_zone5_ascii _ Hz5) as [Hl Hna].
    rewrite (canon_length _ _ _ Hd Htm Hl). cbn [Nat.eqb negb].
    destruct (parse_date_no_crash date time (zh ++ zmin) Hd Htm Hl Hna) as [[st ->] | ->]; cbn [obind];
      [left; eexists; reflexivity | right; right; reflexivity].
  - destruct (zone_opt_abbr _ _ _ Hz) as [v Hv]. rewrite Hv.
    destruct v as [|z [|z' l]]; cbn [obind]; try (right; right; reflexivity).
    destruct (Hfin z (table_ok_lookup _ _ _ Ht Hv)) as [H | H]; [left; exact H | right; right; exact H].
  - destruct hint as [h|]; cbn [obind]; [|right; right; reflexivity].
    destruct (Hfin h Hh) as [H | H]; [left; exact H | right; right; exact H].
Qed.

(* ------------------------------------------------------------------ *)
(* idempotence *)

(* what the proofs need from the two whitespace predicates *)
Definition space_ok (E : env) : Prop :=
  sp_re E 32%N = true /\
  (forall c, is_d c = true -> sp_re E c = false /\ sp_strip E c = false) /\
  (forall c, is_sign c = true -> sp_re E c = false).

Lemma strip_prefix_head_ne : forall c p d s, c <> d -> strip_prefix (c :: p) (d :: s) = None.
Proof. intros c p d s H. cbn. destruct (N.eqb_spec c d); [contradiction | reflexivity]. Qed.

Lemma small_ne : forall c x, (c < 65)%N -> (65 <= x)%N -> N.eqb x c = false.
Proof. intros c x H1 H2. apply N.eqb_neq. lia. Qed.

Lemma bp_at_small : forall sp first s, (forall c, In c (firstn 2 s) -> (c < 65)%N) -> bp_at sp first s = false.
Proof.
  intros sp first s H. unfold bp_at, starts_with.
  destruct s as [|c [|d t]].
  - cbn. rewrite andb_false_r. reflexivity.
  - assert (Hc : (c < 65)%N) by (apply H; cbn; auto).
    cbn [strip_prefix s_YEAR_ s_MO_ s_DA s_HO_ s_MI s_ZONE].
    rewrite (small_ne c 89 Hc) by lia.
    repeat match goal with |- context [N.eqb ?a c] => destruct (N.eqb a c) end;
      cbn; rewrite ?andb_false_r; reflexivity.
  - assert (Hc : (c < 65)%N) by (apply H; cbn; auto).
    assert (Hd : (d < 65)%N) by (apply H; cbn; auto).
    cbn [strip_prefix s_YEAR_ s_MO_ s_DA s_HO_ s_MI s_ZONE].
    rewrite (small_ne c 89 Hc), (small_ne d 77 Hd), (small_ne d 68 Hd), (small_ne d 72 Hd), (small_ne d 90 Hd) by lia.
    repeat match goal with |- context [N.eqb ?a c] => destruct (N.eqb a c) end;
      cbn; rewrite ?andb_false_r; reflexivity.
Qed.

Lemma in_firstn : forall (n : nat) (l : list N) x, In x (firstn n l) -> In x l.
Proof.
  induction n as [|n IH]; intros l x H; [destruct H|]. destruct l as [|y l]; [destruct H|].
  cbn in H. destruct H as [H|H]; [left; exact H | right; apply IH; exact H].
Qed.

Lemma bp_from_small : forall sp s first, Forall (fun c => (c < 65)%N) s -> bp_from sp first s = false.
Proof.
  intros sp. induction s as [|c s IH]; intros first H.
  - cbn [bp_from]. rewrite bp_at_small; [reflexivity | intros c []].
  - cbn [bp_from]. rewrite bp_at_small.
    + cbn [orb]. apply IH. inversion H; assumption.
    + rewrite Forall_forall in H. intros x Hx. apply H. apply (in_firstn 2). exact Hx.
Qed.

Lemma canon_small : forall r, canonical r -> Forall (fun c => (c < 65)%N) r.
Proof.
  intros r H. apply (conforms_all _ _ _ H). intros k c Hin Hk.
  unfold canon_pat, canon16_pat, date_pat, time_pat, zone5_pat in Hin. cbn in Hin.
  repeat (destruct Hin as [<-|Hin]; [cbn in Hk;
    first [ apply is_d_le in Hk; lia
          | destruct (is_sign_cases _ Hk); subst; lia
          | apply N.eqb_eq in Hk; subst; lia ] |]).
  destruct Hin.
Qed.

Lemma zh_inv : forall zh, conforms zh_pat zh ->
  exists sg a b, zh = [sg; a; b] /\ is_sign sg = true /\ is_d a = true /\ is_d b = true.
Proof. intros zh H. unfold zh_pat in H. conf_inv. do 3 eexists. split; [reflexivity|]. repeat split; assumption. Qed.

Lemma zm_inv : forall zm, conforms zm_pat zm -> exists c d, zm = [c; d] /\ is_d c = true /\ is_d d = true.
Proof. intros zm H. unfold zm_pat in H. conf_inv. do 2 eexists. split; [reflexivity|]. repeat split; assumption. Qed.

Lemma time_inv : forall t, conforms time_pat t ->
  exists h1 h2 i1 i2, t = [h1; h2; 58%N; i1; i2] /\ is_d h1 = true /\ is_d h2 = true /\ is_d i1 = true /\ is_d i2 = true.
Proof.
  intros t H. unfold time_pat in H. conf_inv.
  repeat match goal with Hx : N.eqb _ _ = true |- _ => apply N.eqb_eq in Hx; subst end.
  do 4 eexists. split; [reflexivity|]. repeat split; assumption.
Qed.

Lemma zone_num_canonical : forall zh zm, conforms zh_pat zh -> conforms zm_pat zm -> zone_num (zh ++ zm) = Some (ZNum zh zm).
Proof.
  intros zh zm Hzh Hzm.
  destruct (zh_inv _ Hzh) as (sg & a & b & -> & Hsg & Ha & Hb).
  destruct (zm_inv _ Hzm) as (c & d & -> & Hc & Hd).
  assert (Hs : 71%N <> sg /\ 85%N <> sg) by (destruct (is_sign_cases _ Hsg) as [-> | ->]; split; discriminate).
  unfold zone_num. cbn [app].
  unfold s_GMT, s_UTC. rewrite !strip_prefix_head_ne by tauto.
  change (sg :: a :: b :: c :: [d]) with ([sg; a; b] ++ [c; d]).
  rewrite (match_pat_complete _ _ [c; d] Hzh).
  pose proof (is_d_le c Hc) as R2.
  destruct (N.eqb_spec c 58) as [->|_]; [lia|].
  rewrite Hzm. reflexivity.
Qed.

Lemma parse_date_re_canonical : forall E date time zh zm, space_ok E ->
  conforms date_pat date -> conforms time_pat time -> conforms zh_pat zh -> conforms zm_pat zm ->
  parse_date_re E (date ++ [32%N] ++ time ++ zh ++ zm) = Some (date, time, ZNum zh zm).
Proof.
  intros E date time zh zm (H32 & Hdig & Hsgn) Hd Ht Hzh Hzm.
  unfold parse_date_re. rewrite (match_pat_complete _ _ _ Hd).
  destruct (time_inv _ Ht) as (h1 & h2 & i1 & i2 & -> & Hh1 & _).
  destruct (zh_inv _ Hzh) as (sg & a & b & -> & Hsg & _).
  assert (Hrt : re_time E ([h1; h2; 58%N; i1; i2] ++ [sg; a; b] ++ zm) = Some ([h1; h2; 58%N; i1; i2], ZNum [sg; a; b] zm)).
  { unfold re_time. rewrite (match_pat_complete _ _ _ Ht).
    assert (Hsec : match_pat sec_pat ([sg; a; b] ++ zm) = None).
    { cbn [app match_pat sec_pat cc_ok]. destruct (is_sign_cases _ Hsg) as [-> | ->]; reflexivity. }
    rewrite Hsec. cbn [orelse]. unfold re_tail.
    cbn [app]. rewrite ws_star_nonspace by (apply Hsgn; exact Hsg).
    unfold zone_opt. change (sg :: a :: b :: zm) with ([sg; a; b] ++ zm).
    rewrite (zone_num_canonical _ _ Hzh Hzm). reflexivity. }
  cbn [app ws_plus]. rewrite H32.
  rewrite ws_star_nonspace by (apply Hdig; exact Hh1).
  cbn [app] in Hrt. rewrite Hrt. reflexivity.
Qed.

Lemma strip_canonical : forall E r, space_ok E -> canonical r -> strip (sp_strip E) r = r.
Proof.
  intros E r (_ & Hdig & _) H. unfold canonical, canon_pat, canon16_pat, date_pat, time_pat, zone5_pat in H.
  cbn [app] in H. conf_inv.
  unfold strip. cbn [lstrip].
  match goal with |- context [sp_strip E ?x] => rewrite (proj2 (Hdig x ltac:(assumption))) end.
  cbn [rev app lstrip].
  match goal with |- context [sp_strip E ?x] => rewrite (proj2 (Hdig x ltac:(assumption))) end.
  reflexivity.
Qed.

(* C18_idempotent *)
Theorem fix_date_idempotent : forall E hint s r, space_ok E -> fix_date E hint s = Ok r -> fix_date E None r = Ok r.
Proof.
  intros E hint s r Hsp H.
  destruct (fix_date_canonical _ _ _ _ H) as (Hcan & st & _ & _ & _ & Hp & _).
  unfold fix_date. cbn zeta. rewrite (strip_canonical _ _ Hsp Hcan).
  unfold bp_search. rewrite (bp_from_small _ _ _ (canon_small _ Hcan)). cbn [obind].
  pose proof Hcan as Hc.
  unfold canonical in Hc.
  change canon_pat with (date_pat ++ ([CL 32] ++ (time_pat ++ (zh_pat ++ zm_pat)))) in Hc.
  apply conforms_split in Hc. destruct Hc as (date & r1 & -> & Hd & Hc).
  apply conforms_split in Hc. destruct Hc as (sp & r2 & -> & Hs & Hc).
  apply conforms_split in Hc. destruct Hc as (time & r3 & -> & Ht & Hc).
  apply conforms_split in Hc. destruct Hc as (zh & zm & -> & Hzh & Hzm).
  conf_inv. apply N.eqb_eq in Hc. subst c.
  rewrite (parse_date_re_canonical _ _ _ _ _ Hsp Hd Ht Hzh Hzm). cbn [obind].
  assert (Hl : length (zh ++ zm) = 5%nat).
  { rewrite app_length, (conforms_length _ _ Hzh), (conforms_length _ _ Hzm). reflexivity. }
  rewrite (canon_length _ _ _ Hd Ht Hl). cbn [Nat.eqb negb].
  rewrite Hp. reflexivity.
Qed.

(* ------------------------------------------------------------------ *)
(* check_dates *)

Definition env_ok (E : env) : Prop := space_ok E /\ table_ok (tz_table E) = true.

Definition exempt (c : dctx) (is_po : bool) (v : list N) : bool :=
  is_template c && is_po && list_eqb v boilerplate_date.

Definition hint_for (c : dctx) (v : list N) : option (list N) :=
  if existsb (N.eqb 84) v && is_publican c then Some hint_utc else None.

Lemma hint_for_good : forall c v, good_hint (hint_for c v).
Proof. intros c v. unfold hint_for. destruct (existsb (N.eqb 84) v && is_publican c); [reflexivity | exact I]. Qed.

(* the reference verdict on one value of a date field; instants are those of Spec/Calendar.v *)
Definition reference_verdict (E : env) (now : Z) (c : dctx) (is_po : bool) (v : list N) : list dtag :=
  if exempt c is_po v then [] else
  match fix_date E (hint_for c v) v with
  | Err Boilerplate => [TBoilerplate v]
  | Err Invalid => [TInvalid v]
  | Crash _ => []
  | Ok r =>
    match parse_date r with
    | Ok st =>
      (if list_eqb v r then [] else [TInvalidFix v r])
      ++ (if now <? stamp_instant st * us_per_minute then [TFuture v] else [])
      ++ (if stamp_instant st <? epoch_instant then [TAncient v] else [])
    | _ => []
    end
  end.

(* C18_verdicts *)
Theorem check_one_verdict : forall E now c is_po v, table_ok (tz_table E) = true ->
  check_one E now c is_po v = Ok (reference_verdict E now c is_po v).
Proof.
  intros E now c is_po v Ht. unfold check_one, reference_verdict.
  fold (exempt c is_po v). destruct (exempt c is_po v); [reflexivity|].
  fold (hint_for c v).
  destruct (fix_date_total E (hint_for c v) v Ht (hint_for_good c v)) as [[r Hr] | [Hr | Hr]]; rewrite Hr; try reflexivity.
  destruct (fix_date_canonical _ _ _ _ Hr) as (_ & st & _ & _ & _ & Hp & _ & Hv & _).
  rewrite Hp. rewrite (stamp_minutes_spec st Hv), epoch_minutes_spec. reflexivity.
Qed.

Lemma check_each_ok : forall E now c is_po dates, table_ok (tz_table E) = true ->
  check_each E now c is_po dates = Ok (flat_map (reference_verdict E now c is_po) dates).
Proof.
  intros E now c is_po dates Ht. induction dates as [|d r IH]; [reflexivity|].
  cbn [check_each flat_map]. rewrite (check_one_verdict _ _ _ _ _ Ht). cbn [obind]. rewrite IH. reflexivity.
Qed.

Definition field_verdict (E : env) (now : Z) (c : dctx) (is_po : bool) (dates : list (list N)) : list dtag :=
  match dates with
  | [] => if negb is_po && is_binary c then [] else [TNoField]
  | [d] => reference_verdict E now c is_po d
  | _ => TDuplicate :: flat_map (reference_verdict E now c is_po) (sorted_set dates)
  end.

Theorem check_field_verdict : forall E now c is_po dates, table_ok (tz_table E) = true ->
  check_field E now c is_po dates = Ok (field_verdict E now c is_po dates).
Proof.
  intros E now c is_po dates Ht. unfold check_field, field_verdict.
  destruct dates as [|d [|d' r]].
  - destruct (negb is_po && is_binary c); reflexivity.
  - rewrite (check_each_ok _ _ _ _ _ Ht). cbn [flat_map]. rewrite app_nil_r. reflexivity.
  - rewrite (check_each_ok _ _ _ _ _ Ht). reflexivity.
Qed.

Theorem check_dates_total : forall E now tmpl bin cts pots pos, table_ok (tz_table E) = true ->
  exists a b, check_dates E now tmpl bin cts pots pos = Ok (a, b).
Proof.
  intros E now tmpl bin cts pots pos Ht. unfold check_dates.
  rewrite !(check_field_verdict _ _ _ _ _ Ht). cbn [obind]. eexists; eexists; reflexivity.
Qed.

(* a date in normal form that is neither in the future nor ancient gets no tag *)
Theorem normal_date_silent : forall E now c is_po v st, env_ok E ->
  fix_date E (hint_for c v) v = Ok v -> parse_date v = Ok st ->
  stamp_instant st * us_per_minute <= now -> epoch_instant <= stamp_instant st ->
  reference_verdict E now c is_po v = [].
Proof.
  intros E now c is_po v st _ Hf Hp Hn He. unfold reference_verdict.
  destruct (exempt c is_po v); [reflexivity|]. rewrite Hf, Hp, list_eqb_refl.
  destruct (Z.ltb_spec now (stamp_instant st * us_per_minute)); [lia|].
  destruct (Z.ltb_spec (stamp_instant st) epoch_instant); [lia|]. reflexivity.
Qed.

Lemma in_if_single : forall (b : bool) (x y : dtag), In x (if b then [y] else []) <-> b = true /\ x = y.
Proof. intros [|] x y; cbn; split; intro H; try tauto; try (destruct H as [H|[]]; auto); try (destruct H; discriminate). destruct H as [_ ->]. auto. Qed.

Lemma in_if_single_neg : forall (b : bool) (x y : dtag), In x (if b then [] else [y]) <-> b = false /\ x = y.
Proof. intros [|] x y; cbn; split; intro H; try tauto; try (destruct H as [H|[]]; auto); try (destruct H; discriminate). destruct H as [_ ->]. auto. Qed.

(* sorted_set lists every value once *)
Lemma str_cmp_eq : forall a b, str_cmp a b = Eq -> a = b.
Proof.
  induction a as [|x a IH]; destruct b as [|y b]; cbn; intro H; try reflexivity; try discriminate.
  destruct (N.compare_spec x y) as [->|Hlt|Hgt]; try discriminate. f_equal. apply IH. exact H.
Qed.

Lemma insert_uniq_in : forall x l y, In y (insert_uniq x l) <-> y = x \/ In y l.
Proof.
  intros x. induction l as [|z l IH]; intro y; cbn.
  - split; [intros [H|[]]; auto | intros [H|[]]; auto].
  - destruct (str_cmp x z) eqn:E.
    + apply str_cmp_eq in E. subst z. cbn. split; [auto | intros [->|H]; auto].
    + cbn. split; [intros [H|H]; auto | intros [H|H]; auto].
    + cbn. rewrite IH. split; [intros [H|[H|H]]; auto | intros [H|[H|H]]; auto].
Qed.

Lemma sorted_set_in : forall l y, In y (sorted_set l) <-> In y l.
Proof.
  induction l as [|x l IH]; intro y; cbn; [tauto|].
  rewrite insert_uniq_in, IH. split; [intros [H|H]; auto | intros [H|H]; auto].
Qed.

(* ------------------------------------------------------------------ *)
(* the generated instance *)

Definition env_okb (E : env) : bool :=
  sp_re E 32%N
  && forallb (fun c => negb (sp_re E c) && negb (sp_strip E c)) [48; 49; 50; 51; 52; 53; 54; 55; 56; 57]%N
  && negb (sp_re E 43%N) && negb (sp_re E 45%N)
  && table_ok (tz_table E).

Lemma env_okb_sound : forall E, env_okb E = true -> env_ok E.
Proof.
  intros E H. unfold env_okb in H. rewrite !andb_true_iff in H.
  destruct H as ((((H32 & Hd) & Hp) & Hm) & Ht).
  split; [|exact Ht]. split; [exact H32|]. split.
  - intros c Hc. apply is_d_le in Hc. rewrite forallb_forall in Hd.
    assert (Hin : In c [48; 49; 50; 51; 52; 53; 54; 55; 56; 57]%N).
    { assert (Hcases : (c = 48 \/ c = 49 \/ c = 50 \/ c = 51 \/ c = 52 \/ c = 53 \/ c = 54 \/ c = 55 \/ c = 56 \/ c = 57)%N) by lia.
      cbn. intuition auto. }
    specialize (Hd c Hin). apply andb_true_iff in Hd. destruct Hd as [H1 H2].
    apply negb_true_iff in H1, H2. auto.
  - intros c Hc. destruct (is_sign_cases _ Hc) as [-> | ->]; apply negb_true_iff; assumption.
Qed.

Lemma real_env_ok : env_ok real_env.
Proof. apply env_okb_sound. vm_compute. reflexivity. Qed.

(* C18_table_ok, over the generated table *)
Theorem timezones_ok : forall a offs z, In (a, offs) timezones -> In z offs ->
  exists sg h1 h2 m1 m2, z = [sg; h1; h2; m1; m2] /\ (sg = 43%N \/ sg = 45%N) /\
    is_d h1 = true /\ is_d h2 = true /\ is_d m1 = true /\ is_d m2 = true /\ num [h1; h2] <= 23 /\ num [m1; m2] <= 59.
Proof.
  intros a offs z Hin Hz.
  assert (Ht : table_ok timezones = true) by (vm_compute; reflexivity).
  unfold table_ok in Ht. rewrite forallb_forall in Ht. specialize (Ht _ Hin). cbn in Ht.
  rewrite forallb_forall in Ht. specialize (Ht _ Hz).
  unfold zone5_ok in Ht. destruct (zone5_offset z) as [off|] eqn:E; [|discriminate].
  apply zone5_offset_inv in E. destruct E as (sg & h1 & h2 & m1 & m2 & -> & Hsg & H1 & H2 & H3 & H4 & Hh & Hm & _).
  exists sg, h1, h2, m1, m2. repeat split; try assumption. apply is_sign_cases. exact Hsg.
Qed.

(* keys are distinct: an abbreviation has one entry *)
Fixpoint keys_distinct (t : list (list N * list (list N))) : bool :=
  match t with
  | [] => true
  | (a, _) :: t' => negb (existsb (fun e => list_eqb (fst e) a) t') && keys_distinct t'
  end.

Lemma timezones_keys_distinct : keys_distinct timezones = true.
Proof. vm_compute. reflexivity. Qed.

(* ------------------------------------------------------------------ *)
(* outside the tool's use: a hint that passes the %z check but is not five characters long trips the assert *)
Lemma fix_hint_Z_asserts :
  fix_date real_env (Some [90%N]) [50; 48; 49; 50; 45; 49; 49; 45; 48; 49; 32; 49; 52; 58; 52; 50]%N = Crash CAssertion.
Proof. vm_compute. reflexivity. Qed.

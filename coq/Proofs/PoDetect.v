(* polib.detect_encoding on a file whose header declares the charset on one physical line. *)
From Coq Require Import List NArith Bool Lia ZifyBool Arith.
From I18n Require Import Lib.Outcome Model.PoUnescape Model.PoParser Model.PoLexer.
Import ListNotations.
Local Open Scope N_scope.

Lemma startswith_app p r : startswith p (p ++ r) = true.
Proof. induction p as [|x p IH]; [reflexivity|]. cbn. now rewrite N.eqb_refl, IH. Qed.

Lemma startswith_inv p : forall s, startswith p s = true -> exists r, s = p ++ r.
Proof. induction p as [|x p IH]; intros s H; [exists s; reflexivity|]. destruct s as [|y s]; [discriminate|].
  cbn in H. apply andb_prop in H. destruct H as [Hxy Hs]. apply N.eqb_eq in Hxy. subst y.
  destruct (IH s Hs) as [r ->]. exists r. reflexivity. Qed.

Definition contains (pat s : str) : Prop := exists a b, s = a ++ pat ++ b.

Lemma after_first_none pat : pat <> [] -> forall s, ~ contains pat s -> after_first pat s = None.
Proof.
  intros Hp. induction s as [|c s IH]; intros Hn.
  - cbn. destruct pat; [congruence|reflexivity].
  - cbn [after_first]. destruct (startswith pat (c :: s)) eqn:E.
    + exfalso. destruct (startswith_inv _ _ E) as [r Er]. apply Hn. exists [], r. exact Er.
    + apply IH. intros (a & b & ->). apply Hn. exists (c :: a), b. reflexivity.
Qed.

Lemma after_first_skip pat a : forall s, pat <> [] -> ~ In (hd 0 pat) a -> after_first pat (a ++ pat ++ s) = Some s.
Proof.
  induction a as [|c a IH]; intros s Hp Hn.
  - cbn [app]. destruct pat as [|p0 pat']; [congruence|]. cbn [app after_first].
    change (p0 :: pat' ++ s) with ((p0 :: pat') ++ s). rewrite startswith_app. f_equal.
    rewrite skipn_app, skipn_all, Nat.sub_diag. reflexivity.
  - cbn [app after_first]. assert (E : startswith pat (c :: a ++ pat ++ s) = false).
    { destruct pat as [|p0 pat']; [congruence|]. cbn [hd] in Hn. cbn. destruct (N.eqb_spec p0 c) as [->|]; [exfalso; apply Hn; now left|reflexivity]. }
    rewrite E. apply IH; [assumption|]. intros H. apply Hn. now right.
Qed.

Lemma take_while_all p a s : Forall (fun c => p c = true) a -> (match s with [] => True | c :: _ => p c = false end) ->
  take_while p (a ++ s) = a.
Proof. induction 1 as [|c a Hc _ IH]; intros Hs; cbn [app].
  - destruct s; [reflexivity|]. cbn [take_while]. now rewrite Hs.
  - cbn [take_while]. rewrite Hc. f_equal. now apply IH. Qed.

(* no '=' before the declaration: the first " charset=" is the declaration *)
Lemma find_charset_at b' name tail : ~ In 61 b' -> name <> [] -> Forall (fun c => charset_char c = true) name ->
  (match tail with [] => True | c :: _ => charset_char c = false end) ->
  find_charset (b' ++ s_charset ++ name ++ tail) = Some name.
Proof.
  intros Hb Hne Hname Htail. induction b' as [|c b' IH].
  - cbn [app]. remember (s_charset ++ name ++ tail) as X eqn:EX. destruct X as [|x X']; [discriminate EX|].
    cbn [find_charset]. rewrite EX, startswith_app, skipn_app, skipn_all, Nat.sub_diag. cbn [skipn app].
    rewrite take_while_all by assumption. destruct name; [congruence|reflexivity].
  - cbn [app find_charset].
    assert (E : startswith s_charset (c :: b' ++ s_charset ++ name ++ tail) = false).
    { destruct (startswith s_charset (c :: b' ++ s_charset ++ name ++ tail)) eqn:E; [|reflexivity]. exfalso.
      destruct (startswith_inv _ _ E) as [r Er].
      (* the '=' of the pattern would sit inside c :: b' or on the blank of the declaration *)
      assert (H8 : nth 8 (c :: b' ++ s_charset ++ name ++ tail) 0 = 61) by (rewrite Er; reflexivity).
      assert (Hlen : forall (l : str) k x, (k < length l)%nat -> nth k (l ++ x) 0 = nth k l 0) by (intros; now apply app_nth1).
      destruct (Nat.lt_ge_cases 8 (length (c :: b'))) as [Hlt|Hge].
      - change (c :: b' ++ s_charset ++ name ++ tail) with ((c :: b') ++ s_charset ++ name ++ tail) in H8.
        rewrite Hlen in H8 by assumption. apply Hb. rewrite <- H8. now apply nth_In.
      - change (c :: b' ++ s_charset ++ name ++ tail) with ((c :: b') ++ s_charset ++ name ++ tail) in H8.
        rewrite app_nth2 in H8 by lia. cbn [length] in Hge.
        assert (Hk : (8 - length (c :: b') <= 7)%nat) by (cbn [length]; lia).
        remember (8 - length (c :: b'))%nat as k. unfold s_charset in H8.
        do 8 (destruct k as [|k]; [cbn in H8; discriminate H8|]). lia. }
    rewrite E. apply IH. intros H. apply Hb. now right.
Qed.

Lemma take_while_nolf s : ~ In 10 s -> take_while (fun c => negb (N.eqb c 10)) (s ++ [10]) = s.
Proof. intros H. apply take_while_all; [|reflexivity]. apply Forall_forall. intros c Hc.
  destruct (N.eqb_spec c 10) as [->|]; [contradiction|reflexivity]. Qed.

(* the header line:  a Content-Type: b _charset= name tail *)
Lemma line_charset_decl a b name tail :
  ~ In 67 a -> b <> [] -> ~ In 61 b -> ~ In 10 (b ++ s_charset ++ name ++ tail) ->
  name <> [] -> Forall (fun c => charset_char c = true) name ->
  (match tail with [] => True | c :: _ => charset_char c = false end) ->
  line_charset (a ++ s_content_type ++ b ++ s_charset ++ name ++ tail ++ [10]) = Some name.
Proof.
  intros Ha Hb Hb61 Hlf Hne Hname Htail. unfold line_charset.
  rewrite after_first_skip; [|discriminate|exact Ha].
  destruct b as [|c0 b']; [congruence|]. cbn [app].
  assert (Hc0 : N.eqb c0 10 = false) by (destruct (N.eqb_spec c0 10) as [->|]; [exfalso; apply Hlf; now left|reflexivity]).
  rewrite Hc0.
  replace (b' ++ s_charset ++ name ++ tail ++ [10]) with ((b' ++ s_charset ++ name ++ tail) ++ [10]) by (rewrite <- !app_assoc; reflexivity).
  rewrite take_while_nolf by (intros H; apply Hlf; now right).
  apply find_charset_at; try assumption. intros H. apply Hb61. now right.
Qed.

Lemma lf_lines_aux_line l : ~ In 10 l -> forall rest cur,
  lf_lines_aux (l ++ 10 :: rest) cur = (rev cur ++ l ++ [10]) :: lf_lines_aux rest [].
Proof.
  induction l as [|c l IH]; intros Hn rest cur; cbn [app lf_lines_aux].
  - change (N.eqb 10 10) with true. cbv iota. cbn [rev app]. reflexivity.
  - destruct (N.eqb_spec c 10) as [->|Hc]; [exfalso; apply Hn; now left|].
    rewrite IH by (intros H; apply Hn; now right). cbn [rev]. rewrite <- app_assoc. reflexivity.
Qed.

Lemma lf_lines_lines pls rest : Forall (fun l => ~ In 10 l) pls ->
  lf_lines (flat_map (fun l => l ++ [10]) pls ++ rest) = map (fun l => l ++ [10]) pls ++ lf_lines rest.
Proof.
  unfold lf_lines. induction 1 as [|l pls Hl _ IH]; [reflexivity|]. cbn [flat_map map].
  rewrite <- !app_assoc. cbn [app]. rewrite lf_lines_aux_line by assumption. cbn [rev app]. now rewrite IH.
Qed.

(* detect_encoding: the lines before the declaration do not mention Content-Type:, the declaration is on one
   physical line, the name is known to codecs.lookup *)
Theorem detect_encoding_decl lookup pre a b name tail rest :
  Forall (fun l => ~ In 10 l /\ ~ contains s_content_type (l ++ [10])) pre ->
  ~ In 67 a -> ~ In 10 a -> b <> [] -> ~ In 61 b -> ~ In 10 (b ++ s_charset ++ name ++ tail) ->
  name <> [] -> Forall (fun c => charset_char c = true) name ->
  (match tail with [] => True | c :: _ => charset_char c = false end) ->
  lookup name = true ->
  detect_encoding lookup (flat_map (fun l => l ++ [10]) (pre ++ [a ++ s_content_type ++ b ++ s_charset ++ name ++ tail]) ++ rest) = name.
Proof.
  intros Hpre Ha Ha10 Hb Hb61 Hlf Hne Hname Htail Hlook. unfold detect_encoding.
  rewrite lf_lines_lines.
  - rewrite map_app. cbn [map]. rewrite <- app_assoc. cbn [app].
    induction Hpre as [|l pre [Hl Hc] _ IH]; cbn [map app first_known_charset].
    + rewrite <- !app_assoc. rewrite (line_charset_decl a b name tail) by assumption. now rewrite Hlook.
    + unfold line_charset at 1. rewrite after_first_none by (discriminate || assumption). exact IH.
  - apply Forall_app. split; [eapply Forall_impl; [|exact Hpre]; intros l [H _]; exact H|].
    constructor; [|constructor]. rewrite !in_app_iff. intros [H|[H|H]]; [contradiction| |].
    + unfold s_content_type in H. cbn in H. repeat (destruct H as [H|H]; [discriminate H|]). destruct H.
    + apply Hlf. rewrite !in_app_iff in *. exact H.
Qed.

(* Laws of the charset classification over the generated tables (Generated/EncodingsData.v, CodecOracle.v,
   Charmaps.v): boolean checkers, their soundness, and the computations over the finite tables. *)
From Coq Require Import NArith List Bool Arith Lia.
From I18n Require Import Lib.Outcome Generated.CodecOracle Generated.EncodingsData Generated.Charmaps
  Model.Encodings Spec.Charsets Proofs.Charmap.
Import ListNotations.
Local Open Scope N_scope.

(* ------------------------------------------------------------------ generic facts *)
Lemma assoc_in : forall (A : Type) k (l : list (list N * A)) v, assoc k l = Some v -> In (k, v) l.
Proof.
  intros A k l; induction l as [|[k' v'] r IH]; intros v H; cbn [assoc] in H; [discriminate|].
  destruct (list_eqb k k') eqn:E.
  - apply list_eqb_eq in E. subst k'. injection H as <-. left. reflexivity.
  - right. apply IH. exact H.
Qed.

Definition opt_eqb (a b : option (list N)) : bool :=
  match a, b with
  | Some x, Some y => list_eqb x y
  | None, None => true
  | _, _ => false
  end.

Lemma opt_eqb_eq : forall a b, opt_eqb a b = true -> a = b.
Proof.
  intros [x|] [y|] H; cbn in H; try discriminate; [|reflexivity].
  apply list_eqb_eq in H. congruence.
Qed.

(* an oracle whose case mapping is ASCII case mapping (true of str.lower / str.upper on ASCII names) *)
Definition ascii_cased (o : codec_oracle) : Prop := co_lower o = ascii_lower /\ co_upper o = ascii_upper.

Lemma table_oracle_ascii_cased : forall tbl, ascii_cased (table_oracle tbl).
Proof. intros tbl. split; reflexivity. Qed.

Lemma is_portable_cased : forall d o1 o2 py e, co_lower o1 = co_lower o2 ->
  is_portable_encoding d o1 py e = is_portable_encoding d o2 py e.
Proof. intros d o1 o2 py e H. unfold is_portable_encoding. rewrite H. reflexivity. Qed.

(* ------------------------------------------------------------------ proposals *)

(* every value of _pycodec_to_encoding is portable (the assert in propose_portable_encoding cannot fail), and so is
   its upper-case form (what is proposed) *)
Definition c2e_portable_ok (d : enc_data) (o : codec_oracle) : bool :=
  forallb (fun ce => is_portable_encoding d o true (snd ce) &&
                     is_portable_encoding d o true (ascii_upper (snd ce))) (ed_c2e d).

Lemma propose_inv : forall d o enc p, propose_portable_encoding d o enc = Ok (Some p) ->
  exists c e, co_lookup o enc = Some c /\ assoc c (ed_c2e d) = Some e /\ p = co_upper o e.
Proof.
  intros d o enc p H. unfold propose_portable_encoding in H.
  destruct (co_lookup o enc) as [c|]; [|discriminate].
  destruct (assoc c (ed_c2e d)) as [e|] eqn:Ea; [|discriminate].
  destruct (is_portable_encoding d o true e); [|discriminate].
  injection H as <-. exists c, e. repeat split. exact Ea.
Qed.

Lemma proposal_portable : forall d o0, ascii_cased o0 -> c2e_portable_ok d o0 = true ->
  forall o, ascii_cased o -> forall enc p,
  propose_portable_encoding d o enc = Ok (Some p) -> is_portable_encoding d o true p = true.
Proof.
  intros d o0 [Hl0 _] Hok o [Hl Hu] enc p H. apply propose_inv in H. destruct H as (c & e & _ & Ha & ->).
  apply assoc_in in Ha. unfold c2e_portable_ok in Hok. rewrite forallb_forall in Hok.
  specialize (Hok _ Ha). cbn [snd] in Hok. apply andb_true_iff in Hok. destruct Hok as [_ Hok].
  rewrite Hu. rewrite (is_portable_cased d o o0); [exact Hok|congruence].
Qed.

Lemma proposal_no_crash : forall d o0, ascii_cased o0 -> c2e_portable_ok d o0 = true ->
  forall o, ascii_cased o -> forall enc c, propose_portable_encoding d o enc <> Crash c.
Proof.
  intros d o0 [Hl0 _] Hok o [Hl Hu] enc c H. unfold propose_portable_encoding in H.
  destruct (co_lookup o enc) as [cn|]; [|discriminate].
  destruct (assoc cn (ed_c2e d)) as [e|] eqn:Ea; [|discriminate].
  apply assoc_in in Ea. unfold c2e_portable_ok in Hok. rewrite forallb_forall in Hok.
  specialize (Hok _ Ea). cbn [snd] in Hok. apply andb_true_iff in Hok. destruct Hok as [Hok _].
  rewrite (is_portable_cased d o o0) in H by congruence. rewrite Hok in H. discriminate.
Qed.

(* the proposal resolves to the codec the original name resolves to *)
Definition c2e_same_codec_ok (d : enc_data) (o : codec_oracle) : bool :=
  forallb (fun ce => opt_eqb (co_lookup o (co_upper o (snd ce))) (Some (fst ce))) (ed_c2e d).

Lemma proposal_same_codec : forall d o, c2e_same_codec_ok d o = true ->
  forall enc p, propose_portable_encoding d o enc = Ok (Some p) -> co_lookup o p = co_lookup o enc.
Proof.
  intros d o Hok enc p H. apply propose_inv in H. destruct H as (c & e & Hl & Ha & ->).
  apply assoc_in in Ha. unfold c2e_same_codec_ok in Hok. rewrite forallb_forall in Hok.
  specialize (Hok _ Ha). cbn [fst snd] in Hok. apply opt_eqb_eq in Hok. congruence.
Qed.

(* ------------------------------------------------------------------ classification laws, per oracle row *)

Definition gettext_names (d : enc_data) : list (list N) := map fst (ed_portable d).

Record row_consistent (d : enc_data) (o : codec_oracle) (r : codec_row) : Prop := {
  rc_unknown : classify d o (o_name r) = Ok ClsUnknown <-> usable_text_codec r = false;
  rc_total : forall c, classify d o (o_name r) <> Crash c;
  rc_ascii : is_ascii_compatible_encoding o true (o_name r) = Ok true <-> o_ascii r = AscSame;
  rc_portable : is_portable_encoding d o true (o_name r) = true <->
                gettext_lists (gettext_names d) (o_name r) = true /\ python_ships r = true;
  rc_class_portable : classify d o (o_name r) = Ok ClsPortable <->
                usable_text_codec r = true /\ o_ascii r = AscSame /\
                gettext_lists (gettext_names d) (o_name r) = true /\ python_ships r = true
}.

Definition is_cls_unknown (x : outcome charset_class unit) : bool :=
  match x with Ok ClsUnknown => true | _ => false end.
Definition is_cls_portable (x : outcome charset_class unit) : bool :=
  match x with Ok ClsPortable => true | _ => false end.

Definition row_consistent_b (d : enc_data) (o : codec_oracle) (r : codec_row) : bool :=
  let nm := o_name r in
  let cls := classify d o nm in
  let listed := gettext_lists (gettext_names d) nm && python_ships r in
  Bool.eqb (is_cls_unknown cls) (negb (usable_text_codec r)) &&
  negb (is_crash cls) &&
  match is_ascii_compatible_encoding o true nm with
  | Ok b => Bool.eqb b (asc_same (o_ascii r))
  | _ => false
  end &&
  Bool.eqb (is_portable_encoding d o true nm) listed &&
  Bool.eqb (is_cls_portable cls) (usable_text_codec r && asc_same (o_ascii r) && listed).

Lemma asc_same_iff : forall a, asc_same a = true <-> a = AscSame.
Proof. intros []; cbn; split; intro H; try discriminate; reflexivity. Qed.

Lemma row_consistent_sound : forall d o r, row_consistent_b d o r = true -> row_consistent d o r.
Proof.
  intros d o r H. unfold row_consistent_b in H.
  repeat (apply andb_true_iff in H; destruct H as [H ?]).
  match goal with H5 : Bool.eqb (is_cls_portable _) _ = true |- _ => rename H5 into Hp end.
  match goal with H4 : Bool.eqb (is_portable_encoding _ _ _ _) _ = true |- _ => rename H4 into Hl end.
  match goal with H3 : match is_ascii_compatible_encoding _ _ _ with _ => _ end = true |- _ => rename H3 into Ha end.
  match goal with H2 : negb (is_crash _) = true |- _ => rename H2 into Hc end.
  apply eqb_prop in H. apply eqb_prop in Hl. apply eqb_prop in Hp.
  constructor.
  - split; intro E.
    + rewrite E in H. cbn in H. symmetry in H. apply negb_true_iff in H. exact H.
    + rewrite E in H. cbn in H. destruct (classify d o (o_name r)) as [[]| |]; cbn in H; try discriminate. reflexivity.
  - intros c E. rewrite E in Hc. discriminate.
  - destruct (is_ascii_compatible_encoding o true (o_name r)) as [b| |]; try discriminate.
    apply eqb_prop in Ha. subst b. rewrite <- asc_same_iff. split; intro E; [injection E as E; exact E|rewrite E; reflexivity].
  - rewrite Hl. rewrite andb_true_iff. tauto.
  - rewrite <- asc_same_iff. split; intro E.
    + rewrite E in Hp. cbn in Hp. symmetry in Hp.
      apply andb_true_iff in Hp. destruct Hp as [Hp Hp3]. apply andb_true_iff in Hp. destruct Hp as [Hp1 Hp2].
      apply andb_true_iff in Hp3. tauto.
    + destruct E as (E1 & E2 & E3 & E4). rewrite E1, E2, E3, E4 in Hp. cbn in Hp.
      destruct (classify d o (o_name r)) as [[]| |]; cbn in Hp; try discriminate. reflexivity.
Qed.

(* D10: the name normalises to koi8-t *)
Definition s_koi8_t : list N := [107; 111; 105; 56; 45; 116].
Definition normalises_to_koi8_t (name : list N) : bool := list_eqb (gettext_norm name) s_koi8_t.

(* ------------------------------------------------------------------ the generated instance *)

Lemma real_c2e_portable : c2e_portable_ok real_enc_data real_oracle = true.
Proof. vm_compute. reflexivity. Qed.

Lemma real_c2e_same_codec : c2e_same_codec_ok real_enc_data real_oracle = true.
Proof. vm_compute. reflexivity. Qed.

Lemma real_proposal_portable : forall o, ascii_cased o -> forall enc p,
  propose_portable_encoding real_enc_data o enc = Ok (Some p) -> is_portable_encoding real_enc_data o true p = true.
Proof. exact (proposal_portable real_enc_data real_oracle (table_oracle_ascii_cased _) real_c2e_portable). Qed.

Lemma real_proposal_no_crash : forall o, ascii_cased o -> forall enc c,
  propose_portable_encoding real_enc_data o enc <> Crash c.
Proof. exact (proposal_no_crash real_enc_data real_oracle (table_oracle_ascii_cased _) real_c2e_portable). Qed.

Lemma real_proposal_same_codec : forall enc p,
  propose_portable_encoding real_enc_data real_oracle enc = Ok (Some p) ->
  co_lookup real_oracle p = co_lookup real_oracle enc.
Proof. exact (proposal_same_codec real_enc_data real_oracle real_c2e_same_codec). Qed.

(* names of the oracle table are pairwise distinct: the row found for a name is the row of that name *)
Fixpoint names_distinct (l : list (list N)) : bool :=
  match l with
  | [] => true
  | x :: r => negb (mem x r) && names_distinct r
  end.

Lemma real_oracle_names_distinct : names_distinct (map o_name codec_oracle_table) = true.
Proof. vm_compute. reflexivity. Qed.

Lemma real_rows_consistent_outside_D10 :
  forallb (fun r => normalises_to_koi8_t (o_name r) || row_consistent_b real_enc_data real_oracle r)
          codec_oracle_table = true.
Proof. vm_compute. reflexivity. Qed.

Lemma real_classification_outside_D10 : forall r, In r codec_oracle_table ->
  normalises_to_koi8_t (o_name r) = false -> row_consistent real_enc_data real_oracle r.
Proof.
  intros r Hin Hk. pose proof real_rows_consistent_outside_D10 as H. rewrite forallb_forall in H.
  specialize (H r Hin). rewrite Hk in H. cbn [orb] in H. apply row_consistent_sound. exact H.
Qed.

(* the D10 witness: "KOI8-T" *)
Definition s_KOI8_T : list N := [75; 79; 73; 56; 45; 84].

Lemma real_D10_witness : exists r, In r codec_oracle_table /\ o_name r = s_KOI8_T /\
  gettext_lists (gettext_names real_enc_data) (o_name r) = true /\ python_ships r = true /\
  is_portable_encoding real_enc_data real_oracle true (o_name r) = false /\
  classify real_enc_data real_oracle (o_name r) = Ok (ClsNonPortable None).
Proof.
  destruct (oracle_row codec_oracle_table s_KOI8_T) as [r|] eqn:E; [|vm_compute in E; discriminate].
  exists r. unfold oracle_row in E. apply find_some in E as E'. destruct E' as [Hin Hn].
  apply list_eqb_eq in Hn. split; [exact Hin|]. split; [exact Hn|].
  vm_compute in E. injection E as <-. vm_compute. repeat split; reflexivity.
Qed.

Lemma real_classification_refuted :
  ~ (forall r, In r codec_oracle_table -> row_consistent real_enc_data real_oracle r).
Proof.
  intros H. destruct real_D10_witness as (r & Hin & _ & Hg & Hp & Hnp & _).
  destruct (H r Hin) as [_ _ _ Hport _]. rewrite (proj2 Hport (conj Hg Hp)) in Hnp. discriminate.
Qed.

(* ------------------------------------------------------------------ codec search function *)

Lemma real_unmangle_inverse :
  forallb (fun k => list_eqb (unmangle real_enc_data (mangle k)) k) (unmangle_keys real_enc_data) = true.
Proof. vm_compute. reflexivity. Qed.

(* the model's un-mangling is the dict the module built *)
Lemma real_unmangle_table_agrees :
  forallb (fun mk => list_eqb (unmangle real_enc_data (fst mk)) (snd mk)) unmangle_table = true /\
  forallb (fun k => opt_eqb (assoc (mangle k) unmangle_table) (Some k)) (unmangle_keys real_enc_data)
    = python_ge_39.
Proof. split; vm_compute; reflexivity. Qed.

(* a charmap codec is only promised for a file that exists *)
Lemma real_charmap_files : forallb (fun f => match charmap_table f with Some _ => true | None => false end)
                                   (ed_charmap_files real_enc_data) = true /\
                           map fst charmaps = ed_charmap_files real_enc_data.
Proof. split; vm_compute; reflexivity. Qed.

Lemma mem_in : forall k l, mem k l = true -> In k l.
Proof.
  intros k l H. unfold mem in H. apply existsb_exists in H. destruct H as (x & Hin & Hx).
  apply list_eqb_eq in Hx. subst x. exact Hin.
Qed.

Lemma codec_search_charmap_exists : forall enc f,
  codec_search real_enc_data enc = SCharmap f -> exists t, charmap_table f = Some t.
Proof.
  intros enc f H. unfold codec_search in H.
  match type of H with (if ?c then _ else _) = _ => destruct c; [|discriminate] end.
  match type of H with (if ?c then _ else _) = _ => destruct c eqn:Em; [|discriminate] end.
  injection H as <-. apply mem_in in Em.
  pose proof (proj1 real_charmap_files) as Hf. rewrite forallb_forall in Hf. specialize (Hf _ Em).
  destruct (charmap_table _) as [t|]; [exists t; reflexivity|discriminate].
Qed.

(* ------------------------------------------------------------------ the generated charmaps *)

Lemma real_charmaps_wf : forallb (fun p => table_wf (snd p)) charmaps = true.
Proof. vm_compute. reflexivity. Qed.

Lemma real_charmaps_ascii : forallb (fun p => table_ascii_compatible interesting_ascii_bytes (snd p)) charmaps = true.
Proof. vm_compute. reflexivity. Qed.

Lemma real_charmap_roundtrip : forall name t, In (name, t) charmaps ->
  forall bs txt, cm_decode t bs = Ok txt -> cm_encode t txt = Ok bs.
Proof.
  intros name t Hin. pose proof real_charmaps_wf as H. rewrite forallb_forall in H.
  specialize (H _ Hin). cbn [snd] in H. apply table_ok_roundtrip. apply table_wf_ok. exact H.
Qed.

Lemma real_charmap_ascii : forall name t, In (name, t) charmaps ->
  cm_decode t interesting_ascii_bytes = Ok interesting_ascii_bytes.
Proof.
  intros name t Hin. pose proof real_charmaps_ascii as H. rewrite forallb_forall in H.
  specialize (H _ Hin). cbn [snd] in H. unfold table_ascii_compatible in H.
  destruct (cm_decode t interesting_ascii_bytes) as [r| |]; try discriminate.
  apply list_eqb_eq in H. congruence.
Qed.

Lemma real_charmap_encode_total : forall name t, In (name, t) charmaps -> forall txt,
  (exists bs, cm_encode t txt = Ok bs) \/
  (exists s e, cm_encode t txt = Err (s, e) /\ (s < e)%nat /\ (e <= length txt)%nat).
Proof.
  intros name t Hin txt. pose proof real_charmaps_wf as H. rewrite forallb_forall in H.
  specialize (H _ Hin). cbn [snd] in H. unfold table_wf in H.
  apply andb_true_iff in H. destruct H as [H _]. apply andb_true_iff in H. destruct H as [_ Hb].
  unfold cm_encode. destruct (cm_build t) as [m|]; [|discriminate].
  destruct (cm_encode_from m t 0 txt) as [bs|[s e]|c] eqn:E.
  - left. exists bs. reflexivity.
  - right. exists s, e. split; [reflexivity|]. apply cm_encode_from_err in E. lia.
  - exfalso. exact (cm_encode_from_no_crash _ _ _ _ _ E).
Qed.

(* ------------------------------------------------------------------ unrepresentable characters *)

Lemma unrepresentable_scan_spec : forall encode chars,
  (forall ch c, In ch chars -> encode ch <> Crash c) ->
  unrepresentable_scan encode false chars = Ok (filter (fun ch => negb (is_ok (encode ch))) chars).
Proof.
  intros encode chars; induction chars as [|ch r IH]; intros Hnc; cbn [unrepresentable_scan filter].
  - reflexivity.
  - destruct (encode ch) as [u|e|c] eqn:E; cbn [is_ok negb].
    + apply IH. intros ch' c' Hin. apply Hnc. right. exact Hin.
    + rewrite IH; [reflexivity|]. intros ch' c' Hin. apply Hnc. right. exact Hin.
    + exfalso. exact (Hnc ch c (or_introl eq_refl) E).
Qed.

(* with a codec whose encodability is decided character by character (true of the charmap codecs:
   cm_encode_from_concat), the reported list is exactly the listed characters that cannot be encoded *)
Lemma unrepresentable_exact : forall encode chars,
  (forall s c, encode s <> Crash c) ->
  (is_ok (encode (concat chars)) = true <-> forall ch, In ch chars -> is_ok (encode ch) = true) ->
  get_unrepresentable_characters encode false chars = Ok (filter (fun ch => negb (is_ok (encode ch))) chars).
Proof.
  intros encode chars Hnc Hper. unfold get_unrepresentable_characters.
  destruct (encode (concat chars)) as [u|e|c] eqn:E.
  - assert (Hall : forall ch, In ch chars -> is_ok (encode ch) = true) by (apply Hper; reflexivity).
    symmetry. f_equal. clear -Hall. induction chars as [|ch r IH]; [reflexivity|]. cbn [filter].
    rewrite (Hall ch (or_introl eq_refl)). cbn [negb]. apply IH. intros ch' Hin. apply Hall. right. exact Hin.
  - apply unrepresentable_scan_spec. intros ch c _. apply Hnc.
  - exfalso. exact (Hnc _ _ E).
Qed.

Lemma unrepresentable_iff : forall encode chars l,
  (forall s c, encode s <> Crash c) ->
  (is_ok (encode (concat chars)) = true <-> forall ch, In ch chars -> is_ok (encode ch) = true) ->
  get_unrepresentable_characters encode false chars = Ok l ->
  (unrepresentable_tag_args l <> None <-> exists ch, In ch chars /\ is_ok (encode ch) = false) /\
  (forall ch, In ch l <-> In ch chars /\ is_ok (encode ch) = false).
Proof.
  intros encode chars l Hnc Hper H. rewrite (unrepresentable_exact encode chars Hnc Hper) in H.
  injection H as <-.
  assert (Hmem : forall ch, In ch (filter (fun ch => negb (is_ok (encode ch))) chars) <->
                            In ch chars /\ is_ok (encode ch) = false).
  { intros ch. rewrite filter_In. rewrite negb_true_iff. tauto. }
  split; [|exact Hmem].
  unfold unrepresentable_tag_args.
  destruct (filter (fun ch => negb (is_ok (encode ch))) chars) as [|x r] eqn:Ef.
  - split; [congruence|]. intros (ch & Hin). apply Hmem in Hin. destruct Hin.
  - split; [|discriminate]. intros _. exists x. apply Hmem. left. reflexivity.
Qed.

Definition cm_encode_oracle (t : list N) (s : list N) : outcome unit unit :=
  match cm_encode t s with Ok _ => Ok tt | Err _ => Err tt | Crash c => Crash c end.

Lemma cm_encode_oracle_per_char : forall t m, cm_build t = Some m -> forall chars,
  (forall s c, cm_encode_oracle t s <> Crash c) /\
  (is_ok (cm_encode_oracle t (concat chars)) = true <->
   forall ch, In ch chars -> is_ok (cm_encode_oracle t ch) = true).
Proof.
  intros t m Hb chars.
  assert (Hok : forall s, is_ok (cm_encode_oracle t s) = is_ok (cm_encode_from m t 0 s)).
  { intros s. unfold cm_encode_oracle, cm_encode. rewrite Hb. destruct (cm_encode_from m t 0 s); reflexivity. }
  split.
  - intros s c H. unfold cm_encode_oracle, cm_encode in H. rewrite Hb in H.
    destruct (cm_encode_from m t 0 s) eqn:E; try discriminate. exact (cm_encode_from_no_crash _ _ _ _ _ E).
  - rewrite Hok. rewrite cm_encode_from_concat. split; intros H ch Hin; [rewrite Hok|rewrite <- Hok]; apply H; exact Hin.
Qed.

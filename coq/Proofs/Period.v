(* Soundness of the periodicity analysis (PeriodEvaluator) w.r.t. the evaluator model. *)
From Coq Require Import List ZArith Bool Lia ZifyBool Znumtheory.
From I18n Require Import Lib.Outcome Model.IntExpr Proofs.Codomain.
Import ListNotations.
Local Open Scope Z_scope.

Definition same_outcome (a b : eres) : Prop :=
  match a, b with
  | Ok x, Ok y => x = y
  | Err _, Err _ => True
  | Crash _, Crash _ => True
  | _, _ => False
  end.

Lemma same_refl a : same_outcome a a.
Proof. destruct a; cbn; auto. Qed.
Lemma same_sym a b : same_outcome a b -> same_outcome b a.
Proof. destruct a, b; cbn; auto. Qed.
Lemma same_trans a b c : same_outcome a b -> same_outcome b c -> same_outcome a c.
Proof. destruct a, b, c; cbn; auto; try contradiction; congruence. Qed.

Definition periodic (M : Z) (f : Z -> eres) (O P : Z) : Prop :=
  1 <= P /\ 0 <= O /\ forall n, O <= n -> n + P < M -> same_outcome (f n) (f (n + P)).

Lemma periodic_mult M f O P : periodic M f O P ->
  forall k, 0 <= k -> forall n, O <= n -> n + k * P < M -> same_outcome (f n) (f (n + k * P)).
Proof.
  intros [HP [HO H]] k Hk. pattern k. apply natlike_ind; auto.
  - intros n _ _. replace (n + 0 * P) with n by lia. apply same_refl.
  - intros x Hx IH n Hn Hlt.
    replace (n + Z.succ x * P) with ((n + x * P) + P) by lia.
    eapply same_trans; [apply IH; auto; nia|]. apply H; nia.
Qed.

Lemma periodic_weaken M f O P O' k : periodic M f O P -> O <= O' -> 1 <= k -> periodic M f O' (k * P).
Proof.
  intros Hp HO Hk. pose proof Hp as [HP [HO0 _]]. split; [nia|]. split; [lia|].
  intros n Hn Hlt. apply (periodic_mult M f O P Hp k); lia.
Qed.

(* ---------- lcm ---------- *)
Lemma py_lcm_multiple x y : 1 <= x -> 1 <= y ->
  exists a b, 1 <= a /\ 1 <= b /\ py_lcm x y = a * x /\ py_lcm x y = b * y.
Proof.
  intros Hx Hy. unfold py_lcm.
  pose proof (Z.gcd_divide_l x y) as [p Hp]. pose proof (Z.gcd_divide_r x y) as [q Hq].
  pose proof (Z.gcd_nonneg x y) as Hg.
  assert (Hg1 : 1 <= Z.gcd x y).
  { destruct (Z.eq_dec (Z.gcd x y) 0) as [E|E]; [|lia]. apply Z.gcd_eq_0_l in E. lia. }
  set (g := Z.gcd x y) in *.
  assert (Hxg : x / g = p). { rewrite Hp at 1. apply Z.div_mul. lia. }
  rewrite Hxg.
  assert (1 <= p) by nia. assert (1 <= q) by nia.
  exists q, p. repeat split; auto. clear Hxg. clearbody g. subst x y. ring.
Qed.

(* ---------- combining sub-expressions ---------- *)
Definition congruent2 (F : eres -> eres -> eres) : Prop :=
  forall a a' b b', same_outcome a a' -> same_outcome b b' -> same_outcome (F a b) (F a' b').

Lemma per_join_sound M F f g px py O P : congruent2 F ->
  (forall o p, px = Some (o, p) -> periodic M f o p) ->
  (forall o p, py = Some (o, p) -> periodic M g o p) ->
  per_join M px py = Some (O, P) ->
  periodic M (fun n => F (f n) (g n)) O P.
Proof.
  intros HF Hf Hg. unfold per_join.
  destruct px as [[xo xp]|]; [|discriminate]. destruct py as [[yo yp]|]; [|discriminate].
  specialize (Hf xo xp eq_refl). specialize (Hg yo yp eq_refl).
  destruct (py_lcm xp yp >=? M) eqn:E; [discriminate|]. intros H; inversion H; subst; clear H.
  pose proof Hf as [Hxp [Hxo _]]. pose proof Hg as [Hyp [Hyo _]].
  destruct (py_lcm_multiple xp yp Hxp Hyp) as [a [b [Ha [Hb [Ea Eb]]]]].
  split; [nia|]. split; [lia|]. intros n Hn Hlt. apply HF.
  - rewrite Ea. apply (periodic_mult M f xo xp Hf a); lia.
  - rewrite Eb. apply (periodic_mult M g yo yp Hg b); lia.
Qed.

Lemma congr_bind2 (h : Z -> Z -> eres) : congruent2 (fun a b => do x <- a; do y <- b; h x y).
Proof.
  intros a a' b b' Ha Hb. destruct a, a'; cbn in *; try contradiction; auto. subst.
  destruct b, b'; cbn in *; try contradiction; auto. subst. apply same_refl.
Qed.

Definition and_comb (a b : eres) : eres :=
  do x <- a; if x =? 0 then Ok 0 else do y <- b; if y =? 0 then Ok 0 else Ok 1.
Definition or_comb (a b : eres) : eres :=
  do x <- a; if negb (x =? 0) then Ok 1 else do y <- b; if negb (y =? 0) then Ok 1 else Ok 0.

Lemma congr_and : congruent2 and_comb.
Proof.
  intros a a' b b' Ha Hb. unfold and_comb. destruct a, a'; cbn in *; try contradiction; auto. subst.
  destruct (a0 =? 0); [cbn; auto|]. destruct b, b'; cbn in *; try contradiction; auto. subst. apply same_refl.
Qed.
Lemma congr_or : congruent2 or_comb.
Proof.
  intros a a' b b' Ha Hb. unfold or_comb. destruct a, a'; cbn in *; try contradiction; auto. subst.
  destruct (negb (a0 =? 0)); [cbn; auto|]. destruct b, b'; cbn in *; try contradiction; auto. subst. apply same_refl.
Qed.
Lemma congr_snd : congruent2 (fun _ b => b).
Proof. intros a a' b b' _ Hb. exact Hb. Qed.

Lemma periodic_const M v : periodic M (fun _ => v) 0 1.
Proof. split; [lia|]. split; [lia|]. intros. apply same_refl. Qed.

Lemma const_hyp M v : forall o p, Some (0, 1) = Some (o, p) -> periodic M (fun _ : Z => v) o p.
Proof. intros o p E; inversion E; subst; apply periodic_const. Qed.

(* ---------- the induction ---------- *)
Theorem period_sound M e : forall O P, period M e = Some (O, P) -> periodic M (pyeval M e) O P.
Proof.
  induction e; intros O P; cbn [period].
  - discriminate.
  - destruct ((z <? 0) || (z >=? M)); [discriminate|]. intros H; inversion H; subst. apply periodic_const.
  - intros H. specialize (IHe O P H). destruct IHe as [HP [HO Hn]].
    split; auto. split; auto. intros n Hn1 Hn2. specialize (Hn n Hn1 Hn2). cbn [pyeval].
    destruct (pyeval M e n), (pyeval M e (n + P)); cbn in *; try contradiction; auto. subst; auto.
  - (* Bin *)
    destruct (if is_mod o && is_var e1 then num_of e2 else None) as [c|] eqn:Esp.
    + (* n % C *)
      destruct o; cbn in Esp; try discriminate. destruct e1; cbn in Esp; try discriminate.
      destruct e2; cbn in Esp; try discriminate. inversion Esp; subst; clear Esp.
      destruct ((c <=? 0) || (c >=? M)) eqn:Ec; [discriminate|]. intros H; inversion H; subst; clear H.
      split; [lia|]. split; [lia|]. intros n Hn Hlt. cbn [pyeval].
      destruct (check_overflow_cases M n) as [[E1 _]|[_ ?]]; [|lia].
      destruct (check_overflow_cases M (n + P)) as [[E2 _]|[_ ?]]; [|lia].
      destruct (check_overflow_cases M P) as [[E3 _]|[_ ?]]; [|lia].
      rewrite E1, E2, E3. cbn. destruct (P =? 0) eqn:EP; [lia|]. cbn.
      replace (n + P) with (n + 1 * P) by lia. rewrite Z_mod_plus_full. reflexivity.
    + intros H.
      exact (per_join_sound M (fun a b => do x <- a; do y <- b; eval_bin M o x y)
               (pyeval M e1) (pyeval M e2) _ _ O P (congr_bind2 _) IHe1 IHe2 H).
  - (* Cmp *)
    destruct (if is_var e1 then num_of e2 else None) as [c|] eqn:Esp.
    + destruct e1; cbn in Esp; try discriminate. destruct e2; cbn in Esp; try discriminate.
      inversion Esp; subst; clear Esp.
      destruct ((c <? 0) || (c >=? M)) eqn:Ec; [discriminate|].
      assert (Hgen : forall O', (O' = c \/ O' = c + 1) -> O' < M ->
                (forall n, O' <= n -> eval_cmp o n c = eval_cmp o (n + 1) c) ->
                periodic M (pyeval M (Cmp o Var (Num c))) O' 1).
      { intros O' HO' HO'M Hcmp. split; [lia|]. split; [lia|]. intros n Hn Hlt. cbn [pyeval].
        destruct (check_overflow_cases M n) as [[E1 _]|[_ ?]]; [|lia].
        destruct (check_overflow_cases M (n + 1)) as [[E2 _]|[_ ?]]; [|lia].
        destruct (check_overflow_cases M c) as [[E3 _]|[_ ?]]; [|lia].
        rewrite E1, E2, E3. cbn. apply Hcmp; auto. }
      destruct o; try (destruct (c + 1 =? M) eqn:EM; [discriminate|]);
        intros H; inversion H; subst; clear H; apply Hgen; try lia;
        intros n Hn; unfold eval_cmp, b2z; bdestr; lia.
    + intros H.
      exact (per_join_sound M (fun a b => do x <- a; do y <- b; Ok (eval_cmp o x y))
               (pyeval M e1) (pyeval M e2) _ _ O P (congr_bind2 _) IHe1 IHe2 H).
  - (* And *)
    intros H.
    assert (Hin : forall o p, per_join M (Some (0, 1)) (period M e1) = Some (o, p) -> periodic M (pyeval M e1) o p).
    { intros o p Hj.
      exact (per_join_sound M (fun _ b => b) (fun _ => Ok 0) (pyeval M e1) _ _ o p congr_snd
               (const_hyp M (Ok 0)) IHe1 Hj). }
    exact (per_join_sound M and_comb (pyeval M e1) (pyeval M e2) _ _ O P congr_and Hin IHe2 H).
  - (* Or *)
    intros H.
    assert (Hin : forall o p, per_join M (Some (0, 1)) (period M e1) = Some (o, p) -> periodic M (pyeval M e1) o p).
    { intros o p Hj.
      exact (per_join_sound M (fun _ b => b) (fun _ => Ok 0) (pyeval M e1) _ _ o p congr_snd
               (const_hyp M (Ok 0)) IHe1 Hj). }
    exact (per_join_sound M or_comb (pyeval M e1) (pyeval M e2) _ _ O P congr_or Hin IHe2 H).
  - (* If *)
    destruct (period M e1) as [[to tp]|]; [|discriminate].
    destruct (period M e2) as [[xo xp]|]; [|discriminate].
    destruct (period M e3) as [[yo yp]|]; [|discriminate].
    specialize (IHe1 to tp eq_refl). specialize (IHe2 xo xp eq_refl). specialize (IHe3 yo yp eq_refl).
    destruct (py_lcm (py_lcm tp xp) yp >=? M) eqn:E; [discriminate|]. intros H; inversion H; subst; clear H.
    pose proof IHe1 as [Htp [Hto _]]. pose proof IHe2 as [Hxp [Hxo _]]. pose proof IHe3 as [Hyp [Hyo _]].
    destruct (py_lcm_multiple tp xp Htp Hxp) as [a [b [Ha [Hb [Ea Eb]]]]].
    assert (Hl1 : 1 <= py_lcm tp xp) by nia.
    destruct (py_lcm_multiple (py_lcm tp xp) yp Hl1 Hyp) as [a2 [b2 [Ha2 [Hb2 [Ea2 Eb2]]]]].
    split; [nia|]. split; [lia|]. intros n Hn Hlt. cbn [pyeval].
    assert (H1 : same_outcome (pyeval M e1 n) (pyeval M e1 (n + py_lcm (py_lcm tp xp) yp))).
    { rewrite Ea2, Ea. replace (a2 * (a * tp)) with ((a2 * a) * tp) by ring.
      apply (periodic_mult M _ to tp IHe1 (a2 * a)); nia. }
    assert (H2 : same_outcome (pyeval M e2 n) (pyeval M e2 (n + py_lcm (py_lcm tp xp) yp))).
    { rewrite Ea2, Eb. replace (a2 * (b * xp)) with ((a2 * b) * xp) by ring.
      apply (periodic_mult M _ xo xp IHe2 (a2 * b)); nia. }
    assert (H3 : same_outcome (pyeval M e3 n) (pyeval M e3 (n + py_lcm (py_lcm tp xp) yp))).
    { rewrite Eb2. apply (periodic_mult M _ yo yp IHe3 b2); nia. }
    destruct (pyeval M e1 n), (pyeval M e1 (n + py_lcm (py_lcm tp xp) yp)); cbn in *; try contradiction; auto.
    subst. destruct (negb (a1 =? 0)); auto.
Qed.

Lemma period_multiples M e O P : period M e = Some (O, P) ->
  forall k n, 0 <= k -> O <= n -> n + k * P < M -> same_outcome (pyeval M e n) (pyeval M e (n + k * P)).
Proof. intros H k n Hk. apply (periodic_mult M _ O P (period_sound M e O P H) k Hk). Qed.

(* every outcome is already produced inside any window [0, T) with O + P <= T *)
Lemma period_image_in_window M e O P T : period M e = Some (O, P) -> O + P <= T ->
  forall n, 0 <= n < M -> exists m, 0 <= m < T /\ m <= n /\ same_outcome (pyeval M e m) (pyeval M e n).
Proof.
  intros H HT n Hn. pose proof (period_sound M e O P H) as Hp. pose proof Hp as [HP [HO _]].
  destruct (Z_lt_ge_dec n (O + P)) as [Hlt|Hge].
  - exists n. split; [lia|]. split; [lia|]. apply same_refl.
  - set (k := (n - O) / P). set (m := O + (n - O) mod P).
    assert (Hm : n = m + k * P). { unfold m, k. pose proof (Z.div_mod (n - O) P). lia. }
    assert (0 <= (n - O) mod P < P) by (apply Z.mod_pos_bound; lia).
    assert (0 <= k) by (apply Z.div_pos; lia).
    assert (Hm1 : O <= m < O + P) by (unfold m; lia).
    clearbody m k. exists m. split; [lia|]. split; [nia|]. subst n.
    apply (periodic_mult M _ O P Hp k); lia.
Qed.

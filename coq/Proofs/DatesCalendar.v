(* The calendar arithmetic of the model (CPython's closed forms) is the calendar of Spec/Calendar.v. *)
From Coq Require Import List ZArith NArith Bool Lia.
From I18n Require Import Lib.Outcome Model.Dates Spec.Calendar.
Import ListNotations.
Local Open Scope Z_scope.

Lemma py_is_leap_spec : forall y, py_is_leap y = is_leap y.
Proof. reflexivity. Qed.

Lemma month_cases : forall m, 1 <= m <= 12 ->
  m = 1 \/ m = 2 \/ m = 3 \/ m = 4 \/ m = 5 \/ m = 6 \/ m = 7 \/ m = 8 \/ m = 9 \/ m = 10 \/ m = 11 \/ m = 12.
Proof. intros. lia. Qed.

Ltac norm_nat :=
  repeat match goal with
  | |- context [Z.to_nat ?z] => let n := eval vm_compute in (Z.to_nat z) in change (Z.to_nat z) with n
  end;
  cbn [days_in_months nth];
  repeat match goal with
  | |- context [Z.of_nat ?k] => let n := eval vm_compute in (Z.of_nat k) in change (Z.of_nat k) with n
  end.

Lemma py_days_in_month_spec : forall y m, 1 <= m <= 12 -> py_days_in_month y m = days_in_month y m.
Proof.
  intros y m Hm. unfold py_days_in_month, days_in_month. rewrite py_is_leap_spec.
  destruct (month_cases m Hm) as [H|[H|[H|[H|[H|[H|[H|[H|[H|[H|[H|H]]]]]]]]]]]; subst m;
    norm_nat; cbn; destruct (is_leap y); reflexivity.
Qed.

Lemma div_step : forall k z, 0 < k -> 0 <= z ->
  (z + 1) / k = z / k + (if (z + 1) mod k =? 0 then 1 else 0).
Proof.
  intros k z Hk Hz.
  pose proof (Z.div_mod z k ltac:(lia)) as H2. pose proof (Z.mod_pos_bound z k Hk) as H3.
  destruct (Z.eq_dec (z mod k + 1) k) as [Hr | Hr].
  - assert (Hq : z / k + 1 = (z + 1) / k) by (apply (Z.div_unique (z + 1) k (z / k + 1) 0); lia).
    assert (Hm : 0 = (z + 1) mod k) by (apply (Z.mod_unique (z + 1) k (z / k + 1) 0); lia).
    rewrite <- Hm, <- Hq. reflexivity.
  - assert (Hq : z / k = (z + 1) / k) by (apply (Z.div_unique (z + 1) k (z / k) (z mod k + 1)); lia).
    assert (Hm : z mod k + 1 = (z + 1) mod k) by (apply (Z.mod_unique (z + 1) k (z / k) (z mod k + 1)); lia).
    rewrite <- Hm, <- Hq. destruct (z mod k + 1 =? 0) eqn:E; [apply Z.eqb_eq in E|]; lia.
Qed.

Lemma leap_count : forall w,
  (if w mod 4 =? 0 then 1 else 0) - (if w mod 100 =? 0 then 1 else 0) + (if w mod 400 =? 0 then 1 else 0)
  = (if is_leap w then 1 else 0).
Proof.
  intro w. unfold is_leap.
  destruct (w mod 4 =? 0) eqn:E4; destruct (w mod 100 =? 0) eqn:E100; destruct (w mod 400 =? 0) eqn:E400;
    cbn [andb orb negb]; try reflexivity; exfalso;
    rewrite ?Z.eqb_eq, ?Z.eqb_neq in *; Z.div_mod_to_equations; lia.
Qed.

Lemma days_in_years_closed : forall n : nat,
  let z := Z.of_nat n in z * 365 + z / 4 - z / 100 + z / 400 = days_in_years n.
Proof.
  induction n as [|n IH]; [reflexivity|].
  cbn zeta in *. cbn [days_in_years]. rewrite <- IH.
  replace (Z.of_nat (S n)) with (Z.of_nat n + 1) by lia.
  set (z := Z.of_nat n). assert (Hz : 0 <= z) by lia.
  rewrite (div_step 4 z), (div_step 100 z), (div_step 400 z) by lia.
  unfold days_in_year. pose proof (leap_count (z + 1)) as Hl.
  destruct (is_leap (z + 1)); lia.
Qed.

Lemma py_days_before_year_spec : forall y, 1 <= y -> py_days_before_year y = days_in_years (Z.to_nat (y - 1)).
Proof.
  intros y Hy. unfold py_days_before_year. cbn zeta.
  rewrite <- days_in_years_closed. cbn zeta. rewrite Z2Nat.id by lia. reflexivity.
Qed.

Lemma py_days_before_month_spec : forall y m, 1 <= m <= 12 ->
  py_days_before_month y m = days_in_months y (Z.to_nat (m - 1)).
Proof.
  intros y m Hm. unfold py_days_before_month. rewrite py_is_leap_spec.
  destruct (month_cases m Hm) as [H|[H|[H|[H|[H|[H|[H|[H|[H|[H|[H|H]]]]]]]]]]]; subst m;
    norm_nat; unfold days_in_month; cbn; destruct (is_leap y); reflexivity.
Qed.

Theorem ymd_to_ord_spec : forall y m d, 1 <= y -> 1 <= m <= 12 -> ymd_to_ord y m d = days_from_civil y m d.
Proof.
  intros y m d Hy Hm. unfold ymd_to_ord, days_from_civil.
  rewrite py_days_before_year_spec, py_days_before_month_spec by assumption. reflexivity.
Qed.

Lemma civil_ok_spec : forall y m d hh mi,
  civil_ok y m d hh mi = true <-> (valid_date y m d /\ y <= 9999 /\ valid_time hh mi).
Proof.
  intros y m d hh mi. unfold civil_ok, valid_date, valid_time.
  rewrite !andb_true_iff, !Z.leb_le.
  split.
  - intros H. assert (Hm : 1 <= m <= 12) by lia. rewrite <- (py_days_in_month_spec y m Hm). lia.
  - intros ((Hy & Hm & Hd) & Hy2 & Hh & Hi). rewrite (py_days_in_month_spec y m Hm). lia.
Qed.

Definition stamp_valid (t : stamp) : Prop :=
  valid_date (st_y t) (st_m t) (st_d t) /\ st_y t <= 9999 /\ valid_time (st_hh t) (st_mi t) /\ -1440 < st_off t < 1440.

Definition stamp_instant (t : stamp) : Z :=
  instant_minutes (st_y t) (st_m t) (st_d t) (st_hh t) (st_mi t) (st_off t).

Theorem stamp_minutes_spec : forall t, stamp_valid t -> stamp_minutes t = stamp_instant t.
Proof.
  intros t ((Hy & Hm & Hd) & _). unfold stamp_minutes, stamp_instant, instant_minutes.
  rewrite ymd_to_ord_spec by assumption. reflexivity.
Qed.

Definition epoch_instant : Z := instant_minutes 1995 7 2 0 0 0.     (* 1995-07-02T00:00Z *)

Lemma epoch_minutes_spec : epoch_minutes = epoch_instant.
Proof.
  unfold epoch_minutes, epoch_instant.
  rewrite stamp_minutes_spec.
  - reflexivity.
  - unfold stamp_valid, valid_date, valid_time, epoch_stamp; cbn. lia.
Qed.

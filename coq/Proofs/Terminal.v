(* Padding removal of lib/terminal.py against the padding syntax of terminfo(5):
   "$<" number [*][/] ">"  where number is digits, or digits "." digits with at least one digit after the point
   (terminfo(5) allows at most one decimal place; the tool tolerates more).
   A capability string is a sequence of segments: plain text without "$", or a padding specification.
   Theorem: stripping the rendering gives exactly the plain segments, in order, nothing else. *)
From Coq Require Import List NArith Arith Bool Lia.
From I18n Require Import Model.Terminal.
Import ListNotations.
Open Scope N_scope.

Inductive seg :=
| Plain (p : text)
| Pad (ip : text) (fp : option text) (suf : text).

Definition all_digits (s : text) : Prop := Forall (fun c => is_digit c = true) s.

Definition suffix_spec (s : text) : Prop :=
  s = [] \/ s = [c_slash] \/ s = [c_star] \/ s = [c_star; c_slash].

Definition seg_wf (g : seg) : Prop :=
  match g with
  | Plain p => ~ In c_dollar p
  | Pad ip fp suf =>
      all_digits ip /\ suffix_spec suf /\
      match fp with
      | Some d => all_digits d /\ d <> []
      | None => ip <> []
      end
  end.

Definition pad_body (ip : text) (fp : option text) (suf : text) : text :=
  ip ++ (match fp with Some d => c_dot :: d | None => [] end) ++ suf.

Definition render_seg (g : seg) : text :=
  match g with
  | Plain p => p
  | Pad ip fp suf => c_dollar :: c_lt :: pad_body ip fp suf ++ [c_gt]
  end.

Definition render (gs : list seg) : text := concat (map render_seg gs).

Definition plain_of (g : seg) : text := match g with Plain p => p | Pad _ _ _ => [] end.
Definition plains (gs : list seg) : text := concat (map plain_of gs).

(* ---------------------------------------------------------------- span_digits *)
Lemma span_digits_app : forall d r,
  all_digits d -> (match r with c :: _ => is_digit c = false | [] => True end) ->
  span_digits (d ++ r) = (d, r).
Proof.
  induction d as [|c d IH]; intros r Hd Hr.
  - destruct r as [|c r]; [reflexivity|]. cbn [app span_digits]. rewrite Hr. reflexivity.
  - inversion Hd as [|? ? Hc Hd']; subst. cbn [app span_digits]. rewrite Hc. rewrite (IH r Hd' Hr). reflexivity.
Qed.

Lemma suffix_spec_ok : forall s, suffix_spec s -> suffix_ok s = true.
Proof. intros s [H|[H|[H|H]]]; subst; reflexivity. Qed.

Lemma suffix_head_nondigit : forall s, suffix_spec s ->
  match s with c :: _ => is_digit c = false | [] => True end.
Proof. intros s [H|[H|[H|H]]]; subst; cbn; auto. Qed.

Lemma suffix_head_not_dot : forall s c r, suffix_spec s -> s = c :: r -> (c =? c_dot) = false.
Proof. intros s c r [H|[H|[H|H]]] E; subst; inversion E; subst; reflexivity. Qed.

Lemma body_ok_pad : forall ip fp suf, seg_wf (Pad ip fp suf) -> body_ok (pad_body ip fp suf) = true.
Proof.
  intros ip fp suf (Hip & Hsuf & Hfp). unfold body_ok, pad_body.
  destruct fp as [d|].
  - destruct Hfp as [Hd Hne]. cbn [app].
    rewrite (span_digits_app ip (c_dot :: d ++ suf) Hip); [|reflexivity].
    change (c_dot =? c_dot) with true. cbn iota.
    rewrite (span_digits_app d suf Hd (suffix_head_nondigit suf Hsuf)).
    destruct d as [|c d]; [contradiction|]. apply suffix_spec_ok; assumption.
  - cbn [app]. rewrite (span_digits_app ip suf Hip (suffix_head_nondigit suf Hsuf)).
    destruct suf as [|c r].
    + destruct ip; [contradiction|reflexivity].
    + rewrite (suffix_head_not_dot (c :: r) c r Hsuf eq_refl).
      destruct ip; [contradiction|]. apply suffix_spec_ok; assumption.
Qed.

(* ---------------------------------------------------------------- split_gt *)
Lemma split_gt_app : forall b r, ~ In c_gt b -> split_gt (b ++ c_gt :: r) = Some (b, r).
Proof.
  induction b as [|c b IH]; intros r Hn.
  - reflexivity.
  - cbn [app split_gt]. destruct (N.eqb_spec c c_gt) as [E|E].
    + exfalso. apply Hn. left. assumption.
    + rewrite IH; [reflexivity|]. intro H. apply Hn. right. assumption.
Qed.

Lemma digits_no_gt : forall d, all_digits d -> ~ In c_gt d.
Proof.
  intros d Hd H. unfold all_digits in Hd. rewrite Forall_forall in Hd. specialize (Hd _ H). discriminate.
Qed.

Lemma pad_body_no_gt : forall ip fp suf, seg_wf (Pad ip fp suf) -> ~ In c_gt (pad_body ip fp suf).
Proof.
  intros ip fp suf (Hip & Hsuf & Hfp) H. unfold pad_body in H.
  rewrite !in_app_iff in H. destruct H as [H|[H|H]].
  - exact (digits_no_gt _ Hip H).
  - destruct fp as [d|]; [|contradiction]. destruct H as [H|H]; [discriminate|].
    destruct Hfp as [Hd _]. exact (digits_no_gt _ Hd H).
  - destruct Hsuf as [E|[E|[E|E]]]; subst; cbn in H; intuition discriminate.
Qed.

(* ---------------------------------------------------------------- one segment *)
Lemma match_here_pad : forall ip fp suf r, seg_wf (Pad ip fp suf) ->
  match_here (render_seg (Pad ip fp suf) ++ r) = Some r.
Proof.
  intros ip fp suf r W. cbn [render_seg app match_here].
  change (c_dollar =? c_dollar) with true. change (c_lt =? c_lt) with true. cbn [andb].
  rewrite <- app_assoc. cbn [app].
  rewrite (split_gt_app _ r (pad_body_no_gt _ _ _ W)). rewrite (body_ok_pad _ _ _ W). reflexivity.
Qed.

Lemma match_here_not_dollar : forall c r, c <> c_dollar -> match_here (c :: r) = None.
Proof.
  intros c r H. cbn [match_here]. destruct r as [|c2 r]; [reflexivity|].
  destruct (N.eqb_spec c c_dollar); [contradiction|]. reflexivity.
Qed.

(* enough fuel: the result does not depend on the surplus *)
Lemma strip_fuel_plain : forall p f r, ~ In c_dollar p -> (length p <= f)%nat ->
  strip_fuel f (p ++ r) = p ++ strip_fuel (f - length p) r.
Proof.
  induction p as [|c p IH]; intros f r Hn Hf.
  - cbn [app length]. rewrite Nat.sub_0_r. reflexivity.
  - destruct f as [|f]; [cbn in Hf; lia|]. cbn [app strip_fuel].
    rewrite match_here_not_dollar; [|intro E; apply Hn; left; assumption].
    cbn [length Nat.sub]. f_equal. apply IH; [intro H; apply Hn; right; assumption|cbn in Hf; lia].
Qed.

Lemma strip_fuel_surplus : forall s f, (length s <= f)%nat -> strip_fuel f s = strip_fuel (length s) s.
Proof.
  (* strong induction on the length: a successful match strictly shortens the string *)
  assert (H : forall n s f, (length s <= n)%nat -> (length s <= f)%nat -> strip_fuel f s = strip_fuel (length s) s).
  { induction n as [|n IH]; intros s f Hn Hf.
    - destruct s; [|cbn in Hn; lia]. destruct f; reflexivity.
    - destruct s as [|c r]; [destruct f; reflexivity|].
      destruct f as [|f]; [cbn in Hf; lia|]. cbn [length strip_fuel].
      destruct (match_here (c :: r)) as [r'|] eqn:M.
      + assert (L : (length r' <= length r)%nat).
        { cbn [match_here] in M. destruct r as [|c2 r2]; [discriminate|].
          destruct ((c =? c_dollar) && (c2 =? c_lt)); [|discriminate].
          destruct (split_gt r2) as [[b r'']|] eqn:S; [|discriminate].
          destruct (body_ok b); [|discriminate]. inversion M; subst.
          clear - S. revert b r' S. induction r2 as [|x r2 IH2]; intros b r' S; [discriminate|].
          cbn [split_gt] in S. destruct (x =? c_gt).
          - inversion S; subst. cbn. lia.
          - destruct (split_gt r2) as [[b' r3]|] eqn:S2; [|discriminate]. inversion S; subst.
            specialize (IH2 _ _ eq_refl). cbn [length] in *. lia. }
        cbn in Hn, Hf.
        rewrite (IH r' f) by lia. rewrite (IH r' (length r)) by lia. reflexivity.
      + f_equal. cbn in Hn, Hf. apply IH; lia. }
  intros s f Hf. apply (H (length s) s f); [lia|assumption].
Qed.

Lemma strip_delay_app_plain : forall p r, ~ In c_dollar p -> strip_delay (p ++ r) = p ++ strip_delay r.
Proof.
  intros p r Hn. unfold strip_delay. rewrite strip_fuel_plain; [|assumption|rewrite app_length; lia].
  f_equal. apply strip_fuel_surplus. rewrite app_length. lia.
Qed.

Lemma strip_delay_app_pad : forall ip fp suf r, seg_wf (Pad ip fp suf) ->
  strip_delay (render_seg (Pad ip fp suf) ++ r) = strip_delay r.
Proof.
  intros ip fp suf r W. unfold strip_delay.
  remember (length (render_seg (Pad ip fp suf) ++ r)) as n eqn:En.
  destruct n as [|n]; [cbn in En; discriminate|].
  cbn [strip_fuel]. rewrite (match_here_pad _ _ _ r W).
  apply strip_fuel_surplus. rewrite app_length in En. cbn [render_seg length] in En. lia.
Qed.

(* ---------------------------------------------------------------- the theorem *)
Theorem strip_delay_render : forall gs, Forall seg_wf gs -> strip_delay (render gs) = plains gs.
Proof.
  induction gs as [|g gs IH]; intros W; [reflexivity|].
  inversion W as [|? ? Wg Wgs]; subst. unfold render, plains in *. cbn [map concat].
  destruct g as [p|ip fp suf].
  - cbn [render_seg plain_of]. rewrite strip_delay_app_plain by exact Wg. f_equal. apply IH; assumption.
  - cbn [plain_of app]. rewrite strip_delay_app_pad by exact Wg. apply IH; assumption.
Qed.

Corollary strip_delay_plain_id : forall p, ~ In c_dollar p -> strip_delay p = p.
Proof.
  intros p Hn. assert (W : Forall seg_wf [Plain p]) by (constructor; [exact Hn|constructor]).
  generalize (strip_delay_render [Plain p] W).
  unfold render, plains. cbn [map concat render_seg plain_of]. rewrite !app_nil_r. auto.
Qed.

(* attr_reset / attr_fg of a capability written in terminfo syntax carry no padding *)
Theorem attr_reset_render : forall gs, Forall seg_wf gs -> attr_reset (Some (render gs)) = plains gs.
Proof. intros gs W. unfold attr_reset. apply strip_delay_render; assumption. Qed.

Theorem attr_fg_render : forall gs tparm, Forall seg_wf gs ->
  attr_fg (Some (render gs)) tparm = match plains gs with [] => [] | s => tparm s end.
Proof. intros gs tparm W. unfold attr_fg. rewrite strip_delay_render by assumption. destruct (plains gs); reflexivity. Qed.

Theorem attr_absent : forall tparm, attr_reset None = [] /\ attr_fg None tparm = [].
Proof. intros; split; reflexivity. Qed.

(* the stripped string is never longer, and what is removed is removed in whole "$<...>" spans only:
   the result is a subsequence of the input *)
Inductive subseq : text -> text -> Prop :=
| sub_nil : subseq [] []
| sub_keep : forall c a b, subseq a b -> subseq (c :: a) (c :: b)
| sub_drop : forall c a b, subseq a b -> subseq a (c :: b).

Lemma subseq_refl : forall s, subseq s s.
Proof. induction s; constructor; assumption. Qed.

Lemma subseq_drop_prefix : forall p a b, subseq a b -> subseq a (p ++ b).
Proof. induction p; intros; cbn; [assumption|constructor; auto]. Qed.

Lemma split_gt_decompose : forall s b r, split_gt s = Some (b, r) -> s = b ++ c_gt :: r.
Proof.
  induction s as [|c s IH]; intros b r H; [discriminate|]. cbn [split_gt] in H.
  destruct (N.eqb_spec c c_gt) as [E|E].
  - inversion H; subst. reflexivity.
  - destruct (split_gt s) as [[b' r']|]; [|discriminate]. inversion H; subst.
    cbn [app]. f_equal. apply IH. reflexivity.
Qed.

Lemma match_here_decompose : forall s r, match_here s = Some r ->
  exists b, s = c_dollar :: c_lt :: b ++ c_gt :: r /\ body_ok b = true.
Proof.
  intros s r H. destruct s as [|c1 [|c2 s]]; try discriminate. cbn [match_here] in H.
  destruct (N.eqb_spec c1 c_dollar) as [E1|]; [|discriminate].
  destruct (N.eqb_spec c2 c_lt) as [E2|]; [|discriminate]. cbn [andb] in H.
  destruct (split_gt s) as [[b r']|] eqn:S; [|discriminate].
  destruct (body_ok b) eqn:B; [|discriminate]. inversion H; subst.
  exists b. split; [|assumption]. rewrite (split_gt_decompose _ _ _ S). reflexivity.
Qed.

Theorem strip_fuel_subseq : forall f s, subseq (strip_fuel f s) s.
Proof.
  induction f as [|f IH]; intros s; [apply subseq_refl|]. cbn [strip_fuel].
  destruct (match_here s) as [r|] eqn:M.
  - destruct (match_here_decompose _ _ M) as (b & E & _). subst s.
    change (c_dollar :: c_lt :: b ++ c_gt :: r) with ([c_dollar; c_lt] ++ (b ++ c_gt :: r)).
    apply subseq_drop_prefix. apply subseq_drop_prefix. constructor. apply IH.
  - destruct s as [|c r]; [constructor|]. constructor. apply IH.
Qed.

Theorem strip_delay_subseq : forall s, subseq (strip_delay s) s.
Proof. intro s. apply strip_fuel_subseq. Qed.

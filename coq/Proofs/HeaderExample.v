(* The worked example of Props/C15.v: the base header of tools/harness/pogen.py satisfies [clean_header]
   (so C15_clean_header_silent is not vacuous).  Boolean checkers for the side conditions, then computation. *)
From Coq Require Import List NArith Bool Lia PeanoNat.
From Coq Require String.
From I18n Require Import Lib.Outcome Model.Header Spec.HeaderRules Proofs.HeaderBase Proofs.HeaderComments Proofs.Header Proofs.Header2 Model.Tags
  Generated.HeaderFields Generated.SpecialDomains Generated.UcdHeader.
Import ListNotations.
Import String.StringSyntax.
Local Open Scope N_scope.

Definition nl : str := [10].
Definition ex_translator : str := lit "Jakub Wilk <jwilk@jwilk.net>".
Definition ex_team : str := lit "Polish <debian-l10n-polish@lists.debian.org>".
Definition ex_header (report : str) : str :=
  lit "Project-Id-Version: Gizmo Enhancer 1.0" ++ nl ++
  lit "Report-Msgid-Bugs-To: " ++ report ++ nl ++
  lit "POT-Creation-Date: 2012-11-01 14:42+0100" ++ nl ++
  lit "PO-Revision-Date: 2012-11-01 14:42+0100" ++ nl ++
  lit "Last-Translator: " ++ ex_translator ++ nl ++
  lit "Language-Team: " ++ ex_team ++ nl ++
  lit "Language: pl" ++ nl ++
  lit "MIME-Version: 1.0" ++ nl ++
  lit "Content-Type: text/plain; charset=UTF-8" ++ nl ++
  lit "Content-Transfer-Encoding: 8bit" ++ nl ++
  lit "Plural-Forms: nplurals=3; plural=n==1 ? 0 : n%10>=2 && n%10<=4 && (n%100<10 || n%100>=20) ? 1 : 2;" ++ nl.
Definition ex_comment : str :=
  lit "Polish translation of Gizmo Enhancer" ++ nl ++ lit "Copyright (C) 2012 Jakub Wilk <jwilk@jwilk.net>" ++ nl ++
  lit "This file is distributed under the same license as the Gizmo Enhancer package.".
(* the oracle values the libraries give on this header *)
Definition ex_oracles : oracles := {|
  o_word := in_ranges re_word_ranges; o_digit := in_ranges re_digit_ranges; o_space := in_ranges re_space_ranges;
  o_lower := fun s => s;
  o_close_fuzzy := fun _ => false;
  o_close_field := fun _ => None;
  o_parseaddr := fun s => if str_eqb s ex_translator then lit "jwilk@jwilk.net"
                          else if str_eqb s ex_team then lit "debian-l10n-polish@lists.debian.org"
                          else if str_eqb s (lit "http://[foo") then lit "//" else s;
  o_urlscheme := fun s => if str_eqb s (lit "http://[foo") then URaise else UNoScheme;
  o_enc := fun s => if str_eqb s (lit "UTF-8") then EKnown true true None else EUnknown;
  o_unrep := fun _ => []
|}.
Definition ex_entry (report : str) : entry :=
  {| e_header := true; e_obsolete := false; e_occurrences := []; e_has_plural := false;
     e_msgstr := Some (ex_header report); e_plural0 := None; e_flags := [] |}.
Definition ex_other : entry :=
  {| e_header := false; e_obsolete := false; e_occurrences := []; e_has_plural := false;
     e_msgstr := Some (lit "x"); e_plural0 := None; e_flags := [] |}.
Definition ex_input (template : bool) (report : str) : hinput :=
  {| h_template := template; h_comment := ex_comment; h_entries := [ex_entry report; ex_other] |}.
Definition ex_check (inp : hinput) :=
  hdr_check ex_oracles header_fields dedicated_fields special_exact_or_sub special_sub_only inp.


(* ---- boolean checkers ---- *)
Definition plain_charb (c : N) : bool :=
  ((32 <=? c) || N.eqb c 9 || N.eqb c 10) && negb (N.eqb c 127) && negb ((128 <=? c) && (c <=? 159)) && negb (N.eqb c 191)
  && negb (N.eqb c 65279) && negb (N.eqb c 65533) && negb (N.eqb c 65534) && negb (N.eqb c 65535).

Lemma plain_charb_ok : forall s, forallb plain_charb s = true -> Forall plain_char s.
Proof.
  intros s H. rewrite forallb_forall in H. apply Forall_forall. intros c Hc. specialize (H c Hc).
  unfold plain_charb in H. unfold plain_char.
  repeat (apply andb_prop in H; destruct H as [H ?]).
  repeat match goal with
  | H : negb _ = true |- _ => apply negb_true_iff in H
  | H : N.eqb _ _ = false |- _ => apply N.eqb_neq in H
  | H : _ && _ = false |- _ => apply andb_false_iff in H; rewrite !N.leb_gt in H
  | H : _ || _ = true |- _ => apply orb_prop in H; destruct H as [H|H]
  | H : N.eqb _ _ = true |- _ => apply N.eqb_eq in H
  | H : N.leb _ _ = true |- _ => apply N.leb_le in H
  end; repeat split; try lia.
Qed.

Definition containsb (sub s : str) : bool := search_pos (fun _ x => hstarts sub x) None s.

Lemma containsb_false : forall sub s, containsb sub s = false -> ~ contains sub s.
Proof.
  intros sub s H (a & b & ->). assert (containsb sub (a ++ sub ++ b) = true); [|congruence].
  unfold containsb. apply search_pos_iff. exists a, (sub ++ b). split; [reflexivity|]. apply hstarts_iff. exists b. reflexivity.
Qed.

Fixpoint nodup_strb (l : list str) : bool :=
  match l with [] => true | x :: r => negb (smem x r) && nodup_strb r end.

Lemma nodup_strb_ok : forall l, nodup_strb l = true -> NoDup l.
Proof.
  induction l as [|x r IH]; intro H; [constructor|]. cbn [nodup_strb] in H. apply andb_prop in H. destruct H as [H1 H2].
  constructor; [apply smem_false; apply negb_true_iff; exact H1 | apply IH; exact H2].
Qed.

Lemma good_address_check : forall lower nb ob addr d,
  after_last 64 addr = Some d -> is_special nb ob (lower d) = false -> hmem 46 d = true -> good_address lower nb ob addr.
Proof.
  intros lower nb ob addr d H1 H2 H3. exists d. split; [apply after_last_some; exact H1|]. split.
  - intro H. apply is_special_iff in H. congruence.
  - intro H. apply hmem_In in H3. contradiction.
Qed.

Lemma lines_have_names : forall ls, forallb (fun l => match parse_line l with HField _ _ => true | HStray _ => false end) ls = true ->
  forall l, In l ls -> has_field_name l.
Proof.
  intros ls H l Hl. rewrite forallb_forall in H. specialize (H l Hl). destruct (parse_line l) as [k v|] eqn:E; [|discriminate].
  apply parse_line_field in E. destruct E as (rest & H1 & H2 & H3 & _). exists k, rest. auto.
Qed.

Definition ex_report : str := lit "gizmoenhancer@jwilk.net".

Lemma ex_base_header_clean :
  clean_header ex_oracles header_fields special_exact_or_sub special_sub_only (ex_input false ex_report)
    (ex_entry ex_report) (metadata_of (h_entries (ex_input false ex_report))).
Proof.
  constructor.
  - vm_compute. reflexivity.
  - repeat split; reflexivity.
  - apply plain_charb_ok. vm_compute. reflexivity.
  - apply lines_have_names. vm_compute. reflexivity.
  - reflexivity.
  - apply nodup_strb_ok. vm_compute. reflexivity.
  - assert (H : forallb (fun k => smem k header_fields) (map fst (metadata_of (h_entries (ex_input false ex_report)))) = true) by (vm_compute; reflexivity).
    rewrite forallb_forall in H. intros k Hk. left. apply smem_In. apply H. exact Hk.
  - apply In_values. rewrite <- values_of_spec. vm_compute. left. reflexivity.
  - apply In_values. rewrite <- values_of_spec. vm_compute. left. reflexivity.
  - exists (lit "UTF-8"). split; [apply In_values; rewrite <- values_of_spec; vm_compute; left; reflexivity|].
    split; [apply charset_token_ok_iff; vm_compute; reflexivity|]. split; [exists None; vm_compute; reflexivity | reflexivity].
  - exists (lit "Gizmo Enhancer 1.0"). split; [apply In_values; rewrite <- values_of_spec; vm_compute; left; reflexivity|].
    split; [intros [H|H]; vm_compute in H; discriminate|].
    split; [exists 71; split; [vm_compute; auto|]; split; [vm_compute; reflexivity|]; split; [vm_compute; reflexivity | discriminate]
           | exists 49; split; [vm_compute; auto 25 | lia]].
  - exists ex_report. split; [apply In_values; rewrite <- values_of_spec; vm_compute; left; reflexivity|].
    split; [discriminate|]. left. split; [|vm_compute; reflexivity].
    apply (good_address_check _ _ _ _ (lit "jwilk.net")); vm_compute; reflexivity.
  - exists ex_translator. split; [apply In_values; rewrite <- values_of_spec; vm_compute; left; reflexivity|].
    split; [split; [apply (good_address_check _ _ _ _ (lit "jwilk.net")); vm_compute; reflexivity | vm_compute; reflexivity]|].
    exists ex_team. split; [apply In_values; rewrite <- values_of_spec; vm_compute; left; reflexivity|].
    right. split; [split; [apply (good_address_check _ _ _ _ (lit "lists.debian.org")); vm_compute; reflexivity | vm_compute; reflexivity]|].
    vm_compute. discriminate.
  - intros w Hw. apply containsb_false. unfold boilerplate_words in Hw. cbn [In] in Hw.
    destruct Hw as [<-|[<-|[<-|[<-|[<-|[]]]]]]; vm_compute; reflexivity.
Qed.

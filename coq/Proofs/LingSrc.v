(* Source tie for C19, part 1: the translation of lib/ling.py (Generated/LingSrc.v, written by tools/gen/gen_ling_src.py on
   every run) equals the hand-written model Model/Ling.v, for all arguments.  notes/SRC6.md. *)
From Coq Require Import List NArith ZArith Bool Lia.
From I18n Require Import Lib.Outcome Model.Ling Model.LingPy Generated.LingSrc Proofs.LingParse.
Import ListNotations.
Local Open Scope N_scope.

(* ---------- the environment the model stands for ---------- *)
(* _language_regexp.match(s) followed by .groups(): the model's scanner without the construction of the object *)
Definition scan_language (s : list N) : option tup4 :=
  let '(ll, r1) := lg_span is_lower s in
  if negb (Nat.leb 2 (length ll)) then None else
  let '(cc, r2) := opt_group 95 is_upper 2 r1 in
  let '(en, r3) := opt_group 46 is_encch 1 r2 in
  let '(md, r4) := opt_group 64 is_lower 1 r3 in
  if at_end r4 then Some (ll, cc, en, md) else None.

Definition env_of (cfg : ling_cfg) : pyenv :=
  {| pe_iso639 := cfg_iso639 cfg; pe_iso3166 := cfg_iso3166 cfg; pe_names := cfg_names cfg; pe_munch := cfg_munch cfg;
     pe_scan := scan_language;
     pe_upper := map ascii_upper |}.     (* str.upper on what group 3 of the regex admits: ASCII *)

(* the model's outcomes as results of a translated function *)
Definition crash_of (x : pyx) : crash_kind :=
  match x with
  | XKeyError => CKeyError | XIndexError => CIndexError | XLookupError => CLookupError | XTypeError => CTypeError
  | _ => CValueError          (* ValueError and its subclasses LanguageError ... *)
  end.

(* what a caller outside sees of a translated function: its result, or the exception as the model classifies it
   (own : the exceptions the model reports as Err) *)
Definition seen {R E} (own : pyx -> option E) (r : lres Empty_set R) : outcome R E :=
  match r with
  | LRet v => Ok v
  | LExc x => match own x with Some e => Err e | None => Crash (crash_of x) end
  | LNorm e => match e with end
  end.

Definition own_none {E} (x : pyx) : option E := None.
Definition own_syntax (x : pyx) : option ling_err := match x with XLanguageSyntaxError => Some LSyntax | _ => None end.
Definition own_fix (x : pyx) : option ling_err := match x with XFixingLanguageCodesFailed => Some LFixCodes | _ => None end.
Definition own_lookup (x : pyx) : option lookup_err := match x with XLookupError => Some LLookup | _ => None end.

(* Python's None / True as the model's bool *)
Definition flag (b : bool) : option bool := if b then Some true else None.

(* ---------- lookups ---------- *)
Lemma src_lookup_language_code_eq cfg k : src_lookup_language_code (env_of cfg) k = lg_lookup (cfg_iso639 cfg) k.
Proof. reflexivity. Qed.

Lemma src_lookup_territory_code_eq cfg cc : src_lookup_territory_code (env_of cfg) cc = lookup_territory_code cfg cc.
Proof. reflexivity. Qed.

(* ---------- comparison, printing ---------- *)
Lemma src_get_tuple_eq E l : src_get_tuple E l = (l_lang l, l_terr l, l_enc l, l_mod l).
Proof. reflexivity. Qed.

Lemma src_eq_eq E a b : src_eq E a b = lang_eqb a b.
Proof. reflexivity. Qed.

Lemma src_ne_eq E a b : src_ne E a b = negb (lang_eqb a b).
Proof. reflexivity. Qed.

Lemma src_str_eq E l : src_str E l = str_language l.
Proof.
  destruct l as [ll [cc|] [en|] [md|]]; unfold src_str, str_language, render, optpart; cbn [l_lang l_terr l_enc l_mod];
    repeat rewrite <- app_assoc; cbn [app]; repeat rewrite app_nil_r; reflexivity.
Qed.

(* ---------- the object: __init__, parse_language ---------- *)
Lemma src_init_eq cfg ll cc en md :
  src_init (env_of cfg) ll cc en md = LRet (mkLang ll cc (option_map (map ascii_upper) en) md).
Proof. destruct en; reflexivity. Qed.

Lemma parse_language_scan s :
  parse_language s = match scan_language s with
                     | Some (ll, cc, en, md) => Ok (mkLang ll cc (option_map (map ascii_upper) en) md)
                     | None => Err LSyntax
                     end.
Proof.
  unfold parse_language, parse_language_gen, scan_language.
  destruct (lg_span is_lower s) as [ll r1]. destruct (negb (Nat.leb 2 (length ll))); [reflexivity|].
  destruct (opt_group 95 is_upper 2 r1) as [cc r2]. destruct (opt_group 46 is_encch 1 r2) as [en r3].
  destruct (opt_group 64 is_lower 1 r3) as [md r4]. destruct (at_end r4); reflexivity.
Qed.

Definition of_parse (o : outcome language ling_err) : lres Empty_set language :=
  match o with Ok l => LRet l | Err _ => LExc XLanguageSyntaxError | Crash _ => LExc XTypeError end.

Lemma src_parse_language_eq cfg s : src_parse_language (env_of cfg) s = of_parse (parse_language s).
Proof.
  rewrite parse_language_scan. unfold src_parse_language. cbn [pe_scan env_of].
  destruct (scan_language s) as [[[[ll cc] en] md]|]; cbn [lbind lcall of_parse]; [|reflexivity].
  rewrite src_init_eq. reflexivity.
Qed.

Lemma src_parse_language_seen cfg s : seen own_syntax (src_parse_language (env_of cfg) s) = parse_language s.
Proof.
  rewrite src_parse_language_eq. destruct (parse_language s) as [l|e|c] eqn:H; cbn.
  - reflexivity.
  - apply parse_err_syntax in H. subst. reflexivity.
  - exfalso. exact (parse_no_crash _ _ H).
Qed.

(* ---------- fix_codes, remove_encoding, remove_nonlinguistic_modifier ---------- *)
Definition of_fix (o : outcome (language * bool) ling_err) : lres Empty_set (language * option bool) :=
  match o with
  | Ok (l, b) => LRet (l, flag b)
  | Err _ => LExc XFixingLanguageCodesFailed
  | Crash _ => LExc XValueError
  end.

Lemma opt_eqb_some_refl a : opt_eqb (Some a) (Some a) = true.
Proof. apply lg_eqb_refl. Qed.

Lemma src_fix_codes_eq cfg l : src_fix_codes (env_of cfg) l = of_fix (fix_codes cfg l).
Proof.
  unfold src_fix_codes, fix_codes. rewrite src_lookup_language_code_eq.
  destruct (lg_lookup (cfg_iso639 cfg) (l_lang l)) as [ll|]; [|reflexivity].
  cbn [lbind]. destruct (l_terr l) as [cc|] eqn:Ht.
  - rewrite src_lookup_territory_code_eq. unfold lookup_territory_code.
    destruct (lg_mem (cfg_iso3166 cfg) cc); cbn [lbind of_fix].
    + rewrite opt_eqb_some_refl, lg_eqb_refl. cbn [negb lbind of_fix].
      destruct (lg_eqb ll (l_lang l)); reflexivity.
    + destruct (lg_eqb ll (l_lang l)); reflexivity.
  - destruct (lg_eqb ll (l_lang l)); reflexivity.
Qed.

Lemma src_fix_codes_seen cfg l :
  seen own_fix (src_fix_codes (env_of cfg) l) =
  match fix_codes cfg l with Ok (l', b) => Ok (l', flag b) | Err e => Err e | Crash c => Crash c end.
Proof.
  rewrite src_fix_codes_eq. unfold fix_codes.
  destruct (lg_lookup (cfg_iso639 cfg) (l_lang l)) as [ll|]; [|reflexivity].
  destruct (l_terr l) as [cc|]; [|reflexivity].
  destruct (lookup_territory_code cfg cc) as [cc'|]; [|reflexivity].
  destruct (negb (lg_eqb cc' cc)); reflexivity.
Qed.

Lemma lg_eqb_sym a b : lg_eqb a b = lg_eqb b a.
Proof.
  destruct (lg_eqb a b) eqn:H1; destruct (lg_eqb b a) eqn:H2; try reflexivity.
  - apply lg_eqb_spec in H1. subst. rewrite lg_eqb_refl in H2. discriminate.
  - apply lg_eqb_spec in H2. subst. rewrite lg_eqb_refl in H1. discriminate.
Qed.

Lemma mkLang_eta l : mkLang (l_lang l) (l_terr l) (l_enc l) (l_mod l) = l.
Proof. destruct l; reflexivity. Qed.

Lemma src_remove_encoding_eq E l :
  src_remove_encoding E l = LRet (fst (remove_encoding l), flag (snd (remove_encoding l))).
Proof.
  unfold src_remove_encoding, remove_encoding. destruct l as [ll cc [en|] md]; reflexivity.
Qed.

Lemma src_remove_nonlinguistic_modifier_eq E l :
  src_remove_nonlinguistic_modifier E l =
  LRet (fst (remove_nonlinguistic_modifier l), flag (snd (remove_nonlinguistic_modifier l))).
Proof.
  unfold src_remove_nonlinguistic_modifier, remove_nonlinguistic_modifier.
  destruct l as [ll cc en [md|]]; cbn [l_lang l_terr l_enc l_mod opt_eqb]; [|reflexivity].
  change [101; 117; 114; 111] with s_euro. rewrite ?(lg_eqb_sym s_euro md). destruct (lg_eqb md s_euro); reflexivity.
Qed.

(* ---------- get_language_for_name ---------- *)
Definition of_hit {S} (o : outcome language lookup_err) : lres S language :=
  match o with Ok l => LRet l | Err _ => LExc XLookupError | Crash _ => LExc XLanguageSyntaxError end.

(* try: return parse(_name_to_code[key])  except KeyError / LookupError: pass *)
Lemma try_hit_eq cfg (h : pyx) key : h = XKeyError \/ h = XLookupError ->
  ltry (match lg_lookup (pe_names (env_of cfg)) key with
        | None => LExc XKeyError
        | Some code => lcall (src_parse_language (env_of cfg) code) (fun v => LRet v)
        end)
       (fun e : Empty_set => match e return lres unit language with end)
       (fun x => if catches h x then LNorm tt else LExc x)
  = match name_hit cfg key with Some o => of_hit o | None => LNorm tt end.
Proof.
  intros Hh. unfold name_hit, parse_code. cbn [pe_names env_of].
  destruct (lg_lookup (cfg_names cfg) key) as [code|].
  - rewrite src_parse_language_eq. destruct (parse_language code) as [l|e|c] eqn:Hp; cbn [of_parse lcall ltry of_hit].
    + reflexivity.
    + destruct Hh; subst h; reflexivity.
    + exfalso. exact (parse_no_crash _ _ Hp).
  - destruct Hh; subst h; reflexivity.
Qed.

Lemma lfor_first_hit cfg (body : str -> unit -> lres unit language) :
  (forall sub u, body sub u = match name_hit cfg (lg_strip sub) with Some o => of_hit o | None => LNorm tt end) ->
  forall subs, lfor subs tt body = match first_hit cfg subs with Some o => of_hit o | None => LNorm tt end.
Proof.
  intros Hb. induction subs as [|s r IH]; [reflexivity|].
  cbn [lfor first_hit]. rewrite Hb. destruct (name_hit cfg (lg_strip s)) as [o|].
  - destruct o; reflexivity.
  - cbn [lbind]. exact IH.
Qed.

(* the set of codes found for the comma-separated parts *)
Definition add_code (rs : list str) (c : str) : list str := sset_add c rs.

Lemma lfor_found cfg (body : str -> list str -> lres (list str) language) :
  (forall sub rs, body sub rs = LNorm (match lg_lookup (cfg_names cfg) (lg_strip sub) with Some c => sset_add c rs | None => rs end)) ->
  forall subs rs, lfor subs rs body = LNorm (fold_left add_code (found_codes cfg subs) rs).
Proof.
  intros Hb. induction subs as [|s r IH]; intros rs; [reflexivity|].
  cbn [lfor found_codes]. rewrite Hb. cbn [lbind]. rewrite IH.
  destruct (lg_lookup (cfg_names cfg) (lg_strip s)); reflexivity.
Qed.

(* adding to a set keeps what is there, in place *)
Lemma fold_add_prefix r : forall rs, exists t, fold_left add_code r rs = rs ++ t.
Proof.
  induction r as [|x r IH]; intros rs; cbn [fold_left].
  - exists []. now rewrite app_nil_r.
  - unfold add_code at 2, sset_add. destruct (lg_mem rs x).
    + apply IH.
    + destruct (IH (rs ++ [x])) as [t Ht]. exists ([x] ++ t). rewrite Ht, <- app_assoc. reflexivity.
Qed.

Lemma fold_add_single c r :
  if forallb (lg_eqb c) r then fold_left add_code r [c] = [c]
  else exists d t, fold_left add_code r [c] = c :: d :: t.
Proof.
  induction r as [|x r IH]; cbn [forallb fold_left]; [reflexivity|].
  unfold add_code at 2 4, sset_add. cbn [lg_mem]. rewrite orb_false_r, (lg_eqb_sym x c).
  destruct (lg_eqb c x); cbn [andb].
  - exact IH.
  - destruct (fold_add_prefix r ([c] ++ [x])) as [t Ht]. exists x, t. exact Ht.
Qed.

Lemma lg_infix_single c s : lg_infix [c] s = lg_has c s.
Proof.
  unfold lg_has. induction s as [|d s IH]; [reflexivity|].
  cbn [lg_infix lg_prefix existsb]. rewrite IH. destruct (N.eqb c d); reflexivity.
Qed.

Lemma src_get_language_for_name_eq cfg name :
  src_get_language_for_name (env_of cfg) name = of_hit (get_language_for_name cfg name).
Proof.
  unfold src_get_language_for_name, get_language_for_name, lookup_munched. cbn [pe_munch env_of].
  set (nm := cfg_munch cfg name).
  rewrite (try_hit_eq cfg XKeyError nm) by (left; reflexivity).
  destruct (name_hit cfg nm) as [o|]; [destruct o; reflexivity|]. cbn [lbind].
  rewrite !lg_infix_single.
  (* what follows the `;` alternatives *)
  match goal with |- lbind _ ?k = _ => set (K := k) end.
  lazymatch goal with |- _ = of_hit (match _ with Some o => o | None => ?M end) =>
    assert (HK : K tt = of_hit M); [subst K; cbv beta | clearbody K] end.
  2:{ destruct (lg_has 59 nm); [|exact HK].
      erewrite (lfor_first_hit cfg).
      2:{ intros sub u. cbv zeta. rewrite (try_hit_eq cfg XLookupError) by (right; reflexivity).
          destruct (name_hit cfg (lg_strip sub)) as [o|]; [destruct o|]; reflexivity. }
      destruct (first_hit cfg (lg_split 59 nm)) as [o|]; [destruct o; reflexivity|]. exact HK. }
  destruct (lg_has 44 nm) eqn:Hc; [|reflexivity].
  unfold py_split1. rewrite Hc. destruct (lg_split1 44 nm) as [a b]. cbn [rev app map py_join].
  rewrite (try_hit_eq cfg XLookupError) by (right; reflexivity).
  change (lg_strip b ++ [32] ++ lg_strip a) with (lg_strip b ++ 32 :: lg_strip a).
  destruct (name_hit cfg (lg_strip b ++ 32 :: lg_strip a)) as [o|]; [destruct o; reflexivity|]. cbn [lbind].
  erewrite (lfor_found cfg).
  2:{ intros sub rs. cbv zeta. cbn [pe_names env_of]. destruct (lg_lookup (cfg_names cfg) (lg_strip sub)); reflexivity. }
  cbn [lbind]. destruct (found_codes cfg (lg_split 44 nm)) as [|c r]; [reflexivity|].
  cbn [fold_left]. change (add_code [] c) with [c].
  pose proof (fold_add_single c r) as Hs. destruct (forallb (lg_eqb c) r).
  - rewrite Hs. cbn [length sset_the lbind]. rewrite src_parse_language_eq. unfold parse_code.
    destruct (parse_language c) as [l|e|k] eqn:Hp; cbn; try reflexivity.
    exfalso. exact (parse_no_crash _ _ Hp).
  - destruct Hs as (d & t & Hs). rewrite Hs. cbn [length].
    match goal with |- context [(?z =? 1)%Z] => destruct (z =? 1)%Z eqn:Hz end; [apply Z.eqb_eq in Hz; lia|reflexivity].
Qed.

Theorem parse_code_cases code : (exists l, parse_code code = Ok l) \/ parse_code code = Crash CValueError.
Proof.
  unfold parse_code. destruct (parse_language code) as [l|e|c] eqn:H; [left; eauto|right; reflexivity|].
  exfalso. exact (parse_no_crash _ _ H).
Qed.

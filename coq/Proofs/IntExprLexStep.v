(* A readable one-step equation for the lexer model (which matches on character literals),
   proved by cases over all code points below 256 and symbolically above. *)
From Coq Require Import List ZArith Bool Lia Arith.
From I18n Require Import Lib.Outcome Model.IntExpr Spec.CPlural.
Import ListNotations.
Local Open Scope N_scope.

(* ------------------------------------------------------------------ *)
(* a readable equation for one step of `lex` (the model matches on character literals) *)

Definition lex_clean (acc : option (Z * N)) (c : N) (r : list N) : list token :=
  if is_digit c then
    let d := Z.of_N (c - 48) in
    match acc with
    | Some (z, k) => lex (Some ((z * 10 + d)%Z, k + 1)) r
    | None => lex (Some (d, 1)) r
    end
  else if (c =? 32) || (c =? 9) then flush acc (lex None r)
  else if c =? 63 then flush acc (TIf :: lex None r)
  else if c =? 58 then flush acc (TElse :: lex None r)
  else if c =? 124 then (if peek r =? 124 then flush acc (TOr :: lex None (tl r)) else flush acc [TBad])
  else if c =? 38 then (if peek r =? 38 then flush acc (TAnd :: lex None (tl r)) else flush acc [TBad])
  else if c =? 61 then (if peek r =? 61 then flush acc (TEq false :: lex None (tl r)) else flush acc [TBad])
  else if c =? 33 then (if peek r =? 61 then flush acc (TEq true :: lex None (tl r)) else flush acc (TNot :: lex None r))
  else if c =? 60 then (if peek r =? 61 then flush acc (TCmp CLe :: lex None (tl r)) else flush acc (TCmp CLt :: lex None r))
  else if c =? 62 then (if peek r =? 61 then flush acc (TCmp CGe :: lex None (tl r)) else flush acc (TCmp CGt :: lex None r))
  else if c =? 43 then flush acc (TAddSub false :: lex None r)
  else if c =? 45 then flush acc (TAddSub true :: lex None r)
  else if c =? 42 then flush acc (TMulDiv Mult :: lex None r)
  else if c =? 47 then flush acc (TMulDiv Div :: lex None r)
  else if c =? 37 then flush acc (TMulDiv Mod :: lex None r)
  else if c =? 40 then flush acc (TLpar :: lex None r)
  else if c =? 41 then flush acc (TRpar :: lex None r)
  else if c =? 110 then flush acc (TVar :: lex None r)
  else flush acc [TBad].

(* all code points up to 8 bits by cases, the rest symbolically (every literal is < 128) *)
Ltac bits n p :=
  lazymatch n with
  | O => idtac
  | S ?m => destruct p as [p|p|]; [bits m p|bits m p|idtac]
  end.
Ltac by_char c := destruct c as [|c]; [|bits 8%nat c].

Lemma lex_cons acc c r : lex acc (c :: r) = lex_clean acc c r.
Proof.
  cbn [lex]. unfold lex_clean. destruct (is_digit c); [reflexivity|]. cbv zeta.
  by_char c; try reflexivity;
    (destruct r as [|c' r']; [reflexivity|]); unfold peek; cbn [hd tl];
    by_char c'; reflexivity.
Qed.


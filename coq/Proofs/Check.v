(* Lemmas about Model/Check.v, the orchestration Checker.check() (the theorems re-exported by Props/C01.v and Props/C09.v).
   The loaders and os.stat are universally quantified oracles: every statement holds whatever they do. *)
From Coq Require Import List NArith ZArith Bool Lia.
From Coq Require String.
From I18n Require Import Model.Tags Model.Check.
Import String.StringSyntax.
Import ListNotations.
Local Open Scope N_scope.

(* ------------------------------------------------------------------ strings *)
Lemma text_eqb_eq : forall a b, text_eqb a b = true <-> a = b.
Proof.
  induction a as [|x a IH]; intros [|y b]; cbn [text_eqb]; split; intros H; try discriminate; try reflexivity.
  - apply andb_true_iff in H. destruct H as [Hx Hr]. apply N.eqb_eq in Hx. apply IH in Hr. now subst.
  - injection H as -> ->. rewrite N.eqb_refl. cbn. now apply IH.
Qed.

Lemma text_eqb_refl : forall a, text_eqb a a = true.
Proof. intros a. now apply text_eqb_eq. Qed.

Lemma starts_with_spec : forall p s, starts_with p s = true <-> exists t, s = p ++ t.
Proof.
  induction p as [|x p IH]; intros s; cbn [starts_with].
  - split; [intros _; now exists s | reflexivity].
  - destruct s as [|y s].
    + split; [discriminate | intros [t Ht]; discriminate].
    + rewrite andb_true_iff, N.eqb_eq, IH. split.
      * intros [-> [t ->]]. now exists t.
      * intros [t Ht]. cbn in Ht. injection Ht as -> ->. split; [reflexivity | now exists t].
Qed.

Lemma skipn_app_exact : forall (A : Type) (p t : list A), skipn (length p) (p ++ t) = t.
Proof. induction p; intros t; cbn; [reflexivity | apply IHp]. Qed.

(* ------------------------------------------------------------------ the dispatch *)
Definition known_ext (ext : text) : Prop :=
  ext = lit ".po" \/ ext = lit ".pot" \/ ext = lit ".mo" \/ ext = lit ".gmo".

Lemma dispatch_spec : forall ext c t b,
  dispatch ext = Some (c, t, b) <->
  (ext = lit ".po" /\ c = Pofile /\ t = false /\ b = false) \/
  (ext = lit ".pot" /\ c = Pofile /\ t = true /\ b = false) \/
  ((ext = lit ".mo" \/ ext = lit ".gmo") /\ c = Mofile /\ t = false /\ b = true).
Proof.
  intros ext c t b. unfold dispatch.
  match goal with |- context [if text_eqb ext ?l then _ else _] => destruct (text_eqb ext l) eqn:E1 end.
  { apply text_eqb_eq in E1. subst ext. split.
    - intros H. injection H as <- <- <-. left. repeat split.
    - intros [(_ & -> & -> & ->)|[(H & _)|([H|H] & _)]]; [reflexivity | discriminate H | discriminate H | discriminate H]. }
  match goal with |- context [if text_eqb ext ?l then _ else _] => destruct (text_eqb ext l) eqn:E2 end.
  { apply text_eqb_eq in E2. subst ext. split.
    - intros H. injection H as <- <- <-. right. left. repeat split.
    - intros [(H & _)|[(_ & -> & -> & ->)|([H|H] & _)]]; [discriminate H | reflexivity | discriminate H | discriminate H]. }
  match goal with |- context [text_eqb ext ?l || _] => destruct (text_eqb ext l) eqn:E3 end.
  { apply text_eqb_eq in E3. subst ext. cbn [orb]. split.
    - intros H. injection H as <- <- <-. right. right. split; [left; reflexivity | repeat split].
    - intros [(H & _)|[(H & _)|(_ & -> & -> & ->)]]; [discriminate H | discriminate H | reflexivity]. }
  cbn [orb]. match goal with |- context [if text_eqb ext ?l then _ else _] => destruct (text_eqb ext l) eqn:E4 end.
  { apply text_eqb_eq in E4. subst ext. split.
    - intros H. injection H as <- <- <-. right. right. split; [right; reflexivity | repeat split].
    - intros [(H & _)|[(H & _)|(_ & -> & -> & ->)]]; [discriminate H | discriminate H | reflexivity]. }
  split; [discriminate|].
  intros [(H & _)|[(H & _)|([H|H] & _)]]; subst ext.
  - now rewrite text_eqb_refl in E1.
  - now rewrite text_eqb_refl in E2.
  - now rewrite text_eqb_refl in E3.
  - now rewrite text_eqb_refl in E4.
Qed.

Lemma dispatch_some_iff : forall ext, (exists c t b, dispatch ext = Some (c, t, b)) <-> known_ext ext.
Proof.
  intros ext. unfold known_ext. split.
  - intros (c & t & b & H). apply dispatch_spec in H. tauto.
  - intros [H|[H|[H|H]]].
    + exists Pofile, false, false. apply dispatch_spec. tauto.
    + exists Pofile, true, false. apply dispatch_spec. tauto.
    + exists Mofile, false, true. apply dispatch_spec. tauto.
    + exists Mofile, false, true. apply dispatch_spec. tauto.
Qed.

Lemma dispatch_none_iff : forall ext, dispatch ext = None <-> ~ known_ext ext.
Proof.
  intros ext. rewrite <- dispatch_some_iff. destruct (dispatch ext) as [[[c t] b]|].
  - split; [discriminate | intros H; exfalso; apply H; now exists c, t, b].
  - split; [intros _ (c & t & b & H); discriminate | reflexivity].
Qed.

(* --file-type overrides the path *)
Lemma extension_file_type : forall t path, extension (Some t) path = dot :: t.
Proof. reflexivity. Qed.

Lemma extension_no_file_type : forall path, extension None path = splitext_ext path.
Proof. reflexivity. Qed.

(* ------------------------------------------------------------------ the shape of check() *)
Definition end_of (t b reset : bool) (fl : flow) : ending :=
  match fl with FProceed => RunSubchecks t b reset | FReturn => Returned | FRaise e => Raised e end.

Definition is_decode_error (r : load_result) : bool :=
  match r with LDecodeError _ _ _ => true | _ => false end.

(* the outcome that the clauses of the outer try see *)
Definition last_attempt (load : loader -> option text -> load_result) (c : loader) : load_result :=
  match load c None with LDecodeError _ _ _ => load c (Some latin1) | r => r end.

Lemma last_attempt_decode : forall load c o s e,
  last_attempt load c = LDecodeError o s e ->
  is_decode_error (load c None) = true /\ load c (Some latin1) = LDecodeError o s e.
Proof.
  intros load c o s e. unfold last_attempt. destruct (load c None) eqn:E; intros H; try discriminate H.
  split; [reflexivity | exact H].
Qed.

Definition broken_events (upper : text -> text) (r : load_result) : list event :=
  match r with LDecodeError o s e => [broken_event upper o s e] | _ => [] end.

Definition calls_of (load : loader -> option text -> load_result) (c : loader) : list (loader * option text) :=
  (c, None) :: (if is_decode_error (load c None) then [(c, Some latin1)] else []).

Lemma check_top_loaded : forall upper ft path load c t b,
  dispatch (extension ft path) = Some (c, t, b) ->
  check_top upper StatOk ft path load =
  Res (fst (handlers path (last_attempt load c)) ++ broken_events upper (load c None))
      (calls_of load c)
      (end_of t b (is_decode_error (load c None)) (snd (handlers path (last_attempt load c)))).
Proof.
  intros upper ft path load c t b D. unfold check_top. rewrite D.
  unfold attempts, last_attempt, calls_of, broken_events.
  destruct (load c None) eqn:E1; cbn [is_decode_error];
    match goal with |- context [handlers path ?r] => destruct (handlers path r) as [hev fl] end;
    cbn [fst snd]; destruct fl; reflexivity.
Qed.

Lemma check_top_unknown : forall upper ft path load,
  dispatch (extension ft path) = None ->
  check_top upper StatOk ft path load = Res [Ev (lit "unknown-file-type") []] [] Returned.
Proof. intros upper ft path load D. unfold check_top. rewrite D. reflexivity. Qed.

Lemma check_top_stat_oserror : forall upper se ft path load,
  check_top upper (StatOSError se) ft path load = Res [Ev (lit "os-error") [ASafe se]] [] Returned.
Proof. reflexivity. Qed.

Lemma check_top_stat_other : forall upper n ft path load,
  check_top upper (StatOther n) ft path load = Res [] [] (Raised (RExc n)).
Proof. reflexivity. Qed.

(* ------------------------------------------------------------------ exception flow *)
(* the outcomes of the last attempt that no clause turns into a tag, with what propagates *)
Definition escapes (r : load_result) (e : raised) : Prop :=
  match r with
  | LOther n => e = RExc n
  | LOSNoErrno m => starts_with po_prefix m = false /\ e = ROSError m
  | LDecodeError _ _ _ => e = RUnicodeDecodeError          (* only the retry can be the last attempt with this outcome *)
  | LFile | LMoSyntax _ | LOSErrno _ => False
  end.

Lemma handlers_raise_iff : forall path r e, snd (handlers path r) = FRaise e <-> escapes r e.
Proof.
  intros path r e. destruct r; cbn [handlers snd escapes]; try (split; [discriminate | intros []]).
  - split; [intros H; now injection H as <- | intros ->; reflexivity].
  - destruct (starts_with po_prefix message) eqn:E; cbn [snd].
    + split; [discriminate | intros [H _]; discriminate].
    + split; [intros H; injection H as <-; now split | intros [_ ->]; reflexivity].
  - split; [intros H; now injection H as <- | intros ->; reflexivity].
Qed.

Lemma handlers_proceed_iff : forall path r, snd (handlers path r) = FProceed <-> r = LFile.
Proof.
  intros path r. destruct r; cbn [handlers snd]; try (split; discriminate); [tauto|].
  destruct (starts_with po_prefix message); cbn [snd]; split; discriminate.
Qed.

Theorem check_top_raises_iff : forall upper st ft path load e,
  r_end (check_top upper st ft path load) = Raised e <->
  (exists n, st = StatOther n /\ e = RExc n) \/
  (st = StatOk /\ exists c t b, dispatch (extension ft path) = Some (c, t, b) /\ escapes (last_attempt load c) e).
Proof.
  intros upper st ft path load e. destruct st as [|se|n].
  - destruct (dispatch (extension ft path)) as [[[c t] b]|] eqn:D.
    + rewrite (check_top_loaded _ _ _ _ _ _ _ D). cbn [r_end]. split.
      * intros H. right. split; [reflexivity|]. exists c, t, b. split; [reflexivity|].
        apply (handlers_raise_iff path). destruct (snd (handlers path (last_attempt load c))); cbn [end_of] in H; try discriminate H.
        now injection H as ->.
      * intros [(n & H & _)|(_ & c' & t' & b' & H & He)]; [discriminate H|]. injection H as <- <- <-.
        apply (handlers_raise_iff path) in He. now rewrite He.
    + rewrite (check_top_unknown _ _ _ _ D). cbn [r_end]. split; [discriminate|].
      intros [(n & H & _)|(_ & c' & t' & b' & H & _)]; discriminate H.
  - rewrite check_top_stat_oserror. cbn [r_end]. split; [discriminate|].
    intros [(n & H & _)|(H & _)]; discriminate H.
  - rewrite check_top_stat_other. cbn [r_end]. split.
    + intros H. injection H as <-. left. now exists n.
    + intros [(n' & H & ->)|(H & _)]; [now injection H as -> | discriminate H].
Qed.

(* in every other case check() returns normally: either before the sub-checks or after running them *)
Theorem check_top_returns_unless : forall upper st ft path load,
  (forall n, st <> StatOther n) ->
  (forall c e, ~ escapes (last_attempt load c) e) ->
  r_end (check_top upper st ft path load) = Returned \/
  exists t b reset, r_end (check_top upper st ft path load) = RunSubchecks t b reset.
Proof.
  intros upper st ft path load Hst Hesc.
  destruct (r_end (check_top upper st ft path load)) as [|t b r|e] eqn:E.
  - now left.
  - right. now exists t, b, r.
  - exfalso. apply check_top_raises_iff in E. destruct E as [(n & H & _)|(_ & c & t & b & _ & H)].
    + exact (Hst n H).
    + exact (Hesc c e H).
Qed.

(* the sub-checks run exactly when the last attempt returned a file; the flags *)
Theorem check_top_runs_iff : forall upper st ft path load t b reset,
  r_end (check_top upper st ft path load) = RunSubchecks t b reset <->
  st = StatOk /\ exists c, dispatch (extension ft path) = Some (c, t, b) /\ last_attempt load c = LFile /\
                         reset = is_decode_error (load c None).
Proof.
  intros upper st ft path load t b reset. destruct st as [|se|n].
  - destruct (dispatch (extension ft path)) as [[[c t'] b']|] eqn:D.
    + rewrite (check_top_loaded _ _ _ _ _ _ _ D). cbn [r_end]. split.
      * intros H. split; [reflexivity|]. exists c.
        destruct (snd (handlers path (last_attempt load c))) eqn:F; cbn [end_of] in H; try discriminate H.
        injection H as -> -> <-. apply handlers_proceed_iff in F. repeat split; assumption.
      * intros (_ & c' & H & L & ->). injection H as <- <- <-.
        apply (handlers_proceed_iff path) in L. now rewrite L.
    + rewrite (check_top_unknown _ _ _ _ D). cbn [r_end]. split; [discriminate|]. intros (_ & c' & H & _). discriminate H.
  - rewrite check_top_stat_oserror. cbn [r_end]. split; [discriminate | intros (H & _); discriminate H].
  - rewrite check_top_stat_other. cbn [r_end]. split; [discriminate | intros (H & _); discriminate H].
Qed.

Corollary check_top_flags : forall upper st ft path load t b reset,
  r_end (check_top upper st ft path load) = RunSubchecks t b reset ->
  (t = true <-> extension ft path = lit ".pot") /\
  (b = true <-> (extension ft path = lit ".mo" \/ extension ft path = lit ".gmo")) /\
  (reset = true <-> exists c o s e, load c None = LDecodeError o s e /\ In (c, None) (r_calls (check_top upper st ft path load))).
Proof.
  intros upper st ft path load t b reset H. pose proof H as H0.
  apply check_top_runs_iff in H. destruct H as (-> & c & D & L & ->).
  pose proof D as D'. apply dispatch_spec in D'. split; [|split].
  - destruct D' as [(E & _ & -> & _)|[(E & _ & -> & _)|([E|E] & _ & -> & _)]]; rewrite E; split; try discriminate; reflexivity.
  - destruct D' as [(E & _ & _ & ->)|[(E & _ & _ & ->)|([E|E] & _ & _ & ->)]]; rewrite E; split; try discriminate; try tauto.
    + intros [X|X]; discriminate X.
    + intros [X|X]; discriminate X.
  - rewrite (check_top_loaded _ _ _ _ _ _ _ D). cbn [r_calls]. split.
    + intros R. destruct (load c None) eqn:E; try discriminate R. exists c, obj, start, enc. split; [exact E | left; reflexivity].
    + intros (c' & o & s & e & E & [X|X]).
      * injection X as <-. now rewrite E.
      * destruct (is_decode_error (load c None)); [|destruct X]. destruct X as [X|[]]. discriminate X.
Qed.

(* ------------------------------------------------------------------ the constructor calls *)
Theorem check_top_calls : forall upper st ft path load,
  r_calls (check_top upper st ft path load) =
  match st, dispatch (extension ft path) with
  | StatOk, Some (c, _, _) => calls_of load c
  | _, _ => []
  end.
Proof.
  intros upper st ft path load. destruct st as [|se|n]; [|reflexivity|reflexivity].
  destruct (dispatch (extension ft path)) as [[[c t] b]|] eqn:D.
  - now rewrite (check_top_loaded _ _ _ _ _ _ _ D).
  - now rewrite (check_top_unknown _ _ _ _ D).
Qed.

Theorem loader_called_iff : forall upper st ft path load,
  r_calls (check_top upper st ft path load) <> [] <-> st = StatOk /\ known_ext (extension ft path).
Proof.
  intros upper st ft path load. rewrite check_top_calls, <- dispatch_some_iff.
  destruct st as [|se|n].
  - destruct (dispatch (extension ft path)) as [[[c t] b]|].
    + split; [intros _; split; [reflexivity | now exists c, t, b] | intros _; discriminate].
    + split; [intros H; now elim H | intros (_ & c & t & b & H); discriminate H].
  - split; [intros H; now elim H | intros (H & _); discriminate H].
  - split; [intros H; now elim H | intros (H & _); discriminate H].
Qed.

(* which constructor, with which encoding= keyword, how many times *)
Theorem loader_calls_shape : forall upper st ft path load c enc,
  In (c, enc) (r_calls (check_top upper st ft path load)) ->
  (enc = None \/ (enc = Some latin1 /\ is_decode_error (load c None) = true)) /\
  (c = Pofile <-> (extension ft path = lit ".po" \/ extension ft path = lit ".pot")) /\
  (c = Mofile <-> (extension ft path = lit ".mo" \/ extension ft path = lit ".gmo")).
Proof.
  intros upper st ft path load c enc. rewrite check_top_calls.
  destruct st as [|se|n]; [|intros []|intros []].
  destruct (dispatch (extension ft path)) as [[[c' t] b]|] eqn:D; [|intros []].
  unfold calls_of. intros H.
  assert (Hc : c = c' /\ (enc = None \/ (enc = Some latin1 /\ is_decode_error (load c None) = true))).
  { destruct H as [H|H]; [injection H as <- <-; split; [reflexivity | now left]|].
    destruct (is_decode_error (load c' None)) eqn:E; [|destruct H].
    destruct H as [H|[]]. injection H as <- <-. split; [reflexivity | right; now split]. }
  destruct Hc as [-> He]. split; [exact He|].
  apply dispatch_spec in D.
  destruct D as [(E & -> & _)|[(E & -> & _)|([E|E] & -> & _)]]; rewrite E; split; split; intros X; try reflexivity; try discriminate X;
    try (destruct X as [X|X]; discriminate X); tauto.
Qed.

Lemma calls_length : forall upper st ft path load, (length (r_calls (check_top upper st ft path load)) <= 2)%nat.
Proof.
  intros. rewrite check_top_calls. destruct st; cbn; try lia.
  destruct (dispatch (extension ft path)) as [[[c t] b]|]; cbn; [|lia].
  destruct (is_decode_error (load c None)); cbn; lia.
Qed.

(* ------------------------------------------------------------------ tags *)
Definition has_tag (t : text) (evs : list event) : bool := existsb (fun e => text_eqb (ev_tag e) t) evs.
Definition count_tag (t : text) (evs : list event) : nat := length (filter (fun e => text_eqb (ev_tag e) t) evs).

Lemma has_tag_app : forall t a b, has_tag t (a ++ b) = has_tag t a || has_tag t b.
Proof. intros. unfold has_tag. apply existsb_app. Qed.

Lemma count_tag_app : forall t a b, count_tag t (a ++ b) = (count_tag t a + count_tag t b)%nat.
Proof. intros. unfold count_tag. now rewrite filter_app, app_length. Qed.

(* the tag of the handler's event (if any) names the outcome of the last attempt *)
Lemma handlers_events : forall path r,
  match r with
  | LMoSyntax m => fst (handlers path r) = [Ev (lit "invalid-mo-file") [ASafe m]] /\ snd (handlers path r) = FReturn
  | LOSErrno se => fst (handlers path r) = [Ev (lit "os-error") [ASafe se]] /\ snd (handlers path r) = FReturn
  | LOSNoErrno m =>
    if starts_with po_prefix m
    then fst (handlers path r) = [Ev (lit "syntax-error-in-po-file") (po_error_args path m)] /\ snd (handlers path r) = FReturn
    else fst (handlers path r) = []
  | _ => fst (handlers path r) = []
  end.
Proof.
  intros path r. destruct r; cbn [handlers fst snd]; try reflexivity; try (split; reflexivity).
  destruct (starts_with po_prefix message); cbn [fst snd]; [split|]; reflexivity.
Qed.

Lemma handlers_length : forall path r, (length (fst (handlers path r)) <= 1)%nat.
Proof.
  intros path r. destruct r; cbn [handlers fst length]; try lia.
  destruct (starts_with po_prefix message); cbn; lia.
Qed.

Lemma handlers_no_broken : forall path r, has_tag (lit "broken-encoding") (fst (handlers path r)) = false.
Proof.
  intros path r. destruct r; cbn [handlers fst]; try reflexivity.
  destruct (starts_with po_prefix message); reflexivity.
Qed.

Lemma handlers_has_invalid_mo : forall path r,
  has_tag (lit "invalid-mo-file") (fst (handlers path r)) = true <-> exists m, r = LMoSyntax m.
Proof.
  intros path r. destruct r; cbn [handlers fst]; try (split; [discriminate | intros [m H]; discriminate H]).
  - split; [intros _; now exists msg | reflexivity].
  - destruct (starts_with po_prefix message); cbn [fst]; split; try discriminate; intros [m H]; discriminate H.
Qed.

Lemma broken_events_has : forall upper r t, t <> lit "broken-encoding" -> has_tag t (broken_events upper r) = false.
Proof.
  intros upper r t Ht. destruct r; try reflexivity. cbn [broken_events has_tag existsb broken_event ev_tag].
  rewrite orb_false_r. destruct (text_eqb _ t) eqn:E; [|reflexivity]. apply text_eqb_eq in E. now elim Ht.
Qed.

(* ---- unknown-file-type *)
Theorem unknown_file_type_iff : forall upper st ft path load,
  has_tag (lit "unknown-file-type") (r_events (check_top upper st ft path load)) = true <->
  st = StatOk /\ ~ known_ext (extension ft path).
Proof.
  intros upper st ft path load. rewrite <- dispatch_none_iff. destruct st as [|se|n].
  - destruct (dispatch (extension ft path)) as [[[c t] b]|] eqn:D.
    + rewrite (check_top_loaded _ _ _ _ _ _ _ D). cbn [r_events]. rewrite has_tag_app, broken_events_has by discriminate.
      rewrite orb_false_r. split; [|intros (_ & H); discriminate H].
      destruct (last_attempt load c); cbn [handlers fst]; try discriminate.
      destruct (starts_with po_prefix message); discriminate.
    + rewrite (check_top_unknown _ _ _ _ D). split; [now split | reflexivity].
  - split; [discriminate | intros (H & _); discriminate H].
  - split; [discriminate | intros (H & _); discriminate H].
Qed.

(* ... and then it is the only thing that happens (C17: what is not a catalog yields nothing else) *)
Theorem unknown_file_type_alone : forall upper ft path load,
  ~ known_ext (extension ft path) ->
  check_top upper StatOk ft path load = Res [Ev (lit "unknown-file-type") []] [] Returned.
Proof. intros upper ft path load H. apply check_top_unknown. now apply dispatch_none_iff. Qed.

(* ---- rejected MO file (C09) *)
Theorem mo_rejection : forall upper ft path load c t b m,
  dispatch (extension ft path) = Some (c, t, b) ->
  last_attempt load c = LMoSyntax m ->
  let r := check_top upper StatOk ft path load in
  r_end r = Returned /\
  match load c None with
  | LDecodeError o s e => r_events r = [Ev (lit "invalid-mo-file") [ASafe m]; broken_event upper o s e]
  | _ => r_events r = [Ev (lit "invalid-mo-file") [ASafe m]]
  end.
Proof.
  intros upper ft path load c t b m D L r. subst r. rewrite (check_top_loaded _ _ _ _ _ _ _ D), L.
  cbn [r_end r_events handlers fst snd end_of]. split; [reflexivity|].
  destruct (load c None); reflexivity.
Qed.

Theorem invalid_mo_file_iff : forall upper st ft path load,
  has_tag (lit "invalid-mo-file") (r_events (check_top upper st ft path load)) = true <->
  st = StatOk /\ exists c t b m, dispatch (extension ft path) = Some (c, t, b) /\ last_attempt load c = LMoSyntax m.
Proof.
  intros upper st ft path load. destruct st as [|se|n].
  - destruct (dispatch (extension ft path)) as [[[c t] b]|] eqn:D.
    + rewrite (check_top_loaded _ _ _ _ _ _ _ D). cbn [r_events]. rewrite has_tag_app, broken_events_has by discriminate.
      rewrite orb_false_r, handlers_has_invalid_mo. split.
      * intros [m H]. split; [reflexivity|]. now exists c, t, b, m.
      * intros (_ & c' & t' & b' & m & H & L). injection H as <- <- <-. now exists m.
    + rewrite (check_top_unknown _ _ _ _ D). split; [discriminate | intros (_ & c & t & b & m & H & _); discriminate H].
  - split; [discriminate | intros (H & _); discriminate H].
  - split; [discriminate | intros (H & _); discriminate H].
Qed.

(* ---- broken-encoding *)
Theorem broken_encoding_iff : forall upper st ft path load,
  has_tag (lit "broken-encoding") (r_events (check_top upper st ft path load)) = true <->
  st = StatOk /\ exists c t b, dispatch (extension ft path) = Some (c, t, b) /\ is_decode_error (load c None) = true.
Proof.
  intros upper st ft path load. destruct st as [|se|n].
  - destruct (dispatch (extension ft path)) as [[[c t] b]|] eqn:D.
    + rewrite (check_top_loaded _ _ _ _ _ _ _ D). cbn [r_events]. rewrite has_tag_app, handlers_no_broken. cbn [orb]. split.
      * intros H. split; [reflexivity|]. exists c, t, b. split; [reflexivity|]. destruct (load c None); try discriminate H. reflexivity.
      * intros (_ & c' & t' & b' & H & L). injection H as <- <- <-. destruct (load c None); try discriminate L. reflexivity.
    + rewrite (check_top_unknown _ _ _ _ D). split; [discriminate | intros (_ & c & t & b & H & _); discriminate H].
  - split; [discriminate | intros (H & _); discriminate H].
  - split; [discriminate | intros (H & _); discriminate H].
Qed.

(* exactly once, after the tag of an except clause (at most one), with the window and the upper-cased encoding name *)
Theorem broken_encoding_once_last : forall upper ft path load c t b o s e,
  dispatch (extension ft path) = Some (c, t, b) ->
  load c None = LDecodeError o s e ->
  let r := check_top upper StatOk ft path load in
  exists hev, r_events r = hev ++ [Ev (lit "broken-encoding") [ABytes (window o s); ASafe (lit "cannot be decoded as"); AStr (upper e)]] /\
              (length hev <= 1)%nat /\ has_tag (lit "broken-encoding") hev = false /\
              count_tag (lit "broken-encoding") (r_events r) = 1%nat /\
              hev = fst (handlers path (load c (Some latin1))).
Proof.
  intros upper ft path load c t b o s e D L r. subst r. rewrite (check_top_loaded _ _ _ _ _ _ _ D).
  unfold last_attempt. rewrite L. cbn [r_events broken_events].
  exists (fst (handlers path (load c (Some latin1)))). split; [reflexivity|]. split; [apply handlers_length|].
  split; [apply handlers_no_broken|]. split; [|reflexivity].
  rewrite count_tag_app. pose proof (handlers_no_broken path (load c (Some latin1))) as H.
  assert (C0 : count_tag (lit "broken-encoding") (fst (handlers path (load c (Some latin1)))) = 0%nat).
  { unfold has_tag in H. unfold count_tag. destruct (load c (Some latin1)); cbn [handlers fst] in *; try reflexivity.
    destruct (starts_with po_prefix message); reflexivity. }
  rewrite C0. reflexivity.
Qed.

Theorem no_broken_encoding_otherwise : forall upper ft path load c t b,
  dispatch (extension ft path) = Some (c, t, b) ->
  is_decode_error (load c None) = false ->
  r_events (check_top upper StatOk ft path load) = fst (handlers path (load c None)).
Proof.
  intros upper ft path load c t b D L. rewrite (check_top_loaded _ _ _ _ _ _ _ D). cbn [r_events]. unfold last_attempt.
  destruct (load c None); try discriminate L; cbn [broken_events]; now rewrite app_nil_r.
Qed.

(* ------------------------------------------------------------------ the window of broken-encoding *)
Lemma firstn_add : forall (A : Type) (n m : nat) (l : list A), firstn (n + m) l = firstn n l ++ firstn m (skipn n l).
Proof.
  induction n as [|n IH]; intros m l; [reflexivity|].
  destruct l as [|x l]; cbn [Nat.add firstn skipn app].
  - now rewrite firstn_nil.
  - now rewrite IH.
Qed.

Lemma skipn_add : forall (A : Type) (n m : nat) (l : list A), skipn (n + m) l = skipn m (skipn n l).
Proof.
  induction n as [|n IH]; intros m l; [reflexivity|].
  destruct l as [|x l]; cbn [Nat.add skipn]; [now rewrite skipn_nil | apply IH].
Qed.

Lemma window_nonneg : forall obj start, (0 <= start)%Z ->
  window obj start = firstn (Z.to_nat (start + 40 - Z.max (start - 40) 0)) (skipn (Z.to_nat (Z.max (start - 40) 0)) obj).
Proof.
  intros obj start H. unfold window, py_slice.
  assert (E : (start + 40 <? 0)%Z = false) by (apply Z.ltb_ge; lia). now rewrite E.
Qed.

(* the (at most) 40 bytes before the offending position, then the (at most) 40 bytes from it on *)
Theorem window_spec : forall obj start, (0 <= start)%Z ->
  window obj start = skipn (Z.to_nat (start - 40)) (firstn (Z.to_nat start) obj) ++ firstn 40 (skipn (Z.to_nat start) obj).
Proof.
  intros obj start H. rewrite (window_nonneg _ _ H).
  destruct (Z.le_gt_cases start 40) as [Hs|Hs].
  - replace (Z.max (start - 40) 0) with 0%Z by lia. replace (Z.to_nat (start - 40)) with 0%nat by lia.
    cbn [Z.to_nat skipn]. replace (Z.to_nat (start + 40 - 0)) with (Z.to_nat start + 40)%nat by lia.
    apply firstn_add.
  - replace (Z.max (start - 40) 0) with (start - 40)%Z by lia.
    replace (Z.to_nat (start + 40 - (start - 40))) with (40 + 40)%nat by lia.
    set (k := Z.to_nat (start - 40)). replace (Z.to_nat start) with (k + 40)%nat by (subst k; lia).
    rewrite skipn_firstn_comm. replace (k + 40 - k)%nat with 40%nat by lia.
    rewrite skipn_add. apply firstn_add.
Qed.

Theorem window_length : forall obj start, (-40 <= start)%Z -> (length (window obj start) <= 80)%nat.
Proof.
  intros obj start H. unfold window, py_slice.
  assert (E : (start + 40 <? 0)%Z = false) by (apply Z.ltb_ge; lia). rewrite E.
  rewrite firstn_length. lia.
Qed.

(* the offending byte itself is in the window *)
Theorem window_contains_start : forall obj start, (0 <= start)%Z -> (Z.to_nat start < length obj)%nat ->
  nth_error (window obj start) (Z.to_nat (Z.min start 40)) = nth_error obj (Z.to_nat start).
Proof.
  intros obj start H Hl. rewrite (window_spec _ _ H).
  assert (Hlen : length (skipn (Z.to_nat (start - 40)) (firstn (Z.to_nat start) obj)) = Z.to_nat (Z.min start 40)).
  { rewrite skipn_length, firstn_length. lia. }
  rewrite nth_error_app2 by lia. rewrite Hlen, Nat.sub_diag.
  rewrite <- (firstn_skipn (Z.to_nat start) obj) at 2.
  rewrite nth_error_app2 by (rewrite firstn_length; lia).
  rewrite firstn_length. replace (Z.to_nat start - Nat.min (Z.to_nat start) (length obj))%nat with 0%nat by lia.
  destruct (skipn (Z.to_nat start) obj); reflexivity.
Qed.

(* ------------------------------------------------------------------ the arguments of syntax-error-in-po-file *)
Definition out_char (c : N) : bool := is_lower c || is_digit c || N.eqb c 32 || N.eqb c 58.   (* [a-z0-9 :] *)

Lemma span_spec : forall f s a b, span f s = (a, b) ->
  s = a ++ b /\ forallb f a = true /\ match b with [] => True | c :: _ => f c = false end.
Proof.
  intros f. induction s as [|c s IH]; intros a b; cbn [span].
  - intros H. injection H as <- <-. repeat split.
  - destruct (f c) eqn:E.
    + destruct (span f s) as [a' b'] eqn:S. intros H. injection H as <- <-.
      destruct (IH _ _ eq_refl) as (-> & Ha & Hb). cbn [forallb app]. rewrite E. repeat split; assumption.
    + intros H. injection H as <- <-. cbn. repeat split. exact E.
Qed.

Lemma span_app_stop : forall f a c r, forallb f a = true -> f c = false -> span f (a ++ c :: r) = (a, c :: r).
Proof.
  intros f. induction a as [|x a IH]; intros c r Ha Hc; cbn [app span].
  - now rewrite Hc.
  - cbn [forallb] in Ha. apply andb_true_iff in Ha. destruct Ha as [Hx Ha]. rewrite Hx, (IH _ _ Ha Hc). reflexivity.
Qed.

Lemma span_all : forall f a, forallb f a = true -> span f a = (a, []).
Proof.
  intros f. induction a as [|x a IH]; intros Ha; cbn [span]; [reflexivity|].
  cbn [forallb] in Ha. apply andb_true_iff in Ha. destruct Ha as [Hx Ha]. now rewrite Hx, (IH Ha).
Qed.

Definition no_newline (t : text) : bool := forallb (fun c => negb (N.eqb c 10)) t.

(* what re.fullmatch(r'\(line ([0-9]+)\)(?:: (.+))?', m) means, as an equation on m *)
Definition lineno_match (m ds : text) (o : option text) : Prop :=
  ds <> [] /\ forallb is_digit ds = true /\
  match o with
  | None => m = lit "(line " ++ ds ++ [41]
  | Some t => m = lit "(line " ++ ds ++ [41; 58; 32] ++ t /\ t <> [] /\ no_newline t = true
  end.

Theorem parse_lineno_spec : forall m ds o, parse_lineno m = Some (ds, o) <-> lineno_match m ds o.
Proof.
  intros m ds o. unfold parse_lineno, lineno_match. split.
  - destruct (starts_with _ m) eqn:P; [|discriminate].
    apply starts_with_spec in P. destruct P as [rest ->].
    change (skipn 6 (_ ++ rest)) with rest.
    destruct (span is_digit rest) as [ds' r] eqn:S. apply span_spec in S. destruct S as (-> & Hd & Hr).
    destruct ds' as [|d ds']; [discriminate|]. destruct r as [|c tail]; [discriminate|].
    destruct (N.eqb c 41) eqn:C; [|discriminate]. apply N.eqb_eq in C. subst c.
    destruct tail as [|x tail].
    + intros H. injection H as <- <-. repeat split; [discriminate | exact Hd].
    + destruct (starts_with _ (x :: tail)) eqn:P2; [|discriminate].
      apply starts_with_spec in P2. destruct P2 as [t Ht]. rewrite Ht.
      change (skipn 2 (_ ++ t)) with t. destruct t as [|y t]; [discriminate|].
      destruct (forallb _ (y :: t)) eqn:NL; [|discriminate].
      intros H. injection H as <- <-. repeat split; [discriminate | exact Hd | discriminate | exact NL].
  - intros (Hne & Hd & Ho).
    assert (Hspan : forall tail, span is_digit (ds ++ 41 :: tail) = (ds, 41 :: tail)) by (intros; now apply span_app_stop).
    destruct o as [t|].
    + destruct Ho as (-> & Ht & NL).
      replace (starts_with _ _) with true by (symmetry; apply starts_with_spec; eexists; reflexivity).
      change (skipn 6 (lit "(line " ++ ?x)) with x.
      change (ds ++ [41; 58; 32] ++ t) with (ds ++ 41 :: 58 :: 32 :: t). rewrite Hspan.
      destruct ds as [|d ds]; [now elim Hne|]. cbn [N.eqb Pos.eqb].
      change (starts_with _ (58 :: 32 :: t)) with true. cbn match.
      change (skipn 2 (58 :: 32 :: t)) with t. destruct t as [|y t]; [now elim Ht|].
      unfold no_newline in NL. now rewrite NL.
    + subst m.
      replace (starts_with _ _) with true by (symmetry; apply starts_with_spec; eexists; reflexivity).
      change (skipn 6 (lit "(line " ++ ?x)) with x. rewrite Hspan.
      destruct ds as [|d ds]; [now elim Hne|]. reflexivity.
Qed.

Lemma words_from_chars : forall s w, words_from w s = true -> forallb (fun c => is_lower c || N.eqb c 32) s = true.
Proof.
  induction s as [|c s IH]; intros w H; [reflexivity|]. cbn [words_from] in H. cbn [forallb].
  destruct (is_lower c) eqn:L; cbn [orb].
  - apply (IH _ H).
  - destruct (N.eqb c 32) eqn:S; [|discriminate]. apply andb_true_iff in H. destruct H as [_ H]. apply (IH _ H).
Qed.

(* re.fullmatch(r'[a-z]+( [a-z]+)*', s): non-empty lower-case words joined by single spaces *)
Fixpoint join_words (ws : list text) : text :=
  match ws with
  | [] => []
  | [w] => w
  | w :: r => w ++ 32 :: join_words r
  end.
Definition lower_word (w : text) : Prop := w <> [] /\ forallb is_lower w = true.

Lemma is_lower_not_space : forall c, is_lower c = true -> N.eqb c 32 = false.
Proof. intros c H. unfold is_lower in H. apply andb_true_iff in H. destruct H as [H _]. apply N.leb_le in H. apply N.eqb_neq. lia. Qed.

(* first word, then (space word)*  *)
Definition words_form (s : text) : Prop :=
  exists w ws, lower_word w /\ Forall lower_word ws /\ s = w ++ flat_map (cons 32) ws.

Lemma words_from_fwd : forall s,
  (words_from true s = true ->
     exists w ws, forallb is_lower w = true /\ Forall lower_word ws /\ s = w ++ flat_map (cons 32) ws) /\
  (words_from false s = true -> words_form s).
Proof.
  induction s as [|c s [IHt IHf]].
  - split; [|discriminate]. intros _. exists [], []. repeat split. constructor.
  - cbn [words_from]. destruct (is_lower c) eqn:L.
    + assert (X : words_from true s = true -> exists w ws, lower_word w /\ Forall lower_word ws /\ c :: s = w ++ flat_map (cons 32) ws).
      { intros H. destruct (IHt H) as (w & ws & Hw & Hws & ->). exists (c :: w), ws. split; [|split; [exact Hws | reflexivity]].
        split; [discriminate|]. cbn [forallb]. now rewrite L, Hw. }
      split; [|exact X]. intros H. destruct (X H) as (w & ws & [_ Hw] & Hws & E). now exists w, ws.
    + destruct (N.eqb c 32) eqn:S; [|split; discriminate]. apply N.eqb_eq in S. subst c. cbn [andb]. split; [|discriminate].
      intros H. destruct (IHf H) as (w & ws & Hw & Hws & ->). exists [], (w :: ws). split; [reflexivity|]. split; [now constructor | reflexivity].
Qed.

Lemma words_from_app_lower : forall w b t, forallb is_lower w = true -> w <> [] -> words_from b (w ++ t) = words_from true t.
Proof.
  induction w as [|c w IH]; intros b t Hw Hne; [now elim Hne|].
  cbn [forallb] in Hw. apply andb_true_iff in Hw. destruct Hw as [Hc Hw]. cbn [app words_from]. rewrite Hc.
  destruct w as [|c' w]; [reflexivity|]. apply IH; [exact Hw | discriminate].
Qed.

Lemma words_from_tail : forall ws, Forall lower_word ws -> words_from true (flat_map (cons 32) ws) = true.
Proof.
  induction ws as [|w ws IH]; intros H; [reflexivity|].
  inversion H as [|? ? [Hne Hw] Hws]; subst. cbn [flat_map app words_from].
  change (is_lower 32) with false. change (N.eqb 32 32) with true. cbn [andb].
  rewrite (words_from_app_lower _ _ _ Hw Hne). now apply IH.
Qed.

Theorem is_words_spec : forall s, is_words s = true <-> words_form s.
Proof.
  intros s. unfold is_words. split; [apply words_from_fwd|].
  intros (w & ws & [Hne Hw] & Hws & ->). rewrite (words_from_app_lower _ _ _ Hw Hne). now apply words_from_tail.
Qed.

Lemma is_words_chars : forall s, is_words s = true -> forallb out_char s = true.
Proof.
  intros s H. apply words_from_chars in H. apply forallb_forall. intros c Hc.
  rewrite forallb_forall in H. specialize (H c Hc). unfold out_char.
  apply orb_true_iff in H. destruct H as [H|H]; rewrite H; [reflexivity | now rewrite !orb_true_r].
Qed.

(* ---- the strip of the fixed prefix and of "<path> " *)
Lemma po_prefix_length : length po_prefix = 24%nat.
Proof. reflexivity. Qed.

Lemma po_strip_path : forall path rest, po_strip path (po_prefix ++ path ++ 32 :: rest) = rest.
Proof.
  intros path rest. unfold po_strip.
  change (skipn 24 (po_prefix ++ ?x)) with x.
  replace (starts_with (path ++ [32]) (path ++ 32 :: rest)) with true.
  - replace (length path + 1)%nat with (length (path ++ [32])) by (rewrite app_length; reflexivity).
    change (path ++ 32 :: rest) with (path ++ [32] ++ rest). rewrite app_assoc. apply skipn_app_exact.
  - symmetry. apply starts_with_spec. exists rest. now rewrite <- app_assoc.
Qed.

Lemma po_strip_other : forall path rest, (forall r, rest <> path ++ 32 :: r) -> po_strip path (po_prefix ++ rest) = rest.
Proof.
  intros path rest H. unfold po_strip. change (skipn 24 (po_prefix ++ ?x)) with x.
  destruct (starts_with (path ++ [32]) rest) eqn:E; [|reflexivity].
  apply starts_with_spec in E. destruct E as [r E]. rewrite <- app_assoc in E. now elim (H r).
Qed.

(* ---- message_parts as a function of the stripped message *)
Theorem po_error_args_spec : forall path msg,
  let m := po_strip path msg in
  (forall ds, lineno_match m ds None -> po_error_args path msg = [ASafe (lit "line " ++ ds)]) /\
  (forall ds t, lineno_match m ds (Some t) ->
     po_error_args path msg = [ASafe (lit "line " ++ ds ++ [58]); if is_words t then ASafe t else AStr t]) /\
  ((forall ds o, ~ lineno_match m ds o) -> po_error_args path msg = [AStr m]).
Proof.
  intros path msg m. subst m. unfold po_error_args. split; [|split].
  - intros ds H. apply parse_lineno_spec in H. now rewrite H.
  - intros ds t H. apply parse_lineno_spec in H. now rewrite H.
  - intros H. destruct (parse_lineno (po_strip path msg)) as [[ds o]|] eqn:E; [|reflexivity].
    apply parse_lineno_spec in E. now elim (H ds o).
Qed.

(* every safestr argument of syntax-error-in-po-file is made of [a-z0-9 :] only *)
Theorem po_error_args_safe : forall path msg s, In (ASafe s) (po_error_args path msg) -> forallb out_char s = true.
Proof.
  intros path msg s. unfold po_error_args.
  destruct (parse_lineno (po_strip path msg)) as [[ds o]|] eqn:E.
  - apply parse_lineno_spec in E. destruct E as (_ & Hd & _).
    assert (Hds : forallb out_char ds = true).
    { apply forallb_forall. intros c Hc. rewrite forallb_forall in Hd. unfold out_char. rewrite (Hd c Hc). now rewrite orb_true_r. }
    destruct o as [t|].
    + intros [H|[H|[]]].
      * injection H as <-. cbn [app forallb]. rewrite ?forallb_app, Hds. reflexivity.
      * destruct (is_words t) eqn:W; [|discriminate H]. injection H as <-. now apply is_words_chars.
    + intros [H|[]]. injection H as <-. cbn [app forallb]. rewrite ?forallb_app, Hds. reflexivity.
  - intros [H|[]]. discriminate H.
Qed.

(* the message text itself is marked safe exactly when it has the words form *)
Theorem po_error_message_safe_iff : forall path msg ds t,
  lineno_match (po_strip path msg) ds (Some t) ->
  (In (ASafe t) (po_error_args path msg) <-> words_form t \/ t = lit "line " ++ ds ++ [58]).
Proof.
  intros path msg ds t H. destruct (po_error_args_spec path msg) as (_ & H2 & _). rewrite (H2 ds t H).
  rewrite <- is_words_spec. destruct (is_words t) eqn:W; cbn [In]; split.
  - intros _. now left.
  - intros _. right. now left.
  - intros [X|[X|[]]]; [injection X as X; right; now rewrite <- X | discriminate X].
  - intros [X|X]; [discriminate X | left; now rewrite X].
Qed.

(* ------------------------------------------------------------------ what reaches the output verbatim (tags.safestr) *)
Theorem check_top_safestr_provenance : forall upper st ft path load ev s,
  In ev (r_events (check_top upper st ft path load)) -> In (ASafe s) (ev_args ev) ->
  (ev_tag ev = lit "os-error" /\ (st = StatOSError s \/ exists c enc, load c enc = LOSErrno s)) \/
  (ev_tag ev = lit "invalid-mo-file" /\ exists c enc, load c enc = LMoSyntax s) \/
  (ev_tag ev = lit "broken-encoding" /\ s = lit "cannot be decoded as") \/
  (ev_tag ev = lit "syntax-error-in-po-file" /\ forallb out_char s = true).
Proof.
  intros upper st ft path load ev s. destruct st as [|se|n].
  - destruct (dispatch (extension ft path)) as [[[c t] b]|] eqn:D.
    + rewrite (check_top_loaded _ _ _ _ _ _ _ D). cbn [r_events]. intros Hev Hs. apply in_app_or in Hev. destruct Hev as [Hev|Hev].
      * assert (L : exists enc, last_attempt load c = load c enc).
        { unfold last_attempt. destruct (load c None) eqn:E1; try (exists None; now rewrite E1). now exists (Some latin1). }
        destruct L as [enc L]. destruct (last_attempt load c) eqn:E; cbn [handlers fst] in Hev; try (now destruct Hev).
        -- destruct Hev as [<-|[]]. destruct Hs as [Hs|[]]. injection Hs as <-. right. left. split; [reflexivity|]. now exists c, enc.
        -- destruct Hev as [<-|[]]. destruct Hs as [Hs|[]]. injection Hs as <-. left. split; [reflexivity|]. right. now exists c, enc.
        -- destruct (starts_with po_prefix message); cbn [fst] in Hev; [|now destruct Hev].
           destruct Hev as [<-|[]]. cbn [ev_args] in Hs. right. right. right. split; [reflexivity|]. now apply (po_error_args_safe path message).
      * destruct (load c None); cbn [broken_events] in Hev; try (now destruct Hev).
        destruct Hev as [<-|[]]. cbn [broken_event ev_args] in Hs. destruct Hs as [Hs|[Hs|[Hs|[]]]]; try discriminate Hs.
        injection Hs as <-. right. right. left. split; reflexivity.
    + rewrite (check_top_unknown _ _ _ _ D). intros [<-|[]] [].
  - rewrite check_top_stat_oserror. intros [<-|[]] [Hs|[]]. injection Hs as <-. left. split; [reflexivity | now left].
  - rewrite check_top_stat_other. intros [].
Qed.

(* ------------------------------------------------------------------ os.path.splitext *)
Lemma split_last_in : forall c s, In c s -> split_last c s <> None.
Proof.
  intros c. induction s as [|x s IH]; [intros []|]. intros Hin. cbn [split_last].
  destruct (split_last c s) as [[a b]|] eqn:S; [discriminate|].
  destruct Hin as [->|Hin]; [rewrite N.eqb_refl; discriminate | now elim (IH Hin)].
Qed.

Lemma split_last_spec : forall c s a b, split_last c s = Some (a, b) <-> s = a ++ c :: b /\ ~ In c b.
Proof.
  intros c. induction s as [|x s IH]; intros a b; cbn [split_last].
  - split; [discriminate | intros [H _]; now destruct a].
  - destruct (split_last c s) as [[a' b']|] eqn:S.
    + split.
      * intros H. injection H as <- <-. destruct (proj1 (IH a' b') eq_refl) as [-> Hb]. split; [reflexivity | exact Hb].
      * intros [H Hb]. destruct a as [|y a].
        -- cbn in H. injection H as -> ->. destruct (proj1 (IH a' b') eq_refl) as [E _]. elim Hb. rewrite E. apply in_or_app. right. now left.
        -- cbn in H. injection H as <- ->. assert (X : Some (a', b') = Some (a, b)) by (apply IH; now split). now injection X as -> ->.
    + assert (Hn : ~ In c s) by (intros Hin; exact (split_last_in c s Hin S)).
      destruct (N.eqb x c) eqn:Ex.
      * apply N.eqb_eq in Ex. subst x. split.
        -- intros H. injection H as <- <-. split; [reflexivity | exact Hn].
        -- intros [H Hb]. destruct a as [|y a]; cbn in H.
           ++ now injection H as ->.
           ++ injection H as _ ->. elim Hn. apply in_or_app. right. now left.
      * apply N.eqb_neq in Ex. split; [discriminate|]. intros [H _]. destruct a as [|y a]; cbn in H.
        -- injection H as -> _. now elim Ex.
        -- injection H as _ ->. elim Hn. apply in_or_app. right. now left.
Qed.

Lemma split_last_none : forall c s, split_last c s = None <-> ~ In c s.
Proof.
  intros c s. split.
  - intros H Hin. exact (split_last_in c s Hin H).
  - intros H. destruct (split_last c s) as [[a b]|] eqn:S; [|reflexivity].
    apply split_last_spec in S. destruct S as [-> _]. elim H. apply in_or_app. right. now left.
Qed.

(* the extension is '.' followed by characters without '.' or '/', cut from the end of the path, and the base name has a
   character other than '.' before it; otherwise it is empty *)
Theorem splitext_ext_spec : forall p r,
  splitext_ext p = dot :: r <->
  exists root, p = root ++ dot :: r /\ ~ In dot r /\ ~ In slash r /\
               exists c, In c (base_name root) /\ c <> dot.
Proof.
  intros p r. unfold splitext_ext. split.
  - destruct (split_last dot (base_name p)) as [[pre r']|] eqn:S; [|discriminate].
    destruct (forallb (N.eqb dot) pre) eqn:F; [discriminate|]. intros H. injection H as ->.
    apply split_last_spec in S. destruct S as [E Hd].
    assert (Hc : exists c, In c pre /\ c <> dot).
    { clear - F. induction pre as [|x pre IH]; [discriminate|]. cbn [forallb] in F. destruct (N.eqb dot x) eqn:X.
      - cbn [andb] in F. destruct (IH F) as (c & Hc & Hn). exists c. split; [now right | exact Hn].
      - exists x. split; [now left|]. apply N.eqb_neq in X. congruence. }
    unfold base_name in E |- *. destruct (split_last slash p) as [[d bn]|] eqn:SL.
    + apply split_last_spec in SL. destruct SL as [-> Hs]. subst bn.
      exists (d ++ slash :: pre). split; [now rewrite <- app_assoc|]. split; [exact Hd|]. split.
      * intros Hin. apply Hs. apply in_or_app. right. now right.
      * assert (SP : split_last slash (d ++ slash :: pre) = Some (d, pre)).
        { apply split_last_spec. split; [reflexivity|]. intros Hin. apply Hs. apply in_or_app. now left. }
        rewrite SP. exact Hc.
    + apply split_last_none in SL. subst p. exists pre. split; [reflexivity|]. split; [exact Hd|]. split.
      * intros Hin. apply SL. apply in_or_app. right. now right.
      * assert (SP : split_last slash pre = None). { apply split_last_none. intros Hin. apply SL. apply in_or_app. now left. }
        rewrite SP. exact Hc.
  - intros (root & -> & Hd & Hs & c & Hc & Hn).
    assert (B : base_name (root ++ dot :: r) = base_name root ++ dot :: r).
    { unfold base_name. destruct (split_last slash root) as [[d bn]|] eqn:SL.
      - apply split_last_spec in SL. destruct SL as [-> Hbn].
        assert (SP : split_last slash ((d ++ slash :: bn) ++ dot :: r) = Some (d, bn ++ dot :: r)).
        { apply split_last_spec. split; [now rewrite <- app_assoc|]. intros Hin. apply in_app_or in Hin.
          destruct Hin as [Hin|[Hin|Hin]]; [now apply Hbn | discriminate Hin | now apply Hs]. }
        now rewrite SP.
      - apply split_last_none in SL.
        assert (SP : split_last slash (root ++ dot :: r) = None).
        { apply split_last_none. intros Hin. apply in_app_or in Hin. destruct Hin as [Hin|[Hin|Hin]]; [now apply SL | discriminate Hin | now apply Hs]. }
        now rewrite SP. }
    rewrite B.
    assert (SP : split_last dot (base_name root ++ dot :: r) = Some (base_name root, r)) by (apply split_last_spec; now split).
    rewrite SP.
    assert (F : forallb (N.eqb dot) (base_name root) = false).
    { destruct (forallb (N.eqb dot) (base_name root)) eqn:F; [|reflexivity]. rewrite forallb_forall in F.
      specialize (F c Hc). apply N.eqb_eq in F. now elim Hn. }
    now rewrite F.
Qed.

Lemma splitext_ext_shape : forall p, splitext_ext p = [] \/ exists r, splitext_ext p = dot :: r.
Proof.
  intros p. unfold splitext_ext. destruct (split_last dot (base_name p)) as [[pre r]|]; [|now left].
  destruct (forallb (N.eqb dot) pre); [now left | right; now exists r].
Qed.

(* ------------------------------------------------------------------ the sub-checks *)
Theorem subcheck_order : forall reset,
  map fst (run_plan reset false subcheck_plan) =
  [lit "check_comments"; lit "check_headers"; lit "check_language"; lit "check_plurals"; lit "check_mime";
   lit "check_dates"; lit "check_project"; lit "check_translator"; lit "check_messages"].
Proof. intros []; reflexivity. Qed.

(* ctx.encoding is reset to None after check_mime and before check_dates, when the first attempt failed to decode *)
Theorem subcheck_reset_seen : forall reset,
  map snd (run_plan reset false subcheck_plan) = [false; false; false; false; false; reset; reset; reset; reset].
Proof. intros []; reflexivity. Qed.

Theorem subchecks_run_iff : forall e, subchecks_of e <> [] <-> exists t b r, e = RunSubchecks t b r.
Proof.
  intros [|t b r|x]; cbn [subchecks_of].
  - split; [intros H; now elim H | intros (t & b & r & H); discriminate H].
  - split; [intros _; now exists t, b, r | intros _; destruct r; discriminate].
  - split; [intros H; now elim H | intros (t & b & r & H); discriminate H].
Qed.

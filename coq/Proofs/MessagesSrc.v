(* Source tie for C16, part 2: is_header_entry, _check_message_xml_format, _check_message_formats and check_messages
   as translated into Generated/MessagesSrc.v equal is_header, xml_diags, dispatch + the XML trigger, and check_messages of
   Model/Messages.v.  Assumption (view_ok): msgstr_plural.values() is a permutation of the values in key order, and
   me_previous says whether any previous_* field is set - the two places where the model's msg_entry abstracts polib's entry. *)
From Coq Require Import List NArith ZArith Bool Lia Permutation Sorted.
From I18n Require Import Lib.Outcome Model.IntExpr Model.PluralForms Model.Messages Model.MessagesPy Proofs.MessagesLib Proofs.MessagesFlags
  Proofs.Messages Proofs.MessagesSrcLib Generated.MessagesSrc Proofs.MessagesSrcFlags.
Import ListNotations.

Lemma src_is_header_entry_eq e : src_is_header_entry e = is_header e.
Proof. unfold src_is_header_entry, is_header. rewrite str_eqb_nil. destruct (me_ctxt e); reflexivity. Qed.

Lemma src_check_message_xml_format_eq cfg e flags :
  src_check_message_xml_format cfg e flags = xml_diags cfg (pi_fuzzy flags) e.
Proof.
  unfold src_check_message_xml_format, xml_diags, xml_check, py_truthy.
  destruct (c_encoding cfg); cbn; [|reflexivity].
  destruct (c_xml cfg (me_msgid e)); cbn.
  - destruct (c_template cfg); reflexivity.
  - destruct (pi_fuzzy flags); [reflexivity|]. destruct (is_nil (me_msgstr e)); cbn; [reflexivity|].
    destruct (c_xml cfg (me_msgstr e)); reflexivity.
Qed.

Lemma has_checker_src f : ps_mem str_eqb f src_format_checkers = has_checker f.
Proof. unfold ps_mem, src_format_checkers, has_checker. cbn [existsb]. now rewrite orb_false_r, !orb_assoc. Qed.

Lemma src_check_message_formats_eq cfg e flags :
  src_check_message_formats cfg e flags =
  do xd <- (if xml_trigger (me_comment e) then xml_diags cfg (pi_fuzzy flags) e else Ok []);
  Ok (dispatch (sort_dedup str_compare (pi_formats flags)) ++ xd).
Proof.
  unfold src_check_message_formats.
  rewrite (py_fold_flat_map _ _ (fun f => if has_checker f then [MDispatch f] else []))
    by (intros st x; cbv zeta; rewrite has_checker_src; apply if_app).
  assert (Hd : forall l, flat_map (fun f => if has_checker f then [MDispatch f] else []) l = dispatch l).
  { unfold dispatch. induction l as [|x l IH]; cbn; [reflexivity|]. rewrite IH. destruct (has_checker x); reflexivity. }
  unfold ps_sorted. rewrite Hd. cbn [app].
  destruct (xml_trigger (me_comment e)); cbn.
  - rewrite src_check_message_xml_format_eq. destruct (xml_diags cfg (pi_fuzzy flags) e); reflexivity.
  - now rewrite app_nil_r.
Qed.

Definition mem_equiv (a b : list N) : Prop := forall c, memN c a = memN c b.

(* found_unusual_characters as the code accumulates it (unsorted additions); the model adds the sorted characters *)
Fixpoint src_found (cfg : config) (muc fnd : list N) (strs : list (list N)) : list N :=
  match strs with
  | [] => fnd
  | s :: r =>
    let uc := filter (fun c => negb (memN c muc) && negb (memN c fnd)) (find_unusual (c_isword cfg) s) in
    if is_nil uc then src_found cfg muc fnd r else src_found cfg muc (fnd ++ uc) r
  end.

Lemma unusual_generic cfg i muc body :
  (forall out fnd x, body (out, fnd) x =
     let uc := filter (fun c => negb (memN c muc) && negb (memN c fnd)) (find_unusual (c_isword cfg) x) in
     if is_nil uc then Ok (false, (out, fnd)) else
     if forallb (name_ok (c_ctlnames cfg)) (sort_dedup N.compare uc)
     then Ok (false, (out ++ [AtMsg i (MUnusual (sort_dedup N.compare uc))], fnd ++ uc)) else Crash CValueError) ->
  forall strs out fnd fnd', mem_equiv fnd fnd' ->
  (py_for strs (out, fnd) body =
   match unusual_loop cfg muc fnd' strs with
   | Ok (ds, _) => Ok (out ++ map (AtMsg i) ds, src_found cfg muc fnd strs)
   | Crash c => Crash c
   | Err x => Err x
   end) /\
  match unusual_loop cfg muc fnd' strs with
  | Ok (_, f2') => mem_equiv (src_found cfg muc fnd strs) f2'
  | _ => True
  end.
Proof.
  intros Hb. induction strs as [|s strs IH]; intros out fnd fnd' Heq; cbn [unusual_loop py_for src_found].
  - rewrite app_nil_r. auto.
  - rewrite Hb. cbv zeta.
    assert (Hf : filter (fun c => negb (memN c muc) && negb (memN c fnd)) (find_unusual (c_isword cfg) s) =
                 filter (fun c => negb (memN c muc) && negb (memN c fnd')) (find_unusual (c_isword cfg) s)).
    { apply filter_ext. intros c. now rewrite Heq. }
    rewrite Hf. set (uc := filter _ _).
    rewrite (sort_dedup_nil N.compare N_compare_eq').
    destruct (is_nil uc) eqn:En.
    + cbn [obind fst snd]. apply IH; assumption.
    + destruct (forallb (name_ok (c_ctlnames cfg)) (sort_dedup N.compare uc)); cbn [negb obind fst snd]; [|auto].
      specialize (IH (out ++ [AtMsg i (MUnusual (sort_dedup N.compare uc))]) (fnd ++ uc) (fnd' ++ sort_dedup N.compare uc)).
      destruct IH as [E Hq].
      { intros c. rewrite !memN_app, Heq. f_equal. apply memN_ext. intros x. symmetry. apply N_sort_In. }
      rewrite E.
      destruct (unusual_loop cfg muc (fnd' ++ sort_dedup N.compare uc) strs) as [[ds f2']|[]|c]; cbn [obind fst snd]; [|auto].
      split; [|assumption]. cbn [map]. now rewrite <- app_assoc.
Qed.
Lemma src_found_equiv cfg muc : forall strs fnd fnd', mem_equiv fnd fnd' ->
  match unusual_loop cfg muc fnd' strs with
  | Ok (_, f2') => mem_equiv (src_found cfg muc fnd strs) f2'
  | _ => True
  end.
Proof.
  intros strs fnd fnd' H.
  destruct (unusual_generic cfg 0 muc (fun st x =>
     let uc := filter (fun c => negb (memN c muc) && negb (memN c (snd st))) (find_unusual (c_isword cfg) x) in
     if is_nil uc then Ok (false, (fst st, snd st)) else
     if forallb (name_ok (c_ctlnames cfg)) (sort_dedup N.compare uc)
     then Ok (false, (fst st ++ [AtMsg 0 (MUnusual (sort_dedup N.compare uc))], snd st ++ uc)) else Crash CValueError))
    with (strs := strs) (out := @nil cdiag) (fnd := fnd) (fnd' := fnd') as [_ Hq]; auto.
Qed.

Lemma dict_items_keys (d : list (list N * list N)) : map fst (dict_items d) = sort_dedup str_compare (map fst d).
Proof.
  unfold dict_items.
  assert (H : forall l, (forall k, In k l -> In k (map fst d)) ->
              map fst (flat_map (fun k => match dget k d with Some v => [(k, v)] | None => [] end) l) = l).
  { induction l as [|k l IH]; intros Hl; cbn [flat_map]; [reflexivity|].
    rewrite map_app, IH by (intros; apply Hl; right; assumption).
    assert (Hk : In k (map fst d)) by (apply Hl; left; reflexivity).
    apply in_map_iff in Hk. destruct Hk as [[k' v] [E Hin]]. cbn in E. subst k'.
    destruct (dget_In _ _ _ Hin) as [v' ->]. reflexivity. }
  apply H. intros k Hk. exact (proj1 (str_sort_In _ _) Hk).
Qed.

Definition keqb := pair_eqb str_eqb (option_eqb str_eqb).
Definition cnt_rel (cnt : list (key * nat)) (seen : list key) : Prop :=
  (forall k, pd_getd keqb k 0%nat cnt = count_key k seen) /\ is_nil cnt = is_nil seen.
Definition muc_of cfg e := find_unusual (c_isword cfg) (me_msgid e) ++ find_unusual (c_isword cfg) (match me_plural e with Some p => p | None => [] end).
Definition found_after cfg fnd e := if c_encoding cfg then src_found cfg (muc_of cfg e) fnd (tr_strings e) else fnd.
Definition cnt_after (cnt : list (key * nat)) e := pd_set (key_of e) (pd_getd keqb (key_of e) 0 cnt + 1)%nat cnt.

Lemma map_if1 {A B} (f : A -> B) (c : bool) d : (if c then [f d] else []) = map f (if c then [d] else []).
Proof. destruct c; reflexivity. Qed.
Lemma keqb_refl k : keqb k k = true.
Proof. apply key_eqb_refl. Qed.
Lemma existsb_perm_iff {A} (f : A -> bool) l l' : Permutation l l' -> existsb f l = existsb f l'.
Proof. apply existsb_perm. Qed.

Lemma cnt_rel_after cnt seen e : cnt_rel cnt seen -> cnt_rel (cnt_after cnt e) (key_of e :: seen).
Proof.
  intros [H1 H2]. split; [|reflexivity]. intros k. unfold cnt_after, pd_set, pd_getd at 1, pd_get. cbn [find fst snd].
  unfold count_key. cbn [filter]. fold (count_key k seen).
  change (keqb (key_of e) k) with (key_eqb (key_of e) k).
  destruct (key_eqb (key_of e) k) eqn:E.
  - apply key_eqb_eq in E. subst k. rewrite key_eqb_refl. cbn [length snd]. rewrite H1, Nat.add_1_r. reflexivity.
  - assert (key_eqb k (key_of e) = false) as ->.
    { destruct (key_eqb k (key_of e)) eqn:E2; [|reflexivity]. apply key_eqb_eq in E2. subst k. now rewrite key_eqb_refl in E. }
    fold (pd_get keqb k cnt). fold (pd_getd keqb k 0%nat cnt). apply H1.
Qed.
Lemma check_entry_found cfg seen fnd fnd' e : mem_equiv fnd fnd' ->
  match check_entry cfg seen fnd' e with Ok (_, f2') => mem_equiv (found_after cfg fnd e) f2' | _ => True end.
Proof.
  intros H. unfold check_entry, found_after. fold (muc_of cfg e).
  destruct (check_flags cfg _ (me_flags e)) as [fr|[]|c]; cbn [obind]; [|exact I].
  destruct (if xml_trigger (me_comment e) then _ else _) as [xd|[]|c]; cbn [obind]; [|exact I].
  pose proof (src_found_equiv cfg (muc_of cfg e) (tr_strings e) fnd fnd' H) as Hq.
  destruct (c_encoding cfg); cbn [obind snd]; [|exact H].
  destruct (unusual_loop cfg (muc_of cfg e) fnd' (tr_strings e)) as [[uds f2]|[]|c]; cbn [obind snd]; [exact Hq|exact I].
Qed.

(* head `let`: the tags emitted so far (list cdiag) are kept as local definitions o, o0, ..; every other local is substituted *)
Ltac pose_let_t :=
  lazymatch goal with
  | |- (let x := ?v in @?B x) = ?R =>
      let T := type of v in
      let y := lazymatch T with list cdiag => fresh "o" | _ => fresh "y" end in
      pose (y := v); change (B y = R); cbv beta
  end.
Ltac subst_small := repeat match goal with y := _ : ?T |- _ => lazymatch T with list cdiag => fail | _ => subst y end end.

Ltac simpl_defs := repeat match goal with y := _ |- _ => progress cbn [fst snd] in y end.

(* `if C then o ++ [d] else o = o ++ map f (if C' then [d'] else [])` with C, C' built from the same atoms *)
Ltac atoms :=
  cbv beta zeta; change (py_truthy (me_msgstr ?e)) with (has_msgstr e);
  repeat match goal with
         | |- context [c_template ?c] => destruct (c_template c)
         | |- context [has_msgstr ?e] => destruct (has_msgstr e)
         | |- context [has_msgstr_plural ?e] => destruct (has_msgstr_plural e)
         | |- context [me_previous ?e] => destruct (me_previous e)
         | b : bool |- _ => destruct b
         | |- context [forallb ?f ?l] => destruct (forallb f l)
         | |- context [existsb ?f ?l] => destruct (existsb f l)
         end; cbn; rewrite ?app_nil_r; reflexivity.

Theorem src_check_messages_eq cfg cat : Forall view_ok cat -> src_check_messages cfg cat = check_messages cfg (map fst cat).
Proof.
intros Hview. cbv beta delta [src_check_messages].
match goal with |- obind (py_for _ _ ?b) _ = _ => set (body := b) end.
assert (Hlive : forall out cnt fnd fnd' seen i e v, view_ok (e, v) -> me_obsolete e = false -> is_header e = false ->
   cnt_rel cnt seen -> mem_equiv fnd fnd' ->
   body (out, cnt, fnd) (i, (e, v)) =
   match check_entry cfg seen fnd' e with
   | Ok (ds, _) => Ok (false, (out ++ map (AtMsg i) ds, cnt_after cnt e, found_after cfg fnd e))
   | Crash c => Crash c
   | Err x => Err x
   end).
{ intros out cnt fnd fnd' seen i e v [Hperm Hprev] Hobs Hhdr [Hcnt Hnil] Hfnd. cbn [fst snd] in Hperm, Hprev.
  subst body. cbv beta iota.
  repeat pose_let_t. simpl_defs. subst_small.
  rewrite Hobs, src_is_header_entry_eq, Hhdr.
  rewrite src_check_message_flags_eq. cbv beta delta [flags_spec].
  match goal with |- ?L = _ => set (lhs := L) end.
  unfold check_entry, check_flags.
  change (match me_plural e with Some _ => true | None => false end) with (is_some (me_plural e)).
  subst lhs.
  destruct (classify_all cfg (counter_sorted (me_flags e))) as [items|[]|c]; [|reflexivity].
  match goal with |- ?L = _ => set (lhs := L) end.
  cbn [obind fst snd flags_info fi_fuzzy fi_formats].
  subst lhs.
  repeat (rewrite obind_Ok; cbv beta).
  repeat pose_let_t. simpl_defs. subst_small.
  rewrite src_check_message_formats_eq.
  change (pi_fuzzy (src_info items)) with (existsb is_fuzzy_item items) in *.
  change (pi_formats (src_info items)) with (map fst (fmt_dict TpPos items)).
  rewrite <- dict_items_keys.
  assert (X : exists xd, (if xml_trigger (me_comment e) then xml_diags cfg (existsb is_fuzzy_item items) e else Ok []) = Ok xd).
  { destruct (xml_trigger (me_comment e)); eauto. apply xml_diags_total. }
  destruct X as [xd ->]. repeat (rewrite obind_Ok; cbv beta).
  repeat pose_let_t. simpl_defs. subst_small.
  set (fz := existsb is_fuzzy_item items) in *. clearbody fz.
  (* the code's expressions in the model's terms *)
  assert (E6 : existsb (fun s : list N => py_truthy s) (mv_values v) = has_msgstr_plural e).
  { unfold has_msgstr_plural. apply existsb_perm. exact Hperm. }
  assert (E10 : existsb (fun s : option (list N) => is_some s) [mv_prev_ctxt v; mv_prev_id v; mv_prev_plural v] = me_previous e).
  { rewrite Hprev. cbn [existsb]. now rewrite orb_false_r, orb_assoc. }
  assert (Epa : forallb (fun s : list N => py_truthy s) (mv_values v) = negb (existsb (fun s => is_nil s) (me_msgstr_plural e))).
  { rewrite <- (negb_involutive (forallb _ _)), forallb_existsb, (existsb_perm _ _ _ Hperm). f_equal.
    apply existsb_ext'. intros x. unfold py_truthy. now rewrite negb_involutive. }
  (* the tags emitted so far, segment by segment; `atoms` = case analysis on every boolean the conditions are made of *)
  assert (H1 : o1 = o0 ++ map (AtMsg i) (if Nat.eqb (count_key (key_of e) seen) 1 then [MDuplicateDef] else [])).
  { subst o1. rewrite if_app, <- map_if1. f_equal.
    unfold pd_getd at 1, pd_get, pd_set. cbn [find fst snd].
    change (pair_eqb str_eqb (option_eqb str_eqb)) with keqb. rewrite keqb_refl. cbn [snd].
    change (me_msgid e, me_ctxt e) with (key_of e). rewrite Hcnt, Nat.add_1_r. reflexivity. }
  assert (H2 : o2 = o1 ++ map (AtMsg i) (if c_template cfg && (has_msgstr e || has_msgstr_plural e) then [MTranslationInTemplate] else [])).
  { subst o2. rewrite ?E6. atoms. }
  assert (H3 : o3 = o2 ++ map (AtMsg i) (if me_previous e && negb fz then [MStrayPrevious] else [])).
  { subst o3. rewrite ?E10. atoms. }
  match goal with o := py_forb ?l _ _ |- _ => assert (H13 : Permutation l (nl_strings fz e)) end.
  { unfold nl_strings. rewrite ?E6. change (py_truthy (me_msgstr e)) with (has_msgstr e).
    destruct fz, (has_msgstr e), (has_msgstr_plural e), (me_plural e); cbn [negb app]; rewrite ?app_nil_r; repeat apply perm_skip;
      first [exact Hperm | reflexivity]. }
  assert (H4 : o4 = o3 ++ map (AtMsg i) (if existsb (fun s => negb (eqb (starts_nl s) (starts_nl (me_msgid e)))) (nl_strings fz e) then [MLeadingNL] else [])).
  { subst o4. rewrite py_forb_exists, <- map_if1. f_equal.
    rewrite (existsb_perm _ _ _ H13). erewrite existsb_ext'; [reflexivity|]. intros x. cbv beta. rewrite !starts_nl_src.
    destruct (starts_nl x), (starts_nl (me_msgid e)); reflexivity. }
  assert (H5 : o5 = o4 ++ map (AtMsg i) (if existsb (fun s => negb (eqb (ends_nl s) (ends_nl (me_msgid e)))) (nl_strings fz e) then [MTrailingNL] else [])).
  { subst o5. rewrite py_forb_exists, <- map_if1. f_equal.
    rewrite (existsb_perm _ _ _ H13). erewrite existsb_ext'; [reflexivity|]. intros x. cbv beta. rewrite !ends_nl_src.
    destruct (ends_nl x), (ends_nl (me_msgid e)); reflexivity. }
  assert (Hy : o5 = out ++ map (AtMsg i) (flags_diags (c_formats cfg) (is_some (me_plural e)) items ++
        dispatch (map fst (dict_items (fmt_dict TpPos items))) ++ xd ++
        (if Nat.eqb (count_key (key_of e) seen) 1 then [MDuplicateDef] else []) ++
        (if c_template cfg && (has_msgstr e || has_msgstr_plural e) then [MTranslationInTemplate] else []) ++
        (if me_previous e && negb fz then [MStrayPrevious] else []) ++
        (if existsb (fun s => negb (eqb (starts_nl s) (starts_nl (me_msgid e)))) (nl_strings fz e) then [MLeadingNL] else []) ++
        (if existsb (fun s => negb (eqb (ends_nl s) (ends_nl (me_msgid e)))) (nl_strings fz e) then [MTrailingNL] else []))).
  { rewrite H5, H4, H3, H2, H1. subst o0 o. rewrite !map_app, <- !app_assoc. reflexivity. }
  clear H5 H4 H3 H2 H1 H13. clearbody o5. clear o4 o3 o2 o1 o0 o.
  (* the translations *)
  match goal with |- context [py_for ?l _ _] => assert (H17 : l = tr_strings e) end.
  { unfold tr_strings. rewrite ?E6. change (py_truthy (me_msgstr e)) with (has_msgstr e).
    destruct (has_msgstr e), (has_msgstr_plural e); reflexivity. }
  rewrite !H17. clear H17.
  (* the loop over the translations for unusual characters *)
  match goal with |- obind ?U ?K = _ =>
    assert (EU : U = match (if c_encoding cfg then unusual_loop cfg (muc_of cfg e) fnd' (tr_strings e) else Ok ([], fnd')) with
                     | Ok (ds, _) => Ok (o5 ++ map (AtMsg i) ds, found_after cfg fnd e)
                     | Crash c => Crash c
                     | Err x => Err x
                     end)
  end.
  { cbv beta delta [found_after]. destruct (c_encoding cfg); cbv beta iota; [|now rewrite app_nil_r].
    repeat pose_let_t. subst_small.
    match goal with |- obind (py_for _ _ ?b) _ = _ =>
      destruct (unusual_generic cfg i (muc_of cfg e) b) with (strs := tr_strings e) (out := o5) (fnd := fnd) (fnd' := fnd') as [E _]
    end.
    - intros o f x. cbv beta iota zeta. rewrite ps_diff2_filter. fold (muc_of cfg e).
      unfold py_truthy, py_char_names, ps_sorted, ps_union. rewrite negb_involutive.
      set (uc := filter _ _). destruct (is_nil uc); [reflexivity|].
      destruct (forallb (name_ok (c_ctlnames cfg)) (sort_dedup N.compare uc)); reflexivity.
    - exact Hfnd.
    - rewrite E. destruct (unusual_loop cfg (muc_of cfg e) fnd' (tr_strings e)) as [[ds f2]|[]|c]; reflexivity. }
  rewrite EU. clear EU.
  fold (muc_of cfg e).
  destruct (if c_encoding cfg then unusual_loop cfg (muc_of cfg e) fnd' (tr_strings e) else Ok ([], fnd')) as [[uds f2']|[]|c];
    [|reflexivity].
  cbv beta iota. rewrite !obind_Ok. cbv beta iota.
  repeat pose_let_t. subst_small.
  match goal with o := _ : list cdiag |- _ =>
  assert (Hfin : o = o5 ++ map (AtMsg i) uds ++ map (AtMsg i)
           ((if fz then [] else match first_marker (tr_strings e) with Some m => [MConflictMarker m] | None => [] end) ++
            (if negb fz && has_msgstr_plural e && existsb (fun s => is_nil s) (me_msgstr_plural e) then [MPartial] else [])));
  [subst o|clearbody o; subst o] end.
  { cbv beta zeta. rewrite py_forb_first, ?E6, ?Epa.
    assert (Hcm : (fix go (l : list (list N)) : list cdiag := match l with [] => [] | x :: r =>
                     match search_marker x with Some m => [AtMsg i (MConflictMarker m)] | None => go r end end) (tr_strings e)
                  = map (AtMsg i) (match first_marker (tr_strings e) with Some m => [MConflictMarker m] | None => [] end)).
    { induction (tr_strings e) as [|s l IH]; cbn [first_marker]; [reflexivity|].
      destruct (search_marker s); [reflexivity|exact IH]. }
    rewrite Hcm. rewrite <- !app_assoc. f_equal. f_equal. rewrite map_app.
    destruct (first_marker (tr_strings e)); atoms. }
  subst o5. cbn [fst snd].
  unfold cnt_after. change (pair_eqb str_eqb (option_eqb str_eqb)) with keqb. change (me_msgid e, me_ctxt e) with (key_of e).
  rewrite <- !app_assoc, <- !map_app, <- !app_assoc. reflexivity. }
assert (Hdead : forall st i e v, (me_obsolete e = true \/ is_header e = true) -> body st (i, (e, v)) = Ok (false, st)).
{ intros [[out cnt] fnd] i e v H. subst body. cbv beta iota. do 3 pose_let. cbn [fst snd] in y, y0, y1. subst y y0 y1.
  destruct (me_obsolete e) eqn:E; [reflexivity|]. rewrite src_is_header_entry_eq.
  destruct H as [H|H]; [discriminate|]. now rewrite H. }
clearbody body.
assert (Hrun : forall es i out cnt fnd fnd' seen, Forall view_ok es -> cnt_rel cnt seen -> mem_equiv fnd fnd' ->
   match run cfg i seen fnd' (map fst es) with
   | Ok (ds, seen') => exists cnt2 f2, py_for (combine (seq i (length es)) es) (out, cnt, fnd) body = Ok (out ++ ds, cnt2, f2) /\ cnt_rel cnt2 seen'
   | Crash c => py_for (combine (seq i (length es)) es) (out, cnt, fnd) body = Crash c
   | Err x => False
   end).
{ induction es as [|[e v] es IH]; intros i out cnt fnd fnd' seen Hv Hc Hf; cbn [map fst run length seq combine py_for].
  - exists cnt, fnd. now rewrite app_nil_r.
  - inversion Hv as [|? ? Hv1 Hv2]; subst.
    destruct (me_obsolete e) eqn:Eo; [rewrite Hdead by auto; cbn [obind fst snd]; apply IH; assumption|].
    destruct (is_header e) eqn:Eh; [rewrite Hdead by auto; cbn [obind fst snd]; apply IH; assumption|].
    rewrite (Hlive out cnt fnd fnd' seen i e v Hv1 Eo Eh Hc Hf).
    pose proof (check_entry_found cfg seen fnd fnd' e Hf) as Hq.
    destruct (check_entry cfg seen fnd' e) as [[ds f2']|[]|c]; cbn [obind fst snd]; [|reflexivity].
    specialize (IH (S i) (out ++ map (AtMsg i) ds) (cnt_after cnt e) (found_after cfg fnd e) f2' (key_of e :: seen) Hv2
                   (cnt_rel_after cnt seen e Hc) Hq).
    destruct (run cfg (S i) (key_of e :: seen) f2' (map fst es)) as [[ds2 seen2]|[]|c]; cbn [obind fst snd].
    + destruct IH as [cnt2 [f2 [E R]]]. exists cnt2, f2. rewrite E, <- app_assoc. auto.
    + exact IH. }
unfold check_messages.
specialize (Hrun cat 0%nat [] [] [] [] [] Hview (conj (fun k => eq_refl) eq_refl) (fun c => eq_refl)).
unfold py_enumerate.
match goal with |- obind ?P _ = _ => change P with (py_for (combine (seq 0 (length cat)) cat) (@nil cdiag, @nil (key * nat), @nil N) body) end.
destruct (run cfg 0 [] [] (map fst cat)) as [[ds seen']|[]|c]; [|now rewrite Hrun].
destruct Hrun as [cnt2 [f2 [E [_ Hnil]]]]. rewrite E, !obind_Ok. cbv beta iota zeta. cbn [fst snd app].
unfold pd_len. rewrite ps_len_zero.
rewrite <- Hnil. destruct cnt2 as [|p cnt2]; cbn [map is_nil]; [|now rewrite app_nil_r].
destruct (c_binary cfg), (c_hidden cfg); cbn; rewrite ?app_nil_r; reflexivity.
Qed.

(* ------------------------------------------------------------------ *)
(* the tie of _check_message_flags against check_flags itself: same tags (or the same exception); the returned
   object carries the model's fuzzy / range / formats (formats as a set: the model keeps it sorted) *)
Definition info_matches (pi : pyinfo) (fi : finfo) : Prop :=
  pi_fuzzy pi = fi_fuzzy fi /\
  (pi_range_min pi, pi_range_max pi) = match fi_range fi with Some r => (fst r, Some (snd r)) | None => (0%Z, None) end /\
  sort_dedup str_compare (pi_formats pi) = fi_formats fi.
Definition flags_result_matches (a : outcome (list mdiag * pyinfo) Empty_set) (b : outcome (list mdiag * finfo) Empty_set) : Prop :=
  match a, b with
  | Ok (d1, pi), Ok (d2, fi) => d1 = d2 /\ info_matches pi fi
  | Crash c1, Crash c2 => c1 = c2
  | _, _ => False
  end.
Lemma src_check_message_flags_check_flags cfg e :
  flags_result_matches (src_check_message_flags cfg e) (check_flags cfg (is_some (me_plural e)) (me_flags e)).
Proof.
  rewrite src_check_message_flags_eq. unfold flags_spec, check_flags, flags_result_matches.
  destruct (classify_all cfg (counter_sorted (me_flags e))) as [items|[]|c]; cbn [obind]; [|reflexivity].
  split; [reflexivity|]. unfold info_matches, src_info, flags_info. cbn [pi_fuzzy pi_range_min pi_range_max pi_formats fi_fuzzy fi_range fi_formats].
  split; [reflexivity|]. split; [destruct (last_range items); reflexivity|]. symmetry. apply dict_items_keys.
Qed.

(* python-brace: for strings whose fields are flat (no attribute / index access, no nested field) and whose format specs
   are outside defect D24, a string the parser accepts is formatted by CPython's str.format (Spec/CPyFormat.v) with
   any arguments of the reported positions, names and types. *)
From Coq Require Import List NArith ZArith Bool Lia.
From I18n Require Import Lib.Outcome Model.FmtPyBrace Model.FmtPyBraceDomain Spec.CPyFormat Proofs.FmtPyBrace Proofs.FmtPyBraceMarkup Proofs.FmtPyBraceSpec.
Import ListNotations.
Local Open Scope N_scope.

(* ---------------------------------------------------------------- the fields the iterator yields, as equations *)
Definition fields_of (items : list mitem) : list mfield :=
  flat_map (fun it => match snd it with Some f => [f] | None => [] end) items.

Definition mf (s : list N) : list mfield := fields_of (fst (markup_loop (S (length s)) s)).

Lemma markup_fuel_fst n : forall s fuel, (length s <= n)%nat -> (length s < fuel)%nat ->
  fields_of (fst (markup_loop fuel s)) = mf s.
Proof.
  induction n as [|n IH]; intros s fuel Hn Hf.
  - destruct s; [|cbn in Hn; lia]. destruct fuel; [lia|]. reflexivity.
  - destruct fuel as [|fuel]; [lia|]. unfold mf. cbn [markup_loop]. destruct s as [|c0 s0]; [reflexivity|].
    pose proof (span_until_app is_brace (c0 :: s0)) as Happ.
    destruct (span_until is_brace (c0 :: s0)) as [lit r]. cbn [fst snd] in Happ.
    destruct r as [|c r1]; [reflexivity|]. destruct r1 as [|c1 r2]; [reflexivity|].
    assert (Hlen : (length (c :: c1 :: r2) <= length (c0 :: s0))%nat) by (rewrite <- Happ, app_length; lia).
    cbn [length] in *.
    destruct (c1 =? c).
    + rewrite (surjective_pairing (markup_loop fuel r2)), (surjective_pairing (markup_loop (S (length s0)) r2)). cbn [fst fields_of flat_map snd app].
      fold (fields_of (fst (markup_loop fuel r2))). fold (fields_of (fst (markup_loop (S (length s0)) r2))).
      rewrite (IH r2 fuel) by lia. rewrite (IH r2 (S (length s0))) by lia. reflexivity.
    + destruct (c =? 125); [reflexivity|].
      destruct (parse_field (c1 :: r2)) as [[f r3]|] eqn:Ep; [|reflexivity]. apply parse_field_len in Ep. cbn [length] in Ep.
      rewrite (surjective_pairing (markup_loop fuel r3)), (surjective_pairing (markup_loop (S (length s0)) r3)). cbn [fst fields_of flat_map snd app].
      fold (fields_of (fst (markup_loop fuel r3))). fold (fields_of (fst (markup_loop (S (length s0)) r3))).
      rewrite (IH r3 fuel) by lia. rewrite (IH r3 (S (length s0))) by lia. reflexivity.
Qed.

Lemma mf_fuel s fuel : (length s < fuel)%nat -> fields_of (fst (markup_loop fuel s)) = mf s.
Proof. apply (markup_fuel_fst (length s)). lia. Qed.

Definition mf_cont (r : list N) : list mfield :=
  match r with
  | [] => []
  | c :: r1 =>
    match r1 with
    | [] => []
    | c1 :: r2 =>
      if c1 =? c then mf r2
      else if c =? 125 then []
      else match parse_field r1 with Some (f, r3) => f :: mf r3 | None => [] end
    end
  end.

Lemma mf_step c0 s0 : mf (c0 :: s0) = mf_cont (snd (span_until is_brace (c0 :: s0))).
Proof.
  unfold mf at 1. cbn [markup_loop].
  pose proof (span_until_app is_brace (c0 :: s0)) as Happ.
  destruct (span_until is_brace (c0 :: s0)) as [lit r]. cbn [fst snd] in *. unfold mf_cont.
  destruct r as [|c r1]; [reflexivity|]. destruct r1 as [|c1 r2]; [reflexivity|].
  assert (Hlen : (length (c :: c1 :: r2) <= length (c0 :: s0))%nat) by (rewrite <- Happ, app_length; lia).
  cbn [length] in Hlen.
  destruct (c1 =? c).
  - rewrite (surjective_pairing (markup_loop (length (c0 :: s0)) r2)). cbn [fst fields_of flat_map snd app].
    fold (fields_of (fst (markup_loop (length (c0 :: s0)) r2))). apply mf_fuel. cbn [length]. lia.
  - destruct (c =? 125); [reflexivity|].
    destruct (parse_field (c1 :: r2)) as [[f r3]|] eqn:Ep; [|reflexivity]. apply parse_field_len in Ep. cbn [length] in Ep.
    rewrite (surjective_pairing (markup_loop (length (c0 :: s0)) r3)). cbn [fst fields_of flat_map snd app].
    fold (fields_of (fst (markup_loop (length (c0 :: s0)) r3))). f_equal. apply mf_fuel. cbn [length]. lia.
Qed.

Lemma mf_nonbrace c r : not_brace c = true -> mf (c :: r) = mf r.
Proof.
  intros Hc. rewrite mf_step. cbn [span_until]. rewrite is_brace_not, Hc. cbn [negb].
  destruct r as [|x r']; [reflexivity|]. rewrite (mf_step x r').
  destruct (span_until is_brace (x :: r')) as [lit r0]. reflexivity.
Qed.

Lemma mf_double c r : not_brace c = false -> mf (c :: c :: r) = mf r.
Proof.
  intros Hc. rewrite mf_step. cbn [span_until]. rewrite is_brace_not, Hc. cbn [negb snd mf_cont].
  rewrite N.eqb_refl. reflexivity.
Qed.

Lemma mf_field c1 r2 : (c1 =? 123) = false ->
  mf (123 :: c1 :: r2) = match parse_field (c1 :: r2) with Some (f, r3) => f :: mf r3 | None => [] end.
Proof.
  intros Hc. rewrite mf_step. cbn [span_until]. replace (is_brace 123) with true by reflexivity. cbn [snd mf_cont].
  rewrite Hc. replace (123 =? 125) with false by reflexivity. reflexivity.
Qed.

Lemma mf_literal n : forall s, (length s <= n)%nat -> mf s = mf (snd (m_literal s)).
Proof.
  induction n as [|n IH]; intros s Hl.
  - destruct s; [reflexivity|cbn in Hl; lia].
  - destruct s as [|c r]; [reflexivity|]. cbn [m_literal length] in *.
    destruct (not_brace c) eqn:Ec.
    + rewrite (mf_nonbrace c r Ec). rewrite (IH r) by lia. destruct (m_literal r). reflexivity.
    + destruct r as [|c' r']; [reflexivity|]. destruct (N.eqb_spec c' c) as [->|]; [|reflexivity].
      rewrite (mf_double c r' Ec). cbn [length] in Hl. rewrite (IH r') by lia. destruct (m_literal r'). reflexivity.
Qed.

(* ---------------------------------------------------------------- flat fields: parse_field returns the model's name, spec, conversion *)
Section Flat.
Variable U : ucd.
Variable M : Z.
Hypothesis Hch : ucd_chars U.

Definition mfield_of (f : field_match) : mfield :=
  {| m_name := match f_name f with Some n => n | None => [] end;
     m_spec := match f_fmt f with Some (_ :: tl) => tl | _ => [] end;
     m_conv := match f_conv f with Some [_; x] => Some x | _ => None end;
     m_expand := false |}.

Lemma scan_plain_exact l : Forall plain l -> forall tl acc, scan_name (l ++ tl) false acc = scan_name tl false (rev l ++ acc).
Proof.
  induction 1 as [|c l [H1 [H2 [H3 [H4 H5]]]] Hl IH]; intros tl acc; cbn [app rev]; [reflexivity|].
  cbn [scan_name]. apply N.eqb_neq in H1, H2, H3, H4, H5. rewrite H1, H2, H3, H4, H5. cbn [orb]. rewrite IH, <- app_assoc. reflexivity.
Qed.

Lemma scan_spec_plain_exact l : forallb not_brace l = true -> forall tl k acc ex,
  scan_spec (l ++ tl) k acc ex = scan_spec tl k (rev l ++ acc) ex.
Proof.
  induction l as [|c l IH]; cbn [forallb app rev]; intros H tl k acc ex; [reflexivity|].
  apply andb_prop in H. destruct H as [Hc Hl]. cbn [scan_spec].
  unfold not_brace in Hc. apply negb_true_iff in Hc. apply orb_false_elim in Hc. destruct Hc as [H1 H2].
  rewrite H1, H2. rewrite IH by exact Hl. rewrite <- app_assoc. reflexivity.
Qed.

Lemma name_tail_head fuel : forall s t r, m_name_tail U fuel s = (t, r) ->
  match t with [] => True | c :: _ => c = 46 \/ c = 91 end.
Proof.
  destruct fuel as [|fuel]; intros s t r; cbn [m_name_tail]; [intros H; inversion H; exact I|].
  destruct s as [|c s0]; [intros H; inversion H; exact I|].
  destruct (N.eqb_spec c 46) as [->|].
  - destruct (m_ident U s0) as [[id r']|]; [|intros H; inversion H; exact I].
    destruct (m_name_tail U fuel r') as [t' r'']. intros H; inversion H. left; reflexivity.
  - destruct (N.eqb_spec c 91) as [->|]; [|intros H; inversion H; exact I].
    destruct (FmtPyBrace.span (fun x => negb (x =? 93)) s0) as [[|i0 ix] r']; [intros H; inversion H; exact I|].
    destruct r' as [|c' r'']; [intros H; inversion H; exact I|].
    destruct (m_name_tail U fuel r'') as [t' r3]. intros H; inversion H. right; reflexivity.
Qed.

Definition name_wf (n : list N) : Prop :=
  n <> [] /\ Forall plain n /\ (forallb (u_d U) n = true \/ exists c n', n = c :: n' /\ u_d U c = false).

Lemma field_name_flat s n r : m_field_name U s = Some (n, r) -> no_dot_bracket n = true -> s = n ++ r /\ name_wf n.
Proof.
  unfold m_field_name. destruct s as [|c t]; [discriminate|].
  assert (Htail : forall pre tl0, pre <> [] -> no_dot_bracket (pre ++ tl0) = true ->
                  match tl0 with [] => True | x :: _ => x = 46 \/ x = 91 end -> tl0 = []).
  { intros pre tl0 _ Hnd Hh. destruct tl0 as [|x tl1]; [reflexivity|]. exfalso.
    unfold no_dot_bracket in Hnd. rewrite forallb_app in Hnd. apply andb_prop in Hnd. destruct Hnd as [_ Hnd].
    cbn [forallb] in Hnd. apply andb_prop in Hnd. destruct Hnd as [Hx _]. destruct Hh as [-> | ->]; discriminate Hx. }
  destruct (u_d U c) eqn:Ed.
  - pose proof (span_app (u_d U) (c :: t)) as Ha. pose proof (span_forall (u_d U) (c :: t)) as Hf.
    destruct (FmtPyBrace.span (u_d U) (c :: t)) as [ds r0] eqn:Esp. cbn [fst snd] in *.
    assert (Hds : ds <> []). { cbn [FmtPyBrace.span] in Esp. rewrite Ed in Esp. destruct (FmtPyBrace.span (u_d U) t). inversion Esp. discriminate. }
    destruct (m_name_tail U (length r0) r0) as [tl0 r'] eqn:Et.
    pose proof (name_tail_head _ _ _ _ Et) as Hh. apply name_tail_scan in Et; [|exact Hch]. destruct Et as [Hr0 _].
    intros H Hnd; inversion H; subst n r. rewrite (Htail ds tl0 Hds Hnd Hh) in *. rewrite app_nil_r in *. cbn [app] in Hr0. subst r0.
    split; [symmetry; exact Ha|]. split; [exact Hds|]. split; [|left; exact Hf].
    apply forallb_Forall in Hf. eapply Forall_impl; [|exact Hf]. intros x Hx. exact (uc_d U Hch x Hx).
  - destruct (m_ident U (c :: t)) as [[id r0]|] eqn:Ei; [|discriminate].
    pose proof Ei as Ei'. apply (m_ident_scan U Hch) in Ei. destruct Ei as [Hi Hp].
    destruct (m_name_tail U (length r0) r0) as [tl0 r'] eqn:Et.
    pose proof (name_tail_head _ _ _ _ Et) as Hh. apply name_tail_scan in Et; [|exact Hch]. destruct Et as [Hr0 _].
    assert (Hid : exists w, id = c :: w).
    { unfold m_ident in Ei'. destruct (ident_start U c); [|discriminate]. destruct (FmtPyBrace.span (u_w U) t). inversion Ei'. eauto. }
    destruct Hid as [w ->].
    intros H Hnd; inversion H; subst n r. rewrite (Htail (c :: w) tl0 ltac:(discriminate) Hnd Hh) in *. rewrite app_nil_r in *. cbn [app] in Hr0. subst r0.
    split; [exact Hi|]. split; [discriminate|]. split; [exact Hp|]. right. exists c, w. split; [reflexivity|exact Ed].
Qed.

Lemma body_flat fuel : forall s t r, m_format_body U fuel s = Some (t, [], r) ->
  s = t ++ r /\ forallb not_brace t = true /\ match r with [] => True | c :: _ => c = 125 end.
Proof.
  destruct fuel as [|fuel]; intros s t r; cbn [m_format_body]; [discriminate|].
  pose proof (span_app not_brace s) as Ha. pose proof (span_forall not_brace s) as Hf. pose proof (span_stop not_brace s) as Hst.
  destruct (FmtPyBrace.span not_brace s) as [run r0]. cbn [fst snd] in *.
  destruct r0 as [|c r1]; [intros H; injection H as <- <-; split; [symmetry; exact Ha|split; [exact Hf|exact I]]|].
  destruct (N.eqb_spec c 123) as [->|Hc].
  - destruct (m_simple_field U (123 :: r1)) as [[nm r']|]; [|discriminate].
    destruct (m_format_body U fuel r') as [[[t' ns'] r'']|]; discriminate.
  - intros H; injection H as <- <-. split; [symmetry; exact Ha|]. split; [exact Hf|].
    unfold not_brace in Hst. apply negb_false_iff in Hst. apply orb_prop in Hst.
    destruct Hst as [Hx|Hx]; apply N.eqb_eq in Hx; congruence.
Qed.

Record field_wf (f : field_match) : Prop := {
  fw_name : match f_name f with None => True | Some n => name_wf n end;
  fw_fmt : match f_fmt f with None => True | Some fm => exists t, fm = 58 :: t /\ forallb not_brace t = true end }.

Lemma m_field_parse_flat r f r4 : m_field U (123 :: r) = Some (f, r4) -> conv_ok (f_conv f) -> flat_field f = true ->
  parse_field r = Some (mfield_of f, r4) /\ field_wf f.
Proof.
  unfold m_field. replace (123 =? 123) with true by reflexivity.
  (* name *)
  assert (Hn : exists nm r1, (match m_field_name U r with Some (n, r') => (Some n, r') | None => (None, r) end) = (nm, r1) /\
               (forall n, nm = Some n -> m_field_name U r = Some (n, r1)) /\ (nm = None -> r1 = r)).
  { destruct (m_field_name U r) as [[n r']|]; [exists (Some n), r'|exists None, r]; (split; [reflexivity|]); split; congruence. }
  destruct Hn as [nm [r1 [-> [Hnm1 Hnm2]]]].
  (* conversion *)
  set (cvr := match r1 with
              | c1 :: r1' => if c1 =? 33 then match FmtPyBrace.span (u_w U) r1' with ((_ :: _) as w, r') => (Some (c1 :: w), r') | _ => (None, r1) end else (None, r1)
              | [] => (None, r1) end).
  assert (Hc : (fst cvr = None /\ snd cvr = r1) \/ (exists w, w <> [] /\ fst cvr = Some (33 :: w) /\ r1 = 33 :: w ++ snd cvr)).
  { unfold cvr. destruct r1 as [|c1 r1']; [left; split; reflexivity|].
    destruct (N.eqb_spec c1 33) as [->|]; [|left; split; reflexivity].
    pose proof (span_app (u_w U) r1') as Ha. destruct (FmtPyBrace.span (u_w U) r1') as [[|w0 w] r']; cbn [fst snd] in *; [left; split; reflexivity|].
    right. exists (w0 :: w). split; [discriminate|]. split; [reflexivity|]. rewrite <- Ha. reflexivity. }
  destruct cvr as [cv r2]. cbn [fst snd] in Hc.
  (* format *)
  set (fmr := match r2 with
              | c2 :: r2' => if c2 =? 58 then match m_format_body U (S (length r2')) r2' with Some (t0, ns, r') => (Some (c2 :: t0), ns, r') | None => (None, [], r2) end else (None, [], r2)
              | [] => (None, [], r2) end).
  assert (Hf : (fst (fst fmr) = None /\ snd fmr = r2) \/
               (exists t0 r2', fst (fst fmr) = Some (58 :: t0) /\ r2 = 58 :: r2' /\
                               m_format_body U (S (length r2')) r2' = Some (t0, snd (fst fmr), snd fmr))).
  { unfold fmr. destruct r2 as [|c2 r2']; [left; split; reflexivity|].
    destruct (N.eqb_spec c2 58) as [->|]; [|left; split; reflexivity].
    destruct (m_format_body U (S (length r2')) r2') as [[[t0 ns] r']|] eqn:Eb; [|left; split; reflexivity].
    right. exists t0, r2'. cbn [fst snd]. auto. }
  destruct fmr as [[fm ns] r3]. cbn [fst snd] in Hf.
  destruct r3 as [|c3 r4']; [discriminate|]. destruct (N.eqb_spec c3 125) as [->|]; [|discriminate].
  intros H; injection H as <- <-. unfold flat_field, mfield_of. cbn [f_conv f_nested f_name f_fmt]. intros Hcv Hflat.
  apply andb_prop in Hflat. destruct Hflat as [Hns Hnd]. destruct ns as [|? ?]; [|discriminate]. clear Hns.
  (* the name text *)
  assert (Hname : exists nt, r = nt ++ r1 /\ Forall plain nt /\ nt = match nm with Some n => n | None => [] end /\
                  match nm with None => True | Some n => name_wf n end).
  { destruct nm as [n|].
    - destruct (field_name_flat _ _ _ (Hnm1 n eq_refl) Hnd) as [E Hw]. exists n. split; [exact E|]. split; [exact (proj1 (proj2 Hw))|]. split; [reflexivity|exact Hw].
    - exists []. split; [rewrite (Hnm2 eq_refl); reflexivity|]. split; [constructor|]. split; [reflexivity|exact I]. }
  destruct Hname as [nt [Hr [Hplain [Hnt Hnwf]]]].
  (* the format text *)
  assert (Hfmt : (fm = None /\ r2 = 125 :: r4') \/ (exists t0, fm = Some (58 :: t0) /\ r2 = 58 :: t0 ++ 125 :: r4' /\ forallb not_brace t0 = true)).
  { destruct Hf as [[-> ->]|[t0 [r2' [-> [-> Eb]]]]]; [left; split; reflexivity|]. right. exists t0.
    apply body_flat in Eb. destruct Eb as [-> [Hnb _]]. split; [reflexivity|]. split; [reflexivity|exact Hnb]. }
  split.
  2:{ constructor; cbn [f_name f_fmt]; [exact Hnwf|]. destruct Hfmt as [[-> _]|[t0 [-> [_ Hnb]]]]; [exact I|]. exists t0. split; [reflexivity|exact Hnb]. }
  unfold parse_field. rewrite Hr, (scan_plain_exact nt Hplain r1 []), app_nil_r.
  destruct Hc as [[-> ->]|[w [Hw [-> Hr1]]]].
  - (* no conversion *)
    destruct Hfmt as [[-> ->]|[t0 [-> [-> Hnb]]]].
    + rewrite scan_name_term by reflexivity. rewrite rev_involutive. cbn [N.eqb Pos.eqb]. rewrite <- Hnt. reflexivity.
    + rewrite scan_name_term by reflexivity. rewrite rev_involutive. cbn [N.eqb Pos.eqb].
      rewrite (scan_spec_plain_exact t0 Hnb). cbn [scan_spec N.eqb Pos.eqb]. rewrite app_nil_r, rev_involutive, <- Hnt. reflexivity.
  - (* !x *)
    destruct Hcv as [Hcv|[x Hcv]]; [discriminate|]. injection Hcv as ->. rewrite Hr1. cbn [app].
    rewrite scan_name_term by reflexivity. rewrite rev_involutive. cbn [N.eqb Pos.eqb].
    destruct Hfmt as [[-> ->]|[t0 [-> [-> Hnb]]]].
    + cbn [N.eqb Pos.eqb]. rewrite <- Hnt. reflexivity.
    + cbn [N.eqb Pos.eqb]. rewrite (scan_spec_plain_exact t0 Hnb). cbn [scan_spec N.eqb Pos.eqb].
      rewrite app_nil_r, rev_involutive, <- Hnt. reflexivity.
Qed.

(* ---------------------------------------------------------------- the loop as a fold over the fields found *)
Fixpoint pb_fields (fuel : nat) (s : list N) : list field_match :=
  match fuel with
  | O => []
  | S fuel' =>
    match s with
    | [] => []
    | _ :: _ =>
      match m_field_re U s with
      | Some (BLit _, rest) => pb_fields fuel' rest
      | Some (BField f, rest) => f :: pb_fields fuel' rest
      | None => []
      end
    end
  end.

Fixpoint fold_fields (fs : list field_match) (st : bstate) : outcome bstate pb_err :=
  match fs with
  | [] => Ok st
  | f :: r => do st' <- field_init U M st f; fold_fields r st'
  end.

Notation field_guard := (FmtPyBraceDomain.field_guard U).
Notation flat_guard := (FmtPyBraceDomain.flat_guard U).

Lemma flat_nested_guard fuel : forall s, flat_guard fuel s = true -> nested_guard U fuel s = true.
Proof.
  induction fuel as [|fuel IH]; intros s; cbn [flat_guard nested_guard]; [reflexivity|].
  destruct s as [|c r]; [reflexivity|]. destruct (m_field_re U (c :: r)) as [[[t|f] rest]|]; [apply IH| |reflexivity].
  intros H. apply andb_prop in H. destruct H as [Hf Hr]. rewrite (IH _ Hr), andb_true_r.
  unfold field_guard, flat_field in Hf. apply andb_prop in Hf. destruct Hf as [Hf _]. apply andb_prop in Hf. destruct Hf as [Hn _].
  destruct (f_nested f); [reflexivity|discriminate].
Qed.

Lemma bloop_fields fuel : forall s st fin, (length s < fuel)%nat ->
  bloop U M fuel s st = Ok fin -> flat_guard fuel s = true ->
  fold_fields (pb_fields fuel s) st = Ok fin /\
  mf s = map mfield_of (pb_fields fuel s) /\
  Forall (fun f => field_wf f /\ field_guard f = true /\ conv_ok (f_conv f)) (pb_fields fuel s).
Proof.
  induction fuel as [|fuel IH]; intros s st fin Hl; [lia|]. cbn [bloop flat_guard pb_fields].
  destruct s as [|c r]; [intros H _; split; [exact H|split; [reflexivity|constructor]]|].
  destruct (m_field_re U (c :: r)) as [[it rest]|] eqn:Em.
  2:{ unfold printable_prefix. destruct (fst (FmtPyBrace.span is_printable_ascii (c :: r))); discriminate. }
  pose proof (m_field_re_some U _ _ _ Em) as [Hlen _].
  unfold m_field_re in Em. pose proof (mf_literal (length (c :: r)) (c :: r) (le_n _)) as Hlit.
  destruct (m_literal (c :: r)) as [[|t0 t] r0] eqn:El; cbn [snd] in Hlit.
  - destruct (m_field U (c :: r)) as [[f r4]|] eqn:Ef; [|discriminate]. injection Em as <- <-.
    destruct (field_init U M st f) as [st'| |] eqn:Efi; cbn [obind]; try discriminate.
    intros Hb Hg. apply andb_prop in Hg. destruct Hg as [Hg1 Hg2].
    assert (Hc : c = 123). { unfold m_field in Ef. destruct (N.eqb_spec c 123); [assumption|discriminate]. }
    subst c.
    destruct r as [|c1 r2]. { unfold m_field in Ef. cbn in Ef. discriminate. }
    assert (Hc1 : (c1 =? 123) = false).
    { cbn [m_literal] in El. replace (not_brace 123) with false in El by reflexivity.
      destruct (c1 =? 123); [|reflexivity]. destruct (m_literal r2). discriminate. }
    assert (Hflat : flat_field f = true) by (unfold field_guard in Hg1; apply andb_prop in Hg1; tauto).
    pose proof (field_init_conv U M _ _ _ Efi) as Hcv.
    destruct (m_field_parse_flat (c1 :: r2) f r4 Ef Hcv Hflat) as [Ep Hwf].
    destruct (IH r4 st' fin ltac:(cbn [length] in *; lia) Hb Hg2) as [H1 [H2 H3]].
    split; [cbn [fold_fields]; rewrite Efi; exact H1|]. split.
    + rewrite (mf_field c1 r2 Hc1), Ep, H2. reflexivity.
    + constructor; [auto|exact H3].
  - injection Em as <- <-. intros Hb Hg. rewrite Hlit. apply (IH r0 st fin); [lia|exact Hb|exact Hg].
Qed.

(* ---------------------------------------------------------------- CPython's handling of one field *)
Hypothesis Hs : ucd_spec U M.
Notation dv := (u_decval U).

Section Args.
Variable args : list bval.
Variable kw : list (list N * bval).

Definition field_step (f : mfield) (an : autonum) : fres + autonum :=
  if m_expand f then inl FOutside else
  match split_name dv (m_name f) with
  | NCompound => inl FOutside
  | nm =>
    let look : fres + (bval * autonum) :=
      match nm with
      | NAuto =>
        match an with
        | ANManual => inl FValueError
        | ANInit => match nth_error args 0 with Some v => inr (v, ANAuto 1) | None => inl FIndexError end
        | ANAuto n => match nth_error args n with Some v => inr (v, ANAuto (S n)) | None => inl FIndexError end
        end
      | NIndex None => inl FValueError
      | NIndex (Some i) =>
        match an with
        | ANAuto _ => inl FValueError
        | _ => match nth_error args (Z.to_nat i) with Some v => inr (v, ANManual) | None => inl FIndexError end
        end
      | NKey k => match kw_lookup k kw with Some v => inr (v, an) | None => inl FKeyError end
      | NCompound => inl FOutside
      end in
    match look with
    | inl e => inl e
    | inr (v, an') =>
      let cv : option bval :=
        match m_conv f with
        | None => Some v
        | Some c => if CPyFormat.in_chars c [114; 115; 97] then Some (BStr []) else None
        end in
      match cv with
      | None => inl FValueError
      | Some v' => match format_value dv v' (m_spec f) with FSuccess => inr an' | e => inl e end
      end
    end
  end.

Lemma format_items_step l f r an :
  format_items dv ((l, Some f) :: r) args kw an =
    match field_step f an with inl e => e | inr an' => format_items dv r args kw an' end.
Proof.
  cbn [format_items]. unfold field_step. destruct (m_expand f); [reflexivity|].
  destruct (split_name dv (m_name f)) as [|[i|]|k|]; try reflexivity.
  - destruct an as [|n|]; try reflexivity.
    + destruct (nth_error args 0); [|reflexivity]. destruct (m_conv f) as [c|]; [destruct (CPyFormat.in_chars c [114; 115; 97]); [|reflexivity]|];
        (destruct (format_value dv _ (m_spec f)); reflexivity).
    + destruct (nth_error args n); [|reflexivity]. destruct (m_conv f) as [c|]; [destruct (CPyFormat.in_chars c [114; 115; 97]); [|reflexivity]|];
        (destruct (format_value dv _ (m_spec f)); reflexivity).
  - destruct an as [|n|]; try reflexivity;
      (destruct (nth_error args (Z.to_nat i)); [|reflexivity]; destruct (m_conv f) as [c|]; [destruct (CPyFormat.in_chars c [114; 115; 97]); [|reflexivity]|];
        (destruct (format_value dv _ (m_spec f)); reflexivity)).
  - destruct (kw_lookup k kw); [|reflexivity]. destruct (m_conv f) as [c|]; [destruct (CPyFormat.in_chars c [114; 115; 97]); [|reflexivity]|];
      (destruct (format_value dv _ (m_spec f)); reflexivity).
Qed.

(* only the fields matter *)
Lemma format_items_fields items : forall an,
  format_items dv items args kw an = format_items dv (map (fun f => ([], Some f)) (fields_of items)) args kw an.
Proof.
  induction items as [|[l [f|]] r IH]; intros an; [reflexivity| |].
  - cbn [fields_of flat_map snd app map]. fold (fields_of r). rewrite !format_items_step.
    destruct (field_step f an); [reflexivity|apply IH].
  - cbn [format_items fields_of flat_map snd app]. apply IH.
Qed.

(* ---------------------------------------------------------------- bookkeeping *)
Definition has (m : list (akey * list fkind)) (key : akey) (k : fkind) : Prop :=
  exists l, In (key, l) m /\ In k l.

Lemma akey_eqb_eq a b : akey_eqb a b = true -> a = b.
Proof.
  destruct a as [x|x], b as [y|y]; cbn [akey_eqb]; try discriminate.
  - intros H. apply Z.eqb_eq in H. congruence.
  - intros H. apply pb_list_eqb_eq in H. congruence.
Qed.

Lemma bmap_add_has k f m : has (bmap_add k f m) k f.
Proof.
  induction m as [|[k0 fs] r IH]; cbn [bmap_add].
  - exists [f]. split; left; reflexivity.
  - destruct (akey_eqb k0 k) eqn:E.
    + apply akey_eqb_eq in E. subst k0. exists (fs ++ [f]). split; [left; reflexivity|apply in_or_app; right; left; reflexivity].
    + destruct IH as [l [H1 H2]]. exists l. split; [right; exact H1|exact H2].
Qed.

Lemma bmap_add_keeps k f m k' f' : has m k' f' -> has (bmap_add k f m) k' f'.
Proof.
  induction m as [|[k0 fs] r IH]; cbn [bmap_add]; intros [l [H1 H2]]; [destruct H1|].
  destruct H1 as [H1|H1].
  - inversion H1; subst. destruct (akey_eqb k' k).
    + exists (l ++ [f]). split; [left; reflexivity|apply in_or_app; left; exact H2].
    + exists l. split; [left; reflexivity|exact H2].
  - destruct (akey_eqb k0 k).
    + exists l. split; [right; exact H1|exact H2].
    + destruct (IH (ex_intro _ l (conj H1 H2))) as [l' [H3 H4]]. exists l'. split; [right; exact H3|exact H4].
Qed.

(* the value str.format looks up for a key *)
Definition arg_for (key : akey) : option bval :=
  match key with
  | KNum i => nth_error args (Z.to_nat i)
  | KName k => kw_lookup k kw
  end.

(* _next_arg_index and CPython's AutoNumber state *)
Definition an_rel (next : option Z) (an : autonum) : Prop :=
  match next with
  | None => an = ANManual
  | Some n => (n = 0%Z /\ an = ANInit) \/ (exists k, n = Z.of_nat k /\ (0 < k)%nat /\ an = ANAuto k)
  end.

Lemma get_integer_go_spec l : forall a v, (0 <= a)%Z -> dec_value U l a = Some v -> (v <= PY_SSIZE_T_MAX)%Z ->
  get_integer_go dv l a = Some (Some v).
Proof.
  induction l as [|c l IH]; intros a v Ha; cbn [dec_value get_integer_go]; [intros H _; inversion H; reflexivity|].
  destruct (dv c) as [d|]; [|discriminate]. intros Hv Hmax.
  assert (Ha' : (0 <= a * 10 + Z.of_N d)%Z) by lia.
  pose proof (dec_value_mono U l _ _ Ha' Hv) as Hm.
  rewrite Z.gtb_ltb. destruct (Z.ltb_spec PY_SSIZE_T_MAX (a * 10 + Z.of_N d)); [lia|]. apply IH; assumption.
Qed.

Lemma no_brace_no_open t : forallb not_brace t = true -> existsb (N.eqb 123) t = false.
Proof.
  induction t as [|c t IH]; cbn [forallb existsb]; [reflexivity|]. intros H. apply andb_prop in H. destruct H as [Hc Ht].
  rewrite (IH Ht), orb_false_r. unfold not_brace in Hc. apply negb_true_iff, orb_false_elim in Hc. destruct Hc as [Hc _].
  rewrite N.eqb_sym. exact Hc.
Qed.

(* ---------------------------------------------------------------- what Field.__init__ did, for a flat field *)
Lemma add_argument_ok st name key st1 : lift_add (add_argument U M st name) = Ok (key, st1) ->
  b_map st1 = b_map st /\
  match name with
  | None => exists n, b_next st = Some n /\ key = KNum n /\ b_next st1 = Some (n + 1)%Z
  | Some nm =>
    (nm <> [] /\ exists n, dec_value U nm 0 = Some n /\ (n <= M)%Z /\ key = KNum n /\ b_next st1 = None /\
                  (b_next st = None \/ b_next st = Some 0%Z)) \/
    ((nm = [] \/ forallb (u_isdecimal U) nm = false) /\ key = KName nm /\ st1 = st)
  end.
Proof.
  unfold add_argument. destruct name as [nm|].
  - destruct (match nm with [] => false | _ :: _ => forallb (u_isdecimal U) nm end) eqn:Ed.
    + destruct (py_int U nm) as [n| |] eqn:Ep; cbn [obind lift_add]; try discriminate.
      2:{ destruct e; discriminate. }
      destruct (n >? M)%Z eqn:En; [discriminate|].
      apply (py_int_value U) in Ep. destruct Ep as [Ev Hne].
      destruct (b_next st) as [i|] eqn:Eb.
      * destruct (i =? 0)%Z eqn:Ei; [|discriminate]. cbn [lift_add]. intros H; injection H as <- <-. cbn [b_map b_next].
        split; [reflexivity|]. left. split; [exact Hne|]. exists n. repeat split; try reflexivity; [exact Ev|lia|].
        right. apply Z.eqb_eq in Ei. congruence.
      * cbn [lift_add]. intros H; injection H as <- <-. split; [reflexivity|]. left. split; [exact Hne|]. exists n.
        repeat split; try reflexivity; [exact Ev|lia|exact Eb|]. left. reflexivity.
    + cbn [lift_add]. intros H; injection H as <- <-. split; [reflexivity|]. right. split; [|split; reflexivity].
      destruct nm; [left; reflexivity|right; exact Ed].
  - destruct (b_next st) as [n|]; [|discriminate]. destruct (n >? M)%Z; [discriminate|]. cbn [lift_add].
    intros H; injection H as <- <-. cbn [b_map b_next]. split; [reflexivity|]. exists n. repeat split; reflexivity.
Qed.

Lemma conv_check_str x tp : conv_check (Some [33; x]) tp = Ok tt -> CPyFormat.in_chars x [114; 115; 97] = true /\ t_str tp = true.
Proof.
  unfold conv_check, s_conv_s, s_conv_r, s_conv_a. cbn [FmtPyBrace.list_eqb N.eqb Pos.eqb andb]. unfold CPyFormat.in_chars. cbn [existsb].
  rewrite !andb_true_r, !orb_false_r.
  destruct (x =? 115), (x =? 114), (x =? 97); cbn [orb]; try discriminate; (destruct (t_str tp); [auto|discriminate]).
Qed.

Lemma field_init_flat st f st' : field_init U M st f = Ok st' -> field_wf f ->
  exists key st1 tp, lift_add (add_argument U M st (f_name f)) = Ok (key, st1) /\
    st' = file_field st1 key (FField tp) /\ conv_check (f_conv f) tp = Ok tt /\
    ((f_fmt f = None /\ tp = t_all) \/ (exists t, f_fmt f = Some (58 :: t) /\ spec_types U M (f_text f) t = Ok tp /\ forallb not_brace t = true)).
Proof.
  intros H Hwf. unfold field_init in H.
  destruct (lift_add (add_argument U M st (f_name f))) as [[key st1]| |] eqn:Ea; cbn [obind] in H; try discriminate H.
  exists key, st1. pose proof (fw_fmt f Hwf) as Hfmt.
  destruct (f_fmt f) as [fm|].
  - destruct Hfmt as [t [-> Hnb]]. cbn [existsb] in H. rewrite (no_brace_no_open t Hnb) in H. cbn [N.eqb Pos.eqb orb] in H.
    destruct (spec_types U M (f_text f) t) as [tp| |] eqn:Es; cbn [obind] in H; try discriminate H.
    destruct (conv_check (f_conv f) tp) as [[]| |] eqn:Ec; cbn [obind] in H; try discriminate H. injection H as <-.
    exists tp. split; [reflexivity|]. split; [reflexivity|]. split; [exact Ec|]. right. exists t. auto.
  - destruct (conv_check (f_conv f) t_all) as [[]| |] eqn:Ec; cbn [obind] in H; try discriminate H. injection H as <-.
    exists t_all. split; [reflexivity|]. split; [reflexivity|]. split; [exact Ec|]. left. auto.
Qed.

Lemma ndb_existsb n : no_dot_bracket n = true -> existsb (fun c => (c =? 46) || (c =? 91)) n = false.
Proof.
  unfold no_dot_bracket. induction n as [|c n IH]; cbn [forallb existsb]; [reflexivity|]. intros H. apply andb_prop in H.
  destruct H as [Hc Hn]. rewrite (IH Hn), orb_false_r. apply negb_true_iff. exact Hc.
Qed.

(* the value formats with the field's spec *)
Lemma field_format_ok f tp v : field_guard f = true ->
  ((f_fmt f = None /\ tp = t_all) \/ (exists t, f_fmt f = Some (58 :: t) /\ spec_types U M (f_text f) t = Ok tp /\ forallb not_brace t = true)) ->
  val_in v tp = true -> format_value dv v (m_spec (mfield_of f)) = FSuccess.
Proof.
  intros Hg Hf Hv. unfold mfield_of. cbn [m_spec]. destruct Hf as [[-> _]|[t [Ef [Es Hnb]]]]; [reflexivity|].
  rewrite Ef. unfold field_guard in Hg. rewrite Ef in Hg. apply andb_prop in Hg. destruct Hg as [_ Hg].
  exact (spec_sound U M Hs (f_text f) t tp v Es Hnb Hg Hv).
Qed.

Lemma field_ok st f st' an :
  field_init U M st f = Ok st' -> field_wf f -> field_guard f = true -> conv_ok (f_conv f) -> an_rel (b_next st) an ->
  (forall key k, has (b_map st') key k -> exists v, arg_for key = Some v /\ val_in v (fk_types k) = true) ->
  (exists key tp, b_map st' = bmap_add key (FField tp) (b_map st)) /\
  exists an', field_step (mfield_of f) an = inr an' /\ an_rel (b_next st') an'.
Proof.
  intros Hi Hwf Hg Hcv Han Hpre.
  destruct (field_init_flat _ _ _ Hi Hwf) as [key [st1 [tp [Ea [-> [Ecv Hfmt]]]]]].
  destruct (add_argument_ok _ _ _ _ Ea) as [Hmap Hname].
  cbn [file_field b_map b_next] in *. rewrite Hmap in *.
  split; [exists key, tp; reflexivity|].
  (* the looked-up value *)
  destruct (Hpre key (FField tp) (bmap_add_has key (FField tp) (b_map st))) as [v [Hv Hvt]]. cbn [fk_types] in Hvt.
  (* conversion and format, once the value is known *)
  assert (Hfin : forall an', (match (match m_conv (mfield_of f) with
                                     | None => Some v
                                     | Some c => if CPyFormat.in_chars c [114; 115; 97] then Some (BStr []) else None end) with
                              | None => inl FValueError
                              | Some v' => match format_value dv v' (m_spec (mfield_of f)) with FSuccess => inr an' | e => inl e end
                              end) = (inr an' : fres + autonum)).
  { intros an'. unfold mfield_of at 1. cbn [m_conv]. destruct Hcv as [Hcv|[x Hcv]]; rewrite Hcv in *.
    - rewrite (field_format_ok f tp v Hg Hfmt Hvt). reflexivity.
    - destruct (conv_check_str x tp Ecv) as [Hin Hstr]. rewrite Hin. rewrite (field_format_ok f tp (BStr []) Hg Hfmt Hstr). reflexivity. }
  assert (Hflat : match f_name f with Some n => no_dot_bracket n = true | None => True end).
  { unfold field_guard, flat_field in Hg. apply andb_prop in Hg. destruct Hg as [Hg _]. apply andb_prop in Hg. destruct Hg as [_ Hg].
    destruct (f_name f); [exact Hg|exact I]. }
  pose proof (fw_name f Hwf) as Hnwf.
  unfold field_step. cbn [m_expand mfield_of]. fold (mfield_of f).
  destruct (f_name f) as [nm|] eqn:En.
  - (* a name *)
    destruct Hnwf as [Hne [_ Hshape]].
    replace (m_name (mfield_of f)) with nm by (unfold mfield_of; cbn [m_name]; rewrite En; reflexivity).
    unfold split_name. rewrite (ndb_existsb nm Hflat).
    destruct Hname as [[_ [n [Ev [HnM [-> [Hn1 Hn0]]]]]]|[Hnd [-> ->]]].
    + (* an index *)
      assert (Hgi : get_integer dv nm = Some (Some n)).
      { unfold get_integer. destruct nm as [|c0 nm']; [congruence|]. apply get_integer_go_spec; [lia|exact Ev|].
        pose proof (us_M U M Hs). unfold PY_SSIZE_T_MAX. lia. }
      destruct nm as [|c0 nm']; [congruence|]. rewrite Hgi. cbn [arg_for] in Hv.
      assert (Han' : an = ANManual \/ an = ANInit).
      { destruct Hn0 as [E|E]; rewrite E in Han; cbn [an_rel] in Han; [left; exact Han|].
        destruct Han as [[_ H]|[k [Hk [Hpos _]]]]; [right; exact H|lia]. }
      exists ANManual. split; [|rewrite Hn1; reflexivity].
      destruct Han' as [-> | ->]; rewrite Hv; apply Hfin.
    + (* a keyword *)
      assert (Hgi : get_integer dv nm = None).
      { destruct Hnd as [->|Hnd]; [congruence|].
        destruct Hshape as [Hall|[c [n' [-> Hc]]]].
        - exfalso. assert (forallb (u_isdecimal U) nm = true) by (eapply forallb_impl; [exact (ok_d U (us_ok U M Hs))|exact Hall]). congruence.
        - unfold get_integer. cbn [get_integer_go]. destruct (dv c) eqn:Ec; [|reflexivity].
          assert (u_d U c = true) by (apply (us_d U M Hs); congruence). congruence. }
      destruct nm as [|c0 nm']; [congruence|]. rewrite Hgi. cbn [arg_for] in Hv. rewrite Hv.
      exists an. split; [apply Hfin|exact Han].
  - (* automatic numbering *)
    destruct Hname as [n [Hb [-> Hb1]]].
    replace (m_name (mfield_of f)) with (@nil N) by (unfold mfield_of; cbn [m_name]; rewrite En; reflexivity).
    cbn [split_name existsb]. cbn [arg_for] in Hv.
    rewrite Hb in Han. cbn [an_rel] in Han. destruct Han as [[-> ->]|[k [-> [Hpos ->]]]].
    + cbn [Z.to_nat] in Hv. rewrite Hv. exists (ANAuto 1). split; [apply Hfin|].
      rewrite Hb1. cbn [an_rel]. right. exists 1%nat. split; [reflexivity|split; [lia|reflexivity]].
    + rewrite Nat2Z.id in Hv. rewrite Hv. exists (ANAuto (S k)). split; [apply Hfin|].
      rewrite Hb1. cbn [an_rel]. right. exists (S k). split; [lia|split; [lia|reflexivity]].
Qed.

(* ---------------------------------------------------------------- the whole string *)
Definition fgood (f : field_match) : Prop := field_wf f /\ field_guard f = true /\ conv_ok (f_conv f).

Lemma fold_mono fs : forall st fin, fold_fields fs st = Ok fin -> Forall fgood fs ->
  forall key k, has (b_map st) key k -> has (b_map fin) key k.
Proof.
  induction fs as [|f r IH]; intros st fin; cbn [fold_fields]; [intros H _; inversion H; auto|].
  destruct (field_init U M st f) as [st'| |] eqn:Ei; cbn [obind]; try discriminate.
  intros H Hall key k Hk. inversion Hall as [|? ? [Hwf _] Hr]; subst.
  apply (IH st' fin H Hr).
  destruct (field_init_flat _ _ _ Ei Hwf) as [key0 [st1 [tp [Ea [-> _]]]]].
  destruct (add_argument_ok _ _ _ _ Ea) as [Hmap _]. cbn [file_field b_map]. rewrite Hmap. apply bmap_add_keeps. exact Hk.
Qed.

Lemma walk fs : forall st fin an, fold_fields fs st = Ok fin -> Forall fgood fs -> an_rel (b_next st) an ->
  (forall key k, has (b_map fin) key k -> exists v, arg_for key = Some v /\ val_in v (fk_types k) = true) ->
  format_items dv (map (fun f => ([], Some (mfield_of f))) fs) args kw an = FSuccess.
Proof.
  induction fs as [|f r IH]; intros st fin an; cbn [fold_fields map]; [reflexivity|].
  destruct (field_init U M st f) as [st'| |] eqn:Ei; cbn [obind]; try discriminate.
  intros H Hall Han Hpre. inversion Hall as [|? ? [Hwf [Hg Hcv]] Hr]; subst.
  assert (Hpre' : forall key k, has (b_map st') key k -> exists v, arg_for key = Some v /\ val_in v (fk_types k) = true).
  { intros key k Hk. apply Hpre. exact (fold_mono r st' fin H Hr key k Hk). }
  destruct (field_ok st f st' an Ei Hwf Hg Hcv Han Hpre') as [_ [an' [Estep Han']]].
  rewrite format_items_step, Estep. exact (IH st' fin an' H Hr Han' Hpre).
Qed.

Lemma val_in_and v a b : val_in v (t_and a b) = true -> val_in v a = true /\ val_in v b = true.
Proof.
  destruct v as [z| |sv]; cbn [val_in t_and t_str t_int t_float]; intros H.
  - apply andb_prop in H. destruct H as [H1 H2]. apply andb_prop in H1. destruct H1 as [Ha Hb]. rewrite Ha, Hb, H2. auto.
  - apply andb_prop in H. exact H.
  - apply andb_prop in H. exact H.
Qed.

Lemma fold_types_le v l : forall acc, val_in v (fold_left (fun a k => t_and a (fk_types k)) l acc) = true ->
  val_in v acc = true /\ forall k, In k l -> val_in v (fk_types k) = true.
Proof.
  induction l as [|x l IH]; intros acc; cbn [fold_left]; [intros H; split; [exact H|intros k []]|].
  intros H. destruct (IH _ H) as [H1 H2]. apply val_in_and in H1. destruct H1 as [Ha Hx].
  split; [exact Ha|]. intros k [<-|Hk]; [exact Hx|exact (H2 k Hk)].
Qed.

End Args.

(* arguments with the reported positions, names and types *)
Definition args_match (sg : pb_sig) (args : list bval) (kw : list (list N * bval)) : Prop :=
  forall key tp n, In (key, (tp, n)) (argument_map sg) ->
    exists v, arg_for args kw key = Some v /\ val_in v tp = true.

Theorem flat_formats s sg args kw :
  pybrace_parse U M s = Ok sg -> flat_guard (S (length s)) s = true -> args_match sg args kw ->
  cpy_format dv s args kw = FSuccess.
Proof.
  unfold pybrace_parse. destruct (bloop U M (S (length s)) s b0) as [fin| |] eqn:Eb; cbn [obind]; try discriminate.
  destruct (existsb (fun kv => t_empty (common_types (snd kv))) (b_map fin)); [discriminate|].
  intros H Hg Hargs. injection H as <-.
  destruct (bloop_fields (S (length s)) s b0 fin (Nat.lt_succ_diag_r _) Eb Hg) as [Hfold [Hmf Hall]].
  pose proof (bloop_markup U M Hch (S (length s)) s b0 fin (Nat.lt_succ_diag_r _) Eb (flat_nested_guard _ _ Hg)) as Hmk.
  unfold cpy_format. unfold mk in Hmk. unfold mf in Hmf.
  destruct (markup_loop (S (length s)) s) as [items ok]. cbn [fst snd] in *. subst ok.
  rewrite (format_items_fields args kw items ANInit), Hmf, map_map.
  rewrite (walk args kw (pb_fields (S (length s)) s) b0 fin ANInit Hfold Hall); [reflexivity| |].
  - cbn [b0 b_next an_rel]. left. split; reflexivity.
  - intros key k [l [Hin Hk]].
    destruct (Hargs key (common_types l) (length l)) as [v [Hv Hvt]].
    { cbn [argument_map]. apply (in_map (fun kv => (fst kv, (common_types (snd kv), length (snd kv)))) _ _ Hin). }
    exists v. split; [exact Hv|]. unfold common_types in Hvt. exact (proj2 (fold_types_le v l t_all Hvt) k Hk).
Qed.

End Flat.

(* ---------------------------------------------------------------- the reported type sets are inhabited
   An accepted string never reports an argument with an empty type set: the hypothesis args_match of flat_formats is
   satisfiable position by position, so flat_formats is not vacuous for any accepted string. *)
Lemma types_nonempty U M s sg key tp n :
  pybrace_parse U M s = Ok sg -> In (key, (tp, n)) (argument_map sg) -> t_empty tp = false.
Proof.
  unfold pybrace_parse. destruct (bloop U M (S (length s)) s b0) as [fin| |]; cbn [obind]; try discriminate.
  destruct (existsb (fun kv => t_empty (common_types (snd kv))) (b_map fin)) eqn:Ee; [discriminate|].
  intros H Hin. injection H as <-. cbn [argument_map] in Hin.
  apply in_map_iff in Hin. destruct Hin as [kv [Hkv Hin]]. injection Hkv as _ <- _.
  destruct (t_empty (common_types (snd kv))) eqn:Et; [|reflexivity].
  assert (existsb (fun kv => t_empty (common_types (snd kv))) (b_map fin) = true) as Hc.
  { apply existsb_exists. exists kv. split; assumption. }
  rewrite Hc in Ee. discriminate.
Qed.

Lemma nonempty_inhabited tp : t_empty tp = false -> exists v, val_in v tp = true.
Proof.
  unfold t_empty. destruct tp as [ts ti tf]. cbn [t_str t_int t_float].
  destruct ts; [intros _; exists (BStr []); reflexivity|].
  destruct ti; [intros _; exists (BInt 0); reflexivity|].
  destruct tf; [intros _; exists BFloat; reflexivity|]. discriminate.
Qed.

Theorem types_inhabited U M s sg key tp n :
  pybrace_parse U M s = Ok sg -> In (key, (tp, n)) (argument_map sg) -> exists v, val_in v tp = true.
Proof. intros H Hin. apply nonempty_inhabited. exact (types_nonempty U M s sg key tp n H Hin). Qed.

(* Source tie for C11 (notes/SRC14.md), fourth part: FormatString.get_last_integer_conversion = fmtc_glic. *)
From Coq Require Import List NArith ZArith Bool Lia.
From I18n Require Import Lib.Outcome Lib.CFmtSyntax Generated.CInfo Model.FmtC Model.FmtCPy Generated.FmtCSrc.
Import ListNotations.
Local Open Scope Z_scope.
Set Default Timeout 120.

Definition cref := option (nat * bool).
(* glic_loop, returning vconv as well *)
Fixpoint glic_loop2 (args : list arg) (cv vcv : cref) : option (cref * cref) :=
  match args with
  | [] => Some (cv, vcv)
  | a :: r =>
    let me := (a_cid a, a_integer a) in
    match a_kind a with
    | KConv =>
      let vcv1 := match vcv with None => Some me | _ => vcv end in
      let same x := match x with Some (i, _) => Nat.eqb i (a_cid a) | None => false end in
      let cv1 := match cv with None => if same vcv1 then Some me else None | _ => cv end in
      if same cv1 then glic_loop2 r cv1 vcv1 else None
    | _ =>
      let vcv1 := match vcv with None => Some me | _ => vcv end in
      match vcv1 with
      | Some (i, _) => if Nat.eqb i (a_cid a) then glic_loop2 r cv vcv1 else None
      | None => None
      end
    end
  end.

Ltac glic_cases IH :=
  rewrite ?Nat.eqb_refl;
  repeat match goal with
         | |- context [if ?c then _ else _] => destruct c eqn:?
         end; rewrite ?Nat.eqb_refl in *; try reflexivity; try discriminate; try congruence; try apply IH.

Lemma glic_loop2_fst : forall l cv vcv, glic_loop l cv vcv = option_map fst (glic_loop2 l cv vcv).
Proof.
  induction l as [|a r IH]; intros cv vcv; [reflexivity|]. cbn [glic_loop glic_loop2]. cbv zeta.
  destruct (a_kind a); destruct vcv as [[vi vb]|]; destruct cv as [[ci cb]|]; cbv beta iota; glic_cases IH.
Qed.

Lemma glic_loop2_app : forall l1 l2 cv vcv,
  glic_loop2 (l1 ++ l2) cv vcv = match glic_loop2 l1 cv vcv with Some (c, v) => glic_loop2 l2 c v | None => None end.
Proof.
  induction l1 as [|a r IH]; intros l2 cv vcv; [reflexivity|]. cbn [app glic_loop2]. cbv zeta.
  destruct (a_kind a); destruct vcv as [[vi vb]|]; destruct cv as [[ci cb]|]; cbv beta iota; glic_cases IH.
Qed.

Definition of_glic2 (r : option (cref * cref)) : cres ((cref * cref) + cref) :=
  match r with Some p => CRet (inl p) | None => CRet (inr None) end.

Lemma glic_inner_eq : forall l cv vcv,
  src_get_last_integer_conversion_loop2 l cv vcv = of_glic2 (glic_loop2 l cv vcv).
Proof.
  induction l as [|a r IH]; intros cv vcv; [reflexivity|].
  cbn [src_get_last_integer_conversion_loop2 glic_loop2]. unfold arg_is_star, arg_is_conv, oconv_is. cbv zeta. cbn [fst snd].
  destruct (a_kind a); destruct vcv as [[vi vb]|]; destruct cv as [[ci cb]|]; cbn [fst snd is_some negb andb]; rewrite ?Nat.eqb_refl;
    rewrite ?andb_true_r, ?andb_false_r; cbn [negb andb];
    repeat match goal with |- context [if ?c then _ else _] => destruct c eqn:? end; cbn [negb] in *; rewrite ?Nat.eqb_refl in *;
    try discriminate; try reflexivity; try apply IH.
Qed.

Lemma skipn_nth : forall A (l : list A) n x, nth_error l n = Some x -> skipn n l = x :: skipn (S n) l.
Proof.
  induction l as [|y l IH]; intros [|n] x H; cbn in H; try discriminate.
  - inversion H. reflexivity.
  - cbn [skipn]. apply IH. exact H.
Qed.

Lemma glic_outer_eq : forall args k a cv vcv, 0 <= a -> a + Z.of_nat k <= zlen args ->
  src_get_last_integer_conversion_loop1 args (zrange a k) cv vcv
  = of_glic2 (glic_loop2 (List.concat (firstn k (skipn (Z.to_nat a) args))) cv vcv).
Proof.
  intros args. induction k as [|k IH]; intros a cv vcv Ha Hb; [reflexivity|].
  cbn [zrange src_get_last_integer_conversion_loop1].
  assert (Hge : (a >=? 0) = true) by (apply Z.geb_le; lia). rewrite Hge.
  unfold py_index. assert (Hlt : (a <? 0) = false) by (apply Z.ltb_ge; lia). rewrite Hlt.
  destruct (nth_error args (Z.to_nat a)) as [x|] eqn:Hn.
  - rewrite (skipn_nth _ _ _ _ Hn). cbn [firstn List.concat]. rewrite glic_loop2_app, glic_inner_eq.
    destruct (glic_loop2 x cv vcv) as [[c v]|]; cbn [of_glic2 cbind]; [|reflexivity].
    rewrite (IH (a + 1) c v) by (unfold zlen in *; lia).
    replace (Z.to_nat (a + 1)) with (S (Z.to_nat a)) by lia. reflexivity.
  - apply nth_error_None in Hn. unfold zlen in Hb. lia.
Qed.

(* get_last_integer_conversion(n=..): IndexError, None, or the conversion (its index in _items; .integer is True) *)
Theorem src_glic_eq : forall maxd items args w n,
  src_get_last_integer_conversion maxd args n
  = match fmtc_glic (mkfs items args w) n with
    | Ok (Some i) => CRet (Some (i, true))
    | Ok None => CRet None
    | Err _ => CRaise XIndex
    | Crash c => CRaise (XCrash c)
    end.
Proof.
  intros maxd items args w n. unfold src_get_last_integer_conversion, fmtc_glic. cbn [fs_arguments]. fold (zlen args). cbv zeta.
  destruct (n >? zlen args) eqn:H1; [reflexivity|]. destruct (n <=? 0) eqn:H2; [reflexivity|].
  rewrite Z.gtb_ltb in H1. apply Z.ltb_ge in H1. apply Z.leb_gt in H2.
  unfold py_range. rewrite glic_outer_eq by (rewrite ?Z2Nat.id; lia).
  replace (Z.to_nat (zlen args - (zlen args - n))) with (Z.to_nat n) by lia.
  rewrite firstn_all2 by (rewrite skipn_length; unfold zlen in *; lia).
  rewrite glic_loop2_fst.
  destruct (glic_loop2 _ None None) as [[[[i b]|] v]|]; cbn [of_glic2 cbind option_map fst snd]; try reflexivity.
  destruct b; reflexivity.
Qed.

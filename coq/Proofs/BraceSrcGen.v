(* The source ties of notes/SRC12.md instantiated with the generated tables: the entry points that are extracted and compared
   with the implementation (Model/FmtInstances.v) are what the translated FormatString.__init__ computes. *)
From Coq Require Import List NArith ZArith Bool.
From I18n Require Import Lib.Outcome Generated.Ucd Generated.PyFmtInfo Model.FmtPerlBrace Model.FmtPyBrace Model.FmtInstances
  Model.FmtBracePy Generated.BraceSrc Proofs.BraceSrcPerl Proofs.BraceSrcPy.
Import ListNotations.

Lemma src_perlbrace_init_gen s :
  src_perlbrace_init (perl_finditer re_w re_d) s = of_perl (fst (perl_parse_ucd s)).
Proof. exact (src_perlbrace_init_eq re_w re_d s). Qed.

Lemma src_ssize_max_gen : src_ssize_max = gen_pybrace_ssize_max.
Proof. reflexivity. Qed.

Lemma src_pybrace_init_gen s :
  src_pybrace_init (model_oracles gen_ucd) (pb_finditer gen_ucd) s = of_sig (pybrace_parse_gen s).
Proof. unfold pybrace_parse_gen. rewrite <- src_ssize_max_gen. apply src_pybrace_init_eq. Qed.

(* Soundness of the range analysis (CodomainEvaluator) w.r.t. the evaluator model. *)
From Coq Require Import List ZArith Bool Lia ZifyBool.
From I18n Require Import Lib.Outcome Model.IntExpr.
Import ListNotations.
Local Open Scope Z_scope.

Definition wf (M l r : Z) : Prop := 0 <= l <= r /\ (2 <= M -> r < M).

(* [f] is the outcome of an expression as a function of n *)
Definition fails (M : Z) (f : Z -> eres) : Prop :=
  forall n, 0 <= n < M -> exists k, f n = Err k.
Definition within (M : Z) (f : Z -> eres) (l r : Z) : Prop :=
  forall n v, 0 <= n < M -> f n = Ok v -> l <= v <= r.
Definition nocrash (f : Z -> eres) : Prop := forall n c, f n <> Crash c.

Definition sound (M : Z) (f : Z -> eres) (c : cres) : Prop :=
  nocrash f /\
  match c with
  | CAssert => False
  | CNone => fails M f
  | CSome l r => wf M l r /\ within M f l r
  end.

Ltac bdestr :=
  repeat match goal with
  | |- context[if ?b then _ else _] => destruct b eqn:?
  | H : context[if ?b then _ else _] |- _ => destruct b eqn:?
  end.

Lemma check_overflow_ok M v w : check_overflow M v = Ok w -> w = v /\ 0 <= v < M.
Proof. unfold check_overflow. bdestr; intros H; inversion H; lia. Qed.

Lemma check_overflow_cases M v :
  (check_overflow M v = Ok v /\ 0 <= v < M) \/ (check_overflow M v = Err EOverflow /\ (v < 0 \/ M <= v)).
Proof. unfold check_overflow. bdestr; [right|right|left]; split; auto; lia. Qed.

Lemma check_overflow_nocrash M v c : check_overflow M v <> Crash c.
Proof. unfold check_overflow. bdestr; discriminate. Qed.

Lemma eval_bin_nocrash M o x y c : eval_bin M o x y <> Crash c.
Proof. destruct o; cbn; try apply check_overflow_nocrash; bdestr; discriminate. Qed.

Lemma pair_eqb_true a b c d : pair_eqb a b c d = true <-> a = c /\ b = d.
Proof. unfold pair_eqb. lia. Qed.
Lemma pair_eqb_false a b c d : pair_eqb a b c d = false <-> ~ (a = c /\ b = d).
Proof. unfold pair_eqb. lia. Qed.

(* ---------- leaves ---------- *)
Lemma sound_var M : 1 <= M -> sound M (fun n => check_overflow M n) (CSome 0 (M - 1)).
Proof.
  intros HM. split; [intros n c; apply check_overflow_nocrash|].
  split; [unfold wf; lia|]. intros n v Hn H. apply check_overflow_ok in H. lia.
Qed.

Lemma sound_num M z : 1 <= M ->
  sound M (fun _ => check_overflow M z) (if (z <? 0) || (z >=? M) then CNone else CSome z z).
Proof.
  intros HM. split; [intros n c; apply check_overflow_nocrash|].
  destruct ((z <? 0) || (z >=? M)) eqn:E.
  - intros n Hn. destruct (check_overflow_cases M z) as [[_ H]|[H _]]; [lia|eauto].
  - split; [unfold wf; lia|]. intros n v Hn H. apply check_overflow_ok in H. lia.
Qed.

(* ---------- unary ---------- *)
Lemma sound_not M f c : 1 <= M -> sound M f c ->
  sound M (fun n => do x <- f n; Ok (b2z (x =? 0))) (cbind c cd_not).
Proof.
  intros HM [Hnc H]. split.
  { intros n k. specialize (Hnc n). destruct (f n); cbn; try discriminate. intros E; inversion E; subst; eapply Hnc; eauto. }
  destruct c as [|l r|]; cbn in *; [| |exact H].
  - intros n Hn. destruct (H n Hn) as [k Hk]. rewrite Hk. cbn. eauto.
  - destruct H as [[Hlr HrM] Hw]. unfold cd_not.
    destruct (l >? 0) eqn:E1; [|destruct (pair_eqb l r 0 0) eqn:E2].
    + split; [unfold wf; lia|]. intros n v Hn Hv. destruct (f n) eqn:Ef; cbn in Hv; try discriminate.
      inversion Hv; subst. specialize (Hw n a Hn Ef). unfold b2z. bdestr; lia.
    + apply pair_eqb_true in E2. split; [unfold wf; lia|]. intros n v Hn Hv.
      destruct (f n) eqn:Ef; cbn in Hv; try discriminate.
      inversion Hv; subst. specialize (Hw n a Hn Ef). unfold b2z. bdestr; lia.
    + split; [unfold wf; lia|]. intros n v Hn Hv. destruct (f n) eqn:Ef; cbn in Hv; try discriminate.
      inversion Hv; subst. unfold b2z. bdestr; lia.
Qed.

(* ---------- binary arithmetic ---------- *)
Lemma bind2_nocrash (f g : Z -> eres) (h : Z -> Z -> eres) :
  nocrash f -> nocrash g -> (forall x y c, h x y <> Crash c) ->
  nocrash (fun n => do x <- f n; do y <- g n; h x y).
Proof.
  intros Hf Hg Hh n c. specialize (Hf n). specialize (Hg n).
  destruct (f n); cbn; try discriminate; [|intros E; inversion E; subst; eapply Hf; eauto].
  destruct (g n); cbn; try discriminate; [apply Hh|intros E; inversion E; subst; eapply Hg; eauto].
Qed.

Lemma bind2_fails_l M (f g : Z -> eres) (h : Z -> Z -> eres) :
  fails M f -> fails M (fun n => do x <- f n; do y <- g n; h x y).
Proof. intros H n Hn. destruct (H n Hn) as [k Hk]. rewrite Hk. cbn. eauto. Qed.

Lemma bind2_fails_r M (f g : Z -> eres) (h : Z -> Z -> eres) :
  nocrash f -> fails M g -> fails M (fun n => do x <- f n; do y <- g n; h x y).
Proof.
  intros Hf H n Hn. destruct (H n Hn) as [k Hk]. specialize (Hf n).
  destruct (f n) eqn:Ef; cbn.
  - rewrite Hk. cbn. eauto.
  - eauto.
  - exfalso; eapply Hf; eauto.
Qed.

Lemma div_bounds x y x0 x1 y0 y1 :
  0 <= x0 <= x -> x <= x1 -> 0 <= y0 <= y -> y <= y1 -> 1 <= y ->
  x0 / y1 <= x / y <= x1 / Z.max y0 1.
Proof.
  intros. split.
  - transitivity (x0 / y); [apply Z.div_le_compat_l; lia | apply Z.div_le_mono; lia].
  - transitivity (x1 / y); [apply Z.div_le_mono; lia | apply Z.div_le_compat_l; lia].
Qed.

Lemma sound_bin M o f g cx cy : 1 <= M -> sound M f cx -> sound M g cy ->
  sound M (fun n => do x <- f n; do y <- g n; eval_bin M o x y)
          (cbind cx (fun x0 x1 => cbind cy (fun y0 y1 => cd_bin M o x0 x1 y0 y1))).
Proof.
  intros HM [Hfc Hf] [Hgc Hg].
  split; [apply bind2_nocrash; auto; intros; apply eval_bin_nocrash|].
  destruct cx as [|x0 x1|]; cbn; [apply bind2_fails_l; auto| |exact Hf].
  destruct cy as [|y0 y1|]; cbn; [apply bind2_fails_r; auto| |exact Hg].
  destruct Hf as [[Hx HxM] Hfw], Hg as [[Hy HyM] Hgw].
  destruct o; cbn [cd_bin].
  - (* Add *)
    destruct (x0 + y0 >? Z.min (x1 + y1) (M - 1)) eqn:E.
    + intros n Hn. destruct (f n) eqn:Ef; cbn; eauto; [|exfalso; eapply Hfc; eauto].
      destruct (g n) eqn:Eg; cbn; eauto; [|exfalso; eapply Hgc; eauto].
      specialize (Hfw n a Hn Ef). specialize (Hgw n a0 Hn Eg).
      destruct (check_overflow_cases M (a + a0)) as [[_ H]|[H _]]; [lia|eauto].
    + split; [unfold wf; lia|]. intros n v Hn Hv.
      destruct (f n) eqn:Ef; cbn in Hv; try discriminate.
      destruct (g n) eqn:Eg; cbn in Hv; try discriminate.
      specialize (Hfw n a Hn Ef). specialize (Hgw n a0 Hn Eg).
      apply check_overflow_ok in Hv. lia.
  - (* Sub *)
    destruct (Z.max (x0 - y1) 0 >? x1 - y0) eqn:E.
    + intros n Hn. destruct (f n) eqn:Ef; cbn; eauto; [|exfalso; eapply Hfc; eauto].
      destruct (g n) eqn:Eg; cbn; eauto; [|exfalso; eapply Hgc; eauto].
      specialize (Hfw n a Hn Ef). specialize (Hgw n a0 Hn Eg).
      destruct (check_overflow_cases M (a - a0)) as [[_ H]|[H _]]; [lia|eauto].
    + split; [unfold wf; lia|]. intros n v Hn Hv.
      destruct (f n) eqn:Ef; cbn in Hv; try discriminate.
      destruct (g n) eqn:Eg; cbn in Hv; try discriminate.
      specialize (Hfw n a Hn Ef). specialize (Hgw n a0 Hn Eg).
      apply check_overflow_ok in Hv. lia.
  - (* Mult *)
    assert (Hmono : forall a b, x0 <= a <= x1 -> y0 <= b <= y1 -> x0 * y0 <= a * b <= x1 * y1) by (intros; nia).
    destruct (x0 * y0 >? Z.min (x1 * y1) (M - 1)) eqn:E.
    + intros n Hn. destruct (f n) eqn:Ef; cbn; eauto; [|exfalso; eapply Hfc; eauto].
      destruct (g n) eqn:Eg; cbn; eauto; [|exfalso; eapply Hgc; eauto].
      specialize (Hfw n a Hn Ef). specialize (Hgw n a0 Hn Eg). specialize (Hmono a a0 Hfw Hgw).
      destruct (check_overflow_cases M (a * a0)) as [[_ H]|[H _]]; [lia|eauto].
    + assert (0 <= x0 * y0) by nia.
      split; [unfold wf; lia|]. intros n v Hn Hv.
      destruct (f n) eqn:Ef; cbn in Hv; try discriminate.
      destruct (g n) eqn:Eg; cbn in Hv; try discriminate.
      specialize (Hfw n a Hn Ef). specialize (Hgw n a0 Hn Eg). specialize (Hmono a a0 Hfw Hgw).
      apply check_overflow_ok in Hv. lia.
  - (* Div *)
    destruct (pair_eqb y0 y1 0 0) eqn:E0.
    + apply pair_eqb_true in E0. intros n Hn.
      destruct (f n) eqn:Ef; cbn; eauto; [|exfalso; eapply Hfc; eauto].
      destruct (g n) eqn:Eg; cbn; eauto; [|exfalso; eapply Hgc; eauto].
      specialize (Hgw n a0 Hn Eg). assert (a0 = 0) by lia. subst. cbn. eauto.
    + apply pair_eqb_false in E0. assert (Hy1 : y1 > 0) by lia.
      destruct (y1 >? 0) eqn:E1; [|lia]. cbn.
      assert (0 <= x0 / y1) by (apply Z.div_pos; lia).
      assert (x0 / y1 <= x1 / Z.max y0 1).
      { transitivity (x0 / Z.max y0 1); [apply Z.div_le_compat_l; lia | apply Z.div_le_mono; lia]. }
      assert (x1 / Z.max y0 1 <= x1) by (apply Z.div_le_upper_bound; nia).
      split; [unfold wf; lia|]. intros n v Hn Hv.
      destruct (f n) eqn:Ef; cbn in Hv; try discriminate.
      destruct (g n) eqn:Eg; cbn in Hv; try discriminate.
      specialize (Hfw n a Hn Ef). specialize (Hgw n a0 Hn Eg).
      destruct (a0 =? 0) eqn:Ea; [discriminate|]. inversion Hv; subst.
      apply div_bounds; lia.
  - (* Mod *)
    destruct (pair_eqb y0 y1 0 0) eqn:E0.
    + apply pair_eqb_true in E0. intros n Hn.
      destruct (f n) eqn:Ef; cbn; eauto; [|exfalso; eapply Hfc; eauto].
      destruct (g n) eqn:Eg; cbn; eauto; [|exfalso; eapply Hgc; eauto].
      specialize (Hgw n a0 Hn Eg). assert (a0 = 0) by lia. subst. cbn. eauto.
    + apply pair_eqb_false in E0. assert (Hy1 : y1 > 0) by lia.
      destruct (y1 >? 0) eqn:E1; [|lia]. cbn.
      destruct (x1 <? y0) eqn:E2.
      * split; [unfold wf; lia|]. intros n v Hn Hv.
        destruct (f n) eqn:Ef; cbn in Hv; try discriminate.
        destruct (g n) eqn:Eg; cbn in Hv; try discriminate.
        specialize (Hfw n a Hn Ef). specialize (Hgw n a0 Hn Eg).
        destruct (a0 =? 0) eqn:Ea; [discriminate|]. inversion Hv; subst.
        rewrite Z.mod_small; lia.
      * split; [unfold wf; lia|]. intros n v Hn Hv.
        destruct (f n) eqn:Ef; cbn in Hv; try discriminate.
        destruct (g n) eqn:Eg; cbn in Hv; try discriminate.
        specialize (Hfw n a Hn Ef). specialize (Hgw n a0 Hn Eg).
        destruct (a0 =? 0) eqn:Ea; [discriminate|]. inversion Hv; subst.
        assert (0 <= a mod a0 < a0) by (apply Z.mod_pos_bound; lia).
        assert (a mod a0 <= a) by (apply Z.mod_le; lia). lia.
Qed.

(* ---------- comparisons ---------- *)
Lemma sound_cmp M o f g cx cy : 1 <= M -> sound M f cx -> sound M g cy ->
  sound M (fun n => do x <- f n; do y <- g n; Ok (eval_cmp o x y))
          (cbind cx (fun x0 x1 => cbind cy (fun y0 y1 => cd_cmp o x0 x1 y0 y1))).
Proof.
  intros HM [Hfc Hf] [Hgc Hg].
  split; [apply bind2_nocrash; auto; intros; discriminate|].
  destruct cx as [|x0 x1|]; cbn; [apply (bind2_fails_l M f g (fun x y => Ok (eval_cmp o x y))); auto| |exact Hf].
  destruct cy as [|y0 y1|]; cbn; [apply (bind2_fails_r M f g (fun x y => Ok (eval_cmp o x y))); auto| |exact Hg].
  destruct Hf as [[Hx HxM] Hfw], Hg as [[Hy HyM] Hgw].
  assert (Hgoal : forall l r, (0 <= l <= r /\ r <= 1) ->
             (forall a b, x0 <= a <= x1 -> y0 <= b <= y1 -> l <= eval_cmp o a b <= r) ->
             wf M l r /\ within M (fun n => do x <- f n; do y <- g n; Ok (eval_cmp o x y)) l r).
  { intros l r Hlr Hab. split; [unfold wf; lia|]. intros n v Hn Hv.
    destruct (f n) eqn:Ef; cbn in Hv; try discriminate.
    destruct (g n) eqn:Eg; cbn in Hv; try discriminate. inversion Hv; subst.
    apply Hab; eauto. }
  destruct o; cbn [cd_cmp]; unfold eval_cmp, b2z.
  - apply Hgoal; [bdestr; lia|]. intros a b Ha Hb. unfold eval_cmp, b2z. bdestr; lia.
  - apply Hgoal; [bdestr; lia|]. intros a b Ha Hb. unfold eval_cmp, b2z. bdestr; lia.
  - apply Hgoal; [bdestr; lia|]. intros a b Ha Hb. unfold eval_cmp, b2z. bdestr; lia.
  - apply Hgoal; [bdestr; lia|]. intros a b Ha Hb. unfold eval_cmp, b2z. bdestr; lia.
  - destruct ((x0 =? x1) && (x1 =? y0) && (y0 =? y1)) eqn:E1;
      [|destruct ((x0 <=? y0) && (y0 <=? x1)) eqn:E2; [|destruct ((y0 <=? x0) && (x0 <=? y1)) eqn:E3]];
      (apply Hgoal; [lia|]; intros a b Ha Hb; unfold eval_cmp, b2z; bdestr; lia).
  - destruct ((x0 =? x1) && (x1 =? y0) && (y0 =? y1)) eqn:E1;
      [|destruct ((x0 <=? y0) && (y0 <=? x1)) eqn:E2; [|destruct ((y0 <=? x0) && (x0 <=? y1)) eqn:E3]];
      (apply Hgoal; [lia|]; intros a b Ha Hb; unfold eval_cmp, b2z; bdestr; lia).
Qed.

(* ---------- lazy boolean operators ---------- *)
Definition and_sem (f g : Z -> eres) : Z -> eres :=
  fun n => do x <- f n; if x =? 0 then Ok 0 else do y <- g n; if y =? 0 then Ok 0 else Ok 1.
Definition or_sem (f g : Z -> eres) : Z -> eres :=
  fun n => do x <- f n; if negb (x =? 0) then Ok 1 else do y <- g n; if negb (y =? 0) then Ok 1 else Ok 0.
Definition if_sem (c f g : Z -> eres) : Z -> eres :=
  fun n => do t <- c n; if negb (t =? 0) then f n else g n.

Lemma and_sem_ok f g n v : and_sem f g n = Ok v ->
  (exists x, f n = Ok x /\ x = 0 /\ v = 0) \/
  (exists x y, f n = Ok x /\ x <> 0 /\ g n = Ok y /\ ((y = 0 /\ v = 0) \/ (y <> 0 /\ v = 1))).
Proof.
  unfold and_sem. destruct (f n) as [x| |]; cbn; try discriminate.
  destruct (x =? 0) eqn:E; [intros H; inversion H; left; exists x; split; [reflexivity|lia]|].
  destruct (g n) as [y| |]; cbn; try discriminate.
  destruct (y =? 0) eqn:E2; intros H; inversion H; right; exists x, y; repeat split; auto; lia.
Qed.

Lemma or_sem_ok f g n v : or_sem f g n = Ok v ->
  (exists x, f n = Ok x /\ x <> 0 /\ v = 1) \/
  (exists x y, f n = Ok x /\ x = 0 /\ g n = Ok y /\ ((y = 0 /\ v = 0) \/ (y <> 0 /\ v = 1))).
Proof.
  unfold or_sem. destruct (f n) as [x| |]; cbn; try discriminate.
  destruct (x =? 0) eqn:E; cbn; [|intros H; inversion H; left; exists x; split; [reflexivity|lia]].
  destruct (g n) as [y| |]; cbn; try discriminate.
  destruct (y =? 0) eqn:E2; cbn; intros H; inversion H; right; exists x, y; repeat split; auto; lia.
Qed.

Lemma and_sem_nocrash f g : nocrash f -> nocrash g -> nocrash (and_sem f g).
Proof.
  intros Hf Hg n c. unfold and_sem. specialize (Hf n). specialize (Hg n).
  destruct (f n); cbn; [|discriminate|intros E; inversion E; subst; eapply Hf; eauto].
  destruct (a =? 0); [discriminate|].
  destruct (g n); cbn; [destruct (a0 =? 0); discriminate|discriminate|intros E; inversion E; subst; eapply Hg; eauto].
Qed.

Lemma or_sem_nocrash f g : nocrash f -> nocrash g -> nocrash (or_sem f g).
Proof.
  intros Hf Hg n c. unfold or_sem. specialize (Hf n). specialize (Hg n).
  destruct (f n); cbn; [|discriminate|intros E; inversion E; subst; eapply Hf; eauto].
  destruct (negb (a =? 0)); [discriminate|].
  destruct (g n); cbn; [destruct (negb (a0 =? 0)); discriminate|discriminate|intros E; inversion E; subst; eapply Hg; eauto].
Qed.

(* an outcome is Ok or Err once Crash is excluded *)
Lemma ok_or_err (f : Z -> eres) n : nocrash f -> (exists v, f n = Ok v) \/ (exists k, f n = Err k).
Proof. intros H. specialize (H n). destruct (f n); eauto. exfalso; eapply H; eauto. Qed.

Lemma and_sem_err f g n : nocrash f -> nocrash g ->
  ((exists k, f n = Err k) \/ (exists x, f n = Ok x /\ x <> 0 /\ exists k, g n = Err k)) ->
  exists k, and_sem f g n = Err k.
Proof.
  intros Hf Hg [[k Hk]|[x [Hx [Hx0 [k Hk]]]]]; unfold and_sem; rewrite ?Hk, ?Hx; cbn; eauto.
  destruct (x =? 0) eqn:E; [lia|]. rewrite ?Hk. cbn. eauto.
Qed.

Lemma or_sem_err f g n : nocrash f -> nocrash g ->
  ((exists k, f n = Err k) \/ (exists x, f n = Ok x /\ x = 0 /\ exists k, g n = Err k)) ->
  exists k, or_sem f g n = Err k.
Proof.
  intros Hf Hg [[k Hk]|[x [Hx [Hx0 [k Hk]]]]]; unfold or_sem; rewrite ?Hk, ?Hx; cbn; eauto.
  subst. cbn. rewrite ?Hk. cbn. eauto.
Qed.

Ltac use_bounds Hfw Hgw :=
  repeat match goal with
  | Hn : 0 <= ?n < _, E : ?f ?n = Ok ?x |- _ =>
    first [ pose proof (Hfw n x Hn E) | pose proof (Hgw n x Hn E) ]; revert E
  end; intros.

Lemma sound_and M f g ca cb : 1 <= M -> sound M f ca -> sound M g cb ->
  sound M (and_sem f g) (cd_and_loop 1 1 [ca; cb]).
Proof.
  intros HM [Hfc Hf] [Hgc Hg]. split; [apply and_sem_nocrash; auto|].
  destruct ca as [|x0 x1|]; [| |exact Hf].
  { cbn. intros n Hn. apply and_sem_err; auto. }
  destruct Hf as [[Hx HxM] Hfw].
  destruct cb as [|y0 y1|]; [| |cbn; unfold pair_eqb; bdestr; try lia; exact Hg].
  - (* second argument always fails *)
    cbn. unfold pair_eqb. bdestr; cbn; try lia.
    + split; [unfold wf; lia|]. intros n v Hn Hv. apply and_sem_ok in Hv.
      destruct Hv as [[x [Ex [? ?]]]|[x [y [Ex [? [Ey ?]]]]]]; [lia|]. pose proof (Hfw n x Hn Ex). lia.
    + intros n Hn. apply and_sem_err; auto.
      destruct (ok_or_err f n Hfc) as [[x Ex]|]; [right|left; auto].
      exists x. pose proof (Hfw n x Hn Ex). repeat split; auto; try lia; try (apply Hg; auto).
    + split; [unfold wf; lia|]. intros n v Hn Hv. apply and_sem_ok in Hv.
      destruct Hv as [[x [Ex [? ?]]]|[x [y [Ex [? [Ey ?]]]]]]; [lia|].
      destruct (Hg n Hn) as [k Hk]. congruence.
  - destruct Hg as [[Hy HyM] Hgw].
    cbn. unfold pair_eqb. bdestr; cbn; try lia;
      (split; [unfold wf; lia|]; intros n v Hn Hv; apply and_sem_ok in Hv;
       destruct Hv as [[x [Ex [? ?]]]|[x [y [Ex [? [Ey ?]]]]]];
       [pose proof (Hfw n x Hn Ex); lia | pose proof (Hfw n x Hn Ex); pose proof (Hgw n y Hn Ey); lia]).
Qed.

Lemma sound_or M f g ca cb : 1 <= M -> sound M f ca -> sound M g cb ->
  sound M (or_sem f g) (cd_or_loop 0 0 [ca; cb]).
Proof.
  intros HM [Hfc Hf] [Hgc Hg]. split; [apply or_sem_nocrash; auto|].
  destruct ca as [|x0 x1|]; [| |exact Hf].
  { cbn. intros n Hn. apply or_sem_err; auto. }
  destruct Hf as [[Hx HxM] Hfw].
  destruct cb as [|y0 y1|]; [| |cbn; unfold pair_eqb; bdestr; try lia; exact Hg].
  - cbn. unfold pair_eqb. bdestr; cbn; try lia.
    + split; [unfold wf; lia|]. intros n v Hn Hv. apply or_sem_ok in Hv.
      destruct Hv as [[x [Ex [? ?]]]|[x [y [Ex [? [Ey ?]]]]]]; [lia|]. pose proof (Hfw n x Hn Ex). lia.
    + intros n Hn. apply or_sem_err; auto.
      destruct (ok_or_err f n Hfc) as [[x Ex]|]; [right|left; auto].
      exists x. pose proof (Hfw n x Hn Ex). repeat split; auto; try lia; try (apply Hg; auto).
    + split; [unfold wf; lia|]. intros n v Hn Hv. apply or_sem_ok in Hv.
      destruct Hv as [[x [Ex [? ?]]]|[x [y [Ex [? [Ey ?]]]]]]; [lia|].
      destruct (Hg n Hn) as [k Hk]. congruence.
  - destruct Hg as [[Hy HyM] Hgw].
    cbn. unfold pair_eqb. bdestr; cbn; try lia;
      (split; [unfold wf; lia|]; intros n v Hn Hv; apply or_sem_ok in Hv;
       destruct Hv as [[x [Ex [? ?]]]|[x [y [Ex [? [Ey ?]]]]]];
       [pose proof (Hfw n x Hn Ex); lia | pose proof (Hfw n x Hn Ex); pose proof (Hgw n y Hn Ey); lia]).
Qed.

(* ---------- conditional ---------- *)
Lemma if_sem_ok c f g n v : if_sem c f g n = Ok v ->
  exists t, c n = Ok t /\ ((t <> 0 /\ f n = Ok v) \/ (t = 0 /\ g n = Ok v)).
Proof.
  unfold if_sem. destruct (c n) as [t| |]; cbn; try discriminate.
  destruct (t =? 0) eqn:E; cbn; intros H; exists t; split; auto; [right|left]; split; auto; lia.
Qed.

Lemma if_sem_err c f g n :
  ((exists k, c n = Err k) \/
   (exists t, c n = Ok t /\ ((t <> 0 /\ exists k, f n = Err k) \/ (t = 0 /\ exists k, g n = Err k)))) ->
  exists k, if_sem c f g n = Err k.
Proof.
  unfold if_sem. intros [[k Hk]|[t [Ht [[H0 [k Hk]]|[H0 [k Hk]]]]]]; rewrite ?Hk, ?Ht; cbn; eauto.
  - destruct (t =? 0) eqn:E; [lia|]. cbn. rewrite ?Hk. eauto.
  - subst. cbn. rewrite ?Hk. eauto.
Qed.

Lemma if_sem_nocrash c f g : nocrash c -> nocrash f -> nocrash g -> nocrash (if_sem c f g).
Proof.
  intros Hc Hf Hg n k. unfold if_sem. specialize (Hc n).
  destruct (c n); cbn; [|discriminate|intros E; inversion E; subst; eapply Hc; eauto].
  destruct (negb (a =? 0)); [apply Hf|apply Hg].
Qed.

Lemma sound_if M c f g ct cx cy : 1 <= M -> sound M c ct -> sound M f cx -> sound M g cy ->
  sound M (if_sem c f g) (cd_if ct cx cy).
Proof.
  intros HM [Hcc Hc] [Hfc Hf] [Hgc Hg]. split; [apply if_sem_nocrash; auto|].
  destruct ct as [|t0 t1|]; [| |exact Hc].
  { cbn. intros n Hn. apply if_sem_err. left. auto. }
  destruct Hc as [[Ht HtM] Hcw]. unfold cd_if.
  assert (Hthen : forall n t, 0 <= n < M -> c n = Ok t -> t <> 0 -> (t1 >? 0) = true /\ t0 <= t <= t1).
  { intros n t Hn E Ht0. pose proof (Hcw n t Hn E). lia. }
  assert (Helse : forall n t, 0 <= n < M -> c n = Ok t -> t = 0 -> (t0 =? 0) = true).
  { intros n t Hn E Ht0. pose proof (Hcw n t Hn E). lia. }
  destruct (t1 >? 0) eqn:E1; destruct (t0 =? 0) eqn:E0;
    destruct cx as [|x0 x1|]; destruct cy as [|y0 y1|]; try contradiction;
    try (destruct Hf as [[Hx HxM] Hfw]); try (destruct Hg as [[Hy HyM] Hgw]);
    try (* result CNone *)
      (intros n Hn; apply if_sem_err;
       destruct (ok_or_err c n Hcc) as [[t Et]|]; [right; exists t; split; auto|left; auto];
       destruct (Z.eq_dec t 0) as [Hz|Hz];
       [ pose proof (Helse n t Hn Et Hz); right; split; auto; try discriminate; try (apply Hg; auto)
       | pose proof (Hthen n t Hn Et Hz); left; split; auto; try (apply Hf; auto); lia ]; fail);
    try (* result CSome *)
      (split; [unfold wf; lia|]; intros n v Hn Hv; apply if_sem_ok in Hv;
       destruct Hv as [t [Et [[Hz Ev]|[Hz Ev]]]];
       [ pose proof (Hthen n t Hn Et Hz); try discriminate; try (destruct (Hf n Hn) as [k Hk]; congruence);
         try (pose proof (Hfw n v Hn Ev)); lia
       | pose proof (Helse n t Hn Et Hz); try discriminate; try (destruct (Hg n Hn) as [k Hk]; congruence);
         try (pose proof (Hgw n v Hn Ev)); lia ]; fail).
Qed.

(* ---------- the induction ---------- *)
Theorem codomain_sound M e : 1 <= M -> sound M (pyeval M e) (codomain M e).
Proof.
  intros HM. induction e; cbn [codomain].
  - apply sound_var; auto.
  - apply (sound_num M z HM).
  - apply (sound_not M (pyeval M e) _ HM IHe).
  - apply (sound_bin M o _ _ _ _ HM IHe1 IHe2).
  - apply (sound_cmp M o _ _ _ _ HM IHe1 IHe2).
  - apply (sound_and M _ _ _ _ HM IHe1 IHe2).
  - apply (sound_or M _ _ _ _ HM IHe1 IHe2).
  - apply (sound_if M _ _ _ _ _ _ HM IHe1 IHe2 IHe3).
Qed.

Lemma codomain_no_assert M e : 1 <= M -> codomain M e <> CAssert.
Proof. intros HM E. pose proof (codomain_sound M e HM) as [_ H]. rewrite E in H. exact H. Qed.

Lemma codomain_wf M e L R : 1 <= M -> codomain M e = CSome L R -> 0 <= L <= R /\ (2 <= M -> R < M).
Proof. intros HM E. pose proof (codomain_sound M e HM) as [_ H]. rewrite E in H. exact (proj1 H). Qed.

Lemma codomain_bounds M e L R : 1 <= M -> codomain M e = CSome L R ->
  forall n v, 0 <= n < M -> pyeval M e n = Ok v -> L <= v <= R.
Proof. intros HM E. pose proof (codomain_sound M e HM) as [_ H]. rewrite E in H. exact (proj2 H). Qed.

Lemma codomain_none_fails M e : 1 <= M -> codomain M e = CNone ->
  forall n, 0 <= n < M -> exists k, pyeval M e n = Err k.
Proof. intros HM E. pose proof (codomain_sound M e HM) as [_ H]. rewrite E in H. exact H. Qed.

Lemma pyeval_nocrash M e n c : pyeval M e n <> Crash c.
Proof.
  revert n c. induction e; intros n c; cbn [pyeval].
  - apply check_overflow_nocrash.
  - apply check_overflow_nocrash.
  - specialize (IHe n). destruct (pyeval M e n); cbn; try discriminate. intros E; inversion E; subst; eapply IHe; eauto.
  - apply (bind2_nocrash (pyeval M e1) (pyeval M e2) (eval_bin M o)); auto. intros; apply eval_bin_nocrash.
  - apply (bind2_nocrash (pyeval M e1) (pyeval M e2) (fun x y => Ok (eval_cmp o x y))); auto. intros; discriminate.
  - apply (and_sem_nocrash (pyeval M e1) (pyeval M e2)); auto.
  - apply (or_sem_nocrash (pyeval M e1) (pyeval M e2)); auto.
  - apply (if_sem_nocrash (pyeval M e1) (pyeval M e2) (pyeval M e3)); auto.
Qed.

Lemma pow2_ge1 (b : nat) : 1 <= 2 ^ Z.of_nat b.
Proof. pose proof (Z.pow_pos_nonneg 2 (Z.of_nat b)). lia. Qed.

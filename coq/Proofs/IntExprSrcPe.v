(* Source tie, class PeriodEvaluator and lcm: see Proofs/IntExprSrc.v *)
From Coq Require Import List ZArith Bool Lia ZifyBool.
From I18n Require Import Lib.Outcome Lib.PySrc Model.IntExpr Generated.IntExprSrc Proofs.IntExprSrc Proofs.Codomain Proofs.Period.
Import ListNotations.
Local Open Scope Z_scope.

(* ================================================================== *)
(* lcm and class PeriodEvaluator                                        *)
(* gcd (a while loop) is not translated: it is the parameter of src_lcm, instantiated with Z.gcd as in the model. *)

(* exactly: `r //= gcd(r, y)` raises ZeroDivisionError when gcd(r, y) == 0, i.e. r == y == 0; otherwise py_lcm *)
Lemma src_lcm2_exact x y :
  src_lcm Z.gcd x [y] = if Z.gcd x y =? 0 then SRaise XZeroDiv else SRet (py_lcm x y).
Proof. reflexivity. Qed.

Lemma src_lcm2_eq x y : x <> 0 \/ y <> 0 -> src_lcm Z.gcd x [y] = SRet (py_lcm x y).
Proof.
  intros H. rewrite src_lcm2_exact. destruct (Z.gcd x y =? 0) eqn:E; [|reflexivity].
  apply Z.eqb_eq in E. pose proof (Z.gcd_eq_0_l _ _ E). pose proof (Z.gcd_eq_0_r _ _ E). lia.
Qed.

Lemma src_lcm3_eq t x y : t <> 0 \/ x <> 0 -> y <> 0 ->
  src_lcm Z.gcd t [x; y] = SRet (py_lcm (py_lcm t x) y).
Proof.
  intros H Hy. unfold src_lcm. cbn [src_lcm_loop].
  destruct (Z.gcd t x =? 0) eqn:E.
  { apply Z.eqb_eq in E. pose proof (Z.gcd_eq_0_l _ _ E). pose proof (Z.gcd_eq_0_r _ _ E). lia. }
  fold (py_lcm t x).
  destruct (Z.gcd (py_lcm t x) y =? 0) eqn:E2; [|reflexivity].
  apply Z.eqb_eq in E2. pose proof (Z.gcd_eq_0_r _ _ E2). lia.
Qed.

(* every period the model returns is >= 1, so the ZeroDivisionError of lcm is dead inside the analysis *)
Lemma period_pos M e O P : period M e = Some (O, P) -> 1 <= P.
Proof. intros H. destruct (period_sound M e O P H) as [HP _]. exact HP. Qed.

Definition pe_of (M : Z) (nd : pynode) : option (Z * Z) :=
  match nd with NE e => period M e | _ => None end.
Definition pe_vis (M : Z) (nd : pynode) : sres (Z * Z) := of_opt (pe_of M nd).

Lemma isinst_mod o : node_isinst (NBin o) KMod = is_mod o.
Proof. destruct o; reflexivity. Qed.
Lemma isinst_name a : node_isinst (NE a) KName = is_var a.
Proof. destruct a; reflexivity. Qed.

(* the part shared by _visit_binop and _visit_compare: max of the offsets, lcm of the periods, cut-off at max *)
Ltac pe_join M a b :=
  let Ea := fresh "Ea" in let Eb := fresh "Eb" in
  unfold pe_vis; cbn [pe_of];
  destruct (period M a) as [[?xo ?xp]|] eqn:Ea; cbn [of_opt sbind per_join]; [|reflexivity];
  destruct (period M b) as [[?yo ?yp]|] eqn:Eb; cbn [of_opt sbind per_join]; [|reflexivity];
  apply period_pos in Ea; apply period_pos in Eb;
  rewrite src_lcm2_eq by lia; unfold sbind1; cbn [sbind];
  zb.

Ltac pe_join_goal M a :=
  match goal with |- _ = of_opt (per_join M (period M a) (period M ?b')) => pe_join M a b' end.

Lemma src_pe_binop_eq M o a b :
  src_pe_binop (pe_vis M) node_isinst node_attr_n Z.gcd M (NBin o) (NE a) (NE b) = of_opt (period M (Bin o a b)).
Proof.
  unfold src_pe_binop. cbn [period]. rewrite isinst_mod, isinst_name.
  destruct (is_mod o && is_var a); cbn [andb].
  - destruct b as [|z|b1|o0 b1 b2|o0 b1 b2|b1 b2|b1 b2|b1 b2 b3]; cbn [node_isinst node_attr_n num_of]; try solve [pe_join_goal M a].
    destruct ((z <=? 0) || (z >=? M)); reflexivity.
  - pe_join_goal M a.
Qed.

Lemma src_pe_unaryop_eq M a : src_pe_unaryop (pe_vis M) (NE a) = of_opt (period M (Not a)).
Proof. reflexivity. Qed.

Lemma src_pe_compare_eq M o a b :
  src_pe_compare (pe_vis M) node_isinst node_attr_n Z.gcd M [NE b] [NCmp o] (NE a) = of_opt (period M (Cmp o a b)).
Proof.
  unfold src_pe_compare. cbn [length Z.of_nat Z.eqb Pos.eqb negb period]. rewrite isinst_name.
  destruct (is_var a); cbn [andb].
  - destruct b as [|z|b1|o0 b1 b2|o0 b1 b2|b1 b2|b1 b2|b1 b2 b3]; cbn [node_isinst node_attr_n num_of]; try solve [pe_join_goal M a].
    destruct ((z <? 0) || (z >=? M)); [reflexivity|].
    destruct o; cbn [node_isinst orb]; try reflexivity; destruct (z + 1 =? M); reflexivity.
  - pe_join M a b.
Qed.

(* the loop: (xo, xp) = (0, 1), then for every argument max / lcm / cut-off; the model has the two-argument case *)
Lemma src_pe_boolop2 M a b :
  src_pe_boolop (pe_vis M) Z.gcd M [NE a; NE b] =
  of_opt (per_join M (per_join M (Some (0, 1)) (period M a)) (period M b)).
Proof.
  unfold src_pe_boolop, pe_vis. cbn [src_pe_boolop_loop pe_of].
  destruct (period M a) as [[ao ap]|] eqn:Ea; cbn [of_opt sbind per_join]; [|reflexivity].
  apply period_pos in Ea. rewrite src_lcm2_eq by lia. unfold sbind1; cbn [sbind].
  destruct (py_lcm 1 ap >=? M); [reflexivity|].
  destruct (period M b) as [[bo bp]|] eqn:Eb; cbn [of_opt sbind per_join]; [|reflexivity].
  apply period_pos in Eb. rewrite src_lcm2_eq by lia. cbn [sbind].
  destruct (py_lcm (py_lcm 1 ap) bp >=? M); reflexivity.
Qed.
Lemma src_pe_boolop_and_eq M a b : src_pe_boolop (pe_vis M) Z.gcd M [NE a; NE b] = of_opt (period M (And a b)).
Proof. apply src_pe_boolop2. Qed.
Lemma src_pe_boolop_or_eq M a b : src_pe_boolop (pe_vis M) Z.gcd M [NE a; NE b] = of_opt (period M (Or a b)).
Proof. apply src_pe_boolop2. Qed.

Lemma src_pe_ifexp_eq M c a b :
  src_pe_ifexp (pe_vis M) Z.gcd M (NE c) (NE a) (NE b) = of_opt (period M (If c a b)).
Proof.
  unfold src_pe_ifexp, pe_vis. cbn [pe_of period].
  destruct (period M c) as [[to tp]|] eqn:Ec; cbn [of_opt sbind]; [|reflexivity].
  destruct (period M a) as [[xo xp]|] eqn:Ea; cbn [of_opt sbind]; [|reflexivity].
  destruct (period M b) as [[yo yp]|] eqn:Eb; cbn [of_opt sbind]; [|reflexivity].
  apply period_pos in Ec; apply period_pos in Ea; apply period_pos in Eb.
  rewrite src_lcm3_eq by lia. unfold sbind1; cbn [sbind].
  zb.
Qed.

Lemma src_pe_num_eq M z : src_pe_num M z = of_opt (period M (Num z)).
Proof. unfold src_pe_num. cbn [period]. destruct ((z <? 0) || (z >=? M)); reflexivity. Qed.
Lemma src_pe_name_eq M : src_pe_name = of_opt (period M Var).
Proof. reflexivity. Qed.

(* grouped for Props/C06.v *)
Lemma pe_tie_boolop M a b :
  src_pe_boolop (pe_vis M) Z.gcd M [NE a; NE b] = of_opt (period M (And a b)) /\
  src_pe_boolop (pe_vis M) Z.gcd M [NE a; NE b] = of_opt (period M (Or a b)).
Proof. split; apply src_pe_boolop2. Qed.

Lemma pe_tie_leaves M z a :
  src_pe_num M z = of_opt (period M (Num z)) /\ src_pe_name = of_opt (period M Var) /\
  src_pe_unaryop (pe_vis M) (NE a) = of_opt (period M (Not a)).
Proof. repeat split. apply src_pe_num_eq. Qed.

Lemma pe_pins : src_pin_base = true /\ src_pin_pe = true.
Proof. split; reflexivity. Qed.

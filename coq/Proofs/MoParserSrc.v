(* Source tie for lib/moparser.py (notes/SRC4.md): the functions of Generated/MoParserSrc.v — the translation of
   Parser._read_ints / _parse_entry / _parse made on every run by tools/gen/gen_moparser_src.py — are EQUAL, for all
   arguments, to the hand-written model Model/MoParser.v (read_int, read_int2, parse_entry + the decode step, mo_load).
   A behavioural edit of that Python code changes the generated definitions and this file stops compiling. *)
From Coq Require Import List NArith Bool Lia.
From I18n Require Import Lib.Outcome Model.MoParser Model.MoParserPy Generated.MoParserSrc
  Proofs.MoBytes Proofs.MoStrings Proofs.MoParser Proofs.MoCorollaries.
Import ListNotations.
Local Open Scope N_scope.

(* ------------------------------------------------------------------ *)
(* how the model's results are written in the vocabulary of the translation *)

(* the text of the model's error messages (mo_lib.MSG in the harness names the same strings) *)
Definition msg_parts (m : mo_msg) : list fpart :=
  match m with
  | MMagic => [FText [117; 110; 101; 120; 112; 101; 99; 116; 101; 100; 32; 109; 97; 103; 105; 99]]
  | MMajor n => [FText [117; 110; 101; 120; 112; 101; 99; 116; 101; 100; 32; 109; 97; 106; 111; 114; 32; 114; 101; 118; 105; 115; 105; 111; 110; 32; 110; 117; 109; 98; 101; 114; 58; 32]; FNum n]
  | MTruncated => [FText [116; 114; 117; 110; 99; 97; 116; 101; 100; 32; 102; 105; 108; 101]]
  | MIdNotTerminated => [FText [109; 115; 103; 105; 100; 32; 105; 115; 32; 110; 111; 116; 32; 110; 117; 108; 108; 45; 116; 101; 114; 109; 105; 110; 97; 116; 101; 100]]
  | MStrNotTerminated => [FText [109; 115; 103; 115; 116; 114; 32; 105; 115; 32; 110; 111; 116; 32; 110; 117; 108; 108; 45; 116; 101; 114; 109; 105; 110; 97; 116; 101; 100]]
  | MIdNul => [FText [117; 110; 101; 120; 112; 101; 99; 116; 101; 100; 32; 110; 117; 108; 108; 32; 98; 121; 116; 101; 32; 105; 110; 32; 109; 115; 103; 105; 100]]
  | MStrNul => [FText [117; 110; 101; 120; 112; 101; 99; 116; 101; 100; 32; 110; 117; 108; 108; 32; 98; 121; 116; 101; 32; 105; 110; 32; 109; 115; 103; 115; 116; 114]]
  | MDuplicate => [FText [100; 117; 112; 108; 105; 99; 97; 116; 101; 32; 109; 101; 115; 115; 97; 103; 101; 32; 100; 101; 102; 105; 110; 105; 116; 105; 111; 110]]
  | MNotSorted => [FText [109; 101; 115; 115; 97; 103; 101; 115; 32; 97; 114; 101; 32; 110; 111; 116; 32; 115; 111; 114; 116; 101; 100]]
  end.

(* the model's foreign exceptions; the kinds that no function of Model/MoParser.v produces are sent to XValue *)
Definition of_crash {A} (c : crash_kind) : mres A :=
  match c with
  | CAssertion => MAssert
  | CTypeError => MRaise XType
  | CIndexError => MRaise XIndex
  | CStructError => MRaise XStruct
  | _ => MRaise XValue
  end.

Definition of_out {A B} (f : A -> B) (o : outcome A mo_err) : mres B :=
  match o with
  | Ok a => MRet (f a)
  | Err (MoSyntax m) => MRaise (XSyntax (msg_parts m))
  | Crash c => of_crash c
  end.

(* self._endian: '<' for little endian, '>' for big endian *)
Definition endian_str (be : bool) : bytes := if be then [62] else [60].

(* the oracles re.search / match.group at the one pattern the model implements (find_charset) *)
Definition charset_re : bytes := [99; 104; 97; 114; 115; 101; 116; 61; 40; 91; 94; 32; 9; 10; 93; 43; 41].   (* charset=([^ \t\n]+) *)
Definition re_search_m (p s : bytes) : option bytes := if bytes_eqb p charset_re then find_charset s else None.
Definition re_group_m (m : bytes) (k : N) : bytes := if k =? 1 then m else [].

(* the polib entry built from a byte-level entry of the model *)
Definition entry_attrs : list (bytes * pyconst) :=
  [ ([99; 111; 109; 109; 101; 110; 116], PNone);                                                         (* comment = None *)
    ([111; 99; 99; 117; 114; 114; 101; 110; 99; 101; 115], PEmptyTuple);                                (* occurrences = () *)
    ([102; 108; 97; 103; 115], PEmptyTuple);                                                            (* flags = () *)
    ([116; 114; 97; 110; 115; 108; 97; 116; 101; 100], PConstFn true);                                  (* translated = lambda: True *)
    ([112; 114; 101; 118; 105; 111; 117; 115; 95; 109; 115; 103; 99; 116; 120; 116], PNone);            (* previous_msgctxt = None *)
    ([112; 114; 101; 118; 105; 111; 117; 115; 95; 109; 115; 103; 105; 100], PNone);                     (* previous_msgid = None *)
    ([112; 114; 101; 118; 105; 111; 117; 115; 95; 109; 115; 103; 105; 100; 95; 112; 108; 117; 114; 97; 108], PNone) ].   (* previous_msgid_plural = None *)

Definition entry_embed (e : mo_entry) : pentry :=
  {| p_kw := {| k_msgid := Some (e_id e);
                k_msgctxt := e_ctxt e;
                k_msgstr := match e_plural e with None => Some (hd [] (e_strs e)) | Some _ => None end;
                k_msgid_plural := e_plural e;
                k_msgstr_plural := match e_plural e with None => None | Some _ => Some (e_strs e) end |};
     p_attrs := entry_attrs |}.

(* ------------------------------------------------------------------ *)
(* Parser._read_ints *)

Lemma endian_be_str : forall be, endian_be (endian_str be) = Some be.
Proof. destruct be; reflexivity. Qed.

Lemma src_read_ints_1 : forall be f at_,
  src_read_ints f (endian_str be) at_ 1 = of_out (fun x => [x]) (read_int be f at_).
Proof.
  intros be f at_. unfold src_read_ints, read_int. cbv zeta.
  replace (at_ + 4 * 1) with (at_ + 4) by lia.
  destruct (len f <? at_ + 4); [reflexivity|].
  unfold py_unpack_I. rewrite endian_be_str. change (N.to_nat 1) with 1%nat. unfold unpack1.
  destruct (slice f at_ (at_ + 4)) as [|b0 [|b1 [|b2 [|b3 [|b4 r]]]]]; reflexivity.
Qed.

Lemma src_read_ints_2 : forall be f at_,
  src_read_ints f (endian_str be) at_ 2 = of_out (fun p => [fst p; snd p]) (read_int2 be f at_).
Proof.
  intros be f at_. unfold src_read_ints, read_int2. cbv zeta.
  replace (at_ + 4 * 2) with (at_ + 8) by lia.
  destruct (len f <? at_ + 8); [reflexivity|].
  unfold py_unpack_I. rewrite endian_be_str. change (N.to_nat 2) with 2%nat. unfold unpack2.
  destruct (slice f at_ (at_ + 8)) as [|b0 [|b1 [|b2 [|b3 [|c0 [|c1 [|c2 [|c3 [|c4 r]]]]]]]]]; reflexivity.
Qed.

(* ------------------------------------------------------------------ *)
(* Parser._parse_entry *)

Lemma find_app : forall {A} (p : A -> bool) a b,
  find p (a ++ b) = match find p a with Some x => Some x | None => find p b end.
Proof. intros A p a b. induction a as [|x a IH]; [reflexivity|]. cbn [app find]. destruct (p x); [reflexivity|exact IH]. Qed.

Lemma mmap_decode : forall dec cs (g : bytes -> mres bytes) l, (forall s, g s = py_decode dec cs s) ->
  mmap g l = match find (fun s => negb (dec cs s)) l with Some s => MRaise (XDecode s) | None => MRet l end.
Proof.
  intros dec cs g l Hg. induction l as [|x l IH]; [reflexivity|]. cbn [mmap find]. rewrite Hg. unfold py_decode.
  destruct (dec cs x); cbn [negb mbind]; [|reflexivity]. rewrite IH. destruct (find _ l); reflexivity.
Qed.

(* what _parse_entry does with a byte-level entry the model accepted: decode its strings in the order of the code *)
Definition entry_result (dec : bytes -> bytes -> bool) (r : outcome (mo_entry * bytes * bytes) mo_err)
  : mres (pentry * (option bytes * option bytes)) :=
  match r with
  | Ok (e, enc', last') =>
    match find (fun s => negb (dec enc' s)) (entry_strings e) with
    | Some s => MRaise (XDecode s)
    | None => MRet (entry_embed e, (Some enc', Some last'))
    end
  | Err (MoSyntax m) => MRaise (XSyntax (msg_parts m))
  | Crash c => of_crash c
  end.

Ltac sx := cbn [mbind mcatch of_out of_crash obind exn_isa fst snd negb andb orb is_none is_nil nth_error
                blist_eqb unsnoc app find entry_strings e_id e_ctxt e_plural e_strs hd entry_result].

Lemma llen1 : forall {A} (a : A), llen [a] = 1.
Proof. reflexivity. Qed.
Lemma llen2 : forall {A} (a b : A), llen [a; b] = 2.
Proof. reflexivity. Qed.
Lemma llen_ge3 : forall {A} (a b c : A) r, 2 <? llen (a :: b :: c :: r) = true.
Proof. intros. apply N.ltb_lt. unfold llen. cbn [length]. lia. Qed.
Lemma llen_ge2 : forall {A} (a b : A) r, 1 <? llen (a :: b :: r) = true.
Proof. intros. apply N.ltb_lt. unfold llen. cbn [length]. lia. Qed.
Lemma llen_ge1 : forall {A} (a : A) r, 1 <=? llen (a :: r) = true.
Proof. intros. apply N.leb_le. unfold llen. cbn [length]. lia. Qed.

(* the `if i == 0:` block computes choose_encoding *)
Ltac enc_block asc enc m0 msgstr :=
  match goal with |- mbind (if _ then ?A else _) _ = _ =>
    let HA := fresh "HA" in
    assert (HA : A = MRet (Some (choose_encoding asc enc m0 msgstr), Some (choose_encoding asc enc m0 msgstr)));
    [ unfold choose_encoding, re_search_m, re_group_m, py_decode_ascii, charset_re; rewrite bytes_eqb_refl;
      change (1 =? 1) with true;
      destruct enc as [?e|]; sx;
      [ | destruct m0 as [|?x ?m]; cbn [bytes_eqb]; sx;
          [ destruct (find_charset msgstr) as [?nm|]; sx;
            [ destruct (forallb is_ascii nm); sx | ] | ] ];
      repeat match goal with |- context [asc ?x] => destruct (asc x); sx end; reflexivity
    | rewrite HA; clear HA ]
  end.

(* from `self._last_msgid = msgid` to the end, for the encoding e *)
Ltac tail_block dec m0 :=
  let e := fresh "e" in intros e;
  sx; unfold build_entry, split_ctxt; cbn [splitn]; rewrite ?bytes_eqb_refl;
  rewrite ?llen1, ?llen2, ?llen_ge1; change (2 =? 1) with false; change (2 =? 2) with true; change (1 =? 1) with true;
  cbn beta iota;
  try match goal with |- context [mmap _ ?l] => generalize l; intros ?strs end;
  try rewrite (mmap_decode dec e) by (intros ?s; unfold py_decode; destruct (dec e s); reflexivity);
  unfold py_decode; destruct (break 4 m0) as [[?a ?b]|]; sx;
  repeat match goal with |- context [dec ?c ?x] => destruct (dec c x); sx; try reflexivity end;
  try match goal with |- context [find ?p ?l] => destruct (find p l); sx; reflexivity end.

Ltac order_block first last enc m0 Htail :=
  destruct first; sx;
  [ apply Htail
  | destruct last as [?l|]; sx; [|reflexivity];
    destruct (bytes_ltb m0 l); sx; [reflexivity|];
    destruct enc as [?e|]; sx; [apply Htail|reflexivity] ].

Lemma src_parse_entry_eq : forall asc dec be f i enc last mo so,
  src_parse_entry asc dec re_search_m re_group_m f (endian_str be) enc last i mo so =
  entry_result dec (parse_entry asc be f (i =? 0) enc last mo so).
Proof.
  intros asc dec be f i enc last mo so. unfold src_parse_entry, parse_entry, read_string. cbv zeta.
  generalize (i =? 0); intros first.
  rewrite src_read_ints_2. destruct (read_int2 be f mo) as [[n off]|[m]|c]; sx; [|reflexivity|destruct c; reflexivity].
  destruct (index f (off + n)) as [t|]; sx; [|reflexivity].
  cbn [bytes_eqb]. rewrite andb_true_r. destruct (t =? 0); sx; [|reflexivity].
  generalize (slice f off (off + n)); intros msgid.
  destruct (splitn 2 0 msgid) as [|m0 [|m1 [|m2 r]]] eqn:Hsp; sx.
  - reflexivity.
  - rewrite llen1. change (2 <? 1) with false. change (1 =? 1) with true. sx.
    rewrite src_read_ints_2. destruct (read_int2 be f so) as [[n2 off2]|[m]|c]; sx; [|reflexivity|destruct c; reflexivity].
    destruct (index f (off2 + n2)) as [t2|]; sx; [|reflexivity].
    cbn [bytes_eqb]. rewrite andb_true_r. destruct (t2 =? 0); sx; [|reflexivity].
    generalize (slice f off2 (off2 + n2)); intros msgstr.
    unfold finish_entry. cbv zeta.
    destruct (split_all 0 msgstr) as [|s0 [|s1 r]] eqn:Hss.
    + exfalso. exact (split_all_nonempty _ _ Hss).
    + apply split_all_single in Hss. subst s0. rewrite llen1. change (1 <? 1) with false. sx.
      match goal with |- mbind _ ?K = _ =>
        assert (Htail : forall e, K (Some e, Some e) =
                  entry_result dec (do en <- build_entry m0 [m0] msgstr [msgstr]; Ok (en, e, m0))) end.
      { tail_block dec m0. }
      enc_block asc enc m0 msgstr. order_block first last enc m0 Htail.
    + rewrite llen_ge2. reflexivity.
  - rewrite llen2. change (2 <? 2) with false. change (2 =? 1) with false. sx.
    rewrite src_read_ints_2. destruct (read_int2 be f so) as [[n2 off2]|[m]|c]; sx; [|reflexivity|destruct c; reflexivity].
    destruct (index f (off2 + n2)) as [t2|]; sx; [|reflexivity].
    cbn [bytes_eqb]. rewrite andb_true_r. destruct (t2 =? 0); sx; [|reflexivity].
    generalize (slice f off2 (off2 + n2)); intros msgstr.
    unfold finish_entry. cbv zeta.
    destruct (split_all 0 msgstr) as [|s0 r] eqn:Hss.
    + exfalso. exact (split_all_nonempty _ _ Hss).
    + match goal with |- mbind _ ?K = _ =>
        assert (Htail : forall e, K (Some e, Some e) =
                  entry_result dec (do en <- build_entry m0 [m0; m1] msgstr (s0 :: r); Ok (en, e, m0))) end.
      { tail_block dec m0. }
      enc_block asc enc m0 msgstr. order_block first last enc m0 Htail.
  - rewrite llen_ge3. reflexivity.
Qed.

(* Source tie for lib/moparser.py (notes/SRC4.md): the functions of Generated/MoParserSrc.v — the translation of
   Parser._read_ints / _parse_entry / _parse made on every run by tools/gen/gen_moparser_src.py — are EQUAL, for all
   arguments, to the hand-written model Model/MoParser.v (read_int, read_int2, parse_entry + the decode step, mo_load).
   A behavioural edit of that Python code changes the generated definitions and this file stops compiling. *)
From Coq Require Import List NArith Bool Lia.
From I18n Require Import Lib.Outcome Model.MoParser Model.MoParserPy Generated.MoParserSrc Spec.MoFormat
  Proofs.MoBytes Proofs.MoStrings Proofs.MoParser Proofs.MoCorollaries.
Import ListNotations.
Local Open Scope N_scope.

(* ------------------------------------------------------------------ *)
(* how the model's results are written in the vocabulary of the translation *)

(* the text of the model's error messages (mo_lib.MSG in the harness names the same strings) *)
Definition msg_parts (m : mo_msg) : list fpart :=
  match m with
  | MMagic => [FText [117; 110; 101; 120; 112; 101; 99; 116; 101; 100; 32; 109; 97; 103; 105; 99]]
  | MMajor n => [FText [117; 110; 101; 120; 112; 101; 99; 116; 101; 100; 32; 109; 97; 106; 111; 114; 32; 114; 101; 118; 105; 115; 105; 111; 110; 32; 110; 117; 109; 98; 101; 114; 58; 32]; FNum n]
  | MTruncated => [FText [116; 114; 117; 110; 99; 97; 116; 101; 100; 32; 102; 105; 108; 101]]
  | MIdNotTerminated => [FText [109; 115; 103; 105; 100; 32; 105; 115; 32; 110; 111; 116; 32; 110; 117; 108; 108; 45; 116; 101; 114; 109; 105; 110; 97; 116; 101; 100]]
  | MStrNotTerminated => [FText [109; 115; 103; 115; 116; 114; 32; 105; 115; 32; 110; 111; 116; 32; 110; 117; 108; 108; 45; 116; 101; 114; 109; 105; 110; 97; 116; 101; 100]]
  | MIdNul => [FText [117; 110; 101; 120; 112; 101; 99; 116; 101; 100; 32; 110; 117; 108; 108; 32; 98; 121; 116; 101; 32; 105; 110; 32; 109; 115; 103; 105; 100]]
  | MStrNul => [FText [117; 110; 101; 120; 112; 101; 99; 116; 101; 100; 32; 110; 117; 108; 108; 32; 98; 121; 116; 101; 32; 105; 110; 32; 109; 115; 103; 115; 116; 114]]
  | MDuplicate => [FText [100; 117; 112; 108; 105; 99; 97; 116; 101; 32; 109; 101; 115; 115; 97; 103; 101; 32; 100; 101; 102; 105; 110; 105; 116; 105; 111; 110]]
  | MNotSorted => [FText [109; 101; 115; 115; 97; 103; 101; 115; 32; 97; 114; 101; 32; 110; 111; 116; 32; 115; 111; 114; 116; 101; 100]]
  end.

(* the model's foreign exceptions; the kinds that no function of Model/MoParser.v produces are sent to XValue *)
Definition of_crash {A} (c : crash_kind) : mres A :=
  match c with
  | CAssertion => MAssert
  | CTypeError => MRaise XType
  | CIndexError => MRaise XIndex
  | CStructError => MRaise XStruct
  | _ => MRaise XValue
  end.

Definition of_out {A B} (f : A -> B) (o : outcome A mo_err) : mres B :=
  match o with
  | Ok a => MRet (f a)
  | Err (MoSyntax m) => MRaise (XSyntax (msg_parts m))
  | Crash c => of_crash c
  end.

(* self._endian: '<' for little endian, '>' for big endian *)
Definition endian_str (be : bool) : bytes := if be then [62] else [60].

(* the oracles re.search / match.group at the one pattern the model implements (find_charset) *)
Definition charset_re : bytes := [99; 104; 97; 114; 115; 101; 116; 61; 40; 91; 94; 32; 9; 10; 93; 43; 41].   (* charset=([^ \t\n]+) *)
Definition re_search_m (p s : bytes) : option bytes := if bytes_eqb p charset_re then find_charset s else None.
Definition re_group_m (m : bytes) (k : N) : bytes := if k =? 1 then m else [].

(* the polib entry built from a byte-level entry of the model *)
Definition entry_attrs : list (bytes * pyconst) :=     (* sorted by name, as entry_setattr keeps them *)
  [ ([99; 111; 109; 109; 101; 110; 116], PNone);                                                         (* comment = None *)
    ([102; 108; 97; 103; 115], PEmptyTuple);                                                            (* flags = () *)
    ([111; 99; 99; 117; 114; 114; 101; 110; 99; 101; 115], PEmptyTuple);                                (* occurrences = () *)
    ([112; 114; 101; 118; 105; 111; 117; 115; 95; 109; 115; 103; 99; 116; 120; 116], PNone);            (* previous_msgctxt = None *)
    ([112; 114; 101; 118; 105; 111; 117; 115; 95; 109; 115; 103; 105; 100], PNone);                     (* previous_msgid = None *)
    ([112; 114; 101; 118; 105; 111; 117; 115; 95; 109; 115; 103; 105; 100; 95; 112; 108; 117; 114; 97; 108], PNone);   (* previous_msgid_plural = None *)
    ([116; 114; 97; 110; 115; 108; 97; 116; 101; 100], PConstFn true) ].                                (* translated = lambda: True *)

Definition entry_embed (e : mo_entry) : pentry :=
  {| p_kw := {| k_msgid := Some (e_id e);
                k_msgctxt := e_ctxt e;
                k_msgstr := match e_plural e with None => Some (hd [] (e_strs e)) | Some _ => None end;
                k_msgid_plural := e_plural e;
                k_msgstr_plural := match e_plural e with None => None | Some _ => Some (e_strs e) end |};
     p_attrs := entry_attrs |}.

(* ------------------------------------------------------------------ *)
(* Parser._read_ints *)

Lemma endian_be_str : forall be, endian_be (endian_str be) = Some be.
Proof. destruct be; reflexivity. Qed.

Lemma src_read_ints_1 : forall be f at_,
  src_read_ints f (endian_str be) at_ 1 = of_out (fun x => [x]) (read_int be f at_).
Proof.
  intros be f at_. unfold src_read_ints, read_int. cbv zeta.
  match goal with |- context [len f <? ?e] => replace e with (at_ + 4) by lia end.
  destruct (len f <? at_ + 4); [reflexivity|].
  unfold py_unpack_I. rewrite endian_be_str. change (N.to_nat 1) with 1%nat. unfold unpack1.
  destruct (slice f at_ (at_ + 4)) as [|b0 [|b1 [|b2 [|b3 [|b4 r]]]]]; reflexivity.
Qed.

Lemma src_read_ints_2 : forall be f at_,
  src_read_ints f (endian_str be) at_ 2 = of_out (fun p => [fst p; snd p]) (read_int2 be f at_).
Proof.
  intros be f at_. unfold src_read_ints, read_int2. cbv zeta.
  match goal with |- context [len f <? ?e] => replace e with (at_ + 8) by lia end.
  destruct (len f <? at_ + 8); [reflexivity|].
  unfold py_unpack_I. rewrite endian_be_str. change (N.to_nat 2) with 2%nat. unfold unpack2.
  destruct (slice f at_ (at_ + 8)) as [|b0 [|b1 [|b2 [|b3 [|c0 [|c1 [|c2 [|c3 [|c4 r]]]]]]]]]; reflexivity.
Qed.

(* ------------------------------------------------------------------ *)
(* Parser._parse_entry *)

Lemma find_app : forall {A} (p : A -> bool) a b,
  find p (a ++ b) = match find p a with Some x => Some x | None => find p b end.
Proof. intros A p a b. induction a as [|x a IH]; [reflexivity|]. cbn [app find]. destruct (p x); [reflexivity|exact IH]. Qed.

Lemma mmap_decode : forall dec cs (g : bytes -> mres bytes) l, (forall s, g s = py_decode dec cs s) ->
  mmap g l = match find (fun s => negb (dec cs s)) l with Some s => MRaise (XDecode s) | None => MRet l end.
Proof.
  intros dec cs g l Hg. induction l as [|x l IH]; [reflexivity|]. cbn [mmap find]. rewrite Hg. unfold py_decode.
  destruct (dec cs x); cbn [negb mbind]; [|reflexivity]. rewrite IH. destruct (find _ l); reflexivity.
Qed.

(* what _parse_entry does with a byte-level entry the model accepted: decode its strings in the order of the code *)
Definition entry_result (dec : bytes -> bytes -> bool) (r : outcome (mo_entry * bytes * bytes) mo_err)
  : mres (pentry * (option bytes * option bytes)) :=
  match r with
  | Ok (e, enc', last') =>
    match find (fun s => negb (dec enc' s)) (entry_strings e) with
    | Some s => MRaise (XDecode s)
    | None => MRet (entry_embed e, (Some enc', Some last'))
    end
  | Err (MoSyntax m) => MRaise (XSyntax (msg_parts m))
  | Crash c => of_crash c
  end.

Ltac sx := cbn [mbind mcatch of_out of_crash obind exn_isa fst snd negb andb orb is_none is_nil nth_error
                blist_eqb unsnoc app find entry_strings e_id e_ctxt e_plural e_strs hd entry_result].

Lemma llen1 : forall {A} (a : A), llen [a] = 1.
Proof. reflexivity. Qed.
Lemma llen2 : forall {A} (a b : A), llen [a; b] = 2.
Proof. reflexivity. Qed.
Lemma llen_ge3 : forall {A} (a b c : A) r, 2 <? llen (a :: b :: c :: r) = true.
Proof. intros. apply N.ltb_lt. unfold llen. cbn [length]. lia. Qed.
Lemma llen_ge2 : forall {A} (a b : A) r, 1 <? llen (a :: b :: r) = true.
Proof. intros. apply N.ltb_lt. unfold llen. cbn [length]. lia. Qed.
Lemma llen_ge1 : forall {A} (a : A) r, 1 <=? llen (a :: r) = true.
Proof. intros. apply N.leb_le. unfold llen. cbn [length]. lia. Qed.

(* the `if i == 0:` block computes choose_encoding *)
Ltac enc_block asc enc m0 msgstr :=
  match goal with |- mbind (if _ then ?A else _) _ = _ =>
    let HA := fresh "HA" in
    assert (HA : A = MRet (Some (choose_encoding asc enc m0 msgstr), Some (choose_encoding asc enc m0 msgstr)));
    [ unfold choose_encoding, re_search_m, re_group_m, py_decode_ascii, charset_re; rewrite bytes_eqb_refl;
      change (1 =? 1) with true;
      destruct enc as [?e|]; sx;
      [ | destruct m0 as [|?x ?m]; cbn [bytes_eqb]; sx;
          [ destruct (find_charset msgstr) as [?nm|]; sx;
            [ destruct (forallb is_ascii nm); sx | ] | ] ];
      repeat match goal with |- context [asc ?x] => destruct (asc x); sx end; reflexivity
    | rewrite HA; clear HA ]
  end.

(* from `self._last_msgid = msgid` to the end, for the encoding e *)
Ltac tail_block dec m0 :=
  let e := fresh "e" in intros e;
  sx; unfold build_entry, split_ctxt; cbn [splitn]; rewrite ?bytes_eqb_refl;
  rewrite ?llen1, ?llen2, ?llen_ge1; change (2 =? 1) with false; change (2 =? 2) with true; change (1 =? 1) with true;
  cbn beta iota;
  try match goal with |- context [mmap _ ?l] => generalize l; intros ?strs end;
  try rewrite (mmap_decode dec e) by (intros ?s; unfold py_decode; destruct (dec e s); reflexivity);
  unfold py_decode; destruct (break 4 m0) as [[?a ?b]|]; sx;
  repeat match goal with |- context [dec ?c ?x] => destruct (dec c x); sx; try reflexivity end;
  try match goal with |- context [find ?p ?l] => destruct (find p l); sx; reflexivity end.

Ltac order_block first last enc m0 Htail :=
  destruct first; sx;
  [ apply Htail
  | destruct last as [?l|]; sx; [|reflexivity];
    destruct (bytes_ltb m0 l); sx; [reflexivity|];
    destruct enc as [?e|]; sx; [apply Htail|reflexivity] ].

Lemma src_parse_entry_eq : forall asc dec be f i enc last mo so,
  src_parse_entry asc dec re_search_m re_group_m f (endian_str be) enc last i mo so =
  entry_result dec (parse_entry asc be f (i =? 0) enc last mo so).
Proof.
  intros asc dec be f i enc last mo so. unfold src_parse_entry, parse_entry, read_string. cbv zeta.
  generalize (i =? 0); intros first.
  rewrite src_read_ints_2. destruct (read_int2 be f mo) as [[n off]|[m]|c]; sx; [|reflexivity|destruct c; reflexivity].
  rewrite ?(N.add_comm n off).
  destruct (index f (off + n)) as [t|]; sx; [|reflexivity].
  cbn [bytes_eqb]. rewrite andb_true_r. destruct (t =? 0); sx; [|reflexivity].
  generalize (slice f off (off + n)); intros msgid.
  destruct (splitn 2 0 msgid) as [|m0 [|m1 [|m2 r]]] eqn:Hsp; sx.
  - reflexivity.
  - rewrite llen1. change (2 <? 1) with false. change (1 =? 1) with true. sx.
    rewrite src_read_ints_2. destruct (read_int2 be f so) as [[n2 off2]|[m]|c]; sx; [|reflexivity|destruct c; reflexivity].
    rewrite ?(N.add_comm n2 off2).
    destruct (index f (off2 + n2)) as [t2|]; sx; [|reflexivity].
    cbn [bytes_eqb]. rewrite andb_true_r. destruct (t2 =? 0); sx; [|reflexivity].
    generalize (slice f off2 (off2 + n2)); intros msgstr.
    unfold finish_entry. cbv zeta.
    destruct (split_all 0 msgstr) as [|s0 [|s1 r]] eqn:Hss.
    + exfalso. exact (split_all_nonempty _ _ Hss).
    + apply split_all_single in Hss. subst s0. rewrite llen1. change (1 <? 1) with false. sx.
      match goal with |- mbind _ ?K = _ =>
        assert (Htail : forall e, K (Some e, Some e) =
                  entry_result dec (do en <- build_entry m0 [m0] msgstr [msgstr]; Ok (en, e, m0))) end.
      { tail_block dec m0. }
      enc_block asc enc m0 msgstr. order_block first last enc m0 Htail.
    + rewrite llen_ge2. reflexivity.
  - rewrite llen2. change (2 <? 2) with false. change (2 =? 1) with false. sx.
    rewrite src_read_ints_2. destruct (read_int2 be f so) as [[n2 off2]|[m]|c]; sx; [|reflexivity|destruct c; reflexivity].
    rewrite ?(N.add_comm n2 off2).
    destruct (index f (off2 + n2)) as [t2|]; sx; [|reflexivity].
    cbn [bytes_eqb]. rewrite andb_true_r. destruct (t2 =? 0); sx; [|reflexivity].
    generalize (slice f off2 (off2 + n2)); intros msgstr.
    unfold finish_entry. cbv zeta.
    destruct (split_all 0 msgstr) as [|s0 r] eqn:Hss.
    + exfalso. exact (split_all_nonempty _ _ Hss).
    + rewrite ?andb_false_r. sx.
      match goal with |- mbind _ ?K = _ =>
        assert (Htail : forall e, K (Some e, Some e) =
                  entry_result dec (do en <- build_entry m0 [m0; m1] msgstr (s0 :: r); Ok (en, e, m0))) end.
      { tail_block dec m0. }
      enc_block asc enc m0 msgstr. order_block first last enc m0 Htail.
  - rewrite llen_ge3. reflexivity.
Qed.

(* ------------------------------------------------------------------ *)
(* Parser._parse: the loop *)

Lemma parse_entry_keeps_enc : forall asc be f cs last mo so e enc' last',
  parse_entry asc be f false (Some cs) last mo so = Ok (e, enc', last') -> enc' = cs.
Proof.
  intros asc be f cs last mo so e enc' last' H. unfold parse_entry in H.
  destruct (read_string be f mo MIdNotTerminated) as [msgid| |]; cbn [obind] in H; try discriminate.
  assert (G : forall m0 rest msgstr, finish_entry asc false (Some cs) last m0 rest msgstr = Ok (e, enc', last') -> enc' = cs).
  { clear H. intros m0 rest msgstr H. unfold finish_entry in H.
    assert (G2 : (do encoding <- match last with
                                 | Some l => if bytes_ltb m0 l then Err (MoSyntax MNotSorted) else Ok cs
                                 | None => Crash CTypeError
                                 end;
                  do e0 <- build_entry m0 (m0 :: rest) msgstr (split_all 0 msgstr); Ok (e0, encoding, m0)) = Ok (e, enc', last') -> enc' = cs).
    { clear H. intros H. destruct last as [l|]; [|discriminate]. destruct (bytes_ltb m0 l); [discriminate|]. cbn [obind] in H.
      destruct (build_entry m0 (m0 :: rest) msgstr (split_all 0 msgstr)); cbn [obind] in H; try discriminate.
      inversion H. reflexivity. }
    destruct rest as [|p rest]; [|exact (G2 H)].
    destruct (split_all 0 msgstr) as [|s0 [|s1 r]]; [exact (G2 H)|exact (G2 H)|discriminate]. }
  destruct (splitn 2 0 msgid) as [|m0 [|m1 [|m2 r]]]; try discriminate;
    (destruct (read_string be f so MStrNotTerminated) as [msgstr| |]; cbn [obind] in H; try discriminate; exact (G _ _ _ H)).
Qed.

Lemma loop_keeps_enc : forall asc be f fuel i n otab ttab cs last es encf r,
  i <> 0 -> entries_loop asc be f fuel i n otab ttab (Some cs) last = (es, encf, r) -> encf = Some cs.
Proof.
  intros asc be f fuel. induction fuel as [|k IH]; intros i n otab ttab cs last es encf r Hi H;
    cbn [entries_loop] in H; destruct (i <? n); try (inversion H; reflexivity);
    destruct (parse_entry asc be f (i =? 0) (Some cs) last (otab + 8 * i) (ttab + 8 * i)) as [[[e enc'] last']|x|c] eqn:P;
    try (inversion H; reflexivity);
    (apply N.eqb_neq in Hi; rewrite Hi in P; apply parse_entry_keeps_enc in P; subst enc').
  - inversion H. reflexivity.
  - destruct (entries_loop asc be f k (i + 1) n otab ttab (Some cs) (Some last')) as [[es2 encf2] r2] eqn:L.
    inversion H; subst. apply (IH _ _ _ _ _ _ _ _ _) in L; [exact L|lia].
Qed.

Definition cs_of (enc : option bytes) : bytes := match enc with Some c => c | None => ascii_name end.

(* what the loop of _parse makes of the model's loop result: strings decoded entry by entry with the charset in force *)
Definition load_result (dec : bytes -> bytes -> bool) (acc : list pentry)
  (x : list mo_entry * option bytes * outcome unit mo_err) : mres (option bytes * list pentry) :=
  let '(es, enc, r) := x in
  match find (fun s => negb (dec (cs_of enc) s)) (concat (map entry_strings es)) with
  | Some s => MRaise (XDecode s)
  | None => match r with
            | Ok _ => MRet (enc, acc ++ map entry_embed es)
            | Err (MoSyntax m) => MRaise (XSyntax (msg_parts m))
            | Crash c => of_crash c
            end
  end.

(* self._encoding and the entries appended to self.instance (self._last_msgid is not part of the model's result) *)
Definition loop_view (r : mres (option bytes * option bytes * list pentry)) : mres (option bytes * list pentry) :=
  mbind r (fun '(enc, _, es) => MRet (enc, es)).

Lemma src_loop_eq : forall asc dec be f otab ttab k fuel i n enc last acc,
  N.of_nat k = n - i -> i + N.of_nat fuel = blen f ->
  loop_view (src_parse_loop1 asc dec re_search_m re_group_m f (endian_str be) otab ttab k i enc last acc) =
  load_result dec acc (entries_loop asc be f fuel i n otab ttab enc last).
Proof.
  intros asc dec be f otab ttab k. induction k as [|k IH]; intros fuel i n enc last acc Hk Hfuel.
  - assert (L : (i <? n) = false) by (apply N.ltb_ge; cbn [N.of_nat] in Hk; lia).
    assert (E : entries_loop asc be f fuel i n otab ttab enc last = ([], enc, Ok tt)) by (destruct fuel; cbn [entries_loop]; rewrite L; reflexivity).
    rewrite E. cbn [src_parse_loop1 loop_view mbind load_result map concat find]. now rewrite app_nil_r.
  - assert (L : (i <? n) = true) by (apply N.ltb_lt; rewrite Nat2N.inj_succ in Hk; lia).
    cbn [src_parse_loop1]. rewrite src_parse_entry_eq.
    assert (E : entries_loop asc be f fuel i n otab ttab enc last =
                match parse_entry asc be f (i =? 0) enc last (otab + 8 * i) (ttab + 8 * i) with
                | Ok (e, enc', last') =>
                  match fuel with
                  | O => ([e], Some enc', Crash COutOfFuel)
                  | S k => let '(es, encf, r) := entries_loop asc be f k (i + 1) n otab ttab (Some enc') (Some last') in (e :: es, encf, r)
                  end
                | Err x => ([], enc, Err x)
                | Crash c => ([], enc, Crash c)
                end) by (destruct fuel; cbn [entries_loop]; rewrite L; reflexivity).
    rewrite E. clear E.
    destruct (parse_entry asc be f (i =? 0) enc last (otab + 8 * i) (ttab + 8 * i)) as [[[e enc'] last']|[m]|c] eqn:P.
    + destruct fuel as [|fuel]; [apply parse_entry_inside in P; cbn [N.of_nat] in Hfuel; lia|].
      destruct (entries_loop asc be f fuel (i + 1) n otab ttab (Some enc') (Some last')) as [[es encf] r] eqn:Lp.
      assert (encf = Some enc') by (eapply loop_keeps_enc; [|exact Lp]; lia). subst encf.
      cbn [entry_result load_result map concat cs_of]. rewrite find_app.
      destruct (find (fun s => negb (dec enc' s)) (entry_strings e)); [reflexivity|].
      cbn [mbind]. rewrite (IH fuel (i + 1) n (Some enc') (Some last') (acc ++ [entry_embed e])).
      * rewrite Lp. cbn [load_result cs_of]. destruct (find _ _); [reflexivity|].
        rewrite <- app_assoc. reflexivity.
      * rewrite Nat2N.inj_succ in Hk. lia.
      * rewrite Nat2N.inj_succ in Hfuel. lia.
    + reflexivity.
    + destruct c; reflexivity.
Qed.

(* ------------------------------------------------------------------ *)
(* Parser._parse = mo_load *)

Definition load_embed (r : outcome mo_out load_err) : mres (option bytes * bool * list pentry) :=
  match r with
  | Ok o => MRet (o_charset o, o_hidden o, map entry_embed (o_entries o))
  | Err (LSyntax m) => MRaise (XSyntax (msg_parts m))
  | Err (LDecode s) => MRaise (XDecode s)
  | Crash c => of_crash c
  end.

(* what Parser(path, encoding=...) leaves behind: self._encoding, self.instance.possible_hidden_strings, the entries
   appended to self.instance (self._endian and self._last_msgid are not part of the model's result) *)
Definition parse_view (r : mres (unit * (bytes * option bytes * option bytes * bool * list pentry)))
  : mres (option bytes * bool * list pentry) :=
  mbind r (fun '(_, (_, enc, _, hidden, es)) => MRet (enc, hidden, es)).

Ltac rd1 be f at_ :=
  rewrite src_read_ints_1; destruct (read_int be f at_) as [?w|[?m]|?c]; sx; [|reflexivity|destruct c; reflexivity].

Ltac after_hidden asc dec be f w0 enc0 :=
  rewrite src_read_ints_2; destruct (read_int2 be f 12) as [[?otab ?ttab]|[?m]|?c]; sx; [|reflexivity|destruct c; reflexivity];
  cbn [h_be h_n h_hidden h_otab h_ttab];
  let HL := fresh "HL" in
  pose proof (src_loop_eq asc dec be f otab ttab (N.to_nat w0) (length f) 0 w0 enc0 None []
                ltac:(rewrite N2Nat.id; lia) ltac:(unfold blen; lia)) as HL;
  destruct (src_parse_loop1 asc dec re_search_m re_group_m f (endian_str be) otab ttab (N.to_nat w0) 0 enc0 None [])
    as [[[?a ?b] ?c]| |?x];
  (destruct (entries_loop asc be f (length f) 0 w0 otab ttab enc0 None) as [[?es ?encf] ?r];
   unfold loop_view, load_result, cs_of in HL; cbn [mbind app] in HL; cbn [mbind];
   (destruct (find _ _);
    [ inversion HL; reflexivity
    | destruct r as [[]|[?m]|?ck]; try (inversion HL; reflexivity); destruct ck; inversion HL; reflexivity ])).

Lemma src_parse_after_magic : forall asc dec enc0 f be,
  (bytes_eqb (slice f 0 4) le_magic = true -> be = false) ->
  (be = true -> bytes_eqb (slice f 0 4) be_magic = true) ->
  (be = false -> bytes_eqb (slice f 0 4) le_magic = true) ->
  parse_view (src_parse asc dec re_search_m re_group_m f enc0 []) = load_embed (mo_load asc dec enc0 f).
Proof.
  intros asc dec enc0 f be H1 H2 H3. unfold src_parse, mo_load, mo_run, parse_header. cbv zeta.
  change src_little_endian_magic with le_magic. change src_big_endian_magic with be_magic.
  assert (E : (if bytes_eqb (slice f 0 4) le_magic then MRet [60]
               else if bytes_eqb (slice f 0 4) be_magic then MRet [62]
               else MRaise (XSyntax (msg_parts MMagic))) = MRet (endian_str be)).
  { destruct be; [|now rewrite H3]. destruct (bytes_eqb (slice f 0 4) le_magic); [now specialize (H1 eq_refl)|]. now rewrite H2. }
  assert (E' : (if bytes_eqb (slice f 0 4) le_magic then Ok false
                else if bytes_eqb (slice f 0 4) be_magic then Ok true
                else Err (MoSyntax MMagic)) = (Ok be : outcome bool mo_err)).
  { destruct be; [|now rewrite H3]. destruct (bytes_eqb (slice f 0 4) le_magic); [now specialize (H1 eq_refl)|]. now rewrite H2. }
  unfold msg_parts in E. rewrite E, E'. clear E E'. unfold parse_view. sx.
  rd1 be f 4. destruct (1 <? w / 65536); sx; [reflexivity|].
  rd1 be f 8.
  destruct (1 <? w mod 65536); sx; [after_hidden asc dec be f w0 enc0|].
  destruct (w mod 65536 =? 1); sx; [|after_hidden asc dec be f w0 enc0].
  rd1 be f 36. destruct (0 <? w1); sx; after_hidden asc dec be f w0 enc0.
Qed.

(* the tie: for every file and every encoding argument, running the translated Parser._parse (with the translated
   _parse_entry and _read_ints) gives what the model's mo_load gives *)
Theorem src_parse_eq : forall asc dec enc0 f,
  parse_view (src_parse asc dec re_search_m re_group_m f enc0 []) = load_embed (mo_load asc dec enc0 f).
Proof.
  intros asc dec enc0 f.
  destruct (bytes_eqb (slice f 0 4) le_magic) eqn:E1.
  - apply (src_parse_after_magic asc dec enc0 f false); congruence.
  - destruct (bytes_eqb (slice f 0 4) be_magic) eqn:E2.
    + apply (src_parse_after_magic asc dec enc0 f true); congruence.
    + unfold src_parse, mo_load, mo_run, parse_header. cbv zeta.
      change src_little_endian_magic with le_magic. change src_big_endian_magic with be_magic.
      rewrite E1, E2. reflexivity.
Qed.

(* consequence for the translated code itself (C09): whatever the file, the translated parser ends normally, with
   moparser.SyntaxError or with UnicodeDecodeError — no assertion failure, IndexError, TypeError, ValueError, struct.error *)
Definition clean {A} (r : mres A) : Prop :=
  match r with MRet _ => True | MRaise (XSyntax _) => True | MRaise (XDecode _) => True | _ => False end.

Theorem src_parse_clean : forall asc dec enc0 f, clean (src_parse asc dec re_search_m re_group_m f enc0 []).
Proof.
  intros asc dec enc0 f. assert (H := src_parse_eq asc dec enc0 f). assert (T := mo_load_total asc dec enc0 f).
  destruct (mo_load asc dec enc0 f) as [o|[m|s]|c]; [| | |exfalso; exact (T c eq_refl)];
    destruct (src_parse asc dec re_search_m re_group_m f enc0 []) as [[u [[[[en e1] l] h] es]]| |x];
    cbn in H; try discriminate; cbn; try exact I; inversion H; exact I.
Qed.

Lemma src_read_ints_eq : forall be f at_,
  src_read_ints f (endian_str be) at_ 1 = of_out (fun x => [x]) (read_int be f at_) /\
  src_read_ints f (endian_str be) at_ 2 = of_out (fun p => [fst p; snd p]) (read_int2 be f at_).
Proof. intros be f at_. split; [apply src_read_ints_1|apply src_read_ints_2]. Qed.

Lemma src_magic_eq : src_little_endian_magic = le_magic /\ src_big_endian_magic = be_magic.
Proof. split; reflexivity. Qed.

(* non-vacuity: the translated parser run on the example file of Props/C08.v *)
Lemma src_parse_ex :
  parse_view (src_parse (fun _ => true) (fun _ _ => true) re_search_m re_group_m ex_file None []) =
  MRet (Some utf8_name, false, map entry_embed ex_catalog).
Proof. vm_compute. reflexivity. Qed.

(* parse_language / __str__ against the locale grammar of Spec/Locale.v. *)
From Coq Require Import List NArith Bool Arith Lia.
From I18n Require Import Lib.Outcome Model.Ling Spec.Locale.
Import ListNotations.
Local Open Scope N_scope.

(* ---------- strings ---------- *)
Lemma lg_eqb_spec a b : lg_eqb a b = true <-> a = b.
Proof.
  revert b; induction a as [|x a IH]; intros [|y b]; cbn [lg_eqb]; try (split; congruence).
  rewrite andb_true_iff, N.eqb_eq, IH. split.
  - intros [-> ->]; reflexivity.
  - intros H; inversion H; auto.
Qed.

Lemma lg_eqb_refl a : lg_eqb a a = true.
Proof. apply lg_eqb_spec; reflexivity. Qed.

Lemma lg_eqb_false a b : lg_eqb a b = false <-> a <> b.
Proof.
  split.
  - intros H E. apply lg_eqb_spec in E. congruence.
  - intros H. destruct (lg_eqb a b) eqn:E; [apply lg_eqb_spec in E; contradiction|reflexivity].
Qed.

Definition hd_fails (p : N -> bool) (r : list N) : Prop :=
  match r with [] => True | c :: _ => p c = false end.

Lemma lg_span_sound p s : forall a b, lg_span p s = (a, b) -> s = a ++ b /\ forallb p a = true /\ hd_fails p b.
Proof.
  induction s as [|c r IH]; intros a b; cbn [lg_span].
  - intros H; inversion H; subst; cbn; auto.
  - destruct (p c) eqn:E.
    + destruct (lg_span p r) as [a' b'] eqn:E'. intros H; inversion H; subst.
      destruct (IH _ _ eq_refl) as [-> [H1 H2]]. cbn [app forallb]. rewrite E, H1. auto.
    + intros H; inversion H; subst. cbn. auto.
Qed.

Lemma lg_span_complete p a b : forallb p a = true -> hd_fails p b -> lg_span p (a ++ b) = (a, b).
Proof.
  induction a as [|c a IH]; cbn [app forallb].
  - intros _ H. destruct b as [|c b]; cbn [lg_span]; [reflexivity|]. cbn in H. rewrite H. reflexivity.
  - rewrite andb_true_iff. intros [Hc Ha] Hb. cbn [lg_span]. rewrite Hc, (IH Ha Hb). reflexivity.
Qed.

(* ---------- character classes: boolean tests vs the specification ---------- *)
Lemma in_range_spec lo hi c : in_range lo hi c = true <-> lo <= c <= hi.
Proof. unfold in_range. rewrite andb_true_iff, !N.leb_le. tauto. Qed.

Lemma is_lower_spec c : is_lower c = true <-> lower c.
Proof. apply in_range_spec. Qed.
Lemma is_upper_spec c : is_upper c = true <-> upper c.
Proof. apply in_range_spec. Qed.
Lemma is_encch_spec c : is_encch c = true <-> encch c.
Proof.
  unfold is_encch, encch, is_lower, is_upper, is_digit, lower, upper, digit.
  rewrite !orb_true_iff, !in_range_spec, !N.eqb_eq. tauto.
Qed.

Lemma forallb_Forall (p : N -> bool) (P : N -> Prop) : (forall c, p c = true <-> P c) ->
  forall l, forallb p l = true <-> Forall P l.
Proof.
  intros H l. rewrite forallb_forall, Forall_forall. split; intros H0 x Hx; apply H, H0, Hx.
Qed.

Lemma ascii_upper_up : forall c, ascii_upper c = up c.
Proof. reflexivity. Qed.

Lemma render_locale_text ll cc en md : render ll cc en md = locale_text ll cc en md.
Proof. reflexivity. Qed.

Definition part_ok (min : nat) (cls : N -> bool) (o : option (list N)) : Prop :=
  match o with Some x => (min <= length x)%nat /\ forallb cls x = true | None => True end.

Lemma part_ok_wf min cls P o : (forall c, cls c = true <-> P c) -> (part_ok min cls o <-> part_wf min P o).
Proof.
  intros H. destruct o as [x|]; cbn; [|tauto]. rewrite (forallb_Forall cls P H). tauto.
Qed.

(* ---------- the optional groups ---------- *)
Lemma opt_group_sound sep cls min s g r : opt_group sep cls min s = (g, r) ->
  s = optpart sep g ++ r /\ part_ok min cls g /\
  match g with Some _ => hd_fails cls r | None => True end.
Proof.
  unfold opt_group. destruct s as [|c t].
  - intros H; inversion H; subst; cbn; auto.
  - destruct (N.eqb c sep) eqn:E.
    + destruct (lg_span cls t) as [g' r'] eqn:Es. destruct (Nat.leb min (length g')) eqn:El.
      * intros H; inversion H; subst. apply N.eqb_eq in E; subst.
        apply lg_span_sound in Es. destruct Es as [-> [H1 H2]]. apply Nat.leb_le in El.
        cbn. auto.
      * intros H; inversion H; subst. cbn; auto.
    + intros H; inversion H; subst; cbn; auto.
Qed.

Lemma opt_group_some sep cls min g r : forallb cls g = true -> (min <= length g)%nat -> hd_fails cls r ->
  opt_group sep cls min (sep :: g ++ r) = (Some g, r).
Proof.
  intros Hg Hl Hr. unfold opt_group. rewrite N.eqb_refl, (lg_span_complete _ _ _ Hg Hr).
  apply Nat.leb_le in Hl. rewrite Hl. reflexivity.
Qed.

Lemma opt_group_none sep cls min r : hd_fails (fun c => N.eqb c sep) r -> opt_group sep cls min r = (None, r).
Proof. unfold opt_group. destruct r as [|c t]; cbn; [reflexivity|]. intros ->. reflexivity. Qed.

Definition hd_in (al : list N) (r : list N) : Prop :=
  match r with [] => True | c :: _ => In c al end.

Lemma hd_in_optpart sep g r al : hd_in al r -> hd_in (sep :: al) (optpart sep g ++ r).
Proof. destruct g as [x|]; cbn; [auto|]. destruct r; cbn; auto. Qed.

Lemma hd_in_fails al p r : hd_in al r -> (forall c, In c al -> p c = false) -> hd_fails p r.
Proof. destruct r; cbn; auto. Qed.

(* ---------- soundness: what an accepted string looks like ---------- *)
Lemma parse_gen_sound endp s l : parse_language_gen endp s = Ok l ->
  exists ll cc en md r, s = render ll cc en md ++ r /\ endp r = true /\
    ((2 <= length ll)%nat /\ forallb is_lower ll = true /\ part_ok 2 is_upper cc /\ part_ok 1 is_encch en /\ part_ok 1 is_lower md) /\
    l = mkLang ll cc (option_map (map ascii_upper) en) md.
Proof.
  unfold parse_language_gen.
  destruct (lg_span is_lower s) as [ll r1] eqn:E1.
  destruct (Nat.leb 2 (length ll)) eqn:El; cbn [negb]; [|discriminate].
  destruct (opt_group 95 is_upper 2 r1) as [cc r2] eqn:E2.
  destruct (opt_group 46 is_encch 1 r2) as [en r3] eqn:E3.
  destruct (opt_group 64 is_lower 1 r3) as [md r4] eqn:E4.
  destruct (endp r4) eqn:Ee; [|discriminate].
  intros H; inversion H; subst l; clear H.
  apply lg_span_sound in E1. destruct E1 as [-> [Hl _]].
  apply opt_group_sound in E2. destruct E2 as [-> [Hc _]].
  apply opt_group_sound in E3. destruct E3 as [-> [He _]].
  apply opt_group_sound in E4. destruct E4 as [-> [Hm _]].
  apply Nat.leb_le in El.
  exists ll, cc, en, md, r4. unfold render. rewrite <- !app_assoc. auto 10.
Qed.

Lemma parse_gen_total endp s : parse_language_gen endp s = Err LSyntax \/ exists l, parse_language_gen endp s = Ok l.
Proof.
  unfold parse_language_gen.
  destruct (lg_span is_lower s) as [ll r1].
  destruct (negb (Nat.leb 2 (length ll))); [auto|].
  destruct (opt_group 95 is_upper 2 r1) as [cc r2].
  destruct (opt_group 46 is_encch 1 r2) as [en r3].
  destruct (opt_group 64 is_lower 1 r3) as [md r4].
  destruct (endp r4); eauto.
Qed.

(* ---------- completeness: every locale name (followed by nothing or by one newline) is scanned as its parts ---------- *)
Lemma parse_gen_complete endp ll cc en md r :
  (2 <= length ll)%nat -> forallb is_lower ll = true -> part_ok 2 is_upper cc -> part_ok 1 is_encch en -> part_ok 1 is_lower md ->
  r = [] \/ r = [10] ->
  parse_language_gen endp (render ll cc en md ++ r) =
    if endp r then Ok (mkLang ll cc (option_map (map ascii_upper) en) md) else Err LSyntax.
Proof.
  intros Hl Fl Hc He Hm Hr.
  assert (H0 : hd_in [10] r) by (destruct Hr as [->| ->]; cbn; auto).
  pose proof (hd_in_optpart 64 md r _ H0) as H1.
  pose proof (hd_in_optpart 46 en _ _ H1) as H2.
  pose proof (hd_in_optpart 95 cc _ _ H2) as H3.
  unfold parse_language_gen, render. rewrite <- !app_assoc.
  rewrite (lg_span_complete is_lower ll _ Fl).
  2:{ apply (hd_in_fails _ _ _ H3). intros c [<-|[<-|[<-|[<-|[]]]]]; reflexivity. }
  apply Nat.leb_le in Hl. rewrite Hl. cbn [negb].
  assert (E2 : opt_group 95 is_upper 2 (optpart 95 cc ++ optpart 46 en ++ optpart 64 md ++ r)
               = (cc, optpart 46 en ++ optpart 64 md ++ r)).
  { destruct cc as [u|]; cbn [optpart app].
    - destruct Hc as [Hc1 Hc2]. apply opt_group_some; auto.
      apply (hd_in_fails _ _ _ H2). intros c [<-|[<-|[<-|[]]]]; reflexivity.
    - apply opt_group_none. apply (hd_in_fails _ _ _ H2). intros c [<-|[<-|[<-|[]]]]; reflexivity. }
  rewrite E2.
  assert (E3 : opt_group 46 is_encch 1 (optpart 46 en ++ optpart 64 md ++ r) = (en, optpart 64 md ++ r)).
  { destruct en as [u|]; cbn [optpart app].
    - destruct He as [He1 He2]. apply opt_group_some; auto.
      apply (hd_in_fails _ _ _ H1). intros c [<-|[<-|[]]]; reflexivity.
    - apply opt_group_none. apply (hd_in_fails _ _ _ H1). intros c [<-|[<-|[]]]; reflexivity. }
  rewrite E3.
  assert (E4 : opt_group 64 is_lower 1 (optpart 64 md ++ r) = (md, r)).
  { destruct md as [u|]; cbn [optpart app].
    - destruct Hm as [Hm1 Hm2]. apply opt_group_some; auto.
      apply (hd_in_fails _ _ _ H0). intros c [<-|[]]; reflexivity.
    - apply opt_group_none. apply (hd_in_fails _ _ _ H0). intros c [<-|[]]; reflexivity. }
  rewrite E4. reflexivity.
Qed.

Lemma parts_wf_ok ll cc en md : parts_wf ll cc en md <->
  ((2 <= length ll)%nat /\ forallb is_lower ll = true /\ part_ok 2 is_upper cc /\ part_ok 1 is_encch en /\ part_ok 1 is_lower md).
Proof.
  unfold parts_wf.
  rewrite (forallb_Forall _ _ is_lower_spec), (part_ok_wf _ _ _ _ is_upper_spec),
    (part_ok_wf _ _ _ _ is_encch_spec), (part_ok_wf _ _ _ _ is_lower_spec). tauto.
Qed.

Lemma at_end_true r : at_end r = true <-> r = [].
Proof. destruct r; cbn; split; congruence. Qed.

Lemma at_dollar_true r : at_dollar r = true <-> r = [] \/ r = [10].
Proof.
  destruct r as [|c [|d r]]; cbn.
  - tauto.
  - rewrite N.eqb_eq. split; [intros ->; auto|intros [H|H]; congruence].
  - split; [discriminate|intros [H|H]; congruence].
Qed.

(* ---------- the \Z variant: exactly the grammar ---------- *)
Theorem parse_Z_ok_iff s l : parse_language_Z s = Ok l <->
  exists ll cc en md, parts_wf ll cc en md /\ s = locale_text ll cc en md /\
    l = mkLang ll cc (option_map (map up) en) md.
Proof.
  unfold parse_language_Z. split.
  - intros H. apply parse_gen_sound in H. destruct H as (ll & cc & en & md & r & -> & Hr & Hw & ->).
    apply at_end_true in Hr. subst r. rewrite app_nil_r.
    exists ll, cc, en, md. rewrite parts_wf_ok. auto.
  - intros (ll & cc & en & md & Hw & -> & ->). apply parts_wf_ok in Hw.
    destruct Hw as (H1 & H2 & H3 & H4 & H5).
    pose proof (parse_gen_complete at_end ll cc en md [] H1 H2 H3 H4 H5 (or_introl eq_refl)) as H.
    rewrite app_nil_r in H. exact H.
Qed.

Lemma str_mkLang ll cc en md : str_language (mkLang ll cc en md) = locale_text ll cc en md.
Proof. reflexivity. Qed.

Theorem roundtrip_Z s l : parse_language_Z s = Ok l -> same_up_to_encoding_case s (str_language l).
Proof.
  intros H. apply parse_Z_ok_iff in H. destruct H as (ll & cc & en & md & Hw & -> & ->).
  exists ll, cc, en, md. rewrite str_mkLang. auto.
Qed.

Theorem reject_iff_Z s : parse_language_Z s = Err LSyntax <-> ~ locale_grammar s.
Proof.
  split.
  - intros H G. destruct G as [ll cc en md Hw].
    assert (parse_language_Z (locale_text ll cc en md) = Ok (mkLang ll cc (option_map (map up) en) md)) as E
      by (apply parse_Z_ok_iff; eauto 10).
    congruence.
  - intros G. destruct (parse_gen_total at_end s) as [H|[l H]]; [exact H|].
    exfalso. apply G. apply parse_Z_ok_iff in H. destruct H as (ll & cc & en & md & Hw & -> & _).
    constructor; auto.
Qed.

Lemma locale_chars ll cc en md : parts_wf ll cc en md -> Forall (fun c => c <> 10) (locale_text ll cc en md).
Proof.
  intros (_ & Hl & Hc & He & Hm). unfold locale_text.
  assert (L : forall x, Forall lower x -> Forall (fun c => c <> 10) x).
  { intros x Hx. eapply Forall_impl; [|exact Hx]. unfold lower. intros; lia. }
  assert (U : forall x, Forall upper x -> Forall (fun c => c <> 10) x).
  { intros x Hx. eapply Forall_impl; [|exact Hx]. unfold upper. intros; lia. }
  assert (E : forall x, Forall encch x -> Forall (fun c => c <> 10) x).
  { intros x Hx. eapply Forall_impl; [|exact Hx]. unfold encch, lower, upper, digit. intros; lia. }
  apply Forall_app; split; [auto|]. apply Forall_app; split; [|apply Forall_app; split].
  - destruct cc as [x|]; cbn in *; [constructor; [lia|apply U; tauto]|constructor].
  - destruct en as [x|]; cbn in *; [constructor; [lia|apply E; tauto]|constructor].
  - destruct md as [x|]; cbn in *; [constructor; [lia|apply L; tauto]|constructor].
Qed.

Lemma grammar_no_newline s : locale_grammar s -> ~ ends_with_newline s.
Proof.
  intros [ll cc en md Hw] [s' E]. apply locale_chars in Hw. rewrite E in Hw.
  apply Forall_app in Hw. destruct Hw as [_ Hw]. inversion Hw; subst. congruence.
Qed.

(* ---------- the regular expression as it is (\Z) ---------- *)
Lemma parse_is_Z s : parse_language s = parse_language_Z s.
Proof. reflexivity. Qed.

Theorem roundtrip s l : parse_language s = Ok l -> same_up_to_encoding_case s (str_language l).
Proof. exact (roundtrip_Z s l). Qed.

Theorem reject_iff s : parse_language s = Err LSyntax <-> ~ locale_grammar s.
Proof. exact (reject_iff_Z s). Qed.

Theorem parse_no_crash s c : parse_language s <> Crash c.
Proof. destruct (parse_gen_total at_end s) as [H|[l H]]; unfold parse_language; congruence. Qed.

Theorem parse_err_syntax s e : parse_language s = Err e -> e = LSyntax.
Proof. destruct e; [reflexivity|]. destruct (parse_gen_total at_end s) as [H|[l H]]; unfold parse_language; congruence. Qed.

(* printing then parsing a well-formed Language object gives it back *)
Definition language_wf (l : language) : Prop :=
  parts_wf (l_lang l) (l_terr l) (l_enc l) (l_mod l) /\
  match l_enc l with Some e => map up e = e | None => True end.

Theorem print_parse l : language_wf l -> parse_language (str_language l) = Ok l.
Proof.
  intros [Hw Hu]. destruct l as [ll cc en md]; cbn [l_lang l_terr l_enc l_mod] in *.
  apply parts_wf_ok in Hw. destruct Hw as (H1 & H2 & H3 & H4 & H5).
  pose proof (parse_gen_complete at_end ll cc en md [] H1 H2 H3 H4 H5 (or_introl eq_refl)) as H.
  rewrite app_nil_r in H. unfold parse_language, str_language. cbn [l_lang l_terr l_enc l_mod]. rewrite H.
  cbn [at_end]. destruct en as [e|]; cbn [option_map]; [|reflexivity].
  change (map ascii_upper e) with (map up e). rewrite Hu. reflexivity.
Qed.

Lemma same_up_length s t : same_up_to_encoding_case s t -> length s = length t.
Proof.
  intros (ll & cc & en & md & _ & -> & ->). unfold locale_text. rewrite !app_length.
  destruct en as [e|]; cbn [option_map part length]; [rewrite map_length|]; reflexivity.
Qed.

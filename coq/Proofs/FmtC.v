(* C11: the theorems about FormatString (Model/FmtC.v) against Spec/Printf.v, assembled from
   FmtCScan (scanner), FmtCDir (one directive), FmtCArgs (whole string). *)
From Coq Require Import List NArith ZArith Bool Lia ZifyBool String.
From I18n Require Import Lib.Outcome Lib.CFmtSyntax Generated.CInfo Generated.PyConsts Model.FmtC Spec.Printf
  Proofs.FmtCScan Proofs.FmtCDir Proofs.FmtCArgs.
Import ListNotations.
Local Open Scope Z_scope.

Definition toks_of (s : list N) : list ctoken := fmtc_tokens (List.length s) s.
Definition R_of (s : list N) : list (option Z * arg) := mrefs_all 0 (toks_of s).
(* the type reported for each argument: fs.arguments[i][0].type *)
Definition reported (fs : fmtstring) : list (list N) := map headtype (fs_arguments fs).

Lemma toks_shape : forall s, Forall tok_ok (toks_of s).
Proof. intros s. apply tokens_shape. apply le_n. Qed.

(* ------------------------------------------------------------------ *)
(* the names of the argument types are distinct                         *)

Definition all_ranks : list intrank := [RChar; RShort; RInt; RLong; RLLong; RMax; RSize; RPtrdiff].
Definition all_ctypes : list ctype :=
  flat_map (fun r => [TInteger true r; TInteger false r; TCountPtr r]) all_ranks ++
  flat_map (fun k => flat_map (fun b => [TFixed true k b; TFixed false k b]) [B8; B16; B32; B64]) [FExact; FLeast; FFast] ++
  [TIntPtr true; TIntPtr false; TDouble; TLDouble; TChar; TWint; TStr; TWStr; TVoidP].
Definition ctype_of_name (n : list N) : option ctype := find (fun t => list_eqb (ctype_name t) n) all_ctypes.

Lemma ctype_of_name_name : forall t, ctype_of_name (ctype_name t) = Some t.
Proof.
  intros t. destruct t as [[] []|[]|[] [] []|[]| | | | | | |]; vm_compute; reflexivity.
Qed.

Lemma ctype_name_inj : forall t1 t2, ctype_name t1 = ctype_name t2 -> t1 = t2.
Proof.
  intros t1 t2 H. pose proof (ctype_of_name_name t1) as H1. rewrite H in H1. rewrite ctype_of_name_name in H1. congruence.
Qed.

(* ------------------------------------------------------------------ *)
(* explicit argument numbers of valid directives are in 1..NL_ARGMAX    *)

Lemma index_range : forall i k, index_value_ok i = true -> opt_value i = Some k -> 1 <= k <= NL_ARGMAX.
Proof.
  intros [ds|] k H E; [|cbn in E; discriminate E]. cbn [index_value_ok opt_value] in *. inversion E; subst.
  apply andb_true_iff in H. destruct H as [H1 H2]. apply Z.leb_le in H1. apply Z.leb_le in H2. lia.
Qed.

Lemma valid_refs_range : forall d, valid_directive d = true ->
  forall k t, In (Some k, t) (drefs d) -> 1 <= k <= NL_ARGMAX.
Proof.
  intros d H k t Hin. unfold valid_directive in H.
  apply andb_true_iff in H. destruct H as [H HF]. apply andb_true_iff in H. destruct H as [H HE].
  apply andb_true_iff in H. destruct H as [H HD]. apply andb_true_iff in H. destruct H as [H HC].
  unfold drefs in Hin. apply in_app_or in Hin. destruct Hin as [Hin|Hin]; [|apply in_app_or in Hin; destruct Hin as [Hin|Hin]].
  - destruct (d_width d) as [|ds|i]; cbn [star_ref In] in Hin; try contradiction.
    destruct Hin as [E|[]]. inversion E. cbn [width_ok] in HC. apply andb_true_iff in HC. destruct HC as [HC _].
    eapply index_range; [exact HC | eassumption].
  - destruct (d_prec d) as [|ds|i]; cbn [star_ref In] in Hin; try contradiction.
    destruct Hin as [E|[]]. inversion E. cbn [prec_ok] in HD. apply andb_true_iff in HD. destruct HD as [HD _].
    eapply index_range; [exact HD | eassumption].
  - destruct (body_takes (d_body d)); cbn [In] in Hin; try contradiction.
    destruct Hin as [E|[]]. inversion E. eapply index_range; [exact HE | eassumption].
Qed.

Lemma all_valid_refs_range : forall ds, all_valid ds -> forall k t, In (Some k, t) (refs ds) -> 1 <= k <= NL_ARGMAX.
Proof.
  intros ds H k t Hin. unfold refs in Hin. apply in_flat_map in Hin. destruct Hin as [d [Hd Hin]].
  unfold all_valid in H. rewrite Forall_forall in H. specialize (H d Hd). unfold valid_impl in H.
  apply andb_true_iff in H. destruct H as [H _]. eapply valid_refs_range; [exact H | exact Hin].
Qed.

(* ------------------------------------------------------------------ *)
(* bridges between the argument map of the model and the references of the specification *)

Lemma bridge_r : forall R rs, Forall2 rel R rs -> forall k t, In (Some k, t) rs ->
  exists a, In (k, a) (keyed R) /\ a_type a = ctype_name t.
Proof.
  intros R rs F k t Hin. destruct (rel_in_r R rs F _ Hin) as [[n a] [Ha [Hf Ht]]]. cbn [fst snd] in *. subst n.
  exists a. split; [apply keyed_in; exact Ha | exact Ht].
Qed.

Lemma bridge_l : forall R rs, Forall2 rel R rs -> forall k a, In (k, a) (keyed R) ->
  exists t, In (Some k, t) rs /\ a_type a = ctype_name t.
Proof.
  intros R rs F k a Hin. apply keyed_in in Hin. destruct (rel_in_l R rs F _ Hin) as [[n t] [Hb [Hf Ht]]].
  cbn [fst snd] in *. subst n. exists t. split; assumption.
Qed.

Lemma rel_types : forall R rs, Forall2 rel R rs -> map (fun r => a_type (snd r)) R = map ctype_name (map snd rs).
Proof. induction 1 as [|a b R rs [_ Ht] H2 IH]; cbn [map]; [reflexivity|]. rewrite Ht, IH. reflexivity. Qed.

Lemma in_zseq : forall a n j, In j (zseq a n) <-> a <= j < a + Z.of_nat n.
Proof.
  intros a n j. unfold zseq. rewrite in_map_iff. split.
  - intros [x [<- Hx]]. apply in_seq in Hx. lia.
  - intros H. exists (Z.to_nat (j - a)). split; [lia | apply in_seq; lia].
Qed.

Lemma in_group : forall k a m, In (k, a) m -> In a (group k m).
Proof.
  intros k a m H. unfold group. apply in_map_iff. exists (k, a). split; [reflexivity|].
  apply filter_In. split; [exact H | unfold keyis; cbn [fst]; apply Z.eqb_refl].
Qed.

Lemma group_in : forall k a m, In a (group k m) -> In (k, a) m.
Proof.
  intros k a m H. unfold group in H. apply in_map_iff in H. destruct H as [[k' a'] [E H]]. cbn [snd] in E. subst a'.
  apply filter_In in H. destruct H as [H1 H2]. unfold keyis in H2. cbn [fst] in H2. apply Z.eqb_eq in H2. subst. exact H1.
Qed.

(* facts about the numbered case *)
Lemma numbered_facts : forall R rs, Forall2 rel R rs ->
  (forall k t, In (Some k, t) rs -> 1 <= k <= NL_ARGMAX) -> R <> [] -> all_some_le R ->
  (forall e, In e (keyed R) -> 1 <= fst e <= maxkey (keyed R)) /\ keyed R <> [] /\ 1 <= maxkey (keyed R) <= NL_ARGMAX.
Proof.
  intros R rs F Hr Hne Hs.
  assert (forall e, In e (keyed R) -> 1 <= fst e <= NL_ARGMAX) as Hk.
  { intros [k a] He. destruct (bridge_l R rs F k a He) as [t [Ht _]]. cbn [fst]. eapply Hr; exact Ht. }
  assert (keyed R <> []) as Hm.
  { destruct R as [|[n v] R]; [congruence|]. destruct (Hs (n, v) (or_introl eq_refl)) as [k [Hk' _]]. cbn [fst] in Hk'. subst n.
    unfold keyed. cbn [flat_map fst snd app]. discriminate. }
  destruct (maxkey_in (keyed R)) as [emax [He1 He2]]; [intros e He; apply Hk; exact He | exact Hm|].
  split; [|split; [exact Hm | rewrite <- He2; apply Hk; exact He1]].
  intros e He. split; [apply Hk; exact He | apply maxkey_ge; exact He].
Qed.

(* Ok of the gap loop on a numbered map: no gaps, and the value *)
Lemma collect_numbered : forall s m args, (forall e, In e m -> 1 <= fst e <= maxkey m) -> m <> [] -> maxkey m <= NL_ARGMAX ->
  collect s (List.length m) 1 m = Ok args ->
  (forall j, 1 <= j <= maxkey m -> exists e, In e m /\ fst e = j) /\
  args = map (fun j => group j m) (zseq 1 (Z.to_nat (maxkey m))).
Proof.
  intros s m args Hrange Hne Hhi HC.
  assert (forall e, In e m -> 1 <= fst e) as Hlow by (intros e He; apply Hrange; exact He).
  destruct (maxkey_in m Hlow Hne) as [emax [He1 He2]].
  assert (forall j, 1 <= j <= maxkey m -> exists e, In e m /\ fst e = j) as Hfull.
  { intros j Hj. apply (collect_sound s _ 1 m args HC Hlow emax He1 j). lia. }
  split; [exact Hfull|].
  pose proof (collect_complete s (List.length m) 1 m (maxkey m) (le_n _) Hrange Hfull Hhi) as H.
  specialize (Hrange emax He1). specialize (H ltac:(lia)). rewrite HC in H. inversion H as [H'].
  replace (maxkey m - 1 + 1) with (maxkey m) by lia. reflexivity.
Qed.

(* ------------------------------------------------------------------ *)
(* inversion and introduction of a successful parse (int() limit lifted) *)

Lemma parse_ok_inv : forall s fs, fmtc_parse 0 s = Ok fs ->
  good (toks_of s) = true /\ all_valid (dirs (toks_of s)) /\
  exists c, add_all init_core (R_of s) = Some c /\
            collect s (List.length (fst c)) 1 (fst c) = Ok (fs_arguments fs) /\ Forall one_typed (fs_arguments fs).
Proof.
  intros s fs H. unfold fmtc_parse in H. fold (toks_of s) in H.
  pose proof (run_spec (toks_of s) O st_init (toks_shape s) inv_init) as HR.
  destruct (run 0 (toks_of s) 0 st_init) as [[items st]|e|c]; cbn [obind] in H; try discriminate.
  destruct HR as [G [V A]].
  destruct (collect s (List.length (st_entries st)) 1 (st_entries st)) as [args|e|c] eqn:HC; cbn [obind] in H; try discriminate.
  pose proof (check_types_spec s args 1) as HT. destruct (check_types s 1 args); cbn [obind] in H; try discriminate.
  inversion H; subst fs. cbn [fs_arguments]. split; [exact G|]. split; [exact V|].
  exists (core_of st). split; [exact A|]. split; [exact HC | exact HT].
Qed.

Lemma parse_ok_intro : forall s c args, good (toks_of s) = true -> all_valid (dirs (toks_of s)) ->
  add_all init_core (R_of s) = Some c -> collect s (List.length (fst c)) 1 (fst c) = Ok args -> Forall one_typed args ->
  exists fs, fmtc_parse 0 s = Ok fs /\ fs_arguments fs = args.
Proof.
  intros s c args G V A HC HT. unfold fmtc_parse. fold (toks_of s).
  pose proof (run_spec (toks_of s) O st_init (toks_shape s) inv_init) as HR.
  destruct (run 0 (toks_of s) 0 st_init) as [[items st]|e|cr]; cbn [obind].
  - destruct HR as [_ [_ A']]. change (core_of st_init) with init_core in A'. unfold R_of in A. rewrite A in A'.
    inversion A' as [E]. subst c. cbn [core_of fst] in HC. rewrite HC. cbn [obind].
    pose proof (check_types_spec s args 1) as HT'. destruct (check_types s 1 args); cbn [obind].
    + eexists. split; reflexivity.
    + contradiction.
    + contradiction.
  - destruct HR as [G'|[V'|A']]; [congruence | contradiction|].
    change (core_of st_init) with init_core in A'. unfold R_of in A. congruence.
  - contradiction.
Qed.

(* ------------------------------------------------------------------ *)
(* C11_accept_iff                                                       *)

(* what the code accepts: printf_valid without the alternate form of %m (D15) *)
Definition printf_valid_impl (s : list N) : Prop :=
  exists ds, decomp s ds /\ Forall (fun d => valid_directive d = true) ds /\ Forall (fun d => no_alt_m d = true) ds /\
             args_ok (refs ds).

Lemma all_valid_split : forall ds, all_valid ds <->
  Forall (fun d => valid_directive d = true) ds /\ Forall (fun d => no_alt_m d = true) ds.
Proof.
  intros ds. unfold all_valid. rewrite !Forall_forall. unfold valid_impl. split.
  - intros H. split; intros d Hd; specialize (H d Hd); apply andb_true_iff in H; tauto.
  - intros [H1 H2] d Hd. apply andb_true_iff. split; [apply H1 | apply H2]; exact Hd.
Qed.

Lemma accept_valid_impl : forall s fs, fmtc_parse 0 s = Ok fs -> printf_valid_impl s.
Proof.
  intros s fs H. destruct (parse_ok_inv s fs H) as [G [V [c [A [HC HT]]]]].
  exists (dirs (toks_of s)). split; [apply tokens_sound; [apply le_n | exact G]|].
  destruct (proj1 (all_valid_split _) V) as [V1 V2]. split; [exact V1|]. split; [exact V2|].
  pose proof (mrefs_all_rel (toks_of s) O) as F. fold (R_of s) in F. set (R := R_of s) in *. set (rs := refs (dirs (toks_of s))) in *.
  destruct (add_all_init_inv R c A) as [[Hn [Hl _]]|[Hne [Hs Hc]]].
  - left. split; [apply (rel_all_none R rs F); exact Hn|]. rewrite <- (Forall2_len _ _ _ _ _ F). exact Hl.
  - right. subst c. cbn [fst] in HC.
    pose proof (all_valid_refs_range _ V) as Hr. fold rs in Hr.
    destruct (numbered_facts R rs F Hr Hne Hs) as [Hrange [Hm [_ Hhi]]].
    destruct (collect_numbered s (keyed R) _ Hrange Hm Hhi HC) as [Hfull Hargs].
    split; [|split].
    + intros r Hr0. destruct (rel_in_r R rs F r Hr0) as [a [Ha [Hf _]]]. destruct (Hs a Ha) as [k [Hk _]]. congruence.
    + intros k t Hin j Hj. destruct (bridge_r R rs F k t Hin) as [a [Ha _]].
      assert (1 <= j <= maxkey (keyed R)) as Hj'. { specialize (Hrange _ Ha). cbn [fst] in Hrange. lia. }
      destruct (Hfull j Hj') as [[j' a'] [He1 He2]]. cbn [fst] in He2. subst j'.
      destruct (bridge_l R rs F j a' He1) as [t' [Ht' _]]. exists t'. exact Ht'.
    + intros k t1 t2 H1 H2. destruct (bridge_r R rs F k t1 H1) as [a1 [Ha1 Hn1]]. destruct (bridge_r R rs F k t2 H2) as [a2 [Ha2 Hn2]].
      apply ctype_name_inj. rewrite <- Hn1, <- Hn2.
      rewrite Forall_forall in HT. apply (HT (group k (keyed R))); [|apply in_group; exact Ha1 | apply in_group; exact Ha2].
      rewrite Hargs. apply in_map_iff. exists k. split; [reflexivity|]. apply in_zseq.
      specialize (Hrange _ Ha1). cbn [fst] in Hrange. lia.
Qed.

Lemma valid_accept : forall s, printf_valid_impl s -> exists fs, fmtc_parse 0 s = Ok fs.
Proof.
  intros s [ds [Hd [V1 [V2 Hargs]]]]. assert (all_valid ds) as V by (apply all_valid_split; split; assumption).
  destruct (tokens_complete (List.length s) s ds (le_n _) Hd) as [G D]. fold (toks_of s) in G, D.
  pose proof (mrefs_all_rel (toks_of s) O) as F. fold (R_of s) in F. rewrite D in F. set (R := R_of s) in *. set (rs := refs ds) in *.
  assert (all_valid (dirs (toks_of s))) as V' by (rewrite D; exact V).
  pose proof (all_valid_refs_range _ V) as Hr. fold rs in Hr.
  assert ((all_none R /\ Z.of_nat (List.length R) <= NL_ARGMAX) -> exists fs, fmtc_parse 0 s = Ok fs) as Hunnum.
  { intros [Hn Hl]. pose proof (add_all_init_unnum R Hn Hl) as A.
    destruct (parse_ok_intro s _ (map (fun r => [snd r]) R) G V' A) as [fs [Hfs _]].
    - cbn [fst]. rewrite number_length. apply collect_number; [apply le_n | lia].
    - pose proof (check_types_spec s (map (fun r => [snd r]) R) 1) as HT. rewrite check_types_singletons in HT. exact HT.
    - exists fs. exact Hfs. }
  destruct Hargs as [[Hu Hl]|[Hnum [Hgaps Hone]]].
  - apply Hunnum. split; [apply (rel_all_none R rs F); exact Hu | rewrite (Forall2_len _ _ _ _ _ F); exact Hl].
  - destruct R as [|r0 R0] eqn:ER.
    + apply Hunnum. split; [intros r [] | rewrite nl_val; cbn; lia].
    + rewrite <- ER in *. assert (R <> []) as Hne by (rewrite ER; discriminate).
      assert (all_some_le R) as Hs.
      { intros [n a] Ha. destruct (rel_in_l R rs F _ Ha) as [[n' t] [Hb [Hf _]]]. cbn [fst] in *. subst n'.
        destruct n as [k|]; [|exfalso; apply (Hnum _ Hb); reflexivity].
        exists k. split; [reflexivity|]. apply (Hr k t Hb). }
      pose proof (add_all_init_num R Hne Hs) as A.
      destruct (numbered_facts R rs F Hr Hne Hs) as [Hrange [Hm [Hlo Hhi]]].
      assert (forall j, 1 <= j <= maxkey (keyed R) -> exists e, In e (keyed R) /\ fst e = j) as Hfull.
      { intros j Hj. destruct (maxkey_in (keyed R)) as [[km am] [He1 He2]]; [intros e He; apply Hrange; exact He | exact Hm|].
        cbn [fst] in He2. destruct (bridge_l R rs F km am He1) as [t [Ht _]].
        destruct (Hgaps km t Ht j ltac:(lia)) as [t' Ht']. destruct (bridge_r R rs F j t' Ht') as [a [Ha _]].
        exists (j, a). split; [exact Ha | reflexivity]. }
      pose proof (collect_complete s (List.length (keyed R)) 1 (keyed R) (maxkey (keyed R)) (le_n _) Hrange Hfull Hhi ltac:(lia)) as HC.
      destruct (parse_ok_intro s _ _ G V' A HC) as [fs [Hfs _]]; [|exists fs; exact Hfs].
      apply Forall_forall. intros g Hg. apply in_map_iff in Hg. destruct Hg as [j [<- Hj]].
      intros x y Hx Hy. apply group_in in Hx. apply group_in in Hy.
      destruct (bridge_l R rs F j x Hx) as [t1 [H1 N1]]. destruct (bridge_l R rs F j y Hy) as [t2 [H2 N2]].
      rewrite N1, N2. f_equal. eapply Hone; eassumption.
Qed.

Theorem accept_iff_impl : forall s, (exists fs, fmtc_parse 0 s = Ok fs) <-> printf_valid_impl s.
Proof. intros s. split; [intros [fs H]; eapply accept_valid_impl; exact H | apply valid_accept]. Qed.

(* everything the code accepts is valid *)
Theorem accept_sound : forall s fs, fmtc_parse 0 s = Ok fs -> printf_valid s.
Proof.
  intros s fs H. destruct (accept_valid_impl s fs H) as [ds [Hd [V1 [_ Ha]]]]. exists ds. split; [exact Hd|]. split; assumption.
Qed.

(* the full property, and its refutation by "%#m" (valid since glibc 2.35, rejected with FlagError) *)
Definition accept_iff_statement : Prop := forall s, (exists fs, fmtc_parse 0 s = Ok fs) <-> printf_valid s.

Definition alt_m_witness : list N := [37; 35; 109]%N.

Lemma alt_m_witness_valid : printf_valid alt_m_witness.
Proof.
  exists (dirs (toks_of alt_m_witness)). split.
  { apply tokens_sound; [apply le_n | vm_compute; reflexivity]. }
  split.
  { let x := eval vm_compute in (dirs (toks_of alt_m_witness)) in change (dirs (toks_of alt_m_witness)) with x.
    constructor; [vm_compute; reflexivity | constructor]. }
  left. split; [intros r []|]. vm_compute. discriminate.
Qed.

Lemma alt_m_witness_rejected : fmtc_parse 0 alt_m_witness = Err (EFlagError alt_m_witness 35%N).
Proof. vm_compute. reflexivity. Qed.

Theorem accept_iff_refuted : ~ accept_iff_statement.
Proof.
  intros H. destruct (proj2 (H alt_m_witness) alt_m_witness_valid) as [fs Hfs]. rewrite alt_m_witness_rejected in Hfs. discriminate.
Qed.

(* ... and it holds for every string none of whose directives is an m conversion with the # flag *)
Theorem accept_iff_outside_alt_m : forall s,
  (forall ds, decomp s ds -> Forall (fun d => no_alt_m d = true) ds) ->
  ((exists fs, fmtc_parse 0 s = Ok fs) <-> printf_valid s).
Proof.
  intros s Hg. split; [intros [fs H]; eapply accept_sound; exact H|].
  intros [ds [Hd [V Ha]]]. apply valid_accept. exists ds. split; [exact Hd|]. split; [exact V|]. split; [apply Hg; exact Hd | exact Ha].
Qed.

(* ------------------------------------------------------------------ *)
(* C11_signature                                                        *)

Theorem signature_correct : forall s fs ds, fmtc_parse 0 s = Ok fs -> decomp s ds ->
  reported fs = map ctype_name (signature ds).
Proof.
  intros s fs ds H Hd. destruct (parse_ok_inv s fs H) as [G [V [c [A [HC HT]]]]].
  destruct (tokens_complete (List.length s) s ds (le_n _) Hd) as [_ D]. fold (toks_of s) in D.
  pose proof (mrefs_all_rel (toks_of s) O) as F. fold (R_of s) in F. rewrite D in F, V. set (R := R_of s) in *.
  unfold signature. set (rs := refs ds) in *. unfold reported.
  destruct (add_all_init_inv R c A) as [[Hn [Hl Hc]]|[Hne [Hs Hc]]]; subst c; cbn [fst] in HC.
  - rewrite number_length in HC. rewrite collect_number in HC; [|apply le_n | lia]. inversion HC as [HC'].
    rewrite map_map. cbn [headtype]. unfold signature_refs.
    assert (forallb (fun r => is_none (fst r)) rs = true) as ->.
    { apply forallb_forall. intros r Hr. rewrite ((proj1 (rel_all_none R rs F) Hn) r Hr). reflexivity. }
    apply rel_types. exact F.
  - pose proof (all_valid_refs_range _ V) as Hr. fold rs in Hr.
    destruct (numbered_facts R rs F Hr Hne Hs) as [Hrange [Hm [_ Hhi]]].
    destruct (collect_numbered s (keyed R) _ Hrange Hm Hhi HC) as [Hfull Hargs].
    rewrite Hargs. rewrite map_map. unfold signature_refs.
    assert (forallb (fun r => is_none (fst r)) rs = false) as ->.
    { destruct R as [|a R0]; [congruence|]. inversion F as [|a' b R' rs' [Hf _] F' E1 E2]; subst.
      cbn [forallb]. destruct (Hs a (or_introl eq_refl)) as [k [Hk _]]. rewrite <- Hf, Hk. reflexivity. }
    rewrite map_map. rewrite <- (maxkey_keyed R rs F). apply map_ext_in. intros j Hj. apply in_zseq in Hj.
    apply group_head; [exact F|]. destruct (Hfull j ltac:(lia)) as [[j' a] [He1 He2]]. cbn [fst] in He2. subst j'. exists a. exact He1.
Qed.

(* number of reported arguments = number of arguments printf consumes *)
Corollary signature_length : forall s fs ds, fmtc_parse 0 s = Ok fs -> decomp s ds ->
  List.length (fs_arguments fs) = List.length (signature ds).
Proof.
  intros s fs ds H Hd. pose proof (signature_correct s fs ds H Hd) as E. unfold reported in E.
  apply (f_equal (@List.length _)) in E. rewrite !map_length in E. exact E.
Qed.

(* the decomposition of a string into directives is unique, so "the" directives of s is well defined *)
Theorem decomp_unique : forall s ds1 ds2, decomp s ds1 -> decomp s ds2 -> ds1 = ds2.
Proof.
  intros s ds1 ds2 H1 H2.
  destruct (tokens_complete (List.length s) s ds1 (le_n _) H1) as [_ D1].
  destruct (tokens_complete (List.length s) s ds2 (le_n _) H2) as [_ D2]. congruence.
Qed.

(* ------------------------------------------------------------------ *)
(* C11_own_errors                                                       *)

Theorem no_crash : forall s c, fmtc_parse 0 s <> Crash c.
Proof.
  intros s c H. unfold fmtc_parse in H. fold (toks_of s) in H.
  pose proof (run_spec (toks_of s) O st_init (toks_shape s) inv_init) as HR.
  destruct (run 0 (toks_of s) 0 st_init) as [[items st]|e|cr]; cbn [obind] in H; [|discriminate|contradiction].
  destruct HR as [G [V A]]. change (core_of st_init) with init_core in A. fold (R_of s) in A.
  pose proof (mrefs_all_rel (toks_of s) O) as F. fold (R_of s) in F. set (R := R_of s) in *.
  assert (collect s (List.length (st_entries st)) 1 (st_entries st) <> Crash c) as HC.
  { destruct (add_all_init_inv R _ A) as [[Hn [Hl Hc]]|[Hne [Hs Hc]]]; inversion Hc as [[E1 E2]]; rewrite E1.
    - rewrite number_length. rewrite collect_number; [discriminate | apply le_n | lia].
    - pose proof (all_valid_refs_range _ V) as Hr.
      destruct (numbered_facts R _ F Hr Hne Hs) as [Hrange [_ [_ Hhi]]].
      apply collect_nocrash; [apply le_n|]. intros e He. specialize (Hrange e He). lia. }
  destruct (collect s (List.length (st_entries st)) 1 (st_entries st)) as [args|e|cr]; cbn [obind] in H; [|discriminate|congruence].
  pose proof (check_types_spec s args 1) as HT. destruct (check_types s 1 args); cbn [obind] in H; [discriminate | discriminate | contradiction].
Qed.

(* with the int() digit limit in force the parser does leak ValueError: kept as the reason why the theorem is stated
   for the generated constant *)
Lemma crash_with_limit : exists s, fmtc_parse 2 s = Crash CValueError.
Proof. exists [37; 49; 49; 49; 100]%N. vm_compute. reflexivity. Qed.

(* ------------------------------------------------------------------ *)
(* C11_error_prefix_nonempty                                            *)

Theorem error_prefix_nonempty : forall s rest, In (CTBad rest) (fmtc_tokens (List.length s) s) ->
  exists p, @raise_error (list item * pstate) rest = Err (EError p) /\ p <> [].
Proof.
  intros s rest Hin. pose proof (toks_shape s) as Hs. unfold toks_of in Hs. rewrite Forall_forall in Hs.
  specialize (Hs _ Hin). cbn [tok_ok] in Hs. destruct Hs as [r ->]. apply raise_error_pct.
Qed.

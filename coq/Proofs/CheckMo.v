(* Model/MoParser.v:checker_load (the MO loader model inside the try / except structure of Checker.check) is an instance of the
   general orchestration model Model/Check.v: feed check_top with the loader oracle built from mo_load. *)
From Coq Require Import List NArith ZArith Bool.
From Coq Require String.
From I18n Require Import Lib.Outcome Model.Tags.
From I18n Require Model.MoParser Model.Check Proofs.Check Proofs.MoCorollaries.
Import ListNotations.
Import String.StringSyntax.
Module MC := I18n.Model.Check.
Module PC := I18n.Proofs.Check.
Module MP := I18n.Model.MoParser.

Ltac fin := cbn; repeat split; first [reflexivity | let X := fresh in intros X; first [discriminate X | now elim X | reflexivity]].

Section Instance.
  (* what the byte-level model does not carry: the text of a message, the position / codec name of a decode error, the class
     name of a foreign exception *)
  Variable msg_text : MP.mo_msg -> MC.text.
  Variable start_of : MP.bytes -> Z.
  Variable enc_of : MP.bytes -> MC.text.
  Variable crash_name : crash_kind -> MC.text.
  Variables (asc : MP.bytes -> bool) (dec : MP.bytes -> MP.bytes -> bool) (f : MP.bytes).

  Definition mo_oracle : MC.loader -> option MC.text -> MC.load_result :=
    fun _ enc =>
      match MP.mo_load asc dec enc f with
      | Ok _ => MC.LFile
      | Err (MP.LSyntax m) => MC.LMoSyntax (msg_text m)
      | Err (MP.LDecode s) => MC.LDecodeError s (start_of s) (enc_of s)
      | Crash c => MC.LOther (crash_name c)
      end.

  Definition event_of (upper : MC.text -> MC.text) (t : MP.mo_tag) : MC.event :=
    match t with
    | MP.TInvalidMoFile m => MC.Ev (MC.lit "invalid-mo-file") [ASafe (msg_text m)]
    | MP.TBrokenEncoding s => MC.broken_event upper s (start_of s) (enc_of s)
    end.

  Lemma latin1_same : MC.latin1 = MP.latin1_name.
  Proof. reflexivity. Qed.

  (* the tags, in order and with their arguments; nothing derived from a rejected file; the ctx flags of an accepted one *)
  Theorem checker_load_is_instance : forall upper ft path c t b tags o,
    MC.dispatch (MC.extension ft path) = Some (c, t, b) ->
    MP.checker_load asc dec f = Ok (tags, o) ->
    let r := MC.check_top upper MC.StatOk ft path mo_oracle in
    MC.r_events r = map (event_of upper) tags /\
    (o = None -> MC.r_end r = MC.Returned) /\
    (o <> None -> MC.r_end r = MC.RunSubchecks t b (existsb (fun x => match x with MP.TBrokenEncoding _ => true | _ => false end) tags)).
  Proof.
    intros upper ft path c t b tags o D H r. subst r. rewrite (PC.check_top_loaded _ _ _ _ _ _ _ D).
    unfold MP.checker_load in H. unfold PC.last_attempt, mo_oracle. cbv beta. rewrite latin1_same. unfold MC.text, MC.bytes, MP.bytes in *.
    destruct (MP.mo_load asc dec (@None (list N)) f) as [o1|[m|s]|c1] eqn:L1; try discriminate H.
    - injection H as <- <-. fin.
    - injection H as <- <-. fin.
    - destruct (MP.mo_load asc dec (@Some (list N) MP.latin1_name) f) as [o2|[m|s']|c2] eqn:L2; try discriminate H; injection H as <- <-; fin.
  Qed.

  (* the remaining outcome of checker_load: the retry failed to decode again, and that propagates *)
  Theorem checker_load_decode_escapes : forall upper ft path c t b s,
    MC.dispatch (MC.extension ft path) = Some (c, t, b) ->
    MP.checker_load asc dec f = Err (MP.LDecode s) ->
    MC.r_end (MC.check_top upper MC.StatOk ft path mo_oracle) = MC.Raised MC.RUnicodeDecodeError.
  Proof.
    intros upper ft path c t b s D H. rewrite (PC.check_top_loaded _ _ _ _ _ _ _ D).
    unfold MP.checker_load in H. unfold PC.last_attempt, mo_oracle. cbv beta. rewrite latin1_same. unfold MC.text, MC.bytes, MP.bytes in *.
    destruct (MP.mo_load asc dec (@None (list N)) f) as [o1|[m|s1]|c1] eqn:L1; try discriminate H.
    destruct (MP.mo_load asc dec (@Some (list N) MP.latin1_name) f) as [o2|[m|s']|c2] eqn:L2; try discriminate H. reflexivity.
  Qed.

  (* with the MO loader model as the oracle, nothing but that escapes: check() never raises a foreign exception *)
  Theorem mo_oracle_never_other : forall upper ft path n,
    MC.r_end (MC.check_top upper MC.StatOk ft path mo_oracle) <> MC.Raised (MC.RExc n) /\
    forall m, MC.r_end (MC.check_top upper MC.StatOk ft path mo_oracle) <> MC.Raised (MC.ROSError m).
  Proof.
    intros upper ft path n.
    assert (NC : forall enc c, MP.mo_load asc dec enc f <> Crash c) by (intros enc c; apply Proofs.MoCorollaries.mo_load_total).
    assert (E : forall c e, PC.escapes (PC.last_attempt mo_oracle c) e -> e = MC.RUnicodeDecodeError).
    { intros c e. unfold PC.last_attempt, mo_oracle. cbv beta. rewrite latin1_same. unfold MC.text, MC.bytes, MP.bytes in *.
      destruct (MP.mo_load asc dec (@None (list N)) f) as [o1|[m|s]|c1] eqn:L1; cbn [PC.escapes]; try (intros X; now destruct X); try (now elim (NC _ _ L1)).
      destruct (MP.mo_load asc dec (@Some (list N) MP.latin1_name) f) as [o2|[m|s']|c2] eqn:L2; cbn [PC.escapes]; try (intros X; now destruct X); try (now elim (NC _ _ L2)). }
    split; [|intros m]; intros H; apply PC.check_top_raises_iff in H;
      destruct H as [(k & X & _)|(_ & c & t & b & _ & X)]; try discriminate X; apply E in X; discriminate X.
  Qed.
End Instance.

(* Source tie for C16, part 1: the translation of Checker._check_message_flags (Generated/MessagesSrc.v,
   src_check_message_flags) equals the model's check_flags (Model/Messages.v) for every configuration and entry.
   The code runs ONE loop over sorted(Counter(flags).items()) that updates info, wrap, range_flags, format_flags and
   emits tags; the model classifies first and then runs independent data flows.  [step] is one iteration of the code in
   the model's vocabulary, [fold_step] splits the fold into the model's components. *)
From Coq Require Import List NArith ZArith Bool Lia Permutation Sorted.
From I18n Require Import Lib.Outcome Model.IntExpr Model.PluralForms Model.Messages Model.MessagesPy Proofs.MessagesLib Proofs.MessagesFlags
  Proofs.Messages Proofs.MessagesSrcLib Generated.MessagesSrc.
Import ListNotations.

Lemma py_lstrip_strip s : py_lstrip [32;9;13;12;11]%N s = lstrip s.
Proof.
  induction s as [|c s IH]; cbn [py_lstrip lstrip]; [reflexivity|].
  assert (memN c [32;9;13;12;11]%N = is_strip_char c) as ->.
  { unfold memN, is_strip_char. cbn [existsb]. now rewrite orb_false_r, !orb_assoc. }
  now rewrite IH.
Qed.
Lemma py_strip_strip s : py_strip [32;9;13;12;11]%N s = strip s.
Proof. unfold py_strip, py_rstrip, strip. now rewrite !py_lstrip_strip. Qed.

Lemma parse_range_src maxd s :
  parse_range maxd s =
  match re_range (py_strip [32;9;13;12;11]%N s) with
  | None => Ok None
  | Some m => do i <- py_int maxd (fst m); do j <- py_int maxd (snd m); Ok (if (i <? j)%Z then Some (i, j) else None)
  end.
Proof.
  unfold parse_range, re_range. rewrite py_strip_strip. cbv zeta.
  destruct (span is_digit (strip s)) as [d1 r1]. destruct (is_nil d1); [reflexivity|].
  destruct r1 as [|a [|b r2]]; try reflexivity.
  destruct (N.eqb a 46 && N.eqb b 46); [|reflexivity].
  destruct (span is_digit r2) as [d2 r3]. destruct (is_nil d2 || negb (is_nil r3)); [reflexivity|].
  cbn [fst snd]. unfold py_int.
  destruct (max_digits_ok maxd (N.of_nat (length d1))); cbn [negb obind]; [|reflexivity].
  destruct (max_digits_ok maxd (N.of_nat (length d2))); cbn [negb obind]; [|reflexivity].
  destruct (digits_value d1 <? digits_value d2)%Z; reflexivity.
Qed.

Lemma mem_key_src k (tbl : list (list N * list (list N))) : ps_mem str_eqb k (pd_keys tbl) = mem_key k tbl.
Proof.
  unfold ps_mem, pd_keys, mem_key. induction tbl as [|p tbl IH]; cbn; [reflexivity|]. now rewrite IH, str_eqb_sym.
Qed.

Definition tp_str (tp : ftp) : list N :=
  match tp with TpPos => [] | TpNo => [110;111]%N | TpPossible => [112;111;115;115;105;98;108;101]%N
              | TpImpossible => [105;109;112;111;115;115;105;98;108;101]%N end.
Definition ffdict := list (list N * list (list N * list N)).

Lemma prefix_loop tbl flag body :
  (forall known (ff : ffdict) p, body (known, ff) p =
     if negb (starts_with p flag) then (false, (known, ff)) else
     if ps_mem str_eqb (py_slice_mid (length p) 7 flag) (pd_keys tbl)
     then (true, (true, pd_set (py_rstrip [45%N] p) (pd_set (py_slice_mid (length p) 7 flag) flag (pd_getd str_eqb (py_rstrip [45%N] p) [] ff)) ff))
     else (false, (known, ff))) ->
  forall ps known ff, (forall tp p, In (tp, p) ps -> py_rstrip [45%N] p = tp_str tp) ->
  py_forb (map snd ps) (known, ff) body =
  match lookup_format tbl ps flag with
  | Some (tp, name) => (true, pd_set (tp_str tp) (pd_set name flag (pd_getd str_eqb (tp_str tp) [] ff)) ff)
  | None => (known, ff)
  end.
Proof.
  intros Hb. induction ps as [|[tp p] ps IH]; intros known ff Hps; cbn [map snd py_forb lookup_format]; [reflexivity|].
  rewrite Hb, mem_key_src. change (py_slice_mid (length p) 7 flag) with (slice_mid (length p) flag).
  destruct (starts_with p flag); cbn [negb fst snd].
  - destruct (mem_key (slice_mid (length p) flag) tbl); cbn [fst snd].
    + rewrite (Hps tp p) by (left; reflexivity). reflexivity.
    + apply IH. intros; apply Hps; right; assumption.
  - apply IH. intros; apply Hps; right; assumption.
Qed.
Lemma prefixes_rstrip tp p : In (tp, p) prefixes -> py_rstrip [45%N] p = tp_str tp.
Proof. unfold prefixes. intros [H|[H|[H|[H|[]]]]]; inversion H; subst; reflexivity. Qed.

Definition zeqb := pair_eqb Z.eqb Z.eqb.
Definition rfdict := list ((Z * Z) * list (list N * nat)).
Definition lstate := (bool * list mdiag * option bool * Z * option Z * rfdict * ffdict)%type.
Definition rf_step (rf : rfdict) (it : item) : rfdict :=
  match it with
  | (flag, n, FRange (Some r)) => let inner := pd_getd zeqb r [] rf in pd_set r (pd_set flag (pd_getd str_eqb flag 0 inner + n)%nat inner) rf
  | _ => rf
  end.
Definition ff_step (ff : ffdict) (it : item) : ffdict :=
  match it with
  | (flag, _, FFormat (Some (tp, name))) => pd_set (tp_str tp) (pd_set name flag (pd_getd str_eqb (tp_str tp) [] ff)) ff
  | _ => ff
  end.
Definition step (hp : bool) (s : lstate) (it : item) : lstate :=
  let '(fuzzy, out, wrap, rmin, rmax, rf, ff) := s in
  let '(flag, n, cl) := it in
  (fuzzy || is_fuzzy_item it,
   out ++ item_pre hp wrap flag cl ++ item_dup flag n cl,
   item_wrap wrap cl,
   match cl with FRange (Some r) => fst r | _ => rmin end,
   match cl with FRange (Some r) => Some (snd r) | _ => rmax end,
   rf_step rf it, ff_step ff it).

Lemma flags_loop cfg hp body :
  (forall s flag n, body s (flag, n) =
     match classify cfg flag with
     | Ok cl => Ok (false, step hp s (flag, n, cl))
     | Crash c => Crash c
     | Err x => Err x
     end) ->
  forall raw s, py_for raw s body =
    match classify_all cfg raw with
    | Ok items => Ok (fold_left (step hp) items s)
    | Crash c => Crash c
    | Err x => Err x
    end.
Proof.
  intros Hb. induction raw as [|[f n] raw IH]; intros s; cbn [py_for classify_all]; [reflexivity|].
  rewrite Hb. destruct (classify cfg f) as [cl|[]|c]; cbn [obind fst snd]; [|reflexivity].
  rewrite IH. destruct (classify_all cfg raw) as [items|[]|c]; reflexivity.
Qed.

Definition lr_step (acc : option (Z * Z)) (it : item) : option (Z * Z) :=
  match it with (_, _, FRange (Some r)) => Some r | _ => acc end.
Lemma last_range_fold items : last_range items = fold_left lr_step items None.
Proof. reflexivity. Qed.
Lemma lr_some items : forall r0, fold_left lr_step items (Some r0) =
  match fold_left lr_step items None with Some r => Some r | None => Some r0 end.
Proof.
  induction items as [|[[f n] cl] items IH]; intros r0; cbn [fold_left lr_step]; [reflexivity|].
  destruct cl as [| |[r|]| | |]; try apply IH.
  rewrite (IH r). destruct (fold_left lr_step items None); reflexivity.
Qed.

Definition wrap_after (w : option bool) (items : list item) : option bool :=
  fold_left (fun w (it : item) => item_wrap w (snd it)) items w.

Lemma fold_step hp : forall items fz out w mn mx rf ff,
  fold_left (step hp) items (fz, out, w, mn, mx, rf, ff) =
  (fz || existsb is_fuzzy_item items, out ++ loop_diags hp w items, wrap_after w items,
   match last_range items with Some r => fst r | None => mn end,
   match last_range items with Some r => Some (snd r) | None => mx end,
   fold_left rf_step items rf, fold_left ff_step items ff).
Proof.
  induction items as [|[[f n] cl] items IH]; intros fz out w mn mx rf ff.
  - cbn. now rewrite orb_false_r, app_nil_r.
  - cbn [fold_left]. unfold step at 2. rewrite IH. cbn [existsb loop_diags wrap_after fold_left snd].
    rewrite orb_assoc, <- !app_assoc. rewrite !last_range_fold. cbn [fold_left].
    destruct cl as [| |[r|]| | |]; cbn [lr_step]; try reflexivity.
    rewrite lr_some. destruct (fold_left lr_step items None); reflexivity.
Qed.

(* ---------- Counter(flags) *)
Lemma pd_get_dget k (d : list (list N * list N)) : pd_get str_eqb k d = dget k d.
Proof. reflexivity. Qed.
Definition cnt_step (c : list (list N * nat)) (k : list N) := pd_set k (pd_getd str_eqb k 0 c + 1)%nat c.
Lemma counter_get : forall l c k, pd_getd str_eqb k 0%nat (fold_left cnt_step l c) = (pd_getd str_eqb k 0%nat c + count_str k l)%nat.
Proof.
  induction l as [|x l IH]; intros c k; cbn [fold_left]; [unfold count_str; cbn; lia|].
  rewrite IH. unfold cnt_step at 1. rewrite pd_getd_set. unfold count_str. cbn [filter].
  rewrite (str_eqb_sym k x). destruct (str_eqb x k) eqn:E; cbn [length]; [|reflexivity].
  apply str_eqb_eq in E. subst. lia.
Qed.
Lemma counter_keys : forall l c, map fst (fold_left cnt_step l c) = rev l ++ map fst c.
Proof.
  induction l as [|x l IH]; intros c; cbn [fold_left rev]; [reflexivity|].
  rewrite IH. unfold cnt_step, pd_set. cbn [map fst]. now rewrite <- app_assoc.
Qed.
Lemma counter_sorted_src F : pd_items str_compare str_eqb (py_counter str_eqb F) = counter_sorted F.
Proof.
  unfold pd_items, py_counter, counter_sorted. change (fun c k => pd_set k (pd_getd str_eqb k 0 c + 1)%nat c) with cnt_step.
  rewrite counter_keys. cbn [map]. rewrite app_nil_r.
  assert (Hr : sort_dedup str_compare (rev F) = sort_dedup str_compare F).
  { apply str_sort_ext. intros x. split; intros H; [apply in_rev; exact H|apply in_rev in H; exact H]. }
  rewrite Hr.
  apply flat_map_single. intros k Hk. apply (proj1 (str_sort_In _ _)) in Hk.
  destruct (pd_get_In str_eqb str_eqb_refl k (fold_left cnt_step F [])) as [v Hv].
  { rewrite counter_keys. cbn [map]. rewrite app_nil_r. apply in_rev in Hk. exact Hk. }
  rewrite Hv. do 2 f_equal.
  pose proof (counter_get F [] k) as Hc. unfold pd_getd in Hc at 1. rewrite Hv in Hc. exact Hc.
Qed.

(* ---------- format_flags *)
Lemma tp_str_eqb a b : str_eqb (tp_str a) (tp_str b) = ftp_eqb b a.
Proof. destruct a, b; reflexivity. Qed.
Definition fsel (tp : ftp) (it : item) : list (list N * list N) :=
  match it with
  | (flag, _, FFormat (Some (tp', name))) => if ftp_eqb tp tp' then [(name, flag)] else []
  | _ => []
  end.
Lemma ff_fold tp : forall items ff,
  pd_getd str_eqb (tp_str tp) [] (fold_left ff_step items ff) = rev (flat_map (fsel tp) items) ++ pd_getd str_eqb (tp_str tp) [] ff.
Proof.
  induction items as [|[[flag n] cl] items IH]; intros ff; cbn [fold_left flat_map]; [reflexivity|].
  rewrite IH, rev_app_distr, <- app_assoc. f_equal.
  destruct cl as [| | |[[tp' name]|]| |]; try reflexivity.
  unfold ff_step, fsel. rewrite pd_getd_set, tp_str_eqb. destruct (ftp_eqb tp tp') eqn:E; [apply ftp_eqb_eq in E; subst|]; reflexivity.
Qed.
Lemma ff_fmt_dict tp items : pd_getd str_eqb (tp_str tp) [] (fold_left ff_step items []) = fmt_dict tp items.
Proof. rewrite ff_fold. cbn. rewrite app_nil_r. reflexivity. Qed.

Lemma zeqb_eq a b : zeqb a b = true <-> a = b.
Proof.
  unfold zeqb, pair_eqb. rewrite andb_true_iff, !Z.eqb_eq. destruct a, b; cbn. split; [intros [-> ->]; reflexivity|intros H; inversion H; auto].
Qed.
Lemma zeqb_zz a b : zeqb a b = zz_eqb a b.
Proof.
  destruct (zeqb a b) eqn:E1, (zz_eqb a b) eqn:E2; try reflexivity.
  - apply zeqb_eq in E1. subst. rewrite (proj2 (zz_eqb_eq b b) eq_refl) in E2. discriminate.
  - apply zz_eqb_eq in E2. subst. rewrite (proj2 (zeqb_eq b b) eq_refl) in E1. discriminate.
Qed.

(* ---------- range_flags *)
Definition row := ((Z * Z) * (list N * nat))%type.
Definition row_step (rf : rfdict) (r : row) : rfdict :=
  let inner := pd_getd zeqb (fst r) [] rf in
  pd_set (fst r) (pd_set (fst (snd r)) (pd_getd str_eqb (fst (snd r)) 0 inner + snd (snd r))%nat inner) rf.
Lemma rf_rows : forall items rf, fold_left rf_step items rf = fold_left row_step (range_rows items) rf.
Proof.
  induction items as [|[[f n] cl] items IH]; intros rf; [reflexivity|].
  unfold range_rows. cbn [fold_left flat_map]. rewrite fold_left_app. fold (range_rows items). rewrite <- IH.
  destruct cl as [| |[r|]| | |]; reflexivity.
Qed.
Lemma rf_keys : forall rows rf, pd_keys (fold_left row_step rows rf) = rev (map fst rows) ++ pd_keys rf.
Proof.
  induction rows as [|r rows IH]; intros rf; cbn [fold_left map rev]; [reflexivity|].
  rewrite IH. unfold row_step, pd_set, pd_keys. cbn [map fst]. now rewrite <- app_assoc.
Qed.
Definition rflags (rows : list row) : list (list N) := map (fun r => fst (snd r)) rows.
Lemma rf_get : forall rows, NoDup (rflags rows) -> forall k,
  pd_getd zeqb k [] (fold_left row_step rows []) = rev (map snd (filter (fun r => zz_eqb (fst r) k) rows)).
Proof.
  induction rows as [|[k0 [f n]] rows IH] using rev_ind; intros Hnd k; [reflexivity|].
  unfold rflags in Hnd. rewrite map_app in Hnd. cbn [map fst snd] in Hnd.
  apply NoDup_remove in Hnd. rewrite app_nil_r in Hnd. destruct Hnd as [Hnd Hf].
  rewrite fold_left_app. cbn [fold_left]. unfold row_step at 1. cbn [fst snd].
  rewrite pd_getd_set, zeqb_zz, filter_app, map_app, rev_app_distr. cbn [filter fst].
  rewrite (IH Hnd k0).
  destruct (zz_eqb k0 k) eqn:E.
  - apply zz_eqb_eq in E. subst k0. cbn [map rev app snd].
    rewrite (pd_getd_notin str_eqb str_eqb_eq); [reflexivity|].
    intros Hin. apply Hf. rewrite <- map_rev, map_map in Hin. apply in_map_iff in Hin. destruct Hin as [r [E Hr]].
    apply in_rev in Hr. apply filter_In in Hr. apply in_map_iff. exists r. split; [exact E|apply Hr].
  - cbn [map rev app]. apply IH. exact Hnd.
Qed.

Definition zcmp := pair_cmp Z.compare Z.compare.
Lemma zcmp_zz : zcmp = zz_compare.
Proof. reflexivity. Qed.

Lemma str_min_unique l a : l <> [] -> In a l -> (forall x, In x l -> str_compare a x <> Gt) -> a = str_min l.
Proof.
  intros Hne Ha Hmin. destruct (str_min_spec l Hne) as [Hb Hbmin].
  specialize (Hmin _ Hb). specialize (Hbmin _ Ha).
  rewrite str_compare_antisym in Hbmin.
  destruct (str_compare a (str_min l)) eqn:E; [now apply str_compare_eq in E| |congruence].
  cbn in Hbmin. congruence.
Qed.
Lemma py_min_rev l : l <> [] -> py_min str_ltb (rev l) = Ok (str_min l).
Proof.
  intros Hne. assert (Hr : rev l <> []).
  { intros E. apply Hne. rewrite <- (rev_involutive l), E. reflexivity. }
  assert (E : py_min str_ltb (rev l) = Ok (str_min (rev l))) by (destruct (rev l); [congruence|reflexivity]).
  rewrite E. f_equal. destruct (str_min_spec (rev l) Hr) as [H1 H2].
  apply str_min_unique; [assumption|now apply in_rev in H1|]. intros x Hx. apply H2. now apply in_rev in Hx.
Qed.

Section Range.
  Context (rows : list row) (Hnd : NoDup (rflags rows)).
  Let RF := fold_left row_step rows [].

  Lemma rf_sorted_keys : sort_dedup zcmp (pd_keys RF) = sort_dedup zz_compare (map fst rows).
  Proof.
    unfold RF. rewrite rf_keys. cbn [pd_keys map]. rewrite app_nil_r. apply zz_sort_ext.
    intros x. split; intros H; [apply in_rev; exact H|apply in_rev in H; exact H].
  Qed.
  Lemma rf_len : pd_len zeqb RF = length (sort_dedup zz_compare (map fst rows)).
  Proof.
    unfold pd_len. rewrite (ps_len_sort zz_compare zeqb zz_compare_eq zz_compare_gt_lt zz_compare_trans zeqb_eq).
    fold (pd_keys RF). change zz_compare with zcmp at 1. now rewrite rf_sorted_keys.
  Qed.
  Lemma rf_inner k : pd_keys (pd_getd zeqb k [] RF) = rev (flags_of_key rows k).
  Proof. unfold RF. rewrite (rf_get rows Hnd). unfold pd_keys, flags_of_key. now rewrite map_rev, map_map. Qed.
  Lemma rf_min k : In k (map fst rows) -> py_min str_ltb (pd_keys (pd_getd zeqb k [] RF)) = Ok (str_min (flags_of_key rows k)).
  Proof.
    intros Hk. rewrite rf_inner. apply py_min_rev. unfold flags_of_key.
    apply in_map_iff in Hk. destruct Hk as [r [E Hr]].
    assert (In r (filter (fun r0 => zz_eqb (fst r0) k) rows)) as Hin by (apply filter_In; split; [assumption|now apply zz_eqb_eq]).
    intros En. apply map_eq_nil in En. rewrite En in Hin. destruct Hin.
  Qed.
  Lemma rf_two k1 k2 rest : sort_dedup zz_compare (map fst rows) = k1 :: k2 :: rest ->
    py_two_smallest zcmp (pd_keys RF) = Ok (k1, k2).
  Proof. intros E. unfold py_two_smallest. now rewrite rf_sorted_keys, E. Qed.
  Lemma rf_get_some k : In k (map fst rows) -> pd_get zeqb k RF = Some (pd_getd zeqb k [] RF).
  Proof.
    intros Hk. destruct (pd_get_In zeqb (fun a => proj2 (zeqb_eq a a) eq_refl) k RF) as [v Hv].
    - unfold RF. fold (pd_keys (fold_left row_step rows [])). rewrite rf_keys. cbn [pd_keys map]. rewrite app_nil_r. now apply in_rev in Hk.
    - unfold pd_getd. now rewrite Hv.
  Qed.
  Lemma rf_single k : sort_dedup zz_compare (map fst rows) = [k] ->
    py_single (pd_values zcmp zeqb RF) = Ok (pd_getd zeqb k [] RF).
  Proof.
    intros E. unfold pd_values, pd_items. fold (pd_keys RF). rewrite rf_sorted_keys, E. cbn [flat_map].
    rewrite rf_get_some; [reflexivity|]. apply (proj1 (zz_sort_In _ _)). rewrite E. left; reflexivity.
  Qed.
  Lemma py_sum_perm l l' : Permutation l l' -> py_sum l = py_sum l'.
  Proof. unfold py_sum. induction 1; cbn; lia. Qed.
  Lemma rf_sum k : sort_dedup zz_compare (map fst rows) = [k] ->
    py_sum (pd_values str_compare str_eqb (pd_getd zeqb k [] RF)) = sum_n rows.
  Proof.
    intros E. unfold RF. rewrite (rf_get rows Hnd).
    assert (Hall : filter (fun r => zz_eqb (fst r) k) rows = rows).
    { pose proof (keys_single rows k E) as Hs. clear - Hs. induction rows as [|r l IH]; cbn; [reflexivity|].
      rewrite (proj2 (zz_eqb_eq (fst r) k)) by (apply Hs; left; reflexivity). f_equal. apply IH. intros; apply Hs; right; assumption. }
    rewrite Hall. unfold pd_values.
    rewrite (py_sum_perm _ (map snd (rev (map snd rows)))).
    - rewrite (py_sum_perm _ (map snd (map snd rows))) by (rewrite <- map_rev; apply Permutation_map, Permutation_map, Permutation_sym, Permutation_rev).
      clear. unfold py_sum, sum_n. induction rows as [|r l IH]; cbn; [reflexivity|]. now rewrite IH.
    - apply Permutation_map. apply (pd_items_perm str_compare str_eqb str_compare_eq str_compare_gt_lt str_compare_trans str_eqb_eq).
      rewrite <- map_rev, map_map, map_rev. apply NoDup_rev. exact Hnd.
  Qed.
End Range.

Lemma pd_items_dict (d : list (list N * list N)) : pd_items str_compare str_eqb d = dict_items d.
Proof. reflexivity. Qed.
Lemma pd_item_examples tbl k : mem_key k tbl = true -> pd_item str_eqb k tbl = Ok (examples tbl k).
Proof.
  unfold pd_item, pd_get, examples, mem_key. intros H.
  destruct (find (fun p => str_eqb (fst p) k) tbl) eqn:E; [reflexivity|].
  exfalso. apply existsb_exists in H. destruct H as [p [Hp Hk]].
  pose proof (find_none _ _ E p Hp) as Hn. cbn in Hn. congruence.
Qed.
Lemma compatible_src tbl f1 f2 : py_truthy (ps_inter str_eqb (examples tbl f1) (examples tbl f2)) = compatible tbl f1 f2.
Proof.
  unfold py_truthy, ps_inter, compatible, ps_mem, mem_str.
  induction (examples tbl f1) as [|x l IH]; cbn; [reflexivity|].
  destruct (existsb (str_eqb x) (examples tbl f2)); cbn; [reflexivity|exact IH].
Qed.

(* the double loop over sorted(positive_format_flags.items()) *)
Lemma pos_conflicts_src tbl (l : list (list N * list N)) out body :
  (forall x, In x l -> mem_key (fst x) tbl = true) ->
  (forall st x, body st x =
     do o <- py_for l st (fun st2 y =>
        if str_leb (fst y) (fst x) then Ok (false, st2) else
        do e1 <- pd_item str_eqb (fst x) tbl;
        do e2 <- pd_item str_eqb (fst y) tbl;
        if py_truthy (ps_inter str_eqb e1 e2) then Ok (false, st2) else Ok (false, st2 ++ [MConflictFlags (snd x) (snd y)]));
     Ok (false, o)) ->
  py_for l out body = Ok (out ++ pos_conflicts tbl l).
Proof.
  intros Hk Hb. unfold pos_conflicts. apply py_for_flat_map. intros st x Hx. rewrite Hb.
  rewrite (py_for_flat_map l st (fun p2 => if str_ltb (fst x) (fst p2) then if compatible tbl (fst x) (fst p2) then [] else [MConflictFlags (snd x) (snd p2)] else [])).
  - reflexivity.
  - intros st2 y Hy. unfold str_leb. destruct (str_ltb (fst x) (fst y)); cbn [negb]; [|now rewrite app_nil_r].
    rewrite !pd_item_examples by auto. cbn [obind]. rewrite compatible_src.
    destruct (compatible tbl (fst x) (fst y)); [now rewrite app_nil_r|reflexivity].
Qed.

(* the loops over sorted(frozenset(P) & frozenset(Q)) *)
Lemma mem_keys_dget k (Q : list (list N * list N)) :
  ps_mem str_eqb k (pd_keys Q) = match dget k Q with Some _ => true | None => false end.
Proof.
  unfold ps_mem, pd_keys, dget. induction Q as [|[k0 v0] Q IH]; cbn; [reflexivity|].
  rewrite str_eqb_sym. destruct (str_eqb k0 k); [reflexivity|exact IH].
Qed.
Lemma pair_loop_src (mk : list N -> list N -> mdiag) (P Q : list (list N * list N)) out body :
  (forall st x a b, pd_item str_eqb x P = Ok a -> pd_item str_eqb x Q = Ok b -> body st x = Ok (false, st ++ [mk a b])) ->
  py_for (ps_sorted str_compare (ps_inter str_eqb (pd_keys P) (pd_keys Q))) out body =
  Ok (out ++ flat_map (fun kv => match dget (fst kv) Q with Some f2 => [mk (snd kv) f2] | None => [] end) (dict_items P)).
Proof.
  intros Hb. unfold ps_sorted, ps_inter. rewrite str_sort_filter.
  rewrite (py_for_flat_map _ out (fun k => match dget k P, dget k Q with Some a, Some b => [mk a b] | _, _ => [] end)).
  - f_equal. f_equal. unfold dict_items. fold (pd_keys P).
    induction (sort_dedup str_compare (pd_keys P)) as [|k SK IH]; cbn [filter flat_map]; [reflexivity|].
    rewrite flat_map_app, <- IH, mem_keys_dget.
    destruct (dget k Q) as [b|] eqn:EQ; cbn [flat_map app].
    + destruct (dget k P) as [a|]; cbn [flat_map fst snd app]; [|reflexivity]. now rewrite EQ.
    + destruct (dget k P) as [a|]; cbn [flat_map fst snd app]; [|reflexivity]. now rewrite EQ.
  - intros st x Hx. apply filter_In in Hx. destruct Hx as [Hs Hq].
    apply (proj1 (str_sort_In _ _)) in Hs. rewrite mem_keys_dget in Hq.
    apply in_map_iff in Hs. destruct Hs as [[x' a'] [E Hin]]. cbn in E. subst x'.
    destruct (dget_In _ _ _ Hin) as [a Ha]. destruct (dget x Q) as [b|] eqn:EQ; [|discriminate].
    rewrite (Hb st x a b), Ha; [reflexivity| |]; unfold pd_item; rewrite pd_get_dget; [rewrite Ha|rewrite EQ]; reflexivity.
Qed.

Definition src_info (items : list item) : pyinfo :=
  {| pi_fuzzy := existsb is_fuzzy_item items;
     pi_range_min := match last_range items with Some r => fst r | None => 0%Z end;
     pi_range_max := match last_range items with Some r => Some (snd r) | None => None end;
     pi_formats := map fst (fmt_dict TpPos items) |}.
Definition flags_spec (cfg : config) (e : msg_entry) : outcome (list mdiag * pyinfo) Empty_set :=
  do items <- classify_all cfg (counter_sorted (me_flags e));
  Ok (flags_diags (c_formats cfg) (is_some (me_plural e)) items, src_info items).

(* closes a branch of the step lemma: case analysis on the two atoms of the duplicate test, then on whatever `if` is left *)
Ltac fin n flag := cbn -[Nat.ltb]; rewrite ?orb_true_r, ?orb_false_r; cbn -[Nat.ltb]; unfold py_truthy;
  try destruct (Nat.ltb 1 n); try destruct (is_nil flag); cbn; rewrite ?app_nil_r, <- ?app_assoc; try reflexivity;
  repeat match goal with |- context [if ?c then _ else _] => destruct c end; cbn; rewrite ?app_nil_r, <- ?app_assoc; reflexivity.

Lemma lookup_format_mem tbl flag : forall ps tp name, lookup_format tbl ps flag = Some (tp, name) -> mem_key name tbl = true.
Proof.
  induction ps as [|[tp0 p] ps IH]; intros tp name; cbn [lookup_format]; [discriminate|].
  destruct (starts_with p flag); [|apply IH].
  destruct (mem_key (slice_mid (length p) flag) tbl) eqn:E; [|apply IH].
  intros H. inversion H; subst. exact E.
Qed.
Lemma classify_format_mem cfg f tp name : classify cfg f = Ok (FFormat (Some (tp, name))) -> mem_key name (c_formats cfg) = true.
Proof.
  unfold classify. destruct (str_eqb f s_fuzzy); [discriminate|]. destruct (str_eqb f s_wrap); [discriminate|].
  destruct (str_eqb f s_no_wrap); [discriminate|].
  destruct (starts_with s_range f); [destruct (parse_range _ _); discriminate|].
  destruct (ends_with s_format f); [|destruct (str_eqb f s_markdown); discriminate].
  intros H. assert (H1 : lookup_format (c_formats cfg) prefixes f = Some (tp, name)) by congruence.
  exact (lookup_format_mem _ _ _ _ _ H1).
Qed.
Lemma range_rows_NoDup items : NoDup (map flag_of items) -> NoDup (rflags (range_rows items)).
Proof.
  induction items as [|[[f n] cl] items IH]; cbn [map]; intros H; [constructor|].
  inversion H as [|? ? Hn Hnd]; subst. unfold range_rows. cbn [flat_map]. fold (range_rows items).
  assert (Hsub : forall g, In g (rflags (range_rows items)) -> In g (map flag_of items)).
  { clear. intros g Hg. unfold rflags in Hg. apply in_map_iff in Hg. destruct Hg as [[r [f n]] [E Hr]]. cbn in E. subst.
    apply range_rows_In in Hr. apply in_map_iff. exists (g, n, FRange (Some r)). auto. }
  destruct cl as [| |[r|]| | |]; cbn [app]; try (apply IH; assumption).
  unfold rflags. cbn [map fst snd]. constructor; [|apply IH; assumption].
  intros Hin. apply Hn. apply Hsub. exact Hin.
Qed.

Lemma py_for_cons {S X} (x : X) r (s : S) body :
  py_for (x :: r) s body = do bs <- body s x; if fst bs then Ok (snd bs) else py_for r (snd bs) body.
Proof. reflexivity. Qed.
Lemma py_for_nil {S X} (s : S) (body : S -> X -> _) : py_for [] s body = Ok s.
Proof. reflexivity. Qed.

Theorem src_check_message_flags_eq cfg e : src_check_message_flags cfg e = flags_spec cfg e.
Proof.
intros. cbv beta delta [src_check_message_flags flags_spec].
pose_let.
match goal with |- obind (py_for _ _ ?b) _ = _ => set (body := b) end.
assert (Hstep : forall s flag n, body s (flag, n) =
          match classify cfg flag with
          | Ok cl => Ok (false, step (is_some (me_plural e)) s (flag, n, cl))
          | Crash c => Crash c
          | Err x => Err x
          end).
{ intros [[[[[[fz out] wrap] mn] mx] rf] ff] flag n. subst body. cbv beta iota zeta. cbn [fst snd].
  unfold classify, s_fuzzy, s_wrap, s_no_wrap, s_range, s_format, s_markdown, ps_mem. cbn [existsb].
  destruct (str_eqb flag [102;117;122;122;121]%N) eqn:E1; [fin n flag|].
  destruct (str_eqb flag [119;114;97;112]%N) eqn:E2; [destruct wrap as [[|]|]; fin n flag|].
  destruct (str_eqb flag [110;111;45;119;114;97;112]%N) eqn:E3; [destruct wrap as [[|]|]; fin n flag|].
  cbn [orb].
  destruct (starts_with [114;97;110;103;101;58]%N flag) eqn:E4.
  { rewrite parse_range_src. destruct (re_range (py_strip [32;9;13;12;11]%N (skipn 6 flag))) as [m|]; [|destruct (me_plural e); fin n flag].
    destruct (py_int (c_maxd cfg) (fst m)) as [i|[]|c]; [|reflexivity].
    destruct (py_int (c_maxd cfg) (snd m)) as [j|[]|c]; [|reflexivity].
    cbn [obind]. destruct (i <? j)%Z; destruct (me_plural e); fin n flag. }
  destruct (ends_with [45;102;111;114;109;97;116]%N flag) eqn:E5.
  { change [[110;111;45]; [112;111;115;115;105;98;108;101;45]; [105;109;112;111;115;115;105;98;108;101;45]; []]%N with (map snd prefixes).
    rewrite (prefix_loop (c_formats cfg) flag) by (first [intros; reflexivity | apply prefixes_rstrip]).
    destruct (lookup_format (c_formats cfg) prefixes flag) as [[tp name]|]; fin n flag. }
  destruct (str_eqb flag [109;97;114;107;100;111;119;110;45;116;101;120;116]%N) eqn:E6; fin n flag. }
rewrite (flags_loop cfg (is_some (me_plural e)) body Hstep). clear Hstep. clearbody body. clear body.
subst y. rewrite counter_sorted_src.
destruct (classify_all cfg (counter_sorted (me_flags e))) as [items|[]|c] eqn:Ecl; [|reflexivity].
rewrite !obind_Ok. cbv beta. rewrite fold_step. cbv beta iota.
rewrite rf_rows.
pose proof (range_rows_NoDup items (items_flags_NoDup cfg (me_flags e) items Ecl)) as Hnd.
set (rows := range_rows items) in *.
set (O := loop_diags (is_some (me_plural e)) None items).
change ([] ++ O) with O.
match goal with |- obind ?R _ = _ => assert (ER : R = Ok (O ++ range_post rows)) end.
{ change (pair_eqb Z.eqb Z.eqb) with zeqb. change (pair_cmp Z.compare Z.compare) with zcmp.
  rewrite (rf_len rows). unfold range_post.
  assert (Hin : forall k, In k (sort_dedup zz_compare (map fst rows)) -> In k (map fst rows)) by (intros k; apply zz_sort_In).
  destruct (sort_dedup zz_compare (map fst rows)) as [|k1 [|k2 rest]] eqn:EK; cbn [length].
  - cbn. now rewrite app_nil_r.
  - change (1 <? 1)%nat with false. change (1 =? 1)%nat with true. cbv beta iota.
    rewrite (rf_single rows k1 EK), obind_Ok. cbv beta. rewrite (rf_sum rows Hnd k1 EK).
    destruct (1 <? sum_n rows)%nat; [|now rewrite app_nil_r].
    rewrite (rf_min rows Hnd k1) by (apply Hin; left; reflexivity). reflexivity.
  - change (1 <? S (S (length rest)))%nat with true. cbv beta iota.
    rewrite (rf_two rows k1 k2 rest EK), obind_Ok. cbv beta iota.
    rewrite (rf_min rows Hnd k1), (rf_min rows Hnd k2) by (apply Hin; cbn; auto). reflexivity. }
rewrite ER, obind_Ok. clear ER. cbv beta zeta.
pose proof (ff_fmt_dict TpPos items) as HP. pose proof (ff_fmt_dict TpNo items) as HN.
pose proof (ff_fmt_dict TpPossible items) as HS. pose proof (ff_fmt_dict TpImpossible items) as HI.
cbn [tp_str] in HP, HN, HS, HI.
rewrite !HP, !HS.
(* compatibility of the positive formats *)
rewrite pd_items_dict.
rewrite (pos_conflicts_src (c_formats cfg) (dict_items (fmt_dict TpPos items))).
2: { intros [name flag] Hx. apply dict_items_In, dget_Some, fmt_dict_In in Hx. destruct Hx as [n Hx].
     destruct (items_In cfg (me_flags e) items Ecl _ Hx) as [_ [_ Hc]]. exact (classify_format_mem _ _ _ _ Hc). }
2: { intros; reflexivity. }
rewrite obind_Ok. cbv beta.
(* the three (positive, negative) families *)
do 3 (rewrite py_for_cons; cbv beta; cbn [fst snd]; rewrite ?HP, ?HS, ?HN, ?HI;
      rewrite (pair_loop_src MConflictFlags) by (intros st x a b Ha Hb; cbv beta; rewrite ?HP, ?HS, ?HN, ?HI; rewrite ?Ha, ?Hb; cbn [obind]; rewrite ?Ha, ?Hb; reflexivity);
      repeat (rewrite obind_Ok; cbv beta); cbn [fst snd]; cbv iota).
rewrite py_for_nil, obind_Ok. cbv beta.
rewrite (pair_loop_src (fun a b => MRedundantFlag b a))
  by (intros st x a b Ha Hb; cbv beta; rewrite ?Ha, ?Hb; cbn [obind]; rewrite ?Ha, ?Hb; reflexivity).
rewrite obind_Ok. cbv beta.
unfold flags_diags, src_info, pair_conflicts, redundant. cbv zeta. fold rows. fold O.
rewrite <- !app_assoc. reflexivity.
Qed.

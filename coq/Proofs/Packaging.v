(* C17: independence of the loaders from surface encoding, as corollaries of the C08 theorems. *)
From Coq Require Import List NArith.
From I18n Require Import Lib.Outcome Model.MoParser Spec.MoFormat Proofs.MoCorollaries.
Import ListNotations.

(* two MO files that encode the same catalog (whatever their byte order, placement of tables and strings,
   overlap, padding, hash table, minor revision with the same hidden flag) load to the same result *)
Lemma mo_layout_independent asc enc0 f1 f2 c h :
  wf_catalog c -> Encodes f1 c h -> Encodes f2 c h -> mo_parse asc enc0 f1 = mo_parse asc enc0 f2.
Proof.
  intros Hwf H1 H2.
  rewrite (complete_returned asc enc0 f1 c h Hwf H1), (complete_returned asc enc0 f2 c h Hwf H2). reflexivity.
Qed.

From I18n Require Import Model.PoUnescape Model.PoParser Spec.PoSyntax Proofs.PoParser.

(* two spelled catalogs with the same value (the same strings, flags, markers — spelled with different escape forms,
   chunking into continuation lines, blank lines, #~| lines) load to the same result *)
Lemma po_spelling_independent O ws1 ws2 c1 c2 l1 l2 :
  ascii_compatible (o_dec O) -> ~ In 34%N ws1 -> ~ In 34%N ws2 ->
  scatalog_ok (o_dec O) c1 -> scatalog_ok (o_dec O) c2 -> nplurals_le_10 c1 -> nplurals_le_10 c2 ->
  catalog_value c1 = catalog_value c2 ->
  ext (toks_catalog ws1 c1) l1 -> ext (toks_catalog ws2 c2) l2 ->
  run_machine O l1 = run_machine O l2.
Proof.
  intros Ha Hw1 Hw2 Hc1 Hc2 Hn1 Hn2 Hv H1 H2.
  rewrite (machine_roundtrip O ws1 c1 l1 Ha Hw1 Hc1 Hn1 H1), (machine_roundtrip O ws2 c2 l2 Ha Hw2 Hc2 Hn2 H2), Hv.
  reflexivity.
Qed.

(* The charset scanner of the model (re.search(b'charset=([^ \t\n]+)', msgstr)) finds the charset the header declares
   in the sense of Spec/MoFormat.v:declares_charset (first occurrence of "charset=", name up to the next blank), whenever
   that name is not empty. *)
From Coq Require Import List NArith Bool Lia Arith.
From I18n Require Import Lib.Outcome Model.MoParser Spec.MoFormat Proofs.MoStrings Proofs.MoParser Proofs.MoCorollaries.
Import ListNotations.
Local Open Scope N_scope.

Lemma strip_prefix_app : forall p r, strip_prefix p (p ++ r) = Some r.
Proof.
  induction p as [|c p IH]; intros r; cbn [app strip_prefix]; [reflexivity|]. now rewrite N.eqb_refl.
Qed.

Lemma strip_prefix_some : forall p s r, strip_prefix p s = Some r -> s = p ++ r.
Proof.
  induction p as [|c p IH]; intros s r H; cbn [strip_prefix] in H.
  - inversion H. reflexivity.
  - destruct s as [|d s]; [discriminate|]. destruct (N.eqb_spec c d) as [->|]; [|discriminate].
    cbn [app]. f_equal. now apply IH.
Qed.

Lemma span_app : forall p name rest, Forall (fun c => p c = true) name ->
  match rest with [] => True | c :: _ => p c = false end ->
  span p (name ++ rest) = (name, rest).
Proof.
  induction name as [|x name IH]; intros rest Hn Hr; cbn [app span].
  - destruct rest as [|c r]; [reflexivity|]. cbn [span]. now rewrite Hr.
  - inversion Hn as [|? ? Hx Hn']; subst. rewrite Hx, IH by assumption. reflexivity.
Qed.

Lemma find_charset_step : forall x r, cs_match_here (x :: r) = None -> find_charset (x :: r) = find_charset r.
Proof. intros x r H. cbn [find_charset]. now rewrite H. Qed.

Lemma cs_match_here_at : forall name rest, name <> [] ->
  Forall (fun c => c <> 32 /\ c <> 9 /\ c <> 10) name ->
  match rest with [] => True | c :: _ => c = 32 \/ c = 9 \/ c = 10 end ->
  cs_match_here (s_charset ++ name ++ rest) = Some name.
Proof.
  intros name rest Hne Hn Hr. unfold cs_match_here. rewrite strip_prefix_app.
  rewrite (span_app non_blank name rest).
  - cbn [fst]. destruct name; [congruence|reflexivity].
  - eapply Forall_impl; [|exact Hn]. intros c (H1 & H2 & H3). unfold non_blank, is_blank.
    destruct (N.eqb_spec c 32); [contradiction|]. destruct (N.eqb_spec c 9); [contradiction|].
    destruct (N.eqb_spec c 10); [contradiction|]. reflexivity.
  - destruct rest as [|c r]; [exact I|]. unfold non_blank, is_blank.
    destruct Hr as [-> | [-> | ->]]; reflexivity.
Qed.

Theorem find_charset_declared : forall s name, declares_charset s name -> name <> [] -> find_charset s = Some name.
Proof.
  intros s name (pre & rest & -> & Hfirst & Hn & Hr) Hne. revert Hfirst.
  induction pre as [|x pre IH]; intros Hfirst.
  - cbn [app]. assert (E := cs_match_here_at name rest Hne Hn Hr).
    change (s_charset ++ name ++ rest) with (99 :: [104; 97; 114; 115; 101; 116; 61] ++ name ++ rest) in *.
    cbn [find_charset]. now rewrite E.
  - cbn [app]. rewrite find_charset_step.
    + apply IH. intros p q E. apply (Hfirst (x :: p) q). cbn [app]. now rewrite E.
    + unfold cs_match_here.
      destruct (strip_prefix s_charset (x :: pre ++ s_charset ++ name ++ rest)) as [r|] eqn:S; [|reflexivity].
      exfalso. apply strip_prefix_some in S.
      set (A := (x :: pre) ++ s_charset).
      assert (HA : (8 < length A)%nat) by (unfold A; rewrite app_length; cbn; lia).
      assert (E8 : firstn 8 A = s_charset).
      { assert (E1 : firstn 8 (A ++ name ++ rest) = firstn 8 (s_charset ++ r)).
        { f_equal. unfold A. rewrite <- app_assoc. exact S. }
        rewrite firstn_app in E1. replace (8 - length A)%nat with 0%nat in E1 by lia.
        rewrite firstn_O, app_nil_r in E1. rewrite E1. reflexivity. }
      assert (Eq : skipn 8 A = []).
      { apply (Hfirst [] (skipn 8 A)). change (A = s_charset ++ skipn 8 A). rewrite <- E8. symmetry. apply firstn_skipn. }
      assert (L := skipn_length 8 A). rewrite Eq in L. cbn [length] in L. lia.
Qed.

(* with a header mo_entry that declares a non-empty ASCII name, the loader's charset is that name if the oracle accepts it,
   ASCII otherwise *)
Theorem catalog_charset_declared : forall asc e c name,
  sort_key e = [] -> declares_charset (val_of e) name -> name <> [] -> forallb is_ascii name = true ->
  catalog_charset asc None (e :: c) = Some (if asc name then name else ascii_name).
Proof.
  intros asc e c name Hk Hd Hne Hasc. rewrite catalog_charset_spec. unfold choose_encoding.
  rewrite Hk, (find_charset_declared _ _ Hd Hne), Hasc. reflexivity.
Qed.

(* without a header mo_entry the charset is ASCII *)
Theorem catalog_charset_no_header : forall asc e c, sort_key e <> [] -> catalog_charset asc None (e :: c) = Some ascii_name.
Proof.
  intros asc e c Hk. rewrite catalog_charset_spec. unfold choose_encoding. destruct (sort_key e); [congruence|reflexivity].
Qed.

(* python-brace, generated tables: the facts the model's reading of the regular expressions relies on, and the
   no-foreign-exception theorem instantiated with the tables of the running interpreter. *)
From Coq Require Import List NArith ZArith Bool Lia.
From I18n Require Import Lib.Outcome Lib.Ranges Generated.Ucd Generated.PyConsts Generated.PyFmtInfo
  Model.FmtPerlBrace Model.FmtPyBrace Model.FmtPyBraceDomain Model.FmtInstances Spec.PerlBrace Proofs.PerlBrace Proofs.FmtPyBrace.
Import ListNotations.
Local Open Scope N_scope.

(* facts about the generated tables used below *)
Lemma rmem_rfind t : forall c, rmem t c = true -> rfind t c <> None.
Proof.
  induction t as [|l IHl lo hi r IHr]; intros c; cbn [rmem rfind]; [discriminate|].
  destruct (c <? lo); [apply IHl|]. destruct (c <=? hi); [discriminate|apply IHr].
Qed.

Lemma ucd_facts :
  re_d_tree = py_isdecimal_tree /\                              (* \d of re is str.isdecimal *)
  forallb py_isdecimal [48; 49; 50; 51; 52; 53; 54; 55; 56; 57] = true /\
  forallb (fun c => negb (re_w c)) [33; 58; 46; 91; 93; 123; 125; 44; 37; 60; 62; 61; 94; 43; 45; 32; 35] = true /\
  int_max_str_digits = 0 /\ gen_pybrace_ssize_max = pb_ssize_max_std.
Proof. vm_compute. repeat split; reflexivity. Qed.

(* the tables of the running interpreter satisfy the side conditions *)
Lemma gen_ucd_ok : ucd_ok gen_ucd.
Proof.
  destruct ucd_facts as [Htree [Hascii [_ [Hmaxd _]]]].
  constructor; cbn [u_maxd u_isdecimal u_d u_decval gen_ucd].
  - exact Hmaxd.
  - intros c Hc. unfold FmtPyBrace.is_ascii_digit in Hc. apply andb_prop in Hc. destruct Hc as [H1 H2].
    apply N.leb_le in H1, H2. rewrite forallb_forall in Hascii. apply Hascii.
    assert (c = 48 \/ c = 49 \/ c = 50 \/ c = 51 \/ c = 52 \/ c = 53 \/ c = 54 \/ c = 55 \/ c = 56 \/ c = 57) as Hc by lia.
    cbn [In]. intuition.
  - intros c Hc. unfold py_isdecimal. rewrite <- Htree. exact Hc.
  - intros c Hc. unfold re_d_value, rdecimal. unfold py_isdecimal in Hc. rewrite <- Htree in Hc.
    pose proof (rmem_rfind re_d_tree c Hc) as Hf. destruct (rfind re_d_tree c); [discriminate|congruence].
Qed.

Lemma own_errors_generated_tables : forall s c, pybrace_parse_gen s <> Crash c.
Proof. intros s c. unfold pybrace_parse_gen. apply pybrace_own_errors. exact gen_ucd_ok. Qed.

(* ---------------------------------------------------------------- perl-brace on the generated tables *)
Lemma ucd_braces_not_word : re_w 123 = false /\ re_w 125 = false.
Proof. vm_compute. split; reflexivity. Qed.

Lemma perl_ucd_instance : forall s,
  ((exists its, fst (perl_parse_ucd s) = Ok its) <-> (exists ns, perl_wf re_w re_d s ns)) /\
  (forall c, fst (perl_parse_ucd s) <> Crash c) /\
  (snd (perl_parse_ucd s) <= 2 * length s + 1)%nat.
Proof.
  intros s. destruct ucd_braces_not_word as [H1 H2]. split; [|split].
  - exact (perl_accept_iff re_w re_d H2 s).
  - exact (perl_own_errors re_w re_d s).
  - exact (perl_linear re_w re_d H1 s).
Qed.

(* ---------------------------------------------------------------- python-brace markup inclusion on the generated tables *)
From I18n Require Import Spec.CPyFormat Proofs.FmtPyBraceMarkup.

Lemma gen_ucd_chars : ucd_chars gen_ucd.
Proof.
  constructor; cbn [u_d u_w gen_ucd]; intros c H; unfold plain; repeat split; intros ->; vm_compute in H; discriminate.
Qed.

Lemma gen_accept_implies_markup : forall s sg,
  pybrace_parse_gen s = Ok sg -> nested_guard gen_ucd (S (length s)) s = true -> cpy_markup_ok s = true.
Proof. intros s sg. unfold pybrace_parse_gen. apply accept_implies_markup. exact gen_ucd_chars. Qed.

Lemma gen_reject_if_markup_rejects : forall s,
  cpy_markup_ok s = false -> nested_guard gen_ucd (S (length s)) s = true -> exists e, pybrace_parse_gen s = Err e.
Proof. intros s. unfold pybrace_parse_gen. apply reject_if_markup_rejects; [exact gen_ucd_chars|exact gen_ucd_ok]. Qed.

(* ---------------------------------------------------------------- typing rules vs CPython's format() on the generated tables *)
From I18n Require Import Proofs.FmtPyBraceSpec.

Lemma rfind_rmem t : forall c, rfind t c <> None -> rmem t c = true.
Proof.
  induction t as [|l IHl lo hi r IHr]; intros c; cbn [rmem rfind]; [congruence|].
  destruct (c <? lo); [apply IHl|]. destruct (c <=? hi); [reflexivity|apply IHr].
Qed.

Lemma gen_ucd_spec : ucd_spec gen_ucd gen_pybrace_ssize_max.
Proof.
  constructor.
  - exact gen_ucd_ok.
  - vm_compute. discriminate.
  - intros c. cbn [u_d u_decval gen_ucd]. unfold re_d, re_d_value, rdecimal. split.
    + intros H. pose proof (rmem_rfind re_d_tree c H) as Hf. destruct (rfind re_d_tree c); [discriminate|congruence].
    + intros H. apply rfind_rmem. destruct (rfind re_d_tree c); [discriminate|congruence].
  - intros c Hin. cbn [u_decval gen_ucd]. cbn [In known_types] in Hin.
    repeat (destruct Hin as [<-|Hin]; [vm_compute; reflexivity|]). destruct Hin.
  - split; vm_compute; reflexivity.
  - vm_compute. reflexivity.
Qed.

Lemma gen_spec_sound : forall ftext tl tp v,
  spec_types gen_ucd gen_pybrace_ssize_max ftext tl = Ok tp -> forallb not_brace tl = true -> spec_guard gen_ucd tl = true ->
  val_in v tp = true -> format_value re_d_value v tl = FSuccess.
Proof. exact (spec_sound gen_ucd gen_pybrace_ssize_max gen_ucd_spec). Qed.

(* ---------------------------------------------------------------- flat fields format, on the generated tables *)
From I18n Require Import Proofs.FmtPyBraceFlat.

Lemma gen_flat_formats : forall s sg args kw,
  pybrace_parse_gen s = Ok sg -> flat_guard gen_ucd (S (length s)) s = true -> args_match sg args kw ->
  cpy_format re_d_value s args kw = FSuccess.
Proof. intros s sg args kw. unfold pybrace_parse_gen. exact (flat_formats gen_ucd gen_pybrace_ssize_max gen_ucd_chars gen_ucd_spec s sg args kw). Qed.

Lemma gen_types_inhabited : forall s sg key tp n,
  pybrace_parse_gen s = Ok sg -> In (key, (tp, n)) (argument_map sg) -> exists v, val_in v tp = true.
Proof. intros s sg key tp n. unfold pybrace_parse_gen. exact (types_inhabited gen_ucd gen_pybrace_ssize_max s sg key tp n). Qed.

(* python-brace: accepted => Python's own parser (string.Formatter().parse, Spec/CPyFormat.v part A) accepts,
   provided no nested field has a brace inside its [index] (which is defect D16). *)
From Coq Require Import List NArith ZArith Bool Lia.
From I18n Require Import Lib.Outcome Model.FmtPyBrace Spec.CPyFormat Proofs.FmtPyBrace.
Import ListNotations.
Local Open Scope N_scope.

(* ---------------------------------------------------------------- the markup iterator, as equations *)
Definition mk (s : list N) : bool := snd (markup_loop (S (length s)) s).

Lemma span_until_app p s : fst (span_until p s) ++ snd (span_until p s) = s.
Proof.
  induction s as [|c r IH]; cbn [span_until]; [reflexivity|].
  destruct (p c); [reflexivity|]. destruct (span_until p r) as [a b]. cbn [fst snd app] in *. rewrite IH. reflexivity.
Qed.

Lemma span_until_head p s : match snd (span_until p s) with [] => True | c :: _ => p c = true end.
Proof.
  induction s as [|c r IH]; cbn [span_until]; [exact I|].
  destruct (p c) eqn:E; [exact E|]. destruct (span_until p r) as [a b]. exact IH.
Qed.

Lemma scan_spec_len s : forall k acc ex sp ex' r, scan_spec s k acc ex = Some (sp, ex', r) -> (length r < length s)%nat.
Proof.
  induction s as [|c t IH]; intros k acc ex sp ex' r; cbn [scan_spec]; [discriminate|].
  destruct (c =? 123); [intros H; apply IH in H; cbn [length]; lia|].
  destruct (c =? 125).
  - destruct k as [|[|k]]; try (intros H; inversion H; subst; cbn [length]; lia). intros H; apply IH in H; cbn [length]; lia.
  - intros H; apply IH in H; cbn [length]; lia.
Qed.

Lemma scan_name_len s : forall b acc n c r, scan_name s b acc = Some (n, c, r) -> (length r < length s)%nat.
Proof.
  induction s as [|x t IH]; intros b acc n c r; cbn [scan_name]; [discriminate|].
  destruct b; [intros H; apply IH in H; cbn [length]; lia|].
  destruct (x =? 123); [discriminate|]. destruct (x =? 91); [intros H; apply IH in H; cbn [length]; lia|].
  destruct ((x =? 125) || (x =? 58) || (x =? 33)); [intros H; inversion H; subst; cbn [length]; lia|].
  intros H; apply IH in H; cbn [length]; lia.
Qed.

Lemma parse_field_len s f r : parse_field s = Some (f, r) -> (length r < length s)%nat.
Proof.
  unfold parse_field. destruct (scan_name s false []) as [[[name c] r0]|] eqn:En; [|discriminate].
  apply scan_name_len in En. destruct (c =? 125); [intros H; inversion H; subst; exact En|].
  destruct (c =? 33).
  - destruct r0 as [|cv r1]; [discriminate|]. destruct r1 as [|c1 r2].
    + cbn [scan_spec]. discriminate.
    + destruct (c1 =? 125); [intros H; inversion H; subst; cbn [length] in *; lia|].
      destruct (c1 =? 58); [|discriminate].
      destruct (scan_spec r2 1 [] false) as [[[sp ex] r3]|] eqn:Es; [|discriminate]. apply scan_spec_len in Es.
      intros H; inversion H; subst. cbn [length] in *. lia.
  - destruct (scan_spec r0 1 [] false) as [[[sp ex] r3]|] eqn:Es; [|discriminate]. apply scan_spec_len in Es.
    intros H; inversion H; subst. lia.
Qed.

(* more fuel than the length changes nothing *)
Lemma markup_fuel n : forall s fuel, (length s <= n)%nat -> (length s < fuel)%nat ->
  snd (markup_loop fuel s) = mk s.
Proof.
  induction n as [|n IH]; intros s fuel Hn Hf.
  - destruct s; [|cbn in Hn; lia]. destruct fuel; [lia|]. reflexivity.
  - destruct fuel as [|fuel]; [lia|]. unfold mk. cbn [markup_loop]. destruct s as [|c0 s0]; [reflexivity|].
    pose proof (span_until_app is_brace (c0 :: s0)) as Happ.
    destruct (span_until is_brace (c0 :: s0)) as [lit r]. cbn [fst snd] in Happ.
    destruct r as [|c r1]; [reflexivity|]. destruct r1 as [|c1 r2]; [reflexivity|].
    assert (Hlen : (length (c :: c1 :: r2) <= length (c0 :: s0))%nat) by (rewrite <- Happ, app_length; lia).
    cbn [length] in *.
    destruct (c1 =? c).
    + rewrite (surjective_pairing (markup_loop fuel r2)), (surjective_pairing (markup_loop (S (length s0)) r2)). cbn [snd].
      rewrite (IH r2 fuel) by lia. rewrite (IH r2 (S (length s0))) by lia. reflexivity.
    + destruct (c =? 125); [reflexivity|].
      destruct (parse_field (c1 :: r2)) as [[f r3]|] eqn:Ep; [|reflexivity]. apply parse_field_len in Ep. cbn [length] in Ep.
      rewrite (surjective_pairing (markup_loop fuel r3)), (surjective_pairing (markup_loop (S (length s0)) r3)). cbn [snd].
      rewrite (IH r3 fuel) by lia. rewrite (IH r3 (S (length s0))) by lia. reflexivity.
Qed.

Lemma mk_fuel s fuel : (length s < fuel)%nat -> snd (markup_loop fuel s) = mk s.
Proof. apply (markup_fuel (length s)). lia. Qed.

Lemma mk_nil : mk [] = true.
Proof. reflexivity. Qed.

Lemma is_brace_not c : is_brace c = negb (not_brace c).
Proof. unfold is_brace, not_brace. rewrite negb_involutive. reflexivity. Qed.

Definition mk_cont (r : list N) : bool :=
  match r with
  | [] => true
  | c :: r1 =>
    match r1 with
    | [] => false
    | c1 :: r2 =>
      if c1 =? c then mk r2
      else if c =? 125 then false
      else match parse_field r1 with Some (_, r3) => mk r3 | None => false end
    end
  end.

(* one step of the iterator *)
Lemma mk_step c0 s0 : mk (c0 :: s0) = mk_cont (snd (span_until is_brace (c0 :: s0))).
Proof.
  unfold mk at 1. cbn [markup_loop].
  pose proof (span_until_app is_brace (c0 :: s0)) as Happ.
  destruct (span_until is_brace (c0 :: s0)) as [lit r]. cbn [fst snd] in *. unfold mk_cont.
  destruct r as [|c r1]; [reflexivity|]. destruct r1 as [|c1 r2]; [reflexivity|].
  assert (Hlen : (length (c :: c1 :: r2) <= length (c0 :: s0))%nat) by (rewrite <- Happ, app_length; lia).
  cbn [length] in Hlen.
  destruct (c1 =? c).
  - rewrite (surjective_pairing (markup_loop (length (c0 :: s0)) r2)). cbn [snd]. apply mk_fuel. cbn [length]. lia.
  - destruct (c =? 125); [reflexivity|].
    destruct (parse_field (c1 :: r2)) as [[f r3]|] eqn:Ep; [|reflexivity]. apply parse_field_len in Ep. cbn [length] in Ep.
    rewrite (surjective_pairing (markup_loop (length (c0 :: s0)) r3)). cbn [snd]. apply mk_fuel. cbn [length]. lia.
Qed.

Lemma mk_nonbrace c r : not_brace c = true -> mk (c :: r) = mk r.
Proof.
  intros Hc. rewrite mk_step. cbn [span_until]. rewrite is_brace_not, Hc. cbn [negb].
  destruct r as [|x r']; [reflexivity|]. rewrite (mk_step x r').
  destruct (span_until is_brace (x :: r')) as [lit r0]. reflexivity.
Qed.

Lemma mk_double c r : not_brace c = false -> mk (c :: c :: r) = mk r.
Proof.
  intros Hc. rewrite mk_step. cbn [span_until]. rewrite is_brace_not, Hc. cbn [negb snd mk_cont].
  rewrite N.eqb_refl. reflexivity.
Qed.

Lemma mk_field c1 r2 : (c1 =? 123) = false ->
  mk (123 :: c1 :: r2) = match parse_field (c1 :: r2) with Some (_, r3) => mk r3 | None => false end.
Proof.
  intros Hc. rewrite mk_step. cbn [span_until]. replace (is_brace 123) with true by reflexivity. cbn [snd mk_cont].
  rewrite Hc. replace (123 =? 125) with false by reflexivity. reflexivity.
Qed.

(* the literal alternative of _field_re is skipped by the iterator *)
Lemma mk_literal n : forall s, (length s <= n)%nat -> mk s = mk (snd (m_literal s)).
Proof.
  induction n as [|n IH]; intros s Hl.
  - destruct s; [reflexivity|cbn in Hl; lia].
  - destruct s as [|c r]; [reflexivity|]. cbn [m_literal length] in *.
    destruct (not_brace c) eqn:Ec.
    + rewrite (mk_nonbrace c r Ec). rewrite (IH r) by lia. destruct (m_literal r). reflexivity.
    + destruct r as [|c' r']; [reflexivity|]. destruct (N.eqb_spec c' c) as [->|]; [|reflexivity].
      rewrite (mk_double c r' Ec). cbn [length] in Hl. rewrite (IH r') by lia. destruct (m_literal r'). reflexivity.
Qed.

Lemma span_stop p s : match snd (span p s) with [] => True | c :: _ => p c = false end.
Proof.
  induction s as [|c r IH]; cbn [span]; [exact I|].
  destruct (p c) eqn:E; [|exact E]. destruct (span p r) as [a b]. exact IH.
Qed.

(* ---------------------------------------------------------------- field names pass parse_field's scan *)
Section Fields.
Variable U : ucd.
Variable M : Z.

(* facts about the character tables (Props/C13.v: C13_ucd_facts) *)
Definition plain (c : N) : Prop := c <> 123 /\ c <> 125 /\ c <> 58 /\ c <> 33 /\ c <> 91.      (* not { } : ! [ *)
Record ucd_chars : Prop := {
  uc_d : forall c, u_d U c = true -> plain c;
  uc_w : forall c, u_w U c = true -> plain c }.
Hypothesis Hch : ucd_chars.

Lemma scan_plain l : Forall plain l -> forall tl acc, exists acc', scan_name (l ++ tl) false acc = scan_name tl false acc'.
Proof.
  induction 1 as [|c l [H1 [H2 [H3 [H4 H5]]]] Hl IH]; intros tl acc; cbn [app]; [eauto|].
  cbn [scan_name]. apply N.eqb_neq in H1, H2, H3, H4, H5. rewrite H1, H2, H3, H4, H5. cbn [orb]. apply IH.
Qed.

Lemma scan_bracket ix : Forall (fun x => negb (x =? 93) = true) ix -> forall tl acc,
  exists acc', scan_name (ix ++ 93 :: tl) true acc = scan_name tl false acc'.
Proof.
  induction 1 as [|c l Hc Hl IH]; intros tl acc; cbn [app scan_name].
  - cbn. eauto.
  - rewrite Hc. apply IH.
Qed.

Lemma forallb_Forall {A} (p : A -> bool) l : forallb p l = true -> Forall (fun x => p x = true) l.
Proof. induction l; cbn [forallb]; [constructor|]. rewrite andb_true_iff. intros [? ?]. constructor; auto. Qed.

Lemma w_plain l : forallb (u_w U) l = true -> Forall plain l.
Proof. intros H. apply forallb_Forall in H. eapply Forall_impl; [|exact H]. intros c Hc. exact (uc_w Hch c Hc). Qed.

Lemma m_ident_scan s id r : m_ident U s = Some (id, r) -> s = id ++ r /\ Forall plain id.
Proof.
  unfold m_ident. destruct s as [|c t]; [discriminate|]. destruct (ident_start U c) eqn:Ei; [|discriminate].
  pose proof (span_app (u_w U) t) as Ha. pose proof (span_forall (u_w U) t) as Hf.
  destruct (span (u_w U) t) as [w r']. cbn [fst snd] in *. intros H; inversion H; subst.
  split; [reflexivity|]. unfold ident_start in Ei. apply andb_prop in Ei. destruct Ei as [Ew _].
  constructor; [exact (uc_w Hch c Ew)|apply w_plain; exact Hf].
Qed.

Lemma name_tail_scan fuel : forall s t r, m_name_tail U fuel s = (t, r) ->
  s = t ++ r /\ forall tl acc, exists acc', scan_name (t ++ tl) false acc = scan_name tl false acc'.
Proof.
  induction fuel as [|fuel IH]; intros s t r; cbn [m_name_tail].
  - intros H; inversion H; subst. split; [reflexivity|]. intros; cbn; eauto.
  - destruct s as [|c s0]; [intros H; inversion H; subst; split; [reflexivity|intros; cbn; eauto]|].
    destruct (N.eqb_spec c 46) as [->|H46].
    + destruct (m_ident U s0) as [[id r']|] eqn:Ei; [|intros H; inversion H; subst; split; [reflexivity|intros; cbn; eauto]].
      apply m_ident_scan in Ei. destruct Ei as [-> Hid].
      destruct (m_name_tail U fuel r') as [t' r''] eqn:Et. apply IH in Et. destruct Et as [-> Hs].
      intros H; inversion H; subst. split; [cbn [app]; rewrite <- !app_assoc; reflexivity|].
      intros tl acc. cbn [app scan_name]. cbn [N.eqb Pos.eqb orb]. rewrite <- app_assoc.
      destruct (scan_plain id Hid (t' ++ tl) (46 :: acc)) as [a1 E1]. rewrite E1. apply Hs.
    + destruct (N.eqb_spec c 91) as [->|H91]; [|intros H; inversion H; subst; split; [reflexivity|intros; cbn; eauto]].
      pose proof (span_app (fun x => negb (x =? 93)) s0) as Ha. pose proof (span_forall (fun x => negb (x =? 93)) s0) as Hf.
      destruct (span (fun x => negb (x =? 93)) s0) as [ix r'] eqn:Esp. cbn [fst snd] in *.
      destruct ix as [|i0 ix]; [intros H; inversion H; subst; split; [reflexivity|intros; cbn; eauto]|].
      destruct r' as [|c' r'']; [intros H; inversion H; subst; split; [reflexivity|intros; cbn; eauto]|].
      pose proof (span_stop (fun x => negb (x =? 93)) s0) as Hst. rewrite Esp in Hst. cbn [snd] in Hst.
      assert (Hc' : c' = 93) by (destruct (N.eqb_spec c' 93); [assumption|discriminate]). subst c'.
      destruct (m_name_tail U fuel r'') as [t' r3] eqn:Et. apply IH in Et. destruct Et as [-> Hs].
      intros H; inversion H; subst. split; [cbn [app]; rewrite <- ?app_assoc; reflexivity|].
      intros tl acc. cbn [app]. rewrite <- app_assoc. cbn [app].
      change (scan_name (91 :: i0 :: ix ++ 93 :: t' ++ tl) false acc) with (scan_name ((i0 :: ix) ++ 93 :: t' ++ tl) true (91 :: acc)).
      destruct (scan_bracket (i0 :: ix) (forallb_Forall _ _ Hf) (t' ++ tl) (91 :: acc)) as [a1 E1].
      rewrite E1. apply Hs.
Qed.

Lemma field_name_scan s n r : m_field_name U s = Some (n, r) ->
  s = n ++ r /\ forall tl acc, exists acc', scan_name (n ++ tl) false acc = scan_name tl false acc'.
Proof.
  unfold m_field_name. destruct s as [|c t]; [discriminate|].
  destruct (u_d U c).
  - pose proof (span_app (u_d U) (c :: t)) as Ha. pose proof (span_forall (u_d U) (c :: t)) as Hf.
    destruct (span (u_d U) (c :: t)) as [ds r0]. cbn [fst snd] in *.
    destruct (m_name_tail U (length r0) r0) as [tl0 r'] eqn:Et. apply name_tail_scan in Et. destruct Et as [-> Hs].
    intros H; inversion H; subst. split; [rewrite <- Ha, app_assoc; reflexivity|].
    intros tl acc. rewrite <- app_assoc.
    assert (Hp : Forall plain ds).
    { apply forallb_Forall in Hf. eapply Forall_impl; [|exact Hf]. intros x Hx. apply (uc_d Hch). exact Hx. }
    destruct (scan_plain ds Hp (tl0 ++ tl) acc) as [a1 E1]. rewrite E1. apply Hs.
  - destruct (m_ident U (c :: t)) as [[id r0]|] eqn:Ei; [|discriminate]. apply m_ident_scan in Ei. destruct Ei as [Hi Hp].
    destruct (m_name_tail U (length r0) r0) as [tl0 r'] eqn:Et. apply name_tail_scan in Et. destruct Et as [-> Hs].
    intros H; inversion H; subst. split; [rewrite Hi, app_assoc; reflexivity|].
    intros tl acc. rewrite <- app_assoc.
    destruct (scan_plain id Hp (tl0 ++ tl) acc) as [a1 E1]. rewrite E1. apply Hs.
Qed.

(* ---------------------------------------------------------------- format specs pass the brace count *)
Definition nested_name_ok (o : option (list N)) : bool :=
  match o with Some n => forallb not_brace n | None => true end.

Lemma scan_spec_plain l : forallb not_brace l = true -> forall tl k acc ex,
  exists acc', scan_spec (l ++ tl) k acc ex = scan_spec tl k acc' ex.
Proof.
  induction l as [|c l IH]; cbn [forallb app]; intros H tl k acc ex; [eauto|].
  apply andb_prop in H. destruct H as [Hc Hl]. cbn [scan_spec].
  unfold not_brace in Hc. apply negb_true_iff in Hc. apply orb_false_elim in Hc. destruct Hc as [H1 H2].
  rewrite H1, H2. apply IH. exact Hl.
Qed.

Lemma simple_field_text s nm r : m_simple_field U s = Some (nm, r) ->
  s = 123 :: (match nm with Some n => n | None => [] end) ++ 125 :: r.
Proof.
  unfold m_simple_field. destruct s as [|c t]; [discriminate|]. destruct (N.eqb_spec c 123) as [->|]; [|discriminate].
  destruct (m_field_name U t) as [[n r']|] eqn:En.
  - apply field_name_scan in En. destruct En as [-> _].
    destruct r' as [|c1 r2]; [discriminate|]. destruct (N.eqb_spec c1 125) as [->|]; [|discriminate].
    intros H; inversion H; subst. reflexivity.
  - destruct t as [|c1 r2]; [discriminate|]. destruct (N.eqb_spec c1 125) as [->|]; [|discriminate].
    intros H; inversion H; subst. reflexivity.
Qed.

Lemma firstn_prefix (p q : list N) : firstn (length (p ++ q) - length q) (p ++ q) = p.
Proof.
  rewrite app_length. replace (length p + length q - length q)%nat with (length p + 0)%nat by lia.
  rewrite firstn_app_2. cbn [firstn]. apply app_nil_r.
Qed.

Lemma body_text fuel : forall s t ns r, m_format_body U fuel s = Some (t, ns, r) -> s = t ++ r.
Proof.
  induction fuel as [|fuel IH]; intros s t ns r; cbn [m_format_body]; [discriminate|].
  pose proof (span_app not_brace s) as Ha. destruct (span not_brace s) as [run r0]. cbn [fst snd] in *.
  destruct r0 as [|c r1]; [intros H; injection H as <- <- <-; symmetry; exact Ha|].
  destruct (N.eqb_spec c 123) as [->|Hc]; [|intros H; injection H as <- <- <-; symmetry; exact Ha].
  destruct (m_simple_field U (123 :: r1)) as [[nm r']|] eqn:Es; [|discriminate].
  pose proof (simple_field_text _ _ _ Es) as Htxt.
  destruct (m_format_body U fuel r') as [[[t' ns'] r'']|] eqn:Eb; [|discriminate]. apply IH in Eb.
  intros H; injection H as <- <- <-.
  change (match length r' with 0 => S (length r1) | S l => length r1 - l end)%nat with (length (123%N :: r1) - length r')%nat.
  set (nt := match nm with Some n => n | None => [] end) in *.
  assert (Hfirst : firstn (length (123 :: r1) - length r') (123 :: r1) = 123 :: nt ++ [125]).
  { rewrite Htxt. replace (123 :: nt ++ 125 :: r') with ((123 :: nt ++ [125]) ++ r') by (cbn [app]; rewrite <- app_assoc; reflexivity).
    apply firstn_prefix. }
  rewrite Hfirst. rewrite <- Ha, Htxt, Eb. cbn [app]. rewrite <- !app_assoc. cbn [app]. rewrite <- !app_assoc. reflexivity.
Qed.

Lemma body_scan fuel : forall s t ns r, m_format_body U fuel s = Some (t, ns, r) ->
  forallb nested_name_ok ns = true ->
  s = t ++ r /\ (match r with [] => True | c :: _ => c = 125 end) /\
  forall k tl acc ex, exists acc' ex', scan_spec (t ++ tl) (S k) acc ex = scan_spec tl (S k) acc' ex'.
Proof.
  induction fuel as [|fuel IH]; intros s t ns r; cbn [m_format_body]; [discriminate|].
  pose proof (span_app not_brace s) as Ha. pose proof (span_forall not_brace s) as Hf. pose proof (span_stop not_brace s) as Hst.
  destruct (span not_brace s) as [run r0]. cbn [fst snd] in *.
  destruct r0 as [|c r1].
  - intros H _; inversion H; subst t ns r; clear H. split; [symmetry; exact Ha|]. split; [exact I|].
    intros k tl acc ex. destruct (scan_spec_plain run Hf tl (S k) acc ex) as [a E]. eauto.
  - destruct (N.eqb_spec c 123) as [->|Hc].
    + destruct (m_simple_field U (123 :: r1)) as [[nm r']|] eqn:Es; [|discriminate].
      pose proof (simple_field_text _ _ _ Es) as Htxt.
      destruct (m_format_body U fuel r') as [[[t' ns'] r'']|] eqn:Eb; [|discriminate].
      intros H Hg; injection H as <- <- <-. cbn [forallb] in Hg. apply andb_prop in Hg. destruct Hg as [Hnm Hns].
      destruct (IH _ _ _ _ Eb Hns) as [Hr' [Hhd Hsc]].
      set (nt := match nm with Some n => n | None => [] end) in *.
      assert (Hfirst : firstn (length (123 :: r1) - length r') (123 :: r1) = 123 :: nt ++ [125]).
      { rewrite Htxt. replace (123 :: nt ++ 125 :: r') with ((123 :: nt ++ [125]) ++ r') by (cbn [app]; rewrite <- app_assoc; reflexivity).
        apply firstn_prefix. }
      change (match length r' with 0 => S (length r1) | S l => length r1 - l end)%nat with (length (123%N :: r1) - length r')%nat.
      rewrite Hfirst.
      assert (Hnt : forallb not_brace nt = true) by (unfold nt; destruct nm; [exact Hnm|reflexivity]).
      split; [|split; [exact Hhd|]].
      * rewrite <- Ha, Htxt, Hr'. cbn [app]. rewrite <- !app_assoc. cbn [app]. rewrite <- !app_assoc. reflexivity.
      * intros k tl acc ex. rewrite <- !app_assoc. cbn [app]. rewrite <- !app_assoc. cbn [app].
        destruct (scan_spec_plain run Hf (123 :: nt ++ 125 :: t' ++ tl) (S k) acc ex) as [a1 E1]. rewrite E1.
        cbn [scan_spec]. cbn [N.eqb Pos.eqb].
        destruct (scan_spec_plain nt Hnt (125 :: t' ++ tl) (S (S k)) (123 :: a1) true) as [a2 E2]. rewrite E2.
        cbn [scan_spec]. cbn [N.eqb Pos.eqb]. apply Hsc.
    + intros H _; inversion H; subst t ns r; clear H. split; [symmetry; exact Ha|]. split.
      * unfold not_brace in Hst. apply negb_false_iff in Hst. apply orb_prop in Hst.
        destruct Hst as [Hx|Hx]; apply N.eqb_eq in Hx; congruence.
      * intros k tl acc ex. destruct (scan_spec_plain run Hf tl (S k) acc ex) as [a E]. eauto.
Qed.

(* ---------------------------------------------------------------- a field matched by _field_re is a field for parse_field *)
Definition conv_ok (cv : option (list N)) : Prop := cv = None \/ exists x, cv = Some [33; x].

Lemma scan_name_term c r acc : (c =? 125) || (c =? 58) || (c =? 33) = true -> scan_name (c :: r) false acc = Some (rev acc, c, r).
Proof.
  intros H. cbn [scan_name].
  assert (H1 : (c =? 123) = false) by (destruct (N.eqb_spec c 123); [subst; discriminate|reflexivity]).
  assert (H2 : (c =? 91) = false) by (destruct (N.eqb_spec c 91); [subst; discriminate|reflexivity]).
  rewrite H1, H2, H. reflexivity.
Qed.

Lemma m_field_parse r f r4 : m_field U (123 :: r) = Some (f, r4) -> conv_ok (f_conv f) ->
  forallb nested_name_ok (f_nested f) = true -> exists f', parse_field r = Some (f', r4).
Proof.
  unfold m_field. replace (123 =? 123) with true by reflexivity.
  (* name *)
  assert (Hn : exists nt, r = nt ++ snd (match m_field_name U r with Some (n, r') => (Some n, r') | None => (None, r) end) /\
               forall tl acc, exists acc', scan_name (nt ++ tl) false acc = scan_name tl false acc').
  { destruct (m_field_name U r) as [[n r']|] eqn:En.
    - apply field_name_scan in En. destruct En as [E Hs]. exists n. split; [exact E|exact Hs].
    - exists []. split; [reflexivity|]. intros; cbn; eauto. }
  destruct (match m_field_name U r with Some (n, r') => (Some n, r') | None => (None, r) end) as [nm r1].
  cbn [snd] in Hn. destruct Hn as [nt [Hr Hscan]].
  (* conversion *)
  set (cvr := match r1 with
              | c1 :: r1' => if c1 =? 33 then match span (u_w U) r1' with ((_ :: _) as w, r') => (Some (c1 :: w), r') | _ => (None, r1) end else (None, r1)
              | [] => (None, r1) end).
  assert (Hc : (fst cvr = None /\ snd cvr = r1) \/ (exists w, w <> [] /\ fst cvr = Some (33 :: w) /\ r1 = 33 :: w ++ snd cvr)).
  { unfold cvr. destruct r1 as [|c1 r1']; [left; split; reflexivity|].
    destruct (N.eqb_spec c1 33) as [->|]; [|left; split; reflexivity].
    pose proof (span_app (u_w U) r1') as Ha. destruct (span (u_w U) r1') as [[|w0 w] r']; cbn [fst snd] in *; [left; split; reflexivity|].
    right. exists (w0 :: w). split; [discriminate|]. split; [reflexivity|]. rewrite <- Ha. reflexivity. }
  destruct cvr as [cv r2]. cbn [fst snd] in Hc.
  (* format *)
  set (fmr := match r2 with
              | c2 :: r2' => if c2 =? 58 then match m_format_body U (S (length r2')) r2' with Some (t0, ns, r') => (Some (c2 :: t0), ns, r') | None => (None, [], r2) end else (None, [], r2)
              | [] => (None, [], r2) end).
  assert (Hf : (fst (fst fmr) = None /\ snd fmr = r2) \/
               (exists t0, r2 = 58 :: t0 ++ snd fmr /\ (forallb nested_name_ok (snd (fst fmr)) = true ->
                  forall k tl acc ex, exists acc' ex', scan_spec (t0 ++ tl) (S k) acc ex = scan_spec tl (S k) acc' ex'))).
  { unfold fmr. destruct r2 as [|c2 r2']; [left; split; reflexivity|].
    destruct (N.eqb_spec c2 58) as [->|]; [|left; split; reflexivity].
    destruct (m_format_body U (S (length r2')) r2') as [[[t0 ns] r']|] eqn:Eb; [|left; split; reflexivity].
    right. exists t0. cbn [fst snd]. split.
    - rewrite (body_text _ _ _ _ _ Eb). reflexivity.
    - intros Hg. destruct (body_scan _ _ _ _ _ Eb Hg) as [_ [_ Hs]]. exact Hs. }
  destruct fmr as [[fm ns] r3]. cbn [fst snd] in Hf.
  destruct r3 as [|c3 r4']; [discriminate|]. destruct (N.eqb_spec c3 125) as [->|]; [|discriminate].
  intros H; injection H as <- <-. cbn [f_conv f_nested]. intros Hcv Hg.
  unfold parse_field. destruct (Hscan r1 []) as [a0 E0]. rewrite Hr, E0.
  destruct Hc as [[-> ->]|[w [Hw [-> Hr1]]]].
  - (* no conversion *)
    destruct Hf as [[_ <-]|[t0 [-> Hs]]].
    + rewrite scan_name_term by reflexivity. cbn [N.eqb Pos.eqb]. eexists. reflexivity.
    + rewrite scan_name_term by reflexivity. cbn [N.eqb Pos.eqb].
      destruct (Hs Hg 0%nat (125 :: r4') [] false) as [a1 [e1 E1]].
      rewrite E1. cbn [scan_spec N.eqb Pos.eqb]. eexists. reflexivity.
  - (* !x *)
    destruct Hcv as [Hcv|[x Hcv]]; [discriminate|]. injection Hcv as ->. rewrite Hr1. cbn [app].
    rewrite scan_name_term by reflexivity. cbn [N.eqb Pos.eqb].
    destruct Hf as [[_ <-]|[t0 [-> Hs]]].
    + cbn [N.eqb Pos.eqb]. eexists. reflexivity.
    + cbn [N.eqb Pos.eqb].
      destruct (Hs Hg 0%nat (125 :: r4') [] false) as [a1 [e1 E1]].
      rewrite E1. cbn [scan_spec N.eqb Pos.eqb]. eexists. reflexivity.
Qed.

(* ---------------------------------------------------------------- the whole string *)
Lemma pb_list_eqb_eq a : forall b, FmtPyBrace.list_eqb a b = true -> a = b.
Proof.
  induction a as [|x a IH]; intros [|y b]; cbn [FmtPyBrace.list_eqb]; try discriminate; [reflexivity|].
  rewrite andb_true_iff. intros [H1 H2]. apply N.eqb_eq in H1. f_equal; auto.
Qed.

Lemma conv_check_ok cv tp : conv_check cv tp = Ok tt -> conv_ok cv.
Proof.
  unfold conv_check, conv_ok. destruct cv as [c|]; [|auto]. right.
  destruct (FmtPyBrace.list_eqb c s_conv_s) eqn:E1; [apply pb_list_eqb_eq in E1; subst; eexists; reflexivity|].
  destruct (FmtPyBrace.list_eqb c s_conv_r) eqn:E2; [apply pb_list_eqb_eq in E2; subst; eexists; reflexivity|].
  destruct (FmtPyBrace.list_eqb c s_conv_a) eqn:E3; [apply pb_list_eqb_eq in E3; subst; eexists; reflexivity|].
  cbn [orb] in H. discriminate.
Qed.

Lemma field_init_conv st f st' : field_init U M st f = Ok st' -> conv_ok (f_conv f).
Proof.
  unfold field_init. destruct (lift_add (add_argument U M st (f_name f))) as [[key st1]| |]; cbn [obind]; try discriminate.
  destruct (f_fmt f) as [fmt|].
  - destruct (existsb (N.eqb 123) fmt).
    + destruct (add_nested U M (file_field st1 key (FField t_all)) (f_nested f)); cbn [obind]; try discriminate.
      destruct (conv_check (f_conv f) t_all) as [[]| |] eqn:Ec; cbn [obind]; try discriminate. intros _. eapply conv_check_ok; exact Ec.
    + destruct fmt as [|c tl]; [discriminate|]. destruct (c =? 58); [|discriminate].
      destruct (spec_types U M (f_text f) tl) as [tp| |]; cbn [obind]; try discriminate.
      destruct (conv_check (f_conv f) tp) as [[]| |] eqn:Ec; cbn [obind]; try discriminate. intros _. eapply conv_check_ok; exact Ec.
  - destruct (conv_check (f_conv f) t_all) as [[]| |] eqn:Ec; cbn [obind]; try discriminate. intros _. eapply conv_check_ok; exact Ec.
Qed.

(* the guard that excludes D16: no nested field has a brace in its name (i.e. inside an [index]) *)
Fixpoint nested_guard (fuel : nat) (s : list N) : bool :=
  match fuel with
  | O => true
  | S fuel' =>
    match s with
    | [] => true
    | _ :: _ =>
      match m_field_re U s with
      | Some (BLit _, rest) => nested_guard fuel' rest
      | Some (BField f, rest) => forallb nested_name_ok (f_nested f) && nested_guard fuel' rest
      | None => true
      end
    end
  end.

Lemma bloop_markup fuel : forall s st fin, (length s < fuel)%nat ->
  bloop U M fuel s st = Ok fin -> nested_guard fuel s = true -> mk s = true.
Proof.
  induction fuel as [|fuel IH]; intros s st fin Hl; [lia|]. cbn [bloop nested_guard].
  destruct s as [|c r]; [reflexivity|].
  destruct (m_field_re U (c :: r)) as [[it rest]|] eqn:Em.
  2:{ unfold printable_prefix. destruct (fst (FmtPyBrace.span is_printable_ascii (c :: r))); discriminate. }
  pose proof (m_field_re_some U _ _ _ Em) as [Hlen _].
  unfold m_field_re in Em. pose proof (mk_literal (length (c :: r)) (c :: r) (le_n _)) as Hlit.
  destruct (m_literal (c :: r)) as [[|t0 t] r0] eqn:El; cbn [snd] in Hlit.
  - (* a field *)
    destruct (m_field U (c :: r)) as [[f r4]|] eqn:Ef; [|discriminate]. injection Em as <- <-.
    destruct (field_init U M st f) as [st'| |] eqn:Efi; cbn [obind]; try discriminate.
    intros Hb Hg. apply andb_prop in Hg. destruct Hg as [Hg1 Hg2].
    assert (Hc : c = 123).
    { unfold m_field in Ef. destruct (N.eqb_spec c 123); [assumption|discriminate]. }
    subst c.
    destruct r as [|c1 r2].
    { unfold m_field in Ef. cbn in Ef. discriminate. }
    assert (Hc1 : (c1 =? 123) = false).
    { cbn [m_literal] in El. replace (not_brace 123) with false in El by reflexivity.
      destruct (c1 =? 123); [|reflexivity]. destruct (m_literal r2). discriminate. }
    rewrite (mk_field c1 r2 Hc1).
    destruct (m_field_parse (c1 :: r2) f r4 Ef (field_init_conv _ _ _ Efi) Hg1) as [f' Ep]. rewrite Ep.
    apply (IH r4 st' fin); [cbn [length] in *; lia|exact Hb|exact Hg2].
  - (* a literal run *)
    injection Em as <- <-. intros Hb Hg. rewrite Hlit. apply (IH r0 st fin); [lia|exact Hb|exact Hg].
Qed.

Theorem accept_implies_markup s sg :
  pybrace_parse U M s = Ok sg -> nested_guard (S (length s)) s = true -> cpy_markup_ok s = true.
Proof.
  unfold pybrace_parse. destruct (bloop U M (S (length s)) s b0) as [st| |] eqn:Eb; cbn [obind]; try discriminate.
  intros _ Hg. exact (bloop_markup (S (length s)) s b0 st (Nat.lt_succ_diag_r _) Eb Hg).
Qed.

(* Python rejects => the parser does not accept (under the same guard) *)
Corollary markup_reject_not_accept s : cpy_markup_ok s = false -> nested_guard (S (length s)) s = true ->
  forall sg, pybrace_parse U M s <> Ok sg.
Proof. intros Hm Hg sg Hp. rewrite (accept_implies_markup s sg Hp Hg) in Hm. discriminate. Qed.
End Fields.

(* Python rejects, the guard holds => the parser's own error *)
Theorem reject_if_markup_rejects U M : ucd_chars U -> ucd_ok U -> forall s,
  cpy_markup_ok s = false -> nested_guard U (S (length s)) s = true -> exists e, pybrace_parse U M s = Err e.
Proof.
  intros Hc Hok s Hm Hg. destruct (pybrace_parse U M s) as [sg|e|c] eqn:Ep.
  - exfalso. exact (markup_reject_not_accept U M Hc s Hm Hg sg Ep).
  - eauto.
  - exfalso. exact (pybrace_own_errors U M Hok s c Ep).
Qed.

(* Source tie for C11 (notes/SRC14.md), second part: Conversion.__init__ = conversion_init. *)
From Coq Require Import List NArith ZArith Bool Lia.
From I18n Require Import Lib.Outcome Lib.CFmtSyntax Generated.CInfo Model.FmtC Model.FmtCPy Generated.FmtCSrc Proofs.FmtCSrc.
Import ListNotations.
Local Open Scope Z_scope.
(* a proof that diverges after an edit of the translated code must fail, not hang the check *)
Set Default Timeout 120.

Ltac split_ifs :=
  repeat match goal with
         | |- context [if ?c then _ else _] => destruct c eqn:?
         | |- context [match assoc ?k ?t with Some _ => _ | None => _ end] => destruct (assoc k t) as [[? ?]|] eqn:?
         end.

Lemma str_or_nil : forall p, str_or p [] = p.
Proof. destruct p; reflexivity. Qed.
Lemma ostr_or_nil : forall p, ostr_or (Some p) [] = p.
Proof. destruct p; reflexivity. Qed.

(* length modifier x conversion -> type (first top-level `if` of Conversion.__init__) *)
Lemma s1_eq : forall w s b,
  src_conversion_init_s1 w s (g_c99conv b) (g_c99len b) (g_length b) (g_conv b) tt false
  = emb (do t <- step_type b; let '(otp, integer, cv, np) := t in
         Ok (w ++ map (fun ab => WNonPortable s (fst ab) (snd ab)) np, g_c99conv b, g_c99len b, g_length b, [cv], otp, integer)).
Proof.
  intros w s [len cv|cv len].
  - unfold src_conversion_init_s1, step_type. cbn [g_c99conv g_c99len g_length g_conv]. cbv beta iota zeta.
    replace (str_in_set [cv] [[109%N]; [37%N]]) with (mem cv [109%N; 37%N])
      by (unfold str_in_set, mem; cbn [existsb]; rewrite !single_eqb; reflexivity).
    rewrite !str_in_single, !single_eqb.
    destruct len as [|c l].
    + assert (Hp : assoc [] c_portable_int_lengths = None) by reflexivity. rewrite Hp.
      cbn [odict_get ostr_eqb negb ostr_or list_eqb].
      split_ifs; cbn [emb obind map fst snd pct app]; rewrite ?app_nil_r; try reflexivity.
    + set (p := match assoc (c :: l) c_portable_int_lengths with Some v => v | None => c :: l end).
      assert (Ho : odict_get c_portable_int_lengths (Some (c :: l)) (Some (c :: l)) = Some p)
        by (unfold odict_get, p; destruct (assoc _ _); reflexivity).
      rewrite Ho. cbn [ostr_eqb]. cbv beta iota. rewrite str_or_nil, ostr_or_nil.
      split_ifs; cbn [emb obind map fst snd pct app negb] in *; rewrite ?app_nil_r; try reflexivity; try discriminate.
  - unfold src_conversion_init_s1, step_type. cbn [g_c99conv g_c99len g_length g_conv]. cbv beta iota zeta.
    rewrite !str_in_single. unfold str_startswith, str_lower. rewrite !prefix_starts.
    unfold k_LEAST, k_FAST, t_int, t_uint, t_suffix.
    split_ifs; cbn [emb obind map app]; rewrite ?app_nil_r, <- ?app_assoc; try reflexivity.
Qed.

(* `if tp is None: assert length is not None; raise LengthError(s, length)` *)
Lemma s2_eq : forall s b otp,
  src_conversion_init_s2 s (g_length b) otp
  = emb (match otp with
         | None => match body_length b with [] => Crash CAssertion | l => Err (ELengthError s l) end
         | Some tp => Ok tp
         end).
Proof. intros s [[|c l] cv|cv len] [tp|]; reflexivity. Qed.

(* the loop over Counter(flags).items() *)
Lemma loop1_eq : forall s cv all fs w,
  src_conversion_init_loop1 s [cv] (map (fun c => (c, Z.of_nat (count c all))) fs) w
  = emb (do fw <- flag_loop s cv all fs; Ok (w ++ fw)).
Proof.
  intros s cv all. induction fs as [|f r IH]; intros w.
  - cbn. rewrite app_nil_r. reflexivity.
  - cbn [map src_conversion_init_loop1 flag_loop]. unfold flag_step.
    rewrite of_nat_eqb1, !str_in_single, !single_eqb. rewrite <- ?(app_assoc c_oct_cvt), <- ?(app_assoc c_int_cvt).
    split_ifs; cbn [negb obind emb] in *; try reflexivity; try discriminate; rewrite IH;
      destruct (flag_loop s cv all r) as [fw|e|[]]; cbn [obind emb app]; rewrite <- ?app_assoc; reflexivity.
Qed.

(* for f1, f2 in [('-', '0'), ('+', ' ')] *)
Lemma loop2_eq : forall s fl w,
  src_conversion_init_loop2 s fl [(45, 48); (43, 32)]%N w = CRet (w ++ pair_warns s fl).
Proof.
  intros. cbn [src_conversion_init_loop2]. unfold pair_warns.
  destruct (mem 45%N fl), (mem 48%N fl), (mem 43%N fl), (mem 32%N fl); cbn [andb app]; rewrite <- ?app_assoc, ?app_nil_r; reflexivity.
Qed.

(* well-formedness of the digit strings in front of '$' (true of every directive the scanner produces) *)
Definition odollar_ok (o : option (list N)) : Prop := match o with Some ds => no_dollar ds | None => True end.
Definition star_ok (w : numspec) : Prop := match w with NStar i => odollar_ok i | _ => True end.
Definition dir_wf (d : directive) : Prop := odollar_ok (d_index d) /\ star_ok (d_width d) /\ star_ok (d_prec d).

(* the first halves of do_width / do_prec / do_index, as the code splits them *)
Definition width_stage (maxd : N) (s : list N) (cid : nat) (integer : bool) (st : pstate) (w : numspec) : outcome pstate cerr :=
  match w with
  | NNone => Ok st
  | NNum ds => do k <- py_int maxd ds; if k >? c_INT_MAX then Err (EWidthRangeError s k) else Ok st
  | NStar idx => star_arg maxd s st idx (mkarg KWidth cid c_varwidth_type integer)
  end.
Definition prec_stage (maxd : N) (s : list N) (cid : nat) (integer : bool) (st : pstate) (p : numspec) : outcome pstate cerr :=
  match p with
  | NNone => Ok st
  | NNum ds => do k <- py_int maxd (match ds with [] => [48%N] | _ => ds end);
               if k >? c_INT_MAX then Err (EPrecisionRangeError s) else Ok st
  | NStar idx => star_arg maxd s st idx (mkarg KPrec cid c_varprec_type integer)
  end.
Definition index_stage (maxd : N) (s : list N) (idx : option (list N)) : outcome (option Z) cerr :=
  match idx with
  | None => Ok None
  | Some ds => do k <- py_int maxd ds;
               if (0 <? k) && (k <=? c_NL_ARGMAX) then Ok (Some k) else Err (EArgumentRangeError s k)
  end.
Definition present (w : numspec) : bool := match w with NNone => false | _ => true end.

Lemma do_width_split : forall maxd s cid integer cv st w,
  do_width maxd s cid integer cv st w
  = do st1 <- width_stage maxd s cid integer st w;
    if present w then if mem cv [37; 110]%N then Err (EWidthError s) else Ok st1 else Ok st1.
Proof. intros. unfold do_width, width_stage. destruct w; reflexivity. Qed.

Lemma do_prec_split : forall maxd s cid integer cv fl st p,
  do_prec maxd s cid integer cv fl st p
  = do st1 <- prec_stage maxd s cid integer st p;
    if present p then
      if mem cv (c_int_cvt ++ c_float_cvt ++ c_str_cvt) then
        if mem cv c_int_cvt && mem 48%N fl then Ok (add_warns st1 [WRedundantFlag s [48%N]]) else Ok st1
      else Err (EPrecisionError s)
    else Ok st1.
Proof. intros. unfold do_prec, prec_stage. destruct p; reflexivity. Qed.

Lemma do_index_split : forall maxd s cid tp integer cv st idx,
  do_index maxd s cid tp integer cv st idx
  = do n <- index_stage maxd s idx;
    if list_eqb tp t_void then
      match n with
      | Some _ => if (cv =? 37)%N then Err (EForbiddenArgumentIndex s) else Ok st
      | None => Ok st
      end
    else add_argument s st n (mkarg KConv cid tp integer).
Proof. intros. unfold do_index, index_stage. destruct idx; reflexivity. Qed.

Lemma star_stage_eq : forall maxd s m nx w0 idx v (f : bool),
  odollar_ok idx ->
  match g_dollar idx with
  | None =>
      cbind (ccatch (cbind (src_add_argument maxd m nx None v) (fun '(m', nx') => CRet (m', nx')))
                    (fun x => match x with
                              | XIndex => Some (CRaise (XErr (EArgumentNumberingMixture s)))
                              | XOverflow v_exc => Some (CRaise (XErr (EArgumentRangeErrorStr s v_exc)))
                              | _ => None end))
            (fun '(m', nx') => let v_x := tt in CRet (f, m', nx'))
  | Some t =>
      cbind (of_outcome (py_int maxd (str_rstrip 36%N t))) (fun k =>
        let k' := k in
        if negb ((0 <? k') && (k' <=? c_NL_ARGMAX)) then CRaise (XErr (EArgumentRangeError s k'))
        else
          cbind (ccatch (cbind (src_add_argument maxd m nx (Some k') v) (fun '(m', nx') => CRet (m', nx')))
                        (fun x => match x with
                                  | XIndex => Some (CRaise (XErr (EArgumentNumberingMixture s)))
                                  | XOverflow v_exc => Some (CRaise (XErr (EArgumentRangeErrorStr s v_exc)))
                                  | _ => None end))
                (fun '(m', nx') => let v_x := tt in CRet (f, m', nx')))
  end
  = emb (do st1 <- star_arg maxd s (mkst m nx w0) idx v; Ok (f, st_entries st1, st_next st1)).
Proof.
  intros maxd s m nx w0 idx v f Hwf. unfold star_arg. destruct idx as [ds|]; cbn [g_dollar].
  - cbn in Hwf. rewrite (rstrip_dollar ds Hwf). unfold py_int. destruct (max_digits_ok maxd _); [|reflexivity].
    cbn [of_outcome cbind obind]. cbv zeta.
    destruct ((0 <? dec_value ds) && (dec_value ds <=? c_NL_ARGMAX)); cbn [negb obind]; [|reflexivity].
    rewrite (call_add_eq maxd s m nx w0).
    destruct (add_argument s (mkst m nx w0) (Some (dec_value ds)) v) as [st'|e|[]]; reflexivity.
  - cbn [obind]. rewrite (call_add_eq maxd s m nx w0).
    destruct (add_argument s (mkst m nx w0) None v) as [st'|e|[]]; reflexivity.
Qed.

(* width: the group, int(), INT_MAX, `*` with its optional index *)
Lemma s3_eq : forall maxd cid m nx w0 d text a b s integer,
  star_ok (d_width d) ->
  src_conversion_init_s3 maxd cid m nx (match_of_dir d text a b) s integer (g_width (d_width d))
  = emb (do st1 <- width_stage maxd s cid integer (mkst m nx w0) (d_width d);
         Ok (present (d_width d), st_entries st1, st_next st1)).
Proof.
  intros maxd cid m nx w0 d text a b s integer Hwf. unfold src_conversion_init_s3, width_stage.
  cbn [match_of_dir m_varwidth m_varwidth_index]. destruct (d_width d) as [|ds|idx]; cbn [g_width g_star g_star_index ostr_truth present].
  - reflexivity.
  - unfold py_int. destruct (max_digits_ok maxd _); [|reflexivity]. cbn [of_outcome cbind obind]. cbv zeta.
    destruct (dec_value ds >? c_INT_MAX); reflexivity.
  - cbv zeta. exact (star_stage_eq maxd s m nx w0 idx _ true Hwf).
Qed.

Lemma s4_eq : forall s cv (f : bool),
  src_conversion_init_s4 s [cv] f
  = emb (if f then if mem cv [37; 110]%N then Err (EWidthError s) else Ok tt else Ok tt).
Proof. intros. unfold src_conversion_init_s4. rewrite str_in_single. split_ifs; reflexivity. Qed.

Lemma s5_eq : forall maxd cid m nx w0 d text a b s integer,
  star_ok (d_prec d) ->
  src_conversion_init_s5 maxd cid (match_of_dir d text a b) s integer m nx (g_width (d_prec d))
  = emb (do st1 <- prec_stage maxd s cid integer (mkst m nx w0) (d_prec d);
         Ok (present (d_prec d), st_entries st1, st_next st1)).
Proof.
  intros maxd cid m nx w0 d text a b s integer Hwf. unfold src_conversion_init_s5, prec_stage.
  cbn [match_of_dir m_varprec m_varprec_index]. destruct (d_prec d) as [|ds|idx]; cbn [g_width g_star g_star_index ostr_truth present].
  - reflexivity.
  - unfold str_or, py_int. destruct (max_digits_ok maxd _); [|reflexivity]. cbn [of_outcome cbind obind]. cbv zeta.
    match goal with |- context [if ?c then _ else _] => destruct c end; reflexivity.
  - cbv zeta. exact (star_stage_eq maxd s m nx w0 idx _ true Hwf).
Qed.

Lemma s6_eq : forall s w cv fl (f : bool),
  src_conversion_init_s6 s w [cv] fl f
  = emb (if f then
           if mem cv (c_int_cvt ++ c_float_cvt ++ c_str_cvt) then
             if mem cv c_int_cvt && mem 48%N fl then Ok (w ++ [WRedundantFlag s [48%N]]) else Ok w
           else Err (EPrecisionError s)
         else Ok w).
Proof.
  intros. unfold src_conversion_init_s6. rewrite !str_in_single. rewrite <- (app_assoc c_int_cvt).
  split_ifs; reflexivity.
Qed.

Lemma s7_eq : forall maxd s idx,
  odollar_ok idx ->
  src_conversion_init_s7 maxd s (g_dollar idx) = emb (index_stage maxd s idx).
Proof.
  intros maxd s [ds|] Hwf; [|reflexivity]. cbn in Hwf. unfold src_conversion_init_s7, index_stage. cbn [g_dollar].
  rewrite (rstrip_dollar ds Hwf). unfold py_int. destruct (max_digits_ok maxd _); [|reflexivity].
  cbn [of_outcome cbind obind]. cbv zeta. destruct ((0 <? dec_value ds) && (dec_value ds <=? c_NL_ARGMAX)); reflexivity.
Qed.

Lemma star_arg_warn : forall maxd s st idx v st', star_arg maxd s st idx v = Ok st' -> st_warn st' = st_warn st.
Proof.
  intros maxd s st idx v st'. unfold star_arg. destruct idx as [ds|]; cbn [obind].
  - destruct (py_int maxd ds) as [k|e|c]; cbn [obind]; try discriminate.
    destruct ((0 <? k) && (k <=? c_NL_ARGMAX)); cbn [obind]; try discriminate. apply add_argument_warn.
  - apply add_argument_warn.
Qed.

Lemma width_stage_warn : forall maxd s cid integer st w st', width_stage maxd s cid integer st w = Ok st' -> st_warn st' = st_warn st.
Proof.
  intros maxd s cid integer st w st'. unfold width_stage. destruct w as [|ds|idx].
  - intros H; inversion H; reflexivity.
  - destruct (py_int maxd ds) as [k|e|c]; cbn [obind]; try discriminate. destruct (k >? c_INT_MAX); intros H; inversion H; reflexivity.
  - apply star_arg_warn.
Qed.

Lemma prec_stage_warn : forall maxd s cid integer st p st', prec_stage maxd s cid integer st p = Ok st' -> st_warn st' = st_warn st.
Proof.
  intros maxd s cid integer st p st'. unfold prec_stage. destruct p as [|ds|idx].
  - intros H; inversion H; reflexivity.
  - destruct (py_int maxd _) as [k|e|c]; cbn [obind]; try discriminate. destruct (k >? c_INT_MAX); intros H; inversion H; reflexivity.
  - apply star_arg_warn.
Qed.

(* Conversion.__init__: the parent's state and the new object's attributes *)
Theorem src_conversion_init_eq : forall maxd cid st d text a b,
  dir_wf d ->
  cbind (src_conversion_init maxd cid (st_entries st) (st_next st) (st_warn st) (match_of_dir d text a b))
        (fun '(m, nx, w, s, tp, integer) => CRet (mkst m nx w, mkconv cid s tp integer))
  = emb (conversion_init maxd cid st d text).
Proof.
  intros maxd cid [m nx w] d text a b (Hi & Hw & Hp). unfold src_conversion_init, conversion_init.
  cbn [st_entries st_next st_warn match_of_dir m_text m_c99conv m_c99len m_length m_conversion m_flags m_width m_precision m_index].
  cbv zeta. rewrite s1_eq.
  destruct (step_type (d_body d)) as [[[[otp integer] cv] np]|e|c]; [| reflexivity | destruct c; reflexivity].
  cbn [obind emb cbind]. rewrite s2_eq. destruct otp as [tp|]; [|destruct (body_length (d_body d)); reflexivity].
  cbn [emb cbind]. unfold counter_items, counter_of. rewrite loop1_eq.
  destruct (flag_loop text cv (d_flags d) (dedup (d_flags d))) as [fw|e|c]; [| reflexivity | destruct c; reflexivity].
  cbn [obind emb cbind]. rewrite loop2_eq. cbn [cbind].
  rewrite do_width_split.
  unfold add_warns. cbn [st_entries st_next st_warn].
  rewrite <- (app_assoc _ fw). set (W := (w ++ map _ np) ++ fw ++ pair_warns text (d_flags d)).
  rewrite (s3_eq maxd cid m nx W d text a b text integer Hw).
  destruct (width_stage maxd text cid integer (mkst m nx W) (d_width d)) as [[m1 nx1 w1]|e|c] eqn:Hws;
    [| reflexivity | destruct c; reflexivity].
  apply width_stage_warn in Hws. cbn [st_warn] in Hws. subst w1.
  cbn [obind emb cbind st_entries st_next]. rewrite s4_eq.
  destruct (present (d_width d)); [destruct (mem cv [37; 110]%N)|]; cbn [emb cbind obind]; try reflexivity.
  all: rewrite do_prec_split; rewrite (s5_eq maxd cid m1 nx1 W d text a b text integer Hp);
    (destruct (prec_stage maxd text cid integer (mkst m1 nx1 W) (d_prec d)) as [[m2 nx2 w2]|e|c] eqn:Hps;
      [| reflexivity | destruct c; reflexivity]);
    apply prec_stage_warn in Hps; cbn [st_warn] in Hps; subst w2;
    cbn [obind emb cbind st_entries st_next]; rewrite s6_eq.
  all: (destruct (present (d_prec d));
         [destruct (mem cv (c_int_cvt ++ c_float_cvt ++ c_str_cvt)); [destruct (mem cv c_int_cvt && mem 48%N (d_flags d))|]|]);
    unfold add_warns; cbn [emb cbind obind st_entries st_next st_warn]; try reflexivity.
  all: rewrite do_index_split, (s7_eq maxd text (d_index d) Hi);
    (destruct (index_stage maxd text (d_index d)) as [n|e|c]; [| reflexivity | destruct c; reflexivity]);
    cbn [obind emb cbind]; unfold t_void; destruct (list_eqb tp [118; 111; 105; 100]%N).
  all: try (destruct n; rewrite ?single_eqb; try destruct (cv =? 37)%N; reflexivity).
  all: match goal with |- context [add_argument ?t (mkst ?mm ?nn ?W') ?n' ?v] =>
         rewrite (call_add_eq maxd t mm nn W');
         destruct (add_argument t (mkst mm nn W') n' v) as [[m3 nx3 w3]|e|c] eqn:Ha;
         [apply add_argument_warn in Ha; cbn [st_warn] in Ha; subst w3; reflexivity | reflexivity | destruct c; reflexivity]
       end.
Qed.

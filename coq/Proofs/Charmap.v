(* Lemmas about the charmap codec model (Model/Encodings.v): totality with valid error positions,
   decode/encode round trip from a 256-byte boolean check, injectivity => that check, per-character
   encodability. *)
From Coq Require Import NArith List Bool Arith Lia.
From I18n Require Import Lib.Outcome Generated.CodecOracle Model.Encodings.
Import ListNotations.
Local Open Scope N_scope.

(* ------------------------------------------------------------------ decode *)

Lemma Forall2_len : forall (A B : Type) (R : A -> B -> Prop) l1 l2, Forall2 R l1 l2 -> length l1 = length l2.
Proof. intros A B R l1 l2 H. induction H; cbn [length]; congruence. Qed.

Lemma cm_decode_from_ok : forall t bs pos txt,
  cm_decode_from t pos bs = Ok txt <-> Forall2 (fun b c => decode_byte t b = Some c) bs txt.
Proof.
  intros t bs; induction bs as [|b r IH]; intros pos txt; cbn [cm_decode_from].
  - split; intro H.
    + injection H as <-. constructor.
    + inversion H. reflexivity.
  - destruct (decode_byte t b) as [c|] eqn:Eb.
    + destruct (cm_decode_from t (S pos) r) as [r'| |] eqn:Er; cbn [obind].
      * split; intro H.
        -- injection H as <-. constructor; [exact Eb|]. apply (IH (S pos)). exact Er.
        -- inversion H as [|? c' ? r'' Hb Hr]; subst. rewrite Eb in Hb. injection Hb as <-.
           apply (IH (S pos)) in Hr. rewrite Er in Hr. injection Hr as <-. reflexivity.
      * split; intro H; [discriminate|].
        inversion H as [|? c' ? r'' Hb Hr]; subst. apply (IH (S pos)) in Hr. rewrite Er in Hr. discriminate.
      * split; intro H; [discriminate|].
        inversion H as [|? c' ? r'' Hb Hr]; subst. apply (IH (S pos)) in Hr. rewrite Er in Hr. discriminate.
    + split; intro H; [discriminate|]. inversion H as [|? c' ? r'' Hb Hr]; subst. rewrite Eb in Hb. discriminate.
Qed.

Lemma cm_decode_from_err : forall t bs pos s e,
  cm_decode_from t pos bs = Err (s, e) ->
  (pos <= s)%nat /\ (s < pos + length bs)%nat /\ e = S s /\
  decode_byte t (nth (s - pos) bs 0) = None.
Proof.
  intros t bs; induction bs as [|b r IH]; intros pos s e H; cbn [cm_decode_from] in H.
  - discriminate.
  - destruct (decode_byte t b) as [c|] eqn:Eb.
    + destruct (cm_decode_from t (S pos) r) as [r'| [s' e'] |] eqn:Er; cbn [obind] in H; try discriminate.
      injection H as <- <-. apply IH in Er. destruct Er as (H1 & H2 & H3 & H4).
      cbn [length]. repeat split; try lia.
      replace (s' - pos)%nat with (S (s' - S pos)) by lia. exact H4.
    + injection H as <- <-. cbn [length]. repeat split; try lia.
      rewrite Nat.sub_diag. exact Eb.
Qed.

Lemma cm_decode_from_no_crash : forall t bs pos c, cm_decode_from t pos bs <> Crash c.
Proof.
  intros t bs; induction bs as [|b r IH]; intros pos c; cbn [cm_decode_from].
  - discriminate.
  - destruct (decode_byte t b); [|discriminate].
    destruct (cm_decode_from t (S pos) r) eqn:Er; cbn [obind]; try discriminate.
    exfalso. exact (IH _ _ Er).
Qed.

Lemma cm_decode_total : forall t bs,
  (exists txt, cm_decode t bs = Ok txt /\ length txt = length bs) \/
  (exists s, cm_decode t bs = Err (s, S s) /\ (s < length bs)%nat /\ decode_byte t (nth s bs 0) = None).
Proof.
  intros t bs. unfold cm_decode. destruct (cm_decode_from t 0 bs) as [txt|[s e]|c] eqn:E.
  - left. exists txt. split; [reflexivity|]. apply cm_decode_from_ok in E.
    symmetry. eapply Forall2_len; exact E.
  - right. apply cm_decode_from_err in E. destruct E as (H1 & H2 & H3 & H4). subst e.
    exists s. rewrite Nat.sub_0_r in H4. repeat split; [lia | exact H4].
  - exfalso. exact (cm_decode_from_no_crash _ _ _ _ E).
Qed.

(* ------------------------------------------------------------------ encode *)

Lemma unenc_run_le : forall m t l, (unenc_run m t l <= length l)%nat.
Proof.
  intros m t l; induction l as [|c r IH]; cbn [unenc_run length]; [lia|].
  destruct (encode_char m t c); lia.
Qed.

Lemma cm_encode_from_err : forall m t txt pos s e,
  cm_encode_from m t pos txt = Err (s, e) ->
  (pos <= s)%nat /\ (s < e)%nat /\ (e <= pos + length txt)%nat /\ encode_char m t (nth (s - pos) txt 0) = None.
Proof.
  intros m t txt; induction txt as [|c r IH]; intros pos s e H; cbn [cm_encode_from] in H.
  - discriminate.
  - destruct (encode_char m t c) as [b|] eqn:Ec.
    + destruct (cm_encode_from m t (S pos) r) as [r'|[s' e']|] eqn:Er; cbn [obind] in H; try discriminate.
      injection H as <- <-. apply IH in Er. destruct Er as (H1 & H2 & H3 & H4). cbn [length].
      repeat split; try lia. replace (s' - pos)%nat with (S (s' - S pos)) by lia. exact H4.
    + injection H as <- <-. pose proof (unenc_run_le m t r). cbn [length].
      repeat split; try lia. rewrite Nat.sub_diag. exact Ec.
Qed.

Lemma cm_encode_from_no_crash : forall m t txt pos c, cm_encode_from m t pos txt <> Crash c.
Proof.
  intros m t txt; induction txt as [|x r IH]; intros pos c; cbn [cm_encode_from].
  - discriminate.
  - destruct (encode_char m t x); [|discriminate].
    destruct (cm_encode_from m t (S pos) r) eqn:Er; cbn [obind]; try discriminate.
    exfalso. exact (IH _ _ Er).
Qed.

(* encoding succeeds iff every character is encodable: encodability is per character *)
Lemma cm_encode_from_ok_iff : forall m t txt pos,
  is_ok (cm_encode_from m t pos txt) = true <-> Forall (fun c => encode_char m t c <> None) txt.
Proof.
  intros m t txt; induction txt as [|c r IH]; intros pos; cbn [cm_encode_from].
  - split; [constructor | reflexivity].
  - destruct (encode_char m t c) as [b|] eqn:Ec.
    + destruct (cm_encode_from m t (S pos) r) eqn:Er; cbn [obind is_ok].
      * split; [|reflexivity]. intros _. constructor; [rewrite Ec; discriminate|].
        apply (IH (S pos)). rewrite Er. reflexivity.
      * split; [discriminate|]. intro H. inversion H as [|? ? _ Hr]; subst.
        apply (IH (S pos)) in Hr. rewrite Er in Hr. discriminate.
      * split; [discriminate|]. intro H. inversion H as [|? ? _ Hr]; subst.
        apply (IH (S pos)) in Hr. rewrite Er in Hr. discriminate.
    + cbn [is_ok]. split; [discriminate|]. intro H. inversion H as [|? ? Hc _]; subst. congruence.
Qed.

Lemma cm_encode_from_concat : forall m t chars,
  is_ok (cm_encode_from m t 0 (concat chars)) = true <->
  forall ch, In ch chars -> is_ok (cm_encode_from m t 0 ch) = true.
Proof.
  intros m t chars. rewrite cm_encode_from_ok_iff. split.
  - intros H ch Hin. apply cm_encode_from_ok_iff. rewrite Forall_forall in *. intros c Hc.
    apply H. apply in_concat. exists ch. split; assumption.
  - intros H. apply Forall_forall. intros c Hc. apply in_concat in Hc. destruct Hc as (ch & Hin & Hc).
    specialize (H ch Hin). apply cm_encode_from_ok_iff in H. rewrite Forall_forall in H. exact (H c Hc).
Qed.

(* ------------------------------------------------------------------ round trip *)

(* every byte that decodes encodes back to itself *)
Definition byte_roundtrip_ok (m : cm_mode) (t : list N) : bool :=
  forallb (fun b => match decode_byte t (N.of_nat b) with
                    | Some c => match encode_char m t c with Some b' => Nat.eqb b' b | None => false end
                    | None => true
                    end) (seq 0 256).

(* the check made on each generated table *)
Definition table_ok (t : list N) : bool :=
  Nat.leb (length t) 256 &&
  match cm_build t with Some m => byte_roundtrip_ok m t | None => false end.

Lemma decode_byte_lt : forall t b c, decode_byte t b = Some c -> (N.to_nat b < length t)%nat.
Proof.
  intros t b c H. unfold decode_byte in H. destruct (nth_error t (N.to_nat b)) eqn:E; [|discriminate].
  apply nth_error_Some. congruence.
Qed.

Lemma byte_roundtrip_byte : forall m t b c,
  (length t <= 256)%nat -> byte_roundtrip_ok m t = true ->
  decode_byte t b = Some c -> encode_char m t c = Some (N.to_nat b).
Proof.
  intros m t b c Hlen Hrt Hd. unfold byte_roundtrip_ok in Hrt. rewrite forallb_forall in Hrt.
  pose proof (decode_byte_lt _ _ _ Hd) as Hlt.
  specialize (Hrt (N.to_nat b)). rewrite N2Nat.id, Hd in Hrt.
  assert (Hin : In (N.to_nat b) (seq 0 256)) by (apply in_seq; lia).
  specialize (Hrt Hin). destruct (encode_char m t c) as [b'|]; [|discriminate].
  apply Nat.eqb_eq in Hrt. congruence.
Qed.

Lemma roundtrip_from : forall m t, (length t <= 256)%nat -> byte_roundtrip_ok m t = true ->
  forall bs txt, Forall2 (fun b c => decode_byte t b = Some c) bs txt ->
  forall pos, cm_encode_from m t pos txt = Ok bs.
Proof.
  intros m t Hlen Hrt bs txt H. induction H as [|b c bs' txt' Hb _ IH]; intros pos; cbn [cm_encode_from].
  - reflexivity.
  - rewrite (byte_roundtrip_byte m t b c Hlen Hrt Hb). rewrite IH. cbn [obind]. rewrite N2Nat.id. reflexivity.
Qed.

Lemma table_ok_roundtrip : forall t, table_ok t = true ->
  forall bs txt, cm_decode t bs = Ok txt -> cm_encode t txt = Ok bs.
Proof.
  intros t Hok bs txt Hd. unfold table_ok in Hok. apply andb_true_iff in Hok. destruct Hok as [Hlen Hrt].
  apply Nat.leb_le in Hlen. unfold cm_encode. destruct (cm_build t) as [m|]; [|discriminate].
  apply roundtrip_from; try assumption. apply (cm_decode_from_ok t bs 0%nat). exact Hd.
Qed.

(* ------------------------------------------------------------------ injectivity => the byte check *)

Definition defined_at (t : list N) (i : nat) : option N :=
  match nth_error t i with Some c => if c =? UNDEF then None else Some c | None => None end.

(* two different bytes never decode to the same character *)
Definition table_injective (t : list N) : bool :=
  forallb (fun i => forallb (fun j =>
    Nat.eqb i j ||
    match defined_at t i, defined_at t j with
    | Some a, Some b => negb (a =? b)
    | _, _ => true
    end) (seq 0 256)) (seq 0 256).

Lemma table_injective_spec : forall t i j c, table_injective t = true -> (i < 256)%nat -> (j < 256)%nat ->
  defined_at t i = Some c -> defined_at t j = Some c -> i = j.
Proof.
  intros t i j c H Hi Hj Di Dj. unfold table_injective in H. rewrite forallb_forall in H.
  specialize (H i ltac:(apply in_seq; lia)). rewrite forallb_forall in H.
  specialize (H j ltac:(apply in_seq; lia)). rewrite Di, Dj in H.
  apply orb_true_iff in H. destruct H as [H|H].
  - apply Nat.eqb_eq. exact H.
  - rewrite N.eqb_refl in H. discriminate.
Qed.

Lemma in_indexed_from : forall t k i x, In (i, x) (indexed_from k t) <-> (k <= i)%nat /\ nth_error t (i - k) = Some x.
Proof.
  intros t; induction t as [|y r IH]; intros k i x; cbn [indexed_from In].
  - split; [tauto|]. intros [_ H]. destruct (i - k)%nat; discriminate.
  - rewrite IH. split.
    + intros [H|[H1 H2]].
      * injection H as <- <-. split; [lia|]. rewrite Nat.sub_diag. reflexivity.
      * split; [lia|]. replace (i - k)%nat with (S (i - S k)) by lia. exact H2.
    + intros [H1 H2]. destruct (Nat.eq_dec i k) as [->|Hne].
      * left. rewrite Nat.sub_diag in H2. cbn in H2. congruence.
      * right. split; [lia|]. replace (i - k)%nat with (S (i - S k)) in H2 by lia. exact H2.
Qed.

Lemma find_last_byte_some : forall cands c i,
  find_last_byte cands c = Some i -> In (i, c) cands.
Proof.
  intros cands c i H. unfold find_last_byte in H.
  destruct (find (fun p => snd p =? c) (rev cands)) as [[i' x]|] eqn:E; [|discriminate].
  cbn in H. injection H as <-. apply find_some in E. destruct E as [Hin Hx]. cbn in Hx.
  apply N.eqb_eq in Hx. subst x. apply in_rev. exact Hin.
Qed.

Lemma find_none_in : forall cands c i, In (i, c) cands ->
  find (fun p : nat * N => snd p =? c) (rev cands) <> None.
Proof.
  intros cands c i Hin E. pose proof (find_none _ _ E (i, c)) as H.
  rewrite <- in_rev in H. specialize (H Hin). cbn in H. rewrite N.eqb_refl in H. discriminate.
Qed.

Lemma find_last_byte_in : forall cands c i, In (i, c) cands -> exists j, find_last_byte cands c = Some j.
Proof.
  intros cands c i Hin. unfold find_last_byte.
  destruct (find (fun p => snd p =? c) (rev cands)) as [[j x]|] eqn:E.
  - exists j. reflexivity.
  - exfalso. exact (find_none_in _ _ _ Hin E).
Qed.

Lemma cm_build_trie : forall t, cm_build t = Some CmTrie -> (length t <= 256)%nat ->
  exists rest, t = 0 :: rest /\ Forall (fun ch => ch <> 0 /\ ch <= 65535) rest.
Proof.
  intros t H Hlen. unfold cm_build in H. rewrite firstn_all2 in H by lia.
  destruct t as [|c0 rest]; [discriminate|].
  revert H. match goal with |- context [if ?c then _ else _] => destruct c eqn:Ec; [intro Hx; discriminate Hx|] end. intros _.
  repeat (apply orb_false_iff in Ec; destruct Ec as [Ec ?]).
  apply negb_false_iff in Ec. apply N.eqb_eq in Ec. subst c0.
  exists rest. split; [reflexivity|].
  apply Forall_forall. intros ch Hin.
  match goal with Hx : existsb _ rest = false |- _ =>
    pose proof (proj2 (not_true_iff_false _) Hx) as Hne end.
  split.
  - intro E0. apply Hne. apply existsb_exists. exists ch. split; [exact Hin|]. subst ch. reflexivity.
  - destruct (65535 <? ch) eqn:El; [|apply N.ltb_ge; exact El].
    exfalso. apply Hne. apply existsb_exists. exists ch. split; [exact Hin|]. rewrite El. apply orb_true_r.
Qed.

Lemma injective_byte_roundtrip : forall t m, (length t <= 256)%nat -> cm_build t = Some m ->
  table_injective t = true -> byte_roundtrip_ok m t = true.
Proof.
  intros t m Hlen Hb Hinj. unfold byte_roundtrip_ok. apply forallb_forall. intros b Hb256.
  apply in_seq in Hb256. destruct (decode_byte t (N.of_nat b)) as [c|] eqn:Hd; [|reflexivity].
  pose proof (decode_byte_lt _ _ _ Hd) as Hlt. rewrite Nat2N.id in Hlt.
  assert (Dd : defined_at t b = Some c).
  { unfold decode_byte in Hd. rewrite Nat2N.id in Hd. exact Hd. }
  assert (Hnth : nth_error t b = Some c /\ c <> UNDEF).
  { unfold defined_at in Dd. destruct (nth_error t b) as [x|]; [|discriminate].
    destruct (x =? UNDEF) eqn:Ex; [discriminate|]. injection Dd as ->. split; [reflexivity|].
    apply N.eqb_neq. exact Ex. }
  destruct Hnth as [Hnth Hund].
  (* any index found for c is b *)
  assert (Huniq : forall i, (i < 256)%nat -> nth_error t i = Some c -> i = b).
  { intros i Hi Hn. apply (table_injective_spec t i b c Hinj Hi ltac:(lia)); [|exact Dd].
    unfold defined_at. rewrite Hn. apply N.eqb_neq in Hund. rewrite Hund. reflexivity. }
  destruct m.
  - (* trie *)
    destruct (cm_build_trie t Hb Hlen) as (rest & -> & Hrest).
    unfold encode_char. rewrite Forall_forall in Hrest.
    destruct b as [|b'].
    + cbn in Hnth. injection Hnth as <-. cbn. reflexivity.
    + cbn [nth_error] in Hnth. apply nth_error_In in Hnth as Hin. destruct (Hrest c Hin) as [Hc0 Hcle].
      apply N.ltb_ge in Hcle. rewrite Hcle. apply N.eqb_neq in Hc0. rewrite Hc0.
      assert (Hcand : In (S b', c) (enc_candidates CmTrie (0 :: rest))).
      { unfold enc_candidates. rewrite firstn_all2 by lia. apply filter_In. split.
        - unfold indexed. cbn [indexed_from tl]. apply in_indexed_from. split; [lia|].
          replace (S b' - 1)%nat with b' by lia. exact Hnth.
        - cbn. apply negb_true_iff. apply N.eqb_neq. exact Hund. }
      destruct (find_last_byte_in _ _ _ Hcand) as (j & Hj). rewrite Hj.
      apply find_last_byte_some in Hj. unfold enc_candidates in Hj. rewrite firstn_all2 in Hj by lia.
      apply filter_In in Hj. destruct Hj as [Hj _]. unfold indexed in Hj. cbn [indexed_from tl] in Hj.
      apply in_indexed_from in Hj. destruct Hj as [Hj1 Hj2].
      assert (j = S b').
      { apply Huniq.
        - assert (j - 1 < length rest)%nat by (apply nth_error_Some; congruence). cbn [length] in Hlen. lia.
        - destruct j; [lia|]. cbn [nth_error]. replace (S j - 1)%nat with j in Hj2 by lia. exact Hj2. }
      subst j. apply Nat.eqb_refl.
  - (* dict *)
    unfold encode_char.
    assert (Hcand : In (b, c) (enc_candidates CmDict t)).
    { unfold enc_candidates. rewrite firstn_all2 by lia. unfold indexed. apply in_indexed_from.
      split; [lia|]. rewrite Nat.sub_0_r. exact Hnth. }
    destruct (find_last_byte_in _ _ _ Hcand) as (j & Hj). rewrite Hj.
    apply find_last_byte_some in Hj. unfold enc_candidates in Hj. rewrite firstn_all2 in Hj by lia.
    unfold indexed in Hj. apply in_indexed_from in Hj. destruct Hj as [_ Hj2]. rewrite Nat.sub_0_r in Hj2.
    assert (j = b).
    { apply Huniq; [|exact Hj2]. assert (j < length t)%nat by (apply nth_error_Some; congruence). lia. }
    subst j. apply Nat.eqb_refl.
Qed.

(* the check as the brief states it: at most 256 entries, a buildable map, injective on defined bytes *)
Definition table_wf (t : list N) : bool :=
  Nat.leb (length t) 256 && match cm_build t with Some _ => true | None => false end && table_injective t.

Lemma table_wf_ok : forall t, table_wf t = true -> table_ok t = true.
Proof.
  intros t H. unfold table_wf in H. apply andb_true_iff in H. destruct H as [H Hinj].
  apply andb_true_iff in H. destruct H as [Hlen Hb]. unfold table_ok. rewrite Hlen. cbn [andb].
  destruct (cm_build t) as [m|] eqn:Em; [|discriminate].
  apply injective_byte_roundtrip; try assumption. apply Nat.leb_le. exact Hlen.
Qed.

(* ------------------------------------------------------------------ ASCII compatibility of a table *)
Definition table_ascii_compatible (interesting : list N) (t : list N) : bool :=
  match cm_decode t interesting with Ok r => list_eqb r interesting | _ => false end.

Lemma list_eqb_eq : forall a b, list_eqb a b = true <-> a = b.
Proof.
  intros a; induction a as [|x a IH]; intros [|y b]; cbn [list_eqb]; split; intro H; try discriminate; try reflexivity.
  - apply andb_true_iff in H. destruct H as [H1 H2]. apply N.eqb_eq in H1. apply IH in H2. congruence.
  - injection H as -> ->. rewrite N.eqb_refl. cbn. apply IH. reflexivity.
Qed.

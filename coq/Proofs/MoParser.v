(* Model/MoParser.v against Spec/MoFormat.v: totality, soundness, completeness *)
From Coq Require Import List NArith Bool Lia.
From I18n Require Import Lib.Outcome Model.MoParser Spec.MoFormat Proofs.MoBytes Proofs.MoStrings.
Import ListNotations.
Local Open Scope N_scope.

(* ------------------------------------------------------------------ *)
(* read_string *)

Lemma read_string_complete : forall be f at_ msg n off s,
  has_word be f at_ n -> has_word be f (at_ + 4) off -> n = blen s -> at_off f off (s ++ [0]) ->
  read_string be f at_ msg = Ok s.
Proof.
  intros be f at_ msg n off s Hn Hoff -> Hs. unfold read_string.
  rewrite (read_int2_complete _ _ _ _ _ Hn Hoff). cbn [obind].
  destruct (string_complete _ _ _ Hs) as [E1 E2]. rewrite E2, E1. reflexivity.
Qed.

Lemma read_string_ok : forall be f at_ msg s, read_string be f at_ msg = Ok s ->
  exists n off, read_int2 be f at_ = Ok (n, off) /\ n = blen s /\ at_off f off (s ++ [0]) /\ at_ + 8 <= blen f.
Proof.
  intros be f at_ msg s H. unfold read_string in H.
  destruct (read_int2_cases be f at_) as [[_ E]|[L (n & off & E & _)]]; rewrite E in H; [discriminate|].
  cbn [obind] in H. destruct (index f (off + n)) as [t|] eqn:I; [|discriminate].
  destruct (N.eqb_spec t 0) as [T|T]; cbn [negb] in H; [|discriminate]. subst t. inversion H; subst s; clear H.
  destruct (string_sound _ _ _ _ I) as [Hl Hat]. exists n, off. auto.
Qed.

Lemma read_string_sound : forall be f at_ msg s, bytes_ok f -> read_string be f at_ msg = Ok s ->
  exists n off, has_word be f at_ n /\ has_word be f (at_ + 4) off /\ n = blen s /\ at_off f off (s ++ [0]).
Proof.
  intros be f at_ msg s Hf H. destruct (read_string_ok _ _ _ _ _ H) as (n & off & E & Hn & Hat & _).
  destruct (read_int2_sound _ _ _ _ _ Hf E) as [H1 H2]. exists n, off. auto.
Qed.

Lemma read_string_no_crash : forall be f at_ msg c, read_string be f at_ msg <> Crash c.
Proof.
  intros be f at_ msg c. unfold read_string.
  destruct (read_int2_cases be f at_) as [[_ E]|[_ (n & off & E & _)]]; rewrite E; cbn [obind]; [discriminate|].
  destruct (index f (off + n)) as [t|]; [|discriminate]. destruct (negb (t =? 0)); discriminate.
Qed.

(* what the refusals of read_string mean *)
Lemma read_string_err : forall be f at_ msg e, read_string be f at_ msg = Err e ->
  (e = MoSyntax MTruncated /\ blen f < at_ + 8) \/
  (exists n off, read_int2 be f at_ = Ok (n, off) /\
     ((e = MoSyntax MTruncated /\ blen f <= off + n) \/
      (e = MoSyntax msg /\ exists t, index f (off + n) = Some t /\ t <> 0))).
Proof.
  intros be f at_ msg e H. unfold read_string in H.
  destruct (read_int2_cases be f at_) as [[L E]|[L (n & off & E & _)]]; rewrite E in H; cbn [obind] in H.
  - inversion H. auto.
  - right. exists n, off. split; [exact E|].
    destruct (index f (off + n)) as [t|] eqn:I.
    + destruct (N.eqb_spec t 0) as [T|T]; cbn [negb] in H; [discriminate|]. inversion H. right. eauto.
    + inversion H. left. split; [reflexivity|]. now apply index_none.
Qed.

(* ------------------------------------------------------------------ *)
(* finish_entry *)

Definition plural_part (e : mo_entry) : list bytes := match e_plural e with Some p => [p] | None => [] end.

Lemma finish_entry_complete : forall asc first enc last e,
  wf_entry e ->
  (first = false -> exists l cs, last = Some l /\ lex_le l (sort_key e) /\ enc = Some cs) ->
  finish_entry asc first enc last (sort_key e) (plural_part e) (val_of e) =
  Ok (as_returned e,
      (if first then choose_encoding asc enc (sort_key e) (val_of e) else match enc with Some cs => cs | None => [] end),
      sort_key e).
Proof.
  intros asc first enc last e Hwf Hst.
  assert (Hsc := split_ctxt_wf e Hwf).
  destruct Hwf as (Hc & Hi & Hp & Hs).
  unfold finish_entry, val_of, plural_part.
  assert (Henc : (if first then Ok (choose_encoding asc enc (sort_key e) (join0 (e_strs e)))
                  else match last with
                       | None => Crash CTypeError
                       | Some l => if bytes_ltb (sort_key e) l then Err (MoSyntax MNotSorted)
                                   else match enc with Some e0 => Ok e0 | None => Crash CAssertion end
                       end)
                 = (Ok (if first then choose_encoding asc enc (sort_key e) (join0 (e_strs e))
                        else match enc with Some cs => cs | None => [] end) : outcome bytes mo_err)).
  { destruct first; [reflexivity|]. destruct (Hst eq_refl) as (l & cs & -> & Hle & ->).
    apply bytes_ltb_false in Hle. rewrite Hle. reflexivity. }
  destruct e as [ctxt id pl strs]. cbn [e_ctxt e_id e_plural e_strs] in *.
  assert (Hret : forall p0 s0, {| e_ctxt := e_ctxt (as_returned {| e_ctxt := ctxt; e_id := id; e_plural := p0; e_strs := s0 |}); e_id := e_id (as_returned {| e_ctxt := ctxt; e_id := id; e_plural := p0; e_strs := s0 |}); e_plural := p0; e_strs := s0 |} = as_returned {| e_ctxt := ctxt; e_id := id; e_plural := p0; e_strs := s0 |}) by (intros; destruct ctxt; reflexivity).
  destruct pl as [p|].
  - destruct Hp as [Hp0 Hne]. rewrite split_all_join by assumption.
    destruct strs as [|s1 strs]; [congruence|].
    rewrite Henc. cbn [obind]. unfold build_entry. rewrite Hsc. cbn [obind]. now rewrite Hret.
  - destruct Hp as [s ->]. cbn [join0] in *. inversion Hs as [|? ? Hs0 _]; subst.
    rewrite split_all_no_sep by exact Hs0.
    rewrite Henc. cbn [obind]. unfold build_entry. rewrite Hsc, bytes_eqb_refl. cbn [obind]. now rewrite Hret.
Qed.

Lemma finish_entry_sound : forall asc first enc last k0 rest v e' cs' last',
  ~ In 0 k0 -> (rest = [] \/ exists p, rest = [p] /\ ~ In 0 p) ->
  finish_entry asc first enc last k0 rest v = Ok (e', cs', last') ->
  let e := as_returned e' in
  wf_entry e /\ sort_key e = k0 /\ last' = k0 /\ plural_part e = rest /\ val_of e = v /\
  (if first then cs' = choose_encoding asc enc k0 v
   else exists l, last = Some l /\ lex_le l k0 /\ enc = Some cs').
Proof.
  intros asc first enc last k0 rest v e' cs' last' Hk Hrest H.
  unfold finish_entry in H.
  destruct (split_all_spec v) as [Hall Hjoin].
  assert (Hne := split_all_nonempty 0 v).
  set (encr := if first then Ok (choose_encoding asc enc k0 v)
               else match last with
                    | None => Crash CTypeError
                    | Some l => if bytes_ltb k0 l then Err (MoSyntax MNotSorted)
                                else match enc with Some e0 => Ok e0 | None => Crash CAssertion end
                    end : outcome bytes mo_err) in *.
  assert (Henc : forall cs, encr = Ok cs ->
            if first then cs = choose_encoding asc enc k0 v else exists l, last = Some l /\ lex_le l k0 /\ enc = Some cs).
  { intros cs E. unfold encr in E. destruct first; [now inversion E|].
    destruct last as [l|]; [|discriminate]. destruct (bytes_ltb k0 l) eqn:B; [discriminate|].
    destruct enc as [e0|]; [|discriminate]. inversion E; subst. exists l. split; [reflexivity|].
    split; [now apply bytes_ltb_false|reflexivity]. }
  destruct (split_ctxt k0) as [a oc] eqn:Sc.
  destruct Hrest as [->|(p & -> & Hp)].
  - destruct (split_all 0 v) as [|s [|s2 t]] eqn:Sv; [congruence| |discriminate].
    destruct encr as [cs| |] eqn:Er; cbn [obind] in H; try discriminate.
    unfold build_entry in H. rewrite Sc in H.
    destruct (bytes_eqb s v) eqn:B; [|discriminate]. cbn [obind] in H. inversion H; subst e' cs' last'; clear H.
    destruct (split_ctxt_sound k0 a oc None [v] Sc) as [Hkey0 H40].
    cbv zeta in *.
    match goal with |- context [as_returned ?x] => remember (as_returned x) as e eqn:He end.
    assert (Hkey : sort_key e = k0) by (first [exact Hkey0 | rewrite He; exact Hkey0]).
    assert (H4 : match e_ctxt e with Some c => no_byte 4 c | None => no_byte 4 (e_id e) end) by (first [exact H40 | rewrite He; exact H40]).
    clear Hkey0 H40.
    assert (Hpl : e_plural e = None) by (rewrite He; unfold as_returned; destruct oc; reflexivity).
    assert (Hst : e_strs e = [v]) by (rewrite He; unfold as_returned; destruct oc; reflexivity).
    clear He.
    apply bytes_eqb_eq in B. subst s. cbn [join0] in Hjoin.
    split; [|split; [exact Hkey|split; [reflexivity|split; [|split; [|now apply Henc]]]]].
    + unfold wf_entry. rewrite Hpl, Hst. split; [|split; [|split]].
      * unfold sort_key in Hkey. destruct (e_ctxt e) as [c|]; [|exact H4]. split; [|exact H4].
        intros Hin. apply Hk. rewrite <- Hkey. apply in_or_app. left. apply in_or_app. now left.
      * intros Hin. apply Hk. rewrite <- Hkey. unfold sort_key. apply in_or_app. now right.
      * eauto.
      * exact Hall.
    + unfold plural_part. now rewrite Hpl.
    + unfold val_of. now rewrite Hst.
  - destruct encr as [cs| |] eqn:Er; cbn [obind] in H.
    2,3: destruct (split_all 0 v) as [|? [|? ?]]; discriminate.
    assert (H' : (do e <- build_entry k0 [k0; p] v (split_all 0 v); Ok (e, cs, k0)) = (Ok (e', cs', last') : outcome _ mo_err)).
    { destruct (split_all 0 v) as [|? [|? ?]]; exact H. }
    clear H. unfold build_entry in H'. rewrite Sc in H'.
    destruct (split_all 0 v) as [|s1 t] eqn:Sv; [congruence|]. cbn [obind] in H'.
    inversion H'; subst e' cs' last'; clear H'.
    destruct (split_ctxt_sound k0 a oc (Some p) (s1 :: t) Sc) as [Hkey0 H40].
    cbv zeta in *.
    match goal with |- context [as_returned ?x] => remember (as_returned x) as e eqn:He end.
    assert (Hkey : sort_key e = k0) by (first [exact Hkey0 | rewrite He; exact Hkey0]).
    assert (H4 : match e_ctxt e with Some c => no_byte 4 c | None => no_byte 4 (e_id e) end) by (first [exact H40 | rewrite He; exact H40]).
    clear Hkey0 H40.
    assert (Hpl : e_plural e = Some p) by (rewrite He; unfold as_returned; destruct oc; reflexivity).
    assert (Hst : e_strs e = s1 :: t) by (rewrite He; unfold as_returned; destruct oc; reflexivity).
    clear He.
    split; [|split; [exact Hkey|split; [reflexivity|split; [|split; [|now apply Henc]]]]].
    + unfold wf_entry. rewrite Hpl, Hst. split; [|split; [|split]].
      * unfold sort_key in Hkey. destruct (e_ctxt e) as [c|]; [|exact H4]. split; [|exact H4].
        intros Hin. apply Hk. rewrite <- Hkey. apply in_or_app. left. apply in_or_app. now left.
      * intros Hin. apply Hk. rewrite <- Hkey. unfold sort_key. apply in_or_app. now right.
      * split; [exact Hp|discriminate].
      * exact Hall.
    + unfold plural_part. now rewrite Hpl.
    + unfold val_of. now rewrite Hst.
Qed.

Lemma finish_entry_no_crash : forall asc first enc last k0 rest v c,
  (rest = [] \/ exists p, rest = [p]) ->
  (first = false -> last <> None /\ enc <> None) ->
  finish_entry asc first enc last k0 rest v <> Crash c.
Proof.
  intros asc first enc last k0 rest v c Hrest Hst H. unfold finish_entry in H.
  assert (Hne := split_all_nonempty 0 v).
  set (encr := if first then Ok (choose_encoding asc enc k0 v)
               else match last with
                    | None => Crash CTypeError
                    | Some l => if bytes_ltb k0 l then Err (MoSyntax MNotSorted)
                                else match enc with Some e0 => Ok e0 | None => Crash CAssertion end
                    end : outcome bytes mo_err) in *.
  assert (Henc : forall c', encr <> Crash c').
  { intros c' E. unfold encr in E. destruct first; [discriminate|]. destruct (Hst eq_refl) as [H1 H2].
    destruct last as [l|]; [|congruence]. destruct (bytes_ltb k0 l); [discriminate|].
    destruct enc; [discriminate|congruence]. }
  destruct (split_ctxt k0) as [a oc] eqn:Sc.
  destruct Hrest as [->|(p & ->)].
  - destruct (split_all 0 v) as [|s [|s2 t]] eqn:Sv; [congruence| |discriminate].
    destruct encr as [cs|x|c'] eqn:Er; cbn [obind] in H; [|discriminate|now apply (Henc c')].
    unfold build_entry in H. rewrite Sc in H.
    assert (s = v) by (now apply split_all_single). subst s. rewrite bytes_eqb_refl in H. discriminate.
  - destruct encr as [cs|x|c'] eqn:Er; cbn [obind] in H.
    + assert (H' : (do e <- build_entry k0 [k0; p] v (split_all 0 v); Ok (e, cs, k0)) = (Crash c : outcome (mo_entry * bytes * bytes) mo_err)).
      { destruct (split_all 0 v) as [|? [|? ?]]; exact H. }
      unfold build_entry in H'. rewrite Sc in H'. destruct (split_all 0 v) as [|s1 t]; [congruence|]. discriminate.
    + destruct (split_all 0 v) as [|? [|? ?]]; discriminate.
    + apply (Henc c'). reflexivity.
Qed.

(* ------------------------------------------------------------------ *)
(* parse_entry *)

Lemma wf_key_split : forall e, wf_entry e -> splitn 2 0 (key_of e) = sort_key e :: plural_part e.
Proof.
  intros e Hwf. assert (H0 := wf_sort_key_no0 e Hwf). destruct Hwf as (_ & _ & Hp & _).
  unfold key_of, plural_part. destruct (e_plural e) as [p|].
  - destruct Hp as [Hp _]. now apply splitn2_two.
  - rewrite app_nil_r. now apply splitn2_one.
Qed.

Lemma parse_entry_complete : forall asc be f first enc last ko vo e d,
  wf_entry e -> entry_at f be ko vo e d ->
  (first = false -> exists l cs, last = Some l /\ lex_le l (sort_key e) /\ enc = Some cs) ->
  parse_entry asc be f first enc last ko vo =
  Ok (as_returned e,
      (if first then choose_encoding asc enc (sort_key e) (val_of e) else match enc with Some cs => cs | None => [] end),
      sort_key e).
Proof.
  intros asc be f first enc last ko vo e d Hwf (K1 & K2 & V1 & V2 & K3 & K4 & V3 & V4) Hst.
  unfold parse_entry.
  rewrite (read_string_complete _ _ _ _ _ _ _ K1 K2 K3 K4). cbn [obind].
  rewrite (wf_key_split e Hwf).
  assert (Hpp : plural_part e = [] \/ exists p, plural_part e = [p]).
  { unfold plural_part. destruct (e_plural e); eauto. }
  assert (E : (do msgstr <- read_string be f vo MStrNotTerminated; finish_entry asc first enc last (sort_key e) (plural_part e) msgstr)
              = Ok (as_returned e, (if first then choose_encoding asc enc (sort_key e) (val_of e) else match enc with Some cs => cs | None => [] end), sort_key e)).
  { rewrite (read_string_complete _ _ _ _ _ _ _ V1 V2 V3 V4). cbn [obind]. now apply finish_entry_complete. }
  destruct Hpp as [Hpp|[p Hpp]]; rewrite Hpp in *; exact E.
Qed.

Lemma parse_entry_sound : forall asc be f first enc last ko vo e' cs' last',
  bytes_ok f ->
  parse_entry asc be f first enc last ko vo = Ok (e', cs', last') ->
  let e := as_returned e' in
  exists d, entry_at f be ko vo e d /\ wf_entry e /\ last' = sort_key e /\
  (if first then cs' = choose_encoding asc enc (sort_key e) (val_of e)
   else exists l, last = Some l /\ lex_le l (sort_key e) /\ enc = Some cs').
Proof.
  intros asc be f first enc last ko vo e' cs' last' Hf H. unfold parse_entry in H.
  destruct (read_string be f ko MIdNotTerminated) as [key| |] eqn:Rk; cbn [obind] in H; try discriminate.
  destruct (read_string_sound _ _ _ _ _ Hf Rk) as (kn & koff & K1 & K2 & K3 & K4).
  assert (Hcases := splitn2_cases key).
  assert (Hmid : exists k0 rest, key = k0 ++ match rest with [p] => 0 :: p | _ => [] end /\ ~ In 0 k0 /\
             (rest = [] \/ exists p, rest = [p] /\ ~ In 0 p) /\
             (do msgstr <- read_string be f vo MStrNotTerminated; finish_entry asc first enc last k0 rest msgstr) = Ok (e', cs', last')).
  { destruct Hcases as [[Hn E]|[(a & b & -> & Ha & Hb & E)|(a & b & c & -> & E)]]; rewrite E in H.
    - exists key, []. rewrite app_nil_r. auto.
    - exists a, [b]. split; [reflexivity|]. split; [exact Ha|]. split; [right; eauto|exact H].
    - discriminate. }
  clear H Hcases. destruct Hmid as (k0 & rest & Hkey & Hk0 & Hrest & H).
  destruct (read_string be f vo MStrNotTerminated) as [v| |] eqn:Rv; cbn [obind] in H; try discriminate.
  destruct (read_string_sound _ _ _ _ _ Hf Rv) as (vn & voff & V1 & V2 & V3 & V4).
  destruct (finish_entry_sound _ _ _ _ _ _ _ _ _ _ Hk0 Hrest H) as (Hwf & Hsk & Hl & Hpp & Hv & Hcs).
  exists {| d_klen := kn; d_koff := koff; d_vlen := vn; d_voff := voff |}.
  assert (Hk : key_of (as_returned e') = key).
  { unfold key_of. rewrite Hsk, Hkey. f_equal. unfold plural_part in Hpp.
    destruct (e_plural (as_returned e')) as [p|]; rewrite <- Hpp; reflexivity. }
  split; [|split; [exact Hwf|split; [congruence|]]].
  - unfold entry_at. cbn [d_klen d_koff d_vlen d_voff]. rewrite Hk, Hv. tauto.
  - rewrite Hsk, Hv. exact Hcs.
Qed.

Lemma parse_entry_no_crash : forall asc be f first enc last ko vo c,
  (first = false -> last <> None /\ enc <> None) ->
  parse_entry asc be f first enc last ko vo <> Crash c.
Proof.
  intros asc be f first enc last ko vo c Hst H. unfold parse_entry in H.
  destruct (read_string be f ko MIdNotTerminated) as [key|x|c'] eqn:Rk; cbn [obind] in H;
    [|discriminate|now apply (read_string_no_crash _ _ _ _ _ Rk)].
  assert (Hfin : forall k0 rest, (rest = [] \/ exists p, rest = [p]) ->
            (do msgstr <- read_string be f vo MStrNotTerminated; finish_entry asc first enc last k0 rest msgstr) <> Crash c).
  { intros k0 rest Hrest E.
    destruct (read_string be f vo MStrNotTerminated) as [v|x|c'] eqn:Rv; cbn [obind] in E;
      [|discriminate|now apply (read_string_no_crash _ _ _ _ _ Rv)].
    now apply (finish_entry_no_crash _ _ _ _ _ _ _ _ Hrest Hst E). }
  destruct (splitn2_cases key) as [[Hn E]|[(a & b & -> & Ha & Hb & E)|(a & b & c0 & -> & E)]]; rewrite E in H.
  - apply (Hfin key []); auto.
  - apply (Hfin a [b]); eauto.
  - discriminate.
Qed.

Lemma parse_entry_inside : forall asc be f first enc last ko vo r,
  parse_entry asc be f first enc last ko vo = Ok r -> ko + 8 <= blen f.
Proof.
  intros asc be f first enc last ko vo r H. unfold parse_entry in H.
  destruct (read_string be f ko MIdNotTerminated) as [key| |] eqn:Rk; cbn [obind] in H; try discriminate.
  destruct (read_string_ok _ _ _ _ _ Rk) as (_ & _ & _ & _ & _ & L). exact L.
Qed.

(* ------------------------------------------------------------------ *)
(* the loop *)

Definition loop_state_ok (i : N) (enc last : option bytes) : Prop :=
  i <> 0 -> last <> None /\ enc <> None.

Lemma loop_no_crash : forall asc be f fuel i n otab ttab enc last es encf c,
  i + N.of_nat fuel = blen f ->
  loop_state_ok i enc last ->
  entries_loop asc be f fuel i n otab ttab enc last <> (es, encf, Crash c).
Proof.
  intros asc be f fuel. induction fuel as [|k IH]; intros i n otab ttab enc last es encf c Hfuel Hst H;
    cbn [entries_loop] in H; destruct (N.ltb i n); try discriminate.
  - destruct (parse_entry asc be f (i =? 0) enc last (otab + 8 * i) (ttab + 8 * i)) as [[[e enc'] last']|x|c'] eqn:P.
    + apply parse_entry_inside in P. cbn [N.of_nat] in Hfuel. lia.
    + discriminate.
    + inversion H; subst. apply (parse_entry_no_crash _ _ _ _ _ _ _ _ _ ) in P; [exact P|].
      intros E. apply N.eqb_neq in E. now apply Hst.
  - destruct (parse_entry asc be f (i =? 0) enc last (otab + 8 * i) (ttab + 8 * i)) as [[[e enc'] last']|x|c'] eqn:P.
    + destruct (entries_loop asc be f k (i + 1) n otab ttab (Some enc') (Some last')) as [[es2 encf2] r2] eqn:L.
      inversion H; subst. apply (IH _ _ _ _ _ _ _ _ _) in L; [exact L| |].
      * rewrite Nat2N.inj_succ in Hfuel. lia.
      * intros _. split; discriminate.
    + discriminate.
    + inversion H; subst. apply (parse_entry_no_crash _ _ _ _ _ _ _ _ _ ) in P; [exact P|].
      intros E. apply N.eqb_neq in E. now apply Hst.
Qed.

(* the charset the loop ends with *)
Definition loop_charset (asc : bytes -> bool) (i : N) (enc : option bytes) (es : list mo_entry) : option bytes :=
  if N.eqb i 0 then
    match es with
    | [] => enc
    | e :: _ => Some (choose_encoding asc enc (sort_key e) (val_of e))
    end
  else enc.

Lemma loop_complete : forall asc be f otab ttab es ds fuel i n enc last,
  entries_at f be otab ttab i es ds -> Forall wf_entry es -> keys_sorted es ->
  n = i + N.of_nat (length es) ->
  (length es <= fuel)%nat ->
  (i <> 0 -> exists l cs, last = Some l /\ enc = Some cs /\ match es with e :: _ => lex_le l (sort_key e) | [] => True end) ->
  entries_loop asc be f fuel i n otab ttab enc last = (map as_returned es, loop_charset asc i enc es, Ok tt).
Proof.
  intros asc be f otab ttab es. induction es as [|e es IH]; intros ds fuel i n enc last Hat Hwf Hsort Hn Hfuel Hst.
  - cbn [length N.of_nat] in Hn. rewrite N.add_0_r in Hn. rewrite Hn.
    assert (E : entries_loop asc be f fuel i i otab ttab enc last = ([], enc, Ok tt)).
    { destruct fuel; cbn [entries_loop]; rewrite N.ltb_irrefl; reflexivity. }
    rewrite E. unfold loop_charset. destruct (i =? 0); reflexivity.
  - inversion Hat as [|? ? d ? ds' Hent Hat' Ei Ees Eds]. inversion Hwf as [|? ? Hwe Hwf' Ew]. clear Hat Hwf.
    cbn [length] in Hn, Hfuel. rewrite Nat2N.inj_succ in Hn.
    destruct fuel as [|k]; [lia|].
    cbn [entries_loop]. destruct (N.ltb_spec i n) as [L|L]; [|lia].
    assert (Hfirst : (i =? 0) = false -> exists l cs, last = Some l /\ lex_le l (sort_key e) /\ enc = Some cs).
    { intros E. apply N.eqb_neq in E. destruct (Hst E) as (l0 & cs0 & -> & -> & Hle). eauto. }
    rewrite (parse_entry_complete asc be f (i =? 0) enc last _ _ e d Hwe Hent Hfirst).
    set (enc' := if i =? 0 then choose_encoding asc enc (sort_key e) (val_of e) else match enc with Some cs => cs | None => [] end).
    rewrite (IH ds' k (i + 1) n (Some enc') (Some (sort_key e))); try assumption.
    + cbn [map]. f_equal. f_equal. unfold loop_charset.
      destruct (N.eqb_spec (i + 1) 0) as [E|E]; [lia|].
      unfold enc'. destruct (N.eqb_spec i 0) as [E0|E0]; [reflexivity|].
      destruct (Hst E0) as (l0 & cs0 & _ & -> & _). reflexivity.
    + inversion Hsort; [constructor|assumption].
    + lia.
    + lia.
    + intros _. exists (sort_key e), enc'. split; [reflexivity|split; [reflexivity|]].
      destruct es as [|e2 es]; [exact I|]. inversion Hsort. assumption.
Qed.

Lemma loop_sound : forall asc be f fuel i n otab ttab enc last es' encf,
  bytes_ok f ->
  entries_loop asc be f fuel i n otab ttab enc last = (es', encf, Ok tt) ->
  i <= n ->
  exists ds, entries_at f be otab ttab i (map as_returned es') ds /\ Forall wf_entry (map as_returned es') /\
    keys_sorted (map as_returned es') /\
    n = i + N.of_nat (length es') /\ encf = loop_charset asc i enc (map as_returned es') /\
    match map as_returned es' with e :: _ => i <> 0 -> exists l, last = Some l /\ lex_le l (sort_key e) | [] => True end.
Proof.
  intros asc be f fuel. induction fuel as [|k IH]; intros i n otab ttab enc last es' encf Hf H Hin;
    cbn [entries_loop] in H; destruct (N.ltb_spec i n) as [L|L].
  - destruct (parse_entry asc be f (i =? 0) enc last (otab + 8 * i) (ttab + 8 * i)) as [[[e enc'] last']|x|c']; discriminate.
  - inversion H; subst. exists []. cbn [map length N.of_nat]. repeat split; try constructor; try lia.
    unfold loop_charset. destruct (i =? 0); reflexivity.
  - destruct (parse_entry asc be f (i =? 0) enc last (otab + 8 * i) (ttab + 8 * i)) as [[[e enc'] last']|x|c'] eqn:P; try discriminate.
    destruct (entries_loop asc be f k (i + 1) n otab ttab (Some enc') (Some last')) as [[es2 encf2] r2] eqn:L2.
    inversion H; subst es' encf r2; clear H.
    destruct (parse_entry_sound _ _ _ _ _ _ _ _ _ _ _ Hf P) as (d & Hent & Hwf & Hl & Hcs).
    destruct (IH _ _ _ _ _ _ _ _ Hf L2) as (ds & Hat & Hwfs & Hsort & Hn & Hencf & Hhead); [lia|].
    exists (d :: ds). cbn [map length]. rewrite Nat2N.inj_succ.
    split; [constructor; assumption|]. split; [constructor; assumption|].
    split; [|split; [lia|split]].
    + destruct (map as_returned es2) as [|e2 r] eqn:M; [constructor|].
      constructor; [|exact Hsort]. destruct Hhead as (l & El & Hle); [lia|]. inversion El; subst l. rewrite <- Hl. exact Hle.
    + rewrite Hencf. unfold loop_charset. destruct (N.eqb_spec (i + 1) 0) as [E|E]; [lia|].
      destruct (N.eqb_spec i 0) as [E0|E0].
      * now rewrite Hcs.
      * destruct Hcs as (l & _ & _ & ->). reflexivity.
    + intros E0. destruct (N.eqb_spec i 0) as [E1|_]; [contradiction|].
      destruct Hcs as (l & -> & Hle & _). eauto.
  - inversion H; subst. exists []. cbn [map length N.of_nat]. repeat split; try constructor; try lia.
    unfold loop_charset. destruct (i =? 0); reflexivity.
Qed.

Lemma entries_at_bound : forall f be otab ttab i es ds, entries_at f be otab ttab i es ds -> es <> [] ->
  8 * (i + N.of_nat (length es)) <= blen f + 4.
Proof.
  intros f be otab ttab i es ds H. induction H as [i|i e d es ds Hent Hat IH]; intros Hne; [congruence|].
  cbn [length]. rewrite Nat2N.inj_succ. destruct es as [|e2 es].
  - destruct Hent as ([_ Hw] & _). apply at_off_inside in Hw. rewrite blen_word_bytes in Hw. cbn [length N.of_nat]. lia.
  - assert (IH' := IH ltac:(discriminate)). lia.
Qed.

Lemma entries_at_fuel : forall f be otab ttab es ds, entries_at f be otab ttab 0 es ds -> (length es <= length f)%nat.
Proof.
  intros f be otab ttab es ds H. destruct es as [|e es]; [cbn [length]; lia|].
  apply entries_at_bound in H; [|discriminate]. unfold blen in H. lia.
Qed.

(* ------------------------------------------------------------------ *)
(* the header *)

Lemma magic_bytes_le : word_bytes false magic = le_magic.
Proof. reflexivity. Qed.
Lemma magic_bytes_be : word_bytes true magic = be_magic.
Proof. reflexivity. Qed.
Lemma magic_lt : magic < 4294967296.
Proof. reflexivity. Qed.

Lemma slice_0_4 : forall f, slice f 0 4 = take 4 f.
Proof. intros f. unfold slice. rewrite drop_0. reflexivity. Qed.

Definition magic_of (be : bool) : bytes := if be then be_magic else le_magic.

Lemma magic_complete : forall be f, has_word be f 0 magic -> slice f 0 4 = magic_of be.
Proof.
  intros be f [_ H]. rewrite slice_0_4. destruct (at_off_drop _ _ _ H) as [_ [post E]]. rewrite drop_0 in E.
  rewrite E. rewrite <- (blen_word_bytes be magic), take_app_blen. destruct be; reflexivity.
Qed.

Lemma magic_sound : forall be f, slice f 0 4 = magic_of be -> has_word be f 0 magic.
Proof.
  intros be f H. split; [exact magic_lt|]. rewrite slice_0_4 in H.
  unfold at_off. exists (@nil N), (drop 4 f). split; [|reflexivity]. cbn [app].
  assert (E : word_bytes be magic = take 4 f) by (rewrite H; destruct be; reflexivity).
  rewrite E. symmetry. apply take_drop_id.
Qed.

Lemma revision_split : forall major minor, minor < 65536 ->
  (major * 65536 + minor) / 65536 = major /\ (major * 65536 + minor) mod 65536 = minor.
Proof.
  intros major minor H. split.
  - symmetry. apply (N.div_unique _ 65536 major minor); [exact H|lia].
  - symmetry. apply (N.mod_unique _ 65536 major minor); [exact H|lia].
Qed.

Definition header_of (L : layout) (n : N) (h : bool) : mo_header :=
  {| h_be := l_be L; h_n := n; h_hidden := h; h_otab := l_otab L; h_ttab := l_ttab L |}.

Lemma parse_header_complete : forall f L c h, Encodes_at f L c h ->
  parse_header f = Ok (header_of L (N.of_nat (length c)) h).
Proof.
  intros f L c h (Hm & Hmaj & Hmin & Hrev & Hn & Ho & Ht & Hh & _).
  unfold parse_header. cbv zeta. rewrite (magic_complete _ _ Hm).
  assert (Ebe : (if bytes_eqb (magic_of (l_be L)) le_magic then Ok false
                 else if bytes_eqb (magic_of (l_be L)) be_magic then Ok true
                 else Err (MoSyntax MMagic)) = (Ok (l_be L) : outcome bool mo_err)) by (destruct (l_be L); reflexivity).
  rewrite Ebe. cbn [obind].
  rewrite (read_int_complete _ _ _ _ Hrev). cbn [obind].
  destruct (revision_split (l_major L) (l_minor L) Hmin) as [-> ->].
  destruct (N.ltb_spec 1 (l_major L)) as [X|_]; [lia|].
  rewrite (read_int_complete _ _ _ _ Hn). cbn [obind].
  assert (Ehid : (if 1 <? l_minor L then Ok true
                  else if l_minor L =? 1 then do ns <- read_int (l_be L) f 36; Ok (0 <? ns) else Ok false)
                 = (Ok h : outcome bool mo_err)).
  { unfold hidden_of in Hh. destruct (1 <? l_minor L); [now subst h|].
    destruct (l_minor L =? 1); [|now subst h].
    destruct Hh as (w & Hw & ->). rewrite (read_int_complete _ _ _ _ Hw). reflexivity. }
  rewrite Ehid. cbn [obind].
  rewrite (read_int2_complete _ _ 12 _ _ Ho Ht). reflexivity.
Qed.

Lemma parse_header_sound : forall f hd, bytes_ok f -> parse_header f = Ok hd ->
  exists major minor,
    has_word (h_be hd) f 0 magic /\ major <= 1 /\ minor < 65536 /\
    has_word (h_be hd) f 4 (major * 65536 + minor) /\
    has_word (h_be hd) f 8 (h_n hd) /\
    has_word (h_be hd) f 12 (h_otab hd) /\ has_word (h_be hd) f 16 (h_ttab hd) /\
    hidden_of f (h_be hd) minor (h_hidden hd).
Proof.
  intros f hd Hf H. unfold parse_header in H. cbv zeta in H.
  assert (Hbe : exists be, slice f 0 4 = magic_of be /\
            (do revision <- read_int be f 4;
             if 1 <? revision / 65536 then Err (MoSyntax (MMajor (revision / 65536)))
             else do n <- read_int be f 8;
                  do hidden <- (if 1 <? revision mod 65536 then Ok true
                                else if revision mod 65536 =? 1 then do ns <- read_int be f 36; Ok (0 <? ns) else Ok false);
                  do tabs <- read_int2 be f 12;
                  (let '(otab, ttab) := tabs in Ok {| h_be := be; h_n := n; h_hidden := hidden; h_otab := otab; h_ttab := ttab |})) = Ok hd).
  { destruct (bytes_eqb (slice f 0 4) le_magic) eqn:B1.
    - exists false. split; [now apply bytes_eqb_eq|exact H].
    - destruct (bytes_eqb (slice f 0 4) be_magic) eqn:B2; [|discriminate].
      exists true. split; [now apply bytes_eqb_eq|exact H]. }
  clear H. destruct Hbe as (be & Hmag & H).
  destruct (read_int be f 4) as [rev| |] eqn:R4; cbn [obind] in H; try discriminate.
  destruct (N.ltb_spec 1 (rev / 65536)) as [X|Hmaj]; [discriminate|].
  destruct (read_int be f 8) as [n| |] eqn:R8; cbn [obind] in H; try discriminate.
  set (hid := if 1 <? rev mod 65536 then Ok true
              else if rev mod 65536 =? 1 then do ns <- read_int be f 36; Ok (0 <? ns) else Ok false : outcome bool mo_err) in *.
  destruct hid as [hidden| |] eqn:Hh; cbn [obind] in H; try discriminate.
  destruct (read_int2 be f 12) as [[otab ttab]| |] eqn:R12; cbn [obind] in H; try discriminate.
  inversion H; subst hd; clear H. cbn [h_be h_n h_hidden h_otab h_ttab].
  exists (rev / 65536), (rev mod 65536).
  destruct (read_int2_sound _ _ _ _ _ Hf R12) as [Ho Ht].
  split; [now apply magic_sound|]. split; [exact Hmaj|]. split; [apply N.mod_lt; discriminate|].
  split. { replace (rev / 65536 * 65536 + rev mod 65536) with rev; [now apply read_int_sound|].
           rewrite (N.div_mod rev 65536) at 1 by discriminate. lia. }
  split; [now apply read_int_sound|]. split; [exact Ho|]. split; [exact Ht|].
  unfold hidden_of. unfold hid in Hh. destruct (1 <? rev mod 65536); [now inversion Hh|].
  destruct (rev mod 65536 =? 1); [|now inversion Hh].
  destruct (read_int be f 36) as [ns| |] eqn:R36; cbn [obind] in Hh; try discriminate.
  inversion Hh. exists ns. split; [now apply read_int_sound|reflexivity].
Qed.

Lemma parse_header_no_crash : forall f c, parse_header f <> Crash c.
Proof.
  intros f c H. unfold parse_header in H. cbv zeta in H.
  assert (Hgen : forall be,
            (do revision <- read_int be f 4;
             if 1 <? revision / 65536 then Err (MoSyntax (MMajor (revision / 65536)))
             else do n <- read_int be f 8;
                  do hidden <- (if 1 <? revision mod 65536 then Ok true
                                else if revision mod 65536 =? 1 then do ns <- read_int be f 36; Ok (0 <? ns) else Ok false);
                  do tabs <- read_int2 be f 12;
                  (let '(otab, ttab) := tabs in Ok {| h_be := be; h_n := n; h_hidden := hidden; h_otab := otab; h_ttab := ttab |})) <> Crash c).
  { intros be E.
    destruct (read_int be f 4) as [rev|x|c'] eqn:R4; cbn [obind] in E; [|discriminate|now apply (read_int_no_crash _ _ _ _ R4)].
    destruct (1 <? rev / 65536); [discriminate|].
    destruct (read_int be f 8) as [n|x|c'] eqn:R8; cbn [obind] in E; [|discriminate|now apply (read_int_no_crash _ _ _ _ R8)].
    destruct (1 <? rev mod 65536); cbn [obind] in E.
    - destruct (read_int2 be f 12) as [[otab ttab]|x|c'] eqn:R12; cbn [obind] in E; [discriminate|discriminate|now apply (read_int2_no_crash _ _ _ _ R12)].
    - destruct (rev mod 65536 =? 1); cbn [obind] in E.
      + destruct (read_int be f 36) as [ns|x|c'] eqn:R36; cbn [obind] in E; [|discriminate|now apply (read_int_no_crash _ _ _ _ R36)].
        destruct (read_int2 be f 12) as [[otab ttab]|x|c'] eqn:R12; cbn [obind] in E; [discriminate|discriminate|now apply (read_int2_no_crash _ _ _ _ R12)].
      + destruct (read_int2 be f 12) as [[otab ttab]|x|c'] eqn:R12; cbn [obind] in E; [discriminate|discriminate|now apply (read_int2_no_crash _ _ _ _ R12)]. }
  destruct (bytes_eqb (slice f 0 4) le_magic).
  - now apply (Hgen false).
  - destruct (bytes_eqb (slice f 0 4) be_magic); [now apply (Hgen true)|discriminate].
Qed.

(* ------------------------------------------------------------------ *)
(* the parser *)

Definition catalog_charset (asc : bytes -> bool) (enc0 : option bytes) (c : list mo_entry) : option bytes :=
  loop_charset asc 0 enc0 c.

Theorem mo_parse_total : forall asc enc0 f c, mo_parse asc enc0 f <> Crash c.
Proof.
  intros asc enc0 f c H. unfold mo_parse, mo_run in H.
  destruct (parse_header f) as [hd|x|c'] eqn:P; [|discriminate|inversion H; subst; now apply (parse_header_no_crash _ _ P)].
  destruct (entries_loop asc (h_be hd) f (length f) 0 (h_n hd) (h_otab hd) (h_ttab hd) enc0 None) as [[es enc] r] eqn:L.
  destruct r as [u|x|c']; try discriminate. inversion H; subst c'.
  apply (loop_no_crash _ _ _ _ _ _ _ _ _ _ _ _ c) in L; [exact L| |].
  - reflexivity.
  - intros X. congruence.
Qed.

Theorem mo_parse_complete : forall asc enc0 f L c h, wf_catalog c -> Encodes_at f L c h ->
  mo_parse asc enc0 f = Ok {| o_entries := map as_returned c; o_charset := catalog_charset asc enc0 c; o_hidden := h |}.
Proof.
  intros asc enc0 f L c h [Hwf Hsort] HE. unfold mo_parse, mo_run.
  rewrite (parse_header_complete _ _ _ _ HE). unfold header_of. cbn [h_be h_n h_hidden h_otab h_ttab].
  destruct HE as (_ & _ & _ & _ & _ & _ & _ & _ & Hat).
  rewrite (loop_complete asc (l_be L) f (l_otab L) (l_ttab L) c (l_desc L) (length f) 0 (N.of_nat (length c)) enc0 None Hat Hwf Hsort).
  - reflexivity.
  - lia.
  - now apply (entries_at_fuel _ _ _ _ _ _ Hat).
  - intros X. congruence.
Qed.

Theorem mo_parse_sound : forall asc enc0 f o, bytes_ok f -> mo_parse asc enc0 f = Ok o ->
  exists L, Encodes_at f L (map as_returned (o_entries o)) (o_hidden o) /\
            wf_catalog (map as_returned (o_entries o)) /\
            o_charset o = catalog_charset asc enc0 (map as_returned (o_entries o)).
Proof.
  intros asc enc0 f o Hf H. unfold mo_parse, mo_run in H.
  destruct (parse_header f) as [hd| |] eqn:P; try discriminate.
  destruct (entries_loop asc (h_be hd) f (length f) 0 (h_n hd) (h_otab hd) (h_ttab hd) enc0 None) as [[es enc] r] eqn:Lp.
  destruct r as [[]| |]; try discriminate. inversion H; subst o; clear H. cbn [o_entries o_charset o_hidden].
  destruct (parse_header_sound _ _ Hf P) as (major & minor & Hm & Hmaj & Hmin & Hrev & Hn & Ho & Ht & Hh).
  destruct (loop_sound _ _ _ _ _ _ _ _ _ _ _ _ Hf Lp) as (ds & Hat & Hwf & Hsort & Hlen & Hcs & _); [lia|].
  exists {| l_be := h_be hd; l_major := major; l_minor := minor; l_otab := h_otab hd; l_ttab := h_ttab hd; l_desc := ds |}.
  split; [|split; [split; assumption|exact Hcs]].
  unfold Encodes_at. cbn [l_be l_major l_minor l_otab l_ttab l_desc].
  rewrite map_length. rewrite N.add_0_l in Hlen. rewrite <- Hlen. tauto.
Qed.

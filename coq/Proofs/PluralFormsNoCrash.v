(* check_plurals never raises a foreign exception when int() has no digit limit (the generated
   int_max_str_digits is 0 after `import lib`): the plural-expression parser cannot crash
   (Proofs/IntExprLex.v: fuel sufficiency + no over-long constant), neither can the registry
   parse, and the range analysis' assertions are dead (Proofs/Codomain.v). *)
From Coq Require Import List ZArith Bool Lia.
From I18n Require Import Lib.Outcome Model.IntExpr Model.PluralForms
  Proofs.Codomain Proofs.IntExprComplete Proofs.IntExprLex Proofs.PluralForms.
Import ListNotations.
Local Open Scope Z_scope.

Lemma parse_plural_forms_no_crash s c : parse_plural_forms 0 s <> Crash c.
Proof.
  unfold parse_plural_forms.
  destruct (pf_search s) as [[[[l ds] body] r]|]; [|discriminate].
  change (max_digits_ok 0 (N.of_nat (length ds))) with true. cbn [negb].
  destruct (parse_string 0 body) as [e|k|c'] eqn:E; try discriminate.
  intros H. eapply (parse_string_no_crash 0 body c'); [apply digits_ok_unlimited|exact E].
Qed.

Lemma parse_plural_forms_strict_no_crash s c : parse_plural_forms_strict 0 s <> Crash c.
Proof.
  unfold parse_plural_forms_strict.
  destruct (parse_plural_forms 0 s) as [[[[n e] l] r]|k|c'] eqn:E; cbn.
  - destruct l; [destruct r|]; discriminate.
  - discriminate.
  - intros _. eapply parse_plural_forms_no_crash; eauto.
Qed.

Lemma parse_registry_no_crash l c : parse_registry 0 l <> Crash c.
Proof.
  induction l as [|s r IH]; cbn [parse_registry]; [discriminate|].
  destruct (parse_plural_forms_strict 0 s) as [x|k|c'] eqn:E; cbn.
  - destruct (parse_registry 0 r) as [xs|k|c'']; cbn; try discriminate.
    intros H; inversion H; subst. apply IH. reflexivity.
  - discriminate.
  - intros _. eapply parse_plural_forms_strict_no_crash; eauto.
Qed.

Theorem check_plurals_core_no_crash inp c : check_plurals_core 0 inp <> Crash c.
Proof.
  unfold check_plurals_core.
  destruct (parse_plural_forms 0 (pf_value inp)) as [[[[n e] l] r]|k|c'] eqn:E.
  - assert (Hreg : forall c0, match pf_correct inp with
                   | None => Ok None
                   | Some l0 => do r0 <- parse_registry 0 l0; Ok (Some r0)
                   end <> (Crash c0 : outcome (option (list (Z * expr))) pf_err)).
    { intros c0. destruct (pf_correct inp) as [l0|]; [|discriminate].
      destruct (parse_registry 0 l0) as [r0|k|c1] eqn:Er; cbn; try discriminate.
      intros _. eapply parse_registry_no_crash; eauto. }
    destruct (match pf_correct inp with
              | None => Ok None
              | Some l0 => do r0 <- parse_registry 0 l0; Ok (Some r0)
              end) as [reg|k|c0] eqn:Er; cbn [obind].
    + destruct (window_loop e n _ (zrange 0 window) [] false []) as [dl pre].
      pose proof (codomain_no_assert M32 e ltac:(unfold M32; lia)) as Hc.
      destruct (codomain M32 e); try discriminate. congruence.
    + discriminate.
    + exfalso. eapply Hreg; eauto.
  - discriminate.
  - exfalso. eapply parse_plural_forms_no_crash; eauto.
Qed.

(* hence the syntax-error diagnostic is exact, with no crash alternative *)
Theorem syntax_error_iff_exact inp :
  check_plurals_core 0 inp = Ok ([DSyntax], None) <-> parse_plural_forms 0 (pf_value inp) = Err PFSyntax.
Proof.
  destruct (syntax_error_iff 0 inp) as [[c H]|H]; [|exact H].
  exfalso. eapply parse_plural_forms_no_crash; eauto.
Qed.

(* parse_plural_forms is total: a declaration (n, e, junk) or the syntax error *)
Theorem parse_plural_forms_total s :
  (exists n e l r, parse_plural_forms 0 s = Ok (n, e, l, r)) \/ parse_plural_forms 0 s = Err PFSyntax.
Proof.
  destruct (parse_plural_forms 0 s) as [[[[n e] l] r]|[]|c] eqn:E.
  - left. exists n, e, l, r. reflexivity.
  - right. reflexivity.
  - exfalso. eapply parse_plural_forms_no_crash; eauto.
Qed.

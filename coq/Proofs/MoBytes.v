(* Lemmas about the byte-string primitives of Model/MoParser.v and the words of Spec/MoFormat.v *)
From Coq Require Import List NArith Bool Lia ZArith.
From I18n Require Import Lib.Outcome Model.MoParser Spec.MoFormat.
Import ListNotations.
Local Open Scope N_scope.

Lemma blen_cons : forall x (l : bytes), blen (x :: l) = N.succ (blen l).
Proof. intros. unfold blen. cbn [length]. apply Nat2N.inj_succ. Qed.

Lemma blen_nil : blen [] = 0.
Proof. reflexivity. Qed.

Lemma blen_app : forall a b : bytes, blen (a ++ b) = blen a + blen b.
Proof. intros. unfold blen. rewrite app_length. apply Nat2N.inj_add. Qed.

Lemma len_blen : forall l, len l = blen l.
Proof. reflexivity. Qed.

Lemma drop_0 : forall l, drop 0 l = l.
Proof. intros [|x l]; reflexivity. Qed.

Lemma take_0 : forall l, take 0 l = [].
Proof. intros [|x l]; reflexivity. Qed.

Lemma drop_cons_succ : forall n x l, drop (N.succ n) (x :: l) = drop n l.
Proof.
  intros. cbn [drop]. destruct (N.eqb_spec (N.succ n) 0) as [E|E]; [lia|]. now rewrite N.pred_succ.
Qed.

Lemma take_cons_succ : forall n x l, take (N.succ n) (x :: l) = x :: take n l.
Proof.
  intros. cbn [take]. destruct (N.eqb_spec (N.succ n) 0) as [E|E]; [lia|]. now rewrite N.pred_succ.
Qed.

Lemma drop_app_blen : forall pre s, drop (blen pre) (pre ++ s) = s.
Proof.
  induction pre as [|x pre IH]; intros s.
  - apply drop_0.
  - rewrite blen_cons. cbn [app]. rewrite drop_cons_succ. apply IH.
Qed.

Lemma take_app_blen : forall s r, take (blen s) (s ++ r) = s.
Proof.
  induction s as [|x s IH]; intros r.
  - apply take_0.
  - rewrite blen_cons. cbn [app]. rewrite take_cons_succ. now rewrite IH.
Qed.

Lemma take_drop_id : forall l n, take n l ++ drop n l = l.
Proof.
  induction l as [|x l IH]; intros n; [reflexivity|].
  cbn [take drop]. destruct (N.eqb n 0); [reflexivity|]. cbn [app]. now rewrite IH.
Qed.

Lemma blen_take : forall l n, n <= blen l -> blen (take n l) = n.
Proof.
  induction l as [|x l IH]; intros n H.
  - rewrite blen_nil in H. cbn [take]. rewrite blen_nil. lia.
  - cbn [take]. destruct (N.eqb_spec n 0) as [E|E]; [subst; reflexivity|].
    rewrite blen_cons in *. rewrite IH by lia. lia.
Qed.

Lemma blen_drop : forall l n, blen (drop n l) = blen l - n.
Proof.
  induction l as [|x l IH]; intros n.
  - reflexivity.
  - cbn [drop]. destruct (N.eqb_spec n 0) as [E|E]; [subst; now rewrite N.sub_0_r|].
    rewrite IH, blen_cons. lia.
Qed.

Lemma drop_drop : forall l a b, drop b (drop a l) = drop (a + b) l.
Proof.
  induction l as [|x l IH]; intros a b.
  - cbn [drop]. reflexivity.
  - cbn [drop]. destruct (N.eqb_spec a 0) as [E|E].
    + subst. rewrite N.add_0_l. reflexivity.
    + destruct (N.eqb_spec (a + b) 0) as [E2|E2]; [lia|].
      rewrite IH. f_equal. lia.
Qed.

Lemma at_off_drop : forall f off s, at_off f off s -> off <= blen f /\ exists post, drop off f = s ++ post.
Proof.
  intros f off s (pre & post & -> & <-). split.
  - rewrite blen_app. lia.
  - exists post. apply drop_app_blen.
Qed.

Lemma drop_at_off : forall f off s post, off <= blen f -> drop off f = s ++ post -> at_off f off s.
Proof.
  intros f off s post H E. exists (take off f), post. split.
  - rewrite <- E. symmetry. apply take_drop_id.
  - now apply blen_take.
Qed.

Lemma at_off_inside : forall f off s, at_off f off s -> off + blen s <= blen f.
Proof. intros f off s (pre & post & -> & <-). rewrite !blen_app. lia. Qed.

Lemma drop_nonempty_lt : forall f off x r, drop off f = x :: r -> off < blen f.
Proof.
  intros f off x r E. assert (H := blen_drop f off). rewrite E, blen_cons in H. lia.
Qed.

Lemma drop_lt_cons : forall f off, off < blen f -> exists x r, drop off f = x :: r.
Proof.
  intros f off H. destruct (drop off f) as [|x r] eqn:E.
  - assert (H2 := blen_drop f off). rewrite E, blen_nil in H2. lia.
  - eauto.
Qed.

Lemma drop_succ : forall f off x r, drop off f = x :: r -> drop (off + 1) f = r.
Proof.
  intros f off x r E. rewrite <- drop_drop, E. replace 1 with (N.succ 0) by reflexivity.
  rewrite drop_cons_succ. apply drop_0.
Qed.

Lemma bytes_ok_drop : forall f n, bytes_ok f -> bytes_ok (drop n f).
Proof.
  unfold bytes_ok. induction f as [|x f IH]; intros n H; [constructor|].
  cbn [drop]. destruct (N.eqb n 0); [exact H|]. inversion H; subst. now apply IH.
Qed.

(* ------------------------------------------------------------------ *)
(* words *)

Lemma word_decompose : forall w, w < 4294967296 ->
  (((w / 16777216) mod 256 * 256 + (w / 65536) mod 256) * 256 + (w / 256) mod 256) * 256 + w mod 256 = w.
Proof.
  intros w H.
  replace (w / 65536) with (w / 256 / 256) by (rewrite N.div_div by lia; reflexivity).
  replace (w / 16777216) with (w / 256 / 256 / 256) by (rewrite !N.div_div by lia; reflexivity).
  pose proof (N.div_mod w 256). pose proof (N.div_mod (w/256) 256).
  pose proof (N.div_mod (w/256/256) 256). pose proof (N.div_mod (w/256/256/256) 256).
  pose proof (N.mod_lt w 256). pose proof (N.mod_lt (w/256) 256).
  pose proof (N.mod_lt (w/256/256) 256). pose proof (N.mod_lt (w/256/256/256) 256).
  assert (w/256/256/256/256 = 0). { rewrite !N.div_div by lia. apply N.div_small. exact H. }
  generalize dependent (w mod 256). generalize dependent ((w/256) mod 256).
  generalize dependent ((w/256/256) mod 256). generalize dependent ((w/256/256/256) mod 256).
  generalize dependent (w/256/256/256/256). generalize dependent (w/256/256/256).
  generalize dependent (w/256/256). generalize dependent (w/256).
  intros. lia.
Qed.

Lemma word_recompose : forall b0 b1 b2 b3, b0 < 256 -> b1 < 256 -> b2 < 256 -> b3 < 256 ->
  let w := ((b3 * 256 + b2) * 256 + b1) * 256 + b0 in
  w mod 256 = b0 /\ (w / 256) mod 256 = b1 /\ (w / 65536) mod 256 = b2 /\ (w / 16777216) mod 256 = b3 /\ w < 4294967296.
Proof.
  intros b0 b1 b2 b3 H0 H1 H2 H3 w.
  assert (D1 : w / 256 = (b3 * 256 + b2) * 256 + b1).
  { symmetry. apply (N.div_unique w 256 _ b0); [exact H0|]. unfold w. lia. }
  assert (D2 : w / 256 / 256 = b3 * 256 + b2).
  { rewrite D1. symmetry. apply (N.div_unique _ 256 _ b1); [exact H1|]. lia. }
  assert (D3 : w / 256 / 256 / 256 = b3).
  { rewrite D2. symmetry. apply (N.div_unique _ 256 _ b2); [exact H2|]. lia. }
  replace (w / 65536) with (w / 256 / 256) by (rewrite N.div_div by lia; reflexivity).
  replace (w / 16777216) with (w / 256 / 256 / 256) by (rewrite !N.div_div by lia; reflexivity).
  rewrite D3, D2, D1. repeat split.
  - symmetry. apply (N.mod_unique w 256 ((b3 * 256 + b2) * 256 + b1)); [exact H0|]. unfold w. lia.
  - symmetry. apply (N.mod_unique _ 256 (b3 * 256 + b2)); [exact H1|]. lia.
  - symmetry. apply (N.mod_unique _ 256 b3); [exact H2|]. lia.
  - apply N.mod_small. exact H3.
  - unfold w. lia.
Qed.

Lemma u32_of_word_bytes : forall be w, w < 4294967296 ->
  match word_bytes be w with
  | [b0; b1; b2; b3] => u32_of be b0 b1 b2 b3 = w
  | _ => False
  end.
Proof.
  intros be w H. unfold word_bytes, u32_of. destruct be; apply word_decompose; exact H.
Qed.

Lemma word_bytes_u32_of : forall be b0 b1 b2 b3, b0 < 256 -> b1 < 256 -> b2 < 256 -> b3 < 256 ->
  u32_of be b0 b1 b2 b3 < 4294967296 /\ word_bytes be (u32_of be b0 b1 b2 b3) = [b0; b1; b2; b3].
Proof.
  intros be b0 b1 b2 b3 H0 H1 H2 H3. unfold word_bytes, u32_of. destruct be.
  - destruct (word_recompose b3 b2 b1 b0 H3 H2 H1 H0) as (E0 & E1 & E2 & E3 & L).
    split; [exact L|]. now rewrite E0, E1, E2, E3.
  - destruct (word_recompose b0 b1 b2 b3 H0 H1 H2 H3) as (E0 & E1 & E2 & E3 & L).
    split; [exact L|]. now rewrite E0, E1, E2, E3.
Qed.

Lemma blen_word_bytes : forall be w, blen (word_bytes be w) = 4.
Proof. intros [] w; reflexivity. Qed.

(* ------------------------------------------------------------------ *)
(* _read_ints *)

Lemma slice_len : forall f a n, slice f a (a + n) = take n (drop a f).
Proof. intros. unfold slice. f_equal. lia. Qed.

Lemma read_int_complete : forall be f off w, has_word be f off w -> read_int be f off = Ok w.
Proof.
  intros be f off w [Hw Hat]. unfold read_int.
  assert (Hin := at_off_inside _ _ _ Hat). rewrite blen_word_bytes in Hin.
  change (len f) with (blen f). destruct (N.ltb_spec (blen f) (off + 4)) as [L|L]; [lia|].
  rewrite slice_len. destruct (at_off_drop _ _ _ Hat) as [_ [post E]]. rewrite E.
  rewrite <- (blen_word_bytes be w), take_app_blen.
  assert (U := u32_of_word_bytes be w Hw).
  destruct (word_bytes be w) as [|b0 [|b1 [|b2 [|b3 [|? ?]]]]]; try contradiction.
  cbn [unpack1]. now rewrite U.
Qed.

Lemma drop4 : forall f off, off + 4 <= blen f -> exists b0 b1 b2 b3 r, drop off f = b0 :: b1 :: b2 :: b3 :: r.
Proof.
  intros f off H.
  destruct (drop_lt_cons f off) as (b0 & r0 & E0); [lia|].
  assert (L0 := blen_drop f off). rewrite E0, blen_cons in L0.
  destruct r0 as [|b1 r1]; [rewrite blen_nil in L0; lia|]. rewrite blen_cons in L0.
  destruct r1 as [|b2 r2]; [rewrite blen_nil in L0; lia|]. rewrite blen_cons in L0.
  destruct r2 as [|b3 r3]; [rewrite blen_nil in L0; lia|].
  eauto 6.
Qed.

Lemma take4 : forall b0 b1 b2 b3 (r : bytes), take 4 (b0 :: b1 :: b2 :: b3 :: r) = [b0; b1; b2; b3].
Proof.
  intros. replace 4 with (N.succ (N.succ (N.succ (N.succ 0)))) by reflexivity.
  rewrite !take_cons_succ. now rewrite take_0.
Qed.

Lemma take8 : forall b0 b1 b2 b3 c0 c1 c2 c3 (r : bytes),
  take 8 (b0 :: b1 :: b2 :: b3 :: c0 :: c1 :: c2 :: c3 :: r) = [b0; b1; b2; b3; c0; c1; c2; c3].
Proof.
  intros. replace 8 with (N.succ (N.succ (N.succ (N.succ (N.succ (N.succ (N.succ (N.succ 0)))))))) by reflexivity.
  rewrite !take_cons_succ. now rewrite take_0.
Qed.

Lemma read_int_cases : forall be f off,
  (blen f < off + 4 /\ read_int be f off = Err (MoSyntax MTruncated)) \/
  (off + 4 <= blen f /\ exists b0 b1 b2 b3 r, drop off f = b0 :: b1 :: b2 :: b3 :: r /\
     read_int be f off = Ok (u32_of be b0 b1 b2 b3)).
Proof.
  intros be f off. unfold read_int. change (len f) with (blen f).
  destruct (N.ltb_spec (blen f) (off + 4)) as [L|L]; [left; auto|right].
  split; [exact L|]. destruct (drop4 f off L) as (b0 & b1 & b2 & b3 & r & E).
  exists b0, b1, b2, b3, r. split; [exact E|]. rewrite slice_len, E, take4. reflexivity.
Qed.

Lemma read_int_sound : forall be f off w, bytes_ok f -> read_int be f off = Ok w -> has_word be f off w.
Proof.
  intros be f off w Hf H.
  destruct (read_int_cases be f off) as [[_ E]|[L (b0 & b1 & b2 & b3 & r & E & E2)]]; [congruence|].
  rewrite E2 in H. inversion H; subst w; clear H.
  assert (Hd := bytes_ok_drop f off Hf). rewrite E in Hd.
  inversion Hd as [|? ? P0 Hd1]; subst. inversion Hd1 as [|? ? P1 Hd2]; subst.
  inversion Hd2 as [|? ? P2 Hd3]; subst. inversion Hd3 as [|? ? P3 _]; subst.
  destruct (word_bytes_u32_of be b0 b1 b2 b3 P0 P1 P2 P3) as [Hlt Hw].
  split; [exact Hlt|]. rewrite Hw.
  apply (drop_at_off f off [b0; b1; b2; b3] r); [lia|exact E].
Qed.

Lemma read_int_no_crash : forall be f off c, read_int be f off <> Crash c.
Proof.
  intros be f off c. destruct (read_int_cases be f off) as [[_ E]|[_ (b0 & b1 & b2 & b3 & r & _ & E)]]; rewrite E; discriminate.
Qed.

Lemma read_int_err : forall be f off e, read_int be f off = Err e -> e = MoSyntax MTruncated /\ blen f < off + 4.
Proof.
  intros be f off e H. destruct (read_int_cases be f off) as [[L E]|[_ (b0 & b1 & b2 & b3 & r & _ & E)]]; rewrite E in H.
  - inversion H. auto.
  - discriminate.
Qed.

(* two words *)
Lemma read_int2_cases : forall be f off,
  (blen f < off + 8 /\ read_int2 be f off = Err (MoSyntax MTruncated)) \/
  (off + 8 <= blen f /\ exists a b, read_int2 be f off = Ok (a, b) /\ read_int be f off = Ok a /\ read_int be f (off + 4) = Ok b).
Proof.
  intros be f off. unfold read_int2. change (len f) with (blen f).
  destruct (N.ltb_spec (blen f) (off + 8)) as [L|L]; [left; auto|right].
  split; [exact L|].
  destruct (drop4 f off) as (b0 & b1 & b2 & b3 & r & E); [lia|].
  destruct (drop4 f (off + 4)) as (c0 & c1 & c2 & c3 & r' & E'); [lia|].
  assert (Er : r = c0 :: c1 :: c2 :: c3 :: r').
  { rewrite <- E'. rewrite <- drop_drop, E.
    replace 4 with (N.succ (N.succ (N.succ (N.succ 0)))) by reflexivity.
    rewrite !drop_cons_succ. now rewrite drop_0. }
  subst r.
  exists (u32_of be b0 b1 b2 b3), (u32_of be c0 c1 c2 c3). split; [|split].
  - rewrite slice_len, E, take8. reflexivity.
  - unfold read_int. change (len f) with (blen f). destruct (N.ltb_spec (blen f) (off + 4)); [lia|].
    rewrite slice_len, E, take4. reflexivity.
  - unfold read_int. change (len f) with (blen f). destruct (N.ltb_spec (blen f) (off + 4 + 4)); [lia|].
    rewrite slice_len, E', take4. reflexivity.
Qed.

Lemma read_int2_complete : forall be f off a b, has_word be f off a -> has_word be f (off + 4) b ->
  read_int2 be f off = Ok (a, b).
Proof.
  intros be f off a b Ha Hb.
  assert (Ea := read_int_complete _ _ _ _ Ha). assert (Eb := read_int_complete _ _ _ _ Hb).
  destruct (read_int2_cases be f off) as [[L _]|[_ (a' & b' & E & E1 & E2)]].
  - destruct Hb as [_ Hat]. apply at_off_inside in Hat. rewrite blen_word_bytes in Hat. lia.
  - congruence.
Qed.

Lemma read_int2_sound : forall be f off a b, bytes_ok f -> read_int2 be f off = Ok (a, b) ->
  has_word be f off a /\ has_word be f (off + 4) b.
Proof.
  intros be f off a b Hf H.
  destruct (read_int2_cases be f off) as [[_ E]|[_ (a' & b' & E & E1 & E2)]]; [congruence|].
  rewrite E in H. inversion H; subst. split; now apply read_int_sound.
Qed.

Lemma read_int2_no_crash : forall be f off c, read_int2 be f off <> Crash c.
Proof.
  intros be f off c. destruct (read_int2_cases be f off) as [[_ E]|[_ (a' & b' & E & _)]]; rewrite E; discriminate.
Qed.

Lemma read_int2_err : forall be f off e, read_int2 be f off = Err e -> e = MoSyntax MTruncated /\ blen f < off + 8.
Proof.
  intros be f off e H. destruct (read_int2_cases be f off) as [[L E]|[_ (a' & b' & E & _)]]; rewrite E in H.
  - inversion H. auto.
  - discriminate.
Qed.

(* uniqueness of the word at an offset *)
Lemma has_word_inj : forall be f off a b, has_word be f off a -> has_word be f off b -> a = b.
Proof.
  intros be f off a b Ha Hb.
  apply read_int_complete in Ha. apply read_int_complete in Hb. congruence.
Qed.

(* ------------------------------------------------------------------ *)
(* strings addressed by a descriptor *)

Lemma string_complete : forall f off s, at_off f off (s ++ [0]) ->
  slice f off (off + blen s) = s /\ index f (off + blen s) = Some 0.
Proof.
  intros f off s H. destruct (at_off_drop _ _ _ H) as [_ [post E]].
  rewrite <- app_assoc in E. split.
  - rewrite slice_len, E. apply take_app_blen.
  - unfold index. rewrite <- drop_drop, E, drop_app_blen. reflexivity.
Qed.

Lemma string_sound : forall f off n t, index f (off + n) = Some t ->
  blen (slice f off (off + n)) = n /\ at_off f off (slice f off (off + n) ++ [t]).
Proof.
  intros f off n t H. unfold index in H.
  destruct (drop (off + n) f) as [|x r] eqn:E; [discriminate|]. inversion H; subst x; clear H.
  assert (L := drop_nonempty_lt _ _ _ _ E).
  rewrite slice_len.
  assert (Hn : blen (take n (drop off f)) = n) by (apply blen_take; rewrite blen_drop; lia).
  split; [exact Hn|].
  apply (drop_at_off f off _ r); [lia|].
  rewrite <- app_assoc. cbn [app]. rewrite <- E, <- drop_drop. symmetry. apply take_drop_id.
Qed.

Lemma index_none : forall f i, index f i = None -> blen f <= i.
Proof.
  intros f i H. unfold index in H. destruct (drop i f) as [|x r] eqn:E; [|discriminate].
  assert (L := blen_drop f i). rewrite E, blen_nil in L. lia.
Qed.

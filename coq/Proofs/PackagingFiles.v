(* C17, PO part at file level: corollaries of the C10 load/render theorems.
   Two spellings of one catalog (escape form per character, continuation chunks, padding, blank lines, separators) load to the
   same result; a transcoded spelling (another charset, its declaration adjusted, so only the header entry differs in value)
   loads to the same entries except the header entry. *)
From Coq Require Import List NArith Bool.
From I18n Require Import Lib.Outcome Model.PoUnescape Model.PoParser Model.PoLexer Spec.PoSyntax
  Proofs.PoParser Proofs.PoLex Proofs.PoOpen Proofs.PoDetect Proofs.PoLoad.
Import ListNotations.
Local Open Scope N_scope.

Definition text_of_lines (pls : list str) : str := flat_map (fun l => l ++ [10]) pls.

Theorem po_files_same_catalog : forall O sp1 sp2 c1 c2 pls1 pls2,
  ascii_compatible (o_dec O) ->
  seps_ok sp1 -> scatalog_ok (o_dec O) c1 -> nplurals_le_10 c1 -> sc_entries c1 <> [] ->
  file_of (render_bodies sp1 c1) pls1 -> Forall (fun l => ~ In 10 l) pls1 ->
  seps_ok sp2 -> scatalog_ok (o_dec O) c2 -> nplurals_le_10 c2 -> sc_entries c2 <> [] ->
  file_of (render_bodies sp2 c2) pls2 -> Forall (fun l => ~ In 10 l) pls2 ->
  catalog_value c1 = catalog_value c2 ->
  parse_lines O (codecs_open_text (text_of_lines pls1)) = parse_lines O (codecs_open_text (text_of_lines pls2)).
Proof.
  intros O sp1 sp2 c1 c2 pls1 pls2 A S1 K1 N1 E1 F1 L1 S2 K2 N2 E2 F2 L2 V. unfold text_of_lines.
  rewrite (open_load_render O sp1 c1 pls1 A S1 K1 N1 E1 F1 L1).
  rewrite (open_load_render O sp2 c2 pls2 A S2 K2 N2 E2 F2 L2).
  rewrite V. reflexivity.
Qed.

(* transcoding: each file is read with its own declared charset; the catalogs agree except for the value of the first
   (header) entry, which names the charset *)
Theorem po_files_transcoded : forall C raw1 raw2 enc1 enc2 sp1 sp2 c1 c2 pls1 pls2 h1 h2 rest,
  detect_encoding (c_lookup C) raw1 = enc1 -> detect_encoding (c_lookup C) raw2 = enc2 ->
  c_decode C (if c_ascii_compatible C enc1 then enc1 else s_ascii) raw1 = Some (text_of_lines pls1) ->
  c_decode C (if c_ascii_compatible C enc2 then enc2 else s_ascii) raw2 = Some (text_of_lines pls2) ->
  ascii_compatible (c_decode C enc1) -> ascii_compatible (c_decode C enc2) ->
  seps_ok sp1 -> scatalog_ok (c_decode C enc1) c1 -> nplurals_le_10 c1 -> sc_entries c1 <> [] ->
  file_of (render_bodies sp1 c1) pls1 -> Forall (fun l => ~ In 10 l) pls1 ->
  seps_ok sp2 -> scatalog_ok (c_decode C enc2) c2 -> nplurals_le_10 c2 -> sc_entries c2 <> [] ->
  file_of (render_bodies sp2 c2) pls2 -> Forall (fun l => ~ In 10 l) pls2 ->
  fst (catalog_value c1) = fst (catalog_value c2) ->
  snd (catalog_value c1) = h1 :: rest -> snd (catalog_value c2) = h2 :: rest ->
  exists hdr es,
    load_po C raw1 = Ok (mkLoaded enc1 (mkPo hdr (to_entry (tool_view h1) :: es) false), false) /\
    load_po C raw2 = Ok (mkLoaded enc2 (mkPo hdr (to_entry (tool_view h2) :: es) false), false).
Proof.
  intros C raw1 raw2 enc1 enc2 sp1 sp2 c1 c2 pls1 pls2 h1 h2 rest D1 D2 T1 T2 A1 A2 S1 K1 N1 E1 F1 L1 S2 K2 N2 E2 F2 L2 VH V1 V2.
  exists (fst (catalog_value c1)), (map (fun e => to_entry (tool_view e)) rest). split.
  - rewrite (load_po_render C raw1 enc1 sp1 c1 pls1 D1 T1 A1 S1 K1 N1 E1 F1 L1). rewrite V1. reflexivity.
  - rewrite (load_po_render C raw2 enc2 sp2 c2 pls2 D2 T2 A2 S2 K2 N2 E2 F2 L2). rewrite V2, <- VH. reflexivity.
Qed.

(* python %-format: the canonical arguments built from a reported signature match it (non-vacuity of accept_formats). *)
From Coq Require Import List NArith ZArith Bool Lia.
From I18n Require Import Lib.Outcome Model.FmtPython Spec.CPyPercent Proofs.FmtPythonDir Proofs.FmtPython.
Import ListNotations.
Local Open Scope N_scope.

Definition sample (t : ptype) : pyval :=
  match t with TyInt => VInt 7 | TyFloat => VFloat | TyChr => VStr [99] | TyStr => VStr [] | TyObject => VNone | TyNone => VNone end.
Definition sample_seq (a : seqarg) : pyval :=
  match a with SVarWidth | SVarPrec => VInt 3 | SConv t => sample t end.
Definition args_from (sg : py_sig) : pyval :=
  match map_arguments sg with
  | [] => VTuple (map sample_seq (seq_arguments sg))
  | m => VDict (map (fun kv => (fst kv, match snd kv with t :: _ => sample t | [] => VNone end)) m)
  end.

Lemma sample_ok t : t <> TyNone -> val_ok t (sample t) = true.
Proof. destruct t; cbn; congruence. Qed.

(* invariants of the argument lists *)
Definition seq_inv (sq : list seqarg) : Prop := forall a, In a sq -> a <> SConv TyNone.
Fixpoint keys_distinct (m : list (list N * list ptype)) : Prop :=
  match m with
  | [] => True
  | (k, _) :: r => (forall k' ts', In (k', ts') r -> list_eqb k k' = false) /\ keys_distinct r
  end.
Definition types_inv (m : list (list N * list ptype)) : Prop :=
  forall k ts, In (k, ts) m -> ts <> [] /\ ~ In TyNone ts.

Lemma list_eqb_sym a : forall b, list_eqb a b = list_eqb b a.
Proof. induction a as [|x a IH]; intros [|y b]; cbn [list_eqb]; try reflexivity. rewrite N.eqb_sym, IH. reflexivity. Qed.

Lemma map_add_in k t m k' ts' : In (k', ts') (map_add k t m) ->
  (exists ts0, In (k', ts0) m /\ (ts' = ts0 \/ ts' = ts0 ++ [t])) \/ (k' = k /\ ts' = [t] /\ forall k0 ts0, In (k0, ts0) m -> list_eqb k0 k = false).
Proof.
  induction m as [|[k0 ts0] r IH]; cbn [map_add].
  - intros [H|[]]; inversion H; subst. right. split; [reflexivity|]. split; [reflexivity|]. intros ? ? [].
  - destruct (list_eqb k0 k) eqn:E.
    + intros [H|H]; [inversion H; subst|]; left.
      * exists ts0. split; [left; reflexivity|right; reflexivity].
      * exists ts'. split; [right; exact H|left; reflexivity].
    + intros [H|H]; [inversion H; subst; left; exists ts'; split; [left; reflexivity|left; reflexivity]|].
      destruct (IH H) as [[ts1 [H1 H2]]|[H1 [H2 H3]]].
      * left. exists ts1. split; [right; exact H1|exact H2].
      * right. split; [exact H1|]. split; [exact H2|]. intros k1 ts1 [Hi|Hi]; [inversion Hi; subst; exact E|eapply H3; exact Hi].
Qed.

Lemma map_add_distinct k t m : keys_distinct m -> keys_distinct (map_add k t m).
Proof.
  induction m as [|[k0 ts0] r IH]; cbn [map_add keys_distinct]; [intros _; split; [intros ? ? []|exact I]|].
  intros [H1 H2]. destruct (list_eqb k0 k) eqn:E; cbn [keys_distinct]; [split; assumption|].
  split; [|apply IH; exact H2].
  intros k' ts' Hin. apply map_add_in in Hin. destruct Hin as [[ts1 [Hi _]]|[-> _]]; [eapply H1; exact Hi|exact E].
Qed.

Lemma map_add_types k t m : t <> TyNone -> types_inv m -> types_inv (map_add k t m).
Proof.
  intros Ht Hm k' ts' Hin. apply map_add_in in Hin. destruct Hin as [[ts0 [Hi [->| ->]]]|[_ [-> _]]].
  - exact (Hm _ _ Hi).
  - destruct (Hm _ _ Hi) as [H1 H2]. split; [destruct ts0; discriminate|].
    intros Hx. apply in_app_or in Hx. destruct Hx as [Hx|[Hx|[]]]; [exact (H2 Hx)|congruence].
  - split; [discriminate|]. intros [Hx|[]]. congruence.
Qed.

Definition st_inv (st : pstate) : Prop := seq_inv (st_seq st) /\ keys_distinct (st_map st) /\ types_inv (st_map st).

Lemma conv_init_inv st d st' : dir_wf d -> conv_init std_info st d = Ok st' -> st_inv st -> st_inv st'.
Proof.
  intros Hwf Hc [Hs [Hk Ht]]. destruct (conv_init_ok _ _ _ Hwf Hc) as [_ [t [_ Hcase]]].
  destruct (d_key d) as [k|].
  - destruct Hcase as [Htn [_ [_ [Hs' Hm']]]]. unfold st_inv. rewrite Hs', Hm'.
    split; [intros a []|]. split; [apply map_add_distinct; exact Hk|apply map_add_types; assumption].
  - destruct Hcase as [Hm' [Hs' _]]. unfold st_inv. rewrite Hs', Hm'. split; [|split; assumption].
    intros a Hin. apply in_app_or in Hin. destruct Hin as [Hin|Hin]; [exact (Hs a Hin)|].
    apply in_app_or in Hin. destruct Hin as [Hin|Hin].
    + unfold seq_adds in Hin. apply in_app_or in Hin.
      destruct Hin as [Hin|Hin]; [destruct (d_var_width d)|destruct (d_var_prec d)]; cbn in Hin; try tauto;
        destruct Hin as [<-|[]]; discriminate.
    + destruct t; cbn in Hin; try tauto; destruct Hin as [<-|[]]; discriminate.
Qed.

Lemma pfold_inv ds : forall st fin, Forall dir_wf ds -> pfold ds None st = Ok fin -> st_inv st -> st_inv fin.
Proof.
  induction ds as [|d r IH]; intros st fin Hwf; cbn [pfold]; [intros H; inversion H; subst; auto|].
  inversion Hwf; subst. destruct (conv_init std_info st d) as [st'| |] eqn:Ec; cbn [obind]; try discriminate.
  intros H Hi. apply (IH st' fin); [assumption|exact H|eapply conv_init_inv; eassumption].
Qed.

Lemma key_eqb_list_eqb a : forall b, key_eqb a b = list_eqb a b.
Proof. intros b. reflexivity. Qed.   (* the two fixpoints have the same body *)

Lemma lookup_distinct (f : list ptype -> pyval) m : keys_distinct m -> forall k ts, In (k, ts) m ->
  lookup k (map (fun kv => (fst kv, f (snd kv))) m) = Some (f ts).
Proof.
  induction m as [|[k0 ts0] r IH]; cbn [keys_distinct map lookup fst snd]; [intros _ ? ? []|].
  intros [H1 H2] k ts [Hin|Hin].
  - inversion Hin; subst. rewrite key_eqb_list_eqb, list_eqb_refl. reflexivity.
  - rewrite key_eqb_list_eqb, (H1 _ _ Hin). apply IH; assumption.
Qed.

Theorem args_from_match s sg : fmtpy_parse std_info s = Ok sg ->
  args_match (seq_arguments sg) (map_arguments sg) (args_from sg).
Proof.
  unfold fmtpy_parse. intros Hp. rewrite ploop_pfold in Hp by lia.
  pose proof (pscan_wf (S (length s)) s) as Hwf.
  destruct (pscan (S (length s)) s) as [ds tail]. cbn [fst snd] in *.
  destruct (pfold ds tail st0) as [fin| |] eqn:Ef; cbn [obind] in Hp; try discriminate.
  destruct (existsb (fun kv => mixed_types (snd kv)) (st_map fin)) eqn:Emix; [discriminate|].
  inversion Hp; subst sg; clear Hp.
  assert (tail = None) as -> by (apply pfold_ok_clean in Ef; [|assumption]; destruct tail; [discriminate|reflexivity]).
  assert (Hinv : st_inv fin).
  { apply (pfold_inv ds st0 fin Hwf Ef). split; [intros a []|]. split; [exact I|intros ? ? []]. }
  destruct Hinv as [Hs [Hk Ht]].
  unfold args_match, args_from. cbn [seq_arguments map_arguments].
  destruct (st_map fin) as [|kv m] eqn:Em.
  - eexists. split; [reflexivity|].
    clear - Hs. induction (st_seq fin) as [|a r IH]; cbn [map]; constructor.
    + destruct a as [| |t]; cbn; try reflexivity. apply sample_ok. intros ->. apply (Hs (SConv TyNone)); [left; reflexivity|reflexivity].
    + apply IH. intros x Hx. apply Hs. right. exact Hx.
  - rewrite <- Em in *. eexists. split; [reflexivity|].
    intros k ts Hin. exists (match ts with t :: _ => sample t | [] => VNone end). split.
    + exact (lookup_distinct (fun ts => match ts with t :: _ => sample t | [] => VNone end) (st_map fin) Hk k ts Hin).
    + destruct (Ht k ts Hin) as [Hne Hnn].
      assert (Hm : mixed_types ts = false).
      { destruct (mixed_types ts) eqn:E; [|reflexivity]. exfalso.
        assert (existsb (fun kv => mixed_types (snd kv)) (st_map fin) = true) by (apply existsb_exists; exists (k, ts); split; [exact Hin|exact E]).
        congruence. }
      destruct ts as [|t0 r]; [congruence|]. cbn [mixed_types] in Hm. apply negb_false_iff in Hm.
      assert (Ht0 : t0 <> TyNone) by (intros ->; apply Hnn; left; reflexivity).
      cbn [forallb]. rewrite (sample_ok t0 Ht0). cbn [andb].
      rewrite forallb_forall in Hm. apply forallb_forall. intros t Hin'.
      specialize (Hm t Hin'). assert (t = t0) as -> by (destruct t0, t; cbn in Hm; congruence). apply sample_ok. exact Ht0.
Qed.

Corollary accept_formats_args_from s sg :
  fmtpy_parse std_info s = Ok sg -> plain_percents s = true -> formats_ok s (args_from sg).
Proof. intros Hp Hd. exact (accept_formats s sg (args_from sg) Hp Hd (args_from_match s sg Hp)). Qed.

(* Checker.check's loading of a PO file of the printer family: detect_encoding, Codecs.open, parse. *)
From Coq Require Import List NArith Bool.
From I18n Require Import Lib.Outcome Model.PoUnescape Model.PoParser Model.PoLexer Spec.PoSyntax
  Proofs.PoParser Proofs.PoLex Proofs.PoOpen Proofs.PoDetect.
Import ListNotations.
Local Open Scope N_scope.

Theorem load_po_render C raw enc sp c pls :
  detect_encoding (c_lookup C) raw = enc ->
  c_decode C (if c_ascii_compatible C enc then enc else s_ascii) raw = Some (flat_map (fun l => l ++ [10]) pls) ->
  ascii_compatible (c_decode C enc) -> seps_ok sp -> scatalog_ok (c_decode C enc) c -> nplurals_le_10 c -> sc_entries c <> [] ->
  file_of (render_bodies sp c) pls -> Forall (fun l => ~ In 10 l) pls ->
  load_po C raw =
  Ok (mkLoaded enc (mkPo (fst (catalog_value c)) (map (fun e => to_entry (tool_view e)) (snd (catalog_value c))) false), false).
Proof.
  intros Hdet Hfile Hdec Hsp Hok Hn Hne Hf Hlf. unfold load_po, pofile. rewrite Hdet.
  rewrite (pofile_with_render C enc raw sp c pls Hfile Hdec Hsp Hok Hn Hne Hf Hlf). reflexivity.
Qed.

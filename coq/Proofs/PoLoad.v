(* Checker.check's loading of a PO file of the printer family: detect_encoding, Codecs.open, parse. *)
From Coq Require Import List NArith Bool.
From I18n Require Import Lib.Outcome Model.PoUnescape Model.PoParser Model.PoLexer Spec.PoSyntax
  Proofs.PoParser Proofs.PoLex Proofs.PoOpen Proofs.PoDetect.
Import ListNotations.
Local Open Scope N_scope.

Theorem load_po_render C raw enc sp c pls :
  detect_encoding (c_lookup C) raw = enc ->
  c_decode C (if c_ascii_compatible C enc then enc else s_ascii) raw = Some (flat_map (fun l => l ++ [10]) pls) ->
  ascii_compatible (c_decode C enc) -> seps_ok sp -> scatalog_ok (c_decode C enc) c -> nplurals_le_10 c -> sc_entries c <> [] ->
  file_of (render_bodies sp c) pls -> Forall (fun l => ~ In 10 l) pls ->
  load_po C raw =
  Ok (mkLoaded enc (mkPo (fst (catalog_value c)) (map (fun e => to_entry (tool_view e)) (snd (catalog_value c))) false), false).
Proof.
  intros Hdet Hfile Hdec Hsp Hok Hn Hne Hf Hlf. unfold load_po, pofile. rewrite Hdet.
  rewrite (pofile_with_render C enc raw sp c pls Hfile Hdec Hsp Hok Hn Hne Hf Hlf). reflexivity.
Qed.

(* the loader fails only in its two own ways (UnicodeDecodeError of the whole-file decode, the parser's syntax error) *)
Lemma machine_no_crash O : forall ls n lst p c, machine O ls n lst p <> Crash c.
Proof. induction ls as [|l ls IH]; intros n lst p c; cbn [machine]; [discriminate|].
  destruct l as [| |obs h a]; try apply IH. destruct a as [|y cur|d]; [apply IH| |discriminate].
  destruct (process O y obs cur p); [apply IH|discriminate]. Qed.

Theorem load_po_no_crash C raw : forall c, load_po C raw <> Crash c.
Proof.
  assert (Hp : forall O lines c, parse_lines O lines <> Crash c).
  { intros O lines c. unfold parse_lines, run_machine. destruct (machine O (lex_lines true lines) 0 None init_pstate) as [[p l]| |] eqn:E; cbn [obind]; try discriminate.
    exfalso. exact (machine_no_crash O _ _ _ _ _ E). }
  assert (Hw : forall enc c, pofile_with C enc raw <> Crash c).
  { intros enc c. unfold pofile_with. destruct (c_decode C _ raw); [|discriminate].
    destruct (parse_lines _ _) eqn:E; try discriminate. exfalso. exact (Hp _ _ _ E). }
  intros c. unfold load_po, pofile.
  destruct (pofile_with C (detect_encoding (c_lookup C) raw) raw) as [l|[|e]|c'] eqn:E; try discriminate.
  - destruct (pofile_with C s_latin1 raw) eqn:E2; cbn [obind]; try discriminate. exfalso. exact (Hw _ _ E2).
  - exfalso. exact (Hw _ _ E).
Qed.

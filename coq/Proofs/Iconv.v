(* The grow-and-retry loops of lib/iconv.py under the iconv(3) contract (Spec/Iconv.v): they terminate after
   at most k doublings when need <= first capacity * 2^k, never crash, and report valid error positions. *)
From Coq Require Import ZArith NArith List Bool Lia.
From I18n Require Import Lib.Outcome Model.Iconv Spec.Iconv.
Import ListNotations.
Local Open Scope Z_scope.

Definition good_result (n : Z) (r : outcome (list N) (Z * Z)) : Prop :=
  (exists out, r = Ok out) \/ (exists b e, r = Err (b, e) /\ 0 <= b < e /\ e <= n).

Lemma py_index_in_range : forall l i, 0 <= i < Z.of_nat (length l) -> exists b, py_index l i = Some b.
Proof.
  intros l i Hi. unfold py_index. destruct (i <? 0) eqn:E; [apply Z.ltb_lt in E; lia|].
  destruct (nth_error l (Z.to_nat i)) as [b|] eqn:En; [exists b; reflexivity|].
  apply nth_error_None in En. lia.
Qed.

Lemma scan_end_spec : forall input fuel e0,
  0 <= e0 -> e0 + Z.of_nat fuel = Z.of_nat (length input) ->
  exists e, scan_end input (Z.of_nat (length input)) fuel e0 = Ok e /\ e0 <= e <= Z.of_nat (length input).
Proof.
  intros input fuel; induction fuel as [|f IH]; intros e0 H0 Hsum; cbn [scan_end].
  - exists (Z.of_nat (length input)). split; [reflexivity|lia].
  - destruct (py_index_in_range input e0 ltac:(lia)) as (b & Hb). rewrite Hb.
    destruct (b <? 128)%N.
    + exists e0. split; [reflexivity|lia].
    + destruct (IH (e0 + 1) ltac:(lia) ltac:(lia)) as (e & He & Hr). exists e. split; [exact He|lia].
Qed.

Lemma pow2_succ : forall k, 2 ^ Z.of_nat (S k) = 2 * 2 ^ Z.of_nat k.
Proof. intros k. rewrite Nat2Z.inj_succ. apply Z.pow_succ_r. lia. Qed.

Lemma pow2_pos : forall k, 0 < 2 ^ Z.of_nat k.
Proof. intros k. apply Z.pow_pos_nonneg; lia. Qed.

(* ---------------------------------------------------------------- decode *)
Section Decode.
  Variables (ops : iconv_ops) (input : list N) (need : Z).
  Let n := Z.of_nat (length input).
  Hypothesis Hc : iconv_contract ops n 1 4 need.
  Hypothesis Hn : n < size_t_max.
  Hypothesis Hneed : 2 * need <= size_t_max.

  Lemma dec_loop_spec : forall fuel k cap grows,
    1 <= cap -> cap < size_t_max -> need <= cap * 2 ^ Z.of_nat k -> (k < fuel)%nat ->
    (fst (dec_loop ops input fuel cap grows) <= grows + k)%nat /\
    good_result n (snd (dec_loop ops input fuel cap grows)).
  Proof.
    induction fuel as [|f IH]; intros k cap grows Hcap1 Hcap2 Hk Hf; [lia|].
    cbn [dec_loop]. fold n.
    assert (Hcap0 : 0 <= cap) by lia.
    replace (n <? size_t_max) with true by (symmetry; apply Z.ltb_lt; exact Hn).
    replace (cap <? size_t_max) with true by (symmetry; apply Z.ltb_lt; exact Hcap2).
    cbn [andb negb]. rewrite (ic_reset _ _ _ _ _ Hc cap). cbn [negb].
    (* the E2BIG continuation *)
    assert (Hgrow : cap < need ->
      (fst (dec_loop ops input f (cap * 2) (S grows)) <= grows + k)%nat /\
      good_result n (snd (dec_loop ops input f (cap * 2) (S grows)))).
    { intros Hlt. destruct k as [|k'].
      - cbn in Hk. lia.
      - rewrite pow2_succ in Hk.
        destruct (IH k' (cap * 2) (S grows) ltac:(lia) ltac:(lia) ltac:(lia) ltac:(lia)) as [H1 H2].
        split; [lia|exact H2]. }
    unfold iteration.
    pose proof (ic_in_bounds _ _ _ _ _ Hc cap Hcap0) as Hib.
    pose proof (ic_errno _ _ _ _ _ Hc cap Hcap0) as Herrno.
    destruct (cr_rc (io_conv ops cap)) eqn:Erc.
    - (* conversion succeeded: flush *)
      pose proof (ic_done _ _ _ _ _ Hc cap Hcap0 Erc) as Hdone.
      destruct (ic_flush_rc _ _ _ _ _ Hc cap Hcap0 Erc) as [Hfl|[Hfl Hlt]]; rewrite Hfl.
      + rewrite Hdone. cbn [Z.eqb negb].
        rewrite (ic_out_units _ _ _ _ _ Hc cap Hcap0 Erc Hfl). cbn [Z.eqb negb fst snd].
        split; [lia|]. left. eexists. reflexivity.
      + apply Hgrow. exact Hlt.
    - apply Hgrow. exact (ic_e2big _ _ _ _ _ Hc cap Hcap0 Erc).
    - pose proof (ic_bad_input _ _ _ _ _ Hc cap Hcap0 (or_introl Erc)) as Hbad.
      cbn [fst snd]. split; [lia|].
      set (b := n - cr_inleft (io_conv ops cap)).
      destruct (scan_end_spec input (Z.to_nat (n - (b + 1))) (b + 1)) as (e & He & Hr);
        [unfold b; lia | fold n; unfold b; lia |].
      fold n in He. rewrite He. right. exists b, e. split; [reflexivity|]. fold n in Hr. unfold b in *. lia.
    - pose proof (ic_bad_input _ _ _ _ _ Hc cap Hcap0 (or_intror Erc)) as Hbad.
      cbn [fst snd]. split; [lia|].
      set (b := n - cr_inleft (io_conv ops cap)).
      destruct (scan_end_spec input (Z.to_nat (n - (b + 1))) (b + 1)) as (e & He & Hr);
        [unfold b; lia | fold n; unfold b; lia |].
      fold n in He. rewrite He. right. exists b, e. split; [reflexivity|]. fold n in Hr. unfold b in *. lia.
    - congruence.
  Qed.

End Decode.

Lemma iconv_decode_nonempty : forall ops input fuel, input <> [] ->
  iconv_decode ops true input fuel =
  if negb (io_open_ok ops) then (O, Crash COSError)
  else let r := dec_loop ops input fuel (Z.of_nat (length input)) O in
       if io_close_ok ops then r else (fst r, Crash COSError).
Proof. intros ops input fuel H. destruct input; [congruence|reflexivity]. Qed.

Lemma iconv_decode_spec : forall ops input need k fuel,
  let n := Z.of_nat (length input) in
  iconv_contract ops n 1 4 need -> n < size_t_max -> 2 * need <= size_t_max ->
  io_open_ok ops = true -> need <= Z.max n 1 * 2 ^ Z.of_nat k -> (k < fuel)%nat ->
  (fst (iconv_decode ops true input fuel) <= k)%nat /\
  good_result n (snd (iconv_decode ops true input fuel)).
Proof.
  intros ops input need k fuel n Hc Hn Hneed Hopen Hk Hf.
  destruct (list_eq_dec N.eq_dec input []) as [->|Hne].
  - cbn. split; [lia|]. left. eexists. reflexivity.
  - rewrite (iconv_decode_nonempty _ _ _ Hne). rewrite Hopen. cbn [negb]. rewrite (ic_close _ _ _ _ _ Hc).
    assert (Hn1 : 1 <= n) by (unfold n; destruct input; [congruence|cbn [length]; lia]).
    fold n. rewrite Z.max_l in Hk by lia.
    destruct (dec_loop_spec ops input need Hc Hn Hneed fuel k n O Hn1 Hn Hk Hf) as [H1 H2]. split; [lia|exact H2].
Qed.

(* ---------------------------------------------------------------- encode *)
Section Encode.
  Variables (ops : iconv_ops) (n need : Z).
  Hypothesis Hc : iconv_contract ops (n * 4) 4 1 need.
  Hypothesis Hn : n * 4 < size_t_max.
  Hypothesis Hneed : 2 * need <= size_t_max.

  Lemma enc_loop_spec : forall fuel k cap grows,
    1 <= cap -> cap < size_t_max -> need <= cap * 2 ^ Z.of_nat k -> (k < fuel)%nat ->
    (fst (enc_loop ops n fuel cap grows) <= grows + k)%nat /\
    good_result n (snd (enc_loop ops n fuel cap grows)).
  Proof.
    induction fuel as [|f IH]; intros k cap grows Hcap1 Hcap2 Hk Hf; [lia|].
    cbn [enc_loop].
    assert (Hcap0 : 0 <= cap) by lia.
    replace (n * 4 <? size_t_max) with true by (symmetry; apply Z.ltb_lt; exact Hn).
    replace (cap <? size_t_max) with true by (symmetry; apply Z.ltb_lt; exact Hcap2).
    cbn [andb negb]. rewrite (ic_reset _ _ _ _ _ Hc cap). cbn [negb].
    assert (Hgrow : cap < need ->
      (fst (enc_loop ops n f (cap * 2) (S grows)) <= grows + k)%nat /\
      good_result n (snd (enc_loop ops n f (cap * 2) (S grows)))).
    { intros Hlt. destruct k as [|k'].
      - cbn in Hk. lia.
      - rewrite pow2_succ in Hk.
        destruct (IH k' (cap * 2) (S grows) ltac:(lia) ltac:(lia) ltac:(lia) ltac:(lia)) as [H1 H2].
        split; [lia|exact H2]. }
    unfold iteration.
    pose proof (ic_in_bounds _ _ _ _ _ Hc cap Hcap0) as Hib.
    pose proof (ic_in_units _ _ _ _ _ Hc cap Hcap0) as Hiu.
    pose proof (ic_errno _ _ _ _ _ Hc cap Hcap0) as Herrno.
    assert (Hpos : 1 <= cr_inleft (io_conv ops cap) ->
      good_result n (Err (n - cr_inleft (io_conv ops cap) / 4, n - cr_inleft (io_conv ops cap) / 4 + 1))).
    { intros Hbad. right. eexists _, _. split; [reflexivity|].
      pose proof (Z.div_mod (cr_inleft (io_conv ops cap)) 4 ltac:(lia)) as Hdm. rewrite Hiu in Hdm. lia. }
    destruct (cr_rc (io_conv ops cap)) eqn:Erc.
    - pose proof (ic_done _ _ _ _ _ Hc cap Hcap0 Erc) as Hdone.
      destruct (ic_flush_rc _ _ _ _ _ Hc cap Hcap0 Erc) as [Hfl|[Hfl Hlt]]; rewrite Hfl.
      + rewrite Hdone. cbn [Z.eqb negb fst snd]. split; [lia|]. left. eexists. reflexivity.
      + apply Hgrow. exact Hlt.
    - apply Hgrow. exact (ic_e2big _ _ _ _ _ Hc cap Hcap0 Erc).
    - cbn [fst snd]. split; [lia|]. apply Hpos. exact (ic_bad_input _ _ _ _ _ Hc cap Hcap0 (or_introl Erc)).
    - cbn [fst snd]. split; [lia|]. apply Hpos. exact (ic_bad_input _ _ _ _ _ Hc cap Hcap0 (or_intror Erc)).
    - congruence.
  Qed.
End Encode.

Lemma first_surrogate_spec : forall s pos i, first_surrogate pos s = Some i -> pos <= i < pos + Z.of_nat (length s).
Proof.
  intros s; induction s as [|c r IH]; intros pos i H; cbn [first_surrogate] in H; [discriminate|].
  cbn [length]. destruct (is_surrogate c).
  - injection H as <-. lia.
  - apply IH in H. lia.
Qed.

Lemma iconv_encode_nonempty : forall ops input fuel, input <> [] ->
  iconv_encode ops true input fuel =
  match first_surrogate 0 input with
  | Some i => (O, Err (i, i + 1))
  | None =>
    if negb (io_open_ok ops) then (O, Crash COSError)
    else let n := Z.of_nat (length input) in
         let r := enc_loop ops n fuel n O in
         if io_close_ok ops then r else (fst r, Crash COSError)
  end.
Proof. intros ops input fuel H. destruct input; [congruence|reflexivity]. Qed.

Lemma iconv_encode_spec : forall ops input need k fuel,
  let n := Z.of_nat (length input) in
  iconv_contract ops (n * 4) 4 1 need -> n * 4 < size_t_max -> 2 * need <= size_t_max ->
  io_open_ok ops = true -> need <= Z.max n 1 * 2 ^ Z.of_nat k -> (k < fuel)%nat ->
  (fst (iconv_encode ops true input fuel) <= k)%nat /\
  good_result n (snd (iconv_encode ops true input fuel)).
Proof.
  intros ops input need k fuel n Hc Hn Hneed Hopen Hk Hf.
  destruct (list_eq_dec N.eq_dec input []) as [->|Hne].
  - cbn. split; [lia|]. left. eexists. reflexivity.
  - rewrite (iconv_encode_nonempty _ _ _ Hne).
    assert (Hn1 : 1 <= n) by (unfold n; destruct input; [congruence|cbn [length]; lia]).
    destruct (first_surrogate 0 input) as [i|] eqn:Es.
    + cbn [fst snd]. split; [lia|]. right. exists i, (i + 1). split; [reflexivity|].
      apply first_surrogate_spec in Es. fold n in Es. lia.
    + rewrite Hopen. cbn [negb]. rewrite (ic_close _ _ _ _ _ Hc).
      cbv zeta. fold n. rewrite Z.max_l in Hk by lia.
      destruct (enc_loop_spec ops n need Hc Hn Hneed fuel k n O Hn1 ltac:(lia) Hk Hf) as [H1 H2].
      split; [lia|exact H2].
Qed.

(* fuel computed from the output size always suffices *)
Lemma loop_fuel_enough : forall need n, 1 <= n -> need <= n * 2 ^ Z.of_nat (Z.to_nat (Z.log2_up need)).
Proof.
  intros need n Hn. rewrite Z2Nat.id by apply Z.log2_up_nonneg.
  destruct (Z_le_gt_dec need 1) as [Hs|Hb].
  - pose proof (Z.pow_pos_nonneg 2 (Z.log2_up need) ltac:(lia) (Z.log2_up_nonneg need)). nia.
  - pose proof (Z.log2_up_spec need ltac:(lia)) as [_ Hu]. nia.
Qed.

(* ---------------------------------------------------------------- the statements used by Props/C20.v *)
Lemma good_result_err : forall n r b e, good_result n r -> r = Err (b, e) -> 0 <= b < e /\ e <= n.
Proof.
  intros n r b e [(out & ->)|(b' & e' & -> & H)] E; [discriminate|]. injection E as <- <-. exact H.
Qed.

Lemma good_result_no_crash : forall n r c, good_result n r -> r <> Crash c.
Proof. intros n r c [(out & ->)|(b' & e' & -> & H)]; discriminate. Qed.

(* the buffer is doubled at most k times when need <= |input| * 2^k; with k+1 iterations of fuel the loop has
   returned (no OutOfFuel), and nothing else crashes *)
Lemma iconv_decode_terminates : forall ops input need k fuel,
  let n := Z.of_nat (length input) in
  iconv_contract ops n 1 4 need -> n < size_t_max -> 2 * need <= size_t_max ->
  io_open_ok ops = true -> need <= Z.max n 1 * 2 ^ Z.of_nat k -> (k < fuel)%nat ->
  (fst (iconv_decode ops true input fuel) <= k)%nat /\
  forall c, snd (iconv_decode ops true input fuel) <> Crash c.
Proof.
  intros ops input need k fuel n Hc Hn Hneed Hopen Hk Hf.
  destruct (iconv_decode_spec ops input need k fuel Hc Hn Hneed Hopen Hk Hf) as [H1 H2].
  split; [exact H1|]. intros c. eapply good_result_no_crash. exact H2.
Qed.

Lemma iconv_encode_terminates : forall ops input need k fuel,
  let n := Z.of_nat (length input) in
  iconv_contract ops (n * 4) 4 1 need -> n * 4 < size_t_max -> 2 * need <= size_t_max ->
  io_open_ok ops = true -> need <= Z.max n 1 * 2 ^ Z.of_nat k -> (k < fuel)%nat ->
  (fst (iconv_encode ops true input fuel) <= k)%nat /\
  forall c, snd (iconv_encode ops true input fuel) <> Crash c.
Proof.
  intros ops input need k fuel n Hc Hn Hneed Hopen Hk Hf.
  destruct (iconv_encode_spec ops input need k fuel Hc Hn Hneed Hopen Hk Hf) as [H1 H2].
  split; [exact H1|]. intros c. eapply good_result_no_crash. exact H2.
Qed.

(* WCHAR_T output needs at most 4 bytes per input byte, EUC-TW (and every stateless multibyte charset of at most
   4 bytes per character) at most 4 bytes per input character: two doublings *)
Lemma iconv_decode_two_doublings : forall ops input need,
  let n := Z.of_nat (length input) in
  iconv_contract ops n 1 4 need -> need <= 4 * n -> n * 8 < size_t_max -> io_open_ok ops = true ->
  (fst (iconv_decode ops true input 3) <= 2)%nat /\ forall c, snd (iconv_decode ops true input 3) <> Crash c.
Proof.
  intros ops input need n Hc H4 Hn Hopen.
  apply (iconv_decode_terminates ops input need 2 3 Hc); try assumption; try lia.
  all: try (change (2 ^ Z.of_nat 2) with 4; lia).
Qed.

Lemma iconv_encode_two_doublings : forall ops input need,
  let n := Z.of_nat (length input) in
  iconv_contract ops (n * 4) 4 1 need -> need <= 4 * n -> n * 8 < size_t_max -> io_open_ok ops = true ->
  (fst (iconv_encode ops true input 3) <= 2)%nat /\ forall c, snd (iconv_encode ops true input 3) <> Crash c.
Proof.
  intros ops input need n Hc H4 Hn Hopen.
  apply (iconv_encode_terminates ops input need 2 3 Hc); try assumption; try lia.
  all: try (change (2 ^ Z.of_nat 2) with 4; lia).
Qed.

Lemma iconv_decode_positions : forall ops input need k fuel b e,
  let n := Z.of_nat (length input) in
  iconv_contract ops n 1 4 need -> n < size_t_max -> 2 * need <= size_t_max ->
  io_open_ok ops = true -> need <= Z.max n 1 * 2 ^ Z.of_nat k -> (k < fuel)%nat ->
  snd (iconv_decode ops true input fuel) = Err (b, e) -> 0 <= b < e /\ e <= n.
Proof.
  intros ops input need k fuel b e n Hc Hn Hneed Hopen Hk Hf E.
  destruct (iconv_decode_spec ops input need k fuel Hc Hn Hneed Hopen Hk Hf) as [_ H2].
  eapply good_result_err; eassumption.
Qed.

Lemma iconv_encode_positions : forall ops input need k fuel b e,
  let n := Z.of_nat (length input) in
  iconv_contract ops (n * 4) 4 1 need -> n * 4 < size_t_max -> 2 * need <= size_t_max ->
  io_open_ok ops = true -> need <= Z.max n 1 * 2 ^ Z.of_nat k -> (k < fuel)%nat ->
  snd (iconv_encode ops true input fuel) = Err (b, e) -> 0 <= b < e /\ e <= n.
Proof.
  intros ops input need k fuel b e n Hc Hn Hneed Hopen Hk Hf E.
  destruct (iconv_encode_spec ops input need k fuel Hc Hn Hneed Hopen Hk Hf) as [_ H2].
  eapply good_result_err; eassumption.
Qed.

(* whatever the output size, the fuel computed from it suffices *)
Lemma iconv_decode_fuel : forall ops input need,
  let n := Z.of_nat (length input) in
  iconv_contract ops n 1 4 need -> n < size_t_max -> 2 * need <= size_t_max -> io_open_ok ops = true ->
  (fst (iconv_decode ops true input (loop_fuel need)) <= Z.to_nat (Z.log2_up need))%nat /\
  forall c, snd (iconv_decode ops true input (loop_fuel need)) <> Crash c.
Proof.
  intros ops input need n Hc Hn Hneed Hopen.
  apply (iconv_decode_terminates ops input need (Z.to_nat (Z.log2_up need)) (loop_fuel need) Hc); try assumption.
  - apply loop_fuel_enough. lia.
  - unfold loop_fuel. lia.
Qed.
